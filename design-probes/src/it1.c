#include "/repo/src/core/inttypes.c"
void janet_panic(const char *m) { __CPROVER_assume(0); }
void janet_panicf(const char *m, ...) { __CPROVER_assume(0); }
int64_t nd_i64(void);
int64_t g_args[4]; int g_n; int64_t g_box;
int64_t unwrap_s64_stub(Janet x) { int64_t v = nd_i64(); if (g_n < 4) g_args[g_n++] = v; return v; }
void *abstract_stub(const JanetAbstractType *t, size_t sz) { return &g_box; }
void arity_stub(int32_t argc, int32_t a, int32_t b) { __CPROVER_assume(argc >= a && (b < 0 || argc <= b)); }
void fixarity_stub(int32_t argc, int32_t a) { __CPROVER_assume(argc == a); }
void h_divf(void) { Janet argv[2]; g_n = 0; cfun_it_s64_divf(2, argv);
  /* postconditions avoiding multiplier */
  int64_t a = g_args[0], b = g_args[1], q = a / b;
  __CPROVER_assert(g_box == q || g_box == q - 1, "floor is q or q-1");
  __CPROVER_assert(((a < 0) == (b < 0)) ==> g_box == q, "same sign: truncation == floor");
}
void h_add(void) { Janet argv[2]; g_n = 0; cfun_it_s64_add(2, argv);
  __CPROVER_assert(g_box == (int64_t)((uint64_t)g_args[0] + (uint64_t)g_args[1]), "wrapping add"); }
void h_divf_b(void) { Janet argv[2]; g_n = 0; cfun_it_s64_divf(2, argv);
  int64_t a = g_args[0], b = g_args[1];
  __CPROVER_assume(a > -32768 && a < 32768 && b > -32768 && b < 32768);
  /* exact floor spec: f*b <= a < (f+1)*b for b>0 ; f*b >= a > (f+1)*b for b<0 */
  int64_t f = g_box;
  if (b > 0) __CPROVER_assert(f * b <= a && a < (f + 1) * b, "floor spec b>0");
  else __CPROVER_assert(f * b >= a && a > (f + 1) * b, "floor spec b<0");
}
int64_t DIVISOR;
void h_divf_c(void) { Janet argv[2]; g_n = 0; cfun_it_s64_divf(2, argv);
  int64_t a = g_args[0], b = g_args[1];
  __CPROVER_assume(b == DIVISOR_CONST);
  int64_t f = g_box;
  __int128 fb = (__int128)f * b, f1b = ((__int128)f + 1) * b;
  if (b > 0) __CPROVER_assert(fb <= a && a < f1b, "floor spec b>0");
  else __CPROVER_assert(fb >= a && a > f1b, "floor spec b<0");
}
