#include "/repo/src/core/peg.c"
void janet_panic(const char *m) { __CPROVER_assume(0); }
void janet_panicf(const char *m, ...) { __CPROVER_assume(0); }
int32_t g_depth0; int g_mode0;
static const uint8_t *peg_rule_c(PegState *s, const uint32_t *rule, const uint8_t *text)
__CPROVER_requires(s->depth >= 1)
__CPROVER_assigns(s->depth, s->mode, s->text_start, s->text_end)
__CPROVER_ensures(s->depth == __CPROVER_old(s->depth))
__CPROVER_ensures(s->mode == __CPROVER_old(s->mode))
__CPROVER_ensures(s->text_end == __CPROVER_old(s->text_end))
__CPROVER_ensures(s->text_start == __CPROVER_old(s->text_start))
;
void h(void) { PegState *s; const uint32_t *rule; const uint8_t *text; peg_rule(s, rule, text); }
