#include "/repo/src/core/ev.c"
void janet_panic(const char *m) { __CPROVER_assume(0); }
void janet_panicf(const char *m, ...) { __CPROVER_assume(0); }

#define WF_Q(q) (((q)->capacity == 0 && (q)->head == 0 && (q)->tail == 0) || \
   ((q)->capacity > 0 && (q)->capacity <= JANET_MAX_Q_CAPACITY && (q)->head >= 0 && (q)->head < (q)->capacity && (q)->tail >= 0 && (q)->tail < (q)->capacity))
#define QCOUNT(q) (((q)->head > (q)->tail) ? ((q)->tail + (q)->capacity - (q)->head) : ((q)->tail - (q)->head))
#define ISZ 8
#define OH __CPROVER_old(q->head)
#define OT __CPROVER_old(q->tail)
#define OC __CPROVER_old(q->capacity)
#define QCOUNT_OLD ((OH > OT) ? (OT + OC - OH) : (OT - OH))
int32_t g_pos; /* ghost logical position */
#define PHYS(q,pos) ((int32_t)(((int64_t)(q)->head + (pos)) % ((q)->capacity ? (q)->capacity : 1)))

static int janet_q_pop_c(JanetQueue *q, void *out, size_t itemsize)
__CPROVER_requires(itemsize == ISZ)
__CPROVER_requires(__CPROVER_is_fresh(q, sizeof(*q)) && WF_Q(q))
__CPROVER_requires(q->capacity == 0 || __CPROVER_is_fresh(q->data, (size_t)q->capacity * ISZ))
__CPROVER_requires(__CPROVER_is_fresh(out, ISZ))
__CPROVER_assigns(q->head, __CPROVER_object_whole(out))
__CPROVER_ensures(WF_Q(q))
__CPROVER_ensures(__CPROVER_return_value == (QCOUNT_OLD == 0))
__CPROVER_ensures(__CPROVER_return_value == 0 ==> QCOUNT(q) == QCOUNT_OLD - 1)
__CPROVER_ensures(__CPROVER_return_value == 0 ==> *(uint64_t*)out == ((uint64_t*)q->data)[__CPROVER_old(q->head)])
__CPROVER_ensures(__CPROVER_return_value == 1 ==> q->head == __CPROVER_old(q->head))
;
void h_pop(void) { JanetQueue *q; void *out; size_t sz; janet_q_pop(q, out, sz); }
