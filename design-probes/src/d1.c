#include <stdint.h>
int64_t nd(void);
void h(void) {
  int64_t op1 = nd(), op2 = nd();
  __CPROVER_assume(op2 != 0);
  __CPROVER_assume(!(op1 == INT64_MIN && op2 == -1));
  int64_t x = op1 / op2;
  int64_t r = x - (((op1 ^ op2) < 0) && (x * op2 != op1));
  int64_t m = op1 % op2;
  int64_t spec = x - ((m != 0) && ((op1 < 0) != (op2 < 0)));
  __CPROVER_assert(r == spec, "floor div");
}
