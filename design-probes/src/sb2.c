#include "/repo/src/core/os.c"
void janet_panic(const char *m) { __CPROVER_assume(0); }
void janet_panicf(const char *m, ...) { __CPROVER_assume(0); }
void janet_panicv(Janet m) { __CPROVER_assume(0); }
void janet_panics(const uint8_t *m) { __CPROVER_assume(0); }
void janet_panic_type(Janet x, int32_t n, int expected) { __CPROVER_assume(0); }
void janet_panic_abstract(Janet x, int32_t n, const JanetAbstractType *at) { __CPROVER_assume(0); }
void janet_signalv(JanetSignal s, Janet m) { __CPROVER_assume(0); }
void janet_await(void) { __CPROVER_assume(0); }
void exit(int c) { __CPROVER_assume(0); }
void _exit(int c) { __CPROVER_assume(0); }
void janet_sandbox_assert(uint32_t forbidden_flags) { if (forbidden_flags & janet_vm.sandbox_flags) janet_panic("x"); }
int nd_int(void); uint32_t nd_u32(void);
#define REQ(flag, name) __CPROVER_assert(!(janet_vm.sandbox_flags & (flag)), "sandbox precondition of " name)
int mkdir(const char *p, mode_t m) { REQ(JANET_SANDBOX_FS_WRITE, "mkdir"); return nd_int(); }
int rmdir(const char *p) { REQ(JANET_SANDBOX_FS_WRITE, "rmdir"); return nd_int(); }
int chdir(const char *p) { REQ(JANET_SANDBOX_FS_READ, "chdir"); return nd_int(); }
int link(const char *a, const char *b) { REQ(JANET_SANDBOX_FS_WRITE, "link"); return nd_int(); }
int symlink(const char *a, const char *b) { REQ(JANET_SANDBOX_FS_WRITE, "symlink"); return nd_int(); }
int utime(const char *a, const struct utimbuf *b) { REQ(JANET_SANDBOX_FS_WRITE, "utime"); return nd_int(); }
int unlink(const char *a) { REQ(JANET_SANDBOX_FS_WRITE, "unlink"); return nd_int(); }
int remove(const char *a) { REQ(JANET_SANDBOX_FS_WRITE, "remove"); return nd_int(); }
int rename(const char *a, const char *b) { REQ(JANET_SANDBOX_FS_WRITE, "rename"); return nd_int(); }
int chmod(const char *a, mode_t m) { REQ(JANET_SANDBOX_FS_WRITE, "chmod"); return nd_int(); }
char *getenv(const char *a) { REQ(JANET_SANDBOX_ENV, "getenv"); return 0; }
int setenv(const char *a, const char *b, int o) { REQ(JANET_SANDBOX_ENV, "setenv"); return nd_int(); }
int unsetenv(const char *a) { REQ(JANET_SANDBOX_ENV, "unsetenv"); return nd_int(); }
pid_t fork(void) { REQ(JANET_SANDBOX_SUBPROCESS, "fork"); return nd_int(); }
int execve(const char *p, char *const a[], char *const e[]) { REQ(JANET_SANDBOX_SUBPROCESS, "execve"); return nd_int(); }
int execvp(const char *p, char *const a[]) { REQ(JANET_SANDBOX_SUBPROCESS, "execvp"); return nd_int(); }
int posix_spawn(pid_t *pid, const char *path, const posix_spawn_file_actions_t *fa, const posix_spawnattr_t *at, char *const argv[], char *const envp[]) { REQ(JANET_SANDBOX_SUBPROCESS, "posix_spawn"); return nd_int(); }
int posix_spawnp(pid_t *pid, const char *path, const posix_spawn_file_actions_t *fa, const posix_spawnattr_t *at, char *const argv[], char *const envp[]) { REQ(JANET_SANDBOX_SUBPROCESS, "posix_spawnp"); return nd_int(); }
int open(const char *p, int fl, ...) { REQ(JANET_SANDBOX_FS, "open(any fs)"); return nd_int(); }
void h_os(void) {
  int32_t argc = nd_int(); Janet argv[4];
  janet_vm.sandbox_flags = nd_u32();
  switch (nd_int()) {
    case 0: os_exit(argc, argv); break;
    case 1: os_which(argc, argv); break;
    case 2: os_arch(argc, argv); break;
    case 3: os_compiler(argc, argv); break;
    case 4: os_cpu_count(argc, argv); break;
    case 5: os_cwd(argc, argv); break;
    case 6: os_cryptorand(argc, argv); break;
    case 7: os_permission_string(argc, argv); break;
    case 8: os_permission_int(argc, argv); break;
    case 9: os_mktime(argc, argv); break;
    case 10: os_time(argc, argv); break;
    case 11: os_date(argc, argv); break;
    case 12: os_strftime(argc, argv); break;
    case 13: os_sleep(argc, argv); break;
    case 14: os_isatty(argc, argv); break;
    case 15: os_setlocale(argc, argv); break;
    case 16: os_environ(argc, argv); break;
    case 17: os_getenv(argc, argv); break;
    case 18: os_setenv(argc, argv); break;
    case 19: os_dir(argc, argv); break;
    case 20: os_stat(argc, argv); break;
    case 21: os_lstat(argc, argv); break;
    case 22: os_chmod(argc, argv); break;
    case 23: os_touch(argc, argv); break;
    case 24: os_realpath(argc, argv); break;
    case 25: os_cd(argc, argv); break;
    case 26: os_umask(argc, argv); break;
    case 27: os_readlink(argc, argv); break;
    case 28: os_mkdir(argc, argv); break;
    case 29: os_rmdir(argc, argv); break;
    case 30: os_remove(argc, argv); break;
    case 31: os_link(argc, argv); break;
    case 32: os_rename(argc, argv); break;
    case 33: os_symlink(argc, argv); break;
    case 34: os_execute(argc, argv); break;
    case 35: os_spawn(argc, argv); break;
    case 36: os_shell(argc, argv); break;
    case 37: os_posix_fork(argc, argv); break;
    case 38: os_posix_exec(argc, argv); break;
    case 39: os_proc_wait(argc, argv); break;
    case 40: os_proc_kill(argc, argv); break;
    case 41: os_proc_close(argc, argv); break;
    case 42: os_proc_getpid(argc, argv); break;
    case 43: os_clock(argc, argv); break;
    case 44: os_open(argc, argv); break;
    case 45: os_pipe(argc, argv); break;
    case 46: os_sigaction(argc, argv); break;
  }
}
