#!/bin/bash
f=$1
python3 mk_sb.py $f || exit 2
goto-cc -I/repo/src/include -I/repo/_build -iquote /repo/src/core -std=c99 -D_FILE_OFFSET_BITS=64 --function h_sb sbx_$f.c -o sbx_$f.gb 2>&1 | grep -v "^$" | cut -c1-200 | tail -3
goto-instrument --generate-function-body '(janet_|nd_).*' --generate-function-body-options nondet-return sbx_$f.gb sbx_$f.1.gb 2>&1 | tail -1 | cut -c1-100
python3 - $f <<'P'
import subprocess,re,json,collections,sys
f=sys.argv[1]
out=subprocess.run(['cbmc','--show-loops',f'sbx_{f}.gb'],capture_output=True,text=True).stdout
loops=collections.defaultdict(list)
for m in re.finditer(r'^Loop (\S+)\.(\d+):',out,re.M): loops[m.group(1)].append(m.group(2))
skip={'strchr','strlen','strcmp','strcpy','strncmp','memcmp','strrchr','strncpy','strcat','strstr'}
def ok(fnlist):
    json.dump({"sources":[f"sbx_{f}.c"],"functions":fnlist},open('try.json','w'))
    r=subprocess.run(['goto-instrument','--dfcc','h_sb','--apply-loop-contracts','--loop-contracts-file','try.json',f'sbx_{f}.1.gb','try.gb'],capture_output=True,text=True)
    return r.returncode==0 and 'Invariant check failed' not in r.stdout+r.stderr
good=[];bad=[]
for k,ids in loops.items():
    if k.startswith('__CPROVER') or k in skip: continue
    ent={k:[{"loop_id":i,"invariants":"1 == 1"} for i in ids]}
    if ok([ent]): good.append(ent)
    else:
        sub=[i for i in ids if ok([{k:[{"loop_id":i,"invariants":"1 == 1"}]}])]
        if sub and ok([{k:[{"loop_id":i,"invariants":"1 == 1"} for i in sub]}]): good.append({k:[{"loop_id":i,"invariants":"1 == 1"} for i in sub]})
        bad+= [f'{k}.{i}' for i in ids if i not in sub]
json.dump({"sources":[f"sbx_{f}.c"],"functions":good},open(f'sbx_{f}.loops.json','w'))
print('loops total',sum(len(v) for v in loops.values()),'contracted',sum(len(list(e.values())[0]) for e in good),'rejected',bad)
P
/usr/bin/time -f "instrument %es" goto-instrument --dfcc h_sb --apply-loop-contracts --loop-contracts-file sbx_$f.loops.json sbx_$f.1.gb sbx_$f.2.gb 2>&1 | grep -v "^Instrumenting\|skipping" | cut -c1-160 | tail -2
/usr/bin/time -f "cbmc %es" timeout 900 cbmc sbx_$f.2.gb --no-standard-checks --unwind 2 --object-bits 13 2>&1 | grep -E "sandbox pre|VERIF|failed|cbmc [0-9]|cover" | cut -c1-140 | sort | uniq -c
