#include "/repo/src/core/marsh.c"
#include <assert.h>

int verif_no_panic;
void janet_panic(const char *m) { __CPROVER_assert(!verif_no_panic, "unexpected panic"); __CPROVER_assume(0); }
void janet_panicf(const char *m, ...) { __CPROVER_assert(!verif_no_panic, "unexpected panic"); __CPROVER_assume(0); }

/* minimal buffer stub w/ fixed storage: real buffer.c probed separately */
static uint8_t store[16];
static int32_t cnt;
void janet_buffer_push_u8(JanetBuffer *b, uint8_t x) { store[cnt++] = x; }
void janet_buffer_push_bytes(JanetBuffer *b, const uint8_t *s, int32_t n) { for (int i=0;i<n;i++) store[cnt++]=s[i]; }

void h_roundtrip(void) {
  int32_t x;
  MarshalState ms; ms.buf = 0;
  cnt = 0;
  pushint(&ms, x);
  UnmarshalState us; us.start = store; us.end = store + cnt;
  const uint8_t *p = store;
  verif_no_panic = 1;
  int32_t y = readint(&us, &p);
  assert(y == x);
  assert(p == store + cnt);
}
