#include "/repo/src/core/gc.c"
void janet_panic(const char *m) { __CPROVER_assume(0); }
void janet_panicf(const char *m, ...) { __CPROVER_assume(0); }
/* ghosts */
int32_t g_idx; JanetFuncEnv *g_child; int g_seen; JanetFuncDef *g_def; int g_seen_def;

static void janet_mark_funcenv_c(JanetFuncEnv *env)
__CPROVER_assigns(g_seen)
__CPROVER_ensures(g_seen == (__CPROVER_old(g_seen) || env == g_child))
;
static void janet_mark_funcdef_c(JanetFuncDef *def)
__CPROVER_assigns(g_seen_def)
__CPROVER_ensures(g_seen_def == (__CPROVER_old(g_seen_def) || def == g_def))
;
static void janet_mark_function_c(JanetFunction *func)
__CPROVER_requires(__CPROVER_is_fresh(func, sizeof(JanetFunction) + sizeof(JanetFuncEnv*) * 64))
__CPROVER_requires(__CPROVER_is_fresh(func->def, sizeof(JanetFuncDef)))
__CPROVER_requires(func->def->environments_length >= 0 && func->def->environments_length <= 64)
__CPROVER_requires(g_idx >= 0 && g_idx < func->def->environments_length && g_child == func->envs[g_idx] && g_def == func->def)
__CPROVER_requires(!g_seen && !g_seen_def)
__CPROVER_requires((func->gc.flags & JANET_MEM_REACHABLE) == 0)
__CPROVER_assigns(g_seen, g_seen_def, func->gc.flags)
__CPROVER_ensures(func->gc.flags & JANET_MEM_REACHABLE)
__CPROVER_ensures(g_seen && g_seen_def)
;
void h(void) { JanetFunction *f; janet_mark_function(f); }
