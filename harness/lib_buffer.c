/* C17 / C04 (C level): the registered C functions of buffer.c not covered by str_buffer_cfun.c - buffer/new, from-bytes,
 * clear, trim, push-byte, push-word, push-string, push, push-uint16/32/64, push-float32/64 - under dfcc contracts.
 * Conventions of str_buffer_cfun.c (wf_buffer, allocator and copy models from seq_common.h; units define SEQ_ELEM_BYTES,
 * SEQ_TRACK_REALLOC). Trusted stubs (capi.c / util.c), each asserting "argument slot index below argc":
 *   janet_getbuffer     -> g_buf (slot 0, any wf_buffer built by the harness)
 *   janet_getinteger    -> low 32 bits of the slot;  janet_getnumber -> the slot's double (slot assumed to be a number)
 *   janet_getuinteger16 / janet_getuinteger / janet_getuinteger64 -> low 16 / 32 / 64 bits of the slot (they return only
 *                          for an unsigned integer of that width; the value is then arbitrary but fixed per slot)
 *   janet_getkeyword + janet_cstrcmp -> the byte order keyword is :le, :be, :native or something else (g_order);
 *                          janet_cstrcmp asserts it is asked about the literals "le" / "be" / "native"
 *   janet_getbytes      -> per pushed slot either the CURRENT bytes of g_buf (buffer pushed onto itself) or a separate
 *                          readable block of any length; the choice and the length are recorded per slot
 *   janet_gcalloc       -> fresh block
 * memcpy: calls are redirected (--replace-calls) to lib_memcpy = the seq_common.h model, except that a copy of at most
 * 8 bytes is carried out exactly (the byte-order code copies a scalar into a local array and permutes it). */
#include "seq_common.h"

JanetBuffer *g_buf;
int32_t g_argc;
int g_foreign;
void *g_new0, *g_new1;
const uint8_t *g_kw;         /* what janet_getkeyword returns */
int g_order;                 /* 0 :le, 1 :be, 2 :native, 3 any other keyword */
#define LIB_MAXSLOT 3
JanetByteView g_bytes;       /* the separate byte sequence */
int g_self[LIB_MAXSLOT];     /* slot k was fetched as the buffer itself */
int32_t g_len[LIB_MAXSLOT];  /* length of the view handed out for slot k */
int g_fetched[LIB_MAXSLOT];

#define SLOT_OK(n) __CPROVER_assert((n) >= 0 && (n) < g_argc, "argument slot index below argc")
#define SLOT_INT(argv, n) ((int32_t)((int64_t)((argv)[n].u64 & 0xFFFFFFFFull) - (((argv)[n].u64 & 0x80000000ull) ? 0x100000000ll : 0ll)))
#define IS_NUM(x) janet_checktype((x), JANET_NUMBER)
void janet_fixarity(int32_t argc, int32_t fix) { __CPROVER_assume(argc == fix); }
void janet_arity(int32_t argc, int32_t min, int32_t max) { __CPROVER_assume(argc >= min && (max < 0 || argc <= max)); }
JanetBuffer *janet_getbuffer(const Janet *argv, int32_t n) { SLOT_OK(n); __CPROVER_assert(n == 0, "buffer is slot 0"); return g_buf; }
int32_t janet_getinteger(const Janet *argv, int32_t n) { SLOT_OK(n); return SLOT_INT(argv, n); }
double janet_getnumber(const Janet *argv, int32_t n) { SLOT_OK(n); __CPROVER_assume(IS_NUM(argv[n])); return janet_unwrap_number(argv[n]); }
uint16_t janet_getuinteger16(const Janet *argv, int32_t n) { SLOT_OK(n); return (uint16_t)(argv[n].u64 & 0xFFFFull); }
uint32_t janet_getuinteger(const Janet *argv, int32_t n) { SLOT_OK(n); return (uint32_t)(argv[n].u64 & 0xFFFFFFFFull); }
uint64_t janet_getuinteger64(const Janet *argv, int32_t n) { SLOT_OK(n); return argv[n].u64; }
const uint8_t *janet_getkeyword(const Janet *argv, int32_t n) { SLOT_OK(n); __CPROVER_assert(n == 1, "byte order keyword is slot 1"); return g_kw; }
int janet_cstrcmp(const uint8_t *str, const char *other) {
  __CPROVER_assert(str == g_kw, "janet_cstrcmp: called with the byte order keyword");
  int which = (other[0] == 'l' && other[1] == 'e' && other[2] == 0) ? 0
            : (other[0] == 'b' && other[1] == 'e' && other[2] == 0) ? 1
            : (other[0] == 'n' && other[1] == 'a' && other[2] == 't' && other[3] == 'i' && other[4] == 'v' && other[5] == 'e' && other[6] == 0) ? 2 : -1;
  __CPROVER_assert(which >= 0, "janet_cstrcmp: compared with \"le\", \"be\" or \"native\"");
  return which == g_order ? 0 : 1;
}
JanetByteView janet_getbytes(const Janet *argv, int32_t n) {
  SLOT_OK(n);
  __CPROVER_assert(n >= 1 && n < LIB_MAXSLOT, "byte view requested for a data slot");
  JanetByteView v;
  if (nd_int()) {
    v.bytes = g_buf->data; v.len = g_buf->count; g_self[n] = 1;
#ifndef LIB_PUSH_SELF_ANY
    /* domain restriction: `buffer->count + view.len` is computed in int32 before janet_buffer_extra's 64-bit check; for a
     * buffer of >= 1 GiB pushed onto itself that sum overflows (formal UB; with wrap-around the call raises "buffer
     * overflow"). Units str.cfun.buffer.push_at.selfhuge / lib.buffer.push_string.selfhuge keep the obligation. */
    __CPROVER_assume(g_buf->count <= INT32_MAX / 2);
#endif
  } else {
    v = g_bytes; g_self[n] = 0;
  }
  g_len[n] = v.len; g_fetched[n]++;
  return v;
}
void *janet_gcalloc(enum JanetMemoryType type, size_t size) {
  void *p = malloc(size);
  __CPROVER_assume(p != SEQ_NULL);
  if (g_new0 == SEQ_NULL) g_new0 = p; else g_new1 = p;
  return p;
}
void *lib_memcpy(void *d, const void *s, size_t n) {
  /* (no call of memcpy in here: --replace-calls would redirect it to this function) */
  __CPROVER_assert(n == 0 || __CPROVER_r_ok(s, n), "memcpy model: source range readable");
  __CPROVER_assert(n == 0 || __CPROVER_w_ok(d, n), "memcpy model: destination range writable");
  __CPROVER_assert(n == 0 || !__CPROVER_same_object(d, s) ||
                   __CPROVER_POINTER_OFFSET(d) + n <= __CPROVER_POINTER_OFFSET(s) ||
                   __CPROVER_POINTER_OFFSET(s) + n <= __CPROVER_POINTER_OFFSET(d), "memcpy model: ranges do not overlap");
  if (n > 8) seq_copy_model(d, s, n);
  else for (size_t k = 0; k < 8; k++) if (k < n) ((uint8_t *)d)[k] = ((const uint8_t *)s)[k];
  return d;
}

/* realloc: calls are redirected to this copy of the seq_common.h model that keeps the elements at TWO ghost indices
 * (g_idx and g_idx2): a self-append relates the byte at a source position and the byte at a destination position, and
 * both must survive a later reallocation. */
int32_t g_idx2;
void *lib_realloc(void *p, size_t n) {
  g_re_called = 1;
  if (nd_int()) return SEQ_NULL;
  uint8_t *q = malloc(n);
  if (q == SEQ_NULL) return SEQ_NULL;
  if (p != SEQ_NULL) {
    if (g_idx >= 0 && (size_t)g_idx < __CPROVER_OBJECT_SIZE(p) && (size_t)g_idx < n) q[g_idx] = ((uint8_t *)p)[g_idx];
    if (g_idx2 >= 0 && (size_t)g_idx2 < __CPROVER_OBJECT_SIZE(p) && (size_t)g_idx2 < n) q[g_idx2] = ((uint8_t *)p)[g_idx2];
    free(p);
  }
  return q;
}

static Janet *mk_args(void) {
  g_argc = nd_i32();
  __CPROVER_assume(g_argc >= 0);
  Janet *argv = malloc((size_t)g_argc * sizeof(Janet));
  __CPROVER_assume(argv != SEQ_NULL);
  g_buf = mk_buffer();
  g_new0 = SEQ_NULL; g_new1 = SEQ_NULL;
  g_kw = malloc(1);
  __CPROVER_assume(g_kw != SEQ_NULL);
  g_bytes.len = nd_i32();
  __CPROVER_assume(g_bytes.len >= 0);
  uint8_t *p = malloc((size_t)g_bytes.len);
  __CPROVER_assume(p != SEQ_NULL);
  g_bytes.bytes = p;
  return argv;
}

#define B_NOREALLOC(b) (((b)->gc.flags & JANET_BUFFER_FLAG_NO_REALLOC) != 0)
#define GHOST_IN(b) (g_idx >= 0 && g_idx < (b)->count)
#define CF_PRE \
  __CPROVER_requires(argc == g_argc && argc >= 0 && __CPROVER_r_ok(argv, (size_t)argc * JSZ)) \
  __CPROVER_requires(WF_BUFFER(g_buf)) \
  __CPROVER_requires(g_oldcount == g_buf->count && g_oldcap == g_buf->capacity && g_re_called == 0 && g_foreign == B_NOREALLOC(g_buf)) \
  __CPROVER_requires(GHOST_IN(g_buf) ==> g_buf->data[g_idx] == g_byte) \
  __CPROVER_requires(g_order >= 0 && g_order <= 3 && __CPROVER_r_ok(g_kw, 1) && g_new0 == SEQ_NULL) \
  __CPROVER_requires(g_bytes.len >= 0 && (g_bytes.len == 0 || __CPROVER_r_ok(g_bytes.bytes, (size_t)g_bytes.len)) && !__CPROVER_same_object(g_bytes.bytes, g_buf->data)) \
  __CPROVER_requires(g_fetched[1] == 0 && g_fetched[2] == 0)
#define CF_FRAME \
  __CPROVER_assigns(g_buf->data, g_buf->capacity, g_buf->count, g_re_called, __CPROVER_object_whole(g_buf->data), g_self[1], g_self[2], g_len[1], g_len[2], g_fetched[1], g_fetched[2]) \
  __CPROVER_frees(g_buf->data)
#define RET_ARG0 __CPROVER_ensures(argc >= 1 && __CPROVER_return_value.u64 == argv[0].u64)
#define NEVER_FOREIGN_REALLOC __CPROVER_ensures(g_foreign ==> (g_re_called == 0 && g_buf->capacity == g_oldcap))
#define PREFIX_KEPT __CPROVER_ensures((g_idx >= 0 && g_idx < g_oldcount) ==> g_buf->data[g_idx] == g_byte)

/* ---- (buffer/push-uint16|32|64 buffer order data), (buffer/push-float32|64 buffer order data): arity 3; order must be
 * :le, :be or :native (else raises); appends exactly the 2 / 4 / 8 bytes of data, least significant byte first for :le
 * (and :native on this little-endian configuration), most significant first for :be; prefix unchanged; raises instead of
 * exceeding INT32_MAX; returns buffer */
static uint32_t f32_bits(double x) { union { float f; uint32_t u; } c; c.f = (float)x; return c.u; }
static uint64_t f64_bits(double x) { union { double d; uint64_t u; } c; c.d = x; return c.u; }
#define ORD_BYTE(val, nbytes) ((uint8_t)(((uint64_t)(val) >> (8 * (g_order == 1 ? (nbytes) - 1 - g_mm : g_mm))) & 0xFF))
#define PUSH_SCALAR(name, nbytes, VAL, EXTRA_PRE) \
static Janet cfun_buffer_push_##name##_c(int32_t argc, Janet *argv) \
CF_PRE EXTRA_PRE CF_FRAME RET_ARG0 NEVER_FOREIGN_REALLOC PREFIX_KEPT \
__CPROVER_ensures(WF_BUFFER(g_buf) && argc == 3 && g_order != 3) \
__CPROVER_ensures((int64_t)g_oldcount + nbytes <= INT32_MAX && g_buf->count == g_oldcount + nbytes) \
__CPROVER_ensures(g_mm < nbytes ==> g_buf->data[g_oldcount + g_mm] == ORD_BYTE(VAL, nbytes)) \
; \
void h_buffer_push_##name(void) { \
  Janet *argv = mk_args(); \
  cfun_buffer_push_##name(g_argc, argv); \
  REACH("buffer/push-" #name " returns"); \
  if (g_order == 1 && g_buf->capacity != g_oldcap) REACH("buffer/push-" #name " returns after growing, big endian"); \
  if (g_order == 0) REACH("buffer/push-" #name " returns, little endian"); \
  if (g_order == 2) REACH("buffer/push-" #name " returns, native order"); \
}
/* (float) x for a finite double beyond the float range: C99 6.3.1.5 leaves it undefined, Annex F / IEEE 754 (assumed by
 * CBMC's float model and by every supported platform) rounds to an infinity; all doubles are in the domain */
#define F32_DOMAIN
PUSH_SCALAR(uint16, 2, argv[2].u64 & 0xFFFFull, )
PUSH_SCALAR(uint32, 4, argv[2].u64 & 0xFFFFFFFFull, )
PUSH_SCALAR(uint64, 8, argv[2].u64, )
PUSH_SCALAR(float32, 4, f32_bits(janet_unwrap_number(argv[2])), F32_DOMAIN)
PUSH_SCALAR(float64, 8, f64_bits(janet_unwrap_number(argv[2])), )

/* ---- (buffer/clear buffer): arity 1; length 0, capacity and block kept (no reallocation); returns buffer */
static Janet cfun_buffer_clear_c(int32_t argc, Janet *argv)
CF_PRE __CPROVER_assigns(g_buf->count) RET_ARG0
__CPROVER_ensures(WF_BUFFER(g_buf) && argc == 1 && g_buf->count == 0 && g_buf->capacity == g_oldcap && g_re_called == 0)
;
void h_buffer_clear(void) { Janet *argv = mk_args(); cfun_buffer_clear(g_argc, argv); REACH("buffer/clear returns");
  if (g_oldcount > 0) REACH("buffer/clear returns for a non-empty buffer"); }

/* ---- (buffer/trim buffer): arity 1; raises for a buffer over foreign memory; capacity becomes max(length, 4) when it was
 * larger than the length (every constructor keeps at least 4 bytes), else unchanged; length and content unchanged */
static Janet cfun_buffer_trim_c(int32_t argc, Janet *argv)
CF_PRE CF_FRAME RET_ARG0 NEVER_FOREIGN_REALLOC PREFIX_KEPT
__CPROVER_ensures(WF_BUFFER(g_buf) && argc == 1 && g_buf->count == g_oldcount && !g_foreign)
__CPROVER_ensures(g_buf->capacity == (g_oldcount < g_oldcap ? (g_oldcount > 4 ? g_oldcount : 4) : g_oldcap))
;
void h_buffer_trim(void) { Janet *argv = mk_args(); cfun_buffer_trim(g_argc, argv); REACH("buffer/trim returns");
  if (g_oldcount > 4 && g_oldcount < g_oldcap) REACH("buffer/trim returns after shrinking"); }

/* ---- (buffer/new capacity): a NEW empty well-formed buffer with room for max(capacity, 4) bytes */
#define NEWBUF ((JanetBuffer *)g_new0)
#define NEW_PRE __CPROVER_requires(argc == g_argc && argc >= 0 && __CPROVER_r_ok(argv, (size_t)argc * JSZ) && g_new0 == SEQ_NULL)
static Janet cfun_buffer_new_c(int32_t argc, Janet *argv)
NEW_PRE __CPROVER_assigns(g_new0, g_new1)
__CPROVER_ensures(argc == 1 && g_new0 != SEQ_NULL && __CPROVER_return_value.u64 == janet_wrap_buffer(NEWBUF).u64)
__CPROVER_ensures(WF_BUFFER(NEWBUF) && NEWBUF->count == 0 && NEWBUF->capacity == (SLOT_INT(argv, 0) < 4 ? 4 : SLOT_INT(argv, 0)))
;
void h_buffer_new(void) { Janet *argv = mk_args(); cfun_buffer_new(g_argc, argv); REACH("buffer/new returns");
  if (NEWBUF->capacity > 4) REACH("buffer/new returns a buffer above the minimum capacity"); }

/* ---- (buffer/from-bytes & byte-vals): "All integers will be coerced to the range of 1 byte 0-255": a NEW buffer of argc
 * bytes, byte i = argument i mod 256 */
int32_t g_j;
static Janet cfun_buffer_frombytes_c(int32_t argc, Janet *argv)
NEW_PRE __CPROVER_assigns(g_new0, g_new1)
__CPROVER_ensures(g_new0 != SEQ_NULL && __CPROVER_return_value.u64 == janet_wrap_buffer(NEWBUF).u64)
__CPROVER_ensures(WF_BUFFER(NEWBUF) && NEWBUF->count == argc)
__CPROVER_ensures((g_j >= 0 && g_j < argc) ==> NEWBUF->data[g_j] == (uint8_t)(SLOT_INT(argv, g_j) & 0xFF))
;
void h_buffer_frombytes(void) { Janet *argv = mk_args(); cfun_buffer_frombytes(g_argc, argv); REACH("buffer/from-bytes returns");
  if (g_argc > 4) REACH("buffer/from-bytes returns for more than four arguments"); }

/* ---- (buffer/push-byte buffer & xs): appends the low byte of every x in order; prefix unchanged; raises instead of
 * exceeding INT32_MAX; returns buffer */
static Janet cfun_buffer_u8_c(int32_t argc, Janet *argv)
CF_PRE CF_FRAME RET_ARG0 NEVER_FOREIGN_REALLOC PREFIX_KEPT
#ifdef LIB_MAXARGC
__CPROVER_requires(argc <= LIB_MAXARGC)
#endif
__CPROVER_ensures(WF_BUFFER(g_buf) && (int64_t)g_buf->count == (int64_t)g_oldcount + argc - 1)
/* (content is stated at the ghost position g_idx, the position the allocator model preserves across reallocations) */
__CPROVER_ensures((g_idx >= g_oldcount && g_idx < g_buf->count) ==> g_buf->data[g_idx] == (uint8_t)(SLOT_INT(argv, g_idx - g_oldcount + 1) & 0xFF))
;
void h_buffer_u8(void) { Janet *argv = mk_args(); cfun_buffer_u8(g_argc, argv); REACH("buffer/push-byte returns");
  if (g_argc > 2 && g_buf->capacity != g_oldcap) REACH("buffer/push-byte returns after growing"); }

/* ---- (buffer/push-word buffer & xs): every x must be an integer in [0, 2^32) (else raises); appends its 4 bytes in
 * little-endian order; prefix unchanged; returns buffer */
#define WORD_X(argv, k) janet_unwrap_number((argv)[k])
#ifdef LIB_WORD_ANY_DOUBLE
#define WORD_DOMAIN(argv, k) 1
#else
/* domain restriction: (uint32_t) x is undefined for a double outside (-1, 2^32) and for NaN (C99 6.3.1.4). On x86-64 and
 * AArch64 the converted value then differs from x and the call raises as documented. Unit lib.buffer.push_word.anydouble
 * keeps the obligation. */
#define WORD_DOMAIN(argv, k) (!IS_NUM((argv)[k]) || (WORD_X(argv, k) > -1.0 && WORD_X(argv, k) < 4294967296.0))
#endif
#define WORD_OK(argv, k) (WORD_X(argv, k) >= 0.0 && WORD_X(argv, k) < 4294967296.0 && WORD_X(argv, k) == (double)(uint32_t)WORD_X(argv, k))
static Janet cfun_buffer_word_c(int32_t argc, Janet *argv)
CF_PRE CF_FRAME RET_ARG0 NEVER_FOREIGN_REALLOC PREFIX_KEPT
#ifdef LIB_MAXARGC
__CPROVER_requires(argc <= LIB_MAXARGC)
#endif
__CPROVER_requires((g_j >= 1 && g_j < argc) ==> WORD_DOMAIN(argv, g_j))
__CPROVER_requires((argc > 1 ==> WORD_DOMAIN(argv, 1)) && (argc > 2 ==> WORD_DOMAIN(argv, 2)) && (argc > 3 ==> WORD_DOMAIN(argv, 3)))
__CPROVER_ensures(WF_BUFFER(g_buf) && (int64_t)g_buf->count == (int64_t)g_oldcount + 4 * ((int64_t)argc - 1))
__CPROVER_ensures((g_j >= 1 && g_j < argc) ==> WORD_OK(argv, g_j))
__CPROVER_ensures((g_idx >= g_oldcount && g_idx < g_buf->count) ==> g_buf->data[g_idx] == (uint8_t)(((uint32_t)WORD_X(argv, (g_idx - g_oldcount) / 4 + 1) >> (8 * ((g_idx - g_oldcount) % 4))) & 0xFF))
;
void h_buffer_word(void) { Janet *argv = mk_args(); cfun_buffer_word(g_argc, argv); REACH("buffer/push-word returns");
  if (g_argc > 2 && g_buf->capacity != g_oldcap) REACH("buffer/push-word returns after growing"); }

/* ---- (buffer/push-string buffer & xs) / (buffer/push buffer & xs): the byte sequences (push: a number pushes its low
 * byte) are appended in order - possibly the buffer itself, whose content AT THAT MOMENT is appended; prefix unchanged;
 * raises instead of exceeding INT32_MAX; foreign memory never reallocated; returns buffer.
 * Lengths: L1 / L2 = length of what slot 1 / 2 contributes, C1 = length after slot 1. Content is stated at the ghost
 * positions g_idx (destination) and g_idx2 (source of a self-append) - the positions the allocator model preserves. */
#define ITEM_NUM(argv, k) (g_push_numbers && IS_NUM((argv)[k]))
#define L_OF(argv, k) ((int64_t)(ITEM_NUM(argv, k) ? 1 : g_len[k]))
#define C1(argv) ((int64_t)g_oldcount + (argc > 1 ? L_OF(argv, 1) : 0))
#define C2(argv) (C1(argv) + (argc > 2 ? L_OF(argv, 2) : 0))
#define ITEM_POST(argv, k, start) \
  __CPROVER_ensures((argc > (k) && ITEM_NUM(argv, k) && (start) == g_idx) ==> g_buf->data[g_idx] == (uint8_t)(SLOT_INT(argv, k) & 0xFF)) \
  __CPROVER_ensures((argc > (k) && !ITEM_NUM(argv, k)) ==> (g_fetched[k] == 1 && g_len[k] == (g_self[k] ? (start) : (int64_t)g_bytes.len))) \
  __CPROVER_ensures((argc > (k) && !ITEM_NUM(argv, k) && !g_self[k] && g_mm < (size_t)g_bytes.len && (start) + (int64_t)(g_mm & 0x7FFFFFFF) == g_idx) ==> g_buf->data[g_idx] == g_bytes.bytes[g_mm]) \
  __CPROVER_ensures((argc > (k) && !ITEM_NUM(argv, k) && g_self[k] && g_mm < (size_t)(start) && (start) + (int64_t)(g_mm & 0x7FFFFFFF) == g_idx && (int64_t)(g_mm & 0x7FFFFFFF) == g_idx2) ==> g_buf->data[g_idx] == g_buf->data[g_idx2])
int g_push_numbers;
#ifndef LIB_PUSH_MAXARGC
#define LIB_PUSH_MAXARGC LIB_MAXSLOT
#endif
#define PUSH_CONTRACT(fn) \
static Janet fn##_c(int32_t argc, Janet *argv) \
CF_PRE \
__CPROVER_requires(argc <= LIB_PUSH_MAXARGC)        /* bound: the argument loop is unwound */ \
CF_FRAME RET_ARG0 NEVER_FOREIGN_REALLOC PREFIX_KEPT \
__CPROVER_ensures(WF_BUFFER(g_buf) && C2(argv) <= INT32_MAX && (int64_t)g_buf->count == C2(argv)) \
ITEM_POST(argv, 1, (int64_t)g_oldcount) \
ITEM_POST(argv, 2, C1(argv)) \
;
PUSH_CONTRACT(cfun_buffer_chars)
PUSH_CONTRACT(cfun_buffer_push)
void h_buffer_chars(void) {
  Janet *argv = mk_args();
  g_push_numbers = 0;
  cfun_buffer_chars(g_argc, argv);
  REACH("buffer/push-string returns");
#if LIB_PUSH_MAXARGC >= 3
  if (g_argc == 3 && g_self[1] && !g_self[2] && g_oldcount > 1 && g_bytes.len > 1) REACH("buffer/push-string returns after pushing the buffer itself and a string");
  if (g_argc == 3 && !g_self[1] && g_self[2] && g_buf->capacity != g_oldcap) REACH("buffer/push-string returns after pushing a string and the grown buffer itself");
#else
  if (g_argc == 2 && g_self[1] && g_oldcount > 1 && g_buf->capacity != g_oldcap) REACH("buffer/push-string returns after pushing the buffer onto itself with reallocation");
  if (g_argc == 2 && g_self[1] && g_oldcount > 1 && g_buf->capacity == g_oldcap) REACH("buffer/push-string returns after pushing the buffer onto itself in place");
  if (g_argc == 2 && !g_self[1] && g_bytes.len > 1) REACH("buffer/push-string returns after pushing a string");
#endif
}
void h_buffer_push(void) {
  Janet *argv = mk_args();
  g_push_numbers = 1;
  cfun_buffer_push(g_argc, argv);
  REACH("buffer/push returns");
#if LIB_PUSH_MAXARGC >= 3
  if (g_argc == 3 && IS_NUM(argv[1]) && !IS_NUM(argv[2]) && g_self[2] && g_oldcount > 1) REACH("buffer/push returns after pushing a byte and the buffer itself");
  if (g_argc == 3 && !IS_NUM(argv[1]) && !g_self[1] && IS_NUM(argv[2]) && g_buf->capacity != g_oldcap) REACH("buffer/push returns after pushing a string and a byte");
#else
  if (g_argc == 2 && IS_NUM(argv[1]) && g_buf->capacity != g_oldcap) REACH("buffer/push returns after pushing a byte with reallocation");
  if (g_argc == 2 && !IS_NUM(argv[1]) && g_self[1] && g_oldcount > 1) REACH("buffer/push returns after pushing the buffer onto itself");
  if (g_argc == 2 && !IS_NUM(argv[1]) && !g_self[1] && g_bytes.len > 1) REACH("buffer/push returns after pushing a string");
#endif
}
