/* C15 (component level): small-immediate operands.  cfuns.c can_be_imm decides whether a constant operand of a
 * specialised core function (+ - * / < > = ... with a literal argument) may be encoded in the 8-bit immediate field of
 * the *_IMMEDIATE instructions.  The specialised form computes the same result only if the immediate IS the operand:
 *   can_be_imm returns 1  iff  the value IS the IEEE double of an integer k with -128 <= k <= 127 (negative zero is not: as
 *   an immediate it would turn into +0 and (/ 1 -0.0), (* x -0.0), (+ -0.0 -0.0) change their result), and then *out == k;
 *   otherwise it returns 0 and leaves *out alone.
 * "iff" is stated with a ghost integer g_k in [-128,127] that is left unconstrained (DESIGN R2): if the value equals
 * g_k the function must accept and produce g_k; if it accepts, the produced byte must equal the value.
 * The real janet_checkint (util.c) is linked in; Janet values are the build's nan-boxed representation. */
#include "prelude.h"

#define NEGZERO(x) ((x).u64 == 0x8000000000000000ull)
int32_t g_k;      /* ghost: any integer in the immediate range */
int8_t g_out0;    /* ghost: *out at entry */

static int can_be_imm_c(Janet x, int8_t *out)
__CPROVER_requires(__CPROVER_is_fresh(out, sizeof(*out)))
__CPROVER_requires(g_k >= -128 && g_k <= 127 && g_out0 == *out)
__CPROVER_assigns(*out)
__CPROVER_ensures(__CPROVER_return_value == 0 || __CPROVER_return_value == 1)
/* accepted => it is a number and the immediate equals it (so it is an integer in [-128,127]) */
__CPROVER_ensures(__CPROVER_return_value == 1 ==> (janet_checktype(x, JANET_NUMBER) && janet_unwrap_number(x) == (double)*out && !NEGZERO(x)))
/* every number equal to an integer of the range is accepted, with that integer */
__CPROVER_ensures((janet_checktype(x, JANET_NUMBER) && janet_unwrap_number(x) == (double)g_k && !NEGZERO(x)) ==> (__CPROVER_return_value == 1 && *out == g_k))
/* rejected => nothing written */
__CPROVER_ensures(__CPROVER_return_value == 0 ==> *out == g_out0)
;

void h_can_be_imm(void) {
  Janet x; int8_t *out;
  x.u64 = nd_u64();      /* explicit: an uninitialised union is not read back consistently through its members (R-pitfall) */
  int r = can_be_imm(x, out);
  REACH("normal return of can_be_imm");
}

/* can_slot_be_imm: only constant slots can be immediates; same answer as can_be_imm on the slot's constant */
static int can_slot_be_imm_c(JanetSlot s, int8_t *out)
__CPROVER_requires(__CPROVER_is_fresh(out, sizeof(*out)))
__CPROVER_requires(g_k >= -128 && g_k <= 127 && g_out0 == *out)
__CPROVER_assigns(*out)
__CPROVER_ensures(__CPROVER_return_value == 0 || __CPROVER_return_value == 1)
__CPROVER_ensures(__CPROVER_return_value == 1 ==> ((s.flags & JANET_SLOT_CONSTANT) != 0 && janet_checktype(s.constant, JANET_NUMBER) && janet_unwrap_number(s.constant) == (double)*out && !NEGZERO(s.constant)))
__CPROVER_ensures(((s.flags & JANET_SLOT_CONSTANT) != 0 && janet_checktype(s.constant, JANET_NUMBER) && janet_unwrap_number(s.constant) == (double)g_k && !NEGZERO(s.constant)) ==> (__CPROVER_return_value == 1 && *out == g_k))
__CPROVER_ensures(__CPROVER_return_value == 0 ==> *out == g_out0)
;

void h_can_slot_be_imm(void) {
  JanetSlot s; int8_t *out;
  s.constant.u64 = nd_u64(); s.flags = nd_u32(); s.index = nd_i32(); s.envindex = nd_i32();
  int r = can_slot_be_imm(s, out);
  REACH("normal return of can_slot_be_imm");
}
