/* C01: janet_mark_struct - walks the prototype chain of a struct.  For every struct the walk reaches (all earlier ones unmarked on
 * entry) the head is marked on exit and janet_mark_kvs is handed (st, capacity) - all buckets, keys and values.
 * BOUNDED: pointer-chasing loop (DESIGN R14) - chain length <= 3, unwinding assertion on. */
#include "gc_mark.h"
JanetStructHead *g_h0, *g_h1, *g_h2;   /* ghost: the blocks of the chain; the routine receives interior pointers head->data */
int g_lvl; int32_t g_f0, g_f1, g_f2;

#define NOPROTO ((const JanetKV *) 0)
#define HAS1 (g_h0->proto != NOPROTO)
#define HAS2 (HAS1 && g_h1->proto != NOPROTO)
#define UNM(f) (((f) & JANET_MEM_REACHABLE) == 0)
#define REACH0 (UNM(g_f0))
#define REACH1 (REACH0 && HAS1 && UNM(g_f1))
#define REACH2 (REACH1 && HAS2 && UNM(g_f2))

static void janet_mark_struct_spec(const JanetKV *st)
__CPROVER_requires(__CPROVER_is_fresh(g_h0, sizeof(JanetStructHead)))
__CPROVER_requires(__CPROVER_pointer_equals(st, g_h0->data))
__CPROVER_requires(g_h0->proto == NOPROTO || (__CPROVER_is_fresh(g_h1, sizeof(JanetStructHead)) && __CPROVER_pointer_equals(g_h0->proto, g_h1->data)))
__CPROVER_requires(g_h0->proto == NOPROTO || g_h1->proto == NOPROTO || (__CPROVER_is_fresh(g_h2, sizeof(JanetStructHead)) && __CPROVER_pointer_equals(g_h1->proto, g_h2->data)))
/* bound: chain of at most 3 structs */
__CPROVER_requires(HAS2 ==> g_h2->proto == NOPROTO)
__CPROVER_requires(g_f0 == g_h0->gc.flags && g_f1 == (HAS1 ? g_h1->gc.flags : 0) && g_f2 == (HAS2 ? g_h2->gc.flags : 0))
__CPROVER_requires(g_lvl >= 0 && g_lvl <= 2 && g_w_kind == W_KVS)
__CPROVER_requires(g_lvl == 0 ==> (g_w_base == (const void *) g_h0->data && g_w_n == g_h0->capacity))
__CPROVER_requires((g_lvl == 1 && HAS1) ==> (g_w_base == (const void *) g_h1->data && g_w_n == g_h1->capacity))
__CPROVER_requires((g_lvl == 2 && HAS2) ==> (g_w_base == (const void *) g_h2->data && g_w_n == g_h2->capacity))
__CPROVER_requires(!g_w_seen && g_w_calls == 0)
__CPROVER_assigns(g_h0->gc.flags, g_w_seen, g_w_calls)
__CPROVER_assigns(HAS1: g_h1->gc.flags)
__CPROVER_assigns(HAS2: g_h2->gc.flags)
/* C01: each struct the walk reaches is marked ... */
__CPROVER_ensures(REACH0 ==> g_h0->gc.flags == (g_f0 | JANET_MEM_REACHABLE))
__CPROVER_ensures(REACH1 ==> g_h1->gc.flags == (g_f1 | JANET_MEM_REACHABLE))
__CPROVER_ensures(REACH2 ==> g_h2->gc.flags == (g_f2 | JANET_MEM_REACHABLE))
/* ... and all its buckets are handed to janet_mark_kvs */
__CPROVER_ensures((g_lvl == 0 && REACH0) ==> g_w_seen)
__CPROVER_ensures((g_lvl == 1 && REACH1) ==> g_w_seen)
__CPROVER_ensures((g_lvl == 2 && REACH2) ==> g_w_seen)
__CPROVER_ensures(g_w_calls == (REACH0 ? 1u : 0u) + (REACH1 ? 1u : 0u) + (REACH2 ? 1u : 0u))
/* structs not reached keep their header */
__CPROVER_ensures(!REACH0 ==> g_h0->gc.flags == g_f0)
__CPROVER_ensures((HAS1 && !REACH1) ==> g_h1->gc.flags == g_f1)
__CPROVER_ensures((HAS2 && !REACH2) ==> g_h2->gc.flags == g_f2)
;

void h_mark_struct(void) {
  const JanetKV *s;
  janet_mark_struct(s);
  REACH("janet_mark_struct returns");
}
