/* C02 "evaluating any well-formed program ... yields exactly the value, the order of side effects ..." - function calls and
 * data constructors (compile.c): janetc_pushslots, janetc_call, janetc_toslots, janetc_toslotskv, janetc_maker and the call
 * case of janetc_value.  The emitters are recording stubs: the ghost ARGUMENT STACK cl_pushed[] is what the emitted
 * PUSH / PUSH_2 / PUSH_3 / PUSH_ARRAY instructions build at run time (vm.c: PUSH pushes stack[D]; PUSH_2 stack[A], stack[E];
 * PUSH_3 stack[A], stack[B], stack[C]; PUSH_ARRAY every element of stack[D]), followed by the record of the CALL / TAILCALL /
 * MAKE_* instruction that consumes it.  Slots are identified by a number (cl_id).
 *
 * Language rules used: arguments are evaluated and passed strictly left to right; a spliced argument contributes its
 * elements at its position; the callee is evaluated before the arguments; a call in tail position may replace the frame
 * (TAILCALL) and ONLY a call in tail position may; arrays, tables and buffers are fresh objects on every evaluation. */
#include "prelude.h"

#ifndef CL_MAXN
#define CL_MAXN 7
#endif
static JanetCompiler cl_c;
static JanetScope cl_scope;
static struct { int32_t cap, cnt; JanetSlot data[CL_MAXN + 3]; } cl_slotmem;

static int32_t cl_id(JanetSlot s) { return (s.flags & JANET_SLOT_CONSTANT) ? (int32_t) s.constant.as.u64 : s.index; }

/* ---- ghost argument stack and instruction record */
static int32_t cl_pushed[CL_MAXN + 3]; static int cl_pushed_spliced[CL_MAXN + 3]; static int cl_npushed;
static int cl_consumed;            /* a CALL / TAILCALL / MAKE_* has been emitted */
static int cl_calls, cl_tailcalls, cl_makes, cl_push_after_consume, cl_other_instr;
static JanetSlot cl_call_dest, cl_call_fun; static int cl_call_wr; static uint8_t cl_make_op;
static int cl_events;
static void cl_push(JanetSlot s, int as_array) {
    if (cl_consumed) cl_push_after_consume = 1;
    if (as_array) __CPROVER_assert(s.flags & JANET_SLOT_SPLICED, "comp.call: only a spliced argument is pushed element-wise (PUSH_ARRAY)");
    else __CPROVER_assert(!(s.flags & JANET_SLOT_SPLICED), "comp.call: a spliced argument is never pushed as a single value");
    if (cl_npushed < CL_MAXN + 3) { cl_pushed[cl_npushed] = cl_id(s); cl_pushed_spliced[cl_npushed] = as_array; }
    cl_npushed++;
}
int32_t cl_emit_s_stub(JanetCompiler *c, uint8_t op, JanetSlot s, int wr) {
    cl_events++;
    if (op == JOP_PUSH) { __CPROVER_assert(!wr, "comp.call: a push does not write its operand"); cl_push(s, 0); }
    else if (op == JOP_PUSH_ARRAY) { __CPROVER_assert(!wr, "comp.call: a push does not write its operand"); cl_push(s, 1); }
    else if (op == JOP_TAILCALL) { __CPROVER_assert(!wr, "comp.call: a tail call writes no register"); cl_tailcalls++; cl_call_fun = s; cl_consumed = 1; }
    else if (op == JOP_MAKE_ARRAY || op == JOP_MAKE_BUFFER || op == JOP_MAKE_STRING || op == JOP_MAKE_STRUCT || op == JOP_MAKE_TABLE ||
             op == JOP_MAKE_TUPLE || op == JOP_MAKE_BRACKET_TUPLE) { cl_makes++; cl_make_op = op; cl_call_dest = s; cl_call_wr = wr; cl_consumed = 1; }
    else if (op == JOP_RETURN) { cl_other_instr++; }
    else cl_other_instr++;
    return 0;
}
int32_t cl_emit_ss_stub(JanetCompiler *c, uint8_t op, JanetSlot s1, JanetSlot s2, int wr) {
    cl_events++;
    if (op == JOP_PUSH_2) { __CPROVER_assert(!wr, "comp.call: a push does not write its operand"); cl_push(s1, 0); cl_push(s2, 0); }
    else if (op == JOP_CALL) { cl_calls++; cl_call_dest = s1; cl_call_fun = s2; cl_call_wr = wr; cl_consumed = 1; }
    else cl_other_instr++;
    return 0;
}
int32_t cl_emit_sss_stub(JanetCompiler *c, uint8_t op, JanetSlot s1, JanetSlot s2, JanetSlot s3, int wr) {
    cl_events++;
    if (op == JOP_PUSH_3) { __CPROVER_assert(!wr, "comp.call: a push does not write its operand"); cl_push(s1, 0); cl_push(s2, 0); cl_push(s3, 0); }
    else cl_other_instr++;
    return 0;
}
/* ---- slot bookkeeping */
static int cl_freed[CL_MAXN + 3]; static int cl_free_other; static int cl_vec_freed; static int cl_free_before_consume;
static int32_t cl_head_freed_at = -1;
void cl_freeslot_stub(JanetCompiler *c, JanetSlot s) {
    int32_t id = cl_id(s);
    if (id >= 1000 && id < 1000 + CL_MAXN + 3) cl_freed[id - 1000]++;
    else if (id >= 500 && id < 500 + CL_MAXN + 3) cl_freed[id - 500]++;
    else if (id == 2000) cl_head_freed_at = cl_events;
    else cl_free_other++;
    if (!cl_consumed) cl_free_before_consume = 1;
}
void cl_sfree_stub(void *p) { if (p == (void *) &cl_slotmem) cl_vec_freed++; }
static int32_t cl_far_next = 4000;
int32_t cl_allocfar_stub(JanetCompiler *c) { return cl_far_next++; }
const uint8_t *cl_formatc_stub(const char *format, ...) { static uint8_t msg[4]; return msg; }
const uint8_t *cl_cstring_stub(const char *s) { static uint8_t msg2[4]; return msg2; }

/* ---- argument vector */
static int32_t cl_count; static int cl_nspliced;
static void cl_mkslots(int allow_splice, int all_constant) {
    cl_count = nd_i32();
    __CPROVER_assume(cl_count >= 0 && cl_count <= CL_MAXN);
    cl_slotmem.cap = CL_MAXN + 3; cl_slotmem.cnt = cl_count;
    cl_nspliced = 0;
    for (int i = 0; i < CL_MAXN; i++) {
        JanetSlot s; s.envindex = -1; s.constant.type = JANET_NIL; s.constant.as.u64 = 0;
        uint32_t fl = nd_u32() & (JANET_SLOTTYPE_ANY | JANET_SLOT_NAMED | JANET_SLOT_MUTABLE | (allow_splice ? JANET_SLOT_SPLICED : 0));
        if (all_constant || nd_int()) { s.flags = fl | JANET_SLOT_CONSTANT; s.index = -1; s.constant.type = JANET_NUMBER; s.constant.as.u64 = 500 + (uint64_t) i; }
        else { s.flags = fl; s.index = 1000 + i; }
        cl_slotmem.data[i] = s;
        if (i < cl_count && (s.flags & JANET_SLOT_SPLICED)) cl_nspliced++;
    }
}
static void cl_init(void) {
    cl_c.scope = &cl_scope; cl_scope.parent = (JanetScope *)0; cl_scope.flags = JANET_SCOPE_FUNCTION;
    cl_c.result.status = JANET_COMPILE_OK;
    cl_c.recursion_guard = 100;
    cl_npushed = cl_consumed = cl_calls = cl_tailcalls = cl_makes = cl_push_after_consume = cl_other_instr = cl_events = 0;
    cl_free_other = cl_vec_freed = cl_free_before_consume = 0; cl_head_freed_at = -1; cl_far_next = 4000;
    for (int i = 0; i < CL_MAXN + 3; i++) cl_freed[i] = 0;
}
/* the ghost stack equals the argument vector, position by position */
static void cl_check_pushed(void) {
    __CPROVER_assert(cl_npushed == cl_count, "comp.call: every argument is pushed exactly once");
    int32_t g = nd_i32();
    __CPROVER_assume(g >= 0 && g < cl_count);
    __CPROVER_assert(cl_pushed[g] == cl_id(cl_slotmem.data[g]), "comp.call: arguments are pushed strictly left to right (position k of the argument stack is argument k)");
    __CPROVER_assert(cl_pushed_spliced[g] == ((cl_slotmem.data[g].flags & JANET_SLOT_SPLICED) != 0), "comp.call: a spliced argument is spliced at its own position");
}
static void cl_check_freed(void) {
    int32_t g = nd_i32();
    __CPROVER_assume(g >= 0 && g < cl_count);
    __CPROVER_assert(cl_freed[g] == 1 && cl_free_other == 0, "comp.call: every argument slot is released exactly once");
    __CPROVER_assert(cl_vec_freed == 1, "comp.call: the argument vector is released");
}

/* ================================================================== janetc_pushslots */
void h_pushslots(void) {
    cl_init(); cl_mkslots(1, 0);
    int32_t r = janetc_pushslots(&cl_c, cl_slotmem.data);
    cl_check_pushed();
    __CPROVER_assert(cl_other_instr == 0 && !cl_consumed, "comp.call: pushslots emits pushes only");
    if (cl_nspliced == 0) { __CPROVER_assert(r == cl_count, "comp.call: without a splice the result is the exact argument count"); REACH("pushslots: fixed arity"); }
    else { __CPROVER_assert(r == -1 - (cl_count - cl_nspliced), "comp.call: with a splice the result encodes the minimum argument count"); REACH("pushslots: spliced"); }
    if (cl_count == CL_MAXN) REACH("pushslots: longest vector");
}

/* ================================================================== janetc_call */
static JanetFunction cl_fn; static JanetFuncDef cl_def;
static int cl_funopt_calls, cl_can_calls, cl_opt_calls, cl_can_answer, cl_have_opt, cl_have_can;
static int cl_can(JanetFopts opts, JanetSlot *args) { cl_can_calls++; __CPROVER_assert(args == cl_slotmem.data, "comp.call: the optimizer sees the argument vector"); return cl_can_answer; }
static JanetSlot cl_opt(JanetFopts opts, JanetSlot *args) {
    cl_opt_calls++; cl_consumed = 1;
    __CPROVER_assert(args == cl_slotmem.data, "comp.call: the optimizer sees the argument vector");
    JanetSlot s; s.constant.type = JANET_NIL; s.constant.as.u64 = 0; s.index = 3000; s.envindex = -1; s.flags = 0; return s;
}
static JanetFunOptimizer cl_optimizer;
const JanetFunOptimizer *cl_funopt_stub(uint32_t flags) {
    cl_funopt_calls++;
    __CPROVER_assert(flags == (uint32_t) cl_def.flags, "comp.call: the optimizer is chosen by the callee's definition flags");
    if (!cl_have_opt) return (const JanetFunOptimizer *)0;
    cl_optimizer.can_optimize = cl_have_can ? cl_can : (int (*)(JanetFopts, JanetSlot *))0;
    cl_optimizer.optimize = cl_opt;
    return &cl_optimizer;
}
void h_call(void) {
    cl_init(); cl_mkslots(1, 0);
    cl_funopt_calls = cl_can_calls = cl_opt_calls = 0;
    cl_can_answer = nd_int() & 1; cl_have_opt = nd_int() & 1; cl_have_can = nd_int() & 1;
    cl_scope.flags = nd_int() & (JANET_SCOPE_FUNCTION | JANET_SCOPE_TOP | JANET_SCOPE_WHILE | JANET_SCOPE_CLOSURE | JANET_SCOPE_ENV);
    /* the callee: a local, or a constant of any type; a constant function has a definition with an arity */
    JanetSlot fun; fun.envindex = -1; fun.constant.type = JANET_NIL; fun.constant.as.u64 = 0;
    int fun_const = nd_int() & 1;
    uint32_t fty = nd_u32();
    __CPROVER_assume(fty <= JANET_POINTER);
    if (fun_const) {
        fun.flags = JANET_SLOT_CONSTANT | (1u << fty); fun.index = -1; fun.constant.type = (JanetType) fty; fun.constant.as.u64 = 2000;
        if (fty == JANET_FUNCTION) { fun.constant.as.pointer = &cl_fn; }
    } else { fun.flags = nd_u32() & (JANET_SLOTTYPE_ANY | JANET_SLOT_NAMED | JANET_SLOT_MUTABLE); fun.index = 2000; }
    cl_fn.def = &cl_def; cl_def.flags = nd_i32(); cl_def.min_arity = nd_i32(); cl_def.max_arity = nd_i32();
    __CPROVER_assume(cl_def.min_arity >= 0 && cl_def.min_arity <= 100 && cl_def.max_arity >= -1 && cl_def.max_arity <= 100);
    JanetFopts opts; opts.compiler = &cl_c;
    opts.flags = nd_u32() & (JANET_FOPTS_TAIL | JANET_FOPTS_HINT | JANET_FOPTS_DROP | JANET_FOPTS_ACCEPT_SPLICE | JANET_SLOTTYPE_ANY);
    opts.hint.constant.type = JANET_NIL; opts.hint.constant.as.u64 = 0; opts.hint.flags = nd_u32() & JANET_SLOTTYPE_ANY;
    opts.hint.envindex = nd_int() ? -1 : 1; opts.hint.index = nd_i32();
    __CPROVER_assume(opts.hint.index >= -1 && opts.hint.index <= 0xFFFF);
    int tail = (opts.flags & JANET_FOPTS_TAIL) != 0;

    JanetSlot ret = janetc_call(opts, cl_slotmem.data, fun);

    __CPROVER_assert(!cl_free_before_consume, "comp.call: the argument slots stay allocated until the call (or its specialisation) is emitted");
    int may_specialize = fun_const && fty == JANET_FUNCTION && cl_nspliced == 0 && cl_have_opt && (!cl_have_can || cl_can_answer);
    cl_check_freed();
    if (cl_opt_calls) {
        __CPROVER_assert(may_specialize, "comp.call: only a constant function with an optimizer that accepts these (unspliced) arguments is specialised");
        __CPROVER_assert(cl_opt_calls == 1 && cl_npushed == 0 && cl_calls == 0 && cl_tailcalls == 0, "comp.call: a specialised call emits no push and no call of its own");
        __CPROVER_assert(ret.index == 3000, "comp.call: a specialised call yields the optimizer's result");
        REACH("call: specialised");
        return;
    }
    __CPROVER_assert(!may_specialize, "comp.call: a specialisable call is specialised");
    cl_check_pushed();
    __CPROVER_assert(!cl_push_after_consume && cl_other_instr == 0 && cl_makes == 0, "comp.call: the pushes precede the call and nothing else is emitted");
    __CPROVER_assert(cl_calls + cl_tailcalls == 1, "comp.call: exactly one call instruction");
    __CPROVER_assert(cl_call_fun.index == fun.index && cl_call_fun.envindex == fun.envindex && cl_call_fun.flags == fun.flags &&
                     cl_call_fun.constant.type == fun.constant.type && cl_call_fun.constant.as.u64 == fun.constant.as.u64, "comp.call: the call instruction names the callee slot");
    if (cl_tailcalls) {
        __CPROVER_assert(tail, "comp.call: a frame-replacing TAILCALL is emitted only in tail position");
        __CPROVER_assert(ret.flags & JANET_SLOT_RETURNED, "comp.call: the result of a tail call is marked as already returned");
        REACH("call: tail call");
    } else {
        __CPROVER_assert(!tail || (cl_scope.flags & JANET_SCOPE_TOP), "comp.call: in tail position (outside the top-level scope) the call is a TAILCALL");
        __CPROVER_assert(cl_call_wr == 1, "comp.call: CALL writes its destination");
        __CPROVER_assert(!(ret.flags & (JANET_SLOT_RETURNED | JANET_SLOT_CONSTANT | JANET_SLOT_REF)) && ret.envindex < 0 && ret.index >= 0 &&
                         cl_call_dest.index == ret.index && cl_call_dest.envindex == ret.envindex && cl_call_dest.flags == ret.flags,
                         "comp.call: the value of a CALL is in the returned slot, the call's destination register");
        if ((opts.flags & JANET_FOPTS_HINT) && opts.hint.envindex < 0 && opts.hint.index >= 0 && opts.hint.index <= 0xFF)
            { __CPROVER_assert(ret.index == opts.hint.index, "comp.call: a near hinted target is used as the destination"); REACH("call: hinted target"); }
        else { __CPROVER_assert(ret.index >= 4000, "comp.call: otherwise the destination is a fresh register"); REACH("call: fresh target"); }
        REACH("call: plain call");
    }
    /* diagnostics for provably wrong calls of constant callees */
    int err = cl_c.result.status == JANET_COMPILE_ERROR;
    int32_t n = cl_count - cl_nspliced;
    if (fun_const && fty == JANET_FUNCTION) {
        int wrong = cl_nspliced ? (cl_def.max_arity >= 0 && n > cl_def.max_arity)
                                : ((cl_def.max_arity >= 0 && n > cl_def.max_arity) || n < cl_def.min_arity);
        __CPROVER_assert(err == wrong, "comp.call: a constant function is called with a provably wrong number of arguments <=> compile error");
        if (err) REACH("call: arity error");
    } else if (fun_const && (fty == JANET_CFUNCTION || fty == JANET_ABSTRACT || fty == JANET_NIL)) {
        __CPROVER_assert(!err, "comp.call: no arity diagnostics for C functions and abstract callees");
    } else if (fun_const && fty == JANET_KEYWORD) {
        __CPROVER_assert(err == (cl_nspliced == 0 && n == 0), "comp.call: a method call needs at least the receiver");
    } else if (fun_const) {
        /* data structures, strings, numbers, symbols called as functions take exactly one argument (vm.c janet_method_invoke) */
        int wrong = cl_nspliced ? n > 1 : n != 1;
        __CPROVER_assert(err == wrong, "comp.call: a constant non-function callee takes exactly one argument <=> compile error otherwise");
        if (err) REACH("call: non-function arity error");
    } else __CPROVER_assert(!err, "comp.call: nothing is known about a non-constant callee");
}

/* ================================================================== janetc_toslots / janetc_toslotskv */
static int cl_value_calls; static int cl_kv_mode; static int cl_mut_alias_at = -1, cl_mut_write_at = -1;
void *cl_grow_stub(void *v, int32_t increment, int32_t itemsize) {
    __CPROVER_assert(v == (void *)0 && increment == 1 && itemsize == (int32_t) sizeof(JanetSlot), "harness: only the first push allocates (capacity suffices)");
    cl_slotmem.cap = CL_MAXN + 3; cl_slotmem.cnt = 0;
    return cl_slotmem.data;
}
JanetSlot cl_value_stub(JanetFopts opts, Janet x) {
    __CPROVER_assert((int32_t) x.as.u64 == cl_value_calls, "comp.call: the forms are evaluated strictly left to right, each exactly once");
    __CPROVER_assert(!(opts.flags & (JANET_FOPTS_TAIL | JANET_FOPTS_HINT | JANET_FOPTS_DROP)), "comp.call: an argument is evaluated for its value, not in tail position and without a target of its own");
    __CPROVER_assert(opts.flags & JANET_FOPTS_ACCEPT_SPLICE, "comp.call: arguments may be spliced");
    __CPROVER_assert(opts.compiler == &cl_c, "comp.call: same compiler");
    JanetSlot s; s.constant.type = JANET_NIL; s.constant.as.u64 = 0; s.envindex = -1; s.index = 1000 + cl_value_calls;
    s.flags = nd_u32() & (JANET_SLOTTYPE_ANY | JANET_SLOT_SPLICED);
#ifdef CL_MUTATION_ORDER
    /* a form may be a reference to a mutable local (the variable's own register is its slot) and a later form may assign it */
    if (cl_mut_alias_at < 0 && nd_int()) { s.index = 77; s.flags |= JANET_SLOT_NAMED | JANET_SLOT_MUTABLE; cl_mut_alias_at = cl_value_calls; }
    else if (cl_mut_alias_at >= 0 && cl_mut_write_at < 0 && nd_int()) cl_mut_write_at = cl_value_calls;      /* emits a write to register 77 */
#endif
    cl_value_calls++;
    return s;
}
/* KNOWN FINDING (-DCL_MUTATION_ORDER): the slot handed on for form k must still denote the value form k had when it was
 * evaluated. In a function of its own so that the obligation name cl_check_mutation_order.assertion.1 is stable. */
static void cl_check_mutation_order(JanetSlot s, int32_t g) {
    __CPROVER_assert(!(cl_mut_write_at > cl_mut_alias_at && g == cl_mut_alias_at && s.index == 77),
                     "comp.call.mutation-order: an argument that reads a mutable variable is not affected by an assignment in a LATER argument (left-to-right evaluation): its slot is not the variable's own register");
}
void h_toslots(void) {
    cl_init(); cl_value_calls = 0;
    static Janet vals[CL_MAXN];
    int32_t len = nd_i32();
    __CPROVER_assume(len >= 0 && len <= CL_MAXN);
    for (int i = 0; i < CL_MAXN; i++) { vals[i].type = JANET_TUPLE; vals[i].as.u64 = (uint64_t) i; }
    JanetSlot *r = janetc_toslots(&cl_c, vals, len);
    __CPROVER_assert(cl_value_calls == len, "comp.call: every argument form is evaluated");
    __CPROVER_assert(janet_v_count(r) == len, "comp.call: one slot per argument form");
    int32_t g = nd_i32();
    __CPROVER_assume(g >= 0 && g < len);
#ifndef CL_MUTATION_ORDER
    __CPROVER_assert(r[g].index == 1000 + g, "comp.call: slot k of the vector is the value of form k");
#else
    cl_check_mutation_order(r[g], g);
    if (cl_mut_write_at > 0) REACH("toslots: later argument assigns an earlier one's variable");
#endif
    if (len == CL_MAXN) REACH("toslots: longest form");
    REACH("toslots: normal return");
}
#define CL_KVCAP 4
static JanetKV cl_kvs[CL_KVCAP]; static int32_t cl_kvlen;
int cl_dictview_stub(Janet tab, const JanetKV **data, int32_t *len, int32_t *cap) { *data = cl_kvs; *len = cl_kvlen; *cap = CL_KVCAP; return 1; }
static int32_t cl_kv_ids[2 * CL_KVCAP]; static int cl_kv_n;
JanetSlot cl_value_kv_stub(JanetFopts opts, Janet x) {
    __CPROVER_assert(!(opts.flags & (JANET_FOPTS_TAIL | JANET_FOPTS_HINT | JANET_FOPTS_DROP)), "comp.call: an argument is evaluated for its value, not in tail position and without a target of its own");
    if (cl_kv_n < 2 * CL_KVCAP) cl_kv_ids[cl_kv_n] = (int32_t) x.as.u64;
    cl_kv_n++;
    JanetSlot s; s.constant.type = JANET_NIL; s.constant.as.u64 = 0; s.envindex = -1; s.index = 1000 + (int32_t) x.as.u64; s.flags = nd_u32() & JANET_SLOTTYPE_ANY;
    return s;
}
void h_toslotskv(void) {
    cl_init(); cl_kv_n = 0; cl_kvlen = 0;
    for (int i = 0; i < CL_KVCAP; i++) {
        int present = nd_int() & 1;
        cl_kvs[i].key.type = present ? JANET_KEYWORD : JANET_NIL; cl_kvs[i].key.as.u64 = 2 * (uint64_t) i;
        cl_kvs[i].value.type = JANET_TUPLE; cl_kvs[i].value.as.u64 = 2 * (uint64_t) i + 1;
        cl_kvlen += present;
    }
    Janet ds; ds.type = nd_int() ? JANET_STRUCT : JANET_TABLE; ds.as.u64 = 0;
    JanetSlot *r = janetc_toslotskv(&cl_c, ds);
    __CPROVER_assert(cl_kv_n == 2 * cl_kvlen && janet_v_count(r) == 2 * cl_kvlen, "comp.call: one key and one value per entry of the literal, nothing for empty buckets");
    int32_t g = nd_i32();
    __CPROVER_assume(g >= 0 && g < cl_kvlen);
    __CPROVER_assert((cl_kv_ids[2 * g] & 1) == 0 && cl_kv_ids[2 * g + 1] == cl_kv_ids[2 * g] + 1, "comp.call: each key is evaluated immediately before its own value");
    __CPROVER_assert(g == 0 || cl_kv_ids[2 * g] > cl_kv_ids[2 * g - 1], "comp.call: entries are evaluated in table order");
    __CPROVER_assert(r[2 * g].index == 1000 + cl_kv_ids[2 * g] && r[2 * g + 1].index == 1000 + cl_kv_ids[2 * g + 1], "comp.call: the vector holds key, value, key, value ... in evaluation order");
    __CPROVER_assert(cl_kvs[cl_kv_ids[2 * g] / 2].key.type != JANET_NIL, "comp.call: only present entries are evaluated");
    if (cl_kvlen == CL_KVCAP) REACH("toslotskv: full table");
    if (cl_kvlen > 0 && cl_kvlen < CL_KVCAP) REACH("toslotskv: table with empty buckets");
    REACH("toslotskv: normal return");
}

/* ================================================================== janetc_maker */
static Janet cl_tupmem[CL_MAXN + 1]; static int32_t cl_tuple_n = -1, cl_struct_n = -1; static int cl_tuple_ended, cl_struct_ended;
static Janet cl_st_k[CL_MAXN + 1], cl_st_v[CL_MAXN + 1]; static int cl_st_puts;
static JanetKV cl_stmem[2];
Janet *cl_tuple_begin_stub(int32_t length) { cl_tuple_n = length; return cl_tupmem; }
const Janet *cl_tuple_end_stub(Janet *t) { __CPROVER_assert(t == cl_tupmem, "harness: tuple"); cl_tuple_ended++; return cl_tupmem; }
JanetKV *cl_struct_begin_stub(int32_t count) { cl_struct_n = count; return cl_stmem; }
void cl_struct_put_stub(JanetKV *st, Janet k, Janet v) { if (cl_st_puts <= CL_MAXN) { cl_st_k[cl_st_puts] = k; cl_st_v[cl_st_puts] = v; } cl_st_puts++; }
const JanetKV *cl_struct_end_stub(JanetKV *st) { cl_struct_ended++; return cl_stmem; }
void h_maker(void) {
    cl_init();
    int all_const = nd_int() & 1;
    cl_mkslots(1, all_const);
    cl_st_puts = 0; cl_tuple_ended = cl_struct_ended = 0; cl_tuple_n = cl_struct_n = -1;
    int op = nd_int();
    __CPROVER_assume(op == JOP_MAKE_ARRAY || op == JOP_MAKE_BUFFER || op == JOP_MAKE_STRING || op == JOP_MAKE_STRUCT || op == JOP_MAKE_TABLE ||
                     op == JOP_MAKE_TUPLE || op == JOP_MAKE_BRACKET_TUPLE);
    if (op == JOP_MAKE_STRUCT || op == JOP_MAKE_TABLE) __CPROVER_assume((cl_count & 1) == 0);      /* requires: key/value pairs (janetc_toslotskv) */
    JanetFopts opts; opts.compiler = &cl_c; opts.flags = nd_u32() & (JANET_FOPTS_HINT | JANET_FOPTS_DROP | JANET_FOPTS_ACCEPT_SPLICE | JANET_SLOTTYPE_ANY);
    opts.hint.constant.type = JANET_NIL; opts.hint.constant.as.u64 = 0; opts.hint.flags = 0; opts.hint.envindex = -1; opts.hint.index = nd_i32();
    __CPROVER_assume(opts.hint.index >= 0 && opts.hint.index <= 0xFFFF);
    int consts_only = 1;
    for (int i = 0; i < CL_MAXN; i++) if (i < cl_count && (!(cl_slotmem.data[i].flags & JANET_SLOT_CONSTANT) || (cl_slotmem.data[i].flags & JANET_SLOT_SPLICED))) consts_only = 0;

    JanetSlot ret = janetc_maker(opts, cl_slotmem.data, op);

    cl_check_freed();
    if (cl_makes == 0) {
        /* folded into a constant */
        __CPROVER_assert(op == JOP_MAKE_TUPLE || op == JOP_MAKE_STRUCT, "comp.maker: only immutable values (tuple, struct) are ever built at compile time; arrays, tables, buffers are fresh on every evaluation");
        __CPROVER_assert(consts_only, "comp.maker: a constructor is folded only when every element is an unspliced constant");
        __CPROVER_assert(cl_npushed == 0 && cl_other_instr == 0, "comp.maker: a folded constructor emits nothing");
        __CPROVER_assert((ret.flags & JANET_SLOT_CONSTANT) && ret.index == -1 && ret.envindex == -1, "comp.maker: the folded value is a constant slot");
        int32_t g = nd_i32();
        if (op == JOP_MAKE_TUPLE) {
            __CPROVER_assert(ret.constant.type == JANET_TUPLE && ret.constant.as.pointer == (void *) cl_tupmem && cl_tuple_n == cl_count && cl_tuple_ended == 1, "comp.maker: the constant is the finished tuple of all elements");
            __CPROVER_assume(g >= 0 && g < cl_count);
            __CPROVER_assert(cl_tupmem[g].as.u64 == 500 + (uint64_t) g && cl_tupmem[g].type == JANET_NUMBER, "comp.maker: element k of the constant tuple is constant k");
            REACH("maker: constant tuple");
        } else {
            __CPROVER_assert(ret.constant.type == JANET_STRUCT && ret.constant.as.pointer == (void *) cl_stmem && cl_struct_n == cl_count / 2 && cl_struct_ended == 1 && cl_st_puts == cl_count / 2, "comp.maker: the constant is the finished struct of all pairs");
            __CPROVER_assume(g >= 0 && g < cl_count / 2);
            __CPROVER_assert(cl_st_k[g].as.u64 == 500 + 2 * (uint64_t) g && cl_st_v[g].as.u64 == 501 + 2 * (uint64_t) g, "comp.maker: pair k of the constant struct is (constant 2k, constant 2k+1)");
            REACH("maker: constant struct");
        }
        return;
    }
    __CPROVER_assert(!(consts_only && (op == JOP_MAKE_TUPLE || op == JOP_MAKE_STRUCT)), "comp.maker: constant tuples and structs are folded");
    cl_check_pushed();
    __CPROVER_assert(cl_makes == 1 && cl_make_op == (uint8_t) op && !cl_push_after_consume && cl_other_instr == 0 && cl_calls + cl_tailcalls == 0, "comp.maker: the elements are pushed, then exactly the requested constructor instruction is emitted");
    __CPROVER_assert(cl_call_wr == 1 && cl_call_dest.index == ret.index && cl_call_dest.envindex == ret.envindex && !(ret.flags & (JANET_SLOT_CONSTANT | JANET_SLOT_REF)) && ret.envindex < 0 && ret.index >= 0,
                     "comp.maker: the new value is written to the returned slot");
    if (cl_nspliced) REACH("maker: spliced elements");
    if (op == JOP_MAKE_ARRAY && consts_only) REACH("maker: constant array is still built at run time");
    REACH("maker: built at run time");
}

/* ================================================================== janetc_value, call form: callee first, then the arguments, then the call */
static int32_t cl_ev_resolve = -1, cl_ev_toslots = -1, cl_ev_call = -1, cl_ev_return = -1, cl_ev_copy = -1;
static uint32_t cl_call_opts_flags; static int cl_call_args_ok, cl_call_fun_ok, cl_ntoslots;
static JanetSlot cl_copy_dest, cl_copy_src;
/* contract of macroexpand1 for a form that is neither a macro call nor a special: moves the source cursor to the form */
int cl_macroexpand1_stub(JanetCompiler *c, Janet x, Janet *out, const JanetSpecial **spec) {
    if (x.type == JANET_TUPLE) { c->current_mapping.line = 12345; c->current_mapping.column = 67; }
    return 0;
}
JanetSlot cl_resolve_stub(JanetCompiler *c, const uint8_t *sym) {
    cl_ev_resolve = cl_events++;
    JanetSlot s; s.constant.type = JANET_NIL; s.constant.as.u64 = 0; s.envindex = -1; s.index = 2000; s.flags = JANET_SLOT_NAMED | (nd_u32() & (JANET_SLOT_MUTABLE | JANET_SLOT_SPLICED)); return s;
}
JanetSlot *cl_toslots_stub(JanetCompiler *c, const Janet *vals, int32_t len) {
    cl_ev_toslots = cl_events++; cl_ntoslots = len;
    __CPROVER_assert(vals[0].as.u64 == 1 && len == cl_count, "comp.call: the arguments are the forms after the callee");
    return cl_slotmem.data;
}
JanetSlot cl_call_stub(JanetFopts opts, JanetSlot *slots, JanetSlot fun) {
    cl_ev_call = cl_events++;
    cl_call_opts_flags = opts.flags; cl_call_args_ok = slots == cl_slotmem.data; cl_call_fun_ok = fun.index == 2000;
    JanetSlot s; s.constant.type = JANET_NIL; s.constant.as.u64 = 0; s.envindex = -1; s.index = 3000; s.flags = nd_u32() & (JANET_SLOT_RETURNED | JANET_SLOT_SPLICED | JANET_SLOTTYPE_ANY);
    if ((s.flags & JANET_SLOT_RETURNED) && !(opts.flags & JANET_FOPTS_TAIL)) s.flags &= ~JANET_SLOT_RETURNED;      /* contract of janetc_call (comp.call.call) */
    return s;
}
JanetSlot cl_return_stub(JanetCompiler *c, JanetSlot s) { cl_ev_return = cl_events++; __CPROVER_assert(s.index == 3000, "comp.call: the call's value is what is returned"); s.flags |= JANET_SLOT_RETURNED; return s; }
void cl_copy_stub(JanetCompiler *c, JanetSlot dest, JanetSlot src) { cl_ev_copy = cl_events++; cl_copy_dest = dest; cl_copy_src = src; }
void h_value_call(void) {
    cl_init();
    cl_count = nd_i32();
    __CPROVER_assume(cl_count >= 0 && cl_count <= 3);
    /* the form (callee arg1 .. argn): a parenthesised tuple whose head is a symbol */
    struct tup { JanetTupleHead head; Janet data[4]; } *t = malloc(sizeof(struct tup));
    __CPROVER_assume(t != (void *)0);
    t->head.length = 1 + cl_count; t->head.gc.flags = 0; t->head.sm_line = nd_i32(); t->head.sm_column = nd_i32();
    Janet *data = (Janet *)((char *) t + offsetof(JanetTupleHead, data));
    static uint8_t symname[4];
    data[0].type = JANET_SYMBOL; data[0].as.pointer = symname;
    for (int i = 1; i < 4; i++) { data[i].type = JANET_NUMBER; data[i].as.u64 = (uint64_t) i; }
    Janet x; x.type = JANET_TUPLE; x.as.pointer = data;
    JanetFopts opts; opts.compiler = &cl_c;
    opts.flags = nd_u32() & (JANET_FOPTS_TAIL | JANET_FOPTS_HINT | JANET_FOPTS_DROP | JANET_FOPTS_ACCEPT_SPLICE | JANET_SLOTTYPE_ANY);
    opts.hint.constant.type = JANET_NIL; opts.hint.constant.as.u64 = 0; opts.hint.flags = 0; opts.hint.envindex = -1; opts.hint.index = 5000;
    JanetSourceMapping before; before.line = nd_i32(); before.column = nd_i32();
    cl_c.current_mapping = before;
    int guard0 = cl_c.recursion_guard;

    JanetSlot ret = janetc_value(opts, x);

    __CPROVER_assert(cl_ev_resolve >= 0 && cl_ev_toslots > cl_ev_resolve, "comp.call: the callee is evaluated before the arguments");
    __CPROVER_assert(cl_ev_call > cl_ev_toslots && cl_call_args_ok && cl_call_fun_ok, "comp.call: the call is compiled after callee and arguments, from exactly these");
    __CPROVER_assert(cl_call_opts_flags == opts.flags, "comp.call: the call inherits the context of the form (tail position, hint, drop)");
    __CPROVER_assert(cl_head_freed_at > cl_ev_call, "comp.call: the callee's slot is released after the call");
    __CPROVER_assert(!(ret.flags & JANET_SLOT_SPLICED), "comp.call: the value of a call is never itself spliced");
    if (opts.flags & JANET_FOPTS_TAIL) {
        __CPROVER_assert(cl_ev_return > cl_ev_call, "comp.call: in tail position the value is returned");
        if (!(opts.flags & JANET_FOPTS_HINT)) __CPROVER_assert((ret.flags & JANET_SLOT_RETURNED) != 0, "comp.call: ... and the result slot is marked as returned");
        REACH("value: call in tail position");
    }
    else __CPROVER_assert(cl_ev_return < 0, "comp.call: outside tail position nothing is returned");
    if (opts.flags & JANET_FOPTS_HINT) {
        __CPROVER_assert(cl_ev_copy > cl_ev_call && cl_copy_dest.index == 5000 && cl_copy_src.index == 3000 && ret.index == 5000, "comp.call: a hinted form delivers its value in the hint slot");
        REACH("value: hinted");
    } else __CPROVER_assert(cl_ev_copy < 0 && ret.index == 3000, "comp.call: without a hint the call's own result slot is the value");
    __CPROVER_assert(cl_c.current_mapping.line == before.line && cl_c.current_mapping.column == before.column, "comp.call: the source position of the enclosing form is restored");
    __CPROVER_assert(cl_c.recursion_guard == guard0, "comp.call: the recursion budget is restored");
    REACH("value: call form compiled");
}
