/* C09: which fibers may be written into an image. fiber_cannot_be_marshalled (marsh.c) must answer 1 for EVERY fiber
 * that is alive - the running fiber and every ancestor blocked in a resume: their stacks are still changing and cannot be
 * rebuilt - and for every fiber with a C function frame on its stack; 0 only for fibers whose whole frame chain consists
 * of bytecode frames. marshal_one_env relies on it to snapshot (detach) a closure environment that lives on such a stack
 * instead of marshalling the fiber. Bounded: chains of at most 3 frames at fixed positions. */
#include "prelude.h"
#define FM_SLOTS 2
#define FM_STRIDE (JANET_FRAME_SIZE + FM_SLOTS)
typedef struct { JanetStackFrame fr; char pad[JANET_FRAME_SIZE * sizeof(Janet) - sizeof(JanetStackFrame)]; Janet slots[FM_SLOTS]; } fm_frame;
static fm_frame fm_mem[3];
static JanetFiber fm_fiber;
static JanetFunction fm_func;
void h_fiber_cannot_be_marshalled(void) {
    int n = nd_int();
    __CPROVER_assume(n >= 1 && n <= 3);
    int has_c = 0;
    for (int k = 0; k < 3; k++) {
        int isc = nd_int() & 1;
        fm_mem[k].fr.func = isc ? (JanetFunction *)0 : &fm_func;
        fm_mem[k].fr.prevframe = k == 0 ? 0 : (k - 1) * FM_STRIDE + JANET_FRAME_SIZE;
        if (k < n && isc) has_c = 1;
    }
    fm_fiber.data = (Janet *) fm_mem;
    fm_fiber.frame = (n - 1) * FM_STRIDE + JANET_FRAME_SIZE;
    fm_fiber.capacity = 3 * FM_STRIDE;
    JanetFiberStatus st = (JanetFiberStatus)(nd_uint() % 16);
    fm_fiber.flags = (nd_u32() & ~JANET_FIBER_STATUS_MASK) | ((uint32_t) st << JANET_FIBER_STATUS_OFFSET);
    janet_vm.fiber = nd_int() ? &fm_fiber : (JanetFiber *)0;    /* alive does not mean current: ancestors are alive too */
    int r = fiber_cannot_be_marshalled(&fm_fiber);
    __CPROVER_assert(r == 0 || r == 1, "marsh.fiber_ok: boolean answer");
    __CPROVER_assert(st != JANET_STATUS_ALIVE || r == 1, "marsh.fiber_ok: an alive fiber (running, or an ancestor blocked in a resume) is never written into an image");
    __CPROVER_assert(!has_c || r == 1, "marsh.fiber_ok: a fiber with a C function frame on its stack is never written into an image");
    __CPROVER_assert((st == JANET_STATUS_ALIVE || has_c) || r == 0, "marsh.fiber_ok: every other fiber can be marshalled");
    if (r == 0) REACH("fiber can be marshalled"); else REACH("fiber refused");
}
