/* C02 / C15: janet_bytecode_movopt (bytecode.c) never deletes a store that is still read. Program [W ; R]: W writes one slot (a
 * load into slot D / A, or MOVE_FAR into the 16-bit slot E - locals beyond register 255 live there), R is an instruction WITHOUT a
 * destination (push, push2, push3, push-array, put, put-index, return, error, jump-if*, typecheck, tailcall): every slot operand of
 * R - as laid out by the VM's own operand-shape table janet_instructions[] - is a read. If R reads the slot W writes, W survives
 * ("the result does not depend on how many local variables are live": a far register is a register like any other).
 * The register set of the pass is a set stub, precise for the store's destination slot (the real regalloc.c: units regalloc.*). */
#include "prelude.h"
/* the register set of the pass, precise for the one slot the obligations talk about (the store's destination) */
static int32_t lv_dest; static int lv_dest_in;
void lv_init_stub(JanetcRegisterAllocator *ra) { lv_dest_in = 0; }
void lv_deinit_stub(JanetcRegisterAllocator *ra) { }
void lv_touch_stub(JanetcRegisterAllocator *ra, int32_t reg) { __CPROVER_assert(reg >= 0 && reg < (1 << 24), "movopt: register index in range"); if (reg == lv_dest) lv_dest_in = 1; }
int lv_check_stub(JanetcRegisterAllocator *ra, int32_t reg) { __CPROVER_assert(reg >= 0 && reg < (1 << 24), "movopt: register index in range"); return reg == lv_dest ? lv_dest_in : (nd_int() & 1); }
void h_movopt_live(void) {
  JanetFuncDef def; uint32_t code[2];
  /* W: a store */
  uint32_t wop = nd_u32(); uint32_t wops = nd_u32() & 0xFFFFFF00u; int32_t dest;
  __CPROVER_assume(wop == JOP_MOVE_FAR || wop == JOP_MOVE_NEAR || wop == JOP_LOAD_NIL || wop == JOP_LOAD_INTEGER || wop == JOP_LOAD_CONSTANT);
  code[0] = wop | wops;
  dest = wop == JOP_MOVE_FAR ? (int32_t)(code[0] >> 16) : wop == JOP_LOAD_NIL ? (int32_t)(code[0] >> 8) : (int32_t)((code[0] >> 8) & 0xFF);
  lv_dest = dest;
  /* R: an instruction without a destination; its slot operands by the VM's shape table */
  uint32_t rop = nd_u32(); uint32_t rops = nd_u32() & 0xFFFFFF00u;
  __CPROVER_assume(rop == JOP_PUSH || rop == JOP_PUSH_2 || rop == JOP_PUSH_3 || rop == JOP_PUSH_ARRAY || rop == JOP_PUT || rop == JOP_PUT_INDEX || rop == JOP_RETURN ||
                   rop == JOP_ERROR || rop == JOP_JUMP_IF || rop == JOP_JUMP_IF_NOT || rop == JOP_JUMP_IF_NIL || rop == JOP_JUMP_IF_NOT_NIL || rop == JOP_TYPECHECK || rop == JOP_TAILCALL);
  code[1] = rop | rops;
  uint32_t r = code[1]; int reads = 0;
  switch (janet_instructions[rop]) {
    default: __CPROVER_assert(0, "harness: operand shape of a destination-less instruction"); break;
    case JINT_S: reads = (int32_t)(r >> 8) == dest; break;
    case JINT_SS: reads = (int32_t)((r >> 8) & 0xFF) == dest || (int32_t)(r >> 16) == dest; break;
    case JINT_SSS: reads = (int32_t)((r >> 8) & 0xFF) == dest || (int32_t)((r >> 16) & 0xFF) == dest || (int32_t)(r >> 24) == dest; break;
    case JINT_SSU: case JINT_SSI: reads = (int32_t)((r >> 8) & 0xFF) == dest || (int32_t)((r >> 16) & 0xFF) == dest; break;
    case JINT_SL: case JINT_ST: reads = (int32_t)((r >> 8) & 0xFF) == dest; break;
  }
  def.bytecode = code; def.bytecode_length = 2; def.slotcount = 65536; def.closure_bitset = 0;
  uint32_t w0 = code[0], r0 = code[1];
  janet_bytecode_movopt(&def);
  __CPROVER_assert(code[1] == r0, "movopt: an instruction without a destination is kept");
  __CPROVER_assert(code[0] == w0 || code[0] == JOP_NOOP, "movopt: a store is kept bit for bit or replaced by a noop");
  if (reads) {
    __CPROVER_assert(code[0] == w0, "movopt: a store whose slot is read by another instruction is kept (any register, near or far)");
    if (dest > 255) REACH("far register read by a later instruction");
    REACH("live store");
  } else REACH("dead store");
}
