/* C18: capability contracts of the OS primitives (the specification: which libc call is an operation of which
 * sandboxed kind - taken from the property statement). Each primitive is replaced at every call site
 * (goto-instrument --replace-calls) by a stub that ASSERTS the capability precondition and returns anything.
 * REACH-ANY markers give site coverage over the whole group of units (one unit per registered C function). */
#include "prelude.h"
#include <dlfcn.h>
#include <sys/types.h>
#include <sys/socket.h>
#include <netdb.h>
#include <dirent.h>
#include <spawn.h>
#include <utime.h>
#include <sys/stat.h>
#include <sys/mman.h>
#include <fcntl.h>
#include <signal.h>
#include <stdio.h>
#include <pthread.h>

#define SB_ALLOWED(cap) ((janet_vm.sandbox_flags & (cap)) == 0)
#define SB_REQUIRE(cond, prim, capname) do { \
    __CPROVER_assert(0, "REACH-ANY: primitive " prim " is reached by some core function"); \
    __CPROVER_assert(cond, "C18 capability precondition of " prim ": " capname " must not be disabled"); } while (0)

#define SB_PRIM_I(name, cap, capname, ...) int sbp_##name(__VA_ARGS__) { SB_REQUIRE(SB_ALLOWED(cap), #name, capname); return nd_int(); }
#define SB_PRIM_P(T, name, cap, capname, ...) T sbp_##name(__VA_ARGS__) { SB_REQUIRE(SB_ALLOWED(cap), #name, capname); return (T) nd_ptr(); }

/* file system: write */
SB_PRIM_I(mkdir, JANET_SANDBOX_FS_WRITE, "fs-write", const char *p, mode_t m)
SB_PRIM_I(rmdir, JANET_SANDBOX_FS_WRITE, "fs-write", const char *p)
SB_PRIM_I(link, JANET_SANDBOX_FS_WRITE, "fs-write", const char *a, const char *b)
SB_PRIM_I(symlink, JANET_SANDBOX_FS_WRITE, "fs-write", const char *a, const char *b)
SB_PRIM_I(unlink, JANET_SANDBOX_FS_WRITE, "fs-write", const char *a)
SB_PRIM_I(remove, JANET_SANDBOX_FS_WRITE, "fs-write", const char *a)
SB_PRIM_I(rename, JANET_SANDBOX_FS_WRITE, "fs-write", const char *a, const char *b)
SB_PRIM_I(chmod, JANET_SANDBOX_FS_WRITE, "fs-write", const char *a, mode_t m)
SB_PRIM_I(utime, JANET_SANDBOX_FS_WRITE, "fs-write", const char *a, const struct utimbuf *t)
/* file system: read */
SB_PRIM_I(chdir, JANET_SANDBOX_FS_READ, "fs-read", const char *p)
SB_PRIM_P(DIR *, opendir, JANET_SANDBOX_FS_READ, "fs-read", const char *p)
SB_PRIM_I(stat64, JANET_SANDBOX_FS_READ, "fs-read", const char *p, struct stat *st)
SB_PRIM_I(lstat64, JANET_SANDBOX_FS_READ, "fs-read", const char *p, struct stat *st)
ssize_t sbp_readlink(const char *p, char *b, size_t n) { SB_REQUIRE(SB_ALLOWED(JANET_SANDBOX_FS_READ), "readlink", "fs-read"); return (ssize_t) nd_i64(); }
SB_PRIM_P(char *, realpath, JANET_SANDBOX_FS_READ, "fs-read", const char *p, char *r)
/* open(2): by access mode */
int sbp_open64(const char *p, int flags, ...) {
  int acc = flags & O_ACCMODE;
  int needs_read = (acc == O_RDONLY || acc == O_RDWR);
  int needs_write = (acc == O_WRONLY || acc == O_RDWR || (flags & (O_CREAT | O_TRUNC | O_APPEND)));
  __CPROVER_assert(0, "REACH-ANY: primitive open is reached by some core function");
  __CPROVER_assert(!needs_read || SB_ALLOWED(JANET_SANDBOX_FS_READ), "C18 capability precondition of open (reading): fs-read must not be disabled");
  __CPROVER_assert(!needs_write || SB_ALLOWED(JANET_SANDBOX_FS_WRITE), "C18 capability precondition of open (writing/creating): fs-write must not be disabled");
  return nd_int();
}
/* fopen(3): by mode string ("r": read; "w","a": write; any '+': write) */
FILE *sbp_fopen64(const char *p, const char *m) {
  int plus = 0;
  if (m[0]) { if (m[1] == '+') plus = 1; if (m[1]) { if (m[2] == '+') plus = 1; if (m[2]) { if (m[3] == '+') plus = 1; } } }
  __CPROVER_assert(0, "REACH-ANY: primitive fopen is reached by some core function");
  __CPROVER_assert(m[0] != 'r' || SB_ALLOWED(JANET_SANDBOX_FS_READ), "C18 capability precondition of fopen(\"r..\"): fs-read must not be disabled");
  __CPROVER_assert((m[0] != 'w' && m[0] != 'a' && !plus) || SB_ALLOWED(JANET_SANDBOX_FS_WRITE), "C18 capability precondition of fopen(\"w|a|+\"): fs-write must not be disabled");
  return (FILE *) nd_ptr();
}
SB_PRIM_P(FILE *, tmpfile64, JANET_SANDBOX_FS_TEMP, "fs-temp", void)
/* environment */
SB_PRIM_P(char *, getenv, JANET_SANDBOX_ENV, "env", const char *a)
SB_PRIM_I(setenv, JANET_SANDBOX_ENV, "env", const char *a, const char *b, int o)
SB_PRIM_I(unsetenv, JANET_SANDBOX_ENV, "env", const char *a)
/* subprocesses */
SB_PRIM_I(system, JANET_SANDBOX_SUBPROCESS, "subprocess", const char *c)
SB_PRIM_I(execv, JANET_SANDBOX_SUBPROCESS, "subprocess", const char *p, char *const a[])
SB_PRIM_I(execve, JANET_SANDBOX_SUBPROCESS, "subprocess", const char *p, char *const a[], char *const e[])
SB_PRIM_I(execvp, JANET_SANDBOX_SUBPROCESS, "subprocess", const char *p, char *const a[])
SB_PRIM_I(posix_spawn, JANET_SANDBOX_SUBPROCESS, "subprocess", pid_t *pid, const char *p, const posix_spawn_file_actions_t *fa, const posix_spawnattr_t *at, char *const a[], char *const e[])
SB_PRIM_I(posix_spawnp, JANET_SANDBOX_SUBPROCESS, "subprocess", pid_t *pid, const char *p, const posix_spawn_file_actions_t *fa, const posix_spawnattr_t *at, char *const a[], char *const e[])
pid_t sbp_fork(void) { SB_REQUIRE(SB_ALLOWED(JANET_SANDBOX_SUBPROCESS), "fork", "subprocess"); return (pid_t) nd_int(); }
/* network */
SB_PRIM_I(connect, JANET_SANDBOX_NET_CONNECT, "net-connect", int fd, __CONST_SOCKADDR_ARG a, socklen_t l)
SB_PRIM_I(listen, JANET_SANDBOX_NET_LISTEN, "net-listen", int fd, int b)
int sbp_bind(int fd, __CONST_SOCKADDR_ARG a, socklen_t l) { SB_REQUIRE((janet_vm.sandbox_flags & JANET_SANDBOX_NET) != JANET_SANDBOX_NET, "bind", "net-connect or net-listen"); return nd_int(); }
int sbp_getaddrinfo(const char *n, const char *s, const struct addrinfo *h, struct addrinfo **r) { SB_REQUIRE((janet_vm.sandbox_flags & JANET_SANDBOX_NET) != JANET_SANDBOX_NET, "getaddrinfo", "net-connect or net-listen"); return nd_int() | 1; }
/* dynamic modules (corelib.c) / FFI (ffi.c): the unit selects the capability with SB_DL_CAP */
#ifndef SB_DL_CAP
#define SB_DL_CAP JANET_SANDBOX_DYNAMIC_MODULES
#define SB_DL_NAME "dynamic-modules"
#endif
SB_PRIM_P(void *, dlopen, SB_DL_CAP, SB_DL_NAME, const char *p, int f)
SB_PRIM_P(void *, dlsym, SB_DL_CAP, SB_DL_NAME, void *h, const char *s)
/* FFI */
SB_PRIM_P(void *, mmap64, JANET_SANDBOX_FFI_JIT, "ffi-jit", void *a, size_t l, int pr, int fl, int fd, off_t o)
SB_PRIM_I(mprotect, JANET_SANDBOX_FFI_JIT, "ffi-jit", void *a, size_t l, int pr)
/* FFI workers (static functions of ffi.c that perform the foreign call / raw memory access) */
#ifdef SB_FFI_WORKERS
Janet sbp_ffi_call_worker(JanetFFISignature *signature, void *function_pointer, const Janet *argv) { SB_REQUIRE(SB_ALLOWED(JANET_SANDBOX_FFI_USE), "foreign call (janet_ffi_sysv64)", "ffi-use"); Janet x; x.u64 = nd_u64(); return x; }
void sbp_ffi_write_one(void *to, const Janet *argv, int32_t n, JanetFFIType type, int recur) { SB_REQUIRE(SB_ALLOWED(JANET_SANDBOX_FFI_USE), "raw memory write (janet_ffi_write_one)", "ffi-use"); }
Janet sbp_ffi_read_one(const uint8_t *from, JanetFFIType type, int recur) { SB_REQUIRE(SB_ALLOWED(JANET_SANDBOX_FFI_USE), "raw memory read (janet_ffi_read_one)", "ffi-use"); Janet x; x.u64 = nd_u64(); return x; }
#endif
/* threads are not modelled by the sequential verifier: creating one is a no-op returning any status */
int sbp_pthread_create(pthread_t *t, const pthread_attr_t *a, void *(*fn)(void *), void *arg) { return nd_int(); }
/* signals */
SB_PRIM_I(sigaction, JANET_SANDBOX_SIGNAL, "signal", int s, const struct sigaction *a, struct sigaction *o)
/* high-resolution time (os/clock); the event loop's own clock is exempt and not stubbed */
int sbp_janet_gettime(struct timespec *spec, enum JanetTimeSource source) { SB_REQUIRE(SB_ALLOWED(JANET_SANDBOX_HRTIME), "clock_gettime via janet_gettime", "hrtime"); return nd_int(); }

/* Assumed contracts of argument getters: return a valid, NUL-terminated janet string of 1..11 nondet bytes */
struct sb_str { JanetStringHead head; uint8_t data[12]; };
static const uint8_t *sb_fresh_string(void) {
  struct sb_str *s = malloc(sizeof(struct sb_str));
  __CPROVER_assume(s != 0);
  int32_t len = nd_i32(); __CPROVER_assume(len >= 0 && len <= 11);
  s->head.length = len; s->data[len] = 0; s->data[11] = 0;
  return s->data;
}
const char *sbg_getcstring(const Janet *argv, int32_t n) { return (const char *) sb_fresh_string(); }
const char *sbg_optcstring(const Janet *argv, int32_t argc, int32_t n, const char *dflt) { return nd_int() ? dflt : (const char *) sb_fresh_string(); }
JanetString sbg_getstring(const Janet *argv, int32_t n) { return sb_fresh_string(); }
JanetKeyword sbg_getkeyword(const Janet *argv, int32_t n) { return sb_fresh_string(); }
JanetKeyword sbg_optkeyword(const Janet *argv, int32_t argc, int32_t n, JanetKeyword dflt) { return nd_int() ? dflt : sb_fresh_string(); }
JanetSymbol sbg_getsymbol(const Janet *argv, int32_t n) { return sb_fresh_string(); }
