/* C17 (C level): kmp_next of string.c, memory safety and result range for a text of ANY length (dfcc, loop closed by a
 * loop contract). Complements the bounded exactness units of str_kmp.c.
 *   wf_kmp(state): 1 <= patlen, textlen >= 0, text readable for textlen bytes, pat readable for patlen bytes, lookup
 *                  readable for patlen int32, 0 <= lookup[k] <= k for every k < patlen (established by kmp_init: unit
 *                  str.kmp.init.table), 0 <= j < patlen, j <= i (j bytes before position i are matched).
 *   The start index stored by findsetup/replacesetup may exceed textlen (string/find "a" "b" 100): i is unbounded above.
 * Bound: patlen <= 8 only because the table fact is written out per entry (R2: the loop reads lookup at a data-dependent
 * index, a single ghost index is not enough); the text length is unbounded.
 * Postcondition: -1 and state untouched, or r with 0 <= r, r + patlen <= textlen (the occurrence lies inside the text),
 * r not before the resume point i - j, state->i == r + patlen, state->j a valid table value again (wf preserved). */
#include "prelude.h"
#include <stdlib.h>
#define STR_NULL ((void *)0)
#define KMP_SAFE_MAXPAT 8

int32_t g_i0, g_j0;
#define LK(s, k) ((k) >= (s)->patlen || ((s)->lookup[k] >= 0 && (s)->lookup[k] <= (k)))
#define KMP_TABLE_OK(s) (LK(s, 0) && LK(s, 1) && LK(s, 2) && LK(s, 3) && LK(s, 4) && LK(s, 5) && LK(s, 6) && LK(s, 7))
#define KMP_WF(s) ((s)->patlen >= 1 && (s)->patlen <= KMP_SAFE_MAXPAT && (s)->textlen >= 0 && \
  ((s)->textlen == 0 || __CPROVER_r_ok((s)->text, (size_t)(s)->textlen)) && __CPROVER_r_ok((s)->pat, (size_t)(s)->patlen) && \
  __CPROVER_r_ok((s)->lookup, (size_t)(s)->patlen * sizeof(int32_t)) && KMP_TABLE_OK(s) && \
  (s)->j >= 0 && (s)->j < (s)->patlen && (s)->j <= (s)->i)

static int32_t kmp_next_c(struct kmp_state *state)
__CPROVER_requires(__CPROVER_rw_ok(state, sizeof(struct kmp_state)) && KMP_WF(state))
__CPROVER_requires(g_i0 == state->i && g_j0 == state->j)
__CPROVER_assigns(state->i, state->j)
__CPROVER_ensures(KMP_WF(state))
__CPROVER_ensures(__CPROVER_return_value >= -1)
__CPROVER_ensures(__CPROVER_return_value == -1 ==> (state->i == g_i0 && state->j == g_j0))
__CPROVER_ensures(__CPROVER_return_value >= 0 ==> ((int64_t)__CPROVER_return_value + state->patlen <= state->textlen &&
                  state->i == __CPROVER_return_value + state->patlen && __CPROVER_return_value >= g_i0 - g_j0))
;

void h_kmp_next_safe(void) {
  struct kmp_state *s = malloc(sizeof(struct kmp_state));
  __CPROVER_assume(s != STR_NULL);
  __CPROVER_assume(s->patlen >= 1 && s->patlen <= KMP_SAFE_MAXPAT && s->textlen >= 0);
  uint8_t *text = malloc((size_t)s->textlen);
  uint8_t *pat = malloc((size_t)s->patlen);
  int32_t *lookup = malloc((size_t)s->patlen * sizeof(int32_t));
  __CPROVER_assume(text != STR_NULL && pat != STR_NULL && lookup != STR_NULL);
  s->text = text; s->pat = pat; s->lookup = lookup;
  int32_t r = kmp_next(s);
  REACH("kmp_next returns");
  if (r >= 0) REACH("kmp_next returns a hit");
  if (r >= 0 && g_j0 > 0 && s->textlen > 1000) REACH("kmp_next returns a hit from a resumed state in a long text");
}
