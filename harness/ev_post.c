/* C20 (counter discipline): the self-pipe owner of the pending-work counter.
 *   janet_ev_post_event     : +1 on the TARGET vm's counter, and - when it returns - exactly one complete event (cb, msg) has been
 *                             written to that vm's self-pipe: the count is owned by an event in the pipe.
 *   janet_ev_handle_selfpipe: drains the pipe; per event read: the callback runs once with its message and the count taken by
 *                             the post is released exactly once.
 * Pipe model (assumed): a write/read of sizeof(JanetSelfPipeEvent) <= PIPE_BUF bytes is atomic: it transfers the whole event
 * or fails with -1 (any errno). The pipe content for the reader is a ghost queue of up to EV_K events, with up to EV_K EINTR interruptions.
 *
 * KNOWN IMBALANCE (unit ev.selfpipe.pair.nullcb, disabled - genuine defect, C API only): janet_ev_post_event takes the count even
 * for cb == NULL, janet_ev_handle_selfpipe releases it only for cb != NULL. janet_loop1_interrupt() posts exactly such an
 * event, so every call leaks one count and janet_loop() never returns again. C reproducer (link with libjanet):
 *     janet_init(); JanetTable *env = janet_core_env(NULL); Janet out;
 *     janet_loop1_interrupt(NULL); janet_interpreter_interrupt_handled(NULL);
 *     janet_dostring(env, "(ev/spawn (ev/sleep 0.01) (eprint :done))", "main", &out);
 *     janet_loop();      // prints done, then hangs forever; without the interrupt line it returns
 */
#include "prelude.h"
#include "ev_atomic.h"

int g_errno;
int *errno_stub(void) { return &g_errno; }
unsigned sleep_stub(unsigned s) { return 0; }

/* ---- writer side ---- */
int g_pw_events, g_exp_wfd; JanetSelfPipeEvent g_pw_last;
ssize_t pwrite_stub(int fd, const void *buf, size_t n) {
  __CPROVER_assert(fd == g_exp_wfd, "C20 post: the event goes to the write end of the TARGET vm's self-pipe");
  __CPROVER_assert(n == sizeof(JanetSelfPipeEvent) && n <= 512 && __CPROVER_r_ok(buf, n), "C20 post: one whole event record (<= PIPE_BUF, atomic) is written");
  ssize_t r = nd_int() ? (ssize_t) n : -1;
  if (r == -1) g_errno = nd_int();
  else { g_pw_events++; g_pw_last = *(const JanetSelfPipeEvent *) buf; }
  return r;
}
void some_cb(JanetEVGenericMessage m) { }
void rec_tcb(JanetEVGenericMessage m);

void h_post(void) {
  static JanetVM other;
  g_pw_events = 0; g_errno = nd_int();
  JanetVM *vm = nd_int() ? &other : (JanetVM *) 0;
  JanetVM *target = vm ? vm : &janet_vm, *bystander = vm ? &janet_vm : &other;
  target->listener_count = nd_i32(); __CPROVER_assume(target->listener_count >= 0 && target->listener_count < INT32_MAX);
  target->selfpipe[1] = nd_int(); g_exp_wfd = target->selfpipe[1];
  JanetAtomicInt lc0 = target->listener_count, b0 = bystander->listener_count;
  JanetCallback cb = nd_int() ? some_cb : (JanetCallback) 0;
  JanetEVGenericMessage msg; msg.tag = nd_int(); msg.argi = nd_int(); msg.argp = nd_ptr(); msg.fiber = (JanetFiber *) nd_ptr();
  janet_ev_post_event(vm, cb, msg);
  __CPROVER_assert(target->listener_count == lc0 + 1, "C20 pairing: posting an event takes exactly one pending-work count on the target vm");
  __CPROVER_assert(vm == 0 || bystander->listener_count == b0, "C20 pairing: no other vm's counter is touched");
  __CPROVER_assert(g_pw_events == 1, "C20 pairing: when post returns exactly one event is in the pipe to own that count (never zero, never two)");
  __CPROVER_assert(g_pw_last.cb == cb && g_pw_last.msg.tag == msg.tag && g_pw_last.msg.argi == msg.argi && g_pw_last.msg.argp == msg.argp && g_pw_last.msg.fiber == msg.fiber,
                   "C20 post: the event carries the callback and message given");
  REACH("post_event returns");
}

/* ---- reader side: the pipe holds g_total events; events are materialised when read ---- */
int g_eintr_budget;
int g_total, g_delivered, g_with_cb, g_drained, g_exp_rfd, g_allow_null, g_tcb_calls; JanetAtomicInt g_lc0;
ssize_t pread_stub(int fd, void *buf, size_t n) {
  __CPROVER_assert(fd == g_exp_rfd, "C20 selfpipe: reads the vm's own self-pipe");
  __CPROVER_assert(n == sizeof(JanetSelfPipeEvent) && __CPROVER_w_ok(buf, n), "C20 selfpipe: reads one whole event record");
  if (g_delivered < g_total) {
    if (g_eintr_budget > 0 && nd_int()) { g_eintr_budget--; g_errno = EINTR; return -1; }                 /* interrupted: must be retried, the event stays queued */
    JanetSelfPipeEvent ev;
    ev.cb = (g_allow_null && nd_int()) ? (JanetThreadedCallback) 0 : rec_tcb;
    ev.msg.tag = g_delivered; ev.msg.argi = nd_int(); ev.msg.argp = nd_ptr(); ev.msg.fiber = (JanetFiber *) nd_ptr();
    *(JanetSelfPipeEvent *) buf = ev;
    g_delivered++; if (ev.cb) g_with_cb++;
    return (ssize_t) n;
  }
  g_drained = 1;
  if (nd_int()) return 0;
  g_errno = nd_int(); __CPROVER_assume(g_errno != EINTR); return -1;   /* empty non-blocking pipe: EAGAIN */
}
void rec_tcb(JanetEVGenericMessage m) {
  __CPROVER_assert(m.tag == g_delivered - 1, "C20 selfpipe: the callback gets the message of its own event");
  g_tcb_calls++;
}

static void handle_common(int allow_null_cb) {
  g_allow_null = allow_null_cb; g_delivered = 0; g_with_cb = 0; g_drained = 0; g_tcb_calls = 0; g_errno = nd_int();
  janet_vm.selfpipe[0] = nd_int(); g_exp_rfd = janet_vm.selfpipe[0];
  /* every queued event owns one count (postcondition of janet_ev_post_event) */
  janet_vm.listener_count = nd_i32(); g_total = nd_int();
  __CPROVER_assume(g_total >= 0 && janet_vm.listener_count >= g_total);
#ifdef EV_K   /* bounded environment (the goto-recur loop shares its head with the EINTR loop: dfcc cannot carry contracts for it) */
  __CPROVER_assume(g_total <= EV_K); g_eintr_budget = EV_K;
#else
  g_eintr_budget = 1;
#endif
  g_lc0 = janet_vm.listener_count;
  janet_ev_handle_selfpipe();
  __CPROVER_assert(g_drained && g_delivered == g_total, "C20 selfpipe: the pipe is drained - no posted event is left unhandled (EINTR retried)");
  __CPROVER_assert(g_tcb_calls == g_with_cb, "C20 selfpipe: each event's callback runs exactly once");
  __CPROVER_assert(janet_vm.listener_count == g_lc0 - g_total, "C20 pairing: each handled event releases exactly the one count its post took");
}
void h_handle(void) { handle_common(0); REACH("handle_selfpipe returns"); }
void h_handle_nullcb(void) { handle_common(1); REACH("handle_selfpipe returns (null callbacks allowed)"); }
