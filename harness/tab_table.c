/* C04 (map part): janet_table_put / remove / rawget / get / clear / rehash (table.c) against the finite-map view, each from
 * an ARBITRARY well-formed table of capacity TAB_CAP (tab_common.h: wf_table, key universe, view tab_lookup).
 * Every operation is proved from every well-formed state and re-establishes wf_table, so the statements hold after
 * operation histories of any length (at these capacities) - "a table equals the finite map obtained by replaying the same
 * puts and removals".
 *
 * Modular structure (DESIGN C04): janet_dict_find is replaced by its contract - the function tab_find_spec that units
 * tab.find.cap* prove the real janet_dict_find computes on every wf_dict array; the replacement ASSERTS wf_dict of what it
 * is handed (callers must establish the precondition). In the put units janet_table_rehash is replaced by its contract
 * (tab_rehash_contract below), which units tab.rehash.* prove of the real function.
 * The prototype pointer of the table under put / remove / rawget / clear / rehash is a dangling pointer: any access
 * through it fails a pointer check ("only lookups fall back along the prototype chain"). */
#include "tab_common.h"

#ifndef TAB_CAP
#define TAB_CAP 4
#endif
#ifndef TAB_SIZE_MIN          /* the rehash units cover the new sizes [TAB_SIZE_MIN, TAB_SIZE_MAX] */
#define TAB_SIZE_MIN 1
#endif
#ifndef TAB_SIZE_MAX
#define TAB_SIZE_MAX TAB_NEWMAX
#endif
#ifndef TAB_RH_NOLOAD         /* 1: janet_table_rehash is proved / used without the load clause in its precondition */
#define TAB_RH_NOLOAD 0
#endif
#ifndef TAB_NEWMAX            /* largest capacity janet_table_rehash is asked for in this unit */
#define TAB_NEWMAX 8
#endif

/* ---- contract of janet_dict_find (proved by units tab.find.cap*) ---- */
const JanetKV *janet_dict_find(const JanetKV *buckets, int32_t cap, Janet key) {
  int32_t nl, nt;
  __CPROVER_assert(tab_wf_dict(buckets, cap, &nl, &nt), "C04 dict_find precondition: the caller hands over a well-formed bucket array (wf_dict)");
  int32_t r = tab_find_spec(buckets, cap, tab_kid(key));
  return r < 0 ? (const JanetKV *) TAB_NULL : buckets + r;
}

/* ---- assumed allocator model for stack-flagged tables (gc.c scratch memory): a heap block / free ---- */
void *janet_smalloc(size_t n) { void *p = malloc(n); __CPROVER_assume(p != TAB_NULL); return p; }
void janet_sfree(void *p) { free(p); }

/* wf_table; noload != 0 drops T3 */
static int tab_wf_table(const JanetTable *t, int noload) {
  int32_t nl, nt;
  if (!tab_pow2(t->capacity)) return 0;
  int ok = tab_wf_dict(t->data, t->capacity, &nl, &nt);
  return ok && t->count == nl && t->deleted == nt && (noload || 2 * ((int64_t) nl + nt) <= t->capacity);
}
static int tab_exact_block(const JanetTable *t) {
  return t->capacity >= 1 && __CPROVER_DYNAMIC_OBJECT(t->data) && __CPROVER_POINTER_OFFSET(t->data) == 0 &&
         __CPROVER_OBJECT_SIZE(t->data) == (size_t) t->capacity * sizeof(JanetKV);
}

static JanetTable *tab_dangling(void) { void *j = malloc(1); free(j); return (JanetTable *) j; }

static JanetTable *tab_any_table(int32_t cap, JanetTable *proto) {
  JanetTable *t = malloc(sizeof(JanetTable));
  __CPROVER_assume(t != TAB_NULL);
  t->gc.flags = nd_i32();
  t->capacity = cap;
  t->count = nd_i32();
  t->deleted = nd_i32();
  t->data = tab_any_buckets(cap);
  t->proto = proto;
  return t;
}

/* ---- contract of janet_table_rehash (proved by units tab.rehash.*; used in place of the real one by the put units)
 *   requires wf_table(t) (both in-tree callers, janet_table_put and janet_table_put_no_overwrite, call it on a well-formed
 *            table that reached the load limit), size a power of two, size >= t->count
 *   ensures  t->data is a NEW exact block of size buckets without tombstones, the old block is freed, capacity == size,
 *            deleted == 0, count unchanged, wf_dict, and every key of the universe maps to the same value as before
 * The model below picks ANY such block (nondeterministic contents constrained by the ensures clause), so the put units
 * do not depend on the order in which the real function re-inserts the entries. */
static int32_t g_rh_calls;
static void tab_rehash_model(JanetTable *t, int32_t size, const Janet *oldv) {   /* size: a constant at every call */
  JanetKV *nb = tab_any_buckets(size);
  int32_t nl, nt;
  __CPROVER_assume(tab_wf_dict(nb, size, &nl, &nt) && nt == 0);
  for (int k = 1; k <= TAB_K; k++) __CPROVER_assume(tab_lookup(nb, size, k).u64 == oldv[k].u64);
  free(t->data);
  t->data = nb;
  t->capacity = size;
  t->deleted = 0;
}
void tab_rehash_contract(JanetTable *t, int32_t size) {
  g_rh_calls++;
  __CPROVER_assert(tab_wf_table(t, TAB_RH_NOLOAD), "C04 rehash precondition: table well-formed");
  __CPROVER_assert(tab_pow2(size) && size >= t->count && size <= TAB_NEWMAX, "C04 rehash precondition: new size is a power of two with room for every entry (and within the capacities units tab.rehash.* cover)");
  Janet *oldv = malloc((TAB_K + 1) * sizeof(Janet));
  __CPROVER_assume(oldv != TAB_NULL);
  for (int k = 0; k <= TAB_K; k++) oldv[k] = tab_lookup(t->data, t->capacity, k);
  /* one case per size so that the block size and every loop bound over it are constants */
  if (size == 1) tab_rehash_model(t, 1, oldv);
  else if (size == 2) tab_rehash_model(t, 2, oldv);
  else if (size == 4) tab_rehash_model(t, 4, oldv);
  else if (size == 8) tab_rehash_model(t, 8, oldv);
  else if (size == 16) tab_rehash_model(t, 16, oldv);
  else __CPROVER_assume(0);                                       /* excluded by the asserted precondition (TAB_NEWMAX <= 16) */
}

#define GHOST(g) int g = nd_int(); __CPROVER_assume(g >= 1 && g <= TAB_K)
#define SAME_BUCKETS(t, snap, msg) for (int i_ = 0; i_ < TAB_CAP; i_++) \
    __CPROVER_assert((t)->data[i_].key.u64 == (snap)[i_].key.u64 && (t)->data[i_].value.u64 == (snap)[i_].value.u64, msg)

/* ================= janet_table_put =================
 * rehashing != 0: count and deleted are constants, hence also the new capacity janet_tablen(2*count+2) and every loop
 * bound over the new block (DESIGN C04: "one job per capacity so loop bounds are constants"). */
static void tab_put_case(int32_t count, int32_t deleted, int rehashing) {
  JanetTable *dang = tab_dangling();
  JanetTable *t = tab_any_table(TAB_CAP, dang);
  t->count = count;
  t->deleted = deleted;
  __CPROVER_assume(tab_wf_table(t, 0));                            /* requires wf_table(t) */
  GHOST(g);
  int k = nd_int(); __CPROVER_assume(k >= 0 && k <= TAB_K);
  Janet key = tab_any_key(k);
  Janet value; value.u64 = nd_u64();
  Janet old_g = tab_lookup(t->data, TAB_CAP, g);
  int present = tab_lookup(t->data, TAB_CAP, k).u64 != tab_nilw;
  int32_t oc = t->count, od = t->deleted;
  JanetKV *odata = t->data;
  JanetKV *snap = malloc(TAB_CAP * sizeof(JanetKV));
  __CPROVER_assume(snap != TAB_NULL);
  for (int i = 0; i < TAB_CAP; i++) snap[i] = t->data[i];
  g_rh_calls = 0;
  int atlimit = 2 * ((int64_t) count + deleted + 1) > TAB_CAP;
  __CPROVER_assume(rehashing == (atlimit && k != 0 && !present && !janet_checktype(value, JANET_NIL)));

  janet_table_put(t, key, value);

  int isnil = janet_checktype(value, JANET_NIL);
  __CPROVER_assert(tab_exact_block(t), "C04 put: data is a heap block of exactly capacity buckets");
  __CPROVER_assert(tab_wf_table(t, 0), "C04 put re-establishes wf_table: bucket states, distinct keys, probe paths, count and deleted exact, 2*(count+deleted) <= capacity");
  __CPROVER_assert(t->proto == dang, "C04 put: prototype untouched");
  Janet new_g = tab_lookup(t->data, t->capacity, g);
  if (k == 0) {
    __CPROVER_assert(t->data == odata && t->capacity == TAB_CAP && t->count == oc && t->deleted == od, "C04 put: a nil or NaN key is ignored (counts, capacity, block)");
    SAME_BUCKETS(t, snap, "C04 put: a nil or NaN key is ignored (every bucket unchanged)");
  } else if (isnil) {
    __CPROVER_assert(new_g.u64 == (g == k ? tab_nilw : old_g.u64), "C04 put with a nil value removes the key: view' = view.remove(key), other keys unchanged");
    __CPROVER_assert(t->count == oc - present && t->deleted == od + present && t->data == odata && t->capacity == TAB_CAP, "C04 put with a nil value: count and deleted exact, no reallocation");
  } else {
    __CPROVER_assert(new_g.u64 == (g == k ? value.u64 : old_g.u64), "C04 put: view' = view[key -> value], other keys unchanged");
    __CPROVER_assert(t->count == oc + !present, "C04 put: length grows by one exactly for a new key");
    if (present) __CPROVER_assert(t->data == odata && t->capacity == TAB_CAP && t->deleted == od && g_rh_calls == 0, "C04 put: overwriting a present key does not rehash");
  }
  REACH("put returns");
#ifdef TAB_PUT_COUNT
  REACH("put inserts a new key after rehash");
  __CPROVER_assert(g_rh_calls == 1, "C04 put: a new key at the load limit rehashes once");
#else
  {
#if TAB_CAP >= 2
    if (k != 0 && !isnil && !present) REACH("put inserts a new key without rehash");
    if (k != 0 && !isnil && present) REACH("put overwrites a present key");
    if (k != 0 && isnil && present) REACH("put with nil removes a present key");
#endif
    if (k == 0) REACH("put ignores a nil or NaN key");
    /* (a put never lands on a tombstone: under the load clause an EMPTY bucket ends every probe first, so the
     *  `--t->deleted` of janet_table_put is unreachable from well-formed tables) */
  }
#endif
}
/* Unit split (all cases together = every well-formed table and every argument):
 *   TAB_PUT_COUNT undefined : every call that does not rehash (the rehash replacement asserts that it is not reached):
 *                             key present, nil value, foreign key, or count + deleted < capacity/2
 *   TAB_PUT_COUNT = c       : a new key with a non-nil value put into a table with count == c at the load limit
 *                             (count + deleted == capacity/2; == 0 for capacity 1) - the calls that rehash */
void tab_rehash_unreachable(JanetTable *t, int32_t size) {
  __CPROVER_assert(0, "C04 put: rehash happens only for a new key at the load limit");
  __CPROVER_assume(0);
}
void h_table_put(void) {
  tab_init();
#ifdef TAB_PUT_COUNT
  tab_put_case(TAB_PUT_COUNT, TAB_CAP / 2 - TAB_PUT_COUNT, 1);
#else
  tab_put_case(nd_i32(), nd_i32(), 0);
#endif
}

/* ================= janet_table_remove ================= */
void h_table_remove(void) {
  tab_init();
  JanetTable *dang = tab_dangling();
  JanetTable *t = tab_any_table(TAB_CAP, dang);
  __CPROVER_assume(tab_wf_table(t, 0));
  GHOST(g);
  int k = nd_int(); __CPROVER_assume(k >= 0 && k <= TAB_K);
  Janet key = tab_any_key(k);
  Janet old_g = tab_lookup(t->data, TAB_CAP, g), old_k = tab_lookup(t->data, TAB_CAP, k);
  int present = old_k.u64 != tab_nilw;
  int32_t oc = t->count, od = t->deleted;
  JanetKV *odata = t->data;
  JanetKV snap[TAB_CAP];
  for (int i = 0; i < TAB_CAP; i++) snap[i] = t->data[i];

  Janet ret = janet_table_remove(t, key);

  __CPROVER_assert(tab_wf_table(t, 0), "C04 remove re-establishes wf_table: bucket states, distinct keys, probe paths, count and deleted exact, load");
  __CPROVER_assert(t->data == odata && t->capacity == TAB_CAP && t->proto == dang, "C04 remove: no reallocation, prototype untouched");
  __CPROVER_assert(ret.u64 == old_k.u64, "C04 remove returns the value the key had (nil if absent)");
  __CPROVER_assert(tab_lookup(t->data, TAB_CAP, g).u64 == (g == k ? tab_nilw : old_g.u64), "C04 remove: view' = view.remove(key), other keys unchanged");
  __CPROVER_assert(t->count == oc - present && t->deleted == od + present, "C04 remove: count and deleted exact");
  if (!present) { SAME_BUCKETS(t, snap, "C04 remove of an absent (or nil / NaN) key changes nothing"); }
  REACH("remove returns");
  if (k == 0) REACH("remove of a nil or NaN key");
#if TAB_CAP >= 2
  if (present) REACH("remove of a present key");
#endif
}

/* ================= janet_table_rawget ================= */
void h_table_rawget(void) {
  tab_init();
  JanetTable *dang = tab_dangling();
  JanetTable *t = tab_any_table(TAB_CAP, dang);
  __CPROVER_assume(tab_wf_table(t, 0));
  int k = nd_int(); __CPROVER_assume(k >= 0 && k <= TAB_K);
  Janet key = tab_any_key(k);
  Janet old_k = tab_lookup(t->data, TAB_CAP, k);
  int32_t oc = t->count, od = t->deleted;
  JanetKV *odata = t->data;
  JanetKV snap[TAB_CAP];
  for (int i = 0; i < TAB_CAP; i++) snap[i] = t->data[i];

  Janet ret = janet_table_rawget(t, key);

  __CPROVER_assert(ret.u64 == old_k.u64, "C04 rawget returns view(key): the value last put, nil for an absent / removed / nil / NaN key; the prototype is not consulted");
  __CPROVER_assert(t->data == odata && t->capacity == TAB_CAP && t->proto == dang && t->count == oc && t->deleted == od, "C04 rawget does not modify the table header");
  SAME_BUCKETS(t, snap, "C04 rawget does not modify the buckets");
  REACH("rawget returns");
  if (k == 0) REACH("rawget of a nil or NaN key");
#if TAB_CAP >= 2
  if (old_k.u64 != tab_nilw) REACH("rawget of a present key");
  if (old_k.u64 == tab_nilw && od > 0) REACH("rawget of an absent key in a table with tombstones");
#endif
}

/* ================= janet_table_get: lookups - only lookups - fall back along the prototype chain ================= */
#ifndef TAB_CHAIN
#define TAB_CHAIN 3
#endif
#ifndef TAB_PCAP            /* capacity of the prototype tables */
#define TAB_PCAP 2
#endif
void h_table_get(void) {
  tab_init();
  JanetTable *c[TAB_CHAIN];
  int len = nd_int(); __CPROVER_assume(len >= 1 && len <= TAB_CHAIN);
  for (int i = 0; i < TAB_CHAIN; i++) {
    c[i] = tab_any_table(i == 0 ? TAB_CAP : TAB_PCAP, (JanetTable *) TAB_NULL);
    __CPROVER_assume(tab_wf_table(c[i], 0));
  }
  for (int i = 0; i + 1 < TAB_CHAIN; i++) if (i + 1 < len) c[i]->proto = c[i + 1];
  int k = nd_int(); __CPROVER_assume(k >= 0 && k <= TAB_K);
  Janet key = tab_any_key(k);
  Janet want = janet_wrap_nil();
  int from = -1;
  for (int i = TAB_CHAIN - 1; i >= 0; i--) {
    if (i < len) {
      Janet v = tab_lookup(c[i]->data, c[i]->capacity, k);
      if (v.u64 != tab_nilw) { want = v; from = i; }
    }
  }
  JanetKV snap[TAB_CAP];
  for (int i = 0; i < TAB_CAP; i++) snap[i] = c[0]->data[i];
  int32_t oc = c[0]->count, od = c[0]->deleted;

  Janet ret = janet_table_get(c[0], key);

  __CPROVER_assert(ret.u64 == want.u64, "C04 get returns the value of the first table along the prototype chain whose view holds the key, nil if none does");
  __CPROVER_assert(c[0]->count == oc && c[0]->deleted == od && c[0]->capacity == TAB_CAP, "C04 get does not modify the table header");
  SAME_BUCKETS(c[0], snap, "C04 get does not modify the buckets");
  REACH("get returns");
  if (from == 0) REACH("get finds the key in the table itself");
  if (from == TAB_CHAIN - 1 && c[0]->deleted > 0) REACH("get falls back to the last prototype past a table with tombstones");
  if (from < 0 && len == TAB_CHAIN) REACH("get returns nil after the whole chain");
}

/* ================= janet_table_clear ================= */
void h_table_clear(void) {
  tab_init();
  JanetTable *dang = tab_dangling();
  JanetTable *t = tab_any_table(TAB_CAP, dang);
  __CPROVER_assume(tab_wf_table(t, 0));
  GHOST(g);
  JanetKV *odata = t->data;
  int32_t oc = t->count;

  janet_table_clear(t);

  __CPROVER_assert(tab_wf_table(t, 0), "C04 clear re-establishes wf_table");
  __CPROVER_assert(t->count == 0 && t->deleted == 0, "C04 clear: length 0, no tombstones");
  __CPROVER_assert(tab_lookup(t->data, TAB_CAP, g).u64 == tab_nilw, "C04 clear: view' is the empty map");
  __CPROVER_assert(t->data == odata && t->capacity == TAB_CAP && t->proto == dang, "C04 clear keeps block, capacity and prototype");
  for (int i = 0; i < TAB_CAP; i++) __CPROVER_assert(tab_state(t->data + i) == TAB_EMPTY, "C04 clear: every bucket EMPTY");
  REACH("clear returns");
#if TAB_CAP >= 2
  if (oc > 0) REACH("clear of a non-empty table");
#endif
}

/* ================= janet_table_rehash (static) under its contract =================
 * one call site per new size (a constant there, so the block size and the loop bounds over it are constants) */
static void tab_rehash_case(JanetTable *t, int32_t size, int g, JanetTable *dang) {
  Janet old_g = tab_lookup(t->data, TAB_CAP, g);
  int32_t oc = t->count, od = t->deleted;
  JanetKV *odata = t->data;

  janet_table_rehash(t, size);

  int32_t nl, nt;
  __CPROVER_assert(t->capacity == size && tab_exact_block(t) && t->data != odata, "C04 rehash: data is a new heap block of exactly size buckets");
  __CPROVER_assert(tab_wf_dict(t->data, size, &nl, &nt), "C04 rehash establishes wf_dict on the new block (distinct keys, probe paths)");
  __CPROVER_assert(nt == 0 && t->deleted == 0, "C04 rehash: no tombstones, deleted == 0");
  __CPROVER_assert(t->count == oc && nl == oc, "C04 rehash: count unchanged and exact");
  __CPROVER_assert(tab_lookup(t->data, size, g).u64 == old_g.u64, "C04 rehash preserves the view: every key maps to the same value");
  __CPROVER_assert(t->proto == dang, "C04 rehash: prototype untouched");
  REACH("rehash returns");
#if TAB_SIZE_MAX > TAB_CAP && TAB_CAP >= 4
  if (od > 0 && oc > 0 && size > TAB_CAP) REACH("rehash grows a table with tombstones");
#endif
#if TAB_SIZE_MIN < TAB_CAP && TAB_CAP >= 4
  if (oc > 1 && size < TAB_CAP) REACH("rehash shrinks a table");
#endif
}
void h_table_rehash(void) {
  tab_init();
  JanetTable *dang = tab_dangling();
  JanetTable *t = tab_any_table(TAB_CAP, dang);
#ifdef TAB_LOCAL
  t->gc.flags = TAB_LOCAL ? JANET_TABLE_FLAG_STACK : 0;
#endif
  __CPROVER_assume(tab_wf_table(t, TAB_RH_NOLOAD));                /* requires wf_table (TAB_RH_NOLOAD: without the load clause) */
  int32_t size = nd_i32();
  __CPROVER_assume(tab_pow2(size) && size >= t->count && size >= TAB_SIZE_MIN && size <= TAB_SIZE_MAX);
  GHOST(g);
  if (size == 1) tab_rehash_case(t, 1, g, dang);
  else if (size == 2) tab_rehash_case(t, 2, g, dang);
  else if (size == 4) tab_rehash_case(t, 4, g, dang);
  else if (size == 8) tab_rehash_case(t, 8, g, dang);
  else if (size == 16) tab_rehash_case(t, 16, g, dang);
  else __CPROVER_assert(0, "C04 rehash unit: TAB_NEWMAX <= 16");
}
