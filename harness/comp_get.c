/* C15: the inline form of (get ds key dflt) (cfuns.c do_get) must compute what the function computes: the stored value when
 * it is not nil (false IS a value), otherwise the default. Emission contract with the emit functions as recording stubs:
 * GET target, ds, key ; a conditional jump over the default that is taken exactly when target is NOT NIL ; target <- default.
 * The default is saved first when it lives in the target slot. */
#include "prelude.h"
int g_n; int g_ops[4]; int32_t g_a[4], g_b[4], g_c[4]; int g_copies; JanetSlot g_copy_dst[3], g_copy_src[3]; int g_copy_at[3];
JanetSlot g_target, g_far; uint32_t g_code[8]; int32_t g_vraw[2 + 8];
static int32_t slot_id(JanetSlot s) { return s.index; }
int32_t emit_sss_rec(JanetCompiler *c, uint8_t op, JanetSlot s1, JanetSlot s2, JanetSlot s3, int wr) { int k = g_n++; g_ops[k] = op; g_a[k] = slot_id(s1); g_b[k] = slot_id(s2); g_c[k] = slot_id(s3); g_vraw[1]++; return k; }
int32_t emit_si_rec(JanetCompiler *c, uint8_t op, JanetSlot s, int16_t immediate, int wr) { int k = g_n++; g_ops[k] = op; g_a[k] = slot_id(s); g_b[k] = immediate; g_vraw[1]++; return k; }
void copy_rec(JanetCompiler *c, JanetSlot dest, JanetSlot src) { int k = g_copies++; g_copy_dst[k] = dest; g_copy_src[k] = src; g_copy_at[k] = g_n; }
JanetSlot gettarget_stub(JanetFopts opts) { return g_target; }
JanetSlot farslot_stub(JanetCompiler *c) { return g_far; }
int sequal_stub(JanetSlot a, JanetSlot b) { return a.index == b.index; }
void freeslot_stub(JanetCompiler *c, JanetSlot s) { }
void h_do_get(void) {
  JanetCompiler comp; JanetFopts opts; opts.compiler = &comp;
  g_vraw[0] = 8; g_vraw[1] = 0; comp.buffer = (uint32_t *)(g_vraw + 2);
  /* argument vector of exactly 3 slots (janet_v layout: [cap, count] header) */
  static int32_t araw[2 + 3 * (sizeof(JanetSlot) / 4 + 1)]; araw[0] = 3; araw[1] = 3; JanetSlot *args = (JanetSlot *)(araw + 2);
  args[0].index = 1; args[1].index = 2; args[2].index = nd_int() & 1 ? 3 : 7;
  g_target.index = 7; g_far.index = 9; g_n = 0; g_copies = 0;
  int aliased = args[2].index == g_target.index;
  JanetSlot r = do_get(opts, args);
  __CPROVER_assert(r.index == g_target.index, "C15 inline get: result is the target slot");
  __CPROVER_assert(g_n == 2 && g_ops[0] == JOP_GET && g_a[0] == g_target.index && g_b[0] == 1 && g_c[0] == 2, "C15 inline get: first the lookup target <- (get ds key), operands in argument order");
  __CPROVER_assert(g_ops[1] == JOP_JUMP_IF_NOT_NIL && g_a[1] == g_target.index, "C15 inline get: the default is skipped exactly when the looked-up value is not nil (a stored false is returned, as by the function)");
  __CPROVER_assert((comp.buffer[1] >> 16) == 1, "C15 inline get: the jump lands right behind the default move");
  if (aliased) __CPROVER_assert(g_copies == 2 && g_copy_at[0] == 0 && g_copy_dst[0].index == g_far.index && g_copy_src[0].index == g_target.index && g_copy_dst[1].index == g_target.index && g_copy_src[1].index == g_far.index && g_copy_at[1] == 2,
      "C15 inline get: a default living in the target slot is saved before the lookup overwrites it and restored from the copy");
  else __CPROVER_assert(g_copies == 1 && g_copy_at[0] == 2 && g_copy_dst[0].index == g_target.index && g_copy_src[0].index == args[2].index, "C15 inline get: after the jump the default is moved into the target");
  REACH("do_get emits the three-argument form");
}
