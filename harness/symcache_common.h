/* C01 / C03: the symbol / keyword intern cache of symcache.c - shared universe, representation invariant and set view.
 *
 * C01 "the collector never frees or loses a live value": sweeping a dead symbol calls janet_symbol_deinit, which must remove
 *     exactly that symbol; every other interned symbol must stay findable - through every later lookup, insertion, removal
 *     and resize. C03 "equal symbol texts intern to the identical pointer": no text is ever live twice, and a lookup of a
 *     live text returns the one interned object.
 *
 * Abstraction (assumed contracts, as in tab_common.h / val2_struct.c):
 *   text universe  SY_K different texts, text id 1..SY_K. A symbol OBJECT is a real JanetStringHead-prefixed heap block whose
 *                  header holds length g_sy_len[t] and hash g_sy_hash[t] of its text t; the bytes themselves are not
 *                  modelled. sy_obj[t] is the interned object of text t (it may or may not be in the cache); sy_twin is ONE
 *                  further object / caller buffer carrying the text sy_twin_t (a second copy of a text, or the bytes handed
 *                  to janet_symbol).
 *   janet_string_equalconst(lhs, rhs, rlen, rhash)  = "same text id"; the stub asserts that the caller passes the length
 *                  and hash of rhs (the real function compares hash, length, then bytes - string.c)
 *   string hash    g_sy_hash[t]: an ARBITRARY function of the text (all 2^32 values per text: every home slot / full-hash
 *                  collision pattern); length g_sy_len[t] arbitrary >= 0
 *
 * Slot states: NULL (never used), JANET_SYMCACHE_DELETED (tombstone), or a live symbol object.
 * wf_cache:
 *   I1 capacity is a power of two >= 4 (1024 at init; janet_symcache_put - the only caller of janet_cache_resize - asks for
 *      max(4, janet_tablen(2*count+1))); janet_vm.cache is a heap block of exactly capacity slots; every slot NULL,
 *      tombstone, or an object of the universe
 *   I2 no two live entries carry the same text                                       (C03: same text => identical pointer)
 *   I3 every live entry is reachable from its home slot hash & (cap-1) by linear probing with wrap-around without
 *      crossing a NULL slot; tombstones do not stop a probe                          (C01: a live symbol stays findable)
 *   I4 cache_count is the exact number of live entries; cache_deleted is AT LEAST the number of tombstones (janet_symcache_put
 *      re-uses a tombstone handed out by findmem without decrementing cache_deleted, so it is an upper bound only)
 *   I5 2 * (cache_count + cache_deleted) <= capacity + 2   (janet_symcache_put checks the load BEFORE it adds an entry)
 *   I6 at least one slot is not live - otherwise the lookup of an absent text ends in findmem's fatal
 *      "symcache failed to get memory". With capacity >= 4 it follows from I4 + I5; it is kept as a clause of its own
 *      because every put unit must re-establish it (before commit 9ee9625 "symbol cache never shrinks below 4 slots" a
 *      cache of capacity 2 could be filled completely: native reproducer design-probes/repro/symcache_repro_cap2.c).
 * Fatal exits (abort / exit) are obligations in these units, not assumptions. */
#ifndef VC_SYMCACHE_COMMON_H
#define VC_SYMCACHE_COMMON_H
#include "prelude.h"
#include <stdlib.h>

#ifndef SY_K
#define SY_K 4
#endif
#define SY_MAXB 16                       /* largest capacity any unit uses */
#define SY_NULLP ((void *)0)
#define SY_DEL (-1)                      /* kind of a tombstone slot; 0: NULL slot; t > 0: live entry with text t; SY_BAD: anything else */
#define SY_BAD (-2)

void exit(int c) { __CPROVER_assert(0, "C01 symcache: no fatal exit from a well-formed cache"); __CPROVER_assume(0); }
void abort(void) { __CPROVER_assert(0, "C01 symcache: no fatal exit from a well-formed cache (symcache failed to get memory)"); __CPROVER_assume(0); }

int32_t g_sy_hash[SY_K + 1];
int32_t g_sy_len[SY_K + 1];
static const uint8_t *sy_obj[SY_K + 1];
static const uint8_t *sy_twin;
static int sy_twin_t;

static const uint8_t *sy_mkobj(int t) {
  JanetStringHead *h = malloc(sizeof(JanetStringHead) + 1);
  __CPROVER_assume(h != SY_NULLP);
  h->length = g_sy_len[t];
  h->hash = g_sy_hash[t];
  return h->data;
}
static void sy_init(void) {
  g_sy_hash[0] = 0; g_sy_len[0] = 0; sy_obj[0] = SY_NULLP;
  for (int t = 1; t <= SY_K; t++) {
    g_sy_hash[t] = nd_i32();
    g_sy_len[t] = nd_i32();
    __CPROVER_assume(g_sy_len[t] >= 0);
    sy_obj[t] = sy_mkobj(t);
  }
  sy_twin_t = nd_int();
  __CPROVER_assume(sy_twin_t >= 1 && sy_twin_t <= SY_K);
  sy_twin = sy_mkobj(sy_twin_t);
}
/* text id of an object of the universe, 0 for anything else */
static int sy_tid(const uint8_t *p) {
  if (p == SY_NULLP) return 0;
  for (int t = 1; t <= SY_K; t++) if (p == sy_obj[t]) return t;
  if (p == sy_twin) return sy_twin_t;
  return 0;
}
/* contract of janet_string_equalconst (string.c) on the universe */
int janet_string_equalconst(const uint8_t *lhs, const uint8_t *rhs, int32_t rlen, int32_t rhash) {
  int a = sy_tid(lhs), b = sy_tid(rhs);
  __CPROVER_assert(a != 0 && b != 0, "C01 symcache: compared strings are symbol objects / caller buffers, never NULL or the tombstone");
  __CPROVER_assert(rlen == g_sy_len[b] && rhash == g_sy_hash[b], "C01 symcache: the caller passes the length and hash of the string it looks for");
  return a == b;
}

typedef struct { int kind[SY_MAXB]; const uint8_t *ptr[SY_MAXB]; uint32_t cap, count, deleted, nlive, ntomb; } SyView;

#define SY_MINCAP 4                      /* I1: smallest capacity of a well-formed cache */
static int sy_pow2(uint32_t cap) { return cap >= SY_MINCAP && cap <= SY_MAXB && (cap & (cap - 1)) == 0; }
static uint32_t sy_home(uint32_t cap, int t) { return (uint32_t) g_sy_hash[t] & (cap - 1); }
static uint32_t sy_dist(uint32_t cap, uint32_t from, uint32_t to) { return (to - from) & (cap - 1); }

/* snapshot of janet_vm's cache; returns 0 if I1 fails */
static int sy_decode(SyView *v) {
  int ok = 1;
  uint32_t cap = janet_vm.cache_capacity;
  v->cap = cap; v->count = janet_vm.cache_count; v->deleted = janet_vm.cache_deleted; v->nlive = 0; v->ntomb = 0;
  if (!sy_pow2(cap)) return 0;
  if (!(__CPROVER_DYNAMIC_OBJECT(janet_vm.cache) && __CPROVER_POINTER_OFFSET(janet_vm.cache) == 0 &&
        __CPROVER_OBJECT_SIZE(janet_vm.cache) == (size_t) cap * sizeof(const uint8_t *))) return 0;
  for (uint32_t i = 0; i < cap; i++) {
    const uint8_t *p = janet_vm.cache[i];
    v->ptr[i] = p;
    if (p == SY_NULLP) v->kind[i] = 0;
    else if (p == JANET_SYMCACHE_DELETED) { v->kind[i] = SY_DEL; v->ntomb++; }
    else {
      int t = sy_tid(p);
      if (t == 0) { v->kind[i] = SY_BAD; ok = 0; }
      else { v->kind[i] = t; v->nlive++; }
    }
  }
  return ok;
}
/* no NULL slot strictly before `slot` on the probe path of text t */
static int sy_reachable(const SyView *v, int t, uint32_t slot) {
  int ok = 1;
  uint32_t h = sy_home(v->cap, t), ds = sy_dist(v->cap, h, slot);
  for (uint32_t j = 0; j < v->cap; j++) if (v->kind[j] == 0 && sy_dist(v->cap, h, j) < ds) ok = 0;
  return ok;
}
/* I2..I4 (structure); I5 / I6 separately */
static int sy_wf_struct(const SyView *v) {
  int ok = 1; unsigned seen = 0;
  for (uint32_t i = 0; i < v->cap; i++) {
    int t = v->kind[i];
    if (t > 0) {
      if (seen & (1u << t)) ok = 0;                              /* I2 */
      seen |= 1u << t;
      if (!sy_reachable(v, t, i)) ok = 0;                        /* I3 */
    }
  }
  if (v->count != v->nlive || v->deleted < v->ntomb) ok = 0;     /* I4 */
  return ok;
}
static int sy_wf_load(const SyView *v) {
  return 2 * ((uint64_t) v->count + v->deleted) <= (uint64_t) v->cap + 2 && v->nlive < v->cap;   /* I5, I6 */
}
static int sy_wf(const SyView *v) { return sy_wf_struct(v) && sy_wf_load(v); }

/* slot of the live entry with text t, -1 if none */
static int sy_slot_of(const SyView *v, int t) {
  int r = -1;
  for (uint32_t i = 0; i < v->cap; i++) if (t > 0 && v->kind[i] == t) r = (int) i;
  return r;
}
/* the live entry with text t (NULL if none): the cache as a set of interned objects */
static const uint8_t *sy_live(const SyView *v, int t) { int s = sy_slot_of(v, t); return s < 0 ? (const uint8_t *) SY_NULLP : v->ptr[s]; }

/* install an arbitrary cache of capacity cap (a constant at every call): each slot NULL, tombstone or the interned object of
 * an arbitrary text; counters arbitrary. Returns the I1 verdict; wf is assumed by the caller. */
static int sy_any_cache(uint32_t cap, SyView *v) {
  const uint8_t **c = malloc((size_t) cap * sizeof(const uint8_t *));
  __CPROVER_assume(c != SY_NULLP);
  for (uint32_t i = 0; i < cap; i++) {
    int k = nd_int();
    __CPROVER_assume(k >= SY_DEL && k <= SY_K);
    c[i] = k == 0 ? (const uint8_t *) SY_NULLP : k == SY_DEL ? JANET_SYMCACHE_DELETED : sy_obj[k];
  }
  janet_vm.cache = c;
  janet_vm.cache_capacity = cap;
  janet_vm.cache_count = nd_u32();
  janet_vm.cache_deleted = nd_u32();
  return sy_decode(v);
}
static int sy_text(void) { int t = nd_int(); __CPROVER_assume(t >= 1 && t <= SY_K); return t; }

/* C01/C03 frame: every text other than `except` is live afterwards iff it was before, as the identical object */
#define SY_FRAME(o, n, g, except, what) do { if ((g) != (except)) \
    __CPROVER_assert(sy_live(&(n), (g)) == sy_live(&(o), (g)), "C01 symcache " what ": every other interned symbol stays interned as the identical object, none appears"); } while (0)
#endif
