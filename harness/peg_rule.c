/* C12: per-opcode harness for the PEG matcher peg_rule (peg.c), plain mode.
 *
 * The REAL body of peg_rule runs once on a symbolic, well-formed bytecode (<= PEG_BLEN words) whose top rule has the
 * opcode PEG_OP (all opcodes if PEG_OP is not defined), on a text object of SYMBOLIC length. Every recursive call is
 * replaced (goto-instrument --replace-calls) by peg_rule_stub, the asserting/assuming form of peg_rule's own contract:
 *
 *   requires  s is the matcher state; rule is an instruction start of s->bytecode (wf_peg);
 *             text_start <= text <= s->text_end <= outer_text_end (window); s->depth >= 1; mode valid;
 *             stack heights within capacity, tags and tagged captures at one height (wf_caps)
 *   ensures   depth, mode, text_start, text_end, outer_text_end unchanged; every stack height >= its entry value,
 *             tags/tagged still equal; result NULL or text <= result <= s->text_end
 *
 * The harness asserts the same `ensures` for the real body (so the contract is inductive), plus what the property
 * names:
 *   WINDOW    every read of the text lies inside the text object [text_start, outer_text_end) (pointer checks on an
 *             exactly-sized object; the callee stubs assert r_ok of every (pointer,length) pair handed on)
 *   RESTORE   depth, mode and the text window equal their entry values on every normal return; every sub-match runs
 *             at depth-1 (non-tail) resp. depth (tail position)
 *   BACKTRACK captures made inside a FAILED sub-match vanish: after a sub-match returned NULL, at the next event
 *             (next sub-match, next push onto a capture stack, successful return) all four stack heights equal the
 *             heights at the start of that failed sub-match. (On a NULL return captures may be left: the caller cuts.)
 */
#include "prelude.h"
#include <stdlib.h>

#ifndef PEG_BLEN
#define PEG_BLEN 24
#endif
#define PEG_NCONST 3
#define PEG_CAPN 4      /* capacity of captures / tagged_captures / tags in the harness */
#define PEG_SCRN 6      /* capacity of the accumulator */
#define PEG_EXN 2
#define PEG_STRN 3      /* capacity of the string object tagged string captures refer to */
#ifndef PEG_TMAX
#define PEG_TMAX 0x7fffffffu
#endif

/* ---- ghost state ---- */
static PegState *G_S;
static const uint32_t *G_BC; static const uint8_t *G_ISSTART;
static const uint8_t *G_T0; static size_t G_TLEN;
static int32_t g_depth0; static int g_mode0; static const uint8_t *g_tend0;
static int g_failed;                                  /* a sub-match failed and no event happened since */
static int32_t g_f_cap, g_f_scr, g_f_tcap, g_f_tags;  /* stack heights at the start of that sub-match */
static int g_calls;
static const uint8_t *G_STRP;                         /* bytes of the string object that tagged string captures refer to */

#define CAPS_WF(s) ((s)->captures->count >= 0 && (s)->captures->count <= PEG_CAPN && \
                    (s)->tagged_captures->count >= 0 && (s)->tagged_captures->count <= PEG_CAPN && \
                    (s)->tags->count == (s)->tagged_captures->count && \
                    (s)->scratch->count >= 0 && (s)->scratch->count <= PEG_SCRN)

static void peg_event(const char *unused) {
  (void) unused;
  if (g_failed) {
    __CPROVER_assert(G_S->captures->count == g_f_cap, "C12 BACKTRACK: positional captures of a failed sub-match are cut back before matching continues");
    __CPROVER_assert(G_S->scratch->count == g_f_scr, "C12 BACKTRACK: accumulated text of a failed sub-match is cut back before matching continues");
    __CPROVER_assert(G_S->tagged_captures->count == g_f_tcap && G_S->tags->count == g_f_tags, "C12 BACKTRACK: tagged captures of a failed sub-match are cut back before matching continues");
    g_failed = 0;
  }
}

/* ---- contract of peg_rule at the recursive call sites ---- */
const uint8_t *peg_rule_stub(PegState *s, const uint32_t *rule, const uint8_t *text) {
  __CPROVER_assert(s == G_S, "C12 peg_rule.pre: same matcher state");
  __CPROVER_assert(s->bytecode == G_BC && __CPROVER_same_object(rule, G_BC) && rule >= G_BC && rule < G_BC + PEG_BLEN &&
                   G_ISSTART[rule - G_BC], "C12 peg_rule.pre: rule operand is an instruction start inside the bytecode");
  __CPROVER_assert(s->text_start == G_T0 && s->outer_text_end == G_T0 + G_TLEN, "C12 RESTORE: text_start / outer_text_end never move");
  __CPROVER_assert(__CPROVER_same_object(text, G_T0) && __CPROVER_same_object(s->text_end, G_T0) &&
                   s->text_start <= text && text <= s->text_end && s->text_end <= s->outer_text_end,
                   "C12 WINDOW: sub-match starts inside the current window, window inside the text");
  __CPROVER_assert(s->text_end <= g_tend0, "C12 WINDOW: sub-windows only narrow the window");
  __CPROVER_assert(s->depth == g_depth0 - 1 && s->depth >= 1, "C12 RESTORE: every sub-match runs exactly one level deeper, above the recursion floor");
  __CPROVER_assert(s->mode == PEG_MODE_NORMAL || s->mode == PEG_MODE_ACCUMULATE, "C12 peg_rule.pre: valid mode");
  __CPROVER_assert(CAPS_WF(s), "C12 peg_rule.pre: wf_caps (heights in range, tags and tagged captures at one height)");
  peg_event("call");
  g_calls++;
  /* ensures (assumed): heights only grow, tags/tagged stay equal, nothing else of the state changes */
  int32_t a = nd_i32(), b = nd_i32(), c = nd_i32();
  __CPROVER_assume(a >= s->captures->count && a <= PEG_CAPN);
  __CPROVER_assume(b >= s->scratch->count && b <= PEG_SCRN);
  __CPROVER_assume(c >= s->tagged_captures->count && c <= PEG_CAPN);
  g_f_cap = s->captures->count; g_f_scr = s->scratch->count; g_f_tcap = s->tagged_captures->count; g_f_tags = s->tags->count;
  s->captures->count = a; s->scratch->count = b; s->tagged_captures->count = c; s->tags->count = c;
  if (nd_int()) { g_failed = 1; return NULL; }
  size_t k = nd_size();
  __CPROVER_assume(k <= (size_t)(s->text_end - text));
  return text + k;
}

/* ---- callees that touch the capture stacks or receive (pointer,length) pairs of the text ---- */
void h_array_push(JanetArray *array, Janet x) {
  __CPROVER_assert(array == G_S->captures || array == G_S->tagged_captures, "C12 pushcap: pushes go to the matcher's own stacks");
  peg_event("push");
  __CPROVER_assume(array->count < PEG_CAPN);     /* harness capacity (bound) */
  array->data[array->count] = x;
  array->count++;
}
void h_buffer_push_u8(JanetBuffer *buffer, uint8_t x) {
  __CPROVER_assert(buffer == G_S->tags, "C12 pushcap: tag bytes go to the tags buffer");
  __CPROVER_assume(buffer->count < PEG_CAPN);
  buffer->data[buffer->count] = x;
  buffer->count++;
}
void h_to_string_b(JanetBuffer *buffer, Janet x) {
  __CPROVER_assert(buffer == G_S->scratch, "C12 pushcap: accumulated text goes to the scratch buffer");
  peg_event("push");
  int32_t n = nd_i32();
  __CPROVER_assume(n >= buffer->count && n <= PEG_SCRN);
  buffer->count = n;
}
void h_buffer_push_bytes(JanetBuffer *buffer, const uint8_t *bytes, int32_t len) {
  __CPROVER_assert(buffer == G_S->scratch, "C12 capture: accumulated text goes to the scratch buffer");
  __CPROVER_assert(len >= 0 && __CPROVER_r_ok(bytes, len), "C12 WINDOW: accumulated capture bytes are readable");
  __CPROVER_assert(len == 0 || (__CPROVER_same_object(bytes, G_T0) && bytes >= G_T0 && bytes + len <= G_S->text_end), "C12 WINDOW: captured span lies inside the current window");
  peg_event("push");
  int32_t n = nd_i32();
  __CPROVER_assume(n >= buffer->count && n <= PEG_SCRN);
  buffer->count = n;
}
JanetString h_string(const uint8_t *str, int32_t len) {
  __CPROVER_assert(len >= 0 && __CPROVER_r_ok(str, len), "C12 WINDOW: captured span is readable and has non-negative length");
  __CPROVER_assert(len == 0 || !__CPROVER_same_object(str, G_T0) || str + len <= G_S->text_end, "C12 WINDOW: captured text span lies inside the current window");
  return (JanetString) G_STRP;
}
int h_scan_number_base(const uint8_t *str, int32_t len, int32_t base, double *out) {
  __CPROVER_assert(len >= 0 && __CPROVER_r_ok(str, len), "C12 WINDOW: number span is readable and has non-negative length");
  __CPROVER_assert(len == 0 || (__CPROVER_same_object(str, G_T0) && str + len <= G_S->text_end), "C12 WINDOW: number span lies inside the current window");
  *out = nd_double();
  return nd_int();
}
int h_memcmp(const void *a, const void *b, size_t n) {
  __CPROVER_assert(__CPROVER_r_ok(a, n) && __CPROVER_r_ok(b, n), "C12 WINDOW: both memcmp operands readable for the full length");
  __CPROVER_assert(n == 0 || (__CPROVER_same_object(a, G_T0) && (const uint8_t *) a + n <= G_S->text_end), "C12 WINDOW: compared text lies inside the current window");
  return nd_int();
}
void h_safe_memcpy(void *d, const void *src, size_t n) {
  __CPROVER_assert(n == 0 || (__CPROVER_w_ok(d, n) && __CPROVER_r_ok(src, n)), "C12 group: copied captures readable / destination writable");
}
JanetArray *h_array(int32_t capacity) {
  __CPROVER_assert(capacity >= 0, "C12 group: non-negative number of sub-captures");
  JanetArray *a = malloc(sizeof(JanetArray));
  __CPROVER_assume(a != NULL);
  a->data = malloc(sizeof(Janet) * (size_t) capacity);
  __CPROVER_assume(a->data != NULL);
  a->capacity = capacity; a->count = 0;
  return a;
}
LineCol h_linecol(PegState *s, int32_t position) {
  __CPROVER_assert(s == G_S && position >= 0 && (size_t) position <= G_TLEN, "C12 line/column: position lies inside the text");
  LineCol lc; lc.line = nd_i32(); lc.col = nd_i32(); return lc;
}
/* functions stored in constants (replace / cmt): called with the captures made by the sub-pattern */
Janet h_cfun(int32_t argc, Janet *argv) {
  __CPROVER_assert(argc >= 0 && (argc == 0 || __CPROVER_r_ok(argv, sizeof(Janet) * (size_t) argc)), "C12 replace/cmt: C function receives a readable argument vector");
  Janet r; return r;
}
Janet h_call(JanetFunction *fun, int32_t argc, const Janet *argv) {
  __CPROVER_assert(argc >= 0 && (argc == 0 || __CPROVER_r_ok(argv, sizeof(Janet) * (size_t) argc)), "C12 replace/cmt: function receives a readable argument vector");
  Janet r; return r;
}

#include "peg_wf.h"
/* wf_peg along the chain of rules the real body can reach WITHOUT a call: the top rule and its tail-call targets
 * (choice/sequence: last element; if/if-not: second rule; accumulate: sub-rule), PEG_TAILDEPTH deep. This is weaker than
 * (implied by) "every instruction start is well-formed"; all other rules are only handed to the contract stub, which
 * ASSERTS that they are instruction starts. */
#ifndef PEG_TAILDEPTH
#define PEG_TAILDEPTH 3
#endif
#define BCAT(k) ((k) < PEG_BLEN ? bc[(k)] : 0u)
static uint32_t peg_tail_target(const uint32_t *bc, uint32_t i) {
  switch (bc[i]) {
    case RULE_CHOICE: case RULE_SEQUENCE: { uint32_t len = BCAT(i + 1); return (len && len < PEG_BLEN) ? BCAT(i + 1 + len) : PEG_BLEN; }
    case RULE_IF: case RULE_IFNOT: return BCAT(i + 2);
    case RULE_ACCUMULATE: return BCAT(i + 1);
    default: return PEG_BLEN;
  }
}
static int peg_wf_chain(const uint32_t *bc, const uint8_t *isstart, uint32_t clen, uint32_t r0) {
  uint32_t t = r0;
  for (int d = 0; d <= PEG_TAILDEPTH; d++) {
    if (t >= PEG_BLEN) break;
    if (!isstart[t] || !peg_wf_instr(bc, isstart, t, clen)) return 0;
#ifdef PEG_TAIL_NOT_OP
    /* rules reached in tail position are not PEG_TAIL_NOT_OP (that opcode has its own unit) */
    if (d > 0 && bc[t] == PEG_TAIL_NOT_OP) return 0;
#endif
    t = peg_tail_target(bc, t);
  }
  return 1;
}
/* representation invariant of Janet values the matcher dereferences, installed constructively (rule R1: an assumed
 * pointer equality leaves CBMC's value set empty): C functions among the constants are callable with (argc, argv);
 * tagged string captures refer to a real string object. */
static void peg_inv_consts(Janet *consts) {
  for (int i = 0; i < PEG_NCONST; i++)
    if (janet_checktype(consts[i], JANET_CFUNCTION)) consts[i].as.pointer = (void *) h_cfun;
}
static void peg_inv_tcaps(Janet *tcapdata) {
  for (int i = 0; i < PEG_CAPN; i++)
    if (janet_checktype(tcapdata[i], JANET_STRING)) tcapdata[i].as.pointer = (void *) G_STRP;
}

const uint8_t *peg_rule__entry(PegState *s, const uint32_t *rule, const uint8_t *text);

void h_peg_rule(void) {
  static PegState S; static JanetArray CAPS, TCAPS; static JanetBuffer SCR, TAGS;
  uint32_t bc[PEG_BLEN]; uint8_t isstart[PEG_BLEN];
  Janet consts[PEG_NCONST]; Janet capdata[PEG_CAPN]; Janet tcapdata[PEG_CAPN]; Janet extra[PEG_EXN];
  uint8_t scrdata[PEG_SCRN]; uint8_t tagdata[PEG_CAPN];

  /* grammar: symbolic well-formed bytecode, symbolic top rule */
  uint32_t clen = nd_u32(); __CPROVER_assume(clen <= PEG_NCONST);
#ifdef PEG_OP
  /* the rule under test sits at word 0 with a CONCRETE opcode (symbolic execution then follows only this opcode's
   * case of the switch); all its operands, and every other word of the bytecode, are symbolic */
  uint32_t r0 = 0; bc[0] = PEG_OP; isstart[0] = 1;
#else
  uint32_t r0 = nd_u32(); __CPROVER_assume(r0 < PEG_BLEN && isstart[r0]);
#endif
  __CPROVER_assume(peg_wf_chain(bc, isstart, clen, r0));
#ifdef PEG_NOT_OP
  __CPROVER_assume(bc[r0] != PEG_NOT_OP);
#endif
  /* constants: C functions among them are callable with (argc, argv) */
  peg_inv_consts(consts);
  /* tagged captures: string values refer to a real string object (length <= PEG_STRN) */
  int32_t slen = nd_i32(); __CPROVER_assume(slen >= 0 && slen <= PEG_STRN);
  JanetStringHead *sh = malloc(sizeof(JanetStringHead) + PEG_STRN + 1); __CPROVER_assume(sh != NULL);
  sh->length = slen; G_STRP = sh->data;
  peg_inv_tcaps(tcapdata);

  /* text of symbolic length, symbolic sub-window end and start offset */
  size_t tlen = nd_size(); __CPROVER_assume(tlen <= PEG_TMAX);
  uint8_t *buf = malloc(tlen); __CPROVER_assume(buf != NULL);
  size_t wend = nd_size(), off = nd_size(); __CPROVER_assume(wend <= tlen && off <= wend);

  CAPS.data = capdata; CAPS.capacity = PEG_CAPN; CAPS.count = nd_i32();
  TCAPS.data = tcapdata; TCAPS.capacity = PEG_CAPN; TCAPS.count = nd_i32();
  SCR.data = scrdata; SCR.capacity = PEG_SCRN; SCR.count = nd_i32();
  TAGS.data = tagdata; TAGS.capacity = PEG_CAPN; TAGS.count = nd_i32();
  S.text_start = buf; S.text_end = buf + wend; S.outer_text_end = buf + tlen;
  S.bytecode = bc; S.constants = consts;
  S.captures = &CAPS; S.scratch = &SCR; S.tags = &TAGS; S.tagged_captures = &TCAPS;
  S.extrav = extra; S.extrac = nd_i32(); __CPROVER_assume(S.extrac >= 0 && S.extrac <= PEG_EXN);
  S.linemap = NULL; S.linemaplen = -1;
  S.depth = nd_i32(); __CPROVER_assume(S.depth >= 1);
  S.has_backref = nd_int();
  S.mode = nd_int() ? PEG_MODE_NORMAL : PEG_MODE_ACCUMULATE;
  __CPROVER_assume(CAPS_WF(&S));

  G_S = &S; G_BC = bc; G_ISSTART = isstart; G_T0 = buf; G_TLEN = tlen;
  g_depth0 = S.depth; g_mode0 = S.mode; g_tend0 = S.text_end; g_failed = 0; g_calls = 0;
  int32_t cap0 = CAPS.count, scr0 = SCR.count, tcap0 = TCAPS.count;
  const uint8_t *text = buf + off;

  const uint8_t *result = peg_rule__entry(&S, bc + r0, text);

  __CPROVER_assert(S.depth == g_depth0, "C12 RESTORE: depth equals its entry value on return (success or failure)");
  __CPROVER_assert(S.mode == g_mode0, "C12 RESTORE: mode equals its entry value on return (success or failure)");
  __CPROVER_assert(S.text_start == buf && S.text_end == buf + wend && S.outer_text_end == buf + tlen, "C12 RESTORE: text window equals its entry value on return (success or failure)");
  __CPROVER_assert(result == NULL || (__CPROVER_same_object(result, buf) && text <= result && result <= S.text_end), "C12 WINDOW: result is NULL or a position in [text, text_end]");
  __CPROVER_assert(CAPS_WF(&S), "C12 wf_caps on return: heights in range, tags and tagged captures at one height");
  __CPROVER_assert(CAPS.count >= cap0 && SCR.count >= scr0 && TCAPS.count >= tcap0, "C12 captures present at entry are never cut by a rule");
  if (result != NULL) peg_event("return");
#ifdef PEG_FAIL_RESTORES
  /* opcodes that promise to leave nothing behind when they fail (thru/to, between) */
  if (result == NULL) __CPROVER_assert(CAPS.count == cap0 && SCR.count == scr0 && TCAPS.count == tcap0 && TAGS.count == tcap0, "C12 BACKTRACK: a failed match of this rule leaves the capture stacks at the saved CapState");
#endif
  /* ---- documented meaning of the combinator under test (opcode-specific, selected by the unit) ---- */
#ifdef PEG_SUCCESS_RESTORES_ALL
  /* drop / not / to: a successful match leaves no capture of any kind behind */
  if (result != NULL) __CPROVER_assert(CAPS.count == cap0 && SCR.count == scr0 && TCAPS.count == tcap0 && TAGS.count == tcap0, "C12 SEM: on success all capture stacks are back at their entry heights");
#endif
#ifdef PEG_SUCCESS_RESTORES_POS
  /* only-tags: positional captures and accumulated text are discarded, tagged captures survive */
  if (result != NULL) __CPROVER_assert(CAPS.count == cap0 && SCR.count == scr0, "C12 SEM: on success positional captures and accumulator are back at their entry heights");
#endif
#ifdef PEG_SUCCESS_ONE_CAPTURE
  /* group / nth / replace / cmt / constant-like captures: the sub-captures are consumed and exactly ONE value is
   * captured: positional in normal mode, appended to the accumulator in accumulate mode */
  if (result != NULL) {
    __CPROVER_assert(g_mode0 != PEG_MODE_NORMAL || (CAPS.count == cap0 + 1 && SCR.count == scr0), "C12 SEM: normal mode - exactly one new positional capture, accumulator unchanged");
    __CPROVER_assert(g_mode0 != PEG_MODE_ACCUMULATE || (CAPS.count == cap0 && SCR.count >= scr0), "C12 SEM: accumulate mode - no positional capture, accumulator only grows");
  }
#endif
#ifdef PEG_CAPTURE_TAGGED
  /* <- : with back-references in the grammar every capture must be findable by tag later (backref / backmatch),
   * whatever the capture mode: at least one tagged capture is added and tags / tagged_captures stay aligned */
  if (result != NULL && S.has_backref) __CPROVER_assert(TCAPS.count >= tcap0 + 1 && TAGS.count == TCAPS.count, "C12 SEM: with back-references the capture is recorded as a tagged capture (also in accumulate mode)");
#endif
#ifdef PEG_CONSUMES_NOTHING
  __CPROVER_assert(result == NULL || result == text, "C12 SEM: the rule consumes no input");
#endif
#ifdef PEG_SEM_NCHAR
  { uint32_t n = bc[r0 + 1]; size_t rem = wend - off;
    __CPROVER_assert((rem >= n) ? (result == text + n) : (result == NULL), "C12 SEM: n matches iff at least n bytes remain in the window and consumes exactly n"); }
#endif
#ifdef PEG_SEM_NOTNCHAR
  { uint32_t n = bc[r0 + 1]; size_t rem = wend - off;
    __CPROVER_assert((rem < n) ? (result == text) : (result == NULL), "C12 SEM: -n matches iff fewer than n bytes remain in the window and consumes nothing"); }
#endif
#ifdef PEG_SEM_RANGE
  { uint8_t lo = bc[r0 + 1] & 0xFF, hi = (bc[r0 + 1] >> 16) & 0xFF;
    int ok = off < wend && buf[off] >= lo && buf[off] <= hi;
    __CPROVER_assert(ok ? (result == text + 1) : (result == NULL), "C12 SEM: range matches exactly one byte lo <= c <= hi inside the window"); }
#endif
#ifdef PEG_SEM_SET
  { int ok = off < wend && ((bc[r0 + 1 + (buf[off] >> 5)] >> (buf[off] & 0x1F)) & 1);
    __CPROVER_assert(ok ? (result == text + 1) : (result == NULL), "C12 SEM: set matches exactly one byte whose bit is set, inside the window"); }
#endif
#ifdef PEG_SEM_LITERAL
  { uint32_t len = bc[r0 + 1]; size_t rem = wend - off;
    __CPROVER_assert(result == NULL || (rem >= len && result == text + len), "C12 SEM: a literal match consumes exactly len bytes, all inside the window");
    __CPROVER_assert(rem >= len || result == NULL, "C12 SEM: a literal longer than the rest of the window does not match"); }
#endif
#ifdef PEG_SEM_READINT
  { uint32_t w = bc[r0 + 1] & 0xF; size_t rem = wend - off;
    __CPROVER_assert((rem >= w) ? (result == text + w) : (result == NULL), "C12 SEM: readint matches iff width bytes remain in the window and consumes exactly width"); }
#endif
#ifdef PEG_RECURSES
  if (g_calls > 0) REACH("normal return of peg_rule after at least one sub-match");
#ifndef PEG_NO_SUCCESS
  if (g_calls > 0 && result != NULL) REACH("successful return of peg_rule after at least one sub-match");
#endif
#endif
#ifndef PEG_RECURSES
  if (result != NULL) REACH("successful return of peg_rule");
#endif
  REACH("normal return of peg_rule");
}
