/* C12: "start offsets and extra arguments" - peg_cfun_init (peg.c), the argument decoding shared by peg/match, find, find-all,
 * replace and replace-all: (peg text &opt start & args) / (peg subst text &opt start & args).
 * Contract: the grammar is the compiled peg given, or the result of compiling the first argument; the text is the 2nd (3rd)
 * argument; start is 0 when absent, otherwise the half-range decoding of the argument against the text length; the extra
 * arguments are exactly the arguments after start, in order; the match state starts empty, in normal mode, with the whole text
 * as window, the full recursion budget, and the peg's bytecode / constants / back-reference flag. Every argv read is inside argc. */
#include "prelude.h"
static JanetPeg ci_compiled; static const JanetAbstractType ci_other_type = {"other/type"}; static uint32_t ci_bc[2], ci_bc2[2]; static Janet ci_consts[1], ci_consts2[1];
static uint8_t ci_text[8]; static int32_t ci_len, ci_start_out; static int ci_min, ci_argc, ci_compiled_used, ci_halfrange_calls, ci_tuple_calls;
static Janet *ci_argv; static Janet ci_tuple_marker[1];
static JanetArray ci_arr[3]; static int ci_narr; static JanetBuffer ci_buf[2]; static int ci_nbuf;
JanetPeg *ci_compile_stub(Janet x) { __CPROVER_assert(x.as.u64 == ci_argv[0].as.u64 && x.type == ci_argv[0].type, "peg.init: the first argument is compiled"); ci_compiled_used = 1; return &ci_compiled; }
JanetByteView ci_getbytes_stub(const Janet *argv, int32_t n) {
  __CPROVER_assert(argv == ci_argv && n == ci_min - 1 && n < ci_argc, "peg.init: the text is the argument before start");
  JanetByteView v; v.bytes = ci_text; v.len = ci_len; return v;
}
int32_t ci_halfrange_stub(const Janet *argv, int32_t n, int32_t length, const char *which) {
  __CPROVER_assert(argv == ci_argv && n == ci_min && n < ci_argc && length == ci_len, "peg.init: start is decoded from the argument after the text, against the text length");
  ci_halfrange_calls++; return ci_start_out;
}
const Janet *ci_tuple_n_stub(const Janet *values, int32_t n) {
  __CPROVER_assert(values == ci_argv + ci_min + 1 && n == ci_argc - ci_min - 1 && n >= 0, "peg.init: the extra arguments are exactly the arguments after start");
  ci_tuple_calls++; return ci_tuple_marker;
}
void ci_arity_stub(int32_t arity, int32_t min, int32_t max) { __CPROVER_assert(arity == ci_argc && min == ci_min && max == -1, "peg.init: at least peg and text (and the substitution)"); __CPROVER_assume(arity >= min); }
JanetArray *ci_array_stub(int32_t cap) { __CPROVER_assert(ci_narr < 3, "peg.init: two capture stacks"); JanetArray *a = &ci_arr[ci_narr < 2 ? ci_narr : 2]; ci_narr++; a->count = 0; return a; }
JanetBuffer *ci_buffer_stub(int32_t cap) { __CPROVER_assert(ci_nbuf < 2, "peg.init: scratch and tag buffers"); JanetBuffer *b = &ci_buf[ci_nbuf < 1 ? ci_nbuf : 1]; ci_nbuf++; b->count = 0; return b; }
void h_peg_cfun_init(void) {
  int get_replace = CI_REPLACE; ci_min = get_replace ? 3 : 2;
  ci_argc = nd_i32(); __CPROVER_assume(ci_argc >= 0 && ci_argc <= ci_min + 3);
  ci_argv = malloc(sizeof(Janet) * (size_t) ci_argc);     /* exactly argc values: a read past argc is a pointer-check failure */
  __CPROVER_assume(ci_argv != (Janet *)0 || ci_argc == 0);
  ci_len = nd_i32(); __CPROVER_assume(ci_len >= 0 && ci_len <= 8);
  ci_start_out = nd_i32(); __CPROVER_assume(ci_start_out >= 0 && ci_start_out <= ci_len);
  ci_compiled.bytecode = ci_bc2; ci_compiled.constants = ci_consts2; ci_compiled.has_backref = nd_int() & 1;
  int is_peg = nd_int() & 1;
  /* an abstract value: header, then the object; janet_abstract_type() reads the header in front of the pointer */
  JanetAbstractHead *blk = malloc(offsetof(JanetAbstractHead, data) + sizeof(JanetPeg));
  __CPROVER_assume(blk != (JanetAbstractHead *)0);
  blk->type = is_peg ? &janet_peg_type : &ci_other_type;
  JanetPeg *gp = (JanetPeg *)((char *) blk + offsetof(JanetAbstractHead, data));
  gp->bytecode = ci_bc; gp->constants = ci_consts; gp->has_backref = nd_int() & 1;
  for (int i = 0; i < 6; i++) if (i < ci_argc) { ci_argv[i].type = JANET_NUMBER; ci_argv[i].as.u64 = nd_u64(); }
  if (ci_argc >= 1 && nd_int()) { ci_argv[0].type = JANET_ABSTRACT; ci_argv[0].as.pointer = (void *) gp; }
  PegCall c = peg_cfun_init(ci_argc, ci_argv, get_replace);
  int given = ci_argv[0].type == JANET_ABSTRACT && is_peg;
  JanetPeg *want = given ? (JanetPeg *) ci_argv[0].as.pointer : &ci_compiled;
  __CPROVER_assert(c.peg == want && ci_compiled_used == !given, "peg.init: a compiled peg is used as it is, anything else is compiled");
  __CPROVER_assert(c.bytes.bytes == ci_text && c.bytes.len == ci_len, "peg.init: the text");
  if (get_replace) __CPROVER_assert(c.subst.type == ci_argv[1].type && c.subst.as.u64 == ci_argv[1].as.u64, "peg.init: the substitution is the second argument");
  if (ci_argc > ci_min) {
    __CPROVER_assert(c.start == ci_start_out && ci_halfrange_calls == 1, "peg.init: start is the decoded start argument");
    __CPROVER_assert(c.s.extrac == ci_argc - ci_min - 1 && c.s.extrav == ci_tuple_marker && ci_tuple_calls == 1, "peg.init: extra arguments counted and collected");
    REACH("init: start given");
  } else {
    __CPROVER_assert(c.start == 0 && c.s.extrac == 0 && c.s.extrav == (void *)0 && ci_halfrange_calls == 0, "peg.init: start defaults to 0, no extra arguments");
    REACH("init: start absent");
  }
  __CPROVER_assert(c.s.mode == PEG_MODE_NORMAL && c.s.depth == JANET_RECURSION_GUARD, "peg.init: normal mode, full recursion budget");
  __CPROVER_assert(c.s.text_start == ci_text && c.s.text_end == ci_text + ci_len && c.s.outer_text_end == ci_text + ci_len, "peg.init: the window is the whole text (also when start > 0: look-behind may go back to the text start)");
  __CPROVER_assert(c.s.captures == &ci_arr[0] && c.s.tagged_captures == &ci_arr[1] && c.s.scratch == &ci_buf[0] && c.s.tags == &ci_buf[1] && ci_narr == 2 && ci_nbuf == 2, "peg.init: four distinct, empty stacks");
  __CPROVER_assert(c.s.bytecode == want->bytecode && c.s.constants == want->constants && c.s.has_backref == want->has_backref, "peg.init: bytecode, constants and the back-reference flag of the grammar");
  __CPROVER_assert(c.s.linemap == (void *)0 && c.s.linemaplen == -1, "peg.init: no line map yet");
}
