/* C17 (C level): string/trim, string/triml, string/trimr (included after lib_string.c).
 * trim_help_checkset(set, x) - "x occurs in set" - is replaced by its contract (--replace-calls): a pure function of the
 * set content and x. For the default set it is the literal membership in " \t\r\n\v\f" (the stub asserts that exactly
 * this 6 byte set is passed); for a custom set it is an abstract, fixed membership table g_inset[x] (the stub asserts
 * that the set passed is the view of slot 1). The real trim_help_checkset is proved to return 1 exactly when x occurs in
 * set in unit lib.string.trim.checkset (every set of at most 8 bytes).
 * "Maximal substring": with INSET = that membership, the result is str[L, R) where every byte before L and every byte
 * from R on is in the set, and - if the result is not empty - its first and last byte are not; an empty result is
 * returned exactly when every byte of str is in the set. */
uint8_t g_inset[256];
#define IS_WS(c) ((c) == ' ' || (c) == '\t' || (c) == '\r' || (c) == '\n' || (c) == '\v' || (c) == '\f')
#define INSET(c) (g_argc >= 2 ? g_inset[(uint8_t)(c)] != 0 : IS_WS(c))
int trim_help_checkset_stub(JanetByteView set, uint8_t x) {
  if (g_argc >= 2)
    __CPROVER_assert(set.bytes == g_v1.bytes && set.len == g_v1.len, "trim_help_checkset: called with the set argument");
  else
    __CPROVER_assert(set.len == 6 && set.bytes[0] == ' ' && set.bytes[1] == '\t' && set.bytes[2] == '\r' && set.bytes[3] == '\n' && set.bytes[4] == '\v' && set.bytes[5] == '\f',
                     "trim_help_checkset: called with the default whitespace set \" \\t\\r\\n\\v\\f\"");
  return INSET(x) ? 1 : 0;
}
/* result = str[L, R): L is the offset of the copy source inside the block of str, R = L + length */
#define T_SRC_IN_STR (__CPROVER_same_object(g_copy_src, g_v0.bytes) && __CPROVER_POINTER_OFFSET(g_copy_src) + (size_t)g_strlen <= (size_t)g_v0.len)
#define T_L ((int64_t)(__CPROVER_POINTER_OFFSET(g_copy_src) & 0x7FFFFFFF))
#define T_R (T_L + g_strlen)
#define TRIM_COMMON \
  S_PRE S_FRAME \
  __CPROVER_ensures(argc >= 1 && argc <= 2 && g_begun == 1 && g_ended == 1 && g_sym == 0 && __CPROVER_return_value.u64 == janet_wrap_string(g_str).u64 && g_str[g_strlen] == 0) \
  __CPROVER_ensures(g_strlen >= 0 && g_strlen <= g_v0.len && (g_strlen > 0 ==> T_SRC_IN_STR)) \
  __CPROVER_ensures((g_strlen > 0 && g_mm < (size_t)g_strlen) ==> g_str[g_mm] == g_v0.bytes[T_L + g_mm])
static Janet cfun_string_trim_c(int32_t argc, Janet *argv)
TRIM_COMMON
__CPROVER_ensures((g_strlen == 0 && IN0) ==> INSET(g_byte))
__CPROVER_ensures((g_strlen > 0 && IN0 && (g_idx < T_L || g_idx >= T_R)) ==> INSET(g_byte))
__CPROVER_ensures(g_strlen > 0 ==> (!INSET(g_v0.bytes[T_L]) && !INSET(g_v0.bytes[T_R - 1])))
;
static Janet cfun_string_triml_c(int32_t argc, Janet *argv)
TRIM_COMMON
__CPROVER_ensures((g_strlen == 0 && IN0) ==> INSET(g_byte))
__CPROVER_ensures(g_strlen > 0 ==> (T_R == g_v0.len && !INSET(g_v0.bytes[T_L])))
__CPROVER_ensures((g_strlen > 0 && IN0 && g_idx < T_L) ==> INSET(g_byte))
;
static Janet cfun_string_trimr_c(int32_t argc, Janet *argv)
TRIM_COMMON
__CPROVER_ensures((g_strlen == 0 && IN0) ==> INSET(g_byte))
__CPROVER_ensures(g_strlen > 0 ==> (T_L == 0 && !INSET(g_v0.bytes[T_R - 1])))
__CPROVER_ensures((g_strlen > 0 && IN0 && g_idx >= T_R) ==> INSET(g_byte))
;
#define H_TRIM(fn, lisp) \
void h_string_##fn(void) { \
  Janet *argv = mk_args(); \
  cfun_string_##fn(g_argc, argv); \
  REACH(lisp " returns"); \
  if (g_argc == 1 && g_strlen > 1 && g_strlen < g_v0.len) REACH(lisp " returns a proper substring (default set)"); \
  if (g_argc == 2 && g_strlen > 1 && g_strlen < g_v0.len) REACH(lisp " returns a proper substring (custom set)"); \
  if (g_strlen == 0 && g_v0.len > 1) REACH(lisp " returns the empty string for a string of set bytes"); \
}
H_TRIM(trim, "string/trim")
H_TRIM(triml, "string/triml")
H_TRIM(trimr, "string/trimr")
