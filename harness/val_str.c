/* C03 (string-like values): the REAL janet_string_compare / janet_string_equalconst / janet_string_equal of string.c
 * against byte-wise specifications.
 *
 * Representation invariant of a JanetString s (string.c: janet_string_begin/janet_string_end/janet_string):
 *   s points at the `data` member of a JanetStringHead that is followed by length+1 bytes (NUL terminated),
 *   0 <= length, and head->hash == janet_string_calchash(data, length).
 *
 * Two kinds of unit:
 *  *.calls  (all lengths 0..2^31-1): memcmp is replaced by its contract - a stub that asserts the callee's precondition
 *           (both ranges readable for n bytes: n <= both lengths) and returns an arbitrary int; the postcondition relates
 *           the result to that int and to the lengths.
 *  *.bytes  (length <= VAL_MAXLEN): CBMC's own memcmp model; postcondition is the byte-wise lexicographic order /
 *           byte-wise equality computed by an independent spec loop. */
#include "prelude.h"

#ifndef VAL_MAXLEN
#define VAL_MAXLEN 6
#endif

static const uint8_t *v_mkstr(int32_t len, int32_t hash) {
  JanetStringHead *h = malloc(sizeof(JanetStringHead) + (size_t) len + 1);
  __CPROVER_assume(h != NULL);
  h->length = len;
  h->hash = hash;
  return h->data;
}

/* ---- memcmp contract (recording + asserting stub) ---- */
const void *g_mc_a, *g_mc_b; size_t g_mc_n; int g_mc_ret, g_mc_calls;
int32_t g_llen, g_rlen;
int v_memcmp(const void *a, const void *b, size_t n) {
  __CPROVER_assert(n <= (size_t) g_llen && n <= (size_t) g_rlen, "C03 memcmp precondition: n does not exceed either string's length");
  g_mc_a = a; g_mc_b = b; g_mc_n = n; g_mc_calls++;
  return g_mc_ret;
}

void h_str_compare_calls(void) {
  g_llen = nd_i32(); g_rlen = nd_i32(); g_mc_ret = nd_int(); g_mc_calls = 0;
  __CPROVER_assume(g_llen >= 0 && g_rlen >= 0);
  const uint8_t *l = v_mkstr(g_llen, nd_i32()), *r = v_mkstr(g_rlen, nd_i32());
  int res = janet_string_compare(l, r);
  int32_t m = g_llen < g_rlen ? g_llen : g_rlen;
  __CPROVER_assert(g_mc_calls == 1 && g_mc_a == l && g_mc_b == r && g_mc_n == (size_t) m, "C03 string compare: the common prefix (min length bytes) is compared byte-wise");
  __CPROVER_assert(res == (g_mc_ret < 0 ? -1 : g_mc_ret > 0 ? 1 : g_llen < g_rlen ? -1 : g_llen > g_rlen ? 1 : 0),
                   "C03 string compare: sign of the first differing byte, else the shorter string is smaller, else 0");
  REACH("janet_string_compare returns");
}

void h_str_equalconst_calls(void) {
  g_llen = nd_i32(); g_rlen = nd_i32(); g_mc_ret = nd_int(); g_mc_calls = 0;
  __CPROVER_assume(g_llen >= 0 && g_rlen >= 0);
  int32_t lh = nd_i32(), rh = nd_i32();
  const uint8_t *l = v_mkstr(g_llen, lh);
  const uint8_t *r = nd_int() ? l : (const uint8_t *) malloc((size_t) g_rlen + 1);   /* rhs: any memory of rlen bytes, possibly lhs itself */
  __CPROVER_assume(r != NULL);
  int res = janet_string_equalconst(l, r, g_rlen, rh);
  __CPROVER_assert(res == 0 || res == 1, "C03 string equality yields a boolean");
  __CPROVER_assert(res == (lh == rh && g_llen == g_rlen && (l == r || g_mc_ret == 0)),
                   "C03 string equality: same hash, same length and byte-wise equal (or the same object)");
  __CPROVER_assert(g_mc_calls == 0 || (g_mc_a == l && g_mc_b == r && g_mc_n == (size_t) g_rlen), "C03 string equality compares all rlen bytes");
  REACH("janet_string_equalconst returns");
}

/* ---- byte-wise specs, bounded length ---- */
static int v_spec_compare(const uint8_t *l, int32_t llen, const uint8_t *r, int32_t rlen) {
  for (int32_t i = 0; i < VAL_MAXLEN; i++) {
    if (i >= llen || i >= rlen) break;
    if (l[i] != r[i]) return l[i] < r[i] ? -1 : 1;
  }
  return llen < rlen ? -1 : llen > rlen ? 1 : 0;
}
static int v_spec_equal(const uint8_t *l, int32_t llen, const uint8_t *r, int32_t rlen) {
  if (llen != rlen) return 0;
  for (int32_t i = 0; i < VAL_MAXLEN; i++) {
    if (i >= llen) break;
    if (l[i] != r[i]) return 0;
  }
  return 1;
}

void h_str_compare_bytes(void) {
  int32_t llen = nd_i32(), rlen = nd_i32();
  __CPROVER_assume(llen >= 0 && llen <= VAL_MAXLEN && rlen >= 0 && rlen <= VAL_MAXLEN);
  const uint8_t *l = v_mkstr(llen, nd_i32()), *r = v_mkstr(rlen, nd_i32());   /* bytes: nondeterministic heap content */
  int res = janet_string_compare(l, r);
  int rev = janet_string_compare(r, l);
  __CPROVER_assert(res == v_spec_compare(l, llen, r, rlen), "C03 string compare is the lexicographic order on unsigned bytes, prefix first");
  __CPROVER_assert(res == -rev, "C03 string compare is antisymmetric");
  __CPROVER_assert((res == 0) == v_spec_equal(l, llen, r, rlen), "C03 string compare == 0 exactly for the same bytes");
  REACH("janet_string_compare returns");
}

/* janet_string_equal on two strings with arbitrary cached hashes: = exactly when the cached hashes agree and the bytes are
 * the same ("strings compare by content").  With -DVAL_REALHASH the cached hashes are computed by the real
 * janet_string_calchash over the bytes (the representation invariant), and the law becomes "= exactly when same bytes"
 * (probed at length <= 4: 8 min, so no unit is registered for it; "same bytes => same cached hash" is the statement that
 * janet_string_calchash is a function of (bytes, len)). */
void h_str_equal_bytes(void) {
  int32_t llen = nd_i32(), rlen = nd_i32();
  __CPROVER_assume(llen >= 0 && llen <= VAL_MAXLEN && rlen >= 0 && rlen <= VAL_MAXLEN);
  const uint8_t *l = v_mkstr(llen, nd_i32()), *r = v_mkstr(rlen, nd_i32());
#ifdef VAL_REALHASH
  janet_string_head(l)->hash = janet_string_calchash(l, llen);
  janet_string_head(r)->hash = janet_string_calchash(r, rlen);
#endif
  int32_t lh = janet_string_hash(l), rh = janet_string_hash(r);
  int res = janet_string_equal(l, r);
  int rev = janet_string_equal(r, l);
#ifdef VAL_REALHASH
  __CPROVER_assert(res == v_spec_equal(l, llen, r, rlen), "C03 strings are = exactly when they have the same bytes (content, not identity)");
#else
  __CPROVER_assert(res == (lh == rh && v_spec_equal(l, llen, r, rlen)), "C03 strings are = exactly when they have the same bytes (content, not identity) and the same cached hash");
#endif
  __CPROVER_assert(res == rev, "C03 string equality is symmetric");
  __CPROVER_assert(!res || lh == rh, "C03 equal strings have equal hashes");
  __CPROVER_assert(!res || janet_string_compare(l, r) == 0, "C03 equal strings compare as 0");
  REACH("janet_string_equal returns");
}
