/* shared by harness/peg_rule.c (where it is ASSUMED for the matcher) and harness/peg_unmarshal.c (where it is the
 * POSTCONDITION of the loader) - the contract that links C10's PEG bytecode verifier to C12's matcher. Needs PEG_BLEN. */
#ifndef VC_PEG_WF_H
#define VC_PEG_WF_H
/* ---- wf_peg: what peg_unmarshal's verifier / the compiler's emitters establish for every instruction start ---- */
#define RULEREF(x) ((x) < PEG_BLEN && isstart[x])
static int peg_wf_args(const uint32_t *bc, const uint8_t *isstart, uint32_t i, uint32_t len) {
  for (uint32_t j = 0; j < PEG_BLEN; j++) {
    if (j < len && !RULEREF(bc[i + 2 + j])) return 0;
  }
  return 1;
}
static int peg_wf_instr(const uint32_t *bc, const uint8_t *isstart, uint32_t i, uint32_t clen) {
  uint32_t room = PEG_BLEN - i;
  const uint32_t *r = bc + i;
  switch (r[0]) {
    case RULE_NCHAR: case RULE_NOTNCHAR: case RULE_RANGE: case RULE_POSITION: case RULE_LINE: case RULE_COLUMN: case RULE_BACKMATCH:
      return room >= 2;
    case RULE_LITERAL:
      return room >= 2 && r[1] <= 4 * PEG_BLEN && 2 + ((r[1] + 3) >> 2) <= room;
    case RULE_SET:
      return room >= 9;
    case RULE_LOOK:
      return room >= 3 && RULEREF(r[2]);
    case RULE_CHOICE: case RULE_SEQUENCE:
      return room >= 2 && r[1] <= room - 2 && peg_wf_args(bc, isstart, i, r[1]);
    case RULE_IF: case RULE_IFNOT: case RULE_LENPREFIX: case RULE_SUB: case RULE_TIL: case RULE_SPLIT:
      return room >= 3 && RULEREF(r[1]) && RULEREF(r[2]);
    case RULE_BETWEEN:
      return room >= 4 && RULEREF(r[3]);
    case RULE_ARGUMENT:
      return room >= 3 && (int32_t) r[1] >= 0;          /* spec_argument: peg_getnat */
    case RULE_GETTAG:
      return room >= 3;
    case RULE_CONSTANT:
      return room >= 3 && r[1] < clen;
    case RULE_CAPTURE_NUM:
      return room >= 4 && RULEREF(r[1]);
    case RULE_ACCUMULATE: case RULE_GROUP: case RULE_CAPTURE: case RULE_UNREF:
      return room >= 3 && RULEREF(r[1]);
    case RULE_REPLACE: case RULE_MATCHTIME:
      return room >= 4 && RULEREF(r[1]) && r[2] < clen;
    case RULE_ERROR: case RULE_DROP: case RULE_ONLY_TAGS: case RULE_NOT: case RULE_TO: case RULE_THRU:
      return room >= 2 && RULEREF(r[1]);
    case RULE_READINT:
      return room >= 3 && (r[1] & ~0x3Fu) == 0 && (r[1] & 0xF) <= 8;   /* spec_readint: mask | width, width <= 8 */
    case RULE_NTH:
      return room >= 4 && RULEREF(r[2]);
    default:
      return 0;
  }
}
#endif
