/* C05: shared vocabulary of the fiber status automaton (new -> alive -> suspended | finished; finished is absorbing).
 * The status lives in bits 16..21 of fiber->flags (fiber.h: JANET_FIBER_STATUS_MASK / _OFFSET); a signal s returned by a
 * fiber is stored as status s (janet.h: the first 14 JanetFiberStatus values mirror JanetSignal). */
#ifndef VC_FIB_RESUME_H
#define VC_FIB_RESUME_H
#include "prelude.h"
#define FIB_ST(fl) ((int)(((fl) & JANET_FIBER_STATUS_MASK) >> JANET_FIBER_STATUS_OFFSET))
#define FIB_OTHER(fl) ((fl) & ~JANET_FIBER_STATUS_MASK)
/* finished = the function body returned (DEAD) or raised an error (ERROR) */
#define FIB_FINISHED(s) ((s) == JANET_STATUS_DEAD || (s) == JANET_STATUS_ERROR)
/* the termination signals user0..user4 are treated like errors by the protocol (":t" mask): not resumable either */
#define FIB_TERMINATED(s) (FIB_FINISHED(s) || ((s) >= JANET_STATUS_USER0 && (s) <= JANET_STATUS_USER4))
/* new or suspended (debug, yield/pending, user5..user9) */
#define FIB_RESUMABLE(s) ((s) == JANET_STATUS_NEW || (s) == JANET_STATUS_PENDING || (s) == JANET_STATUS_DEBUG || \
                          ((s) >= JANET_STATUS_USER5 && (s) <= JANET_STATUS_USER9))
/* representation invariant of the status field: one of the 16 enumerators (every writer stores a JanetSignal 0..13,
 * JANET_STATUS_NEW or JANET_STATUS_ALIVE) */
#define WF_STATUS(fl) (FIB_ST(fl) >= 0 && FIB_ST(fl) <= JANET_STATUS_ALIVE)
#define IS_SIGNAL(s) ((int)(s) >= 0 && (int)(s) <= JANET_SIGNAL_USER9)
#endif
