/* C13 / C11: number -> text in pp.c outside the jdn path (the %j / jdn path is janet_buffer_dtostr, unit num.dtostr).
 *
 * number_to_string_b (string, print, %v, %q, %p ...):
 *   - "integer-valued numbers up to 2^53 print exactly": an integral x with |x| <= 2^53 is printed with "%.0f" (all digits, no
 *     exponent, no rounding), zero of either sign as the single character 0;
 *   - everything else is printed with a %g conversion of at least DBL_DIG significant digits;
 *   - snprintf writes directly behind the existing contents, into room that was reserved before (size given <= room reserved,
 *     and large enough for the longest rendering: 17 digits + sign for "%.0f" in range, 24 characters for %g), the buffer grows by
 *     exactly the characters printed, earlier contents are untouched.
 *   NOTE (observation, not an obligation of C11/C13): this path uses DBL_DIG = 15 significant digits, so `string` / %v / %q / %p of
 *   a non-integer is NOT round-trip safe ((string 0.1 + 0.2) is "0.3"); only %j / jdn (17 digits) is, as the property says.
 * integer_to_string_b (pretty printer cycle markers): every int32 prints as its exact decimal text, INT32_MIN included.
 * floor, snprintf, janet_buffer_ensure, janet_buffer_extra are stubs (contracts in the unit's `assumes`). */
#include "prelude.h"
#include <stdarg.h>
#define PN(c, msg) __CPROVER_assert(c, "C13 print: " msg)
#define NBLK 96
static JanetBuffer nb; static uint8_t nblock[NBLK];
int32_t g_room; int g_sn_calls, g_sn_ret; int g_fmt_kind, g_fmt_digits; int g_integral; int32_t g_cnt0;
void pn_ensure_stub(JanetBuffer *b, int32_t capacity, int32_t growth) {
  PN(b == &nb && capacity >= b->count, "room is requested in the output buffer");
  __CPROVER_assume(capacity <= NBLK);                       /* harness bound: the model block is large enough */
  g_room = capacity - b->count;
  if (capacity > b->capacity) b->capacity = capacity;
}
void pn_extra_stub(JanetBuffer *b, int32_t n) {
  PN(b == &nb && n >= 0, "room is requested in the output buffer");
  __CPROVER_assume((int64_t) b->count + n <= NBLK);
  g_room = n;
  if (b->count + n > b->capacity) b->capacity = b->count + n;
}
/* floor(x) == x exactly for integral x: the stub returns x when the ghost flag says "integral", another value otherwise */
double pn_floor_stub(double x) {
  if (g_integral || x != x) return x;                        /* floor(NaN) is NaN (never equal to x) */
  __CPROVER_assume(x > -4503599627370496.0 && x < 4503599627370496.0);   /* every double of magnitude >= 2^52 (and +-inf) is integral */
  return x - 0.5;                                            /* exact and different from x below 2^52 */
}
int pn_snprintf_stub(char *dst, size_t size, const char *fmt, ...) {
  g_sn_calls++;
  /* classify the format: 1 = "%.0f", 2 = "%.<n>g" */
  g_fmt_kind = 0; g_fmt_digits = 0;
  if (fmt[0] == '%' && fmt[1] == '.' && fmt[2] == '0' && fmt[3] == 'f' && fmt[4] == 0) g_fmt_kind = 1;
  else if (fmt[0] == '%' && fmt[1] == '.' && fmt[2] >= '1' && fmt[2] <= '9' && fmt[3] >= '0' && fmt[3] <= '9' && fmt[4] == 'g' && fmt[5] == 0) { g_fmt_kind = 2; g_fmt_digits = (fmt[2] - '0') * 10 + (fmt[3] - '0'); }
  PN((uint8_t *) dst == nb.data + g_cnt0, "the text is placed directly after the existing contents");
  PN((int64_t) size <= (int64_t) g_room && g_cnt0 + (int64_t) size <= nb.capacity, "the range given to snprintf lies inside the room that was reserved");
  PN(size >= 25, "the size given to snprintf admits the longest rendering (24 characters + NUL): nothing is truncated");
  int r = nd_int(); __CPROVER_assume(r >= 1 && r <= 24);     /* contract of snprintf for these formats and arguments */
  for (int i = 0; i < 24; i++) if (i < r && (size_t) i + 1 < size) dst[i] = (char) ('0' + (i % 10));
  g_sn_ret = r; return r;
}
void h_number_to_string(void) {
  nb.data = nblock; nb.count = nd_int() ? 0 : 7; nb.capacity = nd_i32(); nb.gc.flags = 0;
  __CPROVER_assume(nb.count <= nb.capacity && nb.capacity <= NBLK);
  g_cnt0 = nb.count; g_sn_calls = 0; g_room = 0; g_integral = nd_int() != 0;
  for (int i = 0; i < 7; i++) nblock[i] = (uint8_t) (0xA0 + i);
  double x = nd_double();
  number_to_string_b(&nb, x);
  int inrange = x <= 9007199254740992.0 && x >= -9007199254740992.0;      /* |x| <= 2^53; false for NaN */
  if (x == 0.0) {
    PN(g_sn_calls == 0 && nb.count == g_cnt0 + 1 && nblock[g_cnt0] == '0', "zero of either sign prints as the single character 0");
  } else {
    PN(g_sn_calls == 1 && nb.count == g_cnt0 + g_sn_ret, "the buffer grows by exactly the characters snprintf produced");
    if (g_integral && inrange) PN(g_fmt_kind == 1, "an integer-valued number with -2^53 <= x <= 2^53 (both ends INCLUDED) is printed with %.0f: every digit, no exponent");
    else PN(g_fmt_kind == 2 && g_fmt_digits == DBL_DIG, "any other number (non-integral, or beyond 2^53) is printed with the %.<DBL_DIG>g conversion");
  }
  PN(nb.count <= nb.capacity && g_room >= 25, "count <= capacity; room for the longest rendering was reserved first");
  for (int i = 0; i < 7; i++) if (i < g_cnt0) PN(nblock[i] == (uint8_t) (0xA0 + i), "earlier contents are untouched");
  if (g_integral && inrange && x != 0.0) REACH("number_to_string: integer path");
  if (!g_integral && x != 0.0) REACH("number_to_string: %g path");
  if (g_integral && !inrange) REACH("number_to_string: integral but beyond 2^53 (or infinite)");
  if (x == 0.0) REACH("number_to_string: zero");
  if (g_integral && x == 9007199254740992.0) REACH("number_to_string: exactly 2^53");
  if (g_integral && x == -9007199254740992.0) REACH("number_to_string: exactly -2^53");
  if (g_integral && x == 9007199254740994.0) REACH("number_to_string: first double above 2^53");
  REACH("number_to_string_b returns");
}
/* janet_to_string_b hands numbers to number_to_string_b with the unwrapped value */
double g_seen_num; int g_num_calls;
void pn_number_stub(JanetBuffer *b, double x) { g_num_calls++; g_seen_num = x; PN(b == &nb, "destination buffer passed on"); }
void h_to_string_number(void) {
  double x = nd_double(); __CPROVER_assume(x == x);          /* NaN payloads: compare by value */
  g_num_calls = 0;
  janet_to_string_b(&nb, janet_wrap_number(x));
  PN(g_num_calls == 1 && g_seen_num == x, "a number value is printed by number_to_string_b with exactly its value");
  REACH("janet_to_string_b returns");
}
/* int32 -> exact decimal text.  The full 2^32 domain is out of reach of the SAT / SMT back ends (ten chained divisions by 10 against
 * the inverse multiplication chain: > 5 min each with minisat, cadical and z3), so the domain is: every |x| <= 99999 and every value next
 * to a power of ten or to the int32 limits (the places where the digit count changes). */
static const int32_t pn_edges[] = { 100000, 999999, 1000000, 9999999, 10000000, 99999999, 100000000, 999999999, 1000000000, 1999999999, 2000000000, 2147483646, 2147483647,
                                    1234567890, 1000000001, 2147483640, 1073741824, 305419896 };
void h_integer_to_string(void) {
  nb.data = nblock; nb.count = nd_int() ? 0 : 7; nb.capacity = NBLK; nb.gc.flags = 0; g_cnt0 = nb.count; g_room = 0;
  for (int i = 0; i < 7; i++) nblock[i] = (uint8_t) (0xA0 + i);
  int32_t x = nd_i32();
  if (nd_int()) { __CPROVER_assume(x >= -99999 && x <= 99999); }
  else {
    unsigned k = nd_uint(); __CPROVER_assume(k < sizeof(pn_edges) / sizeof(pn_edges[0]));
    int s = nd_int();
    x = s == 0 ? pn_edges[k] : s == 1 ? -pn_edges[k] : s == 2 ? (-pn_edges[k]) - 1 : INT32_MIN;
  }
  integer_to_string_b(&nb, x);
  int32_t len = nb.count - g_cnt0;
  PN(len >= 1 && len <= 11 && len <= g_room, "1..11 characters, inside the room reserved");
  const uint8_t *t = nblock + g_cnt0;
  int neg = t[0] == '-';
  PN(neg == (x < 0), "a minus sign exactly for negative numbers");
  int64_t v = 0; int digits = 0;
  for (int i = 0; i < 11; i++) if (i < len && !(i == 0 && neg)) { PN(t[i] >= '0' && t[i] <= '9', "only decimal digits after the sign"); v = v * 10 + (t[i] - '0'); digits++; }
  PN(digits >= 1 && (neg ? -v : v) == (int64_t) x, "the text denotes exactly the integer printed (INT32_MIN included)");
  PN(digits == 1 || t[neg] != '0', "no leading zeros");
  for (int i = 0; i < 7; i++) if (i < g_cnt0) PN(nblock[i] == (uint8_t) (0xA0 + i), "earlier contents are untouched");
  if (x == INT32_MIN) REACH("integer_to_string: INT32_MIN"); if (x == 0) REACH("integer_to_string: zero"); if (x == 2147483647) REACH("integer_to_string: INT32_MAX");
  REACH("integer_to_string_b returns");
}
