/* C01: the event loop keeps scheduled work alive - janet_ev_mark (ev.c): every task in the run queue (a ring buffer whose
 * capacity is not a power of two) contributes its fiber AND the value it will be resumed with; every pending timeout its
 * fiber and, when present, the fiber it guards. Ghost index, recording stub for janet_mark. */
#include "prelude.h"
#ifndef GE_QCAP
#define GE_QCAP 6
#endif
static JanetTask ge_tasks[GE_QCAP]; static JanetTimeout ge_tq[4]; static JanetFiber ge_fib[GE_QCAP + 8]; static char ge_vals[GE_QCAP];
static int ge_marks; static void *ge_want; static int ge_want_type, ge_seen;
void ge_mark_stub(Janet x) { ge_marks++; if (x.as.pointer == ge_want && (int) x.type == ge_want_type) ge_seen++; }
void h_ev_mark(void) {
  JanetQueue *q = &janet_vm.spawn;
  q->data = ge_tasks; q->capacity = nd_i32(); q->head = nd_i32(); q->tail = nd_i32();
  __CPROVER_assume(q->capacity >= 1 && q->capacity <= GE_QCAP && q->head >= 0 && q->head < q->capacity && q->tail >= 0 && q->tail < q->capacity);
  int32_t n = q->head <= q->tail ? q->tail - q->head : q->capacity - q->head + q->tail;
  for (int i = 0; i < GE_QCAP; i++) { ge_tasks[i].fiber = &ge_fib[i]; ge_tasks[i].value.type = JANET_TABLE; ge_tasks[i].value.as.pointer = &ge_vals[i]; }
  janet_vm.tq = ge_tq; janet_vm.tq_count = nd_size(); __CPROVER_assume(janet_vm.tq_count <= 4);
  int guards = 0;
  for (int i = 0; i < 4; i++) { ge_tq[i].fiber = &ge_fib[GE_QCAP + i]; ge_tq[i].curr_fiber = (nd_int() & 1) ? &ge_fib[GE_QCAP + 4 + i] : (JanetFiber *)0; if ((size_t) i < janet_vm.tq_count && ge_tq[i].curr_fiber) guards++; }
  int which = nd_int(); __CPROVER_assume(which >= 0 && which <= 3); int have = 0;
  if (which <= 1 && n > 0) {
    int32_t k = nd_i32(); __CPROVER_assume(k >= 0 && k < n); int32_t slot = (q->head + k) % q->capacity; have = 1;
    if (which == 0) { ge_want = ge_tasks[slot].fiber; ge_want_type = JANET_FIBER; } else { ge_want = ge_tasks[slot].value.as.pointer; ge_want_type = JANET_TABLE; }
  } else if (which >= 2 && janet_vm.tq_count > 0) {
    size_t k = nd_size(); __CPROVER_assume(k < janet_vm.tq_count);
    if (which == 2) { ge_want = ge_tq[k].fiber; ge_want_type = JANET_FIBER; have = 1; }
    else if (ge_tq[k].curr_fiber) { ge_want = ge_tq[k].curr_fiber; ge_want_type = JANET_FIBER; have = 1; }
  }
  ge_marks = 0; ge_seen = 0;
  janet_ev_mark();
  __CPROVER_assert((size_t) ge_marks == 2 * (size_t) n + janet_vm.tq_count + (size_t) guards, "gc.mark.evloop: exactly the queued tasks (fiber and value) and the pending timeouts (fiber and guarded fiber) are marked");
  if (have) { __CPROVER_assert(ge_seen == 1, "gc.mark.evloop: every queued task's fiber and resume value and every timeout's fibers are marked (ring buffer of any capacity, wrapped or not)"); REACH("event loop with pending work"); }
  if (q->head > q->tail) REACH("wrapped run queue");
}
