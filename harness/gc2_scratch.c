/* C01: scratch memory (gc.c: janet_smalloc / janet_srealloc / janet_sfinalizer / janet_sfree / janet_free_all_scratch).
 * Scratch blocks are malloc'ed blocks with a one-word header, registered in janet_vm.scratch_mem[0..scratch_len) so that the next
 * collection (or janet_sfree) releases them: EVERY registered block is finalised (if it has a finaliser) and freed EXACTLY ONCE,
 * and the registry never holds a pointer to memory that is gone (janet_srealloc may move the block).
 *
 * Model: at most NSC registered blocks B[k] (header + 16 bytes, with or without finaliser), registry of capacity <= NSC in a block
 * of RCAP slots.  malloc / realloc / free are stubs: malloc hands out the prepared block g_fresh (or NULL); realloc of the registry
 * is a copying model (fresh block, old freed), realloc of a scratch block MOVES it (fresh block, header copied, old freed) or
 * fails; free attributes the call to a block and really deallocates.  The harness itself allocates with calloc. */
#include "prelude.h"
void __CPROVER_deallocate(void *);
#define SC(c, msg) __CPROVER_assert(c, "C01 scratch: " msg)
/* fatal exits (JANET_EXIT -> abort, JANET_OUT_OF_MEMORY -> exit): allowed only when the request is invalid or memory ran out (-DVC_OWN_EXIT) */
int g_must_return;
void exit(int c) { SC(!g_must_return, "a valid request with memory available is never answered by a fatal exit"); __CPROVER_assume(0); }
void abort(void) { SC(!g_must_return, "a valid request with memory available is never answered by a fatal exit"); __CPROVER_assume(0); }
#define NSC 3
#define RCAP 8
typedef struct { JanetScratchFinalizer finalize; long long mem[2]; } ScBlock;     /* same layout as JanetScratch + 16 bytes */
ScBlock *g_B[NSC + 2];                 /* 0..NSC-1 registered candidates, NSC: an unregistered block, NSC+1: the fresh block malloc / realloc hands out */
#define I_UNREG NSC
#define I_FRESH (NSC + 1)
int g_fin[NSC + 2], g_freed[NSC + 2], g_hasfin[NSC + 2], g_foreign;
JanetScratch **g_reg0; int g_reg_moved; size_t g_malloc_n, g_realloc_n; int g_malloc_calls, g_realloc_calls, g_alloc_fail; void *g_realloc_p;
static int sc_index(const void *p) { for (int k = 0; k < NSC + 2; k++) if (p == (const void *) g_B[k]) return k; return -1; }
void sc_fin_hook(void *mem) {
  int k = sc_index((char *) mem - offsetof(ScBlock, mem));
  if (k < 0) { g_foreign++; return; }
  SC(g_freed[k] == 0, "a finaliser runs while its block is still allocated");
  g_fin[k]++;
}
void sc_free_stub(void *p) {
  int k = sc_index(p);
  if (k < 0) { g_foreign++; return; }
  SC(g_fin[k] == (g_B[k]->finalize ? 1 : 0), "a block is finalised (when it has a finaliser) before it is freed");
  g_freed[k]++; __CPROVER_deallocate(p);
}
void *sc_malloc_stub(size_t n) { g_malloc_calls++; g_malloc_n = n; if (g_alloc_fail) return (void *) 0; return g_B[I_FRESH]; }
void *sc_realloc_stub(void *p, size_t n) {
  g_realloc_calls++; g_realloc_n = n; g_realloc_p = p;
  if (g_alloc_fail) return (void *) 0;
  if (p == (void *) g_reg0 || p == (void *) 0) {            /* the registry grows: copying model */
    SC(n / sizeof(JanetScratch *) <= RCAP, "harness bound: registry growth stays within the model block");
    JanetScratch **q = calloc(RCAP, sizeof(JanetScratch *));
    if (p) { for (int i = 0; i < RCAP; i++) if ((size_t) i < n / sizeof(JanetScratch *) && i < NSC) q[i] = g_reg0[i]; __CPROVER_deallocate(p); }
    g_reg_moved = 1;
    return q;
  }
  int k = sc_index(p);                                      /* a scratch block is resized: it MOVES */
  SC(k >= 0 && k < NSC, "only a registered scratch block is handed to realloc");
  if (k < 0) return (void *) 0;
  g_B[I_FRESH]->finalize = g_B[k]->finalize; g_B[I_FRESH]->mem[0] = g_B[k]->mem[0]; g_B[I_FRESH]->mem[1] = g_B[k]->mem[1];
  g_freed[k]++; __CPROVER_deallocate(p);
  return g_B[I_FRESH];
}

size_t g_len0, g_cap0; JanetScratch *g_old[NSC];
static void sc_setup(void) {
  for (int k = 0; k < NSC + 2; k++) { g_B[k] = calloc(1, sizeof(ScBlock)); g_hasfin[k] = nd_int() != 0; if (g_hasfin[k]) g_B[k]->finalize = sc_fin_hook; g_fin[k] = g_freed[k] = 0; }
  g_cap0 = nd_size(); g_len0 = nd_size(); __CPROVER_assume(g_len0 <= g_cap0 && g_cap0 <= NSC);
  g_reg0 = g_cap0 ? calloc(RCAP, sizeof(JanetScratch *)) : (JanetScratch **) 0;
  for (int k = 0; k < NSC; k++) { g_old[k] = (JanetScratch *) g_B[k]; if ((size_t) k < g_len0) g_reg0[k] = g_old[k]; }
  janet_vm.scratch_mem = g_reg0; janet_vm.scratch_cap = g_cap0; janet_vm.scratch_len = g_len0;
  g_foreign = g_reg_moved = g_malloc_calls = g_realloc_calls = 0; g_alloc_fail = nd_int() != 0; g_must_return = 0;
}
/* how often block k is registered now */
static int registered(int k) { int c = 0; for (int i = 0; i < RCAP; i++) if ((size_t) i < janet_vm.scratch_len && janet_vm.scratch_mem[i] == (JanetScratch *) g_B[k]) c++; return c; }
#define MAXSIZE ((size_t) 1 << 40)

void h_smalloc(void) {
  sc_setup();
  size_t size = nd_size(); __CPROVER_assume(size <= MAXSIZE);
  g_must_return = !g_alloc_fail;
  void *r = janet_smalloc(size);
  SC(!g_alloc_fail, "a failed allocation never returns");
  SC(g_malloc_calls == 1 && g_malloc_n >= size + sizeof(JanetScratchFinalizer), "the block requested has room for the header and the payload");
  SC(r == (void *) g_B[I_FRESH]->mem, "the caller gets the payload behind the header of the new block");
  SC(g_B[I_FRESH]->finalize == (JanetScratchFinalizer) 0, "a new scratch block has no finaliser");
  SC(janet_vm.scratch_len == g_len0 + 1 && janet_vm.scratch_len <= janet_vm.scratch_cap, "the new block is registered: scratch_len + 1 <= scratch_cap");
  SC(janet_vm.scratch_mem[g_len0] == (JanetScratch *) g_B[I_FRESH], "the new block is registered at the end");
  for (int k = 0; k < NSC; k++) if ((size_t) k < g_len0) SC(janet_vm.scratch_mem[k] == g_old[k], "every earlier registration is kept (also across a growth of the registry)");
  if (g_len0 < g_cap0) SC(g_realloc_calls == 0 && janet_vm.scratch_mem == g_reg0 && janet_vm.scratch_cap == g_cap0, "the registry is not reallocated while there is room");
  else SC(g_realloc_calls == 1 && g_realloc_p == (void *) g_reg0 && g_realloc_n / sizeof(JanetScratch *) >= janet_vm.scratch_cap, "a full registry grows: the new block has room for scratch_cap entries");
  SC(g_foreign == 0, "nothing is freed");
  if (g_len0 == g_cap0 && g_cap0 == NSC) REACH("smalloc: registry grows"); if (g_cap0 == 0) REACH("smalloc: first block ever");
  REACH("janet_smalloc returns");
}

void h_srealloc(void) {
  sc_setup();
  size_t size = nd_size(); __CPROVER_assume(size <= MAXSIZE);
  int which = nd_int(); __CPROVER_assume(which >= -1 && which <= NSC);     /* -1: NULL; 0..NSC-1: block k (registered iff k < len); NSC: a foreign block */
  void *mem = (void *) 0;
  for (int k = 0; k <= NSC; k++) if (which == k) mem = (void *) g_B[k]->mem;
  JanetScratchFinalizer fin = which >= 0 ? g_B[which >= NSC ? NSC : which]->finalize : (JanetScratchFinalizer) 0;
  g_must_return = !g_alloc_fail && (which < 0 || (size_t) which < g_len0);
  void *r = janet_srealloc(mem, size);
  SC(!g_alloc_fail, "a failed allocation never returns");
  if (which < 0) {
    SC(janet_vm.scratch_len == g_len0 + 1 && janet_vm.scratch_mem[g_len0] == (JanetScratch *) g_B[I_FRESH] && r == (void *) g_B[I_FRESH]->mem, "srealloc(NULL) is smalloc: a new registered block");
  } else {
    SC((size_t) which < g_len0, "srealloc of memory that is not a registered scratch block never returns (fatal)");
    SC(g_realloc_calls == 1 && g_realloc_p == (void *) g_B[which] && g_realloc_n >= size + sizeof(JanetScratchFinalizer), "the block itself (header included) is resized to header + payload");
    SC(r == (void *) g_B[I_FRESH]->mem, "the caller gets the payload of the moved block");
    SC(janet_vm.scratch_len == g_len0 && janet_vm.scratch_mem == g_reg0 && janet_vm.scratch_cap == g_cap0, "the registry keeps its size");
    for (int k = 0; k < NSC; k++) if ((size_t) k < g_len0) {
      if (k == which) SC(janet_vm.scratch_mem[k] == (JanetScratch *) g_B[I_FRESH], "the registration follows the block to its new address (no stale pointer to the freed old block)");
      else SC(janet_vm.scratch_mem[k] == g_old[k], "every other registration is unchanged");
    }
    SC(registered(which) == 0 && registered(I_FRESH) == 1, "the moved block is registered exactly once, the old address not at all");
    SC(g_B[I_FRESH]->finalize == fin, "the finaliser travels with the block");
    SC(g_fin[which] == 0, "resizing does not finalise");
    if (which == 0 && g_len0 == NSC) REACH("srealloc: oldest of three blocks moved");
    if (which == (int) g_len0 - 1) REACH("srealloc: newest block moved");
  }
  SC(g_foreign == 0, "nothing else is freed");
  if (which < 0) REACH("srealloc(NULL)");
  REACH("janet_srealloc returns");
}

void h_sfree(void) {
  sc_setup();
  int which = nd_int(); __CPROVER_assume(which >= -1 && which <= NSC);
  void *mem = (void *) 0;
  for (int k = 0; k <= NSC; k++) if (which == k) mem = (void *) g_B[k]->mem;
  if (nd_int() && which >= 0) {                              /* optionally (re)set the finaliser through the API first */
    janet_sfinalizer(mem, sc_fin_hook);
    SC(g_B[which]->finalize == sc_fin_hook, "sfinalizer records the finaliser in the block header");
  }
  int hasfin = which >= 0 && g_B[which]->finalize != (JanetScratchFinalizer) 0;
  g_must_return = (which < 0 || (size_t) which < g_len0);
  janet_sfree(mem);
  if (which < 0) {
    SC(janet_vm.scratch_len == g_len0 && g_foreign == 0, "sfree(NULL) does nothing");
    for (int k = 0; k < NSC; k++) SC(g_freed[k] == 0 && g_fin[k] == 0, "sfree(NULL) does nothing");
  } else {
    SC((size_t) which < g_len0, "sfree of memory that is not a registered scratch block never returns (fatal)");
    SC(g_fin[which] == (hasfin ? 1 : 0), "the finaliser of the block runs exactly once");
    SC(g_freed[which] == 1, "the block is freed exactly once");
    SC(janet_vm.scratch_len == g_len0 - 1 && registered(which) == 0, "the block is no longer registered (the collector will not free it again)");
    for (int k = 0; k < NSC; k++) if (k != which) {
      SC(g_freed[k] == 0 && g_fin[k] == 0, "no other block is finalised or freed");
      SC(registered(k) == ((size_t) k < g_len0 ? 1 : 0), "every other block stays registered exactly once");
    }
    if (which == 0 && g_len0 == NSC && hasfin) REACH("sfree: oldest of three blocks, with finaliser");
  }
  SC(janet_vm.scratch_mem == g_reg0 && janet_vm.scratch_cap == g_cap0 && g_realloc_calls == 0 && g_malloc_calls == 0, "the registry block itself is kept");
  if (which < 0) REACH("sfree(NULL)");
  REACH("janet_sfree returns");
}

void h_free_all_scratch(void) {
  sc_setup();
  g_must_return = 1;
  janet_free_all_scratch();
  for (int k = 0; k < NSC; k++) {
    if ((size_t) k < g_len0) {
      SC(g_fin[k] == (g_hasfin[k] ? 1 : 0), "every registered block with a finaliser is finalised exactly once");
      SC(g_freed[k] == 1, "every registered block is freed exactly once");
    } else SC(g_fin[k] == 0 && g_freed[k] == 0, "blocks that are not registered are not touched");
  }
  SC(janet_vm.scratch_len == 0, "the registry is empty afterwards (nothing can be freed a second time)");
  SC(janet_vm.scratch_mem == g_reg0 && janet_vm.scratch_cap == g_cap0 && g_foreign == 0 && g_freed[I_UNREG] == 0, "the registry block is kept for reuse; nothing else is freed");
  if (g_len0 == NSC) REACH("free_all_scratch: three blocks"); if (g_len0 == 0) REACH("free_all_scratch: nothing registered");
  REACH("janet_free_all_scratch returns");
}
