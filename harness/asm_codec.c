/* C09 "disasm followed by asm reproduces a function with the same bytecode" / C10 "asm on any data structure ... never reads
 * or writes outside ...": the instruction codec of asm.c, one shape of the instruction set at a time.
 *
 * The specification of an instruction word is NOT taken from asm.c. It is the operand layout of the interpreter (vm.c):
 *   opcode = w & 0x7F, breakpoint flag = w & 0x80,
 *   A = (w >> 8) & 0xFF   B = (w >> 16) & 0xFF   C = w >> 24   D = w >> 8   E = w >> 16
 *   CS = (int32)w >> 24   DS = (int32)w >> 8     ES = (int32)w >> 16
 * and the shape table janet_instructions[] of bytecode.c (comments of enum JanetInstructionType in janet.h: JINT_S "Slot(3)",
 * JINT_L "Label(3)", JINT_SS "Slot(1), Slot(2)", ...).  A shape is given to this file as
 *   -DAC_SHAPE=JINT_xx -DAC_N=<operands> -DAC_Wk=<bits of operand k> -DAC_Sk=<1 if operand k is signed>
 * operand k always starts at byte k of the word.
 *
 * Entries
 *   h_enc   read_instruction on (mnemonic, arbitrary double operands): returns a word only if there are exactly AC_N operands, each
 *           an integer inside the range of its field (nothing is truncated into a neighbouring field), and the word is
 *           opcode | operands at their positions; janet_asm_decode_instruction maps that word back to (mnemonic, operands).
 *   h_dec   janet_asm_decode_instruction on an arbitrary word of the shape: a tuple (mnemonic, field 1, .., field AC_N) with the
 *           fields read as the interpreter reads them; bracketed exactly when the breakpoint flag is set.
 *   h_rt    decode followed by read_instruction on an arbitrary word of the shape: the assembler accepts it and returns the
 *           same word (without the breakpoint flag, which is debugger state).
 * Stubs (recording): tuples are malloc'd blocks of exactly the requested length; a symbol made from a C string is that C string;
 * an assembler error (janet_asm_longjmp) does not return. */
#include "prelude.h"
#include <stdlib.h>

#ifndef AC_N
#error "shape parameters missing"
#endif
#ifndef AC_SLOTS
#define AC_SLOTS 0          /* bit k set: operand k is a slot of the function's own frame */
#endif
#ifndef AC_W1
#define AC_W1 8
#define AC_S1 0
#endif
#ifndef AC_W2
#define AC_W2 8
#define AC_S2 0
#endif
#ifndef AC_W3
#define AC_W3 8
#define AC_S3 0
#endif
#define AC_NOPS ((int)(sizeof(janet_ops) / sizeof(janet_ops[0])))

/* ---------------- specification of the word layout ---------------- */
static uint32_t ac_mask(int bits) { return bits >= 32 ? 0xFFFFFFFFu : ((1u << bits) - 1u); }
static int32_t ac_field(uint32_t w, int k, int bits, int sgn) {
    uint32_t f = (w >> (8 * k)) & ac_mask(bits);
    if (sgn && (f >> (bits - 1))) return (int32_t) f - (int32_t)(1u << bits);
    return (int32_t) f;
}
static int32_t ac_lo(int bits, int sgn) { return sgn ? -(int32_t)(1u << (bits - 1)) : 0; }
static int32_t ac_hi(int bits, int sgn) { return sgn ? (int32_t)(1u << (bits - 1)) - 1 : (int32_t)(1u << bits) - 1; }
static uint32_t ac_place(int32_t v, int k, int bits) { return (((uint32_t) v) & ac_mask(bits)) << (8 * k); }
static int ac_int_in(double d, int32_t lo, int32_t hi) {
    if (!(d >= (double) lo && d <= (double) hi)) return 0;
    int32_t i = (int32_t) d;
    return (double) i == d;
}
static const int ac_w[4] = {0, AC_W1, AC_W2, AC_W3};
static const int ac_s[4] = {0, AC_S1, AC_S2, AC_S3};

/* ---------------- recording stubs ---------------- */
int ac_must_accept;
void ac_longjmp_stub(JanetAssembler *a) {
    __CPROVER_assert(!ac_must_accept, "codec: the assembler accepts every instruction the disassembler prints");
#ifndef AC_RT
    REACH("the assembler raises");
#endif
    __CPROVER_assume(0);
}
/* typed blocks with the layout of JanetTupleHead followed by exactly n elements (typed so that element types stay concrete) */
#define AC_TUP(n) struct ac_tup##n { JanetGCObject gc; int32_t length; int32_t hash; int32_t sm_line; int32_t sm_column; Janet data[n]; }
AC_TUP(1); AC_TUP(2); AC_TUP(3); AC_TUP(4);
#define AC_NEW(n) { struct ac_tup##n *h = malloc(sizeof(struct ac_tup##n)); h->gc.flags = 0; h->length = n; h->hash = 0; h->sm_line = -1; h->sm_column = -1; return h->data; }
Janet *ac_tuple_begin_stub(int32_t length) {
    __CPROVER_assert(length >= 1 && length <= 4, "codec: instruction tuples have 1 to 4 elements");
    __CPROVER_assert(offsetof(struct ac_tup1, data) == offsetof(JanetTupleHead, data) && offsetof(struct ac_tup1, length) == offsetof(JanetTupleHead, length),
                     "harness: block layout equals JanetTupleHead");
    if (length == 1) AC_NEW(1)
    if (length == 2) AC_NEW(2)
    if (length == 3) AC_NEW(3)
    AC_NEW(4)
}
const Janet *ac_tuple_end_stub(Janet *t) { return t; }
const uint8_t *ac_csymbol_stub(const char *s) { return (const uint8_t *) s; }

/* ---------------- common set-up ---------------- */
static JanetAssembler ac_a, ac_p;
static JanetFuncDef ac_def, ac_pdef;
static int32_t ac_sc0;

/* The opcode is chosen by the solver among the opcodes of the shape, but each body runs with a CONSTANT table index so that the
 * shape switch of read_instruction is decided during symbolic execution (a symbolic shape makes the paths of the other shapes
 * read past the operand tuple and sends symbolic execution into the recursive type-set parser). */
static void ac_retype(void) {
#ifdef AC_RETYPE
    /* no opcode of the pinned instruction set has this shape: give it to one opcode to exercise the code of both directions */
    janet_instructions[AC_RETYPE] = AC_SHAPE;
#endif
}
#define AC_FOR_OPCODES_OF_SHAPE(body) do { ac_retype(); int kk = nd_int(); \
        for (int k = 0; k < AC_NOPS; k++) if (kk == k && janet_instructions[janet_ops[k].opcode] == AC_SHAPE) body(k); } while (0)
static void ac_setup(void) {
    ac_sc0 = nd_i32();
    __CPROVER_assume(ac_sc0 >= 0);                       /* slotcount starts as arity + vararg */
    ac_def.slotcount = ac_sc0;
    ac_pdef.slotcount = nd_i32();
    __CPROVER_assume(ac_pdef.slotcount >= 0);
    ac_a.def = &ac_def;
    ac_p.def = &ac_pdef;
    ac_a.parent = nd_int() ? &ac_p : (JanetAssembler *) 0;   /* any nesting depth: none, one, or arbitrarily many parents */
    ac_p.parent = nd_int() ? &ac_p : (JanetAssembler *) 0;
    ac_a.bytecode_count = nd_i32();
    __CPROVER_assume(ac_a.bytecode_count >= 0);
    ac_a.errindex = ac_a.bytecode_count;
}
/* input tuple: a block of exactly the operands of the shape (a read past it is a pointer-check failure); the length FIELD is
 * arbitrary: a correct assembler looks at the elements only after it has compared the length with the shape */
static struct { JanetGCObject gc; int32_t length; int32_t hash; int32_t sm_line; int32_t sm_column; Janet data[AC_N + 1]; } ac_in;
static Janet *ac_alloc_tuple(int32_t len) {
    ac_in.gc.flags = 0;
    ac_in.length = len;
    ac_in.hash = 0;
    ac_in.sm_line = -1;
    ac_in.sm_column = -1;
    return ac_in.data;
}
static void ac_check_tuple(Janet r, int k, uint32_t w, const char *unused) {
    (void) unused;
    __CPROVER_assert(r.type == JANET_TUPLE, "codec: a known opcode is disassembled to a tuple");
    const Janet *t = (const Janet *) r.as.pointer;
    __CPROVER_assert(janet_tuple_length(t) == AC_N + 1, "codec: the tuple is the mnemonic followed by one integer per operand of the shape");
    __CPROVER_assert(t[0].type == JANET_SYMBOL && t[0].as.pointer == (void *) janet_ops[k].name,
                     "codec: first element is the mnemonic of the opcode in bits 0-6");
    for (int i = 1; i <= AC_N; i++) {
        __CPROVER_assert(t[i].type == JANET_NUMBER && t[i].as.number == (double) ac_field(w, i, ac_w[i], ac_s[i]),
                         "codec: operand i is the field the interpreter reads (position, width, signedness)");
    }
    __CPROVER_assert(((janet_tuple_flag(t) & JANET_TUPLE_FLAG_BRACKETCTOR) != 0) == ((w & 0x80) != 0),
                     "codec: the tuple is bracketed exactly when the breakpoint flag is set");
}

/* ---------------- encode (asm side) ---------------- */
static void ac_enc(const int k) {
    ac_setup();
    int32_t len = nd_i32();
    __CPROVER_assume(len >= 0 && len <= 5);
    Janet *argt = ac_alloc_tuple(len);
    double d[4];
    d[0] = 0;
    argt[0].type = JANET_SYMBOL;
    argt[0].as.pointer = (void *) janet_ops[k].name;
    for (int i = 1; i < 4; i++) {
        d[i] = nd_double();
        if (i <= AC_N) { argt[i].type = JANET_NUMBER; argt[i].as.number = d[i]; }
    }
    uint32_t w = read_instruction(&ac_a, &janet_ops[k], argt);
    __CPROVER_assert(len == AC_N + 1, "codec: an instruction is accepted only with exactly the operands of its shape");
    uint32_t expect = (uint32_t) janet_ops[k].opcode;
    for (int i = 1; i <= AC_N; i++) {
        int ok = ac_int_in(d[i], ac_lo(ac_w[i], ac_s[i]), ac_hi(ac_w[i], ac_s[i]));
        __CPROVER_assert(ok, "codec: an operand outside the range of its field (or not an integer) raises instead of being truncated");
        if (ok) expect |= ac_place((int32_t) d[i], i, ac_w[i]);
    }
    __CPROVER_assert(w == expect, "codec: the word is the opcode with every operand at the position the interpreter reads it from");
    int32_t sc = ac_sc0;
    for (int i = 1; i <= AC_N; i++)
        if (((AC_SLOTS) >> i) & 1) {
            __CPROVER_assert((double) ac_def.slotcount > d[i], "codec: slotcount covers every slot operand of the function's own frame");
            if (d[i] >= (double) sc) sc = (int32_t) d[i] + 1;
        }
    __CPROVER_assert(ac_def.slotcount == sc, "codec: slotcount is the old value or the highest own slot operand + 1");
    Janet r = janet_asm_decode_instruction(w);
    ac_check_tuple(r, k, w, "");
    const Janet *t = (const Janet *) r.as.pointer;
    for (int i = 1; i <= AC_N; i++)
        __CPROVER_assert(t[i].as.number == d[i], "codec: disassembling the assembled word gives back the operands");
    REACH("read_instruction returns a word");
}
void h_enc(void) { AC_FOR_OPCODES_OF_SHAPE(ac_enc); }

/* ---------------- decode (disasm side) ---------------- */
static uint32_t ac_word(int k) {
    uint32_t w = nd_u32();
    __CPROVER_assume((w & 0x7F) == (uint32_t) janet_ops[k].opcode);
    return w;
}
static void ac_dec(const int k) {
    uint32_t w = ac_word(k);
    Janet r = janet_asm_decode_instruction(w);
    ac_check_tuple(r, k, w, "");
    REACH("janet_asm_decode_instruction returns");
}
void h_dec(void) { AC_FOR_OPCODES_OF_SHAPE(ac_dec); }

/* ---------------- decode then encode ---------------- */
static void ac_rt(const int k) {
    ac_setup();
    uint32_t w = ac_word(k);
#ifdef AC_RT_PRE
    __CPROVER_assume(AC_RT_PRE);          /* restricted variant; the restriction is the unit's bound */
#endif
    Janet r = janet_asm_decode_instruction(w);
    ac_check_tuple(r, k, w, "");
    const Janet *t = (const Janet *) r.as.pointer;
    /* The printed tuple is handed to the assembler as an equal copy with concrete element types: ac_check_tuple has just asserted
     * that it has AC_N + 1 elements, the mnemonic first (the assembler finds it by name: asm.optable) and numbers after it. */
    Janet *argt = ac_alloc_tuple(AC_N + 1);
    argt[0].type = JANET_SYMBOL;
    argt[0].as.pointer = (void *) janet_ops[k].name;
    for (int i = 1; i <= AC_N; i++) { argt[i].type = JANET_NUMBER; argt[i].as.number = t[i].as.number; }
    ac_must_accept = 1;
    uint32_t w2 = read_instruction(&ac_a, &janet_ops[k], argt);
    ac_must_accept = 0;
    /* bits covered by no field of the shape are never read by the interpreter (only JINT_0 has any: its upper 24 bits) */
    uint32_t used = 0x7Fu;
    for (int i = 1; i <= AC_N; i++) used |= ac_mask(ac_w[i]) << (8 * i);
    __CPROVER_assert(w2 == (w & used), "codec: assembling the disassembled instruction gives back the word (opcode and every operand field)");
    REACH("decode then encode returns");
}
void h_rt(void) { AC_FOR_OPCODES_OF_SHAPE(ac_rt); }

/* ---------------- the mnemonic table ---------------- */
static int ac_strcmp(const char *a, const char *b) {
    int i = 0;
    while (a[i] && a[i] == b[i]) i++;
    return (int)(unsigned char) a[i] - (int)(unsigned char) b[i];
}
void h_optable(void) {
    int seen[JOP_INSTRUCTION_COUNT];
    for (int i = 0; i < JOP_INSTRUCTION_COUNT; i++) seen[i] = 0;
    for (int i = 0; i < AC_NOPS; i++) {
        __CPROVER_assert(i == 0 || ac_strcmp(janet_ops[i - 1].name, janet_ops[i].name) < 0,
                         "optable: mnemonics are strictly sorted (the binary search of the assembler finds every entry, names are unique)");
        __CPROVER_assert((int) janet_ops[i].opcode >= 0 && (int) janet_ops[i].opcode < JOP_INSTRUCTION_COUNT, "optable: opcodes are in range");
        seen[janet_ops[i].opcode]++;
    }
    for (int i = 0; i < JOP_INSTRUCTION_COUNT; i++)
        __CPROVER_assert(seen[i] == 1, "optable: every opcode of the instruction set has exactly one mnemonic");
    uint32_t w = nd_u32();
    const JanetInstructionDef *d = janet_asm_reverse_lookup(w);
    __CPROVER_assert(((w & 0x7F) < JOP_INSTRUCTION_COUNT) == (d != (void *) 0), "optable: reverse lookup succeeds exactly for the opcodes of the instruction set");
    if (d) __CPROVER_assert((uint32_t) d->opcode == (w & 0x7F), "optable: reverse lookup returns the entry of the opcode in bits 0-6");
    REACH("table walked");
}
