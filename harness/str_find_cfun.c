/* C17 (C level): the search-based C functions of string.c - string/find, find-all, replace, replace-all, split - with
 * the KMP engine under contract (plain mode, asserting/recording stubs attached with --replace-calls):
 *   kmp_init_stub : caller obligations textlen >= 0, patlen >= 0, text/pattern readable for their lengths; raises for the
 *                   empty pattern; state initialised, table freshly allocated (so kmp_deinit's free is checked)
 *                   [kmp_init itself: unit str.kmp.init.table]
 *   kmp_next_stub : caller obligations: state initialised, i >= 0, 0 <= j < patlen; returns -1 leaving the state
 *                   untouched, or ANY r with r >= i - j, r >= 0, r + patlen <= textlen, and then i == r + patlen, j some
 *                   table value in [0, patlen)   [proved for the real kmp_next in unit str.kmp.next.safe; which r it is
 *                   - the first occurrence - in str.kmp.search.exact.pN]. At most STR_MAXHITS hits per run (bound of the
 *                   result loops of find-all / replace-all / split, which are unwound).
 * Everything else of string.c is the real code (findsetup, replacesetup, kmp_seti, kmp_deinit, janet_string,
 * janet_string_begin/end). Trusted stubs: the capi.c getters (pattern / text views = separate readable blocks of ANY
 * length, integer slots = low 32 bits of the slot, each asserting slot < argc; the pattern / text slot has type BUFFER iff
 * that argument is mutable, and a slot that holds a string made by the real janet_stringv - the snapshots replacesetup
 * stores into argv - yields the view of that string), janet_gcalloc (fresh block, asserts a sane size, the first blocks
 * are tracked), janet_text_substitution (with STR_SUBST_MAY_RESIZE: a function as subst may free the ORIGINAL block of a
 * mutable text / pattern, never a snapshot string), the array and buffer primitives used for the results (contracts of units seq.array.* /
 * seq.buffer.*: they assert their preconditions - length >= 0, source readable), memcpy model below. */
#include "prelude.h"
#include <stdlib.h>
#define SEQ_NULL ((void *)0)
#define NIL_BITS 0xFFF8800000000001ULL
#define SEQ_CHECK_NIL() __CPROVER_assert(janet_wrap_nil().u64 == NIL_BITS, "nil bit pattern used in the contracts")

/* memcpy model (assumed, same pointwise model as seq_common.h, bytes): the call site must show both ranges valid for n
 * bytes and disjoint (counted obligations); n == 0 is a no-op. Effect: the byte at the ghost offset g_mm is copied, one
 * other arbitrary byte of the destination range becomes arbitrary. After each range obligation has been ASSERTED it is
 * assumed for the model's own accesses (assert-then-assume of the same fact; without it the solver re-proves the range
 * for the model's two writes, 90 s per call site). */
size_t g_mm;
void *memcpy(void *d, const void *s, size_t n) {
  __CPROVER_assert(n == 0 || __CPROVER_r_ok(s, n), "memcpy model: source range readable");
  __CPROVER_assert(n == 0 || __CPROVER_w_ok(d, n), "memcpy model: destination range writable");
  __CPROVER_assert(n == 0 || !__CPROVER_same_object(d, s) ||
                   __CPROVER_POINTER_OFFSET(d) + n <= __CPROVER_POINTER_OFFSET(s) ||
                   __CPROVER_POINTER_OFFSET(s) + n <= __CPROVER_POINTER_OFFSET(d), "memcpy model: ranges do not overlap");
  if (n > 0) {
    __CPROVER_assume(__CPROVER_r_ok(s, n) && __CPROVER_w_ok(d, n));
    uint8_t v, w;            /* w: arbitrary */
    size_t j = nd_size();
    if (g_mm < n) v = ((const uint8_t *)s)[g_mm];
    if (j < n) ((uint8_t *)d)[j] = w;
    if (g_mm < n) ((uint8_t *)d)[g_mm] = v;
  }
  return d;
}

#ifndef STR_MAXHITS
#define STR_MAXHITS 2
#endif
int32_t g_argc;
JanetByteView g_pat, g_text, g_sub;
int32_t g_pat_slot, g_text_slot;
int g_text_mutable, g_pat_mutable;   /* the text / pattern argument is a buffer (its block can be reallocated by Janet code) */
uint8_t *g_text_block, *g_pat_block; /* the ORIGINAL blocks of the arguments */
int g_text_freed, g_pat_freed;       /* ... already reallocated by a callback */
JanetByteView g_pat0, g_text0;       /* the original views (g_pat / g_text: the views the slots yield NOW) */
#define STR_TRACKED 4
void *g_alloc[STR_TRACKED];          /* the first blocks handed out by janet_gcalloc (snapshot strings come first) */
int g_nalloc;
int g_hits;                  /* number of hits reported by kmp_next so far */
int32_t g_hit[STR_MAXHITS + 1];   /* their positions */
int32_t g_prev_end;          /* resume point at the last kmp_next call */
int g_init_calls, g_subst_calls;
void *g_last_alloc;          /* the last block handed out by janet_gcalloc */
size_t g_last_alloc_size;

#define SLOT_OK(n) __CPROVER_assert((n) >= 0 && (n) < g_argc, "argument slot index below argc")
#define SLOT_INT(argv, n) ((int32_t)((int64_t)((argv)[n].u64 & 0xFFFFFFFFull) - (((argv)[n].u64 & 0x80000000ull) ? 0x100000000ll : 0ll)))
void janet_fixarity(int32_t argc, int32_t fix) { __CPROVER_assume(argc == fix); }
void janet_arity(int32_t argc, int32_t min, int32_t max) { __CPROVER_assume(argc >= min && (max < 0 || argc <= max)); }
int32_t janet_getinteger(const Janet *argv, int32_t n) { SLOT_OK(n); return SLOT_INT(argv, n); }
/* janet_getbytes: the slot's own content decides. A slot holding a string created by the real janet_string (one of the
 * tracked janet_gcalloc blocks) yields that string - an immutable snapshot with the length and (pointwise, ghost byte
 * g_mm) the content of the argument it was taken from; otherwise the slot still holds the original argument. The view
 * returned last is the CURRENT view of that argument (g_pat / g_text). */
JanetByteView janet_getbytes(const Janet *argv, int32_t n) {
  SLOT_OK(n);
  __CPROVER_assert(n == g_pat_slot || n == g_text_slot, "byte view requested for the pattern or the text slot");
  JanetByteView orig = n == g_pat_slot ? g_pat0 : g_text0;
  JanetByteView v = orig;
  int snap = 0;
#define TRY_TRACKED(k) \
  if ((k) < g_nalloc && argv[n].u64 == janet_wrap_string(((JanetStringHead *)g_alloc[k])->data).u64) { \
    JanetStringHead *h = (JanetStringHead *)g_alloc[k]; \
    v.bytes = h->data; v.len = h->length; snap = 1; \
  }
  TRY_TRACKED(0) TRY_TRACKED(1) TRY_TRACKED(2) TRY_TRACKED(3)
#undef TRY_TRACKED
  if (snap) {
    __CPROVER_assert(v.len == orig.len, "C17: the snapshot stored in the argument slot has the length of the argument");
    if (g_mm < (size_t)v.len && !(n == g_pat_slot ? g_pat_freed : g_text_freed))
      __CPROVER_assert(v.bytes[g_mm] == orig.bytes[g_mm], "C17: the snapshot stored in the argument slot has the content of the argument");
  }
  if (n == g_pat_slot) g_pat = v; else g_text = v;
  return v;
}
void *janet_gcalloc(enum JanetMemoryType type, size_t size) {
  __CPROVER_assert(size <= sizeof(JanetStringHead) + (size_t)INT32_MAX + 1, "allocation size is that of a string of non-negative int32 length");
  void *p = malloc(size);
  __CPROVER_assume(p != SEQ_NULL);
  g_last_alloc = p; g_last_alloc_size = size;
  if (g_nalloc < STR_TRACKED) g_alloc[g_nalloc++] = p;
  return p;
}

/* ---- KMP engine contracts ---- */
void kmp_init_stub(struct kmp_state *s, const uint8_t *text, int32_t textlen, const uint8_t *pat, int32_t patlen) {
  __CPROVER_assert(textlen >= 0 && patlen >= 0, "kmp_init precondition: lengths non-negative");
  __CPROVER_assert(textlen == 0 || __CPROVER_r_ok(text, (size_t)textlen), "kmp_init precondition: text readable for textlen bytes");
  __CPROVER_assert(patlen == 0 || __CPROVER_r_ok(pat, (size_t)patlen), "kmp_init precondition: pattern readable for patlen bytes");
  if (patlen == 0) __CPROVER_assume(0);          /* raises "expected non-empty pattern" */
  int32_t *lookup = malloc((size_t)patlen * sizeof(int32_t));
  __CPROVER_assume(lookup != SEQ_NULL);
  s->lookup = lookup; s->i = 0; s->j = 0; s->text = text; s->pat = pat; s->textlen = textlen; s->patlen = patlen;
  g_init_calls++;
}
int32_t kmp_next_stub(struct kmp_state *state) {
  __CPROVER_assert(g_init_calls == 1, "kmp_next precondition: state initialised by kmp_init");
  __CPROVER_assert(state->i >= 0 && state->j >= 0 && state->j < state->patlen && state->j <= state->i, "kmp_next precondition: 0 <= j < patlen, j <= i");
  __CPROVER_assert(state->textlen == g_text.len && state->patlen == g_pat.len && state->text == g_text.bytes && state->pat == g_pat.bytes,
                   "kmp_next precondition: text and pattern of the state are the current views of the arguments");
  __CPROVER_assert((state->textlen == 0 || __CPROVER_r_ok(state->text, (size_t)state->textlen)) && __CPROVER_r_ok(state->pat, (size_t)state->patlen),
                   "kmp_next precondition: text and pattern of the state are live and readable for their lengths");
  g_prev_end = state->i - state->j;
  if (g_hits >= STR_MAXHITS || nd_int()) return -1;
  int32_t r = nd_i32();
  __CPROVER_assume(r >= 0 && r >= state->i - state->j && (int64_t)r + state->patlen <= state->textlen);
  state->i = r + state->patlen;
  state->j = nd_i32();
  __CPROVER_assume(state->j >= 0 && state->j < state->patlen);
  g_hit[g_hits++] = r;
  return r;
}

/* ---- result containers (contracts of array.c / buffer.c primitives) ---- */
JanetArray *g_array;
int g_pushes;
Janet g_pushed[STR_MAXHITS + 2];
JanetArray *janet_array(int32_t capacity) {
  __CPROVER_assert(capacity >= 0, "janet_array precondition: capacity >= 0");
  g_array = malloc(sizeof(JanetArray));
  __CPROVER_assume(g_array != SEQ_NULL);
  return g_array;
}
void janet_array_push(JanetArray *array, Janet x) {
  __CPROVER_assert(array == g_array && g_array != SEQ_NULL, "janet_array_push precondition: the result array");
  __CPROVER_assert(g_pushes < STR_MAXHITS + 2, "harness: push count within the bound");
  g_pushed[g_pushes++] = x;
}
JanetBuffer *g_rbuf;
JanetBuffer *janet_buffer_init(JanetBuffer *b, int32_t capacity) {
  b->count = 0; b->capacity = capacity < 4 ? 4 : capacity;
  b->data = malloc((size_t)b->capacity);
  __CPROVER_assume(b->data != SEQ_NULL);
  g_rbuf = b;
  return b;
}
/* contract of unit seq.buffer.push_bytes: length >= 0, source readable for length bytes and outside the buffer block;
 * appends (raises instead of exceeding INT32_MAX). Pointwise content model: the ghost byte of this append is copied. */
void janet_buffer_push_bytes(JanetBuffer *b, const uint8_t *string, int32_t length) {
  __CPROVER_assert(b == g_rbuf, "janet_buffer_push_bytes precondition: the initialised result buffer");
  __CPROVER_assert(length >= 0, "janet_buffer_push_bytes precondition: length >= 0");
  __CPROVER_assert(length == 0 || __CPROVER_r_ok(string, (size_t)length), "janet_buffer_push_bytes precondition: source readable for length bytes");
  if ((int64_t)b->count + length > INT32_MAX) __CPROVER_assume(0);     /* raises "buffer overflow" */
  int32_t newcount = b->count + length;
  if (newcount > b->capacity) {
    free(b->data);
    b->capacity = newcount;
    b->data = malloc((size_t)newcount);
    __CPROVER_assume(b->data != SEQ_NULL);
  }
  b->count = newcount;
}
void janet_buffer_deinit(JanetBuffer *b) {
  __CPROVER_assert(b == g_rbuf, "janet_buffer_deinit precondition: the initialised result buffer");
  free(b->data);
}

/* janet_text_substitution(subst, bytes, len, extra): the matched bytes must be readable (they are handed to a Janet
 * function when subst is one); returns a byte view of any length >= 0. When subst is a function it runs arbitrary Janet
 * code: with STR_SUBST_MAY_RESIZE a MUTABLE text (a buffer) may be reallocated by it. */
JanetByteView janet_text_substitution(Janet *subst, const uint8_t *bytes, uint32_t len, JanetArray *extra_argv) {
  __CPROVER_assert(len == (uint32_t)g_pat.len, "janet_text_substitution: called with the pattern length");
  __CPROVER_assert(__CPROVER_r_ok(bytes, (size_t)len), "janet_text_substitution precondition: the occurrence lies inside the text");
  __CPROVER_assert(extra_argv == SEQ_NULL, "janet_text_substitution: no extra arguments");
  g_subst_calls++;
#ifdef STR_SUBST_MAY_RESIZE
  if (janet_checktype(*subst, JANET_FUNCTION) || janet_checktype(*subst, JANET_CFUNCTION)) {
    /* e.g. (buffer/push text ...) inside the callback: realloc moves the ORIGINAL block of a buffer argument. Strings
     * (the snapshots included) are immutable and stay reachable through the argument slots: never freed here. */
    if (g_text_mutable && !g_text_freed && nd_int()) { free(g_text_block); g_text_freed = 1; }
    if (g_pat_mutable && !g_pat_freed && nd_int()) { free(g_pat_block); g_pat_freed = 1; }
  }
#endif
  return g_sub;
}

static uint8_t *mk_block(int32_t n) {
  uint8_t *p = malloc((size_t)n);
  __CPROVER_assume(p != SEQ_NULL);
  return p;
}
static Janet *mk_args(int32_t pat_slot, int32_t text_slot) {
  g_argc = nd_i32();
  __CPROVER_assume(g_argc >= 0);
  Janet *argv = malloc((size_t)g_argc * sizeof(Janet));
  __CPROVER_assume(argv != SEQ_NULL);
  g_pat_slot = pat_slot; g_text_slot = text_slot;
  g_pat.len = nd_i32(); g_text.len = nd_i32(); g_sub.len = nd_i32();
  __CPROVER_assume(g_pat.len >= 0 && g_text.len >= 0 && g_sub.len >= 0);
  g_pat_block = mk_block(g_pat.len); g_pat.bytes = g_pat_block; g_text_block = mk_block(g_text.len); g_text.bytes = g_text_block; g_sub.bytes = mk_block(g_sub.len);
  g_pat0 = g_pat; g_text0 = g_text;
  g_text_mutable = nd_int() ? 1 : 0; g_pat_mutable = nd_int() ? 1 : 0;
  g_text_freed = 0; g_pat_freed = 0; g_nalloc = 0;
  /* the slot types agree with the arguments: BUFFER iff mutable (string, symbol or keyword otherwise) */
  if (g_argc > pat_slot) __CPROVER_assume((janet_checktype(argv[pat_slot], JANET_BUFFER) != 0) == g_pat_mutable);
  if (g_argc > text_slot) __CPROVER_assume((janet_checktype(argv[text_slot], JANET_BUFFER) != 0) == g_text_mutable);
  g_hits = 0; g_pushes = 0; g_init_calls = 0; g_subst_calls = 0; g_array = SEQ_NULL; g_rbuf = SEQ_NULL; g_last_alloc = SEQ_NULL;
  g_mm = nd_size();
  return argv;
}
#define LAST_STRING ((JanetStringHead *)g_last_alloc)
#define START(argv, n) (g_argc > (n) ? SLOT_INT(argv, n) : 0)

/* (string/find patt str &opt start): nil, or the index reported by the search started at start (>= 0, else raises) */
void h_cfun_string_find(void) {
  Janet *argv = mk_args(0, 1);
  SEQ_CHECK_NIL();
  Janet r = cfun_string_find(g_argc, argv);
  REACH("string/find returns");
  __CPROVER_assert(g_argc >= 2 && g_argc <= 3 && g_pat.len > 0 && START(argv, 2) >= 0, "C17: string/find returns only for arity 2..3, a non-empty pattern and a non-negative start");
  __CPROVER_assert(g_prev_end == START(argv, 2), "C17: string/find searches from the start index");
  if (g_hits == 0) __CPROVER_assert(r.u64 == NIL_BITS, "C17: string/find returns nil when there is no occurrence");
  else {
    __CPROVER_assert(r.u64 == janet_wrap_integer(g_hit[0]).u64, "C17: string/find returns the index of the occurrence");
    REACH("string/find returns an index");
  }
}

/* (string/find-all patt str &opt start): the array of all reported indices, in order */
void h_cfun_string_findall(void) {
  Janet *argv = mk_args(0, 1);
  Janet r = cfun_string_findall(g_argc, argv);
  REACH("string/find-all returns");
  __CPROVER_assert(g_argc >= 2 && g_argc <= 3 && g_pat.len > 0 && START(argv, 2) >= 0, "C17: string/find-all returns only for arity 2..3, a non-empty pattern and a non-negative start");
  __CPROVER_assert(r.u64 == janet_wrap_array(g_array).u64 && g_pushes == g_hits, "C17: string/find-all returns an array with one element per occurrence");
  if (g_hits == 2) {
    __CPROVER_assert(g_pushed[0].u64 == janet_wrap_integer(g_hit[0]).u64 && g_pushed[1].u64 == janet_wrap_integer(g_hit[1]).u64 && g_hit[1] > g_hit[0],
                     "C17: string/find-all lists the occurrences in increasing order");
    REACH("string/find-all returns two indices");
  }
}

/* (string/replace patt subst str): str when there is no occurrence, else str[0,r) ++ subst ++ str[r+len patt, end) */
void h_cfun_string_replace(void) {
  Janet *argv = mk_args(0, 2);
#ifndef STR_REPLACE_ANY_LENGTH
  /* restricted domain: the result length fits int32 (unit str.cfun.string.replace.overflow covers ALL lengths: since
   * /repo 7374d1c the real code raises instead of computing the length in int32) */
  __CPROVER_assume((int64_t)g_text.len - g_pat.len + g_sub.len <= INT32_MAX);
#endif
  Janet r = cfun_string_replace(g_argc, argv);
  REACH("string/replace returns");
  __CPROVER_assert(g_argc >= 3 && g_argc <= 4 && g_pat.len > 0 && START(argv, 3) >= 0, "C17: string/replace returns only for arity 3..4, a non-empty pattern and a non-negative start");
  __CPROVER_assert(r.u64 == janet_wrap_string(LAST_STRING->data).u64, "C17: string/replace returns a new string");
  __CPROVER_assert((int64_t)g_text.len - g_pat.len + g_sub.len <= INT32_MAX || g_hits == 0, "C17: string/replace raises instead of returning a string longer than INT32_MAX");
  const uint8_t *out = LAST_STRING->data;
  if (g_hits == 0) {
    __CPROVER_assert(LAST_STRING->length == g_text.len && g_subst_calls == 0, "C17: string/replace without occurrence returns a copy of str and does not call subst");
    if (g_mm < (size_t)g_text.len) __CPROVER_assert(out[g_mm] == g_text.bytes[g_mm], "C17: string/replace without occurrence: content of str");
  } else {
    int32_t at = g_hit[0];
    __CPROVER_assert((int64_t)LAST_STRING->length == (int64_t)g_text.len - g_pat.len + g_sub.len && g_subst_calls == 1, "C17: string/replace result length = len str - len patt + len subst");
    if (g_mm < (size_t)at) __CPROVER_assert(out[g_mm] == g_text.bytes[g_mm], "C17: string/replace keeps the bytes before the occurrence");
    if (g_mm < (size_t)g_sub.len) __CPROVER_assert(out[at + g_mm] == g_sub.bytes[g_mm], "C17: string/replace puts subst at the occurrence");
    if (g_mm < (size_t)(g_text.len - at - g_pat.len)) __CPROVER_assert(out[(size_t)at + g_sub.len + g_mm] == g_text.bytes[(size_t)at + g_pat.len + g_mm], "C17: string/replace keeps the bytes behind the occurrence");
    REACH("string/replace returns after replacing");
#ifdef STR_SUBST_MAY_RESIZE
    if (g_text_freed) REACH("string/replace returns after the callback reallocated the text buffer");
#endif
  }
}

/* (string/replace-all patt subst str): pieces between the (non-overlapping) occurrences and subst alternate */
void h_cfun_string_replaceall(void) {
  Janet *argv = mk_args(0, 2);
  Janet r = cfun_string_replaceall(g_argc, argv);
  REACH("string/replace-all returns");
  __CPROVER_assert(g_argc >= 3 && g_argc <= 4 && g_pat.len > 0 && START(argv, 3) >= 0, "C17: string/replace-all returns only for arity 3..4, a non-empty pattern and a non-negative start");
  __CPROVER_assert(r.u64 == janet_wrap_string(LAST_STRING->data).u64 && g_subst_calls == g_hits, "C17: string/replace-all returns a new string, subst evaluated once per occurrence");
  __CPROVER_assert((int64_t)LAST_STRING->length == (int64_t)g_text.len + (int64_t)g_hits * ((int64_t)g_sub.len - g_pat.len), "C17: string/replace-all result length = len str + hits * (len subst - len patt)");
  if (g_hits == 2) {
    __CPROVER_assert(g_hit[1] >= g_hit[0] + g_pat.len, "C17: string/replace-all replaces non-overlapping occurrences");
    REACH("string/replace-all returns after two replacements");
#ifdef STR_SUBST_MAY_RESIZE
    if (g_text_freed && g_pat_freed) REACH("string/replace-all returns after the callbacks reallocated the text and the pattern buffer");
#endif
  }
}

/* (string/split delim str &opt start limit): the pieces between the occurrences; at most limit pieces */
#ifndef STR_SPLIT_ANY_LIMIT
#define LIMIT_DOMAIN(argv) (g_argc < 4 || SLOT_INT(argv, 3) > INT32_MIN + STR_MAXHITS)
#else
#define LIMIT_DOMAIN(argv) 1
#endif
void h_cfun_string_split(void) {
  Janet *argv = mk_args(0, 1);
  /* domain restriction: `--limit` underflows for a limit within STR_MAXHITS of INT32_MIN (formal UB, see final report) */
  __CPROVER_assume(LIMIT_DOMAIN(argv));
  Janet r = cfun_string_split(g_argc, argv);
  REACH("string/split returns");
  __CPROVER_assert(g_argc >= 2 && g_argc <= 4 && g_pat.len > 0 && START(argv, 2) >= 0, "C17: string/split returns only for arity 2..4, a non-empty delimiter and a non-negative start");
  __CPROVER_assert(r.u64 == janet_wrap_array(g_array).u64 && g_pushes >= 1 && g_pushes <= g_hits + 1, "C17: string/split returns an array of at least one and at most occurrences + 1 pieces");
  if (g_argc == 4 && SLOT_INT(argv, 3) > 0) __CPROVER_assert(g_pushes <= SLOT_INT(argv, 3), "C17: string/split returns at most limit pieces");
  if (g_argc < 4) __CPROVER_assert(g_pushes == g_hits + 1, "C17: string/split without limit returns occurrences + 1 pieces");
  __CPROVER_assert(g_pushed[g_pushes - 1].u64 == janet_wrap_string(LAST_STRING->data).u64, "C17: the last piece is a new string");
  if (g_pushes == 3) REACH("string/split returns three pieces");
  if (g_argc == 4 && g_hits == 2 && g_pushes == 2) REACH("string/split returns early because of the limit");
}
