/* C01: janet_sweep, threaded abstracts (janet_vm.threaded_abstracts, JANET_EV): abstracts shared between interpreters are
 * reference counted; the table maps each one this interpreter knows to "visited in this mark phase".
 *
 * Obligations ("frees everything else eventually, runs finalisers exactly once"):
 *   visited entry      stays in the table (same key), its visited flag is reset to false for the next cycle; reference count,
 *                      finaliser and memory untouched;
 *   unvisited entry    the reference count is dropped exactly once; if it reaches 0 the type's gc hook (if any) runs exactly
 *                      once with (data, size) while the head is still allocated, then the head is freed exactly once; otherwise
 *                      (other interpreters still hold it) no finaliser, no free; the entry becomes a tombstone (nil, false),
 *                      count-1, deleted+1;
 *   empty buckets / tombstones and both block lists (empty here) are untouched.
 * janet_abstract_decref is a stub over a ghost counter (abstract.c: atomic decrement returning the new value). */
#include "prelude.h"
void __CPROVER_deallocate(void *);
#define NT 2
#define TS(c, msg) __CPROVER_assert(c, "C01 threaded: " msg)
JanetAbstractHead *g_h[NT]; int32_t g_rc[NT]; int g_dec[NT], g_fin[NT], g_freed[NT], g_fin_args_ok[NT], g_foreign;
static int th_index(const void *head) { for (int k = 0; k < NT; k++) if (head == (const void *) g_h[k]) return k; return -1; }
int th_gc_hook(void *data, size_t len) {
  int k = th_index((char *) data - offsetof(JanetAbstractHead, data));
  if (k < 0) { g_foreign++; return 0; }
  TS(g_freed[k] == 0, "the finaliser runs while the abstract is still allocated");
  g_fin[k]++; g_fin_args_ok[k] = (len == g_h[k]->size);
  return nd_int();                              /* a non-zero status is a fatal "finalizer failed" (janet_assert -> abort) */
}
JanetAbstractType th_type_gc = {"vc/threaded", th_gc_hook};
JanetAbstractType th_type_nogc = {"vc/threaded-plain", 0};
int32_t th_decref_stub(void *abst) {
  int k = th_index((char *) abst - offsetof(JanetAbstractHead, data));
  if (k < 0) { g_foreign++; return 1; }
  TS(g_freed[k] == 0, "the reference count of a freed abstract is not touched");
  g_dec[k]++; g_rc[k]--; return g_rc[k];
}
void th_free_stub(void *p) {
  int k = th_index(p);
  if (k < 0) { g_foreign++; return; }
  g_freed[k]++; __CPROVER_deallocate(p);
}
void th_deinit_stub(JanetGCObject *m) { g_foreign++; }

void h_sweep_threaded(void) {
  JanetKV *items = malloc(NT * sizeof(JanetKV));
  int st[NT]; int hasgc[NT]; int32_t rc0[NT]; int32_t cnt = 0, del = 0;
  for (int k = 0; k < NT; k++) {
    g_h[k] = malloc(sizeof(JanetAbstractHead) + 8); g_h[k]->size = nd_size(); g_h[k]->gc.flags = nd_i32();
    hasgc[k] = nd_int() != 0; if (hasgc[k]) g_h[k]->type = &th_type_gc; else g_h[k]->type = &th_type_nogc;
    rc0[k] = nd_i32(); __CPROVER_assume(rc0[k] >= 1 && rc0[k] <= 3); g_rc[k] = rc0[k];
    g_dec[k] = g_fin[k] = g_freed[k] = 0; g_fin_args_ok[k] = 1;
    st[k] = nd_int(); __CPROVER_assume(st[k] >= 0 && st[k] <= 3);     /* 0 empty, 1 tombstone, 2 abstract visited, 3 abstract not visited */
    Janet key, val; key.as.u64 = 0; val.as.u64 = 0; key.type = JANET_NIL; val.type = JANET_NIL;
    if (st[k] == 1) val.type = JANET_BOOLEAN;
    if (st[k] >= 2) { key.type = JANET_ABSTRACT; key.as.pointer = (void *) g_h[k]->data; val.type = JANET_BOOLEAN; val.as.u64 = (st[k] == 2) ? 1 : 0; cnt++; }
    if (st[k] == 1) del++;
    items[k].key = key; items[k].value = val;
  }
  janet_vm.threaded_abstracts.data = items; janet_vm.threaded_abstracts.capacity = NT;
  janet_vm.threaded_abstracts.count = cnt; janet_vm.threaded_abstracts.deleted = del;
  janet_vm.blocks = (JanetGCObject *) 0; janet_vm.weak_blocks = (JanetGCObject *) 0; janet_vm.block_count = 0; g_foreign = 0;

  janet_sweep();

  int32_t removed = 0;
  for (int k = 0; k < NT; k++) {
    Janet key = items[k].key, val = items[k].value;
    if (st[k] == 2) {
      TS(key.type == JANET_ABSTRACT && key.as.pointer == (void *) g_h[k]->data, "an abstract visited in the mark phase stays in the table");
      TS(val.type == JANET_BOOLEAN && !(val.as.u64 & 1), "its visited flag is reset for the next cycle");
      TS(g_dec[k] == 0 && g_fin[k] == 0 && g_freed[k] == 0 && g_rc[k] == rc0[k], "a visited abstract keeps its reference, is not finalised and not freed");
    } else if (st[k] == 3) {
      removed++;
      TS(g_dec[k] == 1 && g_rc[k] == rc0[k] - 1, "an abstract that was not visited gives up exactly one reference");
      if (rc0[k] == 1) {
        TS(g_fin[k] == (hasgc[k] ? 1 : 0) && g_fin_args_ok[k], "the last reference gone: the gc hook of the type runs exactly once, with (data, size)");
        TS(g_freed[k] == 1, "the last reference gone: the abstract is freed exactly once");
      } else TS(g_fin[k] == 0 && g_freed[k] == 0, "other interpreters still hold the abstract: it is neither finalised nor freed here");
      TS(key.type == JANET_NIL && val.type == JANET_BOOLEAN && !(val.as.u64 & 1), "the entry of an unvisited abstract becomes a tombstone");
    } else {
      TS(key.type == JANET_NIL && val.type == (st[k] == 1 ? JANET_BOOLEAN : JANET_NIL) && val.as.u64 == 0, "empty buckets and tombstones are untouched");
      TS(g_dec[k] == 0 && g_fin[k] == 0 && g_freed[k] == 0, "abstracts that are not in the table are not touched");
    }
  }
  TS(janet_vm.threaded_abstracts.count == cnt - removed && janet_vm.threaded_abstracts.deleted == del + removed, "count and deleted account for exactly the removed entries");
  TS(janet_vm.threaded_abstracts.data == items && janet_vm.threaded_abstracts.capacity == NT, "the table storage is not replaced");
  TS(g_foreign == 0 && janet_vm.blocks == (JanetGCObject *) 0 && janet_vm.weak_blocks == (JanetGCObject *) 0 && janet_vm.block_count == 0, "nothing else is finalised or freed");
  if (st[0] == 3 && rc0[0] == 1 && hasgc[0] && st[1] == 2) REACH("threaded: last reference finalised, visited neighbour kept");
  if (st[1] == 3 && rc0[1] == 2) REACH("threaded: reference dropped, other holders remain");
  REACH("janet_sweep returns");
}
