/* C05 fiber/new: the signal mask of a new fiber contains exactly the signals named by the flag keyword (fiber.c:
 * cfun_fiber_new), plain mode. The mask decides which enclosing fiber a signal is delivered to ("the nearest enclosing fiber
 * whose mask accepts it"), so a bit too many or too few changes the delivery. The reference decoding below is written from
 * the docstring of fiber/new, not from the code. Allocation (janet_fiber), argument extraction and table creation are
 * replaced by stubs that hand out harness objects. */
#include "fib_resume.h"
#ifndef FIB_MAXLEN
#define FIB_MAXLEN 5
#endif
/* ---- reference: docstring of fiber/new -------------------------------------------------------------------------------- */
#define SIGBIT(sig) (1 << (sig))                                   /* fiber.h: JANET_FIBER_MASK_x == 1 << JANET_SIGNAL_x */
#define USERBIT(n) SIGBIT(JANET_SIGNAL_USER0 + (n))
#define ALL_USER (USERBIT(0)|USERBIT(1)|USERBIT(2)|USERBIT(3)|USERBIT(4)|USERBIT(5)|USERBIT(6)|USERBIT(7)|USERBIT(8)|USERBIT(9))
static int spec_known(uint8_t c) {
  return (c >= '0' && c <= '9') || c == 'a' || c == 'd' || c == 'e' || c == 't' || c == 'u' || c == 'y' || c == 'w' || c == 'r' || c == 'i' || c == 'p';
}
static int32_t spec_mask(uint8_t c) {
  if (c >= '0' && c <= '9') return USERBIT(c - '0');               /* :0-9 - block a specific user signal */
  if (c == 'a') return SIGBIT(JANET_SIGNAL_ERROR) | SIGBIT(JANET_SIGNAL_DEBUG) | SIGBIT(JANET_SIGNAL_YIELD) | ALL_USER;   /* all signals */
  if (c == 'd') return SIGBIT(JANET_SIGNAL_DEBUG);
  if (c == 'e') return SIGBIT(JANET_SIGNAL_ERROR);
  if (c == 't') return SIGBIT(JANET_SIGNAL_ERROR) | USERBIT(0) | USERBIT(1) | USERBIT(2) | USERBIT(3) | USERBIT(4);   /* error + user[0-4] */
  if (c == 'u') return ALL_USER;
  if (c == 'y') return SIGBIT(JANET_SIGNAL_YIELD);
  if (c == 'w') return USERBIT(9);                                  /* await (user9) */
  if (c == 'r') return USERBIT(8);                                  /* interrupt (user8) */
  return 0;                                                         /* i, p: environment flags */
}
/* ---- harness objects -------------------------------------------------------------------------------------------------------- */
static JanetFiber g_new, g_cur; static JanetFunction g_func; static JanetFuncDef g_def; static JanetTable g_envarg;
static uint8_t g_bytes[FIB_MAXLEN + 1]; static int32_t g_len; static int g_fiber_calls;
JanetFunction *fib_getfunction_stub(const Janet *argv, int32_t n) { __CPROVER_assert(n == 0, "C05 fiber/new: function is argument 0"); return &g_func; }
JanetByteView fib_getbytes_stub(const Janet *argv, int32_t n) { JanetByteView v; __CPROVER_assert(n == 1, "C05 fiber/new: mask is argument 1"); v.bytes = g_bytes; v.len = g_len; return v; }
JanetTable *fib_gettable_stub(const Janet *argv, int32_t n) { return &g_envarg; }
JanetTable *fib_table_stub(int32_t cap) { JanetTable *t = malloc(sizeof(JanetTable)); __CPROVER_assume(t != (void *)0); t->proto = (void *)0; return t; }
JanetFiber *fib_fiber_stub(JanetFunction *callee, int32_t capacity, int32_t argc, const Janet *argv) {
  /* janet_fiber: a NEW fiber with the default mask (fiber_reset, proved in unit fib.new.reset); NULL iff the arity does not fit */
  __CPROVER_assert(callee == &g_func && argc == g_def.min_arity && argc <= 1, "C05 fiber/new: fiber function takes 0 or 1 arguments");
  g_fiber_calls++;
  g_new.flags = JANET_FIBER_MASK_YIELD | JANET_FIBER_RESUME_NO_USEVAL | JANET_FIBER_RESUME_NO_SKIP | (JANET_STATUS_NEW << JANET_FIBER_STATUS_OFFSET);
  g_new.env = (void *)0; g_new.child = (void *)0;
  return &g_new;
}
void h_fiber_new(void) {
  Janet argv[3]; int32_t argc = nd_i32(); __CPROVER_assume(argc >= 1 && argc <= 3);   /* janet_arity(argc, 1, 3) */
  g_func.def = &g_def; g_def.min_arity = nd_i32(); g_def.flags = nd_i32();
  g_len = nd_i32(); __CPROVER_assume(g_len >= 0 && g_len <= FIB_MAXLEN);
  for (int k = 0; k <= FIB_MAXLEN; k++) g_bytes[k] = nd_u8();
  JanetTable *curenv = nd_int() ? (JanetTable *)0 : malloc(sizeof(JanetTable)); g_cur.env = curenv;
  janet_vm.fiber = &g_cur;
  cfun_fiber_new(argc, argv);
  REACH("fiber/new returns");
  __CPROVER_assert(g_fiber_calls == 1, "C05 fiber/new: exactly one fiber is created");
  /* a new fiber starts in status NEW (the initial state of the automaton), with no child */
  __CPROVER_assert(FIB_ST(g_new.flags) == JANET_STATUS_NEW && g_new.child == (void *)0, "C05 fiber/new: the fiber is created in status NEW");
  int32_t expected = 0; int known = 1; int lastenv = 0;
  for (int k = 0; k < FIB_MAXLEN; k++) if (k < g_len) { expected |= spec_mask(g_bytes[k]); known = known && spec_known(g_bytes[k]);
                                                       if (g_bytes[k] == 'i' || g_bytes[k] == 'p') lastenv = g_bytes[k]; }
  int32_t maskbits = JANET_FIBER_MASK_ERROR | JANET_FIBER_MASK_DEBUG | JANET_FIBER_MASK_YIELD | JANET_FIBER_MASK_USER | 1 /* bit of SIGNAL_OK: never set */;
  if (argc >= 2) {
    __CPROVER_assert(known, "C05 fiber/new: an unknown flag character is refused");
    __CPROVER_assert((g_new.flags & maskbits) == expected, "C05 fiber/new: mask bits set are exactly those named");
    __CPROVER_assert((g_new.flags & ~maskbits & ~JANET_FIBER_STATUS_MASK) == (JANET_FIBER_RESUME_NO_USEVAL | JANET_FIBER_RESUME_NO_SKIP),
                     "C05 fiber/new: no flag outside the mask is set besides the two resume-control flags");
    if (g_len == FIB_MAXLEN) REACH("longest flag keyword");
  } else {
    __CPROVER_assert((g_new.flags & maskbits) == SIGBIT(JANET_SIGNAL_YIELD), "C05 fiber/new: the default mask is :y");
  }
  /* dynamic bindings: the environment is inherited only on request; the last of :i / :p wins */
  if (argc >= 2 && lastenv == 'i') __CPROVER_assert(g_new.env != (void *)0 && g_new.env == g_cur.env, "C05 fiber/new: :i shares the current fiber's environment");
  if (argc >= 2 && lastenv == 'p') __CPROVER_assert(g_new.env != (void *)0 && g_new.env != g_cur.env && g_new.env != curenv && g_new.env->proto == g_cur.env && g_cur.env != (void *)0,
                                                    "C05 fiber/new: :p gives a fresh table whose prototype is the current environment");
  if (!(argc >= 2 && lastenv)) __CPROVER_assert(g_new.env == ((argc == 3 && !janet_checktype(argv[2], JANET_NIL)) ? &g_envarg : (JanetTable *)0),
                                                "C05 fiber/new: without :i/:p the fiber gets the given table or no environment - never the parent's");
  if (curenv) __CPROVER_assert(g_cur.env == curenv, "C05 fiber/new: the current fiber keeps its environment");
}
/* fiber_reset: the initial state of every fiber */
void h_fiber_reset(void) {
  JanetFiber f; f.flags = nd_i32(); f.child = nd_ptr(); f.frame = nd_i32();
  fiber_reset(&f);
  REACH("fiber_reset returns");
  __CPROVER_assert(FIB_ST(f.flags) == JANET_STATUS_NEW, "C05 fiber_reset: status NEW");
  __CPROVER_assert(FIB_OTHER(f.flags) == (JANET_FIBER_MASK_YIELD | JANET_FIBER_RESUME_NO_USEVAL | JANET_FIBER_RESUME_NO_SKIP), "C05 fiber_reset: default mask :y");
  __CPROVER_assert(f.child == (void *)0 && f.env == (void *)0 && f.frame == 0 && f.stackstart == JANET_FRAME_SIZE && f.stacktop == JANET_FRAME_SIZE,
                   "C05 fiber_reset: no child, no environment, empty stack");
}
