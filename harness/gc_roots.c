/* C01 roots API: janet_gcroot adds exactly its argument to the root set and keeps root_count <= root_capacity, whatever the
 * current size (growth goes through realloc, replaced by its contract: a fresh block of the requested size that preserves the old
 * contents - stated for the ghost-selected old root); every earlier root is still a root afterwards. */
#include "gc_mark.h"
size_t g_keep_idx; uint64_t g_keep_bits;     /* ghost: one old root (index, bit pattern) */
size_t g_old_count; unsigned g_rcalls;

/* ASSUMED contract of realloc (ISO C): NULL, or a fresh block of sz bytes whose prefix equals the old block's (observed at the ghost index) */
void *realloc_c(void *p, size_t sz)
__CPROVER_requires(p == (void *) 0 || __CPROVER_r_ok(p, 0))
__CPROVER_assigns(g_rcalls)
__CPROVER_frees(p)
__CPROVER_ensures(g_rcalls == __CPROVER_old(g_rcalls) + 1u)
__CPROVER_ensures(__CPROVER_return_value == (void *) 0 || __CPROVER_is_fresh(__CPROVER_return_value, sz))
__CPROVER_ensures((__CPROVER_return_value != (void *) 0 && g_keep_idx < g_old_count && g_keep_idx < sz / sizeof(Janet))
                  ==> ((uint64_t *) __CPROVER_return_value)[g_keep_idx] == g_keep_bits)
;

#define MAXROOTS ((size_t) 1 << 28)
void janet_gcroot_spec(Janet root)
/* representation invariant of the root set (janet_vm: roots/root_count/root_capacity, only written by gc.c) */
__CPROVER_requires(janet_vm.root_count <= janet_vm.root_capacity && janet_vm.root_capacity <= MAXROOTS)
__CPROVER_requires(janet_vm.root_capacity == 0 ? janet_vm.roots == (Janet *) 0 : __CPROVER_is_fresh(janet_vm.roots, sizeof(Janet) * janet_vm.root_capacity))
__CPROVER_requires(g_old_count == janet_vm.root_count && g_rcalls == 0)
__CPROVER_requires(g_keep_idx < g_old_count ==> g_keep_bits == janet_vm.roots[g_keep_idx].u64)
__CPROVER_assigns(janet_vm.roots, janet_vm.root_count, janet_vm.root_capacity, g_rcalls)
__CPROVER_assigns(janet_vm.root_capacity > 0: __CPROVER_object_whole(janet_vm.roots))
__CPROVER_frees(janet_vm.roots)
/* the argument is added, exactly once, at the end */
__CPROVER_ensures(janet_vm.root_count == g_old_count + 1)
__CPROVER_ensures(JEQ(janet_vm.roots[g_old_count], root))
/* the root array is never overrun */
__CPROVER_ensures(janet_vm.root_count <= janet_vm.root_capacity)
/* no earlier root is lost or changed */
__CPROVER_ensures(g_keep_idx < g_old_count ==> janet_vm.roots[g_keep_idx].u64 == g_keep_bits)
/* growth only when full */
__CPROVER_ensures(g_old_count < __CPROVER_old(janet_vm.root_capacity) ==> (g_rcalls == 0 && janet_vm.root_capacity == __CPROVER_old(janet_vm.root_capacity)))
;
void h_gcroot(void) {
  Janet x; x.u64 = nd_u64();   /* explicit nondet bit pattern (an uninitialised union local is not read back consistently through its members) */
  janet_gcroot(x);
  REACH("janet_gcroot returns");
}

/* janet_gclock / janet_gcunlock: a lock/unlock pair restores the suspension counter; collection is suspended in between (plain mode) */
void h_gclock(void) {
  int before = nd_int();
  __CPROVER_assume(before >= 0 && before < 2147483646);   /* nesting depth far below INT_MAX */
  janet_vm.gc_suspend = before;
  int handle = janet_gclock();
  __CPROVER_assert(handle == before && janet_vm.gc_suspend == before + 1 && janet_vm.gc_suspend != 0, "C01 gclock: lock returns the previous count and suspends collection");
  int nested = janet_gclock();
  __CPROVER_assert(janet_vm.gc_suspend == before + 2, "C01 gclock: locks nest");
  janet_gcunlock(nested);
  __CPROVER_assert(janet_vm.gc_suspend == before + 1, "C01 gclock: a nested lock/unlock pair restores the counter of the outer lock");
  janet_gcunlock(handle);
  __CPROVER_assert(janet_vm.gc_suspend == before, "C01 gclock: lock/unlock restores the suspension counter");
  REACH("gclock/gcunlock pair returns");
}

/* ---- janet_gcunroot / janet_gcunrootall (plain mode, BOUNDED: pointer-walking loops, DESIGN R14: at most VC_NROOTS roots) -------------
 * GC identity of two values (what "the argument" means for the root set): same type and, for heap values, the same object. */
#ifndef VC_NROOTS
#define VC_NROOTS 5
#endif
#define IMMEDIATE(x) (janet_type(x) == JANET_NIL || janet_type(x) == JANET_BOOLEAN || janet_type(x) == JANET_NUMBER)
#define IDEQ(a, b) (janet_type(a) == janet_type(b) && (IMMEDIATE(a) || janet_unwrap_pointer(a) == janet_unwrap_pointer(b)))
#define ROOTS(c, msg) __CPROVER_assert(c, "C01 roots: " msg)
static size_t occurrences(const Janet *v, size_t n, Janet x) { size_t c = 0; for (size_t k = 0; k < VC_NROOTS; k++) if (k < n && IDEQ(v[k], x)) c++; return c; }
static size_t copies(const Janet *v, size_t n, uint64_t bits) { size_t c = 0; for (size_t k = 0; k < VC_NROOTS; k++) if (k < n && v[k].u64 == bits) c++; return c; }

#define ROOTS_SETUP \
  size_t cap = nd_size(), cnt = nd_size(); __CPROVER_assume(cnt <= cap && cap <= VC_NROOTS); \
  Janet *roots = malloc(sizeof(Janet) * VC_NROOTS);   /* fresh heap object: arbitrary contents */ \
  Janet old[VC_NROOTS]; for (size_t k = 0; k < VC_NROOTS; k++) old[k].u64 = roots[k].u64; \
  janet_vm.roots = roots; janet_vm.root_count = cnt; janet_vm.root_capacity = cap; \
  Janet x; x.u64 = nd_u64(); \
  size_t occ = occurrences(old, cnt, x); \
  size_t g = nd_size(); __CPROVER_assume(g < VC_NROOTS);   /* ghost: any old root */ \
  uint64_t other = old[g].u64; size_t other_before = copies(old, cnt, other);
#define ROOTS_FRAME \
  ROOTS(janet_vm.roots == roots && janet_vm.root_capacity == cap && janet_vm.root_count <= janet_vm.root_capacity, "the root array is not moved and root_count <= root_capacity"); \
  /* no OTHER root is lost or duplicated: every value that is not the argument keeps its multiplicity */ \
  ROOTS(!(g < cnt && !IDEQ(old[g], x)) || copies(janet_vm.roots, janet_vm.root_count, other) == other_before, "roots other than the argument keep their multiplicity");

void h_gcunroot(void) {
  ROOTS_SETUP
  int r = janet_gcunroot(x);
  ROOTS(r == (occ > 0 ? 1 : 0), "gcunroot reports whether the argument was a root");
  ROOTS(janet_vm.root_count == cnt - (occ > 0 ? 1 : 0), "gcunroot removes one root iff the argument was rooted");
  ROOTS(occurrences(janet_vm.roots, janet_vm.root_count, x) == occ - (occ > 0 ? 1 : 0), "gcunroot removes exactly one occurrence of the argument (rooting n times needs n unroots)");
  ROOTS_FRAME
  REACH("janet_gcunroot returns");
}
void h_gcunrootall(void) {
  ROOTS_SETUP
  int r = janet_gcunrootall(x);
  size_t left = occurrences(janet_vm.roots, janet_vm.root_count, x);
  ROOTS(r == (occ > 0 ? 1 : 0), "gcunrootall reports whether the argument was a root");
  ROOTS(janet_vm.root_count + (occ - left) == cnt && left <= occ, "gcunrootall removes only occurrences of the argument");
  ROOTS_FRAME
  REACH("janet_gcunrootall returns");
}
/* janet_gcroot on small root sets with real memory and a model of realloc (fresh block, old contents copied, old block freed):
 * the SAT-checkable companion of the dfcc unit gc.roots.root (which needs the SMT back end for its symbolic-size blocks). */
void *vc_realloc_roots(void *p, size_t n) {
  ROOTS(n % sizeof(Janet) == 0 && n / sizeof(Janet) <= 2 * (VC_NROOTS + 1), "gcroot asks for whole root slots, twice the needed count");
  if (nd_int()) return (void *) 0;                   /* allocation failure: janet_gcroot exits */
  uint64_t *q = malloc(n);
  size_t oldw = p ? __CPROVER_OBJECT_SIZE(p) / 8 : 0, w = n / 8;
  for (size_t i = 0; i < 2 * (VC_NROOTS + 1); i++) if (i < w && i < oldw) q[i] = ((uint64_t *) p)[i];
  if (p) free(p);
  return q;
}
void h_gcroot_small(void) {
  size_t cap = nd_size(), cnt = nd_size(); __CPROVER_assume(cnt <= cap && cap <= VC_NROOTS);
  Janet *roots = cap ? malloc(sizeof(Janet) * cap) : (Janet *) 0;
  janet_vm.roots = roots; janet_vm.root_count = cnt; janet_vm.root_capacity = cap;
  size_t g = nd_size(); __CPROVER_assume(g < VC_NROOTS);
  uint64_t kept = g < cnt ? roots[g].u64 : 0;
  Janet x; x.u64 = nd_u64();
  janet_gcroot(x);
  ROOTS(janet_vm.root_count == cnt + 1 && janet_vm.root_count <= janet_vm.root_capacity, "gcroot adds one root and root_count <= root_capacity");
  ROOTS(janet_vm.roots[cnt].u64 == x.u64, "gcroot adds exactly its argument, at the end");
  ROOTS(!(g < cnt) || janet_vm.roots[g].u64 == kept, "gcroot keeps every earlier root");
  ROOTS(!(cnt < cap) || (janet_vm.roots == roots && janet_vm.root_capacity == cap), "gcroot does not reallocate while there is room");
  REACH("janet_gcroot returns");
}
/* The documented contract of janet_gcunrootall: "sets the effective reference count to 0" - no occurrence of the argument is left.
 * FAILS on the real code (unit kept disabled): after moving the last root into the freed position the loop advances without
 * re-examining it, so with roots = [A, A] one A survives.  C reproducer (C API only, not reachable from Janet code):
 *   janet_init(); Janet a = janet_wrap_array(janet_array(0)); janet_gcroot(a); janet_gcroot(a);
 *   janet_gcunrootall(a);            -> returns 1
 *   janet_gcunroot(a);               -> returns 1 (a root was still present), expected 0 */
void h_gcunrootall_complete(void) {
  ROOTS_SETUP
  janet_gcunrootall(x);
  ROOTS(occurrences(janet_vm.roots, janet_vm.root_count, x) == 0, "gcunrootall leaves no occurrence of the argument in the root set");
  ROOTS(janet_vm.root_count == cnt - occ, "gcunrootall removes every occurrence of the argument");
  REACH("janet_gcunrootall returns");
}
