/* C04/C17: index and range decoding helpers of capi.c (shared by every slice / blit / insert style function).
 * capi.c defines the janet_panic family itself (unit defines VC_OWN_PANIC); the formatting front end janet_panicf
 * (a strlen loop + the formatter) is replaced by the contract "does not return", the others keep their real
 * bodies down to janet_signalv, which is replaced likewise. */
#include "seq_common.h"

void janet_panicf_c(const char *format, ...) __CPROVER_assigns() __CPROVER_ensures(0);
void janet_signalv_c(JanetSignal sig, Janet message) __CPROVER_assigns() __CPROVER_ensures(0);
void pthread_exit_c(void *v) __CPROVER_assigns() __CPROVER_ensures(0);   /* only so that dfcc accepts the (unreached) body of janet_top_level_signal */

int32_t g_n, g_argc, g_len;     /* harness inputs, for the postconditions */
#define ARG_IS_INT(x) (janet_checktype((x), JANET_NUMBER) && janet_unwrap_number(x) == (double)(int32_t)janet_unwrap_number(x))
#define ARG_INT(x) ((int32_t)janet_unwrap_number(x))

/* janet_length: in-tree callers of janet_getslice have already checked argv[0] with janet_getbytes/janet_getindexed,
 * so the length is the count/length field of a string, buffer, array or tuple: 0 <= length (assumed; SEQ_MAXLEN see
 * h_gethalfrange) */
int32_t janet_length_c(Janet x) __CPROVER_assigns() __CPROVER_ensures(__CPROVER_return_value == g_len);

/* argv: any argument vector of argc slots */
static Janet *mk_argv(int32_t argc) {
  if (argc <= 0) return SEQ_NULL;
  Janet *argv = malloc((size_t)argc * sizeof(Janet));
  __CPROVER_assume(argv != SEQ_NULL);
  return argv;
}
#define IS_NIL(x) janet_checktype((x), JANET_NIL)
/* reference decoding of one half-range argument (the documented rule): integer raw in [-length-1, length] */
#define DEC_OK(x, length) (janet_checkint(x) && (int64_t)janet_unwrap_integer(x) >= -(int64_t)(length) - 1 && janet_unwrap_integer(x) <= (length))
#define DEC(x, length) (janet_unwrap_integer(x) >= 0 ? (int64_t)janet_unwrap_integer(x) : (int64_t)janet_unwrap_integer(x) + (length) + 1)

/* janet_gethalfrange(argv, n, length, which), 0 <= length < INT32_MAX: returns normally only for a 32-bit integer
 * argument raw with -length-1 <= raw <= length; the result is raw, or raw+length+1 for negative raw, hence in
 * [0,length]; out-of-range or ill-typed raises. (length == INT32_MAX is excluded: `length + 1` overflows there.)
 * Proved in unit seq.capi.gethalfrange, used as the callee contract in seq.capi.getslice and the cfun units. */
int32_t janet_gethalfrange_c(const Janet *argv, int32_t n, int32_t length, const char *which)
__CPROVER_requires(n >= 0 && __CPROVER_r_ok(argv + n, sizeof(Janet)))
__CPROVER_requires(length >= 0 && length <= SEQ_MAXLEN)
__CPROVER_assigns()
__CPROVER_ensures(DEC_OK(argv[n], length))
__CPROVER_ensures(__CPROVER_return_value >= 0 && __CPROVER_return_value <= length)
__CPROVER_ensures((int64_t)__CPROVER_return_value == DEC(argv[n], length))
;
void h_gethalfrange(void) {
  int32_t argc = nd_i32(), n = nd_i32(), length = nd_i32();
  Janet *argv = mk_argv(argc);
  __CPROVER_assume(n >= 0 && n < argc);
  int32_t r = janet_gethalfrange(argv, n, length, "start");
  REACH("janet_gethalfrange returns");
  if (janet_unwrap_integer(argv[n]) < 0) REACH("janet_gethalfrange returns for a negative index");
}

/* janet_getargindex: same with raw+length for negative raw (C API only, no in-tree caller) */
void h_getargindex(void) {
  int32_t argc = nd_i32(), n = nd_i32(), length = nd_i32();
  Janet *argv = mk_argv(argc);
  __CPROVER_assume(n >= 0 && n < argc);
  __CPROVER_assume(length >= 0);
  Janet x = argv[n];
  int32_t r = janet_getargindex(argv, n, length, "index");
  REACH("janet_getargindex returns");
  __CPROVER_assert(janet_checkint(x), "argindex: returns only for a 32 bit integer argument");
  __CPROVER_assert(r >= 0 && r <= length, "argindex: result within [0,length]");
  __CPROVER_assert(janet_unwrap_integer(x) >= 0 ? r == janet_unwrap_integer(x) : (int64_t)r == (int64_t)janet_unwrap_integer(x) + length,
                   "argindex: result is raw, or raw+length for negative raw");
  if (janet_unwrap_integer(x) < 0) REACH("janet_getargindex returns for a negative index");
}

/* janet_getstartrange / janet_getendrange: absent or nil argument gives the default 0 resp. length, otherwise the
 * half-range decoding; never reads argv[n] for n >= argc */
void h_getstartend(void) {
  int32_t argc = nd_i32(), n = nd_i32(), length = nd_i32();
  Janet *argv = mk_argv(argc);
  __CPROVER_assume(n >= 0);
  __CPROVER_assume(length >= 0 && length <= SEQ_MAXLEN);
  int which = nd_int();
  int32_t r = which ? janet_getstartrange(argv, argc, n, length) : janet_getendrange(argv, argc, n, length);
  REACH("janet_getstartrange/janet_getendrange returns");
  __CPROVER_assert(r >= 0 && r <= length, "startend: result within [0,length]");
  if (n >= argc || IS_NIL(argv[n])) {
    __CPROVER_assert(r == (which ? 0 : length), "startend: default is 0 for start and length for end");
    REACH("default taken");
  } else {
    __CPROVER_assert(DEC_OK(argv[n], length) && (int64_t)r == DEC(argv[n], length), "startend: explicit argument decoded as half range");
    REACH("explicit argument");
  }
}

/* janet_getslice(argc, argv): 1..3 arguments; the range is inside [0,length] and ordered; start/end are the decoded
 * arguments (defaults 0 / length), an end before start is clamped to start (empty slice) */
void h_getslice(void) {
  int32_t argc = nd_i32();
  Janet *argv = mk_argv(argc);
  __CPROVER_assume(g_len >= 0 && g_len <= SEQ_MAXLEN);
  JanetRange r = janet_getslice(argc, argv);
  REACH("janet_getslice returns");
  __CPROVER_assert(argc >= 1 && argc <= 3, "slice: arity 1..3");
  __CPROVER_assert(0 <= r.start && r.start <= r.end && r.end <= g_len, "slice: 0 <= start <= end <= length");
  int64_t s = 0, e = g_len;
  if (argc > 1 && !IS_NIL(argv[1])) { __CPROVER_assert(DEC_OK(argv[1], g_len), "slice: start argument in range"); s = DEC(argv[1], g_len); }
  if (argc > 2 && !IS_NIL(argv[2])) { __CPROVER_assert(DEC_OK(argv[2], g_len), "slice: end argument in range"); e = DEC(argv[2], g_len); REACH("explicit end"); }
  __CPROVER_assert(r.start == s && r.end == (e < s ? s : e), "slice: start/end are the decoded arguments, end clamped to start");
}
