/* C13: 64-bit integer text - scan_uint64 (strtod.c) against an independent evaluator, and its memory safety.
 * BOUNDED units (the loops walk a pointer, DESIGN R14): every input of length <= NUM_MAXLEN, loops unwound with
 * unwinding assertions. Plain mode: digit_lookup[] keeps its real initialiser.
 *
 * What is checked (the contract that the units num.scan_int64.range / num.scan_uint64.range ASSUME for scan_uint64):
 *   scan_uint64 accepts  iff  the text is  [+-] [0x | <d>r | <d><d>r] body,  body made of digits below the radix and
 *   '_' separators (only after a first digit), with at least one digit, and the natural number V denoted by the digits is
 *   <= 2^64-1;  it then delivers exactly V and the presence of '-'.
 * V is computed here in 128-bit arithmetic by Horner's rule with saturation - no overflow guard, no leading zero
 * special case, its own digit-value function (so digit_lookup[] is checked as well).
 * The input buffer is a heap object of EXACTLY len bytes: any read outside the text is a pointer_dereference failure.
 *
 * -DNUM_KIND / -DNUM_K select the radix prefix as in num_scan_acc.c; NUM_KIND 9 leaves the whole text symbolic
 * (memory safety only, -DNUM_NOVALUE): entries h_scan_value (scan_uint64), h_memsafe_i64 (janet_scan_int64),
 * h_memsafe_u64 (janet_scan_uint64).
 */
#include "prelude.h"

#ifndef NUM_MAXLEN
#define NUM_MAXLEN 24
#endif
#ifndef NUM_KIND
#define NUM_KIND 0
#endif
#ifndef NUM_K
#define NUM_K 10
#endif
#define ISDIG(c) ((c) >= '0' && (c) <= '9')

/* value of a digit character in the literal syntax, -1 if it is none */
static int spec_digit(uint8_t c) {
  if (c >= '0' && c <= '9') return c - '0';
  if (c >= 'a' && c <= 'z') return c - 'a' + 10;
  if (c >= 'A' && c <= 'Z') return c - 'A' + 10;
  return -1;
}

#define SPEC_BIG (((unsigned __int128)1) << 64)      /* saturation value: "more than 2^64-1" */

void h_scan_value(void) {
  int32_t len = nd_i32();
  __CPROVER_assume(len >= 0 && len <= NUM_MAXLEN);
  uint8_t *buf = malloc(len);
  __CPROVER_assume(buf != NULL);
  int s = (len > 0 && (buf[0] == '-' || buf[0] == '+')) ? 1 : 0;
  int32_t rem = len - s;
  /* prefix classification (the literal syntax): b = radix, pl = prefix length, bad = two digit radix outside 2..36 */
  int is_hex = rem >= 2 && buf[s] == '0' && buf[s + 1] == 'x';
  int is_r1 = rem >= 2 && ISDIG(buf[s]) && buf[s + 1] == 'r';
  int is_r2 = rem >= 3 && ISDIG(buf[s]) && ISDIG(buf[s + 1]) && buf[s + 2] == 'r';
#if NUM_KIND == 0
  __CPROVER_assume(!is_hex && !is_r1 && !is_r2);
  const int b = 10, pl = 0;
#elif NUM_KIND == 1
  __CPROVER_assume(is_hex);
  const int b = 16, pl = 2;
#elif NUM_KIND == 2
  __CPROVER_assume(is_r1 && buf[s] == '0' + NUM_K);
  const int b = NUM_K, pl = 2;
#elif NUM_KIND == 3
  __CPROVER_assume(is_r2 && buf[s] == '0' + (NUM_K / 10) && buf[s + 1] == '0' + (NUM_K % 10));
  const int b = NUM_K, pl = 3;
#endif

  uint64_t out;
  int neg;
  int r = scan_uint64(buf, len, &out, &neg);
  REACH("scan_uint64 returns");

#ifndef NUM_NOVALUE
  /* independent evaluation */
  int valid = 1, seen = 0;
  unsigned __int128 v = 0;
  for (int32_t i = s + pl; i < len; i++) {
    uint8_t c = buf[i];
    if (c == '_') {
      if (!seen) valid = 0;
    } else {
      int d = spec_digit(c);
      if (d < 0 || d >= b) valid = 0;
      else {
        seen = 1;
        v = v * (unsigned) b + (unsigned) d;
        if (v >= SPEC_BIG) v = SPEC_BIG;
      }
    }
  }
  if (!seen) valid = 0;
  int accept = valid && v < SPEC_BIG;
  __CPROVER_assert(r == 0 || r == 1, "scan_uint64 returns 0 or 1");
  __CPROVER_assert((r == 1) == (accept != 0), "scan_uint64 accepts exactly the well formed texts whose value is at most 2^64-1");
  if (r == 1) {
    __CPROVER_assert((unsigned __int128) out == v, "scan_uint64 delivers exactly the value denoted");
    __CPROVER_assert(neg == (buf[0] == '-'), "scan_uint64 reports the sign");
    REACH("scan_uint64 accepts");
    if (out > 36 * 36) REACH("scan_uint64 accepts a value of several digits");
  }
#ifdef NUM_OVF   /* only where NUM_MAXLEN digits of this radix can exceed 2^64-1 */
  if (r == 0 && valid) REACH("scan_uint64 rejects a well formed text whose value exceeds 2^64-1");
#endif
#else
  if (r == 1) REACH("scan_uint64 accepts");
#endif
}

/* memory safety of the public scanners on an arbitrary text of at most NUM_MAXLEN bytes (exact-size heap object) */
void h_memsafe_i64(void) {
  int32_t len = nd_i32();
  __CPROVER_assume(len >= 0 && len <= NUM_MAXLEN);
  uint8_t *buf = malloc(len);
  __CPROVER_assume(buf != NULL);
  int64_t out;
  int r = janet_scan_int64(buf, len, &out);
  REACH("janet_scan_int64 returns");
  if (r == 1) REACH("janet_scan_int64 accepts");
}

void h_memsafe_u64(void) {
  int32_t len = nd_i32();
  __CPROVER_assume(len >= 0 && len <= NUM_MAXLEN);
  uint8_t *buf = malloc(len);
  __CPROVER_assume(buf != NULL);
  uint64_t out;
  int r = janet_scan_uint64(buf, len, &out);
  REACH("janet_scan_uint64 returns");
  if (r == 1) REACH("janet_scan_uint64 accepts");
}
