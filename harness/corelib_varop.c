/* C15: "calling a specialised core function gives the same result whether the call is compiled inline ... or goes through
 * the function as a first-class value" - the ONE-argument case of the variadic arithmetic / bitwise operators.
 * Inline: cfuns.c opreduce with one argument emits `op target <unary constant> arg` - except for subtraction, which is
 * `arg * -1` (negation keeps the sign of zero). First class: corelib.c templatize_varop assembles the function's bytecode;
 * its unary arm must perform the SAME instruction on (unary constant, args[0]). Both real functions run with the same
 * (operator, unary constant); emitters and janet_quick_asm are recording stubs. That the two call sites pass the same
 * constants per operator is read off the two tables (cfuns.c do_*, corelib.c janet_lib_corelib) and not proved here. */
#include "prelude.h"
static uint32_t cv_code[32]; static size_t cv_words; static int cv_asm_calls;
void cv_quick_asm_stub(JanetTable *env, int32_t flags, const char *name, int32_t arity, int32_t min_arity, int32_t max_arity, int32_t slots, const uint32_t *bytecode, size_t bytecode_size, const char *doc) {
  cv_asm_calls++; cv_words = bytecode_size / sizeof(uint32_t);
  __CPROVER_assert(cv_words <= 32 && slots == 6 && (flags & JANET_FUNCDEF_FLAG_VARARG), "corelib.varop: the operator is assembled as a variadic function of 6 slots");
  for (int i = 0; i < 32; i++) if ((size_t) i < cv_words) cv_code[i] = bytecode[i];
}
/* inline side: what opreduce emits for one argument */
static int cv_emits; static uint32_t cv_inline_op; static int cv_inline_is_imm; static int32_t cv_inline_imm; static double cv_inline_const; static int cv_inline_const_first;
static JanetSlot cv_target, cv_arg;
JanetSlot cv_gettarget_stub(JanetFopts opts) { return cv_target; }
int32_t cv_emit_sss_stub(JanetCompiler *c, uint8_t op, JanetSlot s1, JanetSlot s2, JanetSlot s3, int wr) {
  cv_emits++; cv_inline_op = op; cv_inline_is_imm = 0;
  cv_inline_const_first = (s2.flags & JANET_SLOT_CONSTANT) && s2.constant.type == JANET_NUMBER && s3.index == cv_arg.index && s1.index == cv_target.index && wr == 1;
  cv_inline_const = s2.constant.as.number; return 0;
}
int32_t cv_emit_ssi_stub(JanetCompiler *c, uint8_t op, JanetSlot s1, JanetSlot s2, int8_t imm, int wr) {
  cv_emits++; cv_inline_op = op; cv_inline_is_imm = 1; cv_inline_imm = imm;
  cv_inline_const_first = s2.index == cv_arg.index && s1.index == cv_target.index && wr == 1; return 0;
}
static struct { int32_t cap, cnt; JanetSlot data[2]; } cv_args;
void h_varop_unary(void) {
  /* the operators templatize_varop is used for */
  uint32_t op = nd_u32();
  __CPROVER_assume(op == JOP_ADD || op == JOP_SUBTRACT || op == JOP_MULTIPLY || op == JOP_DIVIDE || op == JOP_DIVIDE_FLOOR || op == JOP_MODULO || op == JOP_REMAINDER ||
                   op == JOP_BAND || op == JOP_BOR || op == JOP_BXOR || op == JOP_SHIFT_LEFT || op == JOP_SHIFT_RIGHT || op == JOP_SHIFT_RIGHT_UNSIGNED);
  int32_t nullary = nd_i32(), unary = nd_i32();
  __CPROVER_assume(nullary >= -1 && nullary <= 1 && unary >= -1 && unary <= 1);
  cv_asm_calls = 0;
  templatize_varop((JanetTable *)0, 0, "op", nullary, unary, op, "doc");
  __CPROVER_assert(cv_asm_calls == 1 && cv_words >= 12, "corelib.varop: one function is assembled");
  /* the unary arm: words 5.. = EQUALS_IMMEDIATE argn 1; JUMP_IF_NOT; LOAD_INTEGER accum unary; GET_INDEX operand args 0; <the operation>; RETURN accum */
  uint32_t w_load = cv_code[7], w_get = cv_code[8], w_op = cv_code[9], w_ret = cv_code[10];
  __CPROVER_assert((cv_code[5] & 0xFF) == JOP_EQUALS_IMMEDIATE && (cv_code[5] >> 24) == 1 && (cv_code[6] & 0xFF) == JOP_JUMP_IF_NOT, "corelib.varop: the unary arm is taken for exactly one argument");
  __CPROVER_assert(w_get == (JOP_GET_INDEX | (4u << 8) | (0u << 16) | (0u << 24)) && w_ret == (JOP_RETURN | (3u << 8)), "corelib.varop: the unary arm reads args[0] and returns the accumulator");
  /* inline side */
  JanetCompiler comp; JanetFopts opts; opts.compiler = &comp; opts.flags = 0;
  cv_target.index = 3; cv_target.envindex = -1; cv_target.flags = 0; cv_arg.index = 4; cv_arg.envindex = -1; cv_arg.flags = 0;
  cv_args.cap = 2; cv_args.cnt = 1; cv_args.data[0] = cv_arg;
  Janet un; un.type = JANET_NUMBER; un.as.number = (double) unary; Janet nul; nul.type = JANET_NUMBER; nul.as.number = (double) nullary;
  cv_emits = 0;
  opreduce(opts, cv_args.data, (int) op, 0, nul, un);
  __CPROVER_assert(cv_emits == 1 && cv_inline_const_first, "corelib.varop: inline, one argument is one instruction on (unary constant, argument) into the target");
  if (cv_inline_is_imm) {
    __CPROVER_assert(w_op == (cv_inline_op | (3u << 8) | (4u << 16) | ((uint32_t)(uint8_t) cv_inline_imm << 24)), "corelib.varop: the first-class function performs the same immediate instruction on its argument as the inlined call (negation: arg * -1)");
    REACH("varop: unary minus");
  } else {
    __CPROVER_assert(w_op == (cv_inline_op | (3u << 8) | (3u << 16) | (4u << 24)) && w_load == (JOP_LOAD_INTEGER | (3u << 8) | ((uint32_t)(uint16_t)(int16_t) unary << 16)) && cv_inline_const == (double) unary,
                     "corelib.varop: the first-class function performs the same instruction on (unary constant, argument) as the inlined call");
    REACH("varop: other operators");
  }
}
