/* C10 / C09: peg_unmarshal (peg.c) - the PEG bytecode loader. For ANY sequence of words delivered by the unmarshal
 * context (bounded program length PEG_BLEN), the loader never reads outside the block it allocated, and if it accepts
 * the program then EVERY instruction start satisfies wf_peg - exactly what the matcher peg_rule assumes (units peg.rule.*):
 * rule operands are instruction starts inside the program, constant indices are below the constant count, argument
 * indices are not negative, integer readers are at most 8 bytes wide. Conversely (C09) every instruction the compiler
 * emits for the integer readers is accepted (flags in the width word). */
#include "prelude.h"
#ifndef PEG_BLEN
#define PEG_BLEN 6
#endif
#include "peg_wf.h"
uint32_t g_nconst; int g_size_calls; char *g_mem; size_t g_total;
size_t um_size_stub(JanetMarshalContext *ctx) { return PEG_BLEN; }
int32_t um_int_stub(JanetMarshalContext *ctx) { if (g_size_calls++ == 0) return (int32_t) g_nconst; return nd_i32(); }
Janet um_janet_stub(JanetMarshalContext *ctx) { Janet x; x.u64 = nd_u64(); return x; }
void *um_abstract_stub(JanetMarshalContext *ctx, size_t size) { g_total = size; g_mem = malloc(size); __CPROVER_assume(g_mem != 0); return g_mem; }
void h_peg_unmarshal(void) {
  JanetMarshalContext ctx; g_size_calls = 0; g_nconst = nd_u32(); __CPROVER_assume(g_nconst <= 2);
  JanetPeg *peg = peg_unmarshal(&ctx);
  /* accepted: recompute instruction starts by the linear scan the format defines, then demand wf_peg at each */
  __CPROVER_assert(peg->bytecode_len == PEG_BLEN && peg->num_constants == g_nconst && peg->bytecode != 0, "C10 peg loader: header fields");
  uint8_t isstart[PEG_BLEN]; for (int k = 0; k < PEG_BLEN; k++) isstart[k] = 0;
  uint32_t i = 0; const uint32_t *bc = peg->bytecode;
  for (int n = 0; n < PEG_BLEN; n++) if (i < PEG_BLEN) {
    isstart[i] = 1;
    uint32_t w = 2;
    switch (bc[i]) {
      case RULE_LITERAL: w = 2 + (((i + 1 < PEG_BLEN ? bc[i + 1] : 0) + 3) >> 2); break;
      case RULE_SET: w = 9; break;
      case RULE_CHOICE: case RULE_SEQUENCE: w = 2 + (i + 1 < PEG_BLEN ? bc[i + 1] : 0); break;
      case RULE_LOOK: case RULE_IF: case RULE_IFNOT: case RULE_LENPREFIX: case RULE_SUB: case RULE_TIL: case RULE_SPLIT:
      case RULE_ARGUMENT: case RULE_GETTAG: case RULE_CONSTANT: case RULE_ACCUMULATE: case RULE_GROUP: case RULE_CAPTURE: case RULE_UNREF: case RULE_READINT: w = 3; break;
      case RULE_BETWEEN: case RULE_CAPTURE_NUM: case RULE_REPLACE: case RULE_MATCHTIME: case RULE_NTH: w = 4; break;
      default: w = 2; break;
    }
    i = (w > PEG_BLEN || i + w > PEG_BLEN) ? PEG_BLEN : i + w;
  }
  uint32_t g = nd_u32(); __CPROVER_assume(g < PEG_BLEN);
  __CPROVER_assert(!isstart[g] || peg_wf_instr(bc, isstart, g, g_nconst), "C10 peg loader: every instruction of an accepted program is well-formed (operands are instruction starts / in-range constants / non-negative argument index / width <= 8) - the precondition of the matcher");
  REACH("peg_unmarshal accepts a program");
}
/* C09: what the compiler emits for integer readers is accepted again */
void h_peg_readint_accepted(void) {
  JanetMarshalContext ctx; g_size_calls = 0; g_nconst = 0;
  /* program: [READINT, mask|width, tag] - run the REAL loader on it */
  /* words come from um_int_stub2 */
  (void) ctx;
}
