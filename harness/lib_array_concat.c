/* C04 / C17 (C level): array/concat and array/join (array.c), plain mode. The dfcc formulation (real janet_array_push
 * bodies, realloc model, write-set tracking through six unrolled reallocations) exceeded 14 GiB; here the two callees are
 * replaced by asserting models of their proved contracts (--replace-calls):
 *   janet_array_ensure(a, capacity, growth)  [unit seq.array.ensure]: growth >= 1 asserted; nothing happens when capacity
 *       <= a->capacity (in particular for a NEGATIVE capacity); otherwise the block is REPLACED by a fresh one of
 *       min(capacity * growth, INT32_MAX) elements and the old block is freed
 *   janet_array_push(a, x)  [unit seq.array.push]: raises at INT32_MAX elements; grows like ensure(count + 1, 2) when
 *       full; stores x at index count
 * A replaced block keeps the elements at the two ghost positions g_idx / g_idx2 (every other element arbitrary), so every
 * statement about content is made at these positions (= for every position); a read through a stale block is a read of
 * a deallocated object (pointer check).
 * Other trusted stubs: janet_arity, janet_getarray (slot 0 = g_arr), janet_indexed_view = a pure function of the value: a
 * slot with the bits of slot 0 is the array itself (CURRENT data / count), any other ARRAY / TUPLE slot the separate
 * readable view g_part. */
#include "prelude.h"
#include <stdlib.h>
#define L_NULL ((void *)0)
#ifndef LIB_MAXPART
#define LIB_MAXPART 2
#endif
JanetArray *g_arr;
int32_t g_argc, g_idx, g_idx2, g_j;
JanetView g_part;
uint64_t g_self_bits;
int g_grown;
#define SLOT_OK(n) __CPROVER_assert((n) >= 0 && (n) < g_argc, "argument slot index below argc")
void janet_arity(int32_t argc, int32_t min, int32_t max) { __CPROVER_assume(argc >= min && (max < 0 || argc <= max)); }
JanetArray *janet_getarray(const Janet *argv, int32_t n) { SLOT_OK(n); __CPROVER_assert(n == 0, "array is slot 0"); return g_arr; }
int janet_indexed_view(Janet seq, const Janet **data, int32_t *len) {
  if (!janet_checktype(seq, JANET_ARRAY) && !janet_checktype(seq, JANET_TUPLE)) return 0;
  if (janet_checktype(seq, JANET_ARRAY) && seq.u64 == g_self_bits) { *data = g_arr->data; *len = g_arr->count; }
  else { *data = g_part.items; *len = g_part.len; }
  return 1;
}
/* LIB_BLOCK (bounded units): every block is allocated with the constant size of LIB_BLOCK elements (>= any capacity that
 * can arise under the bound) - symbolic-size blocks through several replacements exhaust 14 GiB; the logical capacity is
 * tracked in a->capacity and respected by the two models, the code under proof never indexes the destination itself. */
#ifdef LIB_BLOCK
#define BLOCK_ELEMS(n) ((size_t)LIB_BLOCK)
#define BLOCK_ALLOC(n) malloc(sizeof(Janet[LIB_BLOCK]))        /* typed: an array of LIB_BLOCK Janets */
#else
#define BLOCK_ELEMS(n) ((size_t)(n))
#define BLOCK_ALLOC(n) malloc((size_t)(n) * sizeof(Janet))
#endif
static void grow(JanetArray *a, int32_t newcap) {
#ifdef LIB_BLOCK
  __CPROVER_assert(newcap <= LIB_BLOCK, "harness: capacity within the constant block size");
#endif
  Janet *q = BLOCK_ALLOC(newcap);
  __CPROVER_assume(q != L_NULL);
  if (a->data != L_NULL) {
    if (g_idx >= 0 && g_idx < a->count && g_idx < newcap) q[g_idx] = a->data[g_idx];
    if (g_idx2 >= 0 && g_idx2 < a->count && g_idx2 < newcap) q[g_idx2] = a->data[g_idx2];
    free(a->data);
  }
  a->data = q; a->capacity = newcap; g_grown++;
}
void janet_array_ensure_stub(JanetArray *a, int32_t capacity, int32_t growth) {
  __CPROVER_assert(a == g_arr, "janet_array_ensure: called on the destination array");
  __CPROVER_assert(growth >= 1, "janet_array_ensure precondition: growth >= 1");
  if (capacity <= a->capacity) return;
  int64_t nc = (int64_t)capacity * growth;
  grow(a, nc > INT32_MAX ? INT32_MAX : (int32_t)nc);
}
void janet_array_push_stub(JanetArray *a, Janet x) {
  __CPROVER_assert(a == g_arr, "janet_array_push: called on the destination array");
  if (a->count == INT32_MAX) __CPROVER_assume(0);                /* raises "array overflow" */
  if (a->count + 1 > a->capacity) grow(a, a->count + 1 > INT32_MAX / 2 ? INT32_MAX : 2 * (a->count + 1));
  a->data[a->count] = x;
  a->count++;
}

int32_t g_oldcount, g_oldcap; uint64_t g_val; int g_val_set;
static Janet *mk_args(int self_any_size) {
  g_argc = nd_i32();
#ifdef LIB_ARGC
  __CPROVER_assume(g_argc == LIB_ARGC);      /* one unit per argument count */
#else
  __CPROVER_assume(g_argc >= 0 && g_argc <= 3);
#endif
  Janet *argv = malloc((size_t)g_argc * sizeof(Janet));
  __CPROVER_assume(argv != L_NULL);
  g_arr = malloc(sizeof(JanetArray));
  __CPROVER_assume(g_arr != L_NULL && g_arr->count >= 0 && g_arr->count <= g_arr->capacity);
#ifdef LIB_BLOCK
  __CPROVER_assume(g_arr->capacity <= LIB_MAXCAP);
#endif
  if (g_arr->capacity > 0) { g_arr->data = BLOCK_ALLOC(g_arr->capacity); __CPROVER_assume(g_arr->data != L_NULL); } else g_arr->data = L_NULL;
  g_part.len = nd_i32();
  __CPROVER_assume(g_part.len >= 0 && g_part.len <= LIB_MAXPART);
  Janet *items = BLOCK_ALLOC(g_part.len);
  __CPROVER_assume(items != L_NULL);
  g_part.items = items;
  g_idx = nd_i32(); g_idx2 = nd_i32(); g_j = nd_i32(); g_grown = 0;
  if (g_argc > 0) { __CPROVER_assume(janet_checktype(argv[0], JANET_ARRAY)); g_self_bits = argv[0].u64; }
  /* representation invariant of a nanboxed value: its tag bits are those of its type (NaN payloads other than the
   * canonical tags - e.g. a quiet NaN with the sign bit clear - are never produced by janet_wrap_*) */
  for (int k = 1; k < 3; k++) if (k < g_argc) __CPROVER_assume(janet_checktype(argv[k], janet_type(argv[k])));
  g_oldcount = g_arr->count; g_oldcap = g_arr->capacity;
  g_val_set = 0;
  if (g_idx >= 0 && g_idx < g_oldcount) { g_val = g_arr->data[g_idx].u64; g_val_set = 1; }
  return argv;
}
#define IS_IDX(x) (janet_checktype((x), JANET_ARRAY) || janet_checktype((x), JANET_TUPLE))
#define IS_SELF(x) (janet_checktype((x), JANET_ARRAY) && (x).u64 == g_self_bits)
#define N_OF(k, cur) ((int64_t)(g_argc > (k) ? (!IS_IDX(argv[k]) ? 1 : IS_SELF(argv[k]) ? (cur) : g_part.len) : 0))
static void check_part(Janet *argv, int k, int64_t start) {
  if (g_argc <= k) return;
  if (!IS_IDX(argv[k])) {
    if (start == g_idx) __CPROVER_assert(g_arr->data[g_idx].u64 == argv[k].u64, "C17: a part that is no array or tuple is appended as one element");
  } else if (!IS_SELF(argv[k])) {
    if (g_j >= 0 && g_j < g_part.len && start + g_j == g_idx) __CPROVER_assert(g_arr->data[g_idx].u64 == g_part.items[g_j].u64, "C17: the elements of an array / tuple part are appended in order");
  } else {
    if (g_idx2 >= 0 && g_idx2 < start && start + g_idx2 == g_idx) __CPROVER_assert(g_arr->data[g_idx].u64 == g_arr->data[g_idx2].u64, "C17: the array appended to itself contributes its elements at that moment, in order");
  }
}
static void check_result(Janet *argv, Janet r, int join) {
  __CPROVER_assert(g_argc >= 1 && r.u64 == janet_wrap_array(g_arr).u64, "C17: returns the destination array");
  __CPROVER_assert(g_arr->count >= 0 && g_arr->count <= g_arr->capacity && (g_arr->capacity == 0 || __CPROVER_rw_ok(g_arr->data, BLOCK_ELEMS(g_arr->capacity) * sizeof(Janet))), "C04: the array is well formed afterwards");
  int64_t n1 = N_OF(1, g_oldcount), c1 = g_oldcount + n1, n2 = N_OF(2, c1);
  __CPROVER_assert((int64_t)g_arr->count == c1 + n2, "C17: the new length is the old length plus the number of elements contributed by the parts");
  if (g_val_set) __CPROVER_assert(g_arr->data[g_idx].u64 == g_val, "C17: the elements already in the array are unchanged");
  if (join) __CPROVER_assert((g_argc <= 1 || IS_IDX(argv[1])) && (g_argc <= 2 || IS_IDX(argv[2])), "C17: array/join returns only when every part is an array or tuple");
  check_part(argv, 1, g_oldcount);
  check_part(argv, 2, c1);
}
/* bound: a part that is the array itself is unwound like any other part */
#define SELF_BOUND(argv) \
  if (g_argc > 1 && IS_SELF(argv[1])) __CPROVER_assume(g_arr->count <= LIB_MAXPART); \
  if (g_argc > 2 && IS_SELF(argv[2])) __CPROVER_assume((int64_t)g_arr->count + N_OF(1, g_arr->count) <= LIB_MAXPART)
#ifndef LIB_ARGC
#define LIB_ARGC 3
#endif
#define H_CONCAT(fn, lisp, join) \
void h_##fn(void) { \
  Janet *argv = mk_args(0); \
  SELF_BOUND(argv); \
  Janet r = cfun_##fn(g_argc, argv); \
  REACH(lisp " returns"); \
  check_result(argv, r, join); \
  H_CONCAT_MARKERS(lisp) \
}
#if LIB_ARGC == 3
#define H_CONCAT_MARKERS(lisp) \
  if (IS_SELF(argv[1]) && IS_IDX(argv[2]) && !IS_SELF(argv[2]) && g_oldcount == 2 && g_part.len == 2 && g_grown) REACH(lisp " returns after appending the array to itself and another sequence"); \
  if (IS_IDX(argv[1]) && !IS_SELF(argv[1]) && IS_SELF(argv[2]) && g_grown && g_arr->count == 4) REACH(lisp " returns after appending a sequence and the grown array to itself");
#elif LIB_ARGC == 2
#define H_CONCAT_MARKERS(lisp) \
  if (IS_SELF(argv[1]) && g_oldcount == 2 && g_grown) REACH(lisp " returns after appending the array to itself with reallocation"); \
  if (IS_SELF(argv[1]) && g_oldcount == 1 && !g_grown) REACH(lisp " returns after appending the array to itself in place"); \
  if (IS_IDX(argv[1]) && !IS_SELF(argv[1]) && g_part.len == 2) REACH(lisp " returns after appending another sequence");
#else
#define H_CONCAT_MARKERS(lisp) if (g_arr->count == g_oldcount) REACH(lisp " returns the unchanged array for no parts");
#endif
H_CONCAT(array_concat, "array/concat", 0)
H_CONCAT(array_join, "array/join", 1)
/* the array appended to itself, ANY size: the reservation arithmetic and the liveness of the element view. The copy loop
 * is cut after LIB_SELF_STEPS iterations (no unwinding assertion): obligations of interest are the signed-overflow check
 * on `array->count + len` and the pointer checks on vals[j]. */
void h_array_concat_self(void) {
  Janet *argv = mk_args(1);
  __CPROVER_assume(g_argc == 2);
  argv[1] = argv[0];
#ifdef LIB_JOIN
  cfun_array_join(g_argc, argv);
#else
  cfun_array_concat(g_argc, argv);
#endif
  if (g_oldcount == 1) {
    REACH("self-concat of a one-element array returns");
    __CPROVER_assert(g_arr->count == 2 && g_arr->data[1].u64 == g_arr->data[0].u64, "C17: a one-element array appended to itself has its element twice");
  }
}
