/* C05 resume eligibility: janet_check_can_resume (vm.c, static) under a dfcc contract.
 * "a finished fiber can never be resumed again": for every fiber whose status is DEAD or ERROR the function returns the
 * error signal, the fiber stays finished, and nothing of the fiber but (on the recursion-limit path) its status is written -
 * frames, stack, child, env, last_value are outside the assigns clause. */
#include "fib_resume.h"

#ifndef FIB_NO_MSG
/* message construction: assumed to return some string and to have no side effect on the fiber or the VM registers */
const uint8_t *fib_formatc_c(const char *format, ...) __CPROVER_requires(1) __CPROVER_assigns() __CPROVER_ensures(1);
const uint8_t *fib_cstring_c(const char *str) __CPROVER_requires(1) __CPROVER_assigns() __CPROVER_ensures(1);
#endif

static JanetSignal check_can_resume_c(JanetFiber *fiber, Janet *out, int is_cancel)
__CPROVER_requires(__CPROVER_is_fresh(fiber, sizeof(JanetFiber)))
__CPROVER_requires(__CPROVER_is_fresh(out, sizeof(Janet)))
__CPROVER_requires(WF_STATUS(fiber->flags))
/* frame condition: only *out and the flag word; janet_vm (fiber, stackn, root_fiber) and every other fiber field are untouched */
__CPROVER_assigns(*out, fiber->flags)
/* the answer is OK or ERROR, never another signal */
__CPROVER_ensures(__CPROVER_return_value == JANET_SIGNAL_OK || __CPROVER_return_value == JANET_SIGNAL_ERROR)
/* a finished fiber can never be resumed again - and it stays finished */
__CPROVER_ensures(FIB_FINISHED(FIB_ST(__CPROVER_old(fiber->flags))) ==>
                  (__CPROVER_return_value == JANET_SIGNAL_ERROR && FIB_FINISHED(FIB_ST(fiber->flags))))
/* terminated by user0..user4, or already running: refused as well */
__CPROVER_ensures((FIB_TERMINATED(FIB_ST(__CPROVER_old(fiber->flags))) || FIB_ST(__CPROVER_old(fiber->flags)) == JANET_STATUS_ALIVE) ==>
                  __CPROVER_return_value == JANET_SIGNAL_ERROR)
/* exact characterisation of acceptance: new/suspended, below the C recursion limit, not a root (task) fiber seen from inside a fiber */
__CPROVER_ensures((__CPROVER_return_value == JANET_SIGNAL_OK) ==
                  (FIB_RESUMABLE(FIB_ST(__CPROVER_old(fiber->flags))) && janet_vm.stackn < JANET_RECURSION_GUARD &&
                   !(janet_vm.fiber != NULL && (fiber->gc.flags & JANET_FIBER_FLAG_ROOT))))
/* the fiber is left untouched: flag word unchanged, except that the recursion limit marks the fiber as errored (status only) */
__CPROVER_ensures(janet_vm.stackn < JANET_RECURSION_GUARD ==> fiber->flags == __CPROVER_old(fiber->flags))
__CPROVER_ensures(janet_vm.stackn >= JANET_RECURSION_GUARD ==>
                  (FIB_ST(fiber->flags) == JANET_STATUS_ERROR && FIB_OTHER(fiber->flags) == FIB_OTHER(__CPROVER_old(fiber->flags))))
;

void h_check_can_resume(void) {
  JanetFiber *f; Janet *out;
  JanetSignal s = janet_check_can_resume(f, out, nd_int());
  REACH("janet_check_can_resume returns");
  if (s == JANET_SIGNAL_OK) REACH("janet_check_can_resume accepts a fiber");
}
