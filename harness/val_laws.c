/* C03: equality, hashing and ordering agree - scalar laws on the REAL janet_equals / janet_hash / janet_compare of value.c.
 *
 * Operands are symbolic 64-bit NaN-boxed Janet values (all 2^64 bit patterns per operand that satisfy the
 * representation invariant below).  The laws are hyper-properties (2 or 3 calls of the real function), so they are
 * stated as lemma harnesses in plain mode rather than as a single-call contract; the postconditions are the algebraic
 * laws of the property statement, not a restatement of the code.
 *
 * Representation invariant of a Janet (janet.h, NANBOX 64; every janet_wrap_* produces this):
 *   either the 64 bits are a non-NaN double (type NUMBER), or the top 13 bits are all ones (sign, exponent, quiet bit)
 *   followed by the 4-bit type tag and a 47-bit payload.
 * Precondition of the property ("on all values other than NaN"): a NaN bit pattern with tag NUMBER is excluded.
 * Domain of these units: every type whose equality/hash/order does not dereference the payload:
 *   number, nil, boolean, fiber, array, table, buffer, function, cfunction, pointer   (V_SCALAR)
 *   plus symbol, keyword for janet_equals only (identity of the interned pointer)      (V_IDENT)
 * Pointer payloads are opaque 47-bit values (never dereferenced on these paths).
 * The traversal stack is empty (janet_vm.traversal_base == NULL, its initial value): traversal_next returns at once. */
#include "prelude.h"

#define V_BOXED(x)   (((x).u64 >> 51) == 0x1FFFu)
#define V_WF(x)      (!isnan((x).number) || (V_BOXED(x) && janet_type(x) != JANET_NUMBER))
#define V_TY(x, t)   (janet_type(x) == (t))
#define V_IDTYPE(x)  (V_TY(x, JANET_FIBER) || V_TY(x, JANET_ARRAY) || V_TY(x, JANET_TABLE) || V_TY(x, JANET_BUFFER) || \
                      V_TY(x, JANET_FUNCTION) || V_TY(x, JANET_CFUNCTION) || V_TY(x, JANET_POINTER))
#define V_SCALAR(x)  (V_WF(x) && (V_TY(x, JANET_NUMBER) || V_TY(x, JANET_NIL) || V_TY(x, JANET_BOOLEAN) || V_IDTYPE(x)))
#define V_IDENT(x)   (V_WF(x) && (V_SCALAR(x) || V_TY(x, JANET_SYMBOL) || V_TY(x, JANET_KEYWORD)))

static Janet v_any(void) { Janet x; x.u64 = nd_u64(); return x; }
static void v_init(void) { janet_vm.traversal_base = NULL; janet_vm.traversal = NULL; janet_vm.traversal_top = NULL; }

/* ---- janet_equals is an equivalence relation ---- */
void h_eq_refl(void) {
  v_init(); Janet x = v_any();
  __CPROVER_assume(V_IDENT(x));
  int r = janet_equals(x, x);
  __CPROVER_assert(r == 1, "C03 = is reflexive on every non-NaN value");
  REACH("janet_equals returns");
}
void h_eq_sym(void) {
  v_init(); Janet x = v_any(), y = v_any();
  __CPROVER_assume(V_IDENT(x) && V_IDENT(y));
  int a = janet_equals(x, y), b = janet_equals(y, x);
  __CPROVER_assert(a == b, "C03 = is symmetric");
  __CPROVER_assert(a == 0 || a == 1, "C03 = yields a boolean");
  REACH("janet_equals returns");
}
void h_eq_trans(void) {
  v_init(); Janet x = v_any(), y = v_any(), z = v_any();
  __CPROVER_assume(V_IDENT(x) && V_IDENT(y) && V_IDENT(z));
  int a = janet_equals(x, y), b = janet_equals(y, z), c = janet_equals(x, z);
  __CPROVER_assert(!(a && b) || c, "C03 = is transitive");
  REACH("janet_equals returns");
}
/* arrays, tables, buffers, functions, fibers (cfunctions, pointers, symbols, keywords) compare by identity;
 * values of different types are never equal */
void h_eq_identity(void) {
  v_init(); Janet x = v_any(), y = v_any();
  __CPROVER_assume(V_IDENT(x) && V_IDENT(y));
  int a = janet_equals(x, y);
  if (janet_type(x) != janet_type(y)) __CPROVER_assert(a == 0, "C03 values of different types are never =");
  if (V_IDTYPE(x) || V_TY(x, JANET_SYMBOL) || V_TY(x, JANET_KEYWORD))
    __CPROVER_assert(a == (x.u64 == y.u64), "C03 reference types are = exactly when they are the same object (identity)");
  if (V_TY(x, JANET_NUMBER) && V_TY(y, JANET_NUMBER))
    __CPROVER_assert(a == (x.number == y.number), "C03 numbers are = exactly when numerically equal");
  REACH("janet_equals returns");
}

/* ---- equal values have equal hashes (pins the -0.0 / +0.0 normalisation) ---- */
/* "x = y implies hash(x) == hash(y)", all scalar pairs.  Equal pairs are either bit-identical or not:
 *  - NOT bit-identical: proved to be exactly {-0.0,+0.0}, two nils or two booleans with the same truth value (whatever
 *    their payload bits), and for those the two hashes are proved equal by the solver - this is the content of the law
 *    (the -0.0/+0.0 normalisation in janet_hash);
 *  - bit-identical: janet_hash(x) and janet_hash(y) are the same computation on the same 64 bits (janet_hash takes its
 *    operand by value and reads no other state on these paths).  This half is NOT a solver obligation: no installed solver
 *    proves two separate instances of the 64-bit murmur mix / the FP adder equal from `x.u64 == y.u64`, not even
 *    hash(x) == hash(copy of x), within 5 min (probed: minisat, cadical, z3) - listed under undecided_clauses. */
void h_eq_hash(void) {
  v_init(); Janet x = v_any(), y = v_any();
  __CPROVER_assume(V_SCALAR(x) && V_SCALAR(y));
  int a = janet_equals(x, y);
  int32_t hx = janet_hash(x), hy = janet_hash(y);
  if (a && x.u64 != y.u64) {
    __CPROVER_assert(janet_type(x) == janet_type(y) &&
                     ((V_TY(x, JANET_NUMBER) && x.number == 0.0 && y.number == 0.0) || V_TY(x, JANET_NIL) ||
                      (V_TY(x, JANET_BOOLEAN) && ((x.u64 ^ y.u64) & 1) == 0)),
                     "C03 equal values that are not bit-identical are -0.0/+0.0, two nils or two equal booleans");
    __CPROVER_assert(hx == hy, "C03 equal values have equal hashes (-0.0 = +0.0, nil, booleans)");
  }
  REACH("janet_hash returns");
}

/* ---- janet_compare is one total order whose notion of equal coincides with = ---- */
void h_cmp_antisym(void) {
  v_init(); Janet x = v_any(), y = v_any();
  __CPROVER_assume(V_SCALAR(x) && V_SCALAR(y));
  int a = janet_compare(x, y), b = janet_compare(y, x);
  __CPROVER_assert(a == -1 || a == 0 || a == 1, "C03 compare yields -1, 0 or 1");
  __CPROVER_assert(a == -b, "C03 compare is antisymmetric: compare(x,y) == -compare(y,x)");
  __CPROVER_assert(a <= 0 || b <= 0, "C03 compare is total: x <= y or y <= x");
  REACH("janet_compare returns");
}
void h_cmp_trans(void) {
  v_init(); Janet x = v_any(), y = v_any(), z = v_any();
  __CPROVER_assume(V_SCALAR(x) && V_SCALAR(y) && V_SCALAR(z));
  int a = janet_compare(x, y), b = janet_compare(y, z), c = janet_compare(x, z);
  __CPROVER_assert(!(a <= 0 && b <= 0) || c <= 0, "C03 compare is transitive: x <= y and y <= z imply x <= z");
  __CPROVER_assert(!(a <= 0 && b <= 0 && (a < 0 || b < 0)) || c < 0, "C03 compare is transitive (strict): x <= y <= z with one strict imply x < z");
  __CPROVER_assert(!(a == 0 && b == 0) || c == 0, "C03 compare: the 'equal' classes of the order are transitive");
  REACH("janet_compare returns");
}
void h_cmp_eq(void) {
  v_init(); Janet x = v_any(), y = v_any();
  __CPROVER_assume(V_SCALAR(x) && V_SCALAR(y));
  int a = janet_compare(x, y);
  int e = janet_equals(x, y);
  __CPROVER_assert((a == 0) == (e != 0), "C03 compare(x,y) == 0 exactly when x = y");
  REACH("janet_compare and janet_equals return");
}
/* the order on numbers is the numeric order, and reflexivity: compare(x,x) == 0 */
void h_cmp_num(void) {
  v_init(); Janet x = v_any(), y = v_any();
  __CPROVER_assume(V_SCALAR(x) && V_SCALAR(y));
  int a = janet_compare(x, y), r = janet_compare(x, x);
  __CPROVER_assert(r == 0, "C03 compare is reflexive: compare(x,x) == 0");
  if (V_TY(x, JANET_NUMBER) && V_TY(y, JANET_NUMBER))
    __CPROVER_assert(a == (x.number < y.number ? -1 : x.number > y.number ? 1 : 0), "C03 compare on numbers is the numeric order");
  REACH("janet_compare returns");
}

/* Callee stubs installed with --replace-calls: the paths that start a tuple/struct traversal or compare abstract
 * payloads are outside the scalar domain; the stubs PROVE that they are never taken (assert) and then stop. */
void v_no_push(void *lhs, void *rhs, int32_t index2) {
  __CPROVER_assert(0, "C03 scalar operands never start a tuple/struct traversal");
  __CPROVER_assume(0);
}
int v_no_abstract(JanetAbstract a, JanetAbstract b) {
  __CPROVER_assert(0, "C03 scalar operands never reach the abstract-type comparison");
  __CPROVER_assume(0);
  return 0;
}
