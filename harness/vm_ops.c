/* Single-instruction contracts on the REAL interpreter loop run_vm (vm.c) for the value-computing and data-movement
 * opcodes: the instruction-set specification that C15 (inlined core functions == called core functions) and
 * C02 (bytecode computes what the source means) rest on.  Same technique as vm_step.c:
 *
 *   vo_code[VO_PC0] = the instruction under proof (a CONSTANT word: operands are enumerated by case-splitting)
 *   every other word of vo_code = a word with the breakpoint bit (0x80)
 *
 * and the fiber is entered the way the debugger single-steps (RESUME_NO_USEVAL|RESUME_NO_SKIP): run_vm executes exactly
 * that one instruction and then stops at the next word (or at the jump target) with JANET_SIGNAL_DEBUG, unless the
 * instruction itself leaves the interpreter.  Slot contents (types and payloads), GC counters, auto-suspend are symbolic.
 * Every postcondition below is the documented meaning of the instruction (janet.h opcode list, corelib.c docstrings of
 * the operator that compiles to it), not a transcription of vm.c.
 *
 * One unit = one opcode; the opcode is selected with -DVO_xxx (see the table below). */
#include "prelude.h"

#ifndef VO_SLOTS
#define VO_SLOTS 4
#endif
#define VO_NCODE 8
#define VO_PC0 3
#ifndef VO_EXTRA
#define VO_EXTRA 4
#endif
/* frame header | slots | room for the next frame header | argument area */
#define VO_CAP (JANET_FRAME_SIZE + VO_SLOTS + JANET_FRAME_SIZE + VO_EXTRA)
#define VO_NDATA (VO_CAP - JANET_FRAME_SIZE)

static uint32_t vo_code[VO_NCODE];
static JanetFuncDef vo_def;
static JanetFunction vo_func0;
static JanetFunction *vo_func;
/* the stack block: one frame header followed by the slots (typed so that header accesses stay field accesses) */
static struct { JanetStackFrame fr; char pad[JANET_FRAME_SIZE * sizeof(Janet) - sizeof(JanetStackFrame)]; Janet slots[VO_NDATA]; } vo_mem;
#define vo_data ((Janet *) &vo_mem)
static JanetFiber vo_fiber;
static Janet vo_ret;
static Janet vo_old[VO_NDATA];
static uint32_t vo_a, vo_b, vo_c;

static int same(Janet a, Janet b) {
    return a.type == b.type && a.as.u64 == b.as.u64;
}
/* two numbers are the same IEEE value: both NaN (the payload of a NaN is not part of the language), or equal with the same sign of zero */
static int same_d(double a, double b) {
    return (__CPROVER_isnand(a) && __CPROVER_isnand(b)) || (a == b && __CPROVER_signd(a) == __CPROVER_signd(b));
}
static int is_num(Janet a, double d) { return a.type == JANET_NUMBER && same_d(a.as.number, d); }
static Janet vo_any(void) {
    Janet x;
    x.type = (JanetType) nd_int();
    __CPROVER_assume(x.type >= JANET_NUMBER && x.type <= JANET_POINTER);
    x.as.u64 = nd_u64();
    /* representation invariant of the two payload-less types (wrap.c): nil carries 0, a boolean carries 0 or 1 */
    /* (stated as assumptions, not assignments, so that the payload stays one plain symbol for the solver) */
    __CPROVER_assume(x.type != JANET_NIL || x.as.u64 == 0);
    __CPROVER_assume(x.type != JANET_BOOLEAN || x.as.u64 <= 1);
    return x;
}
static Janet vo_num(double d) { Janet x; x.type = JANET_NUMBER; x.as.u64 = 0; x.as.number = d; return x; }
static Janet vo_bool(int b) { Janet x; x.type = JANET_BOOLEAN; x.as.u64 = b ? 1 : 0; return x; }
static Janet vo_nil(void) { Janet x; x.type = JANET_NIL; x.as.u64 = 0; return x; }
static int vo_streq(const char *a, const char *b) {
    /* method names are at most 4 characters */
    for (int i = 0; i < 5; i++) { if (a[i] != b[i]) return 0; if (!a[i]) return 1; }
    return 0;
}
/* the frame is committed (pc written back) at the instruction: what a callee that raises, yields or collects sees */
#define vo_committed() (vo_mem.fr.pc == vo_code + VO_PC0)

/* ---------------- recording stubs = contracts of the callees ---------------- */
static int g_collect_calls;
void vo_collect_stub(void) { g_collect_calls++; }

static int g_binop_calls, g_mcall_calls, g_unary_calls, g_callee_committed;
static const char *g_lm, *g_rm;
static Janet g_lhs, g_rhs, g_res;
static int32_t g_argc;
/* generic (method) dispatch: any value comes back; may raise (then nothing is observed) */
Janet vo_binop_call_stub(const char *lmethod, const char *rmethod, Janet lhs, Janet rhs) {
    g_binop_calls++; g_lm = lmethod; g_rm = rmethod; g_lhs = lhs; g_rhs = rhs; g_callee_committed = vo_committed();
    g_res = vo_any();
    return g_res;
}
Janet vo_mcall_stub(const char *name, int32_t argc, Janet *argv) {
    g_mcall_calls++; g_lm = name; g_argc = argc; g_callee_committed = vo_committed();
    if (argc == 2) { g_lhs = argv[0]; g_rhs = argv[1]; }
    g_res = vo_any();
    return g_res;
}
Janet vo_unary_call_stub(const char *method, Janet arg) {
    g_unary_calls++; g_lm = method; g_lhs = arg; g_callee_committed = vo_committed();
    g_res = vo_any();
    return g_res;
}
static int g_fmod_calls; static double g_fmod_x, g_fmod_y, g_fmod_r;
double vo_fmod_stub(double x, double y) { g_fmod_calls++; g_fmod_x = x; g_fmod_y = y; g_fmod_r = nd_double(); return g_fmod_r; }

static int g_cmp_calls, g_eq_calls, g_cmp_r;
int vo_compare_stub(Janet x, Janet y) {
    g_cmp_calls++; g_lhs = x; g_rhs = y; g_callee_committed = vo_committed();
    g_cmp_r = nd_int();
    return g_cmp_r;
}
int vo_equals_stub(Janet x, Janet y) {
    g_eq_calls++; g_lhs = x; g_rhs = y;
    g_cmp_r = nd_int();
    return g_cmp_r;
}

/* data access: one recording stub per C API function; each may raise */
static int g_acc_calls, g_acc_which, g_acc_flag;
static Janet g_acc_ds, g_acc_key, g_acc_val;
static int32_t g_acc_index;
static uint32_t g_acc_fiber_flags;
enum { ACC_IN = 1, ACC_GET, ACC_PUT, ACC_GETINDEX, ACC_PUTINDEX, ACC_LENGTH, ACC_NEXT };
#define ACC_COMMON(w) g_acc_calls++; g_acc_which = (w); g_callee_committed = vo_committed(); g_acc_fiber_flags = vo_fiber.flags
Janet vo_in_stub(Janet ds, Janet key) { ACC_COMMON(ACC_IN); g_acc_ds = ds; g_acc_key = key; g_res = vo_any(); return g_res; }
Janet vo_get_stub(Janet ds, Janet key) { ACC_COMMON(ACC_GET); g_acc_ds = ds; g_acc_key = key; g_res = vo_any(); return g_res; }
void vo_put_stub(Janet ds, Janet key, Janet value) { ACC_COMMON(ACC_PUT); g_acc_ds = ds; g_acc_key = key; g_acc_val = value; }
Janet vo_getindex_stub(Janet ds, int32_t index) { ACC_COMMON(ACC_GETINDEX); g_acc_ds = ds; g_acc_index = index; g_res = vo_any(); return g_res; }
void vo_putindex_stub(Janet ds, int32_t index, Janet value) { ACC_COMMON(ACC_PUTINDEX); g_acc_ds = ds; g_acc_index = index; g_acc_val = value; }
Janet vo_lengthv_stub(Janet x) { ACC_COMMON(ACC_LENGTH); g_acc_ds = x; g_res = vo_any(); return g_res; }
Janet vo_next_stub(Janet ds, Janet key, int is_interpreter) { ACC_COMMON(ACC_NEXT); g_acc_ds = ds; g_acc_key = key; g_acc_flag = is_interpreter; g_res = vo_any(); return g_res; }

/* ---------------- set-up ---------------- */
#define VO_W(op, a, b, c) ((uint32_t)(op) | ((uint32_t)(a) << 8) | ((uint32_t)(b) << 16) | ((uint32_t)(c) << 24))
#define VO_WE(op, a, e) ((uint32_t)(op) | ((uint32_t)(a) << 8) | (((uint32_t)(e) & 0xFFFFu) << 16))
#define VO_WD(op, d) ((uint32_t)(op) | (((uint32_t)(d) & 0xFFFFFFu) << 8))

/* word is a CONSTANT at every call site */
static void vo_setup_word(uint32_t word) {
    for (int i = 0; i < VO_NCODE; i++) vo_code[i] = 0x80 | JOP_NOOP;
    vo_code[VO_PC0] = word;
#ifdef VO_TWO_STEP
    /* two-instruction variant: a NOOP runs first, so the interpreter's pc has moved away from the frame's pc when the instruction
     * under proof starts - "the frame is committed before a call that may raise" is then a real obligation (errors are attributed
     * to the line of the committed pc) */
    vo_code[VO_PC0 - 1] = JOP_NOOP;
#endif
    vo_def.bytecode = vo_code;
    vo_def.bytecode_length = VO_NCODE;
    vo_def.slotcount = VO_SLOTS;
    vo_def.constants = (Janet *)0;
    vo_def.constants_length = 0;
    vo_def.environments_length = 0;
    vo_def.defs_length = 0;
    vo_func0.def = &vo_def;
    vo_func = &vo_func0;
    vo_fiber.data = vo_data;
    vo_fiber.capacity = VO_CAP;
    vo_fiber.frame = JANET_FRAME_SIZE;
    vo_fiber.stackstart = JANET_FRAME_SIZE + VO_SLOTS + JANET_FRAME_SIZE;
    vo_fiber.stacktop = vo_fiber.stackstart;
    vo_fiber.maxstack = 1000;
    vo_fiber.child = (JanetFiber *)0;
    /* concrete: the breakpoint bit decides the first dispatch (vm.c: first_opcode) and must not be symbolic */
    vo_fiber.flags = JANET_FIBER_RESUME_NO_USEVAL | JANET_FIBER_RESUME_NO_SKIP | JANET_FIBER_MASK_ERROR;
    vo_fiber.gc.flags = JANET_MEMORY_FIBER | (JANET_STATUS_ALIVE << JANET_FIBER_STATUS_OFFSET);
    JanetStackFrame *fr = &vo_mem.fr;
    fr->func = vo_func;
    fr->pc = vo_code + VO_PC0;
#ifdef VO_TWO_STEP
    fr->pc = vo_code + VO_PC0 - 1;
#endif
    fr->env = (JanetFuncEnv *)0;
    fr->prevframe = 0;
    fr->flags = JANET_STACKFRAME_ENTRANCE;
    for (int i = 0; i < VO_NDATA; i++) {
        vo_mem.slots[i] = vo_any();
        vo_old[i] = vo_mem.slots[i];
    }
    janet_vm.auto_suspend = nd_int();
    janet_vm.next_collection = nd_size();
    janet_vm.gc_interval = nd_size();
    janet_vm.fiber = &vo_fiber;
    janet_vm.return_reg = &vo_ret;
    g_collect_calls = g_binop_calls = g_mcall_calls = g_unary_calls = g_fmod_calls = g_cmp_calls = g_eq_calls = g_acc_calls = 0;
}
static void vo_setup(uint32_t word, uint32_t a, uint32_t b, uint32_t c) {
    vo_a = a; vo_b = b; vo_c = c;
    vo_setup_word(word);
}
static JanetSignal vo_run(void) {
    Janet in; in.type = JANET_NIL; in.as.u64 = 0;
    return run_vm(&vo_fiber, in);
}

static void vo_frame_intact(void) {
    JanetStackFrame *fr = &vo_mem.fr;
    __CPROVER_assert(fr->func == vo_func && fr->prevframe == 0 && fr->env == (JanetFuncEnv *)0, "vm.op: the frame header is untouched");
    __CPROVER_assert(vo_fiber.frame == JANET_FRAME_SIZE && vo_fiber.data == vo_data, "vm.op: the fiber keeps its frame");
    __CPROVER_assert(vo_fiber.stackstart == JANET_FRAME_SIZE + VO_SLOTS + JANET_FRAME_SIZE && vo_fiber.stacktop == vo_fiber.stackstart, "vm.op: the argument area stays empty");
    __CPROVER_assert(vo_fiber.child == (JanetFiber *)0, "vm.op: no child fiber is chained");
}
/* the instruction completed and execution continues `off` words from it */
static void vo_continues_at(JanetSignal sig, int off) {
    __CPROVER_assert(sig == JANET_SIGNAL_DEBUG, "vm.op: the instruction does not leave the interpreter");
    __CPROVER_assert(vo_mem.fr.pc == vo_code + VO_PC0 + off, "vm.op: execution continues at the documented next instruction");
    vo_frame_intact();
}
/* every stack cell other than `except` keeps its value (slots and everything above them) */
static void vo_others_kept(uint32_t except) {
    /* constant indices only: a symbolic index would turn the stack into an SMT array and defeat the solver's simplifier */
    for (uint32_t k = 0; k < VO_NDATA; k++)
        if (k != except) __CPROVER_assert(same(vo_mem.slots[k], vo_old[k]), "vm.op: every other slot keeps its value");
}

/* every aliasing pattern of three operand registers (destination, operand 1, operand 2) */
#define VO_PATTERNS3(CALL) do { int k = nd_int(); \
    if (k == 0) { CALL(0, 1, 2); } else if (k == 1) { CALL(1, 1, 2); } else if (k == 2) { CALL(2, 1, 2); } \
    else if (k == 3) { CALL(0, 1, 1); } else if (k == 4) { CALL(1, 1, 1); } else { CALL(3, 0, 2); } } while (0)
/* destination/operand patterns x a spread of signed-byte immediates (the third byte is the two's complement of imm) */
#define VO_PATTERNS_IMM(CALL) do { int k = nd_int(); \
    if (k == 0) { CALL(0, 1, -128); } else if (k == 1) { CALL(0, 1, -1); } else if (k == 2) { CALL(0, 1, 0); } \
    else if (k == 3) { CALL(0, 1, 1); } else if (k == 4) { CALL(0, 1, 127); } \
    else if (k == 5) { CALL(1, 1, -128); } else if (k == 6) { CALL(1, 1, -1); } else if (k == 7) { CALL(1, 1, 0); } \
    else if (k == 8) { CALL(1, 1, 2); } else if (k == 9) { CALL(1, 1, 127); } \
    else if (k == 10) { CALL(3, 0, -2); } else if (k == 11) { CALL(2, 3, 31); } else if (k == 12) { CALL(3, 2, 32); } else { CALL(2, 0, 100); } } while (0)

/* =====================================================================================================
 * Group 1: arithmetic on two numbers.   Table: opcode, immediate opcode, IEEE result, method names
 * ===================================================================================================== */
static double vo_mod_spec(double x, double y) { if (y == 0) return x; return x - y * floor(x / y); }
#if defined(VO_ADD)
#define VO_OP JOP_ADD
#define VO_OPI JOP_ADD_IMMEDIATE
#define VO_EXPECT(x, y) ((x) + (y))
#define VO_LM "+"
#define VO_RM "r+"
#elif defined(VO_SUB)
#define VO_OP JOP_SUBTRACT
#define VO_OPI JOP_SUBTRACT_IMMEDIATE
#define VO_EXPECT(x, y) ((x) - (y))
#define VO_LM "-"
#define VO_RM "r-"
#elif defined(VO_MUL)
#define VO_OP JOP_MULTIPLY
#define VO_OPI JOP_MULTIPLY_IMMEDIATE
#define VO_EXPECT(x, y) ((x) * (y))
#define VO_LM "*"
#define VO_RM "r*"
#elif defined(VO_DIV)
#define VO_OP JOP_DIVIDE
#define VO_OPI JOP_DIVIDE_IMMEDIATE
#define VO_EXPECT(x, y) ((x) / (y))
#define VO_LM "/"
#define VO_RM "r/"
#elif defined(VO_DIVF)
#define VO_OP JOP_DIVIDE_FLOOR
#define VO_EXPECT(x, y) floor((x) / (y))
#define VO_LM "div"
#define VO_RM "rdiv"
#elif defined(VO_MOD)
#define VO_OP JOP_MODULO
#define VO_EXPECT(x, y) vo_mod_spec((x), (y))
#define VO_LM "mod"
#define VO_RM "rmod"
#elif defined(VO_REM)
#define VO_OP JOP_REMAINDER
#define VO_FMOD 1
#define VO_LM "%"
#define VO_RM "r%"
#endif

/* table of group 2 (bitwise), see below for the contracts */
#if defined(VO_BAND)
#define VO_BOP JOP_BAND
#define VO_BIT(x, n) ((x) & (n))
#define VO_LM "&"
#define VO_RM "r&"
#elif defined(VO_BOR)
#define VO_BOP JOP_BOR
#define VO_BIT(x, n) ((x) | (n))
#define VO_LM "|"
#define VO_RM "r|"
#elif defined(VO_BXOR)
#define VO_BOP JOP_BXOR
#define VO_BIT(x, n) ((x) ^ (n))
#define VO_LM "^"
#define VO_RM "r^"
#elif defined(VO_SHL)
#define VO_BOP JOP_SHIFT_LEFT
#define VO_BOPI JOP_SHIFT_LEFT_IMMEDIATE
#define VO_SHIFT 1
#define VO_BIT(x, n) ((int32_t)((uint32_t)(x) << (n)))
#define VO_LM "<<"
#define VO_RM "r<<"
#elif defined(VO_SHR)
#define VO_BOP JOP_SHIFT_RIGHT
#define VO_BOPI JOP_SHIFT_RIGHT_IMMEDIATE
#define VO_SHIFT 1
#define VO_BIT(x, n) vo_sar((x), (n))
#define VO_LM ">>"
#define VO_RM "r>>"
#elif defined(VO_SHRU)
#define VO_BOP JOP_SHIFT_RIGHT_UNSIGNED
#define VO_BOPI JOP_SHIFT_RIGHT_UNSIGNED_IMMEDIATE
#define VO_SHIFT 1
#define VO_UNSIGNED 1
#define VO_BIT(x, n) ((uint32_t)(x) >> (n))
#define VO_LM ">>"
#define VO_RM "r>>"
#endif


#ifdef VO_LM
/* shared by arithmetic and bitwise: the generic path of a two-register instruction */
static void vo_generic2(Janet x, Janet y) {
    __CPROVER_assert(g_binop_calls == 1 && g_mcall_calls == 0 && g_unary_calls == 0, "vm.op: a non-number operand goes to generic method dispatch exactly once");
    __CPROVER_assert(vo_streq(g_lm, VO_LM) && vo_streq(g_rm, VO_RM), "vm.op: generic dispatch uses the operator's method names");
    __CPROVER_assert(same(g_lhs, x) && same(g_rhs, y), "vm.op: generic dispatch receives the two operands in order, unchanged");
    __CPROVER_assert(g_callee_committed, "vm.op: the frame is committed before generic dispatch (which may raise)");
    __CPROVER_assert(same(vo_mem.slots[vo_a], g_res), "vm.op: the result of generic dispatch arrives unchanged in the destination slot");
}
static void vo_generic_imm(Janet x, int imm) {
    __CPROVER_assert(g_mcall_calls == 1 && g_binop_calls == 0 && g_unary_calls == 0, "vm.op: a non-number operand goes to generic method dispatch exactly once");
    __CPROVER_assert(vo_streq(g_lm, VO_LM) && g_argc == 2, "vm.op: generic dispatch uses the operator's method name with two arguments");
    __CPROVER_assert(same(g_lhs, x) && same(g_rhs, vo_num((double) imm)), "vm.op: generic dispatch receives the operand and then the immediate as a number");
    __CPROVER_assert(g_callee_committed, "vm.op: the frame is committed before generic dispatch (which may raise)");
    __CPROVER_assert(same(vo_mem.slots[vo_a], g_res), "vm.op: the result of generic dispatch arrives unchanged in the destination slot");
}
#define vo_no_generic() __CPROVER_assert(g_binop_calls == 0 && g_mcall_calls == 0 && g_unary_calls == 0, "vm.op: numbers never reach generic dispatch")
#endif

#if defined(VO_EXPECT) || defined(VO_FMOD)
static void vo_arith(uint32_t a, uint32_t b, uint32_t c) {
    vo_setup(VO_W(VO_OP, a, b, c), a, b, c);
    JanetSignal sig = vo_run();
    vo_continues_at(sig, 1);
    Janet x = vo_old[b], y = vo_old[c];
    if (x.type == JANET_NUMBER && y.type == JANET_NUMBER) {
        vo_no_generic();
#ifdef VO_FMOD
        __CPROVER_assert(g_fmod_calls == 1 && same_d(g_fmod_x, x.as.number) && same_d(g_fmod_y, y.as.number), "vm.op: the remainder of two numbers is C fmod of the operands in order");
        __CPROVER_assert(is_num(vo_mem.slots[a], g_fmod_r), "vm.op: the destination holds exactly the fmod result");
#else
        __CPROVER_assert(is_num(vo_mem.slots[a], VO_EXPECT(x.as.number, y.as.number)), "vm.op: the destination holds exactly the IEEE double result of the operator on the two operands");
#endif
        REACH("vm.op arith: two numbers");
    } else {
        vo_generic2(x, y);
        REACH("vm.op arith: generic dispatch");
    }
    vo_others_kept(a);
}
void h_vo_arith(void) { VO_PATTERNS3(vo_arith); }
#endif

#if defined(VO_EXPECT) && defined(VO_OPI)
static void vo_arith_imm(uint32_t a, uint32_t b, int imm) {
    vo_setup(VO_W(VO_OPI, a, b, (uint8_t) imm), a, b, 0);
    JanetSignal sig = vo_run();
    vo_continues_at(sig, 1);
    Janet x = vo_old[b];
    if (x.type == JANET_NUMBER) {
        vo_no_generic();
        __CPROVER_assert(is_num(vo_mem.slots[a], VO_EXPECT(x.as.number, (double) imm)), "vm.op: the destination holds exactly the IEEE double result of the operator on the operand and the immediate");
        REACH("vm.op arith immediate: number");
    } else {
        vo_generic_imm(x, imm);
        REACH("vm.op arith immediate: generic dispatch");
    }
    vo_others_kept(a);
}
void h_vo_arith_imm(void) { VO_PATTERNS_IMM(vo_arith_imm); }
#endif

/* =====================================================================================================
 * Group 2: bitwise operators on 32-bit integers.
 * Documented meaning (corelib.c): "each x must be an integer"; the value is the int32 operation on the operands
 * (brushift: the first operand is taken as an unsigned 32-bit integer and the result is unsigned).
 * Shift distances 0..31 are the defined ones.
 * ===================================================================================================== */
static int vo_is_i32(double d) { return d >= -2147483648.0 && d <= 2147483647.0 && d == (double)(int32_t) d; }
static int vo_is_u32(double d) { return d >= 0.0 && d <= 4294967295.0 && d == (double)(uint32_t) d; }
/* arithmetic shift right written without relying on >> of a negative value */
static int32_t vo_sar(int32_t x, int32_t n) { return x < 0 ? (int32_t) ~((~(uint32_t) x) >> n) : (int32_t)((uint32_t) x >> n); }
#ifdef VO_BOP
#ifdef VO_UNSIGNED
typedef uint32_t vo_int_t;
#define VO_LHS_OK vo_is_u32
#else
typedef int32_t vo_int_t;
#define VO_LHS_OK vo_is_i32
#endif
static void vo_bit_result(uint32_t a, double xd, int32_t n) {
    __CPROVER_assert(VO_LHS_OK(xd), "vm.op: a first operand that is not a 32-bit integer of the operator's signedness raises");
    if (VO_LHS_OK(xd)) {
        vo_int_t xi = (vo_int_t) xd;
#ifdef VO_SHIFT
        if (n >= 0 && n <= 31)
#endif
            __CPROVER_assert(is_num(vo_mem.slots[a], (double) VO_BIT(xi, n)), "vm.op: the destination holds exactly the 32-bit integer result of the operator, as a number");
    }
    __CPROVER_assert(vo_mem.slots[a].type == JANET_NUMBER, "vm.op: a bitwise operator on numbers yields a number");
}
static void vo_bitop(uint32_t a, uint32_t b, uint32_t c) {
    vo_setup(VO_W(VO_BOP, a, b, c), a, b, c);
    JanetSignal sig = vo_run();
    vo_continues_at(sig, 1);
    Janet x = vo_old[b], y = vo_old[c];
    if (x.type == JANET_NUMBER && y.type == JANET_NUMBER) {
        vo_no_generic();
        __CPROVER_assert(vo_is_i32(y.as.number), "vm.op: a second operand that is not a 32-bit signed integer raises");
        if (vo_is_i32(y.as.number)) vo_bit_result(a, x.as.number, (int32_t) y.as.number);
        REACH("vm.op bitop: two numbers");
    } else {
        vo_generic2(x, y);
        REACH("vm.op bitop: generic dispatch");
    }
    vo_others_kept(a);
}
void h_vo_bitop(void) { VO_PATTERNS3(vo_bitop); }
#ifdef VO_BOPI
static void vo_bitop_imm(uint32_t a, uint32_t b, int imm) {
    vo_setup(VO_W(VO_BOPI, a, b, (uint8_t) imm), a, b, 0);
    JanetSignal sig = vo_run();
    vo_continues_at(sig, 1);
    Janet x = vo_old[b];
    if (x.type == JANET_NUMBER) {
        vo_no_generic();
        vo_bit_result(a, x.as.number, imm);
        REACH("vm.op bitop immediate: number");
    } else {
        vo_generic_imm(x, imm);
        REACH("vm.op bitop immediate: generic dispatch");
    }
    vo_others_kept(a);
}
/* shift distances: the defined range 0..31 and its edges, plus the other immediates the compiler can emit */
#define VO_PATTERNS_SHIFT(CALL) do { int k = nd_int(); \
    if (k == 0) { CALL(0, 1, 0); } else if (k == 1) { CALL(0, 1, 1); } else if (k == 2) { CALL(0, 1, 31); } else if (k == 3) { CALL(0, 1, 16); } \
    else if (k == 4) { CALL(1, 1, 0); } else if (k == 5) { CALL(1, 1, 5); } else if (k == 6) { CALL(1, 1, 31); } \
    else if (k == 7) { CALL(3, 0, 7); } else if (k == 8) { CALL(0, 1, 32); } else if (k == 9) { CALL(0, 1, -1); } else if (k == 10) { CALL(0, 1, 127); } else { CALL(0, 1, -128); } } while (0)
void h_vo_bitop_imm(void) { VO_PATTERNS_SHIFT(vo_bitop_imm); }
#endif
#endif

#ifdef VO_BNOT
/* JOP_BNOT: A = destination, E = operand */
static void vo_bnot(uint32_t a, uint32_t e) {
    vo_setup(VO_WE(JOP_BNOT, a, e), a, e, 0);
    JanetSignal sig = vo_run();
    vo_continues_at(sig, 1);
    Janet x = vo_old[e];
    if (x.type == JANET_NUMBER) {
        __CPROVER_assert(g_binop_calls == 0 && g_mcall_calls == 0 && g_unary_calls == 0, "vm.op: numbers never reach generic dispatch");
#ifdef VO_BNOT_RANGE
        __CPROVER_assert(vo_is_i32(x.as.number), "vm.op: bnot of a number that is not a 32-bit signed integer raises (as band, bor, bxor do)");
#endif
        if (vo_is_i32(x.as.number))
            __CPROVER_assert(is_num(vo_mem.slots[a], (double) ~(int32_t) x.as.number), "vm.op: the destination holds exactly the bit-wise inverse of the 32-bit integer, as a number");
        REACH("vm.op bnot: number");
    } else {
        __CPROVER_assert(g_unary_calls == 1 && g_binop_calls == 0 && g_mcall_calls == 0, "vm.op: a non-number operand goes to generic method dispatch exactly once");
        __CPROVER_assert(vo_streq(g_lm, "~") && same(g_lhs, x), "vm.op: generic dispatch uses the method name ~ on the operand, unchanged");
        __CPROVER_assert(g_callee_committed, "vm.op: the frame is committed before generic dispatch (which may raise)");
        __CPROVER_assert(same(vo_mem.slots[a], g_res), "vm.op: the result of generic dispatch arrives unchanged in the destination slot");
        REACH("vm.op bnot: generic dispatch");
    }
    vo_others_kept(a);
}
void h_vo_bnot(void) { int k = nd_int(); if (k == 0) vo_bnot(0, 1); else if (k == 1) vo_bnot(1, 1); else vo_bnot(3, 0); }
#endif

/* =====================================================================================================
 * Group 3: comparisons.  Numbers compare as IEEE doubles (every ordered comparison with a NaN is false);
 * anything else through janet_compare / janet_equals with the operands in order; the result is exactly true or false.
 * ===================================================================================================== */
#if defined(VO_GT)
#define VO_COP JOP_GREATER_THAN
#define VO_COPI JOP_GREATER_THAN_IMMEDIATE
#define VO_CMP(x, y) ((x) > (y))
#elif defined(VO_LT)
#define VO_COP JOP_LESS_THAN
#define VO_COPI JOP_LESS_THAN_IMMEDIATE
#define VO_CMP(x, y) ((x) < (y))
#elif defined(VO_GTE)
#define VO_COP JOP_GREATER_THAN_EQUAL
#define VO_CMP(x, y) ((x) >= (y))
#elif defined(VO_LTE)
#define VO_COP JOP_LESS_THAN_EQUAL
#define VO_CMP(x, y) ((x) <= (y))
#endif
#ifdef VO_COP
static void vo_generic_cmp(uint32_t a, Janet x, Janet y) {
    __CPROVER_assert(g_cmp_calls == 1 && g_eq_calls == 0, "vm.op: a non-number operand is compared by janet_compare exactly once");
    __CPROVER_assert(same(g_lhs, x) && same(g_rhs, y), "vm.op: janet_compare receives the two operands in order, unchanged");
    __CPROVER_assert(g_callee_committed, "vm.op: the frame is committed before janet_compare (which may raise)");
    __CPROVER_assert(same(vo_mem.slots[a], vo_bool(VO_CMP(g_cmp_r, 0))), "vm.op: the destination is exactly true or false according to the three-way comparison result");
}
static void vo_compop(uint32_t a, uint32_t b, uint32_t c) {
    vo_setup(VO_W(VO_COP, a, b, c), a, b, c);
    JanetSignal sig = vo_run();
    vo_continues_at(sig, 1);
    Janet x = vo_old[b], y = vo_old[c];
    if (x.type == JANET_NUMBER && y.type == JANET_NUMBER) {
        __CPROVER_assert(g_cmp_calls == 0 && g_eq_calls == 0, "vm.op: two numbers are compared without calling out");
        __CPROVER_assert(same(vo_mem.slots[a], vo_bool(VO_CMP(x.as.number, y.as.number))), "vm.op: the destination is exactly true or false according to the IEEE comparison of the two numbers in order");
        REACH("vm.op compare: two numbers");
    } else {
        vo_generic_cmp(a, x, y);
        REACH("vm.op compare: janet_compare");
    }
    vo_others_kept(a);
}
void h_vo_compop(void) { VO_PATTERNS3(vo_compop); }
#ifdef VO_COPI
static void vo_compop_imm(uint32_t a, uint32_t b, int imm) {
    vo_setup(VO_W(VO_COPI, a, b, (uint8_t) imm), a, b, 0);
    JanetSignal sig = vo_run();
    vo_continues_at(sig, 1);
    Janet x = vo_old[b];
    if (x.type == JANET_NUMBER) {
        __CPROVER_assert(g_cmp_calls == 0 && g_eq_calls == 0, "vm.op: a number is compared with the immediate without calling out");
        __CPROVER_assert(same(vo_mem.slots[a], vo_bool(VO_CMP(x.as.number, (double) imm))), "vm.op: the destination is exactly true or false according to the IEEE comparison of the number with the immediate");
        REACH("vm.op compare immediate: number");
    } else {
        vo_generic_cmp(a, x, vo_num((double) imm));
        REACH("vm.op compare immediate: janet_compare");
    }
    vo_others_kept(a);
}
void h_vo_compop_imm(void) { VO_PATTERNS_IMM(vo_compop_imm); }
#endif
#endif

#if defined(VO_EQ) || defined(VO_NEQ)
#ifdef VO_EQ
#define VO_EOP JOP_EQUALS
#define VO_EOPI JOP_EQUALS_IMMEDIATE
#define VO_WANT(eq) (eq)
#else
#define VO_EOP JOP_NOT_EQUALS
#define VO_EOPI JOP_NOT_EQUALS_IMMEDIATE
#define VO_WANT(eq) (!(eq))
#endif
static void vo_eqop(uint32_t a, uint32_t b, uint32_t c) {
    vo_setup(VO_W(VO_EOP, a, b, c), a, b, c);
    JanetSignal sig = vo_run();
    vo_continues_at(sig, 1);
    __CPROVER_assert(g_eq_calls == 1 && g_cmp_calls == 0, "vm.op: equality of two registers is decided by janet_equals exactly once");
    __CPROVER_assert(same(g_lhs, vo_old[b]) && same(g_rhs, vo_old[c]), "vm.op: janet_equals receives the two operands in order, unchanged");
    __CPROVER_assert(same(vo_mem.slots[a], vo_bool(VO_WANT(g_cmp_r != 0))), "vm.op: the destination is exactly true or false according to janet_equals");
    vo_others_kept(a);
    REACH("vm.op equals");
}
void h_vo_eqop(void) { VO_PATTERNS3(vo_eqop); }
static void vo_eqop_imm(uint32_t a, uint32_t b, int imm) {
    vo_setup(VO_W(VO_EOPI, a, b, (uint8_t) imm), a, b, 0);
    JanetSignal sig = vo_run();
    vo_continues_at(sig, 1);
    Janet x = vo_old[b];
    __CPROVER_assert(g_eq_calls == 0 && g_cmp_calls == 0, "vm.op: comparison with an immediate does not call out");
    int eq = x.type == JANET_NUMBER && x.as.number == (double) imm;
    __CPROVER_assert(same(vo_mem.slots[a], vo_bool(VO_WANT(eq))), "vm.op: the destination is exactly true or false: equal means a number with the IEEE value of the immediate");
    vo_others_kept(a);
    if (eq) REACH("vm.op equals immediate: equal"); else REACH("vm.op equals immediate: not equal");
}
void h_vo_eqop_imm(void) { VO_PATTERNS_IMM(vo_eqop_imm); }
#endif

#ifdef VO_CMP3
/* JOP_COMPARE (cmp): the three-way result of janet_compare as a number */
static void vo_cmp3(uint32_t a, uint32_t b, uint32_t c) {
    vo_setup(VO_W(JOP_COMPARE, a, b, c), a, b, c);
    JanetSignal sig = vo_run();
    vo_continues_at(sig, 1);
    __CPROVER_assert(g_cmp_calls == 1 && g_eq_calls == 0, "vm.op: cmp is decided by janet_compare exactly once");
    __CPROVER_assert(same(g_lhs, vo_old[b]) && same(g_rhs, vo_old[c]), "vm.op: janet_compare receives the two operands in order, unchanged");
    __CPROVER_assert(is_num(vo_mem.slots[a], (double) g_cmp_r), "vm.op: the destination holds the three-way result as a number");
    vo_others_kept(a);
    REACH("vm.op cmp");
}
void h_vo_cmp3(void) { VO_PATTERNS3(vo_cmp3); }
#endif

/* =====================================================================================================
 * Group 4: data access.  Each instruction is exactly one call of the C API function that defines the core function
 * of the same name (get, in, put, length, next), with the operands in the documented order.
 * ===================================================================================================== */
#if defined(VO_IN) || defined(VO_GET) || defined(VO_NEXT) || defined(VO_PUT) || defined(VO_GETINDEX) || defined(VO_PUTINDEX) || defined(VO_LENGTH)
static void vo_acc_common(int which) {
    __CPROVER_assert(g_acc_calls == 1 && g_acc_which == which, "vm.op: exactly one call, of the data-access function the instruction is named after");
    __CPROVER_assert(g_binop_calls == 0 && g_mcall_calls == 0 && g_unary_calls == 0 && g_cmp_calls == 0 && g_eq_calls == 0, "vm.op: nothing else is called");
    __CPROVER_assert(g_callee_committed, "vm.op: the frame is committed before the data-access function (which may raise)");
}
#endif
#if defined(VO_IN) || defined(VO_GET) || defined(VO_NEXT)
#if defined(VO_IN)
#define VO_AOP JOP_IN
#define VO_AWHICH ACC_IN
#elif defined(VO_GET)
#define VO_AOP JOP_GET
#define VO_AWHICH ACC_GET
#else
#define VO_AOP JOP_NEXT
#define VO_AWHICH ACC_NEXT
#endif
static void vo_get_like(uint32_t a, uint32_t b, uint32_t c) {
    vo_setup(VO_W(VO_AOP, a, b, c), a, b, c);
    JanetSignal sig = vo_run();
    vo_continues_at(sig, 1);
    vo_acc_common(VO_AWHICH);
    __CPROVER_assert(same(g_acc_ds, vo_old[b]) && same(g_acc_key, vo_old[c]), "vm.op: the function receives (data structure, key) = (first operand, second operand), unchanged");
    __CPROVER_assert(same(vo_mem.slots[a], g_res), "vm.op: the value the function returns arrives unchanged in the destination slot");
    vo_others_kept(a);
    REACH("vm.op get-like");
}
void h_vo_get_like(void) { VO_PATTERNS3(vo_get_like); }
#endif
#ifdef VO_PUT
static void vo_put(uint32_t a, uint32_t b, uint32_t c) {
    vo_setup(VO_W(JOP_PUT, a, b, c), a, b, c);
    JanetSignal sig = vo_run();
    vo_continues_at(sig, 1);
    vo_acc_common(ACC_PUT);
    __CPROVER_assert(same(g_acc_ds, vo_old[a]) && same(g_acc_key, vo_old[b]) && same(g_acc_val, vo_old[c]), "vm.op: put receives (data structure, key, value) = (A, B, C), unchanged");
    __CPROVER_assert(g_acc_fiber_flags & JANET_FIBER_RESUME_NO_USEVAL, "vm.op: put has no destination: while it runs the fiber is marked so that a resumption value is not stored into a slot");
    vo_others_kept(VO_NDATA);
    REACH("vm.op put");
}
void h_vo_put(void) { VO_PATTERNS3(vo_put); }
#endif
#if defined(VO_GETINDEX) || defined(VO_PUTINDEX)
static void vo_index(uint32_t a, uint32_t b, uint32_t c) {
#ifdef VO_GETINDEX
    vo_setup(VO_W(JOP_GET_INDEX, a, b, c), a, b, c);
#else
    vo_setup(VO_W(JOP_PUT_INDEX, a, b, c), a, b, c);
#endif
    JanetSignal sig = vo_run();
    vo_continues_at(sig, 1);
#ifdef VO_GETINDEX
    vo_acc_common(ACC_GETINDEX);
    __CPROVER_assert(same(g_acc_ds, vo_old[b]) && g_acc_index == (int32_t) c, "vm.op: getindex receives (data structure, index) = (operand, the unsigned byte immediate)");
    __CPROVER_assert(same(vo_mem.slots[a], g_res), "vm.op: the value the function returns arrives unchanged in the destination slot");
    vo_others_kept(a);
#else
    vo_acc_common(ACC_PUTINDEX);
    __CPROVER_assert(same(g_acc_ds, vo_old[a]) && g_acc_index == (int32_t) c && same(g_acc_val, vo_old[b]), "vm.op: putindex receives (data structure, index, value) = (A, the unsigned byte immediate, B)");
    __CPROVER_assert(g_acc_fiber_flags & JANET_FIBER_RESUME_NO_USEVAL, "vm.op: put has no destination: while it runs the fiber is marked so that a resumption value is not stored into a slot");
    vo_others_kept(VO_NDATA);
#endif
    REACH("vm.op index access");
}
void h_vo_index(void) { int k = nd_int();
    if (k == 0) vo_index(0, 1, 0); else if (k == 1) vo_index(1, 1, 1); else if (k == 2) vo_index(0, 1, 2); else if (k == 3) vo_index(3, 0, 127);
    else if (k == 4) vo_index(2, 1, 128); else vo_index(0, 0, 255); }
#endif
#ifdef VO_LENGTH
static void vo_length(uint32_t a, uint32_t e) {
    vo_setup(VO_WE(JOP_LENGTH, a, e), a, e, 0);
    JanetSignal sig = vo_run();
    vo_continues_at(sig, 1);
    vo_acc_common(ACC_LENGTH);
    __CPROVER_assert(same(g_acc_ds, vo_old[e]), "vm.op: length receives the operand, unchanged");
    __CPROVER_assert(same(vo_mem.slots[a], g_res), "vm.op: the value the function returns arrives unchanged in the destination slot");
    vo_others_kept(a);
    REACH("vm.op length");
}
void h_vo_length(void) { int k = nd_int(); if (k == 0) vo_length(0, 1); else if (k == 1) vo_length(1, 1); else vo_length(3, 0); }
#endif

/* =====================================================================================================
 * Group 5: moves, loads, jumps, type check, error, return.
 * ===================================================================================================== */
#ifdef VO_MOVE
/* MOVE_NEAR: A <- E;  MOVE_FAR: E <- A */
static void vo_move(uint32_t near, uint32_t a, uint32_t e) {
    if (near) vo_setup(VO_WE(JOP_MOVE_NEAR, a, e), a, e, 0); else vo_setup(VO_WE(JOP_MOVE_FAR, a, e), a, e, 0);
    JanetSignal sig = vo_run();
    vo_continues_at(sig, 1);
    uint32_t dst = near ? a : e, src = near ? e : a;
    __CPROVER_assert(same(vo_mem.slots[dst], vo_old[src]), "vm.op: the destination slot holds the source slot's value, unchanged");
    vo_others_kept(dst);
    REACH("vm.op move");
}
void h_vo_move(void) { int k = nd_int();
    if (k == 0) vo_move(1, 0, 1); else if (k == 1) vo_move(1, 1, 1); else if (k == 2) vo_move(1, 3, 0); else if (k == 3) vo_move(1, 0, 3);
    else if (k == 4) vo_move(0, 0, 1); else if (k == 5) vo_move(0, 1, 1); else if (k == 6) vo_move(0, 3, 0); else vo_move(0, 0, 3); }
#endif

#ifdef VO_LOADK
/* LOAD_NIL / LOAD_TRUE / LOAD_FALSE / LOAD_SELF: D = destination */
static void vo_loadk(uint32_t op, uint32_t d) {
    vo_setup(VO_WD(op, d), d, 0, 0);
    JanetSignal sig = vo_run();
    vo_continues_at(sig, 1);
    Janet want;
    if (op == JOP_LOAD_NIL) want = vo_nil(); else if (op == JOP_LOAD_TRUE) want = vo_bool(1); else if (op == JOP_LOAD_FALSE) want = vo_bool(0);
    else { want.type = JANET_FUNCTION; want.as.u64 = 0; want.as.pointer = vo_func; }
    __CPROVER_assert(same(vo_mem.slots[d], want), "vm.op: the destination slot holds exactly the documented constant (nil / true / false / the running function)");
    vo_others_kept(d);
    REACH("vm.op load constant value");
}
void h_vo_loadk(void) { int k = nd_int();
    if (k == 0) vo_loadk(JOP_LOAD_NIL, 0); else if (k == 1) vo_loadk(JOP_LOAD_NIL, 3); else if (k == 2) vo_loadk(JOP_LOAD_TRUE, 0); else if (k == 3) vo_loadk(JOP_LOAD_TRUE, 2);
    else if (k == 4) vo_loadk(JOP_LOAD_FALSE, 1); else if (k == 5) vo_loadk(JOP_LOAD_FALSE, 3); else if (k == 6) vo_loadk(JOP_LOAD_SELF, 0); else vo_loadk(JOP_LOAD_SELF, 3); }
#endif

#ifdef VO_LOADI
/* LOAD_INTEGER: A = destination, E = signed 16-bit integer */
static void vo_loadi(uint32_t a, int v) {
    vo_setup(VO_WE(JOP_LOAD_INTEGER, a, (uint16_t) v), a, 0, 0);
    JanetSignal sig = vo_run();
    vo_continues_at(sig, 1);
    __CPROVER_assert(is_num(vo_mem.slots[a], (double) v), "vm.op: the destination slot holds the signed 16-bit immediate as a number");
    vo_others_kept(a);
    REACH("vm.op load integer");
}
void h_vo_loadi(void) { int k = nd_int();
    if (k == 0) vo_loadi(0, 0); else if (k == 1) vo_loadi(1, 1); else if (k == 2) vo_loadi(2, -1); else if (k == 3) vo_loadi(3, 32767); else if (k == 4) vo_loadi(0, -32768);
    else if (k == 5) vo_loadi(0, 255); else if (k == 6) vo_loadi(0, 256); else vo_loadi(1, -256); }
#endif

#ifdef VO_LOADC
/* LOAD_CONSTANT: A = destination, E = index into the function's constants */
#define VO_NCONST 3
static Janet vo_consts[VO_NCONST], vo_consts_old[VO_NCONST];
static void vo_loadc(uint32_t a, uint32_t e) {
    vo_setup(VO_WE(JOP_LOAD_CONSTANT, a, e), a, 0, 0);
    for (int i = 0; i < VO_NCONST; i++) { vo_consts[i] = vo_any(); vo_consts_old[i] = vo_consts[i]; }
    vo_def.constants = vo_consts;
    vo_def.constants_length = VO_NCONST;
    JanetSignal sig = vo_run();
    vo_continues_at(sig, 1);
    __CPROVER_assert(e < VO_NCONST, "vm.op: a constant index outside the function's constants raises");
    if (e < VO_NCONST) __CPROVER_assert(same(vo_mem.slots[a], vo_consts_old[e]), "vm.op: the destination slot holds the indexed constant, unchanged");
    for (int i = 0; i < VO_NCONST; i++) __CPROVER_assert(same(vo_consts[i], vo_consts_old[i]), "vm.op: the constants are not written");
    vo_others_kept(a);
    REACH("vm.op load constant");
}
void h_vo_loadc(void) { int k = nd_int();
    if (k == 0) vo_loadc(0, 0); else if (k == 1) vo_loadc(1, 1); else if (k == 2) vo_loadc(3, 2); else if (k == 3) vo_loadc(0, 3); else if (k == 4) vo_loadc(0, 0x7FFF); else vo_loadc(2, 0xFFFF); }
#endif

#ifdef VO_UPVALUE
/* LOAD_UPVALUE: A <- upvalue (environment B, index C);  SET_UPVALUE: upvalue (B, C) <- A.
 * TOOL LIMITATION (CBMC 6.11): pointer arithmetic on a pointer read from a NON-FIRST union member is mis-translated
 * (`e->as.values[2]` with `union { F *fiber; J *values; } as` reads at a wrong offset; `J *v = e->as.values; v[2]` is fine),
 * in every form we tried (also with index 0), so reads and writes of a CLOSED environment are not exercised (only its bound check, which raises before the access);
 * the two open environments go through the first union member and are modelled correctly.
 * Three environments: 0 = closed (values live in the environment), 1 = on the stack of another fiber,
 * 2 = on this fiber's stack, namely the running frame itself. */
#define VO_NENV 3
#define VO_ENVLEN 3
#define VO_EOFF 2
static JanetFuncEnv vo_env[VO_NENV];
static Janet vo_envvals[VO_ENVLEN], vo_envvals_old[VO_ENVLEN];
static Janet vo_edata[VO_EOFF + VO_ENVLEN + 1], vo_edata_old[VO_EOFF + VO_ENVLEN + 1];
static JanetFiber vo_efiber;
static void vo_setup_envs(void) {
    JanetFunction *f = malloc(sizeof(JanetFunction) + VO_NENV * sizeof(JanetFuncEnv *));
    __CPROVER_assume(f != (JanetFunction *)0);
    f->def = &vo_def;
    f->gc.flags = JANET_MEMORY_FUNCTION;
    vo_def.environments_length = VO_NENV;
    for (int i = 0; i < VO_ENVLEN; i++) { vo_envvals[i] = vo_any(); vo_envvals_old[i] = vo_envvals[i]; }
    for (int i = 0; i < VO_EOFF + VO_ENVLEN + 1; i++) { vo_edata[i] = vo_any(); vo_edata_old[i] = vo_edata[i]; }
    vo_env[0].offset = 0; vo_env[0].length = VO_ENVLEN; vo_env[0].as.values = vo_envvals;
    vo_efiber.data = vo_edata; vo_efiber.capacity = VO_EOFF + VO_ENVLEN + 1; vo_efiber.frame = VO_EOFF;
    vo_env[1].offset = VO_EOFF; vo_env[1].length = VO_ENVLEN; vo_env[1].as.fiber = &vo_efiber;
    vo_env[2].offset = JANET_FRAME_SIZE; vo_env[2].length = VO_SLOTS; vo_env[2].as.fiber = &vo_fiber;
    for (int i = 0; i < VO_NENV; i++) f->envs[i] = &vo_env[i];
    vo_func = f;
    vo_mem.fr.func = f;
}
static void vo_envs_kept(int env_except, uint32_t idx_except) {
    for (uint32_t i = 0; i < VO_ENVLEN; i++) if (!(env_except == 0 && i == idx_except)) __CPROVER_assert(same(vo_envvals[i], vo_envvals_old[i]), "vm.op: every other closed upvalue keeps its value");
    for (uint32_t i = 0; i < VO_EOFF + VO_ENVLEN + 1; i++) if (!(env_except == 1 && i == VO_EOFF + idx_except)) __CPROVER_assert(same(vo_edata[i], vo_edata_old[i]), "vm.op: every other cell of the other fiber's stack keeps its value");
    __CPROVER_assert(vo_env[0].offset == 0 && vo_env[1].offset == VO_EOFF && vo_env[2].offset == JANET_FRAME_SIZE && vo_env[0].length == VO_ENVLEN && vo_env[1].length == VO_ENVLEN && vo_env[2].length == VO_SLOTS, "vm.op: the environments themselves are not changed");
}
static void vo_upvalue(uint32_t set, uint32_t a, uint32_t b, uint32_t c) {
    vo_setup(VO_W(set ? JOP_SET_UPVALUE : JOP_LOAD_UPVALUE, a, b, c), a, b, c);
    vo_setup_envs();
    JanetSignal sig = vo_run();
    vo_continues_at(sig, 1);
    __CPROVER_assert(b < VO_NENV, "vm.op: an environment index outside the function's environments raises");
    uint32_t len = b == 2 ? VO_SLOTS : VO_ENVLEN;
    __CPROVER_assert(b >= VO_NENV || c < len, "vm.op: an upvalue index outside the environment raises");
    if (b < VO_NENV && c < len) {
        if (!set) {
            Janet want = b == 0 ? vo_envvals_old[c] : b == 1 ? vo_edata_old[VO_EOFF + c] : vo_old[c];
            __CPROVER_assert(same(vo_mem.slots[a], want), "vm.op: the destination slot holds the upvalue's current value (closed: from the environment; open: from the owning fiber's stack)");
            vo_others_kept(a);
            vo_envs_kept(-1, 0);
        } else {
            Janet *cell = b == 0 ? &vo_envvals[c] : b == 1 ? &vo_edata[VO_EOFF + c] : &vo_mem.slots[c];
            __CPROVER_assert(same(*cell, vo_old[a]), "vm.op: the upvalue (closed: in the environment; open: on the owning fiber's stack) holds the source slot's value");
            vo_others_kept(b == 2 ? c : VO_NDATA);
            vo_envs_kept((int) b, c);
        }
    }
    REACH("vm.op upvalue");
}
void h_vo_upvalue_load(void) { int k = nd_int();
    if (k == 0) vo_upvalue(0, 0, 1, 1); else if (k == 1) vo_upvalue(0, 1, 1, 1); else if (k == 2) vo_upvalue(0, 0, 1, 0); else if (k == 3) vo_upvalue(0, 2, 1, 2);
    else if (k == 4) vo_upvalue(0, 0, 2, 0); else if (k == 5) vo_upvalue(0, 1, 2, 3); else if (k == 6) vo_upvalue(0, 3, 2, 1);
    else if (k == 7) vo_upvalue(0, 0, 3, 0); else if (k == 8) vo_upvalue(0, 0, 0, 3); else if (k == 9) vo_upvalue(0, 0, 1, 3); else if (k == 10) vo_upvalue(0, 0, 2, 4); else vo_upvalue(0, 0, 255, 0); }
void h_vo_upvalue_set(void) { int k = nd_int();
    if (k == 0) vo_upvalue(1, 0, 1, 1); else if (k == 1) vo_upvalue(1, 1, 1, 1); else if (k == 2) vo_upvalue(1, 0, 1, 0); else if (k == 3) vo_upvalue(1, 2, 1, 2);
    else if (k == 4) vo_upvalue(1, 0, 2, 0); else if (k == 5) vo_upvalue(1, 1, 2, 3); else if (k == 6) vo_upvalue(1, 3, 2, 1);
    else if (k == 7) vo_upvalue(1, 0, 3, 0); else if (k == 8) vo_upvalue(1, 0, 0, 3); else if (k == 9) vo_upvalue(1, 0, 1, 3); else if (k == 10) vo_upvalue(1, 0, 2, 4); else vo_upvalue(1, 0, 255, 0); }
#endif

#ifdef VO_JUMPS
/* only nil and false are falsey */
static int vo_truthy(Janet x) { return !(x.type == JANET_NIL || (x.type == JANET_BOOLEAN && x.as.u64 == 0)); }
/* a taken jump by `off` words: a backward (or zero) jump is where a requested interrupt is honoured - the fiber is
 * suspended before jumping and will re-execute the jump when resumed */
static void vo_jump_taken(JanetSignal sig, int off) {
    if (off <= 0 && janet_vm.auto_suspend) {
        __CPROVER_assert(sig == JANET_SIGNAL_INTERRUPT, "vm.op: a backward jump honours a requested interrupt");
        __CPROVER_assert(vo_mem.fr.pc == vo_code + VO_PC0, "vm.op: the interrupted fiber will re-execute the jump");
        __CPROVER_assert((vo_fiber.flags & JANET_FIBER_RESUME_NO_USEVAL) && (vo_fiber.flags & JANET_FIBER_RESUME_NO_SKIP), "vm.op: the interrupted fiber resumes at the same instruction without storing a value");
        vo_frame_intact();
        REACH("vm.op jump: interrupted");
    } else {
        vo_continues_at(sig, off);
        REACH("vm.op jump: taken");
    }
}
static void vo_jump(int off) {
    vo_setup(VO_WD(JOP_JUMP, off), 0, 0, 0);
    JanetSignal sig = vo_run();
    vo_jump_taken(sig, off);
    vo_others_kept(VO_NDATA);
}
void h_vo_jump(void) { int k = nd_int();
    if (k == 0) vo_jump(1); else if (k == 1) vo_jump(2); else if (k == 2) vo_jump(3); else if (k == 3) vo_jump(-1); else if (k == 4) vo_jump(-3); else vo_jump(-2); }
/* the type of the tested slot is enumerated (all 16 types, a boolean with both payloads) and CONCRETE in each run, because a
 * symbolic branch would make the program counter - and with it instruction dispatch - symbolic; the payload stays symbolic */
static void vo_jump_cond(uint32_t op, uint32_t a, int off, int type, int bpayload) {
    vo_setup(VO_WE(op, a, (uint16_t) off), a, 0, 0);
    vo_mem.slots[a].type = (JanetType) type;
    if (type == JANET_NIL) vo_mem.slots[a].as.u64 = 0;
    if (type == JANET_BOOLEAN) vo_mem.slots[a].as.u64 = bpayload;
    vo_old[a] = vo_mem.slots[a];
    JanetSignal sig = vo_run();
    Janet x = vo_old[a];
    int taken = op == JOP_JUMP_IF ? vo_truthy(x) : op == JOP_JUMP_IF_NOT ? !vo_truthy(x) : op == JOP_JUMP_IF_NIL ? x.type == JANET_NIL : x.type != JANET_NIL;
    if (taken) vo_jump_taken(sig, off);
    else { vo_continues_at(sig, 1); REACH("vm.op jump: not taken"); }
    vo_others_kept(VO_NDATA);
}
static void vo_jump_cond_types(uint32_t op, uint32_t a, int off) {
    for (int t = JANET_NUMBER; t <= JANET_POINTER; t++) {
        vo_jump_cond(op, a, off, t, 0);
        if (t == JANET_BOOLEAN) vo_jump_cond(op, a, off, t, 1);
    }
}
#ifndef VO_JOP
#define VO_JOP JOP_JUMP_IF
#endif
void h_vo_jump_cond(void) { vo_jump_cond_types(VO_JOP, 0, 2); vo_jump_cond_types(VO_JOP, 3, 4); vo_jump_cond_types(VO_JOP, 1, -2); }
#endif

#ifdef VO_TYPECHECK
static void vo_typecheck(uint32_t a, uint32_t mask) {
    vo_setup(VO_WE(JOP_TYPECHECK, a, mask), a, 0, 0);
    JanetSignal sig = vo_run();
    vo_continues_at(sig, 1);
    __CPROVER_assert((1u << vo_old[a].type) & mask, "vm.op: a value whose type is not in the mask raises");
    vo_others_kept(VO_NDATA);
    REACH("vm.op typecheck passed");
}
void h_vo_typecheck(void) { int k = nd_int();
    if (k == 0) vo_typecheck(0, 0x0001); else if (k == 1) vo_typecheck(1, 0xFFFF); else if (k == 2) vo_typecheck(0, 0); else if (k == 3) vo_typecheck(3, JANET_TFLAG_INDEXED);
    else if (k == 4) vo_typecheck(2, JANET_TFLAG_BYTES); else if (k == 5) vo_typecheck(0, JANET_TFLAG_CALLABLE); else if (k == 6) vo_typecheck(0, 0x8000); else vo_typecheck(1, JANET_TFLAG_DICTIONARY | JANET_TFLAG_NIL); }
#endif

#ifdef VO_ERROR
static void vo_error(uint32_t a) {
    vo_setup(VO_W(JOP_ERROR, a, 0, 0), a, 0, 0);
    JanetSignal sig = vo_run();
    __CPROVER_assert(sig == JANET_SIGNAL_ERROR, "vm.op: error leaves the fiber with the error signal");
    __CPROVER_assert(same(janet_vm.return_reg[0], vo_old[a]), "vm.op: the error value is the operand, unchanged");
    __CPROVER_assert(vo_committed(), "vm.op: the frame is committed at the raising instruction");
    vo_frame_intact();
    vo_others_kept(VO_NDATA);
    REACH("vm.op error");
}
void h_vo_error(void) { int k = nd_int(); if (k == 0) vo_error(0); else if (k == 1) vo_error(1); else vo_error(3); }
#endif

#ifdef VO_RETURN
/* RETURN D / RETURN_NIL from the frame the interpreter was entered with: the fiber finishes with the value */
static void vo_return(uint32_t nil, uint32_t d) {
    vo_setup(nil ? VO_WD(JOP_RETURN_NIL, 0) : VO_WD(JOP_RETURN, d), d, 0, 0);
    JanetSignal sig = vo_run();
    __CPROVER_assert(sig == JANET_SIGNAL_OK, "vm.op: returning from the entrance frame ends the run normally");
    __CPROVER_assert(same(janet_vm.return_reg[0], nil ? vo_nil() : vo_old[d]), "vm.op: the value returned is the operand (or nil), unchanged");
    __CPROVER_assert(vo_fiber.frame == 0 && vo_fiber.stackstart == JANET_FRAME_SIZE && vo_fiber.stacktop == JANET_FRAME_SIZE, "vm.op: the frame is popped");
    __CPROVER_assert(vo_fiber.child == (JanetFiber *)0 && vo_fiber.data == vo_data, "vm.op: nothing else about the fiber changes");
    vo_others_kept(VO_NDATA);
    REACH("vm.op return");
}
void h_vo_return(void) { int k = nd_int(); if (k == 0) vo_return(0, 0); else if (k == 1) vo_return(0, 3); else if (k == 2) vo_return(0, 2); else vo_return(1, 0); }
#endif

/* =====================================================================================================
 * Group 6: building argument lists and data-structure literals.
 * The argument area of the fiber is data[stackstart .. stacktop).  PUSH* append to it (through fiber.c, whose
 * contract - append in order, possibly moving the whole stack to a bigger block - is played by the stubs, which
 * really move the stack when g_move is set); MAKE_* consume it in order and reset it.
 * ===================================================================================================== */
#if defined(VO_PUSH) || defined(VO_MAKE)
static __typeof__(vo_mem) vo_mem2;
static int g_move;                      /* CONSTANT per run: does fiber.c move the stack to a new block? */
#define VO_BLK (g_move ? &vo_mem2 : &vo_mem)
#define VO_START (JANET_FRAME_SIZE + VO_SLOTS + JANET_FRAME_SIZE)
static int32_t vo_nargs;                /* values already in the argument area before the instruction */
/* after vo_setup: put n0 values into the argument area (their contents are already symbolic) */
static void vo_setup_args(int32_t n0) {
    vo_nargs = n0;
    vo_fiber.stacktop = vo_fiber.stackstart + n0;
}
static void vo_relocate(void) {
    if (g_move) {
        vo_mem2 = vo_mem;
        vo_fiber.data = (Janet *) &vo_mem2;
        /* the old block is gone: anything still written there is lost */
        vo_mem.fr.pc = (uint32_t *)0;
    }
}
/* the instruction completed: next instruction, frame header and fiber geometry as documented, in the block the stack lives in now */
static void vo_continues6(JanetSignal sig, int32_t top) {
    __CPROVER_assert(sig == JANET_SIGNAL_DEBUG, "vm.op: the instruction does not leave the interpreter");
    __CPROVER_assert(vo_fiber.data == (Janet *) VO_BLK, "vm.op: the fiber's stack is where fiber.c left it");
    __CPROVER_assert(VO_BLK->fr.pc == vo_code + VO_PC0 + 1, "vm.op: execution continues at the next instruction, recorded in the frame of the live stack block");
    __CPROVER_assert(VO_BLK->fr.func == vo_func && VO_BLK->fr.prevframe == 0 && VO_BLK->fr.env == (JanetFuncEnv *)0, "vm.op: the frame header is untouched");
    __CPROVER_assert(vo_fiber.frame == JANET_FRAME_SIZE && vo_fiber.stackstart == VO_START, "vm.op: the fiber keeps its frame and the start of its argument area");
    __CPROVER_assert(vo_fiber.stacktop == top, "vm.op: the argument area ends where documented");
    __CPROVER_assert(vo_fiber.child == (JanetFiber *)0, "vm.op: no child fiber is chained");
}
/* cells [0, VO_NDATA) other than `except` and other than [from, VO_NDATA) keep their values */
static void vo_cells_kept(uint32_t except, uint32_t from) {
    for (uint32_t k = 0; k < VO_NDATA; k++)
        if (k != except && k < from) __CPROVER_assert(same(VO_BLK->slots[k], vo_old[k]), "vm.op: every other stack cell keeps its value");
}
#endif

#ifdef VO_PUSH
static int g_push_calls, g_push_n;
static Janet g_push_v[3];
static JanetFiber *g_push_fiber;
static const Janet *g_push_arr;
static int32_t g_push_arrn;
#define PUSH_COMMON(n) g_push_calls++; g_push_n = (n); g_push_fiber = fiber; vo_relocate()
void vo_push_stub(JanetFiber *fiber, Janet x) { PUSH_COMMON(1); g_push_v[0] = x; fiber->data[fiber->stacktop] = x; fiber->stacktop += 1; }
void vo_push2_stub(JanetFiber *fiber, Janet x, Janet y) { PUSH_COMMON(2); g_push_v[0] = x; g_push_v[1] = y; fiber->data[fiber->stacktop] = x; fiber->data[fiber->stacktop + 1] = y; fiber->stacktop += 2; }
void vo_push3_stub(JanetFiber *fiber, Janet x, Janet y, Janet z) { PUSH_COMMON(3); g_push_v[0] = x; g_push_v[1] = y; g_push_v[2] = z;
    fiber->data[fiber->stacktop] = x; fiber->data[fiber->stacktop + 1] = y; fiber->data[fiber->stacktop + 2] = z; fiber->stacktop += 3; }
/* PUSH_ARRAY */
static int g_view_calls, g_view_ret; static Janet g_view_seq; static Janet vo_viewdata[2]; static int32_t g_view_len;
int vo_indexed_view_stub(Janet seq, const Janet **data, int32_t *len) {
    g_view_calls++; g_view_seq = seq; g_view_ret = nd_int();
    if (g_view_ret) { g_view_len = nd_i32(); __CPROVER_assume(g_view_len >= 0); *data = vo_viewdata; *len = g_view_len; }
    return g_view_ret;
}
void vo_pushn_stub(JanetFiber *fiber, const Janet *arr, int32_t n) { PUSH_COMMON(-1); g_push_arr = arr; g_push_arrn = n; }

/* n = 1, 2, 3: PUSH D / PUSH_2 A E / PUSH_3 A B C;  r0..r2 the operand registers */
static void vo_push(int n, uint32_t r0, uint32_t r1, uint32_t r2, int32_t n0, int move) {
    uint32_t w = n == 1 ? VO_WD(JOP_PUSH, r0) : n == 2 ? VO_WE(JOP_PUSH_2, r0, r1) : VO_W(JOP_PUSH_3, r0, r1, r2);
    vo_setup(w, r0, r1, r2);
    vo_setup_args(n0);
    g_move = move; g_push_calls = 0;
    JanetSignal sig = vo_run();
    vo_continues6(sig, VO_START + n0 + n);
    __CPROVER_assert(g_push_calls == 1 && g_push_n == n && g_push_fiber == &vo_fiber, "vm.op: exactly one push of the instruction's width onto this fiber");
    __CPROVER_assert(same(g_push_v[0], vo_old[r0]) && (n < 2 || same(g_push_v[1], vo_old[r1])) && (n < 3 || same(g_push_v[2], vo_old[r2])), "vm.op: the operand values are pushed in operand order, unchanged");
    /* consequence, with fiber.c's contract: the argument area now ends with the operands in order */
    uint32_t at = VO_SLOTS + JANET_FRAME_SIZE + n0;
    __CPROVER_assert(same(VO_BLK->slots[at], vo_old[r0]) && (n < 2 || same(VO_BLK->slots[at + 1], vo_old[r1])) && (n < 3 || same(VO_BLK->slots[at + 2], vo_old[r2])), "vm.op: the argument area ends with the operands in order");
    vo_cells_kept(VO_NDATA, at);
    REACH("vm.op push");
}
void h_vo_push(void) { int k = nd_int();
#if VO_PUSH == 1
    if (k == 0) vo_push(1, 0, 0, 0, 0, 0); else if (k == 1) vo_push(1, 3, 0, 0, 1, 0); else if (k == 2) vo_push(1, 1, 0, 0, 0, 1); else vo_push(1, 2, 0, 0, 1, 1);
#elif VO_PUSH == 2
    if (k == 0) vo_push(2, 0, 1, 0, 0, 0); else if (k == 1) vo_push(2, 1, 1, 0, 1, 0); else if (k == 2) vo_push(2, 3, 0, 0, 0, 1); else vo_push(2, 2, 2, 0, 1, 1);
#else
    if (k == 0) vo_push(3, 0, 1, 2, 0, 0); else if (k == 1) vo_push(3, 1, 1, 2, 1, 0); else if (k == 2) vo_push(3, 3, 0, 3, 0, 1); else vo_push(3, 2, 1, 0, 1, 1);
#endif
}
static void vo_push_array(uint32_t d, int32_t n0, int move) {
    vo_setup(VO_WD(JOP_PUSH_ARRAY, d), d, 0, 0);
    vo_setup_args(n0);
    g_move = move; g_push_calls = 0; g_view_calls = 0;
    JanetSignal sig = vo_run();
    /* the stub for pushn does not model the copy (fiber.c's contract): stacktop is unchanged here */
    vo_continues6(sig, VO_START + n0);
    __CPROVER_assert(g_view_calls == 1 && same(g_view_seq, vo_old[d]), "vm.op: the operand is viewed as an indexed collection exactly once");
    __CPROVER_assert(g_view_ret != 0, "vm.op: an operand that is not an array or tuple raises");
    __CPROVER_assert(g_push_calls == 1 && g_push_n == -1 && g_push_fiber == &vo_fiber && g_push_arr == vo_viewdata && g_push_arrn == g_view_len, "vm.op: exactly the viewed elements are pushed, all of them, in one block (so in order)");
    vo_cells_kept(VO_NDATA, VO_NDATA);
    REACH("vm.op push array");
}
void h_vo_push_array(void) { int k = nd_int(); if (k == 0) vo_push_array(0, 0, 0); else if (k == 1) vo_push_array(3, 1, 0); else if (k == 2) vo_push_array(1, 0, 1); else vo_push_array(2, 2, 1); }
#endif

#ifdef VO_MAKE
/* -DVO_MK=<n> selects the constructor */
#define MK_ARRAY 1
#define MK_TUPLE 2
#define MK_BTUPLE 3
#define MK_TABLE 4
#define MK_STRUCT 5
#define MK_STRING 6
#define MK_BUFFER 7
static int g_mk_calls, g_put_calls, g_end_calls, g_tostr_calls, g_str_calls, g_init_calls, g_deinit_calls;
static const Janet *g_mk_mem; static int32_t g_mk_count, g_mk_cap;
static Janet g_put_k[VO_EXTRA], g_put_v[VO_EXTRA];
static int g_put_target_ok, g_tostr_target_ok, g_str_ok;
static JanetArray vo_array_obj; static JanetTable vo_table_obj; static JanetBuffer vo_buffer_obj; static JanetBuffer *vo_local_buffer;
static JanetTupleHead *vo_tuple_head; static int32_t vo_tuple_flags0;
static JanetKV vo_kv[VO_EXTRA]; static uint8_t vo_bytes[4]; static uint8_t vo_strmem[4];
JanetArray *vo_array_n_stub(const Janet *elements, int32_t n) { g_mk_calls++; g_mk_mem = elements; g_mk_count = n; return &vo_array_obj; }
JanetTuple vo_tuple_n_stub(const Janet *values, int32_t n) { g_mk_calls++; g_mk_mem = values; g_mk_count = n; return vo_tuple_head->data; }
JanetTable *vo_table_stub(int32_t capacity) { g_mk_calls++; g_mk_cap = capacity; return &vo_table_obj; }
void vo_table_put_stub(JanetTable *t, Janet key, Janet value) { if (g_put_calls < VO_EXTRA) { g_put_k[g_put_calls] = key; g_put_v[g_put_calls] = value; } if (t != &vo_table_obj) g_put_target_ok = 0; g_put_calls++; }
JanetKV *vo_struct_begin_stub(int32_t count) { g_mk_calls++; g_mk_cap = count; return vo_kv; }
void vo_struct_put_stub(JanetKV *st, Janet key, Janet value) { if (g_put_calls < VO_EXTRA) { g_put_k[g_put_calls] = key; g_put_v[g_put_calls] = value; } if (st != vo_kv || g_end_calls) g_put_target_ok = 0; g_put_calls++; }
JanetStruct vo_struct_end_stub(JanetKV *st) { g_end_calls++; if (st != vo_kv) g_put_target_ok = 0; return vo_kv + 1; }
JanetBuffer *vo_buffer_stub(int32_t capacity) { g_mk_calls++; g_mk_cap = capacity; vo_buffer_obj.count = 0; return &vo_buffer_obj; }
JanetBuffer *vo_buffer_init_stub(JanetBuffer *buffer, int32_t capacity) { g_init_calls++; g_mk_cap = capacity; vo_local_buffer = buffer; buffer->data = vo_bytes; buffer->count = 0; buffer->capacity = capacity; return buffer; }
void vo_buffer_deinit_stub(JanetBuffer *buffer) { g_deinit_calls++; if (buffer != vo_local_buffer || !g_str_calls) g_str_ok = 0; }
void vo_to_string_b_stub(JanetBuffer *buffer, Janet x) {
    if (g_tostr_calls < VO_EXTRA) g_put_k[g_tostr_calls] = x;
    if (buffer != vo_local_buffer || g_str_calls) g_tostr_target_ok = 0;
    int32_t add = nd_i32(); __CPROVER_assume(add >= 0 && add <= 1000); buffer->count += add;
    g_tostr_calls++;
}
JanetString vo_string_stub(const uint8_t *buf, int32_t len) { g_str_calls++; if (buf != vo_bytes || len != vo_local_buffer->count) g_str_ok = 0; return vo_strmem; }

#ifndef VO_MK
#define VO_MK MK_ARRAY
#endif
static void vo_make(uint32_t d, int move_unused) {
    (void) move_unused;
    uint32_t op = VO_MK == MK_ARRAY ? JOP_MAKE_ARRAY : VO_MK == MK_TUPLE ? JOP_MAKE_TUPLE : VO_MK == MK_BTUPLE ? JOP_MAKE_BRACKET_TUPLE : VO_MK == MK_TABLE ? JOP_MAKE_TABLE
                : VO_MK == MK_STRUCT ? JOP_MAKE_STRUCT : VO_MK == MK_STRING ? JOP_MAKE_STRING : JOP_MAKE_BUFFER;
    vo_setup(VO_WD(op, d), d, 0, 0);
    int32_t count = nd_i32();
    __CPROVER_assume(count >= 0 && count <= VO_EXTRA);
    vo_setup_args(count);
    g_move = 0;
    g_mk_calls = g_put_calls = g_end_calls = g_tostr_calls = g_str_calls = g_init_calls = g_deinit_calls = 0;
    g_put_target_ok = g_tostr_target_ok = g_str_ok = 1;
    vo_buffer_obj.count = 0; vo_local_buffer = &vo_buffer_obj;
    vo_tuple_head = malloc(sizeof(JanetTupleHead) + VO_EXTRA * sizeof(Janet));
    __CPROVER_assume(vo_tuple_head != (JanetTupleHead *)0);
    vo_tuple_flags0 = nd_i32() & ~JANET_TUPLE_FLAG_BRACKETCTOR;
    vo_tuple_head->gc.flags = vo_tuple_flags0;
    JanetSignal sig = vo_run();
    vo_continues6(sig, VO_START);                      /* the argument area is consumed */
    const uint32_t at = VO_SLOTS + JANET_FRAME_SIZE;    /* index of the first argument in slots[] */
    Janet r = vo_mem.slots[d];
#if VO_MK == MK_ARRAY || VO_MK == MK_TUPLE || VO_MK == MK_BTUPLE
    __CPROVER_assert(g_mk_calls == 1 && g_mk_mem == vo_data + VO_START && g_mk_count == count, "vm.op: the constructor receives exactly the argument area, all of it, in order");
#if VO_MK == MK_ARRAY
    __CPROVER_assert(r.type == JANET_ARRAY && r.as.pointer == &vo_array_obj, "vm.op: the destination slot holds the new array");
#else
    __CPROVER_assert(r.type == JANET_TUPLE && r.as.pointer == (void *) vo_tuple_head->data, "vm.op: the destination slot holds the new tuple");
    __CPROVER_assert(vo_tuple_head->gc.flags == (VO_MK == MK_BTUPLE ? (vo_tuple_flags0 | JANET_TUPLE_FLAG_BRACKETCTOR) : vo_tuple_flags0), "vm.op: exactly the bracket constructor marks the tuple as a bracket tuple; nothing else about it changes");
#endif
#elif VO_MK == MK_TABLE || VO_MK == MK_STRUCT
    __CPROVER_assert((count & 1) == 0, "vm.op: an odd number of arguments raises");
    __CPROVER_assert(g_mk_calls == 1 && g_mk_cap == count / 2, "vm.op: one new container, sized for the number of pairs");
    __CPROVER_assert(g_put_calls == count / 2 && g_put_target_ok, "vm.op: one put into the new container per pair");
    for (int32_t i = 0; i < VO_EXTRA / 2; i++)
        if (2 * i + 1 < count) __CPROVER_assert(same(g_put_k[i], vo_old[at + 2 * i]) && same(g_put_v[i], vo_old[at + 2 * i + 1]), "vm.op: the pairs are (argument 2i, argument 2i+1) = (key, value), put in argument order");
#if VO_MK == MK_TABLE
    __CPROVER_assert(r.type == JANET_TABLE && r.as.pointer == &vo_table_obj, "vm.op: the destination slot holds the new table");
#else
    __CPROVER_assert(g_end_calls == 1, "vm.op: the struct is finished exactly once, after all puts");
    __CPROVER_assert(r.type == JANET_STRUCT && r.as.pointer == (void *)(vo_kv + 1), "vm.op: the destination slot holds the finished struct");
#endif
#else
    __CPROVER_assert(g_tostr_calls == count && g_tostr_target_ok, "vm.op: every argument is appended once to the text under construction");
    for (int32_t i = 0; i < VO_EXTRA; i++)
        if (i < count) __CPROVER_assert(same(g_put_k[i], vo_old[at + i]), "vm.op: the arguments are appended in argument order, unchanged");
#if VO_MK == MK_STRING
    __CPROVER_assert(g_init_calls == 1 && g_str_calls == 1 && g_deinit_calls == 1 && g_str_ok && g_mk_calls == 0, "vm.op: the string is made once from the whole text, and the scratch buffer is released after that");
    __CPROVER_assert(r.type == JANET_STRING && r.as.pointer == (void *) vo_strmem, "vm.op: the destination slot holds the new string");
#else
    __CPROVER_assert(g_mk_calls == 1 && g_init_calls == 0 && g_str_calls == 0, "vm.op: one new buffer");
    __CPROVER_assert(r.type == JANET_BUFFER && r.as.pointer == &vo_buffer_obj, "vm.op: the destination slot holds the new buffer");
#endif
#endif
    vo_cells_kept(d, VO_NDATA);
    REACH("vm.op make");
}
void h_vo_make(void) { int k = nd_int(); if (k == 0) vo_make(0, 0); else if (k == 1) vo_make(3, 0); else vo_make(1, 0); }
#endif

#ifdef VO_RETURN_CALLER
/* RETURN D / RETURN_NIL into a calling Janet frame: the value arrives in the destination register of the caller's CALL
 * instruction and the caller continues after that instruction.  Two frames: caller (frame 0) and callee (frame 1). */
#define VO_F1 (JANET_FRAME_SIZE + VO_SLOTS + JANET_FRAME_SIZE)
static struct { JanetStackFrame fr0; char pad0[JANET_FRAME_SIZE * sizeof(Janet) - sizeof(JanetStackFrame)]; Janet slots0[VO_SLOTS];
                JanetStackFrame fr1; char pad1[JANET_FRAME_SIZE * sizeof(Janet) - sizeof(JanetStackFrame)]; Janet slots1[VO_SLOTS + JANET_FRAME_SIZE]; } vo_mem3;
static uint32_t vo_code2[4];
static JanetFuncDef vo_def2; static JanetFunction vo_func2;
static Janet vo_old0[VO_SLOTS], vo_old1[VO_SLOTS + JANET_FRAME_SIZE];
static void vo_return_caller(uint32_t nil, uint32_t d, uint32_t dst) {
    vo_setup(nil ? VO_WD(JOP_RETURN_NIL, 0) : VO_WD(JOP_RETURN, d), d, 0, 0);
    for (int i = 0; i < 4; i++) vo_code2[i] = 0x80 | JOP_NOOP;
    vo_code2[1] = VO_WE(JOP_CALL, dst, 0);
    vo_def2.bytecode = vo_code2; vo_def2.bytecode_length = 4; vo_def2.slotcount = VO_SLOTS;
    vo_func2.def = &vo_def2;
    vo_fiber.data = (Janet *) &vo_mem3;
    vo_fiber.capacity = VO_F1 + VO_SLOTS + JANET_FRAME_SIZE;
    vo_fiber.frame = VO_F1;
    vo_fiber.stackstart = VO_F1 + VO_SLOTS + JANET_FRAME_SIZE;
    vo_fiber.stacktop = vo_fiber.stackstart;
    vo_mem3.fr0.func = &vo_func2; vo_mem3.fr0.pc = vo_code2 + 1; vo_mem3.fr0.env = (JanetFuncEnv *)0; vo_mem3.fr0.prevframe = 0; vo_mem3.fr0.flags = JANET_STACKFRAME_ENTRANCE;
    vo_mem3.fr1.func = vo_func; vo_mem3.fr1.pc = vo_code + VO_PC0; vo_mem3.fr1.env = (JanetFuncEnv *)0; vo_mem3.fr1.prevframe = JANET_FRAME_SIZE; vo_mem3.fr1.flags = 0;
    for (int i = 0; i < VO_SLOTS; i++) { vo_mem3.slots0[i] = vo_any(); vo_old0[i] = vo_mem3.slots0[i]; }
    for (int i = 0; i < VO_SLOTS + JANET_FRAME_SIZE; i++) { vo_mem3.slots1[i] = vo_any(); vo_old1[i] = vo_mem3.slots1[i]; }
    JanetSignal sig = vo_run();
    __CPROVER_assert(sig == JANET_SIGNAL_DEBUG, "vm.op: returning into a calling frame does not leave the interpreter");
    __CPROVER_assert(vo_fiber.frame == JANET_FRAME_SIZE && vo_fiber.data == (Janet *) &vo_mem3, "vm.op: the callee's frame is popped and the caller's frame is current again");
    __CPROVER_assert(vo_fiber.stackstart == VO_F1 && vo_fiber.stacktop == VO_F1, "vm.op: the caller's argument area is empty and starts where the callee's frame was");
    __CPROVER_assert(vo_mem3.fr0.pc == vo_code2 + 2, "vm.op: the caller continues after its call instruction");
    __CPROVER_assert(vo_mem3.fr0.func == &vo_func2 && vo_mem3.fr0.prevframe == 0 && vo_mem3.fr0.flags == JANET_STACKFRAME_ENTRANCE && vo_mem3.fr0.env == (JanetFuncEnv *)0, "vm.op: the caller's frame header is otherwise untouched");
    __CPROVER_assert(same(vo_mem3.slots0[dst], nil ? vo_nil() : vo_old1[d]), "vm.op: the returned value (or nil) arrives unchanged in the destination register of the caller's call instruction");
    for (uint32_t k = 0; k < VO_SLOTS; k++) if (k != dst) __CPROVER_assert(same(vo_mem3.slots0[k], vo_old0[k]), "vm.op: every other slot of the caller keeps its value");
    __CPROVER_assert(vo_fiber.child == (JanetFiber *)0, "vm.op: no child fiber is chained");
    REACH("vm.op return to caller");
}
void h_vo_return_caller(void) { int k = nd_int();
    if (k == 0) vo_return_caller(0, 0, 0); else if (k == 1) vo_return_caller(0, 3, 1); else if (k == 2) vo_return_caller(0, 1, 3); else if (k == 3) vo_return_caller(1, 0, 2); else vo_return_caller(1, 0, 0); }
#endif

#ifdef VO_CLOSURE
/* CLOSURE A E: a new function for the E-th nested definition of the running function.  Each environment slot i of the
 * new function is, as the definition says (environments[i]): -1 = the running frame's own environment (created on first
 * capture, shared by all closures of that frame), k >= 0 = the running function's k-th environment. */
static JanetFuncDef vo_child_def, vo_other_def; static int32_t vo_child_envs[3]; static JanetFuncDef *vo_defs[2];
static JanetFuncEnv vo_penv0, vo_penv1, vo_frame_env, vo_new_env;
static JanetFunction *vo_new_fn;
static int g_alloc_fn_calls, g_alloc_env_calls, g_alloc_other; static size_t g_alloc_fn_size, g_alloc_env_size;
void *vo_gcalloc_stub(enum JanetMemoryType type, size_t size) {
    if (type == JANET_MEMORY_FUNCTION) { g_alloc_fn_calls++; g_alloc_fn_size = size; return vo_new_fn; }
    if (type == JANET_MEMORY_FUNCENV) { g_alloc_env_calls++; g_alloc_env_size = size; return &vo_new_env; }
    g_alloc_other++;
    return (void *)0;
}
static void vo_closure(uint32_t a, uint32_t e, int32_t elen, int32_t inh0, int32_t inh1, int have_env) {
    vo_setup(VO_WE(JOP_CLOSURE, a, e), a, 0, 0);
    JanetFunction *f = malloc(sizeof(JanetFunction) + 2 * sizeof(JanetFuncEnv *));
    __CPROVER_assume(f != (JanetFunction *)0);
    f->def = &vo_def; f->gc.flags = JANET_MEMORY_FUNCTION; f->envs[0] = &vo_penv0; f->envs[1] = &vo_penv1;
    vo_def.environments_length = 2;
    vo_def.defs = vo_defs; vo_def.defs_length = 2;
    vo_defs[0] = &vo_other_def; vo_defs[1] = &vo_child_def;
    vo_other_def.environments_length = 0; vo_other_def.environments = (int32_t *)0;
    vo_child_envs[0] = inh0; vo_child_envs[1] = inh1; vo_child_envs[2] = 0;
    vo_child_def.environments = vo_child_envs; vo_child_def.environments_length = elen;
    vo_func = f; vo_mem.fr.func = f;
    vo_frame_env.offset = JANET_FRAME_SIZE; vo_frame_env.length = VO_SLOTS; vo_frame_env.as.fiber = &vo_fiber;
    vo_mem.fr.env = have_env ? &vo_frame_env : (JanetFuncEnv *)0;
    vo_new_fn = malloc(sizeof(JanetFunction) + 3 * sizeof(JanetFuncEnv *));
    __CPROVER_assume(vo_new_fn != (JanetFunction *)0);
    vo_new_fn->def = (JanetFuncDef *)0; vo_new_fn->envs[0] = vo_new_fn->envs[1] = vo_new_fn->envs[2] = (JanetFuncEnv *)0;
    vo_new_env.offset = 0; vo_new_env.length = 0; vo_new_env.as.fiber = (JanetFiber *)0;
    g_alloc_fn_calls = g_alloc_env_calls = g_alloc_other = 0;
    JanetSignal sig = vo_run();
    __CPROVER_assert(sig == JANET_SIGNAL_DEBUG && vo_mem.fr.pc == vo_code + VO_PC0 + 1, "vm.op: execution continues at the next instruction");
    __CPROVER_assert(e < 2, "vm.op: a definition index outside the function's nested definitions raises");
    int32_t n = e == 1 ? elen : 0;
    __CPROVER_assert(g_alloc_fn_calls == 1 && g_alloc_other == 0 && g_alloc_fn_size == sizeof(JanetFunction) + (size_t) n * sizeof(JanetFuncEnv *), "vm.op: exactly one function object is allocated, with room for the definition's environments");
    __CPROVER_assert(vo_mem.slots[a].type == JANET_FUNCTION && vo_mem.slots[a].as.pointer == (void *) vo_new_fn, "vm.op: the destination slot holds the new function");
    __CPROVER_assert(e >= 2 || vo_new_fn->def == vo_defs[e], "vm.op: the new function runs the E-th nested definition");
    int captures = n > 0 && (inh0 == -1 || inh0 >= 2 || (n > 1 && (inh1 == -1 || inh1 >= 2)));
    JanetFuncEnv *own = have_env ? &vo_frame_env : &vo_new_env;
    if (captures) {
        __CPROVER_assert(vo_mem.fr.env == own && g_alloc_env_calls == (have_env ? 0 : 1), "vm.op: the running frame has one environment, created on first capture and reused afterwards");
        __CPROVER_assert(own->offset == JANET_FRAME_SIZE && own->as.fiber == &vo_fiber && own->length == VO_SLOTS, "vm.op: the frame's environment refers to the running frame: this fiber, this frame, all its slots");
        __CPROVER_assert(have_env || g_alloc_env_size == sizeof(JanetFuncEnv), "vm.op: a new environment has the size of an environment");
    } else {
        __CPROVER_assert(vo_mem.fr.env == (have_env ? &vo_frame_env : (JanetFuncEnv *)0) && g_alloc_env_calls == 0, "vm.op: without a capture of the running frame no environment is created");
    }
    if (n > 0) __CPROVER_assert(vo_new_fn->envs[0] == ((inh0 == -1 || inh0 >= 2) ? own : inh0 == 0 ? &vo_penv0 : &vo_penv1), "vm.op: environment 0 of the new function is the one its definition names");
    if (n > 1) __CPROVER_assert(vo_new_fn->envs[1] == ((inh1 == -1 || inh1 >= 2) ? own : inh1 == 0 ? &vo_penv0 : &vo_penv1), "vm.op: environment 1 of the new function is the one its definition names");
    __CPROVER_assert(vo_mem.fr.func == vo_func && vo_mem.fr.prevframe == 0 && vo_fiber.frame == JANET_FRAME_SIZE && vo_fiber.stacktop == vo_fiber.stackstart && f->envs[0] == &vo_penv0 && f->envs[1] == &vo_penv1, "vm.op: the running function and the frame are otherwise untouched");
    vo_others_kept(a);
    REACH("vm.op closure");
}
void h_vo_closure(void) { int k = nd_int();
    if (k == 0) vo_closure(0, 1, 0, 0, 0, 0); else if (k == 1) vo_closure(1, 1, 1, -1, 0, 0); else if (k == 2) vo_closure(0, 1, 1, -1, 0, 1); else if (k == 3) vo_closure(3, 1, 2, 1, -1, 0);
    else if (k == 4) vo_closure(0, 1, 2, 0, 1, 0); else if (k == 5) vo_closure(2, 1, 2, -1, -1, 0); else if (k == 6) vo_closure(0, 0, 0, 0, 0, 1); else if (k == 7) vo_closure(0, 1, 2, 1, 0, 1);
    else if (k == 8) vo_closure(0, 2, 0, 0, 0, 0); else vo_closure(0, 0xFFFF, 0, 0, 0, 0); }
#endif
