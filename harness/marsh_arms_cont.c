/* C10/C09: the container arms of unmarshal_one (marsh.c): LB_ARRAY, LB_ARRAY_WEAK, LB_TUPLE, LB_STRUCT(_PROTO), LB_TABLE(_PROTO)
 * and the weak table variants. Layout: lead byte, element / pair count (readnat), [tuple: flag word (readint)],
 * [proto variants: the prototype], then the children. The count is untrusted.
 * The REAL unmarshal_one is the entry; its recursive calls are replaced by the recording stub mc_rec_stub, which
 *   - is the contract of a nested unmarshal_one: needs at least one byte of input, consumes at least one byte and stays inside
 *     the input, stores a value of ANY type in *out (a value tagged table / struct points to a valid object of that type),
 *   - checks that it is called on the cursor the previous reader left (children are read in sequence, nothing is skipped),
 *   - records flags, the `out` slot, the two most recent values, and how many values were numbered at the time of the call.
 * Constructors are allocation contracts (janet_array, janet_tuple_begin/end, janet_struct_begin / put / end, the janet_table constructors and janet_table_put):
 * they assert their precondition (count >= 0 and not larger than the input: DOS) and record their arguments.
 * -DMA_LEAD=<lead> -DMA_KIND=<0 array,1 tuple,2 struct,3 table> -DMA_PROTO=<0|1> -DMA_CTOR=<expected constructor id> */
#include "marsh_arms.h"
#include <stddef.h>
static const uint8_t *unmarshal_one__entry(UnmarshalState *st, const uint8_t *data, Janet *out, int flags);
size_t mc_cur;                       /* ghost: offset of the cursor the last reader left */
int mc_cur_ok = 1;                   /* every reader was started on the cursor its predecessor left */
int32_t mc_len, mc_flagword; int mc_nat_calls, mc_int_calls;
int32_t mc_readnat_stub(UnmarshalState *st, const uint8_t **atdata) {
  int32_t v = nd_i32(); __CPROVER_assume(v >= 0);
  size_t at = (size_t)(*atdata - ma_in), k = nd_size(); __CPROVER_assume(k >= 1 && k <= 5 && at + k <= ma_n);
  *atdata = ma_in + at + k; mc_len = v; mc_cur = at + k; mc_nat_calls++; return v;
}
int32_t mc_readint_stub(UnmarshalState *st, const uint8_t **atdata) {
  int32_t v = nd_i32();
#ifdef MA_FLAG16
  __CPROVER_assume(v >= 0 && v < 0x8000);   /* bounded variant: flag words whose shift is defined (marshal writes 0 or 1 for tuples made by the core) */
#endif
  size_t at = (size_t)(*atdata - ma_in), k = nd_size(); __CPROVER_assume(k >= 1 && k <= 5 && at + k <= ma_n);
  mc_cur_ok = mc_cur_ok && at == mc_cur;
  *atdata = ma_in + at + k; mc_flagword = v; mc_cur = at + k; mc_int_calls++; return v;
}
/* ---- objects a nested value may refer to ---- */
JanetTable mc_ptab; struct { JanetStructHead h; } mc_pstruct_blk;
/* ---- the container under construction ---- */
int mc_ctor_calls, mc_ctor_id; int32_t mc_ctor_n; Janet *mc_child_base;
JanetArray mc_arr; uint8_t *mc_tup_blk; uint8_t *mc_str_blk; JanetTable mc_tab;
static void mc_ctor_pre(int id, int32_t n) {
  __CPROVER_assert(n >= 0, "C10 container: the constructor gets a non-negative count");
  __CPROVER_assert((size_t) n <= ma_n, "C10 container (DOS check): nothing larger than the input is allocated on behalf of an untrusted count");
  mc_ctor_calls++; mc_ctor_id = id; mc_ctor_n = n;
}
int mc_calls; int mc_flags0, mc_flags_ok = 1, mc_out_ok = 1, mc_children_at_ctor; int mc_numbered_min = 99, mc_numbered_max = -1, mc_reg_is_container = 1;
Janet mc_prev, mc_last; Janet mc_first;
#define MC_TUP ((Janet *)(mc_tup_blk + offsetof(JanetTupleHead, data)))
#define MC_STR ((JanetKV *)(mc_str_blk + offsetof(JanetStructHead, data)))
JanetArray *mc_array_stub(int32_t capacity) {
  mc_ctor_pre(0, capacity); mc_arr.gc.flags = JANET_MEMORY_ARRAY; mc_arr.count = 0; mc_arr.capacity = capacity;
  mc_arr.data = malloc(sizeof(Janet) * (size_t) capacity); __CPROVER_assume(mc_arr.data != 0); mc_child_base = mc_arr.data; mc_children_at_ctor = mc_calls; return &mc_arr;
}
JanetArray *mc_array_weak_stub(int32_t capacity) { JanetArray *a = mc_array_stub(capacity); mc_ctor_id = 1; a->gc.flags = JANET_MEMORY_ARRAY_WEAK; return a; }
Janet *mc_tuple_begin_stub(int32_t length) {
  mc_ctor_pre(2, length);
  mc_tup_blk = malloc(sizeof(JanetTupleHead) + sizeof(Janet) * (size_t) length); __CPROVER_assume(mc_tup_blk != 0);
  JanetTupleHead *h = (JanetTupleHead *) mc_tup_blk; h->gc.flags = JANET_MEMORY_TUPLE; h->length = length; h->sm_line = -1; h->sm_column = -1;
  mc_child_base = MC_TUP; mc_children_at_ctor = mc_calls; return MC_TUP;
}
int mc_end_calls, mc_children_at_end, mc_end_arg_ok;
const Janet *mc_tuple_end_stub(Janet *tuple) { mc_end_calls++; mc_children_at_end = mc_calls; mc_end_arg_ok = (tuple == MC_TUP); return tuple; }
JanetKV *mc_struct_begin_stub(int32_t count) {
  mc_ctor_pre(3, count);
  mc_str_blk = malloc(sizeof(JanetStructHead) + sizeof(JanetKV)); __CPROVER_assume(mc_str_blk != 0);
  JanetStructHead *h = (JanetStructHead *) mc_str_blk; h->gc.flags = JANET_MEMORY_STRUCT; h->length = count; h->capacity = 1; h->proto = (const JanetKV *) 0;
  return MC_STR;
}
int mc_puts, mc_put_ok = 1, mc_puts_at_end;
static void mc_put(int target_ok, Janet key, Janet value) {
  /* the p-th pair is (the value read by child 2p, the value read by child 2p + 1), counted after the prototype */
  mc_put_ok = mc_put_ok && target_ok && MA_SAME(key, mc_prev) && MA_SAME(value, mc_last) && mc_calls == MA_PROTO + 2 * (mc_puts + 1);
  mc_puts++;
}
void mc_struct_put_stub(JanetKV *st, Janet key, Janet value) { mc_put(st == MC_STR, key, value); }
const JanetKV *mc_struct_end_stub(JanetKV *st) { mc_end_calls++; mc_children_at_end = mc_calls; mc_puts_at_end = mc_puts; mc_end_arg_ok = (st == MC_STR); return st; }
static JanetTable *mc_table(int id, int32_t capacity, int memtype) {
  mc_ctor_pre(id, capacity); mc_tab.gc.flags = memtype; mc_tab.count = 0; mc_tab.capacity = 0; mc_tab.deleted = 0; mc_tab.data = 0; mc_tab.proto = 0; return &mc_tab;
}
JanetTable *mc_table_stub(int32_t capacity) { return mc_table(4, capacity, JANET_MEMORY_TABLE); }
JanetTable *mc_table_weakk_stub(int32_t capacity) { return mc_table(5, capacity, JANET_MEMORY_TABLE_WEAKK); }
JanetTable *mc_table_weakv_stub(int32_t capacity) { return mc_table(6, capacity, JANET_MEMORY_TABLE_WEAKV); }
JanetTable *mc_table_weakkv_stub(int32_t capacity) { return mc_table(7, capacity, JANET_MEMORY_TABLE_WEAKKV); }
void mc_table_put_stub(JanetTable *t, Janet key, Janet value) { mc_put(t == &mc_tab, key, value); }
/* ---- the nested reader ---- */
UnmarshalState *mc_st;
const uint8_t *mc_rec_stub(UnmarshalState *st, const uint8_t *data, Janet *out, int flags) {
  size_t at = (size_t)(data - ma_in);
  mc_cur_ok = mc_cur_ok && at == mc_cur && st == mc_st;
  __CPROVER_assume(at < ma_n);                                   /* MARSH_EOS of the nested call: raises on an exhausted input */
  mc_flags_ok = mc_flags_ok && flags == mc_flags0 + 1;
  if (mc_child_base) mc_out_ok = mc_out_ok && out == mc_child_base + (mc_calls - mc_children_at_ctor);
  int32_t numbered = janet_v_count(st->lookup) - ma_cnt0;        /* how many values this arm has numbered so far */
  if (numbered < mc_numbered_min) mc_numbered_min = numbered;
  if (numbered > mc_numbered_max) mc_numbered_max = numbered;
  Janet v; v.type = (JanetType)(nd_int() & 15); v.as.u64 = nd_u64();
  if (v.type == JANET_TABLE) v.as.pointer = &mc_ptab;
  if (v.type == JANET_STRUCT) v.as.pointer = (void *)((uint8_t *) &mc_pstruct_blk + offsetof(JanetStructHead, data));
  *out = v;
  if (mc_calls == 0) mc_first = v;
  mc_prev = mc_last; mc_last = v; mc_calls++;
  size_t k = nd_size(); __CPROVER_assume(k >= 1 && k <= ma_n - at);
  mc_cur = at + k;
  return ma_in + at + k;
}

void h_arm_container(void) {
  UnmarshalState st; Janet out = janet_wrap_nil(); ma_setup(&st); int flags = nd_int(); mc_st = &st; mc_flags0 = flags;
  if (ma_off < ma_n) __CPROVER_assume(MA_B(0) == MA_LEAD);
  const uint8_t *ret = unmarshal_one__entry(&st, MA_CUR, &out, flags);
  MA_DEPTH_OK(flags);
  __CPROVER_assert(ma_off < ma_n && mc_nat_calls == 1 && mc_len >= 0, "C10 container: one count is read");
  __CPROVER_assert(mc_ctor_calls == 1 && mc_ctor_id == MA_CTOR && mc_ctor_n == mc_len, "C09 container: built by the constructor of the kind the lead byte names (array / weak array / tuple / struct / table / weak-key, weak-value, weak table), for `count` elements");
  __CPROVER_assert(mc_cur_ok && ret == ma_in + mc_cur, "C10 container: the children are read one after the other, each from the cursor its predecessor left; the arm returns the cursor the last one left");
  __CPROVER_assert(mc_flags_ok, "C10/C19 container: every child is read one nesting level deeper (flags + 1)");
  __CPROVER_assert((size_t) mc_len <= ma_n, "C10 container (DOS check): an accepted count does not exceed the size of the input");
#if MA_KIND == 0
  __CPROVER_assert(out.type == JANET_ARRAY && out.as.pointer == (void *) &mc_arr, "C10 array: the result is the new array");
  __CPROVER_assert(mc_arr.count == mc_len && mc_arr.count <= mc_arr.capacity, "C10 array: count == the count in the image <= capacity");
  __CPROVER_assert(mc_calls == mc_len && mc_out_ok, "C10 array: element i is read into slot i, for every i < count, and nothing else is read");
  __CPROVER_assert(mc_len == 0 || (mc_numbered_min == 1 && mc_numbered_max == 1), "C09 array: the array is numbered BEFORE its first element is read (an element can refer back to the array: cycles)");
  if (mc_len > 1) REACH("array with two or more elements");
#elif MA_KIND == 1
  __CPROVER_assert(out.type == JANET_TUPLE && out.as.pointer == (void *) MC_TUP, "C10 tuple: the result is the new tuple");
  __CPROVER_assert(mc_int_calls == 1 && mc_calls == mc_len && mc_out_ok, "C10 tuple: one flag word, then element i is read into slot i, for every i < length, and nothing else is read");
  __CPROVER_assert(mc_end_calls == 1 && mc_end_arg_ok && mc_children_at_end == mc_len, "C10 tuple: finished (hashed) by janet_tuple_end once, after all elements are in place");
  __CPROVER_assert(mc_len == 0 || (mc_numbered_min == 0 && mc_numbered_max == 0), "C09 tuple: the tuple is numbered only when it is complete - while its elements are read it has no number, so no back reference to an incomplete tuple is possible");
  { JanetTupleHead *h = (JanetTupleHead *) mc_tup_blk;
    __CPROVER_assert((h->gc.flags & 0xFFFF) == JANET_MEMORY_TUPLE && h->length == mc_len, "C10 tuple: the flag word of the image cannot touch the collector's bits (memory type, reachable, disabled) nor the length");
    __CPROVER_assert(((uint32_t) h->gc.flags >> 16) == ((uint32_t) mc_flagword & 0xFFFF), "C09 tuple: the flag bits (bracket tuple) read back as written by marshal (janet_tuple_flag >> 16)"); }
  if (mc_len > 1) REACH("tuple with two or more elements");
#elif MA_KIND == 2
  __CPROVER_assert(out.type == JANET_STRUCT && out.as.pointer == (void *) MC_STR, "C10 struct: the result is the new struct");
  __CPROVER_assert(mc_calls == MA_PROTO + 2 * mc_len && mc_puts == mc_len && mc_put_ok, "C09 struct: `count` pairs are read, key then value, and pair p is entered by janet_struct_put(key p, value p)");
  __CPROVER_assert(mc_end_calls == 1 && mc_end_arg_ok && mc_puts_at_end == mc_len && mc_children_at_end == mc_calls, "C10 struct: finished by janet_struct_end once, after all pairs are entered");
  __CPROVER_assert(mc_calls == 0 || (mc_numbered_min == 0 && mc_numbered_max == 0), "C09 struct: the struct is numbered only when it is complete - no back reference to an incomplete struct is possible");
  { JanetStructHead *h = (JanetStructHead *) mc_str_blk;
#if MA_PROTO
    __CPROVER_assert(mc_first.type == JANET_STRUCT && h->proto == (const JanetKV *)((uint8_t *) &mc_pstruct_blk + offsetof(JanetStructHead, data)), "C10 struct: a prototype is accepted only if it is a struct, and it is the first value read");
#else
    __CPROVER_assert(h->proto == (const JanetKV *) 0, "C10 struct: no prototype unless the lead byte says so");
#endif
  }
  if (mc_len > 0) REACH("struct with at least one pair");
#else
  __CPROVER_assert(out.type == JANET_TABLE && out.as.pointer == (void *) &mc_tab, "C10 table: the result is the new table");
  __CPROVER_assert(mc_calls == MA_PROTO + 2 * mc_len && mc_puts == mc_len && mc_put_ok, "C09 table: `count` pairs are read, key then value, and pair p is entered by janet_table_put(key p, value p)");
  __CPROVER_assert(mc_calls == 0 || (mc_numbered_min == 1 && mc_numbered_max == 1), "C09 table: the table is numbered BEFORE its prototype and pairs are read (cycles)");
#if MA_PROTO
  __CPROVER_assert(mc_first.type == JANET_TABLE && mc_tab.proto == &mc_ptab, "C10 table: a prototype is accepted only if it is a table, and it is the first value read");
#else
  __CPROVER_assert(mc_tab.proto == (JanetTable *) 0, "C10 table: no prototype unless the lead byte says so");
#endif
  if (mc_len > 0) REACH("table with at least one pair");
#endif
  MA_ASSERT_PUSHED_ONCE(st, out, "C09 container: the container gets the next reference number, exactly once", "C09 container: earlier reference numbers keep their values");
  if (mc_len == 0) REACH("empty container");
  REACH("container arm");
}
