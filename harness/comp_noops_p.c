/* C15/C02: janet_bytecode_remove_noops (bytecode.c) - the part that closes for EVERY bytecode length with loop contracts.
 *
 * The code's pc map (local pc_map, scratch memory) is made observable through the ghost g_pcmap (recorded by the
 * janet_smalloc model; janet_sfree is modelled as a no-op so that the map can be read in the post-state).  Proved:
 *   - the pc map IS the counting map: pc_map[0] = 0 and pc_map[k+1] = pc_map[k] + [old instruction k is not a noop]
 *     (for the ghost pc g_k, left unconstrained), hence pc_map[k] <= k and
 *   - new bytecode_length = pc_map[old length] = the number of non-noop instructions;
 *   - symbol-map entry g_e (ghost): births and deaths are remapped through the pc map, upvalue entries
 *     (birth = UINT32_MAX) are untouched, slot index unchanged;
 *   - frame (assigns): only bytecode, bytecode_length, the source-map and symbol-map arrays change;
 *   - memory safety / no signed overflow of every access EXCEPT the look-ups pc_map[jump target] and pc_map[birth/death]:
 *     their safety needs "every jump target / every symbol entry is in range", a universally quantified precondition
 *     that is consumed at the loop index; the ghost-index technique cannot provide it (DESIGN R2) and quantified loop
 *     invariants are ignored by the SAT back end and time out with z3 (probed).  Those obligations, and the clause
 *     "instruction g lands at pc_map[g] with its jump target remapped", are decided by the bounded units
 *     bytecode.remove_noops.n4/.n6 (harness/comp_noops.c). */
#include "prelude.h"

uint32_t *g_pcmap;            /* ghost: the code's pc_map */
int32_t g_n;                  /* ghost: old bytecode length */
int32_t g_k; uint32_t g_oldk; /* ghost pc and the old instruction there */
int32_t g_e;                  /* ghost symbol-map entry and its old content */
uint32_t g_birth0, g_death0, g_slot0;

void *janet_smalloc(size_t n) { void *p = malloc(n); __CPROVER_assume(p != (void *)0); g_pcmap = (uint32_t *)p; return p; }
void janet_sfree(void *p) { (void)p; }
/* realloc of the bytecode: new block (content not claimed in this unit), old block freed, never NULL */
void *vc_realloc_bc(void *p, size_t n) {
  void *q = malloc(n);
  __CPROVER_assume(q != (void *)0);
  free(p);
  return q;
}

#define NN(x) ((((x) & 0x7F) != JOP_NOOP) ? 1u : 0u)
#define SYM(def, e) ((def)->symbolmap[e])

#ifdef NOOPS_NOSM
#define REQ_SOURCEMAP(def) __CPROVER_requires((def)->sourcemap == (JanetSourceMapping *)0)
#define ASSIGNS_SOURCEMAP(def)
#else
#define REQ_SOURCEMAP(def) __CPROVER_requires(__CPROVER_is_fresh((def)->sourcemap, sizeof(JanetSourceMapping) * (size_t)(def)->bytecode_length))
#define ASSIGNS_SOURCEMAP(def) __CPROVER_assigns(__CPROVER_object_whole((def)->sourcemap))
#endif

void janet_bytecode_remove_noops_c(JanetFuncDef *def)
__CPROVER_requires(__CPROVER_is_fresh(def, sizeof(*def)))
__CPROVER_requires(def->bytecode_length >= 0 && def->bytecode_length <= (1 << 26))
__CPROVER_requires(__CPROVER_is_fresh(def->bytecode, sizeof(uint32_t) * (size_t)def->bytecode_length))
REQ_SOURCEMAP(def)
__CPROVER_requires(def->symbolmap_length >= 0 && def->symbolmap_length <= (1 << 20))
__CPROVER_requires(__CPROVER_is_fresh(def->symbolmap, sizeof(JanetSymbolMap) * (size_t)def->symbolmap_length))
/* ghosts */
__CPROVER_requires(g_n == def->bytecode_length && g_k >= 0 && (g_k < g_n ==> g_oldk == def->bytecode[g_k]))
__CPROVER_requires(g_e >= 0 && (g_e < def->symbolmap_length ==>
    (g_birth0 == SYM(def, g_e).birth_pc && g_death0 == SYM(def, g_e).death_pc && g_slot0 == SYM(def, g_e).slot_index &&
     (g_birth0 == UINT32_MAX || (g_birth0 <= g_death0 && g_death0 <= (uint32_t)g_n)))))   /* compile.c janetc_pop_funcdef */
__CPROVER_assigns(def->bytecode_length, def->bytecode, g_pcmap)
__CPROVER_assigns(__CPROVER_object_whole(def->bytecode), __CPROVER_object_whole(def->symbolmap))
ASSIGNS_SOURCEMAP(def)
__CPROVER_frees(def->bytecode)
__CPROVER_ensures(g_pcmap[0] == 0)
__CPROVER_ensures(g_k < g_n ==> g_pcmap[g_k + 1] == g_pcmap[g_k] + NN(g_oldk))
__CPROVER_ensures(g_k <= g_n ==> g_pcmap[g_k] <= (uint32_t)g_k)
__CPROVER_ensures(def->bytecode_length == (int32_t)g_pcmap[g_n] && def->bytecode_length >= 0 && def->bytecode_length <= g_n)
__CPROVER_ensures(__CPROVER_rw_ok(def->bytecode, sizeof(uint32_t) * (size_t)def->bytecode_length))
__CPROVER_ensures((g_e < def->symbolmap_length && g_birth0 == UINT32_MAX) ==>
    (SYM(def, g_e).birth_pc == UINT32_MAX && SYM(def, g_e).death_pc == g_death0))
__CPROVER_ensures((g_e < def->symbolmap_length && g_birth0 != UINT32_MAX) ==>
    (SYM(def, g_e).birth_pc == g_pcmap[g_birth0] && SYM(def, g_e).death_pc == g_pcmap[g_death0]))
__CPROVER_ensures(g_e < def->symbolmap_length ==> SYM(def, g_e).slot_index == g_slot0)
;

void h_remove_noops_p(void) {
  JanetFuncDef *def;
  janet_bytecode_remove_noops(def);
  REACH("normal return of janet_bytecode_remove_noops");
}
