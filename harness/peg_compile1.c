/* C12 / C10: peg_compile1 (peg.c) - the dispatcher of the PEG compiler - returns the index of an INSTRUCTION START of the
 * bytecode for every kind of pattern: that is the contract (h_compile1 in peg_compile.c) all spec_* units rely on for
 * their sub-rule words (wf_peg: RULEREF). One unit per kind of pattern (-DC1_<kind>):
 *
 *   prim     boolean / number / string / buffer: the rule is emitted AT the entry count n0 and n0 is returned
 *   cache    a pattern found in the rule cache returns the cached index, emits nothing
 *   keyword  :name is resolved through the grammar scopes (default grammar last), then compiled as above
 *   tuple    (special args...) / (n patt): dispatch; the rule the special emits starts at n0, which is returned
 *   struct   {:main ...}: new scope holding the KEYWORD keys only, main rule compiled in it, its index returned
 *   table    @{:main ...}: same - only the keyword keys of the user's table are copied, the table itself is not cached
 *            (/repo 4f105a7; a clone with all keys, or a cache entry under the entry count, violates INV)
 *
 * RULE CACHE INVARIANT (INV) - needed by `cache`, must be maintained by everything that writes a grammar table:
 *   every non-keyword key of every table in the scope chain is bound to the number of an instruction start that
 *   peg_compile1 returns for that very pattern (no user data, no stale index).
 * The grammar tables are abstract here: janet_table_get/rawget/get_ex/put/clone are stubs that log and obey INV.
 */
#include "peg_compile.c"

#ifndef C1_KIND_LO
#define C1_KIND_LO 0
#define C1_KIND_HI 3
#endif
#define MKJ(x, t, v) do { (x).type = (t); (x).as.u64 = (v); } while (0)

static JanetTable T_ROOT, T_MID, T_NEW, T_DEF, T_USER;
static const uint8_t G_MAIN_SYM[8] = "main";

/* ---- ghost ---- */
static int g_hit; static uint32_t g_cached;               /* the cache lookup of this call finds g_cached (INV: < count) */
static int g_lookups; static JanetTable *g_lk_tab; static Janet g_lk_key; static int g_lk_raw;
static int g_puts; static JanetTable *g_put_tab[4]; static Janet g_put_key[4], g_put_val[4];
static int g_user_nonkw;                                  /* the user's table has a key that is not a keyword */
static int g_new_is_clone;
static JanetKV g_user_kv[2];                              /* slots of the user's grammar table */
static Janet g_main_val; static int g_main_asked;
static JanetTable *g_scope;                               /* table the last keyword was found in */
static Janet g_resolved;
static int g_exs;
static int g_rec; static Janet g_rec_peg; static JanetTable *g_rec_grammar; static uint32_t g_rec_ret;
static int g_rep; static int32_t g_rep_argc; static const Janet *g_rep_argv;
static uint32_t g_bytes_len; static const uint8_t *g_bytes_ptr; static int g_bytes_calls;

static int is_main_kw(Janet k) { return k.type == JANET_KEYWORD && k.as.pointer == (void *) G_MAIN_SYM; }

const uint8_t *h_csymbol(const char *s) { return G_MAIN_SYM; }           /* janet_ckeywordv("main") */

Janet h_table_get(JanetTable *t, Janet key) {
  __CPROVER_assert(t != NULL, "janet_table_get.pre: table");
  if (t == &T_DEF) {                                       /* default grammar (dyn :peg-grammar): user data, any value */
    Janet v; v.type = nd_int() ? JANET_NUMBER : JANET_NIL; v.as.number = 2.0; return v;
  }
  g_lookups++; g_lk_tab = t; g_lk_key = key; g_lk_raw = 0;
  if (g_hit) return janet_wrap_number((double) g_cached);
  return janet_wrap_nil();
}
Janet h_table_rawget(JanetTable *t, Janet key) {
  __CPROVER_assert(t != NULL, "janet_table_rawget.pre: table");
  if (is_main_kw(key)) { g_main_asked++; __CPROVER_assert(t == &T_NEW, "C12 grammar: :main is looked up in the NEW scope only (a grammar must bring its own :main)"); return g_main_val; }
  g_lookups++; g_lk_tab = t; g_lk_key = key; g_lk_raw = 1;
  if (g_hit) return janet_wrap_number((double) g_cached);
  return janet_wrap_nil();
}
Janet h_table_get_ex(JanetTable *t, Janet key, JanetTable **which) {
  __CPROVER_assert(t != NULL && key.type == JANET_KEYWORD, "janet_table_get_ex.pre: keyword looked up in a scope");
  __CPROVER_assert(t == g_scope, "C12 scoping: a keyword found in an outer scope is resolved further from THAT scope");
  g_exs++;
  if (nd_int()) return janet_wrap_nil();                    /* not found: *which untouched */
  JanetTable *w = nd_int() ? &T_MID : &T_ROOT;
  if (t == &T_ROOT) w = &T_ROOT;                            /* found at t or further up the proto chain */
  *which = w; g_scope = w;
  Janet v; v.type = nd_int() ? JANET_KEYWORD : JANET_NUMBER; v.as.u64 = 0; if (v.type == JANET_NUMBER) v.as.number = 2.0; else v.as.pointer = (void *) &T_USER;
  return v;
}
void h_table_put(JanetTable *t, Janet key, Janet value) {
  __CPROVER_assert(g_puts < 4, "harness: put log large enough");
  g_put_tab[g_puts] = t; g_put_key[g_puts] = key; g_put_val[g_puts] = value; g_puts++;
  /* INV at every write of a grammar scope: a non-keyword key is bound only to the index of the rule being compiled */
  __CPROVER_assert(key.type == JANET_KEYWORD || (value.type == JANET_NUMBER && value.as.number == (double) g_n0),
                   "C12 rule cache INV: a non-keyword key is only ever bound to the index of the rule now being emitted");
}
JanetTable *h_table_clone(JanetTable *t) {
  __CPROVER_assert(t == &T_USER, "C12 grammar: clones the user's table");
  g_new_is_clone = 1; T_NEW.proto = t->proto;
  return &T_NEW;
}
JanetTable *h_table(int32_t capacity) {
  __CPROVER_assert(capacity >= 0, "janet_table.pre: capacity");
  T_NEW.proto = NULL; g_new_is_clone = 0;
  return &T_NEW;
}
/* the recursive call for the :main rule of a struct / table grammar */
uint32_t h_compile1_main(Builder *b, Janet peg) {
  __CPROVER_assert(b == G_B && g_rec == 0, "peg_compile1.pre: the builder; one recursive call");
  g_rec++; g_rec_peg = peg; g_rec_grammar = b->grammar;
  __CPROVER_assert(b->grammar == &T_NEW && T_NEW.proto == &T_MID, "C12 grammar: :main is compiled in the new scope, whose parent is the enclosing scope");
  __CPROVER_assert(!(g_new_is_clone && g_user_nonkw), "C12 rule cache INV: a new scope holds only the KEYWORD keys of the user's grammar (any other key would be taken for a cached rule index)");
  uint32_t r = h_compile1(b, peg);
  g_rec_ret = r;
  return r;
}
void h_spec_repeat(Builder *b, int32_t argc, const Janet *argv) {
  g_rep++; g_rep_argc = argc; g_rep_argv = argv;
}
const void *h_strbinsearch(const void *tab, size_t tabcount, size_t itemsize, const uint8_t *key) {
  __CPROVER_assert(tab == (const void *) &peg_specials && tabcount == sizeof(peg_specials) / sizeof(SpecialPair) && itemsize == sizeof(SpecialPair), "C12 dispatch: the whole table of specials is searched");
  size_t k = nd_size();
  if (k >= tabcount) return NULL;
  return (const char *) tab + k * itemsize;
}
void h_emit_bytes_stub(Builder *b, uint32_t op, int32_t len, const uint8_t *bytes) {
  __CPROVER_assert(b == G_B && op == RULE_LITERAL, "C12 literal: emitted as RULE_LITERAL");
  __CPROVER_assert(len >= 0, "emit_bytes.pre: non-negative length");
  g_bytes_calls++; g_bytes_len = (uint32_t) len; g_bytes_ptr = bytes;
  /* contract proved in peg.wf.emit_bytes: [op, len, ceil(len/4) words] appended at the current count */
  int32_t cnt = CNT(b->bytecode); int32_t words = (len + 3) >> 2;
  __CPROVER_assume(cnt + 2 + words < BCAP);
  uint32_t *old = b->bytecode; uint32_t *p = vec_u32(BCAP, cnt + 2 + words);
  for (int32_t j = 0; j < BCAP; j++) if (j < cnt) p[j] = old[j];
  p[cnt] = op; p[cnt + 1] = (uint32_t) len;
  if (old) free(old - 2);
  b->bytecode = p;
}

uint32_t peg_compile1__entry(Builder *b, Janet peg);

static void c1_setup(Builder *b, int32_t n0c, int32_t capc) {
  mk_builder(b, n0c, capc);
  T_ROOT.proto = NULL; T_MID.proto = &T_ROOT; T_DEF.proto = NULL; T_USER.proto = NULL;
  b->grammar = &T_MID; b->default_grammar = nd_int() ? &T_DEF : NULL;
  g_scope = &T_MID;
  g_hit = 0; g_lookups = 0; g_puts = 0; g_rec = 0; g_rep = 0; g_exs = 0; g_main_asked = 0; g_bytes_calls = 0;
  g_user_nonkw = nd_int() ? 1 : 0;
}

#if !defined(C1_sorted) && !defined(C1_compile_peg)
static int g_kind;
static void c1_case(int32_t n0c, int32_t capc) {
  Builder B; c1_setup(&B, n0c, capc);
  int depth0 = B.depth; Janet form0; MKJ(form0, JANET_NIL, 7); B.form = form0;
  Janet peg;
  int32_t cnt0 = CNT(B.bytecode);

#if defined(C1_prim)
  /* ---------------- boolean / number / string / buffer ---------------- */
  int32_t slen; const uint8_t *sdata; JanetBuffer buf;
  { JanetStringHead *h = malloc(sizeof(JanetStringHead) + 6); __CPROVER_assume(h != NULL);
    slen = nd_i32(); __CPROVER_assume(slen >= 0 && slen <= 5); h->length = slen; sdata = h->data;
    buf.count = slen; buf.capacity = 6; buf.data = (uint8_t *) sdata; }
  int kind = g_kind;                /* a CONSTANT per call site (h_c1): peg_compile1's switch on the pattern type is then followed into one case only */
  if (kind == 0) MKJ(peg, JANET_BOOLEAN, nd_int() ? 1 : 0);
  else if (kind == 1) { peg.type = JANET_NUMBER; peg.as.number = nd_double(); }
  else if (kind == 2) { peg.type = JANET_STRING; peg.as.pointer = (void *) sdata; }
  else { peg.type = JANET_BUFFER; peg.as.pointer = (void *) &buf; }
  uint32_t ret = peg_compile1__entry(&B, peg);
  __CPROVER_assert(ret == g_n0, "C12 compile1: a primitive pattern is emitted at the entry count and that index is returned (an instruction start)");
  __CPROVER_assert(g_lookups == 1 && g_lk_tab == &T_MID && !g_lk_raw && JEQ(g_lk_key, peg), "C12 compile1: the cache is consulted through the whole scope chain for primitive patterns");
  __CPROVER_assert(g_puts == 1 && g_put_tab[0] == &T_ROOT && JEQ(g_put_key[0], peg) && g_put_val[0].type == JANET_NUMBER && g_put_val[0].as.number == (double) ret,
                   "C12 rule cache INV: the primitive pattern is cached in the ROOT scope under the index that is returned");
  __CPROVER_assert(depth0 != 0, "C12 compile1: recursion depth exhausted raises");
  __CPROVER_assert(B.depth == depth0 && B.grammar == &T_MID && JEQ(B.form, form0), "C12 compile1: depth, grammar scope and error form restored");
  if (kind == 0) {
    post_rule(&B, 2);
    OKW(W(0) == (peg.as.u64 & 1 ? RULE_NCHAR : RULE_NOTNCHAR) && W(1) == 0, "true = [RULE_NCHAR, 0] (always matches), false = [RULE_NOTNCHAR, 0] (never matches)");
#if C1_KIND_LO <= 0
    REACH("peg_compile1 returns (boolean)");
#endif
  } else if (kind == 1) {
    post_rule(&B, 2);
    OKW(g_ic == 1 && JEQ(g_i_arg[0], peg), "the count comes from peg_getinteger (non-integers raise)");
    int64_t n = g_i_ret[0];
    OKW(n >= 0 ? (W(0) == RULE_NCHAR && W(1) == (uint32_t) n) : (W(0) == RULE_NOTNCHAR && (int64_t) W(1) == -n), "n >= 0: [RULE_NCHAR, n]; n < 0: [RULE_NOTNCHAR, -n]");
#if C1_KIND_LO <= 1 && C1_KIND_HI >= 1
    if (n >= 0) REACH("peg_compile1 returns (n)");
    if (n < 0) REACH("peg_compile1 returns (-n)");
#endif
  } else {
    __CPROVER_assert(g_bytes_calls == 1 && g_bytes_len == (uint32_t) slen && g_bytes_ptr == sdata, "C12 literal: emit_bytes gets the string's / buffer's own bytes and length");
    g_len = (uint32_t) CNT(B.bytecode);
    __CPROVER_assert(B.bytecode[g_n0] == RULE_LITERAL && B.bytecode[g_n0 + 1] == (uint32_t) slen && g_len == g_n0 + 2 + (((uint32_t) slen + 3) >> 2), "C12 literal: the literal rule starts at the returned index");
#if C1_KIND_HI >= 3
    if (kind == 2) REACH("peg_compile1 returns (string)");
    if (kind == 3) REACH("peg_compile1 returns (buffer)");
#endif
  }

#elif defined(C1_cache)
  /* ---------------- cache hit ---------------- */
  g_hit = 1; g_cached = nd_u32(); __CPROVER_assume(cnt0 > 0 && g_cached < (uint32_t) cnt0);      /* INV */
  int kind = nd_int();
  JanetTupleHead *th = malloc(sizeof(JanetTupleHead) + sizeof(Janet)); __CPROVER_assume(th != NULL); th->length = 1;
  if (kind == 0) { peg.type = JANET_NUMBER; peg.as.number = nd_double(); }
  else if (kind == 1) { peg.type = JANET_TUPLE; peg.as.pointer = (void *) th->data; }
  else { peg.type = nd_int(); peg.as.u64 = nd_u64(); __CPROVER_assume(peg.type != JANET_KEYWORD && peg.type != JANET_TUPLE); }
  uint32_t ret = peg_compile1__entry(&B, peg);
  __CPROVER_assert(ret == g_cached && ret < (uint32_t) CNT(B.bytecode), "C12 compile1: a cached pattern returns its cached index - an instruction start below the count (INV)");
  __CPROVER_assert(CNT(B.bytecode) == cnt0 && g_puts == 0 && g_cc == 0, "C12 compile1: a cache hit emits nothing and caches nothing");
  __CPROVER_assert(g_lookups == 1 && JEQ(g_lk_key, peg) && g_lk_tab == &T_MID, "C12 compile1: the pattern itself is the cache key, looked up from the current scope");
  __CPROVER_assert((peg.type == JANET_TUPLE) == (g_lk_raw == 1), "C12 compile1: tuples are cached per scope (rawget, they may mention keywords), everything else through the scope chain");
  __CPROVER_assert(B.depth == depth0 && B.grammar == &T_MID && JEQ(B.form, form0), "C12 compile1: depth, grammar scope and error form restored");
  if (kind == 0) REACH("peg_compile1 returns (cached number)");
  if (kind == 1) REACH("peg_compile1 returns (cached tuple)");

#elif defined(C1_keyword)
  /* ---------------- :name ---------------- */
  peg.type = JANET_KEYWORD; peg.as.pointer = (void *) &T_USER;
  g_hit = nd_int() ? 1 : 0; g_cached = nd_u32(); __CPROVER_assume(!g_hit || (cnt0 > 0 && g_cached < (uint32_t) cnt0));      /* INV */
  uint32_t ret = peg_compile1__entry(&B, peg);
  /* the harness scopes bind keywords to keywords or to the number 2 */
  __CPROVER_assert(g_exs >= 1, "C12 compile1: keywords are resolved through the scope chain");
  __CPROVER_assert(g_lookups == 1 && g_lk_tab == g_scope && g_lk_key.type == JANET_NUMBER, "C12 scoping: the cache is consulted from the scope the keyword was found in, with the resolved pattern as key");
  __CPROVER_assert(B.depth == depth0 && B.grammar == &T_MID && JEQ(B.form, form0), "C12 compile1: depth, grammar scope and error form restored (the scope switch of the reference does not leak)");
  if (g_hit) {
    __CPROVER_assert(ret == g_cached && CNT(B.bytecode) == cnt0 && g_puts == 0, "C12 compile1: a reference to an already compiled rule returns that rule's index (recursion / sharing) and emits nothing");
    REACH("peg_compile1 returns (keyword resolved to a cached rule)");
  } else {
    __CPROVER_assert(ret == g_n0, "C12 compile1: the pattern a keyword resolves to is emitted at the entry count, which is returned");
    post_rule(&B, 2);
    OKW((W(0) == RULE_NCHAR || W(0) == RULE_NOTNCHAR) && g_ic == 1 && g_i_arg[0].type == JANET_NUMBER, "the resolved pattern (a number in this harness) is compiled, not the keyword");
    __CPROVER_assert(g_puts == 1 && g_put_tab[0] == &T_ROOT && g_put_key[0].type == JANET_NUMBER && g_put_val[0].as.number == (double) ret, "C12 rule cache INV: the resolved primitive pattern is cached in the root scope under the returned index");
    if (g_exs == 1) REACH("peg_compile1 returns (keyword resolved in one step)");
    if (g_exs == 2) REACH("peg_compile1 returns (keyword -> keyword -> pattern)");
    if (g_scope == &T_ROOT) REACH("peg_compile1 returns (keyword found in an outer scope)");
  }

#elif defined(C1_tuple)
  /* ---------------- (special ...) / (n patt) ---------------- */
  JanetTupleHead *th = malloc(sizeof(JanetTupleHead) + 3 * sizeof(Janet)); __CPROVER_assume(th != NULL);
  int32_t tlen = nd_i32(); __CPROVER_assume(tlen >= 0 && tlen <= 3); th->length = tlen;
  Janet *td = (Janet *) th->data;
  td[0].type = nd_int(); td[0].as.number = nd_double();
  peg.type = JANET_TUPLE; peg.as.pointer = (void *) td;
  uint32_t ret = peg_compile1__entry(&B, peg);
  __CPROVER_assert(ret == g_n0, "C12 compile1: a special form's rule starts at the entry count (spec_* contract) and that index is returned");
  __CPROVER_assert(tlen >= 1, "C12 compile1: the empty tuple raises");
  __CPROVER_assert(g_lookups == 1 && g_lk_raw == 1 && g_lk_tab == &T_MID, "C12 compile1: tuples are looked up in the current scope only");
  __CPROVER_assert(g_puts == 1 && g_put_tab[0] == &T_MID && JEQ(g_put_key[0], peg) && g_put_val[0].as.number == (double) ret, "C12 rule cache INV: the tuple is cached in the CURRENT scope under the returned index (before its body is compiled: recursion through references finds it)");
  __CPROVER_assert(depth0 != 0 && B.depth == depth0 && B.grammar == &T_MID && JEQ(B.form, form0), "C12 compile1: depth exhausted raises; depth, scope and form restored");
  /* h_spec_repeat logs the direct call spec_repeat(b, len, tup) AND - being a type-compatible target of the call through
   * the table of specials - stands for the special that is dispatched to */
  if (td[0].type == JANET_NUMBER) {
    __CPROVER_assert(td[0].as.number >= 0 && g_rep == 1 && g_rep_argc == tlen && g_rep_argv == td, "C12 compile1: (n patt) is spec_repeat on the whole tuple, n >= 0 (a negative count raises)");
    REACH("peg_compile1 returns ((n patt) shorthand)");
  } else {
    __CPROVER_assert(td[0].type == JANET_SYMBOL, "C12 compile1: the head of a tuple is an integer or a symbol, else raise");
    __CPROVER_assert(g_rep == 0 || (g_rep == 1 && g_rep_argc == tlen - 1 && g_rep_argv == td + 1), "C12 compile1: a special receives the tuple's elements without the head");
    if (g_rep == 1) REACH("peg_compile1 returns (special form)");
  }

#elif defined(C1_struct) || defined(C1_table)
  /* ---------------- {:main ...} / @{:main ...} ---------------- */
  g_main_val.type = nd_int(); g_main_val.as.u64 = nd_u64();
#ifdef C1_struct
  JanetStructHead *sh = malloc(sizeof(JanetStructHead) + 2 * sizeof(JanetKV)); __CPROVER_assume(sh != NULL);
  sh->capacity = 2; sh->length = nd_i32();
  JanetKV *kv = (JanetKV *) sh->data;
  kv[0].key.type = nd_int(); kv[1].key.type = nd_int();
  peg.type = JANET_STRUCT; peg.as.pointer = (void *) kv;
#else
  T_USER.capacity = 2; T_USER.count = nd_i32(); T_USER.deleted = 0; T_USER.data = g_user_kv;
  g_user_kv[0].key.type = nd_int(); g_user_kv[1].key.type = nd_int();
  g_user_nonkw = (g_user_kv[0].key.type != JANET_KEYWORD && g_user_kv[0].key.type != JANET_NIL) || (g_user_kv[1].key.type != JANET_KEYWORD && g_user_kv[1].key.type != JANET_NIL);
  peg.type = JANET_TABLE; peg.as.pointer = (void *) &T_USER;
#endif
  uint32_t ret = peg_compile1__entry(&B, peg);
  __CPROVER_assert(g_main_asked == 1 && g_main_val.type != JANET_NIL, "C12 grammar: a grammar without its own :main raises");
  __CPROVER_assert(g_rec == 1 && JEQ(g_rec_peg, g_main_val) && ret == g_rec_ret, "C12 compile1: a grammar compiles to the rule of its :main pattern, whose index is returned (an instruction start by the contract of the recursive call)");
  __CPROVER_assert(ret < (uint32_t) CNT(B.bytecode), "C12 compile1: returned index below the count");
  __CPROVER_assert(depth0 != 0 && B.depth == depth0 && B.grammar == &T_MID && JEQ(B.form, form0), "C12 compile1: depth, grammar scope and error form restored (the new scope does not leak)");
  { int j = nd_int();
    if (j >= 0 && j < g_puts && JEQ(g_put_key[j], peg))
      __CPROVER_assert(g_put_val[j].type == JANET_NUMBER && g_put_val[j].as.number == (double) ret, "C12 rule cache INV: a cache entry for the grammar itself is the index that is returned for it (a second use of the same grammar object gets the same, valid rule)"); }
#ifdef C1_struct
  __CPROVER_assert(g_puts <= 2, "C12 grammar: at most one scope entry per struct slot, the struct itself is not cached");
  REACH("peg_compile1 returns (struct grammar)");
#else
  __CPROVER_assert(g_puts <= 2, "C12 grammar: at most one scope entry per table slot, the table itself is not cached (it compiles to the rule of :main, not to the entry count)");
  REACH("peg_compile1 returns (table grammar)");
  if (g_user_nonkw) REACH("peg_compile1 returns (table grammar with a non-keyword key: skipped)");
#endif
#else
#error "no C1 case"
#endif
  (void) cnt0;
}
void h_c1(void) {
#ifdef C1_prim
  int sel = nd_int();
  for (int k = C1_KIND_LO; k <= C1_KIND_HI; k++) if (sel == k) { g_kind = k; if (nd_int()) c1_case(0, 0); else c1_case(N0MAX, BCAP); return; }
#else
  if (nd_int()) c1_case(0, 0); else c1_case(N0MAX, BCAP);
#endif
}
#endif

#ifdef C1_sorted
/* janet_strbinsearch needs peg_specials sorted strictly ascending by name (bytewise) */
void h_sorted(void) {
  unsigned k = nd_uint(); unsigned n = sizeof(peg_specials) / sizeof(SpecialPair);
  __CPROVER_assume(k < n - 1);
  const char *a = peg_specials[k].name, *b = peg_specials[k + 1].name;
  int cmp = 0;
  for (int i = 0; i < 12; i++) {
    unsigned char ca = (unsigned char) a[i], cb = (unsigned char) b[i];
    if (ca != cb) { cmp = ca < cb ? -1 : 1; break; }
    if (ca == 0) break;
  }
  __CPROVER_assert(cmp < 0, "C12 dispatch: peg_specials is sorted strictly ascending (precondition of the binary search: every special is found, none twice)");
  __CPROVER_assert(peg_specials[k].special != NULL && peg_specials[n - 1].special != NULL, "C12 dispatch: every entry names a compiler function");
  REACH("table scanned");
}
#endif

#ifdef C1_compile_peg
/* compile_peg: the builder starts with absent vectors, nexttag 1 (0 = untagged), full depth, empty root scope */
static int g_cp_calls;
uint32_t h_compile1_top(Builder *b, Janet peg) {
  g_cp_calls++;
  __CPROVER_assert(b->bytecode == NULL && b->constants == NULL, "C12 compile_peg: compilation starts with empty bytecode and constant vectors (rule 0 is the top rule)");
  __CPROVER_assert(b->nexttag == 1, "C12 compile_peg: tag numbering starts at 1 (0 means untagged)");
  __CPROVER_assert(b->depth == JANET_RECURSION_GUARD && b->has_backref == 0, "C12 compile_peg: full recursion budget, no back-references yet");
  __CPROVER_assert(b->grammar == &T_NEW && b->tags == &T_NEW, "C12 compile_peg: fresh scope and tag tables");
  return 0;
}
static JanetPeg G_PEG; static int g_mk;
JanetPeg *h_make_peg_stub(Builder *b) { __CPROVER_assert(g_cp_calls == 1, "C12 compile_peg: the peg is built after compilation"); g_mk++; return &G_PEG; }
void h_compile_peg(void) {
  Janet x; x.type = nd_int(); x.as.u64 = nd_u64();
  g_cp_calls = 0; g_mk = 0;
  JanetPeg *p = compile_peg(x);
  __CPROVER_assert(p == &G_PEG && g_mk == 1 && g_cp_calls == 1, "C12 compile_peg: one compilation, one peg");
  REACH("compile_peg returns");
}
#endif
