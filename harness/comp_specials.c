/* C02: the special forms of the core language (if, do, upscope, break, def, var, set, quote, splice, quasiquote, fn).
 *
 * Every unit takes ONE real special-form compiler function of specials.c together with the real scope handling
 * (janetc_scope / janetc_popscope / janetc_popscope_keepslot, compile.c), the real target selection (janetc_gettarget), the
 * real emitters (janetc_emit, janetc_emit_si/s/su/sss, janetc_copy with janetc_movenear / janetc_moveback / janetc_loadconst,
 * emit.c). Sub-form compilation (janetc_value) is a contract stub:
 *
 *   sp_value_stub(opts, form f)  emits k_f in 0..2 arbitrary instruction words through the real janetc_emit ("the code of f",
 *        recorded in ghost arrays: owner, part number, word), then - as the real janetc_value does for every form -
 *        in tail position a return of f's value, and with a hint a copy (real janetc_copy) into the hint slot, which becomes
 *        the result slot. The result is a constant slot or a local register, as the harness chooses for f.
 *
 * The postcondition is stated on the EXECUTION of the emitted instruction vector by a reference interpreter (sp_run) of the
 * handful of opcodes involved (jump, conditional jumps, moves, constant loads, returns, the break placeholder): executing an
 * instruction owned by sub-form f means "this part of f is evaluated now"; completing f's code puts f's value into f's
 * register. The evaluation rule of the special form is then read off directly: which sub-forms are evaluated, in which order,
 * how often, where the value ends up, how control leaves. Run-time kinds of values (nil / false / anything else) are
 * unconstrained ghost inputs.
 *
 * Forms have an identity: argv[i] is a keyword-typed Janet whose payload is the form id i+1; the literal nil is form 0.
 *
 * Register model: 32 registers; fresh registers come from 0..15 (never the live hint register), the value of form f lives in
 * register 16+f, the temporaries of the emitters are 24+tag. Units whose layout is what matters (if) leave the code sizes k_f
 * symbolic and are split by context (value used / dropped / tail, constant condition) because the jump arithmetic over a fully
 * symbolic layout is the SAT-hard part; units with recursion or token loops (quasiquote, fn) enumerate CONCRETE templates /
 * parameter lists instead (a symbolic tuple length or element type makes symbolic execution explore every type case).
 *
 * quasiquote, fn and the top-level def / var units do not run the interpreter: their emitters are recording stubs and the
 * postcondition is on the recorded constructor / store events. */
#include "prelude.h"
#include <stdlib.h>

#define SP_PRE 2
#ifndef SP_VCAP
#define SP_VCAP 32
#endif
#define SP_NF 6
#ifndef SP_KMAX
#define SP_KMAX 2        /* sub-forms emit 0..SP_KMAX instructions */
#endif
#ifndef SP_MAXSTEP
#define SP_MAXSTEP 12
#endif
/* value ids of the interpreter */
#define SP_UNDEF 0
#define SP_NILV 1
#define SP_FALSEV 2
#define SP_TRUEV 3
#define SP_VAL(f) (8 + (f))
#define SP_INTV(i) (32 + ((i) & 63))       /* small integers only (the harness uses 0 and 7) */
#define SP_NREG 32                          /* registers the interpreter models; the allocator stubs stay below */
/* run-time kinds */
#define K_NIL 0
#define K_FALSE 1
#define K_OTHER 2
/* how execution ended */
#define H_RUNNING 0
#define H_END 1
#define H_RETURN 2
#define H_BREAK 3
#define H_BAD 4

static JanetCompiler sp_c;
static JanetScope sp_outer;
static struct { int32_t cap, cnt; uint32_t data[SP_VCAP]; } sp_bufmem;
static struct { int32_t cap, cnt; JanetSourceMapping data[SP_VCAP]; } sp_mapmem;
static uint32_t sp_pre[SP_PRE];

/* harness choices, per form */
static int sp_k[SP_NF];                 /* number of instructions of the form's code */
static int sp_isconst[SP_NF];           /* the form's value is a compile-time constant */
static Janet sp_constv[SP_NF];
static int sp_kind[SP_NF];              /* run-time kind of the form's value */
static int32_t sp_slot[SP_NF];          /* register holding the value of a non-constant form */
static uint32_t sp_slotflags[SP_NF];
static int sp_makes_closure[SP_NF], sp_spliced[SP_NF];
/* ghost log of the compilation */
static int sp_calls[SP_NF], sp_seq[SP_NF], sp_ncalls;
static uint32_t sp_optflags[SP_NF];
static int sp_in_outer[SP_NF], sp_parent_is_outer[SP_NF], sp_scopeflags[SP_NF];
static int32_t sp_hintindex[SP_NF];
static int8_t sp_own[SP_VCAP], sp_part[SP_VCAP];
static uint32_t sp_word[SP_VCAP];
static int sp_throwaway_calls, sp_throwaway_form;
static int sp_errors;
static int sp_alloc_calls, sp_touch_calls, sp_free_calls;
static int32_t sp_alloc_last, sp_touched, sp_freed;

/* ------------------------------------------------------------------ trusted stubs (listed in `assumes`) */
void sp_sfree(void *p) { }
void *sp_nogrow_stub(void *v, int32_t increment, int32_t itemsize) { __CPROVER_assert(0, "harness: the preallocated instruction vectors suffice"); __CPROVER_assume(0); return v; }
/* constants of this harness are immediate (nil, booleans, small integers): the constant table is never needed */
static int sp_const_ok; static Janet sp_const_seen; static int sp_const_calls;
int32_t sp_const_stub(JanetCompiler *c, Janet x) {
    if (sp_const_ok) { sp_const_calls++; sp_const_seen = x; return 0; }      /* units with one table constant: the ref cell of a top-level var */
    __CPROVER_assert(0, "harness: only immediate constants are loaded"); __CPROVER_assume(0); return 0;
}
/* vectors created while compiling a binding (one SlotHeadPair, one SymPair): preallocated too */
static struct { int32_t cap, cnt; SlotHeadPair data[4]; } sp_shpmem;
static struct { int32_t cap, cnt; SymPair data[4]; } sp_symmem;
void *sp_grow_stub(void *v, int32_t increment, int32_t itemsize) {
    if (v == (void *)0 && itemsize == (int32_t) sizeof(SlotHeadPair)) { sp_shpmem.cap = 4; sp_shpmem.cnt = 0; return sp_shpmem.data; }
    if (v == (void *)0 && itemsize == (int32_t) sizeof(SymPair)) { sp_symmem.cap = 4; sp_symmem.cnt = 0; return sp_symmem.data; }
    __CPROVER_assert(0, "harness: the preallocated vectors suffice"); __CPROVER_assume(0); return v;
}
/* janet_equals on the constants this harness uses (immediates, one array): identity */
int sp_equals_stub(Janet x, Janet y) { return x.type == y.type && x.as.u64 == y.as.u64; }
/* (set (ds key) v) never resolves a name */
JanetSlot sp_resolve_unreach_stub(JanetCompiler *c, const uint8_t *sym) { __CPROVER_assert(0, "harness: no symbol is resolved in this unit"); __CPROVER_assume(0); return janetc_cslot(janet_wrap_nil()); }
void sp_lintf_stub(JanetCompiler *c, JanetCompileLintLevel level, const char *format, ...) {}
void sp_cerror_stub(JanetCompiler *c, const char *m) { sp_errors++; c->result.status = JANET_COMPILE_ERROR; }
void sp_error_stub(JanetCompiler *c, const uint8_t *m) { sp_errors++; c->result.status = JANET_COMPILE_ERROR; }
void sp_ra_init_stub(JanetcRegisterAllocator *ra) { ra->max = 0; }
void sp_ra_clone_stub(JanetcRegisterAllocator *d, JanetcRegisterAllocator *s) { d->max = s->max; }
void sp_ra_deinit_stub(JanetcRegisterAllocator *ra) {}
/* a free register: never one that holds a live value (the registers of the sub-forms' results, SP_SLOT0..) */
#define SP_SLOT0 16
static int32_t sp_hint_reg = -1;        /* register of the variable that receives the value (hint): live, never handed out */
int32_t sp_ra_1_stub(JanetcRegisterAllocator *ra) { int32_t r = nd_i32(); __CPROVER_assume(r >= 0 && r < SP_SLOT0 && r != sp_hint_reg); sp_alloc_calls++; sp_alloc_last = r; return r; }
/* temporaries: one register per tag, distinct from everything else (the real allocator reserves 0xF0..0xFF; the interpreter models 32 registers) */
int32_t sp_ra_temp_stub(JanetcRegisterAllocator *ra, JanetcRegisterTemp t) { return 24 + (int32_t) t; }
void sp_ra_freetemp_stub(JanetcRegisterAllocator *ra, int32_t reg, JanetcRegisterTemp t) {}
void sp_ra_touch_stub(JanetcRegisterAllocator *ra, int32_t reg) { sp_touch_calls++; sp_touched = reg; }
void sp_ra_free_stub(JanetcRegisterAllocator *ra, int32_t reg) { sp_free_calls++; sp_freed = reg; }

static void sp_emit_owned(int f, int part, uint32_t w) {
    int32_t at = janet_v_count(sp_c.buffer);
    if (at < SP_VCAP) { sp_own[at] = (int8_t)(f + 1); sp_part[at] = (int8_t) part; sp_word[at] = w; }
    janetc_emit(&sp_c, w);
}
static int sp_formid(Janet x) { return x.type == JANET_NIL ? 0 : x.type == JANET_TUPLE ? SP_NF - 1 : (int)(x.as.u64 & 7); }

/* contract of janetc_value */
JanetSlot sp_value_stub(JanetFopts opts, Janet x) {
    JanetCompiler *c = opts.compiler;
    int f = sp_formid(x);
    __CPROVER_assert(f >= 0 && f < SP_NF && c == &sp_c, "harness: a form of this harness");
    __CPROVER_assume(f >= 0 && f < SP_NF);
    sp_calls[f]++; sp_optflags[f] = opts.flags; sp_seq[f] = sp_ncalls++;
    sp_in_outer[f] = c->scope == &sp_outer; sp_parent_is_outer[f] = c->scope->parent == &sp_outer; sp_scopeflags[f] = c->scope->flags;
    sp_hintindex[f] = opts.hint.index;
    for (int j = 0; j < 2; j++) if (j < sp_k[f]) sp_emit_owned(f, j, (nd_u32() << 8) | JOP_NOOP);
    if (sp_makes_closure[f]) c->scope->flags |= JANET_SCOPE_CLOSURE;
    JanetSlot s;
    if (sp_isconst[f]) s = janetc_cslot(sp_constv[f]);
    else { s.constant.type = JANET_NIL; s.constant.as.u64 = 0; s.index = sp_slot[f]; s.envindex = -1; s.flags = sp_slotflags[f]; }
    if (sp_spliced[f] && (opts.flags & JANET_FOPTS_ACCEPT_SPLICE)) s.flags |= JANET_SLOT_SPLICED;      /* the form is (splice x), accepted here */
    if (opts.flags & JANET_FOPTS_TAIL) { sp_emit_owned(f, 2, JOP_RETURN); s.flags |= JANET_SLOT_RETURNED; }
    if (opts.flags & JANET_FOPTS_HINT) { janetc_copy(c, opts.hint, s); s = opts.hint; }
    return s;
}
/* contract of janetc_throwaway (proved in comp.srcmap.throwaway): the dead form is compiled for its diagnostics and leaves
 * no instruction and no mapping behind */
void sp_throwaway_stub(JanetFopts opts, Janet x) { sp_throwaway_calls++; sp_throwaway_form = sp_formid(x); }

/* ------------------------------------------------------------------ reference interpreter of the emitted code */
static int8_t sp_reg[SP_NREG];
static int sp_prog[SP_NF], sp_first[SP_NF], sp_clock;
static int sp_halt, sp_retform, sp_undef_read, sp_changed, sp_disorder, sp_steps;
static int8_t sp_retval; static int32_t sp_haltpc;
#define SP_REFARR 4
static int8_t sp_refcell, sp_put_ds, sp_put_key, sp_put_val; static int sp_refstores, sp_puts, sp_put_at;

static int sp_kind_of_q(int8_t v) {
    if (v == SP_UNDEF) return K_OTHER;
    if (v == SP_NILV) return K_NIL;
    if (v == SP_FALSEV) return K_FALSE;
    if (v >= SP_VAL(0) && v < SP_VAL(SP_NF)) return sp_kind[v - SP_VAL(0)];
    return K_OTHER;
}
/* v is the value of form f */
static int sp_is_value_of(int8_t v, int f) {
    if (v == SP_VAL(f)) return 1;
    if (!sp_isconst[f]) return 0;
    Janet k = sp_constv[f];
    if (k.type == JANET_NIL) return v == SP_NILV;
    if (k.type == JANET_BOOLEAN) return v == ((k.as.u64 & 1) ? SP_TRUEV : SP_FALSEV);
    if (k.type == JANET_NUMBER) return v == SP_INTV((int32_t) k.as.number);
    return 0;
}
static void sp_run_init(void) {
    for (int f = 0; f < SP_NF; f++) { sp_prog[f] = 0; sp_first[f] = -1; if (!sp_isconst[f] && sp_k[f] == 0) sp_reg[sp_slot[f]] = SP_VAL(f); }
    sp_refcell = SP_UNDEF; sp_refstores = sp_puts = 0; sp_put_at = -1;
    sp_clock = 0; sp_halt = H_RUNNING; sp_retform = -1; sp_undef_read = sp_changed = sp_disorder = 0; sp_retval = SP_UNDEF;
}
static void sp_run(int32_t pc, int32_t n) {
    for (sp_steps = 0; sp_steps < SP_MAXSTEP; sp_steps++) {
        if (sp_halt != H_RUNNING) break;
        if (pc == n) { sp_halt = H_END; break; }
        if (pc < 0 || pc > n || pc >= SP_VCAP) { sp_halt = H_BAD; break; }
        uint32_t w = sp_c.buffer[pc];
        int f = sp_own[pc] - 1, part = sp_part[pc];
        uint32_t op = w & 0xFF, a = (w >> 8) & 0xFF, b16 = w >> 16;
        int32_t off16 = (int32_t) w >> 16, off24 = (int32_t) w >> 8;
        /* one register read per operand and one register write per step (keeps the formula small) */
        int8_t va = sp_reg[a % SP_NREG], vb = sp_reg[b16 % SP_NREG], wv = SP_UNDEF;
        int32_t wd = -1, next = pc + 1;
        int ka = sp_kind_of_q(va);
        sp_haltpc = pc;
        if (f >= 0) {                                   /* an instruction of sub-form f */
            if (w != sp_word[pc]) sp_changed = 1;
            if (sp_first[f] < 0) sp_first[f] = sp_clock++;
            if (part == 2) {
                if (sp_prog[f] != sp_k[f]) sp_disorder = 1;
                sp_halt = H_RETURN; sp_retform = f; sp_retval = SP_VAL(f);
            } else {
                if (part != sp_prog[f]) sp_disorder = 1;
                sp_prog[f]++;
                if (sp_prog[f] == sp_k[f] && !sp_isconst[f]) { wd = sp_slot[f]; wv = SP_VAL(f); }
            }
        } else if (w == (0x80 | JOP_JUMP)) sp_halt = H_BREAK;
        else if (op == JOP_JUMP) next = pc + off24;
        else if (op == JOP_RETURN_NIL) { sp_halt = H_RETURN; sp_retval = SP_NILV; }
        else if (a >= SP_NREG) sp_halt = H_BAD;
        else if (op == JOP_JUMP_IF_NOT) { if (va == SP_UNDEF) sp_undef_read = 1; if (ka != K_OTHER) next = pc + off16; }
        else if (op == JOP_JUMP_IF) { if (va == SP_UNDEF) sp_undef_read = 1; if (ka == K_OTHER) next = pc + off16; }
        else if (op == JOP_JUMP_IF_NIL) { if (va == SP_UNDEF) sp_undef_read = 1; if (ka == K_NIL) next = pc + off16; }
        else if (op == JOP_JUMP_IF_NOT_NIL) { if (va == SP_UNDEF) sp_undef_read = 1; if (ka != K_NIL) next = pc + off16; }
        else if (op == JOP_MOVE_NEAR) { if (b16 >= SP_NREG) sp_halt = H_BAD; else { wd = (int32_t) a; wv = vb; } }
        else if (op == JOP_MOVE_FAR) { if (b16 >= SP_NREG) sp_halt = H_BAD; else { wd = (int32_t) b16; wv = va; } }
        else if (op == JOP_LOAD_NIL) { wd = (int32_t) a; wv = SP_NILV; }
        else if (op == JOP_LOAD_TRUE) { wd = (int32_t) a; wv = SP_TRUEV; }
        else if (op == JOP_LOAD_FALSE) { wd = (int32_t) a; wv = SP_FALSEV; }
        else if (op == JOP_LOAD_INTEGER) { wd = (int32_t) a; wv = (int8_t) SP_INTV(off16); }
        else if (op == JOP_LOAD_CONSTANT) { wd = (int32_t) a; wv = SP_REFARR; }          /* the only table constant of this harness: a ref cell array */
        else if (op == JOP_PUT_INDEX) { if (va != SP_REFARR || (w >> 24) != 0 || ((w >> 16) & 0xFF) >= SP_NREG) sp_halt = H_BAD; else { sp_refcell = sp_reg[((w >> 16) & 0xFF) % SP_NREG]; sp_refstores++; } }
        else if (op == JOP_PUT) { if (((w >> 16) & 0xFF) >= SP_NREG || (w >> 24) >= SP_NREG) sp_halt = H_BAD; else { sp_put_ds = va; sp_put_key = sp_reg[((w >> 16) & 0xFF) % SP_NREG]; sp_put_val = sp_reg[(w >> 24) % SP_NREG]; sp_put_at = sp_clock++; sp_puts++; } }
        else if (op == JOP_RETURN) { sp_halt = H_RETURN; sp_retval = va; }
        else sp_halt = H_BAD;
        if (sp_halt == H_RUNNING) { if (wd >= 0) sp_reg[wd % SP_NREG] = wv; pc = next; }
    }
}

/* ------------------------------------------------------------------ common set-up */
static Janet sp_form(int id) { Janet x; x.type = JANET_KEYWORD; x.as.u64 = (uint64_t) id; return x; }
static Janet sp_nil(void) { Janet x; x.type = JANET_NIL; x.as.u64 = 0; return x; }
static void sp_choose_const(int f) {
    /* nil, false, true, the numbers 0 and 7 (0 is truthy) */
    int t = nd_int();
    Janet k = sp_nil();
    if (t == 1) { k.type = JANET_BOOLEAN; k.as.u64 = 0; }
    else if (t == 2) { k.type = JANET_BOOLEAN; k.as.u64 = 1; }
    else if (t == 3) { k.type = JANET_NUMBER; k.as.number = 0.0; }
    else if (t == 4) { k.type = JANET_NUMBER; k.as.number = 7.0; }
    sp_constv[f] = k;
    sp_kind[f] = k.type == JANET_NIL ? K_NIL : (k.type == JANET_BOOLEAN && !(k.as.u64 & 1)) ? K_FALSE : K_OTHER;
}
static void sp_setup(int outer_flags) {
    sp_bufmem.cap = SP_VCAP; sp_bufmem.cnt = 0; sp_mapmem.cap = SP_VCAP; sp_mapmem.cnt = 0;
    sp_c.buffer = sp_bufmem.data; sp_c.mapbuffer = sp_mapmem.data;
    sp_c.result.status = JANET_COMPILE_OK; sp_c.recursion_guard = JANET_RECURSION_GUARD;
    /* ghost arrays and interpreter registers start zeroed (plain mode: statics are zero-initialised) */
    for (int i = 0; i < SP_PRE; i++) { sp_pre[i] = nd_u32(); janetc_emit(&sp_c, sp_pre[i]); }
    sp_outer.name = "outer"; sp_outer.parent = (JanetScope *)0; sp_outer.child = (JanetScope *)0; sp_outer.flags = outer_flags;
    sp_outer.bytecode_start = 0; sp_outer.syms = (SymPair *)0; sp_outer.consts = (Janet *)0; sp_outer.envs = (JanetEnvRef *)0; sp_outer.defs = (JanetFuncDef **)0;
    sp_outer.ra.max = 0; sp_outer.ua.max = 0;
    sp_c.scope = &sp_outer;
    for (int f = 0; f < SP_NF; f++) {
#ifdef SP_KFIX
        sp_k[f] = SP_KFIX;
#else
        sp_k[f] = nd_int(); __CPROVER_assume(sp_k[f] >= 0 && sp_k[f] <= SP_KMAX);
#endif
        sp_isconst[f] = nd_int() & 1;
        sp_slot[f] = SP_SLOT0 + f; sp_slotflags[f] = 0; sp_makes_closure[f] = 0; sp_spliced[f] = 0;
        if (sp_isconst[f]) sp_choose_const(f);
        else { sp_constv[f] = sp_nil(); sp_kind[f] = nd_int(); __CPROVER_assume(sp_kind[f] >= K_NIL && sp_kind[f] <= K_OTHER); }
        sp_calls[f] = 0; sp_optflags[f] = 0; sp_seq[f] = -1; sp_in_outer[f] = sp_parent_is_outer[f] = sp_scopeflags[f] = 0; sp_hintindex[f] = 0;
    }
    /* form 0 is the literal nil */
    sp_k[0] = 0; sp_isconst[0] = 1; sp_constv[0] = sp_nil(); sp_kind[0] = K_NIL;
    sp_ncalls = sp_throwaway_calls = sp_errors = sp_alloc_calls = sp_touch_calls = sp_free_calls = 0; sp_throwaway_form = -1;
}
/* options of the form under compilation: value used (possibly with a hint), dropped, or tail position */
#define SP_USED 0
#define SP_DROP 1
#define SP_TAIL 2
static int sp_ctx;
static JanetFopts sp_opts(void) {
    JanetFopts o; o.compiler = &sp_c; o.flags = 0; o.hint.flags = 0; o.hint.index = 0; o.hint.envindex = -1; o.hint.constant = sp_nil();
#ifdef SP_CTX
    sp_ctx = SP_CTX;
#else
    sp_ctx = nd_int(); __CPROVER_assume(sp_ctx >= SP_USED && sp_ctx <= SP_TAIL);
#endif
    if (sp_ctx == SP_DROP) o.flags |= JANET_FOPTS_DROP;
    if (sp_ctx == SP_TAIL) o.flags |= JANET_FOPTS_TAIL;
#ifdef SP_HINT
    if (sp_ctx == SP_USED && SP_HINT) {
#else
    if (sp_ctx == SP_USED && nd_int()) {
#endif
        o.flags |= JANET_FOPTS_HINT; o.hint.flags = JANET_SLOT_NAMED | JANET_SLOT_MUTABLE | JANET_SLOTTYPE_ANY;
        o.hint.index = nd_i32(); __CPROVER_assume(o.hint.index >= 0 && o.hint.index < 24);
        sp_hint_reg = o.hint.index;
        /* a sub-form whose value lives in the hint's register IS that variable (a temporary never shares a register with a live variable) */
        for (int f = 1; f < SP_NF; f++) if (sp_slot[f] == o.hint.index) sp_slotflags[f] = JANET_SLOT_NAMED | JANET_SLOT_MUTABLE | JANET_SLOTTYPE_ANY;
    }
    if (nd_int()) o.flags |= JANET_FOPTS_ACCEPT_SPLICE;
    return o;
}
static JanetScope *sp_scope0 = &sp_outer;      /* the scope the form is compiled in */
static void sp_common_post(const char *unused) {
    int32_t n = janet_v_count(sp_c.buffer);
    __CPROVER_assert(sp_c.scope == sp_scope0 && sp_scope0->child == (JanetScope *)0, "comp.sp: every scope the form opened is closed again; compilation continues in the enclosing scope");
    __CPROVER_assert(n >= SP_PRE && sp_c.buffer[0] == sp_pre[0] && sp_c.buffer[1] == sp_pre[1], "comp.sp: code emitted before the form is untouched");
    __CPROVER_assert(janet_v_count(sp_c.mapbuffer) == n, "comp.sp: the source map stays in step with the code");
}
static void sp_exec(void) {
    sp_run_init();
    sp_run(SP_PRE, janet_v_count(sp_c.buffer));
    __CPROVER_assert(sp_halt != H_RUNNING && sp_halt != H_BAD, "comp.sp: execution of the emitted code stays inside it and meets only well-formed instructions");
    __CPROVER_assert(!sp_changed, "comp.sp: no instruction of a sub-form is altered");
    __CPROVER_assert(!sp_disorder, "comp.sp: a sub-form's code runs from its first instruction to its last");
    __CPROVER_assert(!sp_undef_read, "comp.sp: no branch decision reads a register before the value is computed");
}
#define SP_RAN(f) (sp_prog[f] == sp_k[f] && (sp_k[f] == 0 || sp_first[f] >= 0))
#define SP_NOT_RUN(f) (sp_prog[f] == 0 && sp_first[f] < 0)

/* ================================================================== if */
#ifndef SP_IF_SHAPE
#define SP_IF_SHAPE 0       /* 0: plain condition form; 1: (f nil x) / (f x nil) with f tagged = / not= / < */
#endif
static struct { JanetTupleHead head; Janet data[3]; } sp_tup;
static JanetFunction sp_fun;
static JanetFuncDef sp_fundef;

void h_if(void) {
    sp_setup(nd_int() ? JANET_SCOPE_FUNCTION : JANET_SCOPE_WHILE);
    int32_t argn = nd_i32();
    __CPROVER_assume(argn == 2 || argn == 3);
    Janet argv[3];
    argv[0] = sp_form(1); argv[1] = sp_form(2); argv[2] = nd_int() ? sp_form(3) : sp_nil();      /* (if c a b), (if c a nil), (if c a) */
    int condid = 1, mode = 0;              /* mode 0: truthiness, 1: (= nil x), 2: (not= nil x) */
#if SP_IF_SHAPE == 1
    int tag = nd_int();
    __CPROVER_assume(tag == JANET_FUN_EQ || tag == JANET_FUN_NEQ || tag == JANET_FUN_LT);
    sp_fundef.flags = (int32_t) tag | (nd_int() ? JANET_FUNCDEF_FLAG_VARARG : 0);
    sp_fun.def = &sp_fundef;
    sp_tup.head.length = 3; sp_tup.head.gc.flags = 0;
    Janet *td = (Janet *) sp_tup.data;
    td[0].type = JANET_FUNCTION; td[0].as.pointer = &sp_fun;
    if (nd_int()) { td[1] = sp_nil(); td[2] = sp_form(1); } else { td[1] = sp_form(1); td[2] = sp_nil(); }
    argv[0].type = JANET_TUPLE; argv[0].as.pointer = (void *) sp_tup.data;
    if (tag == JANET_FUN_EQ) mode = 1; else if (tag == JANET_FUN_NEQ) mode = 2; else condid = SP_NF - 1;       /* (< nil x) is an ordinary condition form */
#endif
    int elseid = (argn == 3 && argv[2].type != JANET_NIL) ? 3 : 0;
#ifdef SP_CONDCONST
    __CPROVER_assume(sp_isconst[1] == SP_CONDCONST);
#endif
    JanetFopts opts = sp_opts();
    JanetSlot ret = janetc_if(opts, argn, argv);

    __CPROVER_assert(sp_errors == 0, "comp.if: a well-formed if compiles without error");
    sp_common_post("if");
    /* compile-time side: what was compiled, how */
    __CPROVER_assert(sp_calls[condid] == 1 && sp_seq[condid] == 0, "comp.if: the condition is compiled first, once");
    __CPROVER_assert((sp_optflags[condid] & (JANET_FOPTS_TAIL | JANET_FOPTS_HINT | JANET_FOPTS_DROP | JANET_FOPTS_ACCEPT_SPLICE)) == 0,
                     "comp.if: the condition is compiled for its value (never in tail position, never into the result slot)");
    __CPROVER_assert(!sp_in_outer[condid], "comp.if: the condition is compiled in a scope of its own");
    int g = nd_int() ? 2 : elseid;          /* any branch that was compiled into the code */
    if (sp_calls[g] > 0 && g != condid) {
        __CPROVER_assert(!sp_in_outer[g] && !sp_parent_is_outer[g], "comp.if: each branch is compiled in a scope of its own inside the if");
        __CPROVER_assert(!(sp_optflags[g] & JANET_FOPTS_ACCEPT_SPLICE), "comp.if: a splice is not accepted in a branch");
        __CPROVER_assert((sp_optflags[g] & (JANET_FOPTS_TAIL | JANET_FOPTS_DROP)) == (opts.flags & (JANET_FOPTS_TAIL | JANET_FOPTS_DROP)),
                         "comp.if: the branches inherit tail position / dropped value from the if");
    }
    /* run-time side: the evaluation rule */
    sp_exec();
    int ck = sp_kind[condid];
    int take_true = mode == 0 ? ck == K_OTHER : mode == 1 ? ck == K_NIL : ck != K_NIL;
    int chosen = take_true ? 2 : elseid, other = take_true ? elseid : 2;
    __CPROVER_assert(SP_RAN(condid), "comp.if: the condition is evaluated");
    __CPROVER_assert(SP_RAN(chosen), "comp.if: the selected branch is evaluated (true branch iff the condition is neither nil nor false)");
    __CPROVER_assert(chosen == other || SP_NOT_RUN(other), "comp.if: the other branch is not evaluated");
    __CPROVER_assert(sp_k[condid] == 0 || sp_k[chosen] == 0 || sp_first[condid] < sp_first[chosen], "comp.if: the condition is evaluated before the branch");
    if (sp_isconst[condid]) {
        __CPROVER_assert(chosen == other || sp_calls[other] == 0, "comp.if: with a constant condition the dead branch leaves no code");
#if !defined(SP_CONDCONST) || SP_CONDCONST == 1
        REACH("if: constant condition");
#endif
    }
    if (sp_ctx == SP_TAIL) {
        __CPROVER_assert(sp_halt == H_RETURN && sp_retform == chosen, "comp.if: in tail position the selected branch returns its value");
#if !defined(SP_CTX) || SP_CTX == 2
        REACH("if: tail position");
#endif
    } else {
        __CPROVER_assert(sp_halt == H_END, "comp.if: control continues with the first instruction after the if");
        if (sp_ctx == SP_USED) {
            __CPROVER_assert(!(ret.flags & JANET_SLOT_CONSTANT) && ret.envindex < 0 && ret.index >= 0 && ret.index < SP_NREG && sp_is_value_of(sp_reg[ret.index], chosen),
                             "comp.if: the result slot holds the value of the selected branch (nil when there is no else branch)");
            if (opts.flags & JANET_FOPTS_HINT) {
                __CPROVER_assert(ret.index == opts.hint.index, "comp.if: a usable hint slot receives the result");
#if (!defined(SP_CTX) || SP_CTX == 0) && (!defined(SP_HINT) || SP_HINT == 1)
                REACH("if: hint");
#endif
            }
#if !defined(SP_CTX) || SP_CTX == 0
            REACH("if: value used");
#endif
        } else {
#if !defined(SP_CTX) || SP_CTX == 1
            REACH("if: value dropped");
#endif
        }
    }
#if !defined(SP_CTX) || SP_CTX == 0
    if (!take_true && elseid == 0 && sp_ctx == SP_USED) REACH("if: no else branch, false condition yields nil");
#endif
#if SP_IF_SHAPE == 1
    if (mode == 1 && !sp_isconst[condid]) REACH("if: (= nil x) shortcut");
    if (mode == 2 && !sp_isconst[condid]) REACH("if: (not= nil x) shortcut");
    if (mode == 0) REACH("if: other comparison is an ordinary condition");
#endif
    REACH("if returns");
}

/* the slot s holds (after execution) / is (at compile time) the value of form f */
static int sp_slot_has_value_of(JanetSlot s, int f) {
    if (s.flags & JANET_SLOT_CONSTANT) return sp_isconst[f] && s.constant.type == sp_constv[f].type && s.constant.as.u64 == sp_constv[f].as.u64;
    return s.envindex < 0 && s.index >= 0 && s.index < SP_NREG && sp_is_value_of(sp_reg[s.index], f);
}
#define SP_CTXBITS (JANET_FOPTS_TAIL | JANET_FOPTS_DROP | JANET_FOPTS_HINT)

/* ================================================================== do / upscope */
#ifndef SP_UPSCOPE
#define SP_UPSCOPE 0
#endif
void h_do(void) {
    sp_setup(nd_int() ? JANET_SCOPE_FUNCTION : JANET_SCOPE_WHILE);
    int32_t argn = nd_i32();
    __CPROVER_assume(argn >= 0 && argn <= 3);
    Janet argv[3];
    for (int i = 0; i < 3; i++) argv[i] = sp_form(i + 1);
    /* results of the sub-forms: temporaries of the do's scope or named locals */
    for (int f = 1; f <= 3; f++) if (nd_int()) sp_slotflags[f] = JANET_SLOT_NAMED;
    JanetFopts opts = sp_opts();
#if SP_UPSCOPE
    JanetSlot ret = janetc_upscope(opts, argn, argv);
#else
    JanetSlot ret = janetc_do(opts, argn, argv);
#endif
    __CPROVER_assert(sp_errors == 0, "comp.do: a do form compiles without error");
    sp_common_post("do");
    int g = nd_int();                       /* any sub-form */
    __CPROVER_assume(g >= 1 && g <= 3);
    int last = (int) argn;
    if (g <= argn) {
        __CPROVER_assert(sp_calls[g] == 1 && sp_seq[g] == g - 1, "comp.do: the sub-forms are compiled once each, in order");
#if SP_UPSCOPE
        __CPROVER_assert(sp_in_outer[g], "comp.upscope: the sub-forms are compiled in the enclosing scope (definitions stay visible)");
#else
        __CPROVER_assert(!sp_in_outer[g] && sp_parent_is_outer[g] && !(sp_scopeflags[g] & (JANET_SCOPE_FUNCTION | JANET_SCOPE_WHILE | JANET_SCOPE_TOP | JANET_SCOPE_UNUSED)),
                         "comp.do: the sub-forms are compiled in a plain lexical scope of the do");
#endif
        if (g != last) __CPROVER_assert((sp_optflags[g] & (SP_CTXBITS | JANET_FOPTS_ACCEPT_SPLICE)) == JANET_FOPTS_DROP, "comp.do: every form but the last is compiled for effect only (value dropped, never tail)");
        else {
            __CPROVER_assert((sp_optflags[g] & SP_CTXBITS) == (opts.flags & SP_CTXBITS) && !(sp_optflags[g] & JANET_FOPTS_ACCEPT_SPLICE), "comp.do: the last form inherits the context of the do (tail position, hint, drop); no splice");
            __CPROVER_assert(!(opts.flags & JANET_FOPTS_HINT) || sp_hintindex[g] == opts.hint.index, "comp.do: the last form delivers into the hint slot of the do");
        }
    } else __CPROVER_assert(sp_calls[g] == 0, "comp.do: nothing else is compiled");
    /* released registers: the unnamed, non-constant results of the forms before the last */
    int expect_free = 0;
    for (int f = 1; f <= 2; f++) if (f < last && !sp_isconst[f] && !(sp_slotflags[f] & JANET_SLOT_NAMED)) expect_free++;
    __CPROVER_assert(sp_free_calls == expect_free, "comp.do: the register of every dropped value is released (and nothing else)");
    sp_exec();
    __CPROVER_assert(g > argn || SP_RAN(g), "comp.do: every sub-form is evaluated");
    int h = nd_int();
    __CPROVER_assume(h >= 1 && h <= 3);
    __CPROVER_assert(!(g < h && h <= argn) || sp_k[g] == 0 || sp_k[h] == 0 || sp_first[g] < sp_first[h], "comp.do: the sub-forms are evaluated in order");
    if (argn == 0) {
        __CPROVER_assert(sp_halt == H_END && (ret.flags & JANET_SLOT_CONSTANT) && ret.constant.type == JANET_NIL && janet_v_count(sp_c.buffer) == SP_PRE, "comp.do: an empty do is nil and has no code");
        REACH("do: empty");
    } else if (sp_ctx == SP_TAIL) {
        __CPROVER_assert(sp_halt == H_RETURN && sp_retform == last, "comp.do: in tail position the last form returns its value");
        REACH("do: tail position");
    } else {
        __CPROVER_assert(sp_halt == H_END, "comp.do: control continues after the do");
        if (sp_ctx == SP_USED) {
            __CPROVER_assert(sp_slot_has_value_of(ret, last), "comp.do: the value of the do is the value of its last form");
#if !SP_UPSCOPE
            if (!(ret.flags & (JANET_SLOT_CONSTANT | JANET_SLOT_NAMED)) && !(opts.flags & JANET_FOPTS_HINT)) {
                __CPROVER_assert(sp_touch_calls == 1 && sp_touched == ret.index, "comp.do: the result register stays allocated in the enclosing scope after the do's scope is popped");
                REACH("do: temporary result kept");
            }
#endif
            REACH("do: value used");
        }
    }
    if (argn == 3) REACH("do: three forms");
    REACH("do returns");
}

/* ================================================================== break */
static JanetScope sp_s1, sp_s2;
static void sp_mkscope(JanetScope *s, JanetScope *parent, int flags) {
    s->name = "s"; s->parent = parent; s->child = (JanetScope *)0; s->flags = flags; s->bytecode_start = 0;
    s->syms = (SymPair *)0; s->consts = (Janet *)0; s->envs = (JanetEnvRef *)0; s->defs = (JanetFuncDef **)0; s->ra.max = 0; s->ua.max = 0;
    if (parent) parent->child = s;
}
static int sp_scopekind(void) { int f = nd_int() & (JANET_SCOPE_FUNCTION | JANET_SCOPE_WHILE | JANET_SCOPE_CLOSURE | JANET_SCOPE_ENV | JANET_SCOPE_TOP); return f; }
void h_break(void) {
    sp_setup(0);
    /* a chain of 1..3 scopes, innermost = current; every scope is a plain block, a loop, a function or a loop compiled as function */
    int depth = nd_int();
    __CPROVER_assume(depth >= 1 && depth <= 3);
    int f0 = sp_scopekind(), f1 = sp_scopekind(), f2 = sp_scopekind();
    sp_outer.flags = f0;
    sp_scope0 = &sp_outer;
    if (depth >= 2) { sp_mkscope(&sp_s1, &sp_outer, f1); sp_scope0 = &sp_s1; }
    if (depth >= 3) { sp_mkscope(&sp_s2, &sp_s1, f2); sp_scope0 = &sp_s2; }
    sp_c.scope = sp_scope0;
    /* the nearest enclosing scope that is a loop or a function, innermost first */
    int fl[3]; int nfl = depth;
    if (depth == 1) { fl[0] = f0; } else if (depth == 2) { fl[0] = f1; fl[1] = f0; } else { fl[0] = f2; fl[1] = f1; fl[2] = f0; }
    int target = -1;
    for (int i = 2; i >= 0; i--) if (i < nfl && (fl[i] & (JANET_SCOPE_FUNCTION | JANET_SCOPE_WHILE))) target = fl[i];
    int32_t argn = nd_i32();
    __CPROVER_assume(argn >= 0 && argn <= 2);
    Janet argv[2]; argv[0] = sp_form(1); argv[1] = sp_form(2);
    JanetFopts opts = sp_opts();
    JanetSlot ret = janetc_break(opts, argn, argv);
    int32_t n = janet_v_count(sp_c.buffer);
    sp_common_post("break");
    __CPROVER_assert(sp_scope0->flags == fl[0], "comp.break: scope flags are not changed");
    if (argn > 1 || target < 0) {
        __CPROVER_assert(sp_errors == 1 && n == SP_PRE && sp_ncalls == 0, "comp.break: break outside of a loop or function, or with more than one argument, is a compile error and emits nothing");
        if (target < 0) REACH("break: outside loop and function"); else REACH("break: too many arguments");
        return;
    }
    __CPROVER_assert(sp_errors == 0, "comp.break: a well-placed break compiles without error");
    __CPROVER_assert(sp_calls[1] == (int) argn && sp_calls[2] == 0, "comp.break: the value form is compiled once");
    __CPROVER_assert((ret.flags & JANET_SLOT_CONSTANT) && ret.constant.type == JANET_NIL, "comp.break: the break form itself yields nil");
    sp_exec();
    __CPROVER_assert(argn == 0 || SP_RAN(1), "comp.break: the value form is evaluated before control leaves");
    if (!(target & JANET_SCOPE_FUNCTION)) {
        __CPROVER_assert(sp_halt == H_BREAK && sp_haltpc == n - 1, "comp.break: inside a loop the break ends in the loop-exit placeholder (patched by while)");
        __CPROVER_assert(argn == 0 || (sp_optflags[1] & SP_CTXBITS) == JANET_FOPTS_DROP, "comp.break: the value of a loop break is dropped (the loop yields nil)");
        REACH("break: loop");
    } else if (!(target & JANET_SCOPE_WHILE)) {
        __CPROVER_assert(sp_halt == H_RETURN && (argn ? sp_retform == 1 : sp_retval == SP_NILV), "comp.break: inside a function body break returns the value (nil without value)");
        if (argn) REACH("break: function return with value"); else REACH("break: function return nil");
    } else {
        __CPROVER_assert(sp_halt == H_RETURN && sp_retform < 0 && sp_retval == SP_NILV, "comp.break: inside a loop compiled as function break leaves the loop function with nil (the loop yields nil)");
        __CPROVER_assert(argn == 0 || (sp_optflags[1] & SP_CTXBITS) == JANET_FOPTS_DROP, "comp.break: the value of a loop break is dropped (the loop yields nil)");
        REACH("break: loop compiled as function");
    }
    REACH("break returns");
}

/* ================================================================== def / var (leaf binding in a local scope) */
#ifndef SP_VAR
#define SP_VAR 0
#endif
static const uint8_t sp_symA[] = "a";
void h_def(void) {
    sp_setup(nd_int() ? JANET_SCOPE_FUNCTION : 0);
    Janet argv[2];
    argv[0].type = JANET_SYMBOL; argv[0].as.u64 = 0; argv[0].as.pointer = (void *) sp_symA;
    argv[1] = sp_form(2);
    /* the value: a constant, a temporary, an immutable named local (def) or a mutable named local (var) */
    int vk = nd_int();
    __CPROVER_assume(vk >= 0 && vk <= 2);
    sp_slotflags[2] = vk == 0 ? 0 : vk == 1 ? JANET_SLOT_NAMED : (JANET_SLOT_NAMED | JANET_SLOT_MUTABLE);
    JanetFopts opts = sp_opts();
#if SP_VAR
    JanetSlot ret = janetc_var(opts, 2, argv);
#else
    JanetSlot ret = janetc_def(opts, 2, argv);
#endif
    __CPROVER_assert(sp_errors == 0, "comp.def: a binding of a symbol compiles without error");
    sp_common_post("def");
    __CPROVER_assert(sp_calls[2] == 1 && sp_ncalls == 1, "comp.def: the value form is compiled once");
    __CPROVER_assert((sp_optflags[2] & (JANET_FOPTS_TAIL | JANET_FOPTS_DROP)) == 0, "comp.def: the value is needed for the binding: not compiled as tail call, not dropped");
    __CPROVER_assert(sp_in_outer[2], "comp.def: no scope is opened for the value");
    __CPROVER_assert(janet_v_count(sp_outer.syms) == 1, "comp.def: exactly one name is added to the current scope");
    SymPair p = sp_outer.syms[0];
    __CPROVER_assert(p.sym == sp_symA && (p.slot.flags & JANET_SLOT_NAMED), "comp.def: the name is bound in the current scope");
#if SP_VAR
    __CPROVER_assert(p.slot.flags & JANET_SLOT_MUTABLE, "comp.var: the binding is mutable");
#else
    __CPROVER_assert(!(p.slot.flags & JANET_SLOT_MUTABLE), "comp.def: the binding is immutable");
#endif
    sp_exec();
    __CPROVER_assert(sp_halt == H_END && SP_RAN(2), "comp.def: the value form is evaluated, control continues after the binding");
    __CPROVER_assert(sp_slot_has_value_of(p.slot, 2), "comp.def: the name is bound to the value of the form");
    if (!(p.slot.flags & JANET_SLOT_CONSTANT)) {
        /* sharing a register with the value is only sound if nobody can assign to either name */
        int shares_value_reg = !sp_isconst[2] && p.slot.index == sp_slot[2];
        int shares_hint_reg = (opts.flags & JANET_FOPTS_HINT) && p.slot.index == opts.hint.index;
#if SP_VAR
        __CPROVER_assert(!shares_value_reg || !(sp_slotflags[2] & JANET_SLOT_NAMED), "comp.var: a new variable never shares its register with another named binding");
#else
        __CPROVER_assert(!shares_value_reg || !(sp_slotflags[2] & JANET_SLOT_MUTABLE), "comp.def: a definition never aliases a variable (a later set must not change it)");
#endif
        __CPROVER_assert(!shares_hint_reg, "comp.def: the new binding does not live in the register of the variable that receives the form's value");
#if !SP_VAR
        if (shares_value_reg) REACH("def: aliases the value's register");
#endif
    }
    if (sp_ctx == SP_USED) __CPROVER_assert(sp_slot_has_value_of(ret, 2), "comp.def: the binding form yields the bound value");
    if (vk == 2) REACH("def: value is a variable");
    if (sp_isconst[2]) REACH("def: constant value");
    REACH("def returns");
}

/* ================================================================== set */
#ifndef SP_SET_SHAPE
#define SP_SET_SHAPE 0        /* 0: (set name v); 1: (set (ds key) v) */
#endif
static JanetArray sp_refarray;
static struct { JanetTupleHead head; Janet data[2]; } sp_lv;
void h_set(void) {
    sp_setup(nd_int() ? JANET_SCOPE_FUNCTION : 0);
    Janet argv[2];
    argv[1] = sp_form(2);
    JanetFopts opts;
#if SP_SET_SHAPE == 0
    /* the name resolves in the current scope to: a local variable, a local definition, or a top-level variable (ref cell) */
    int nk = nd_int();
    __CPROVER_assume(nk >= 0 && nk <= 2);
    sp_symmem.cap = 4; sp_symmem.cnt = 1; sp_outer.syms = sp_symmem.data;
    SymPair *sp = &sp_symmem.data[0];
    sp->sym = sp_symA; sp->sym2 = sp_symA; sp->keep = 0; sp->birth_pc = 0; sp->death_pc = UINT32_MAX;
    sp->slot.constant = sp_nil(); sp->slot.envindex = -1; sp->slot.index = 7;
    sp->slot.flags = JANET_SLOT_NAMED | (nk == 0 ? JANET_SLOT_MUTABLE : 0);
    if (nk == 2) {
        sp->slot.constant.type = JANET_ARRAY; sp->slot.constant.as.pointer = &sp_refarray; sp->slot.index = -1;
        sp->slot.flags = JANET_SLOT_REF | JANET_SLOT_NAMED | JANET_SLOT_MUTABLE | JANET_SLOTTYPE_ANY;
        sp_const_ok = 1;
    }
    argv[0].type = JANET_SYMBOL; argv[0].as.u64 = 0; argv[0].as.pointer = (void *) sp_symA;
    opts = sp_opts();
    JanetSlot ret = janetc_varset(opts, 2, argv);
    sp_common_post("set");
    if (nk == 1) {
        __CPROVER_assert(sp_errors == 1 && sp_ncalls == 0 && janet_v_count(sp_c.buffer) == SP_PRE, "comp.set: assigning to a definition is a compile error and emits nothing");
        REACH("set: on a def");
        return;
    }
    __CPROVER_assert(sp_errors == 0, "comp.set: assigning to a variable compiles without error");
    __CPROVER_assert(sp_calls[2] == 1 && sp_ncalls == 1 && !(sp_optflags[2] & JANET_FOPTS_TAIL), "comp.set: the value form is compiled once, not as tail call (the store follows it)");
    sp_exec();
    __CPROVER_assert(sp_halt == H_END && SP_RAN(2), "comp.set: the value form is evaluated, control continues after the assignment");
    if (nk == 0) {
        __CPROVER_assert(sp_is_value_of(sp_reg[7], 2), "comp.set: the variable's register holds the new value");
        __CPROVER_assert(sp_refstores == 0 && sp_puts == 0, "comp.set: nothing else is stored");
        if (sp_ctx == SP_USED) __CPROVER_assert(sp_slot_has_value_of(ret, 2), "comp.set: the form yields the assigned value");
        REACH("set: local variable");
    } else {
        __CPROVER_assert(sp_refstores == 1 && sp_is_value_of(sp_refcell, 2), "comp.set: the new value is stored into the ref cell of the top-level variable");
        __CPROVER_assert(sp_const_calls >= 1 && sp_const_seen.type == JANET_ARRAY && sp_const_seen.as.pointer == (void *) &sp_refarray, "comp.set: the ref cell is the one bound to the name");
        REACH("set: top-level variable");
    }
#else
    sp_lv.head.length = nd_int() ? 2 : 3; sp_lv.head.gc.flags = 0;
    Janet *td = (Janet *) sp_lv.data;
    td[0] = sp_form(3); td[1] = sp_form(4);
    argv[0].type = JANET_TUPLE; argv[0].as.u64 = 0; argv[0].as.pointer = (void *) sp_lv.data;
    opts = sp_opts();
    JanetSlot ret = janetc_varset(opts, 2, argv);
    sp_common_post("set");
    if (sp_lv.head.length != 2) {
        __CPROVER_assert(sp_errors == 1 && sp_ncalls == 0 && janet_v_count(sp_c.buffer) == SP_PRE, "comp.set: an l-value tuple must have exactly two elements");
        REACH("set: bad l-value");
        return;
    }
    __CPROVER_assert(sp_errors == 0, "comp.set: a field assignment compiles without error");
    __CPROVER_assert(sp_calls[3] == 1 && sp_calls[4] == 1 && sp_calls[2] == 1 && sp_seq[3] == 0 && sp_seq[4] == 1 && sp_seq[2] == 2, "comp.set: data structure, key and value are compiled once each, in this order");
    __CPROVER_assert(((sp_optflags[3] | sp_optflags[4]) & (SP_CTXBITS | JANET_FOPTS_ACCEPT_SPLICE)) == 0 && (sp_optflags[2] & (JANET_FOPTS_TAIL | JANET_FOPTS_DROP)) == 0,
                     "comp.set: all three values are needed by the store: none dropped, none compiled as tail call");
    sp_exec();
    __CPROVER_assert(sp_halt == H_END && SP_RAN(3) && SP_RAN(4) && SP_RAN(2), "comp.set: data structure, key and value are evaluated; control continues");
    __CPROVER_assert((sp_k[3] == 0 || sp_k[4] == 0 || sp_first[3] < sp_first[4]) && (sp_k[4] == 0 || sp_k[2] == 0 || sp_first[4] < sp_first[2]) && (sp_k[3] == 0 || sp_k[2] == 0 || sp_first[3] < sp_first[2]),
                     "comp.set: data structure, then key, then value");
    __CPROVER_assert(sp_puts == 1 && sp_is_value_of(sp_put_ds, 3) && sp_is_value_of(sp_put_key, 4) && sp_is_value_of(sp_put_val, 2), "comp.set: exactly one put of the value under the key into the data structure");
    __CPROVER_assert((sp_k[2] == 0 || sp_first[2] < sp_put_at) && (sp_k[3] == 0 || sp_first[3] < sp_put_at) && (sp_k[4] == 0 || sp_first[4] < sp_put_at), "comp.set: the put happens after all three evaluations");
    if (sp_ctx == SP_USED) __CPROVER_assert(sp_slot_has_value_of(ret, 2), "comp.set: the form yields the assigned value");
    REACH("set: field");
#endif
    REACH("set returns");
}

/* ================================================================== quote / splice */
void h_quote(void) {
    sp_setup(JANET_SCOPE_FUNCTION);
    int32_t argn = nd_i32();
    __CPROVER_assume(argn >= 0 && argn <= 2);
    Janet argv[2];
    argv[0].type = (JanetType)(nd_int() & 15); argv[0].as.u64 = nd_u64(); argv[1] = sp_form(2);       /* any datum */
    JanetFopts opts = sp_opts();
    JanetSlot ret = janetc_quote(opts, argn, argv);
    sp_common_post("quote");
    __CPROVER_assert(sp_ncalls == 0 && janet_v_count(sp_c.buffer) == SP_PRE, "comp.quote: nothing is compiled or emitted: the argument is data");
    if (argn == 1) {
        __CPROVER_assert(sp_errors == 0 && (ret.flags & JANET_SLOT_CONSTANT) && ret.constant.type == argv[0].type && ret.constant.as.u64 == argv[0].as.u64, "comp.quote: (quote x) is the constant x itself");
        REACH("quote: datum");
    } else {
        __CPROVER_assert(sp_errors == 1, "comp.quote: quote takes exactly one argument");
        REACH("quote: arity error");
    }
}
void h_splice(void) {
    sp_setup(JANET_SCOPE_FUNCTION);
    int32_t argn = nd_i32();
    __CPROVER_assume(argn >= 0 && argn <= 2);
    Janet argv[2]; argv[0] = sp_form(1); argv[1] = sp_form(2);
    JanetFopts opts = sp_opts();
    JanetSlot ret = janetc_splice(opts, argn, argv);
    sp_common_post("splice");
    if (!(opts.flags & JANET_FOPTS_ACCEPT_SPLICE) || argn != 1) {
        __CPROVER_assert(sp_errors == 1 && sp_ncalls == 0 && janet_v_count(sp_c.buffer) == SP_PRE, "comp.splice: a splice where no argument list or data constructor accepts it, or with a wrong argument count, is a compile error and emits nothing");
        if (argn == 1) REACH("splice: not accepted here"); else REACH("splice: arity error");
        return;
    }
    __CPROVER_assert(sp_errors == 0 && sp_calls[1] == 1 && sp_ncalls == 1, "comp.splice: the spliced form is compiled once");
    __CPROVER_assert((sp_optflags[1] & SP_CTXBITS) == (opts.flags & SP_CTXBITS), "comp.splice: in the context of the splice form");
    __CPROVER_assert((ret.flags & JANET_SLOT_SPLICED), "comp.splice: the result is marked as spliced (its elements become the arguments)");
    sp_exec();
    if (sp_ctx != SP_TAIL) __CPROVER_assert(sp_halt == H_END && SP_RAN(1) && (sp_ctx != SP_USED || sp_slot_has_value_of(ret, 1)), "comp.splice: the form is evaluated and its value is the spliced sequence");
    REACH("splice: accepted");
}

/* ================================================================== quasiquote */
static const uint8_t sp_sym_unquote[] = "unquote", sp_sym_qq[] = "quasiquote", sp_sym_foo[] = "foo";
/* tables and structs are not exercised: an empty dictionary view */
int sp_dictview_stub(Janet tab, const JanetKV **data, int32_t *len, int32_t *cap) { *data = (const JanetKV *)0; *len = 0; *cap = 0; return 1; }
const JanetKV *sp_dictnext_stub(const JanetKV *kvs, int32_t cap, const JanetKV *kv) { return (const JanetKV *)0; }
int sp_cstrcmp_stub(const uint8_t *str, const char *other) {
    if (str == sp_sym_unquote) return other[0] == 'u' ? 0 : 1;
    if (str == sp_sym_qq) return other[0] == 'q' ? 0 : -1;
    return 1;
}
/* slot vectors of the constructors under construction: a pool */
#define SP_QV 6
static struct { int32_t cap, cnt; JanetSlot data[4]; } sp_slotpool[SP_QV];
static int sp_slotpool_next;
void *sp_grow_qq_stub(void *v, int32_t increment, int32_t itemsize) {
    if (v == (void *)0 && itemsize == (int32_t) sizeof(JanetSlot) && sp_slotpool_next < SP_QV) { int i = sp_slotpool_next++; sp_slotpool[i].cap = 5; sp_slotpool[i].cnt = 0; return sp_slotpool[i].data; }
    __CPROVER_assert(0, "harness: the preallocated vectors suffice"); __CPROVER_assume(0); return v;
}
int32_t sp_ra_1_seq_stub(JanetcRegisterAllocator *ra) { int32_t r = sp_alloc_calls++; return (sp_hint_reg >= 0 && r >= sp_hint_reg) ? r + 1 : r; }       /* fresh registers 0, 1, 2, ... skipping the live hint register */
/* constructor events: janetc_pushslots(slots) ; janetc_freeslots(slots) ; janetc_emit_s(makeop, target, 1) */
#define SP_QE 6
static int sp_ev_n[SP_QE], sp_ev_op[SP_QE], sp_nev, sp_ev_pushed, sp_ev_seq[SP_QE];
static JanetSlot sp_ev_elem[SP_QE][3], sp_ev_target[SP_QE];
int32_t sp_pushslots_stub(JanetCompiler *c, JanetSlot *slots) {
    int32_t n = janet_v_count(slots);
    __CPROVER_assert(sp_nev < SP_QE && n <= 3 && !sp_ev_pushed, "harness: event log suffices");
    __CPROVER_assume(sp_nev < SP_QE && n <= 3);
    sp_ev_n[sp_nev] = n; sp_ev_seq[sp_nev] = sp_ncalls;
    for (int i = 0; i < 3; i++) if (i < n) sp_ev_elem[sp_nev][i] = slots[i];
    sp_ev_pushed = 1;
    janetc_emit(c, JOP_PUSH);
    return n;
}
void sp_freeslots_stub(JanetCompiler *c, JanetSlot *slots) {}
int32_t sp_emit_s_stub(JanetCompiler *c, uint8_t op, JanetSlot s, int wr) {
    __CPROVER_assert(sp_ev_pushed && wr == 1 && sp_nev < SP_QE, "comp.quasiquote: a constructor instruction follows the push of its elements and writes its target");
    __CPROVER_assume(sp_nev < SP_QE);
    sp_ev_op[sp_nev] = op; sp_ev_target[sp_nev] = s; sp_nev++; sp_ev_pushed = 0;
    int32_t label = janet_v_count(c->buffer);
    janetc_emit(c, (uint32_t) op | ((uint32_t)(s.index & 0xFF) << 8));
    return label;
}
static struct { JanetTupleHead head; Janet data[3]; } sp_qtop, sp_qel[3], sp_qin[3], sp_qun;
static JanetArray sp_qarr;
static Janet sp_symv(const uint8_t *s) { Janet x; x.type = JANET_SYMBOL; x.as.u64 = 0; x.as.pointer = (void *) s; return x; }
static Janet sp_tupv(void *data) { Janet x; x.type = JANET_TUPLE; x.as.u64 = 0; x.as.pointer = data; return x; }
static int sp_same(Janet a, Janet b) { return a.type == b.type && ((a.type == JANET_SYMBOL || a.type == JANET_TUPLE) ? a.as.pointer == b.as.pointer : a.as.u64 == b.as.u64); }
static int sp_is_const(JanetSlot s, Janet x) { return (s.flags & JANET_SLOT_CONSTANT) && sp_same(s.constant, x); }
/* the event that produced the (non-constant) slot s */
static int sp_event_of(JanetSlot s) { int r = -1; for (int e = 0; e < SP_QE; e++) if (e < sp_nev && !(s.flags & JANET_SLOT_CONSTANT) && sp_ev_target[e].index == s.index) r = e; return r; }
/* element kinds */
#define QK_ATOM 0      /* a datum */
#define QK_UNQ 1       /* (unquote F) */
#define QK_TUP 2       /* (foo a): nested data */
#define QK_QQ 3        /* (quasiquote (unquote a)): one level deeper, the unquote stays data */
#define QK_UNQ1 4      /* (unquote): no argument, plain data */
#ifndef SP_QQ_TEMPLATE
#define SP_QQ_TEMPLATE 0
#endif
#if SP_QQ_TEMPLATE == 0
static const int sp_qq_template[3] = { QK_ATOM, QK_UNQ, QK_QQ };           /* ~(a ,f2 (quasiquote (unquote a3))) */
#elif SP_QQ_TEMPLATE == 1
static const int sp_qq_template[3] = { QK_TUP, QK_UNQ, QK_ATOM };          /* ~((foo a1) ,f2 a3) */
#elif SP_QQ_TEMPLATE == 3
static const int sp_qq_template[3] = { QK_UNQ1, QK_ATOM, QK_UNQ };         /* ~((unquote) a2 ,f3) */
#else
static const int sp_qq_template[3] = { QK_UNQ, QK_UNQ, QK_ATOM };          /* ~(,f1 ,f2 a3) */
#endif
#if SP_QQ_TEMPLATE == 0
#define QR0(m) REACH(m)
#else
#define QR0(m) ((void)0)
#endif
#if SP_QQ_TEMPLATE == 1
#define QR1(m) REACH(m)
#else
#define QR1(m) ((void)0)
#endif
#if SP_QQ_TEMPLATE == 2
#define QR2(m) REACH(m)
#else
#define QR2(m) ((void)0)
#endif
#define QR02(m) REACH(m)
#if SP_QQ_TEMPLATE == 3
#define QR3(m) REACH(m)
#else
#define QR3(m) ((void)0)
#endif
/* concrete indexing (a symbolic index into the array of tuple structs is mis-resolved by CBMC 6.11) */
static Janet sp_qel_head(int i) { return i == 0 ? sp_qel[0].data[0] : i == 1 ? sp_qel[1].data[0] : sp_qel[2].data[0]; }
static int32_t sp_qel_len(int i) { return i == 0 ? sp_qel[0].head.length : i == 1 ? sp_qel[1].head.length : sp_qel[2].head.length; }
void h_quasiquote(void) {
    sp_setup(JANET_SCOPE_FUNCTION);
    int L = nd_int();
    __CPROVER_assume(L >= 0 && L <= 3);
    int kind[3];
    Janet *top = (Janet *) sp_qtop.data;
    for (int i = 0; i < 3; i++) {
        kind[i] = sp_qq_template[i];        /* concrete template (per unit): symbolic element types make symbolic execution of the recursion explode */
        Janet *el = (Janet *) sp_qel[i].data, *in = (Janet *) sp_qin[i].data;
        sp_qel[i].head.gc.flags = 0; sp_qin[i].head.gc.flags = 0;
        sp_qel[i].head.length = kind[i] == QK_UNQ1 ? 1 : 2; sp_qin[i].head.length = 2;
        if (kind[i] == QK_ATOM) top[i] = sp_form(i + 1);
        else {
            top[i] = sp_tupv(el);
            el[0] = sp_symv(kind[i] == QK_TUP ? sp_sym_foo : kind[i] == QK_QQ ? sp_sym_qq : sp_sym_unquote);
            el[1] = kind[i] == QK_QQ ? sp_tupv(in) : sp_form(i + 1);
            in[0] = sp_symv(sp_sym_unquote); in[1] = sp_form(i + 1);
        }
        sp_spliced[i + 1] = nd_int() & 1;
    }
    sp_qtop.head.length = L; sp_qtop.head.gc.flags = nd_int() ? JANET_TUPLE_FLAG_BRACKETCTOR : 0;
    int is_array = nd_int() & 1;
    sp_qarr.count = L; sp_qarr.capacity = 3; sp_qarr.data = top;
    /* x: the tuple / array, or a bare datum, or a bare (unquote F); built and compiled per shape so that the template stays concrete */
    int shape = nd_int();
    __CPROVER_assume(shape >= 0 && shape <= 2);
    sp_slotpool_next = 0; sp_nev = 0; sp_ev_pushed = 0;
    JanetFopts opts = sp_opts();
    int depth = nd_int();
    __CPROVER_assume((depth >= 0 && depth <= 4) || depth == JANET_RECURSION_GUARD);
    JanetSlot ret;
    Janet x;
    /* one call site per concrete length and sequence type: a symbolic length makes symbolic execution of the recursion explode */
#define SP_QQ_CALL(len) { sp_qtop.head.length = (len); sp_qarr.count = (len); \
        if (is_array) { x.type = JANET_ARRAY; x.as.u64 = 0; x.as.pointer = &sp_qarr; ret = quasiquote(opts, x, depth, 0); } \
        else { x = sp_tupv(top); ret = quasiquote(opts, x, depth, 0); } }
    if (shape == 0 && L == 0) SP_QQ_CALL(0)
    else if (shape == 0 && L == 1) SP_QQ_CALL(1)
    else if (shape == 0 && L == 2) SP_QQ_CALL(2)
    else if (shape == 0) SP_QQ_CALL(3)
    else if (shape == 1) { x = sp_form(1); if (depth == JANET_RECURSION_GUARD) ret = janetc_quasiquote(opts, 1, &x); else ret = quasiquote(opts, x, depth, 0); }
    else { Janet *el = (Janet *) sp_qun.data; sp_qun.head.length = 2; sp_qun.head.gc.flags = 0; el[0] = sp_symv(sp_sym_unquote); el[1] = sp_form(1); x = sp_tupv(el); ret = quasiquote(opts, x, depth, 0); }
    sp_common_post("quasiquote");
    /* nesting depth of x */
    int need = 1;
    if (shape == 0 && L > 0) { need = 2; for (int i = 0; i < 3; i++) if (i < L) { int d = kind[i] == QK_ATOM || kind[i] == QK_UNQ ? 2 : kind[i] == QK_QQ ? 4 : 3; if (d > need) need = d; } }
    if (depth < need) {
        __CPROVER_assert(sp_errors >= 1, "comp.quasiquote: nesting deeper than the guard allows is a compile error (no unbounded recursion)");
        REACH("quasiquote: too deeply nested");
        return;
    }
    __CPROVER_assert(sp_errors == 0, "comp.quasiquote: a template within the depth guard compiles without error");
    if (shape == 1) {
        __CPROVER_assert(sp_is_const(ret, x) && sp_ncalls == 0 && sp_nev == 0 && janet_v_count(sp_c.buffer) == SP_PRE, "comp.quasiquote: a datum is itself; nothing is compiled or emitted");
        REACH("quasiquote: bare datum");
        return;
    }
    if (shape == 2) {
        __CPROVER_assert(sp_calls[1] == 1 && sp_ncalls == 1 && sp_nev == 0, "comp.quasiquote: (quasiquote (unquote f)) evaluates f and builds nothing");
        __CPROVER_assert((sp_optflags[1] & SP_CTXBITS) == 0 && (sp_optflags[1] & JANET_FOPTS_ACCEPT_SPLICE), "comp.quasiquote: an unquoted form is compiled for its value; a splice is accepted");
        __CPROVER_assert(sp_isconst[1] ? sp_is_const(ret, sp_constv[1]) : ret.index == sp_slot[1], "comp.quasiquote: the result is the value of f");
        REACH("quasiquote: bare unquote");
        return;
    }
    /* the template is a tuple / array of L elements */
    __CPROVER_assert(sp_nev >= 1, "comp.quasiquote: the sequence is constructed at run time");
    int top_e = sp_nev - 1;
    __CPROVER_assert(sp_ev_op[top_e] == (is_array ? JOP_MAKE_ARRAY : (sp_qtop.head.gc.flags & JANET_TUPLE_FLAG_BRACKETCTOR) ? JOP_MAKE_BRACKET_TUPLE : JOP_MAKE_TUPLE) && sp_ev_n[top_e] == L,
                     "comp.quasiquote: the last constructor builds the same kind of sequence (array, bracketed or plain tuple) with the same number of elements");
    __CPROVER_assert(ret.index == sp_ev_target[top_e].index && !(ret.flags & JANET_SLOT_CONSTANT), "comp.quasiquote: the result is the constructed sequence");
    if (opts.flags & JANET_FOPTS_HINT) __CPROVER_assert(ret.index == opts.hint.index, "comp.quasiquote: delivered into the hint slot");
    int i = nd_int();
    __CPROVER_assume(i >= 0 && i < L);
    JanetSlot e = sp_ev_elem[top_e][i];
    int f = i + 1;
    if (kind[i] == QK_ATOM) {
        __CPROVER_assert(sp_is_const(e, top[i]) && sp_calls[f] == 0, "comp.quasiquote: a datum element is itself, not evaluated");
        QR02("quasiquote: datum element");
    } else if (kind[i] == QK_UNQ) {
        __CPROVER_assert(sp_calls[f] == 1, "comp.quasiquote: an unquoted element is compiled once");
        __CPROVER_assert((sp_optflags[f] & SP_CTXBITS) == 0 && (sp_optflags[f] & JANET_FOPTS_ACCEPT_SPLICE), "comp.quasiquote: an unquoted form is compiled for its value; a splice is accepted");
        __CPROVER_assert(sp_isconst[f] ? sp_is_const(e, sp_constv[f]) : (!(e.flags & JANET_SLOT_CONSTANT) && e.index == sp_slot[f]), "comp.quasiquote: the element is the value of the unquoted form");
        __CPROVER_assert(!!(e.flags & JANET_SLOT_SPLICED) == !!sp_spliced[f], "comp.quasiquote: an unquote-splice stays a splice, nothing else is spliced");
        int j = nd_int();
        if (j > i && j < L && kind[j] == QK_UNQ) { __CPROVER_assert(sp_seq[f] < sp_seq[j + 1], "comp.quasiquote: unquoted forms are evaluated left to right"); QR2("quasiquote: two unquotes"); }
        REACH("quasiquote: unquoted element");
    } else {
        int ev = sp_event_of(e);
        __CPROVER_assert(sp_calls[f] == 0, "comp.quasiquote: nothing inside nested data, an argument-less unquote or a deeper quasiquote level is evaluated");
        __CPROVER_assert(ev >= 0 && ev < top_e && sp_ev_op[ev] == JOP_MAKE_TUPLE && !(e.flags & JANET_SLOT_SPLICED), "comp.quasiquote: a nested tuple is rebuilt as a tuple");
        __CPROVER_assume(ev >= 0 && ev < top_e);
        __CPROVER_assert(sp_ev_n[ev] == sp_qel_len(i), "comp.quasiquote: a nested tuple is rebuilt with the same number of elements");
        __CPROVER_assert(sp_is_const(sp_ev_elem[ev][0], sp_qel_head(i)), "comp.quasiquote: a nested tuple is rebuilt with the same head symbol");
        if (kind[i] == QK_TUP) { __CPROVER_assert(sp_is_const(sp_ev_elem[ev][1], sp_form(f)), "comp.quasiquote: nested data is kept"); QR1("quasiquote: nested tuple"); }
        else if (kind[i] == QK_UNQ1) QR3("quasiquote: unquote without argument is data");
        else {
            int ev2 = sp_event_of(sp_ev_elem[ev][1]);
            __CPROVER_assert(ev2 >= 0 && ev2 < ev && sp_ev_op[ev2] == JOP_MAKE_TUPLE && sp_ev_n[ev2] == 2 && sp_is_const(sp_ev_elem[ev2][0], sp_symv(sp_sym_unquote)) && sp_is_const(sp_ev_elem[ev2][1], sp_form(f)),
                             "comp.quasiquote: an unquote under a nested quasiquote belongs to the inner level and stays data");
            QR0("quasiquote: nested quasiquote level");
        }
    }
    REACH("quasiquote: sequence");
}

/* ================================================================== fn: parameter list */
static const uint8_t sp_amp[] = "&", sp_optm[] = "&opt", sp_keysm[] = "&keys", sp_namedm[] = "&named", sp_fname[] = "self";
static const uint8_t sp_pn[6][3] = { "p0", "p1", "p2", "p3", "p4", "p5" };
int sp_cstrcmp_fn_stub(const uint8_t *str, const char *other) {
    if (str == sp_amp) return other[1] == 0 ? 0 : 1;
    if (str == sp_optm) return other[1] == 'o' ? 0 : 1;
    if (str == sp_keysm) return other[1] == 'k' ? 0 : 1;
    if (str == sp_namedm) return other[1] == 'n' ? 0 : 1;
    return 1;
}
static struct { JanetTupleHead head; Janet data[8]; } sp_params;
static JanetFuncDef sp_def;
static JanetTable sp_named_tab;
static int sp_popdef_calls, sp_pop_scope_is_function, sp_pop_nsyms, sp_tabput_calls, sp_destr_calls, sp_destr_left_type;
static int32_t sp_destr_right, sp_defindex, sp_pop_codelen;
static uint32_t sp_pop_lastinstr;
static SymPair sp_pop_syms[8];
int sp_destructure_stub(JanetCompiler *c, Janet left, JanetSlot right, int (*leaf)(JanetCompiler *c, const uint8_t *sym, JanetSlot s, JanetTable *attr), JanetTable *attr) {
    sp_destr_calls++; sp_destr_left_type = left.type; sp_destr_right = right.index; return 1;
}
JanetTable *sp_table_stub(int32_t cap) { return &sp_named_tab; }
void sp_table_put_stub(JanetTable *t, Janet key, Janet value) { sp_tabput_calls++; }
/* contract of janetc_pop_funcdef as far as janetc_fn goes: takes the code of the current FUNCTION scope out of the buffer,
 * pops that scope, returns a definition whose slot count covers the registers handed out */
JanetFuncDef *sp_pop_funcdef_fn_stub(JanetCompiler *c) {
    sp_popdef_calls++;
    JanetScope *sc = c->scope;
    sp_pop_scope_is_function = (sc->flags & JANET_SCOPE_FUNCTION) != 0 && sc->parent == &sp_outer;
    sp_pop_nsyms = janet_v_count(sc->syms);
    for (int i = 0; i < 8; i++) if (i < sp_pop_nsyms) sp_pop_syms[i] = sc->syms[i];
    int32_t n = janet_v_count(c->buffer);
    sp_pop_codelen = n - sc->bytecode_start;
    sp_pop_lastinstr = n > 0 ? c->buffer[n - 1] : 0;
    janet_v__cnt(c->buffer) = sc->bytecode_start; janet_v__cnt(c->mapbuffer) = sc->bytecode_start;
    c->scope = sc->parent; c->scope->child = (JanetScope *)0;
    sp_def.slotcount = sp_alloc_calls; sp_def.arity = -1; sp_def.min_arity = -1; sp_def.max_arity = -1; sp_def.flags = 0; sp_def.name = (const uint8_t *)0;
    return &sp_def;
}
int32_t sp_addfuncdef_fn_stub(JanetCompiler *c, JanetFuncDef *def) { __CPROVER_assert(def == &sp_def, "comp.fn: the function's definition is registered"); sp_defindex = nd_i32(); __CPROVER_assume(sp_defindex >= 0 && sp_defindex < 0x8000); return sp_defindex; }
void sp_addflags_stub(JanetFuncDef *def) {}
void *sp_grow_fn_stub(void *v, int32_t increment, int32_t itemsize) {
    static struct { int32_t cap, cnt; SymPair data[9]; } symmem;
    static struct { int32_t cap, cnt; JanetSlot data[4]; } slotmem;
    if (v == (void *)0 && itemsize == (int32_t) sizeof(SymPair)) { symmem.cap = 10; symmem.cnt = 0; return symmem.data; }
    if (v == (void *)0 && itemsize == (int32_t) sizeof(JanetSlot)) { slotmem.cap = 5; slotmem.cnt = 0; return slotmem.data; }
    __CPROVER_assert(0, "harness: the preallocated vectors suffice"); __CPROVER_assume(0); return v;
}
#define FT_NONE 0
#define FT_REST 1       /* & rest */
#define FT_EXTRA 2      /* & (last): extra arguments accepted and ignored */
#define FT_KEYS 3       /* &keys k */
#define FT_NAMED1 4     /* &named n1 */
#define FT_NAMED2 5     /* &named n1 n2 */
/* one parameter list, concrete (symbolic token positions make symbolic execution of the parameter loop explode); h_fn enumerates all of them */
static void sp_fn_case(int nfixed, int hasopt, int nopt, int tail, int namekind, int nbody) {
    sp_setup(nd_int() ? JANET_SCOPE_FUNCTION : JANET_SCOPE_WHILE);
    /* parameter list by the documented grammar: fixed* [&opt opt+] [& rest | & | &keys k | &named n+] */
    Janet *pd = (Janet *) sp_params.data;
    int np = 0, ord = 0;           /* tokens, value-carrying parameters so far */
    int32_t expect_slot[6];         /* expected register of the symbol sp_pn[t] (-1: not a positional parameter) */
    for (int t = 0; t < 6; t++) expect_slot[t] = -1;
    int nsym = 0;
    for (int i = 0; i < 2; i++) if (i < nfixed) { pd[np++] = sp_symv(sp_pn[nsym]); expect_slot[nsym++] = ord++; }
    if (hasopt) { pd[np++] = sp_symv(sp_optm); for (int i = 0; i < 2; i++) if (i < nopt) { pd[np++] = sp_symv(sp_pn[nsym]); expect_slot[nsym++] = ord++; } }
    int arity = ord, min_arity = hasopt ? nfixed : ord;
    if (tail == FT_REST) { pd[np++] = sp_symv(sp_amp); pd[np++] = sp_symv(sp_pn[nsym]); expect_slot[nsym++] = ord++; }
    else if (tail == FT_EXTRA) { pd[np++] = sp_symv(sp_amp); }
    else if (tail == FT_KEYS) { pd[np++] = sp_symv(sp_keysm); pd[np++] = sp_symv(sp_pn[nsym]); expect_slot[nsym++] = ord++; }
    else if (tail >= FT_NAMED1) { pd[np++] = sp_symv(sp_namedm); pd[np++] = sp_symv(sp_pn[nsym++]); if (tail == FT_NAMED2) pd[np++] = sp_symv(sp_pn[nsym++]); }
    int vararg = tail == FT_REST || tail >= FT_KEYS, structarg = tail >= FT_KEYS;
    int32_t max_arity = tail == FT_NONE ? arity : INT32_MAX;
    sp_params.head.length = np; sp_params.head.gc.flags = nd_int() ? JANET_TUPLE_FLAG_BRACKETCTOR : 0;
    /* (fn [params] body...), (fn name [params] body...), (fn :name [params] body...) */
    Janet argv[4]; int32_t argn = 0;
    if (namekind == 1) argv[argn++] = sp_symv(sp_fname);
    if (namekind == 2) { argv[argn] = sp_symv(sp_fname); argv[argn++].type = JANET_KEYWORD; }
    argv[argn++] = sp_tupv(pd);
    for (int i = 0; i < 2; i++) if (i < nbody) argv[argn++] = sp_form(i + 1);
    sp_popdef_calls = sp_tabput_calls = sp_destr_calls = 0;
    JanetFopts opts = sp_opts();
    sp_hint_reg = -1;          /* registers of the new function are a separate register file: 0, 1, 2, ... */
    JanetSlot ret = janetc_fn(opts, argn, argv);

    __CPROVER_assert(sp_errors == 0, "comp.fn: a parameter list of the documented grammar compiles without error");
    sp_common_post("fn");
    __CPROVER_assert(sp_popdef_calls == 1 && sp_pop_scope_is_function, "comp.fn: parameters and body are compiled in a function scope of their own which becomes the definition");
    __CPROVER_assert(sp_def.arity == arity, "comp.fn: arity = number of positional parameters (markers, the rest parameter, the &keys struct and named parameters do not count)");
    __CPROVER_assert(sp_def.min_arity == min_arity, "comp.fn: min arity = parameters before &opt (all positional ones without &opt)");
    __CPROVER_assert(sp_def.max_arity == max_arity, "comp.fn: max arity = arity unless &, &keys or &named accept more arguments");
    __CPROVER_assert(!!(sp_def.flags & JANET_FUNCDEF_FLAG_VARARG) == vararg && !!(sp_def.flags & JANET_FUNCDEF_FLAG_STRUCTARG) == structarg,
                     "comp.fn: VARARG iff a rest parameter, &keys or &named collects the remaining arguments; STRUCTARG iff they are collected into a struct (&keys, &named)");
    __CPROVER_assert(sp_def.slotcount >= arity + vararg, "comp.fn: the frame has a slot for every positional parameter and the collected rest");
    /* parameter k lives in register k: any symbol bound when the definition is taken */
    int g = nd_int(), t = nd_int();
    if (g < 0 || g >= sp_pop_nsyms || g >= 8) g = 0;          /* (no assume here: the cases run one after the other) */
    if (t < 0 || t >= 6) t = 0;
    SymPair sp = sp_pop_syms[g];
    if (g < sp_pop_nsyms && sp.sym == sp_pn[t]) {
        __CPROVER_assert(expect_slot[t] >= 0 && sp.slot.index == expect_slot[t] && sp.slot.envindex < 0 && !(sp.slot.flags & JANET_SLOT_MUTABLE),
                         "comp.fn: the k-th positional parameter (then the rest parameter / &keys struct) is bound to register k (where the VM puts argument k)");
        REACH("fn: parameter bound");
    }
    int bound = 0;
    for (int i = 0; i < 8; i++) if (i < sp_pop_nsyms && sp_pop_syms[i].sym == sp_pn[t]) bound++;
    __CPROVER_assert(bound == (expect_slot[t] >= 0 ? 1 : 0), "comp.fn: every positional / rest / &keys parameter is bound exactly once (named parameters are bound by destructuring)");
    if (tail >= FT_NAMED1) {
        __CPROVER_assert(sp_destr_calls == 1 && sp_destr_left_type == JANET_TABLE && sp_destr_right == arity && sp_tabput_calls == (tail == FT_NAMED2 ? 2 : 1),
                         "comp.fn: named parameters are destructured by keyword from the struct of remaining arguments in register arity");
#if defined(SP_FN_TAIL) && SP_FN_TAIL >= 4
        REACH("fn: &named");
#endif
    } else __CPROVER_assert(sp_destr_calls == 0, "comp.fn: symbol parameters need no destructuring");
    /* body */
    __CPROVER_assert(sp_calls[1] == (nbody >= 1) && sp_calls[2] == (nbody >= 2) && sp_ncalls == nbody && (nbody < 2 || sp_seq[1] < sp_seq[2]), "comp.fn: the body forms are compiled once each, in order");
    if (nbody >= 1) {
        int last = nbody;
        __CPROVER_assert((sp_optflags[last] & SP_CTXBITS) == JANET_FOPTS_TAIL && (sp_scopeflags[last] & JANET_SCOPE_FUNCTION) && sp_parent_is_outer[last], "comp.fn: the last body form is in tail position of the new function");
        if (nbody == 2) __CPROVER_assert((sp_optflags[1] & SP_CTXBITS) == JANET_FOPTS_DROP && (sp_scopeflags[1] & JANET_SCOPE_FUNCTION), "comp.fn: earlier body forms are compiled for effect");
    } else {
        __CPROVER_assert(sp_pop_codelen >= 1 && (sp_pop_lastinstr & 0xFF) == JOP_RETURN_NIL, "comp.fn: an empty body returns nil");
#if !defined(SP_FN_TAIL)
        REACH("fn: empty body");
#endif
    }
    /* the closure in the enclosing code */
    int32_t n = janet_v_count(sp_c.buffer);
    __CPROVER_assert(sp_outer.flags & JANET_SCOPE_CLOSURE, "comp.fn: the enclosing scope is marked as creating a closure (an enclosing loop must be compiled as function)");
    __CPROVER_assert(n >= SP_PRE + 1 && (sp_c.buffer[n - 1] & 0xFF) == JOP_CLOSURE ? 1 : ((sp_c.buffer[n - 2] & 0xFF) == JOP_CLOSURE), "comp.fn: the enclosing code instantiates the closure");
    __CPROVER_assert((sp_c.buffer[SP_PRE] & 0xFF) == JOP_CLOSURE && (sp_c.buffer[SP_PRE] >> 16) == (uint32_t) sp_defindex, "comp.fn: the enclosing code gets one CLOSURE instruction for the registered definition and none of the function's code");
    __CPROVER_assert(namekind == 0 ? sp_def.name == (const uint8_t *)0 : sp_def.name == sp_fname, "comp.fn: the definition carries the given name");
    if (namekind == 1) {
        /* self reference: the name is bound inside the function to a fresh register loaded with the function itself */
        int selfbound = 0;
        for (int i = 0; i < 8; i++) if (i < sp_pop_nsyms && sp_pop_syms[i].sym == sp_fname) selfbound++;
        __CPROVER_assert(selfbound == 1, "comp.fn: a named function can refer to itself by name");
        if (g < sp_pop_nsyms && sp.sym == sp_fname) __CPROVER_assert(sp.slot.index >= ord, "comp.fn: the self reference does not occupy a parameter register");
#if !defined(SP_FN_TAIL)
        REACH("fn: named");
#endif
    }
    if (sp_ctx == SP_USED) __CPROVER_assert(!(ret.flags & JANET_SLOT_CONSTANT) && ret.index == (int32_t)((sp_c.buffer[SP_PRE] >> 8) & 0xFF), "comp.fn: the form yields the closure");
#if defined(SP_FN_TAIL)
    if (hasopt) REACH("fn: &opt");
#endif
#if !defined(SP_FN_TAIL) || SP_FN_TAIL == 1
    if (tail == FT_REST) REACH("fn: & rest");
#endif
#if defined(SP_FN_TAIL) && SP_FN_TAIL == 2
    if (tail == FT_EXTRA) REACH("fn: & alone");
#endif
#if defined(SP_FN_TAIL) && SP_FN_TAIL == 3
    if (tail == FT_KEYS) REACH("fn: &keys");
#endif
    REACH("fn returns");
}
void h_fn(void) {
#ifdef SP_FN_ONE
    sp_fn_case(2, 1, 2, FT_NAMED2, 0, 1); return;
#endif
#if defined(SP_FN_TAIL)
    /* every parameter list with this tail variant, unnamed function with one body form */
    for (int nfixed = 0; nfixed <= 2; nfixed++)
        for (int nopt = 0; nopt <= 2; nopt++)
            sp_fn_case(nfixed, nopt > 0, nopt, SP_FN_TAIL, 0, 1);
#else
    /* every naming and body length, with the parameter lists [p0] and [p0 & p1] */
    for (int namekind = 0; namekind <= 2; namekind++)
        for (int nbody = 0; nbody <= 2; nbody++) {
            sp_fn_case(1, 0, 0, FT_NONE, namekind, nbody);
            sp_fn_case(1, 0, 0, FT_REST, namekind, nbody);
        }
#endif
}

/* ================================================================== if in a fresh compiler: memory safety of the label patching */
void *sp_srealloc(void *p, size_t n) { void *q = realloc(p, n); __CPROVER_assume(q != (void *)0); return q; }
void h_if_fresh(void) {
    /* the first form a compiler sees: (if c a) with its value dropped, e.g. the body statement of (fn [c] (if c 1) 2).
     * No instruction vector exists yet; the real janet_v_grow allocates it (capacity 1, 2, 4, ...). */
    sp_setup(JANET_SCOPE_FUNCTION);
    sp_c.buffer = (uint32_t *)0; sp_c.mapbuffer = (JanetSourceMapping *)0;
    sp_isconst[1] = 0; __CPROVER_assume(sp_k[1] <= 1);      /* the condition: a local, or one instruction of code */
    sp_isconst[2] = 1; sp_k[2] = 0; sp_choose_const(2);      /* the branch: a constant */
    Janet argv[2]; argv[0] = sp_form(1); argv[1] = sp_form(2);
    JanetFopts o; o.compiler = &sp_c; o.flags = JANET_FOPTS_DROP; o.hint = janetc_cslot(sp_nil());
    sp_ctx = SP_DROP;
    janetc_if(o, 2, argv);
    __CPROVER_assert(sp_errors == 0 && sp_c.scope == &sp_outer, "comp.if.fresh: compiles without error, scopes closed");
    __CPROVER_assert(janet_v_count(sp_c.buffer) == sp_k[1] + 1 && janet_v_count(sp_c.mapbuffer) == sp_k[1] + 1, "comp.if.fresh: the code is the condition and one conditional jump; source map in step");
    __CPROVER_assert((sp_c.buffer[sp_k[1]] & 0xFF) == JOP_JUMP_IF_NOT && (int32_t) sp_c.buffer[sp_k[1]] >> 16 == 1, "comp.if.fresh: a false condition skips to the instruction after the if");
    REACH("if in a fresh compiler returns");
}

/* ================================================================== def / var at top level (environment entry, ref cell) */
static JanetTable sp_env, sp_attr_tab, sp_entry;
static JanetArray sp_newref, sp_oldref;
static Janet sp_srcmap_tuple[3];
static int sp_redef, sp_old_kind;          /* old binding of the name: 0 none, 1 def, 2 var, 3 dynamic def */
#define SP_NPUT 6
static struct { JanetTable *t; Janet k, v; } sp_put[SP_NPUT];
static int sp_nput, sp_clone_calls, sp_newref_calls, sp_push_calls;
static struct { int op; JanetSlot a, b, c; int imm; int32_t at; } sp_emit3;
static int sp_emit3_calls;
JanetTable *sp_table_top_stub(int32_t cap) { return &sp_attr_tab; }
JanetTable *sp_table_clone_stub(JanetTable *t) { __CPROVER_assert(t == &sp_attr_tab, "comp.def.top: the entry starts as a copy of the metadata table"); sp_clone_calls++; return &sp_entry; }
void sp_table_put_rec_stub(JanetTable *t, Janet key, Janet value) { if (sp_nput < SP_NPUT) { sp_put[sp_nput].t = t; sp_put[sp_nput].k = key; sp_put[sp_nput].v = value; } sp_nput++; }
Janet sp_table_get_stub(JanetTable *t, Janet key) { Janet r = sp_nil(); if (sp_redef) { r.type = JANET_BOOLEAN; r.as.u64 = 1; } return r; }
const uint8_t *sp_csymbol_stub(const char *s) { return (const uint8_t *) s; }          /* interned keyword = its C string (identity) */
const Janet *sp_make_sourcemap_stub(JanetCompiler *c) { return sp_srcmap_tuple; }
JanetBinding sp_resolve_ext_stub(JanetTable *env, const uint8_t *sym) {
    JanetBinding b; b.deprecation = JANET_BINDING_DEP_NONE; b.value = sp_nil(); b.type = JANET_BINDING_NONE;
    if (sp_old_kind == 1) b.type = JANET_BINDING_DEF;
    if (sp_old_kind == 2) { b.type = JANET_BINDING_VAR; b.value.type = JANET_ARRAY; b.value.as.pointer = &sp_oldref; }
    if (sp_old_kind == 3) { b.type = JANET_BINDING_DYNAMIC_DEF; b.value.type = JANET_ARRAY; b.value.as.pointer = &sp_oldref; }
    return b;
}
JanetArray *sp_array_stub(int32_t cap) { sp_newref_calls++; return &sp_newref; }
void sp_array_push_stub(JanetArray *a, Janet x) { __CPROVER_assert(a == &sp_newref && x.type == JANET_NIL, "comp.def.top: a new ref cell starts as [nil]"); sp_push_calls++; }
int32_t sp_emit_sss_rec_stub(JanetCompiler *c, uint8_t op, JanetSlot s1, JanetSlot s2, JanetSlot s3, int wr) {
    sp_emit3.op = op; sp_emit3.a = s1; sp_emit3.b = s2; sp_emit3.c = s3; sp_emit3.imm = -1; sp_emit3.at = janet_v_count(c->buffer); sp_emit3_calls++;
    __CPROVER_assert(wr == 0, "comp.def.top: a store writes no register");
    janetc_emit(c, op); return sp_emit3.at;
}
int32_t sp_emit_ssu_rec_stub(JanetCompiler *c, uint8_t op, JanetSlot s1, JanetSlot s2, uint8_t imm, int wr) {
    sp_emit3.op = op; sp_emit3.a = s1; sp_emit3.b = s2; sp_emit3.imm = imm; sp_emit3.at = janet_v_count(c->buffer); sp_emit3_calls++;
    __CPROVER_assert(wr == 0, "comp.def.top: a store writes no register");
    janetc_emit(c, op); return sp_emit3.at;
}
static int sp_key_is(Janet k, char c2) { return k.type == JANET_KEYWORD && ((const char *) k.as.pointer)[2] == c2; }     /* value, ref, redef, source-map: third letter l, f, d, u */
static int sp_is_tab(Janet v, JanetTable *t) { return v.type == JANET_TABLE && v.as.pointer == (void *) t; }
static int sp_is_arr(Janet v, JanetArray *a) { return v.type == JANET_ARRAY && v.as.pointer == (void *) a; }
void h_def_top(void) {
    sp_setup(JANET_SCOPE_FUNCTION | JANET_SCOPE_TOP);
    sp_c.env = &sp_env;
    sp_redef = nd_int() & 1; sp_old_kind = nd_int();
    __CPROVER_assume(sp_old_kind >= 0 && sp_old_kind <= 3);
    Janet argv[2];
    argv[0].type = JANET_SYMBOL; argv[0].as.u64 = 0; argv[0].as.pointer = (void *) sp_symA;
    argv[1] = sp_form(2);
    sp_nput = sp_clone_calls = sp_newref_calls = sp_push_calls = sp_emit3_calls = 0;
    JanetFopts opts = sp_opts();
#if SP_VAR
    JanetSlot ret = janetc_var(opts, 2, argv);
#else
    JanetSlot ret = janetc_def(opts, 2, argv);
#endif
    __CPROVER_assert(sp_errors == 0, "comp.def.top: a top-level binding compiles without error");
    sp_common_post("def");
    __CPROVER_assert(sp_calls[2] == 1 && sp_ncalls == 1 && (sp_optflags[2] & (JANET_FOPTS_TAIL | JANET_FOPTS_DROP)) == 0, "comp.def.top: the value form is compiled once, for its value");
    __CPROVER_assert(sp_clone_calls == 1, "comp.def.top: one environment entry is created");
    /* the environment: exactly one put into the environment, name -> entry */
    int envputs = 0, refputs = 0, redefputs = 0, smputs = 0, other = 0;
    Janet refv = sp_nil();
    for (int i = 0; i < SP_NPUT; i++) if (i < sp_nput) {
        if (sp_put[i].t == &sp_env) { envputs++; __CPROVER_assert(sp_put[i].k.type == JANET_SYMBOL && sp_put[i].k.as.pointer == (void *) sp_symA && sp_is_tab(sp_put[i].v, &sp_entry), "comp.def.top: the environment maps the name to the new entry"); }
        else if (sp_put[i].t == &sp_entry && sp_key_is(sp_put[i].k, 'f')) { refputs++; refv = sp_put[i].v; }
        else if (sp_put[i].t == &sp_entry && sp_key_is(sp_put[i].k, 'd')) { redefputs++; }
        else if (sp_put[i].t == &sp_entry && sp_key_is(sp_put[i].k, 'u')) { smputs++; }
        else other++;
    }
    __CPROVER_assert(sp_nput <= SP_NPUT && envputs == 1 && other == 0 && smputs == 1, "comp.def.top: the name is entered into the environment once; the entry records the source position; nothing else is written");
    int32_t vend = SP_PRE + sp_k[2];
    __CPROVER_assert(sp_emit3_calls == 1 && sp_emit3.at >= vend, "comp.def.top: one store instruction, after the code of the value form");
    JanetSlot stored = sp_emit3.imm < 0 ? sp_emit3.c : sp_emit3.b;
    int value_ok = sp_isconst[2] ? sp_is_const(stored, sp_constv[2]) : (!(stored.flags & JANET_SLOT_CONSTANT) && stored.index == sp_slot[2]);
#if SP_VAR
    /* a var form keeps the hint: the value was delivered into the hint slot (real janetc_copy in the value stub) and is stored from there */
    if (opts.flags & JANET_FOPTS_HINT) value_ok = !(stored.flags & JANET_SLOT_CONSTANT) && stored.index == opts.hint.index;
#endif
#if SP_VAR
    JanetArray *cell = (sp_redef && sp_old_kind == 2) ? &sp_oldref : &sp_newref;
    __CPROVER_assert(refputs == 1 && sp_is_arr(refv, cell) && redefputs == 0, "comp.var.top: the entry holds the ref cell: a new [nil] array, or the cell of the variable being redefined (:redef set)");
    __CPROVER_assert((cell == &sp_newref) == (sp_newref_calls == 1 && sp_push_calls == 1), "comp.var.top: a new cell is created only when none is reused");
    __CPROVER_assert(sp_emit3.op == JOP_PUT_INDEX && sp_emit3.imm == 0 && (sp_emit3.a.flags & JANET_SLOT_CONSTANT) && sp_is_arr(sp_emit3.a.constant, cell) && value_ok,
                     "comp.var.top: at run time the value is stored into element 0 of the ref cell");
    __CPROVER_assert(janet_v_count(sp_outer.syms) == 0, "comp.var.top: a top-level variable is not a local");
    if (cell == &sp_oldref) REACH("var top: redefinition reuses the cell");
#else
    if (!sp_redef) {
        __CPROVER_assert(refputs == 0 && redefputs == 0, "comp.def.top: a plain definition has no ref cell");
        __CPROVER_assert(sp_emit3.op == JOP_PUT && sp_emit3.imm < 0 && (sp_emit3.a.flags & JANET_SLOT_CONSTANT) && sp_is_tab(sp_emit3.a.constant, &sp_entry) &&
                         (sp_emit3.b.flags & JANET_SLOT_CONSTANT) && sp_key_is(sp_emit3.b.constant, 'l') && value_ok,
                         "comp.def.top: at run time the value is put under :value into the entry");
        REACH("def top: plain");
    } else {
        JanetArray *cell = sp_old_kind == 3 ? &sp_oldref : &sp_newref;
        __CPROVER_assert(refputs == 1 && sp_is_arr(refv, cell) && redefputs == 1, "comp.def.top: with :redef the entry is marked and holds a ref cell (the old one when the name was a redefinable definition)");
        __CPROVER_assert(sp_emit3.op == JOP_PUT_INDEX && sp_emit3.imm == 0 && (sp_emit3.a.flags & JANET_SLOT_CONSTANT) && sp_is_arr(sp_emit3.a.constant, cell) && value_ok,
                         "comp.def.top: with :redef the value is stored into element 0 of the ref cell at run time");
        REACH("def top: redef");
    }
    /* later forms of the same top-level chunk see the name as a local too */
    __CPROVER_assert(janet_v_count(sp_outer.syms) == 1 && sp_outer.syms[0].sym == sp_symA && !(sp_outer.syms[0].slot.flags & JANET_SLOT_MUTABLE), "comp.def.top: the name is also bound for the rest of the chunk");
#endif
    REACH("def top returns");
}
