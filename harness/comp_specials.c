/* C02: the special forms of the core language (if, do, upscope, break, def, var, set, quote, splice, quasiquote, fn).
 *
 * Every unit takes ONE real special-form compiler function of specials.c together with the real scope handling
 * (janetc_scope / janetc_popscope / janetc_popscope_keepslot, compile.c), the real target selection (janetc_gettarget), the
 * real emitters (janetc_emit, janetc_emit_si/s/su/sss, janetc_copy with janetc_movenear / janetc_moveback / janetc_loadconst,
 * emit.c). Sub-form compilation (janetc_value) is a contract stub:
 *
 *   sp_value_stub(opts, form f)  emits k_f in 0..2 arbitrary instruction words through the real janetc_emit ("the code of f",
 *        recorded in ghost arrays: owner, part number, word), then - as the real janetc_value does for every form -
 *        in tail position a return of f's value, and with a hint a copy (real janetc_copy) into the hint slot, which becomes
 *        the result slot. The result is a constant slot or a local register, as the harness chooses for f.
 *
 * The postcondition is stated on the EXECUTION of the emitted instruction vector by a reference interpreter (sp_run) of the
 * handful of opcodes involved (jump, conditional jumps, moves, constant loads, returns, the break placeholder): executing an
 * instruction owned by sub-form f means "this part of f is evaluated now"; completing f's code puts f's value into f's
 * register. The evaluation rule of the special form is then read off directly: which sub-forms are evaluated, in which order,
 * how often, where the value ends up, how control leaves. Run-time kinds of values (nil / false / anything else) are
 * unconstrained ghost inputs.
 *
 * Forms have an identity: argv[i] is a keyword-typed Janet whose payload is the form id i+1; the literal nil is form 0. */
#include "prelude.h"
#include <stdlib.h>

#define SP_PRE 2
#define SP_VCAP 32
#define SP_NF 6
#ifndef SP_MAXSTEP
#define SP_MAXSTEP 12
#endif
/* value ids of the interpreter */
#define SP_UNDEF 0
#define SP_NILV 1
#define SP_FALSEV 2
#define SP_TRUEV 3
#define SP_VAL(f) (8 + (f))
#define SP_INTV(i) (32 + ((i) & 63))       /* small integers only (the harness uses 0 and 7) */
#define SP_NREG 32                          /* registers the interpreter models; the allocator stubs stay below */
/* run-time kinds */
#define K_NIL 0
#define K_FALSE 1
#define K_OTHER 2
/* how execution ended */
#define H_RUNNING 0
#define H_END 1
#define H_RETURN 2
#define H_BREAK 3
#define H_BAD 4

static JanetCompiler sp_c;
static JanetScope sp_outer;
static struct { int32_t cap, cnt; uint32_t data[SP_VCAP]; } sp_bufmem;
static struct { int32_t cap, cnt; JanetSourceMapping data[SP_VCAP]; } sp_mapmem;
static uint32_t sp_pre[SP_PRE];

/* harness choices, per form */
static int sp_k[SP_NF];                 /* number of instructions of the form's code */
static int sp_isconst[SP_NF];           /* the form's value is a compile-time constant */
static Janet sp_constv[SP_NF];
static int sp_kind[SP_NF];              /* run-time kind of the form's value */
static int32_t sp_slot[SP_NF];          /* register holding the value of a non-constant form */
static uint32_t sp_slotflags[SP_NF];
static int sp_makes_closure[SP_NF];
/* ghost log of the compilation */
static int sp_calls[SP_NF], sp_seq[SP_NF], sp_ncalls;
static uint32_t sp_optflags[SP_NF];
static int sp_in_outer[SP_NF], sp_parent_is_outer[SP_NF], sp_scopeflags[SP_NF];
static int32_t sp_hintindex[SP_NF];
static int8_t sp_own[SP_VCAP], sp_part[SP_VCAP];
static uint32_t sp_word[SP_VCAP];
static int sp_throwaway_calls, sp_throwaway_form;
static int sp_errors;
static int sp_alloc_calls, sp_touch_calls, sp_free_calls;
static int32_t sp_alloc_last, sp_touched, sp_freed;

/* ------------------------------------------------------------------ trusted stubs (listed in `assumes`) */
void sp_sfree(void *p) { }
void *sp_nogrow_stub(void *v, int32_t increment, int32_t itemsize) { __CPROVER_assert(0, "harness: the preallocated instruction vectors suffice"); __CPROVER_assume(0); return v; }
/* constants of this harness are immediate (nil, booleans, small integers): the constant table is never needed */
int32_t sp_const_stub(JanetCompiler *c, Janet x) { __CPROVER_assert(0, "harness: only immediate constants are loaded"); __CPROVER_assume(0); return 0; }
void sp_cerror_stub(JanetCompiler *c, const char *m) { sp_errors++; c->result.status = JANET_COMPILE_ERROR; }
void sp_error_stub(JanetCompiler *c, const uint8_t *m) { sp_errors++; c->result.status = JANET_COMPILE_ERROR; }
void sp_ra_init_stub(JanetcRegisterAllocator *ra) { ra->max = 0; }
void sp_ra_clone_stub(JanetcRegisterAllocator *d, JanetcRegisterAllocator *s) { d->max = s->max; }
void sp_ra_deinit_stub(JanetcRegisterAllocator *ra) {}
/* a free register: never one that holds a live value (the registers of the sub-forms' results, SP_SLOT0..) */
#define SP_SLOT0 20
static int sp_is_form_slot(int32_t r) { return r >= SP_SLOT0 && r < SP_SLOT0 + SP_NF; }
int32_t sp_ra_1_stub(JanetcRegisterAllocator *ra) { int32_t r = nd_i32(); __CPROVER_assume(r >= 0 && r < SP_NREG && !sp_is_form_slot(r)); sp_alloc_calls++; sp_alloc_last = r; return r; }
int32_t sp_ra_temp_stub(JanetcRegisterAllocator *ra, JanetcRegisterTemp t) { int32_t r = nd_i32(); __CPROVER_assume(r >= 0xF0 && r <= 0xFF); return r; }
void sp_ra_freetemp_stub(JanetcRegisterAllocator *ra, int32_t reg, JanetcRegisterTemp t) {}
void sp_ra_touch_stub(JanetcRegisterAllocator *ra, int32_t reg) { sp_touch_calls++; sp_touched = reg; }
void sp_ra_free_stub(JanetcRegisterAllocator *ra, int32_t reg) { sp_free_calls++; sp_freed = reg; }

/* contract of janetc_emit (proved in comp.srcmap.emit): appends the instruction and the current source mapping */
void sp_emit_stub(JanetCompiler *c, uint32_t instr) {
    __CPROVER_assert(c == &sp_c && sp_bufmem.cnt + 1 < SP_VCAP, "harness: the preallocated instruction vectors suffice");
    __CPROVER_assume(sp_bufmem.cnt + 1 < SP_VCAP);
    sp_bufmem.data[sp_bufmem.cnt++] = instr; sp_mapmem.cnt++;
}
static void sp_emit_owned(int f, int part, uint32_t w) {
    int32_t at = janet_v_count(sp_c.buffer);
    if (at < SP_VCAP) { sp_own[at] = (int8_t)(f + 1); sp_part[at] = (int8_t) part; sp_word[at] = w; }
    janetc_emit(&sp_c, w);
}
static int sp_formid(Janet x) { return x.type == JANET_NIL ? 0 : x.type == JANET_TUPLE ? SP_NF - 1 : (int)(x.as.u64 & 7); }

/* contract of janetc_value */
JanetSlot sp_value_stub(JanetFopts opts, Janet x) {
    JanetCompiler *c = opts.compiler;
    int f = sp_formid(x);
    __CPROVER_assert(f >= 0 && f < SP_NF && c == &sp_c, "harness: a form of this harness");
    __CPROVER_assume(f >= 0 && f < SP_NF);
    sp_calls[f]++; sp_optflags[f] = opts.flags; sp_seq[f] = sp_ncalls++;
    sp_in_outer[f] = c->scope == &sp_outer; sp_parent_is_outer[f] = c->scope->parent == &sp_outer; sp_scopeflags[f] = c->scope->flags;
    sp_hintindex[f] = opts.hint.index;
    for (int j = 0; j < 2; j++) if (j < sp_k[f]) sp_emit_owned(f, j, (nd_u32() << 8) | JOP_NOOP);
    if (sp_makes_closure[f]) c->scope->flags |= JANET_SCOPE_CLOSURE;
    JanetSlot s;
    if (sp_isconst[f]) s = janetc_cslot(sp_constv[f]);
    else { s.constant.type = JANET_NIL; s.constant.as.u64 = 0; s.index = sp_slot[f]; s.envindex = -1; s.flags = sp_slotflags[f]; }
    if (opts.flags & JANET_FOPTS_TAIL) { sp_emit_owned(f, 2, JOP_RETURN); s.flags |= JANET_SLOT_RETURNED; }
    if (opts.flags & JANET_FOPTS_HINT) { janetc_copy(c, opts.hint, s); s = opts.hint; }
    return s;
}
/* contract of janetc_throwaway (proved in comp.srcmap.throwaway): the dead form is compiled for its diagnostics and leaves
 * no instruction and no mapping behind */
void sp_throwaway_stub(JanetFopts opts, Janet x) { sp_throwaway_calls++; sp_throwaway_form = sp_formid(x); }

/* ------------------------------------------------------------------ reference interpreter of the emitted code */
static int8_t sp_reg[SP_NREG];
static int sp_prog[SP_NF], sp_first[SP_NF], sp_clock;
static int sp_halt, sp_retform, sp_undef_read, sp_changed, sp_disorder, sp_steps;
static int8_t sp_retval; static int32_t sp_haltpc;

static int sp_kind_of_q(int8_t v) {
    if (v == SP_UNDEF) return K_OTHER;
    if (v == SP_NILV) return K_NIL;
    if (v == SP_FALSEV) return K_FALSE;
    if (v >= SP_VAL(0) && v < SP_VAL(SP_NF)) return sp_kind[v - SP_VAL(0)];
    return K_OTHER;
}
/* v is the value of form f */
static int sp_is_value_of(int8_t v, int f) {
    if (v == SP_VAL(f)) return 1;
    if (!sp_isconst[f]) return 0;
    Janet k = sp_constv[f];
    if (k.type == JANET_NIL) return v == SP_NILV;
    if (k.type == JANET_BOOLEAN) return v == ((k.as.u64 & 1) ? SP_TRUEV : SP_FALSEV);
    if (k.type == JANET_NUMBER) return v == SP_INTV((int32_t) k.as.number);
    return 0;
}
static void sp_run_init(void) {
    for (int f = 0; f < SP_NF; f++) { sp_prog[f] = 0; sp_first[f] = -1; if (!sp_isconst[f] && sp_k[f] == 0) sp_reg[sp_slot[f]] = SP_VAL(f); }
    sp_clock = 0; sp_halt = H_RUNNING; sp_retform = -1; sp_undef_read = sp_changed = sp_disorder = 0; sp_retval = SP_UNDEF;
}
static void sp_run(int32_t pc, int32_t n) {
    for (sp_steps = 0; sp_steps < SP_MAXSTEP; sp_steps++) {
        if (sp_halt != H_RUNNING) break;
        if (pc == n) { sp_halt = H_END; break; }
        if (pc < 0 || pc > n || pc >= SP_VCAP) { sp_halt = H_BAD; break; }
        uint32_t w = sp_c.buffer[pc];
        int f = sp_own[pc] - 1, part = sp_part[pc];
        uint32_t op = w & 0xFF, a = (w >> 8) & 0xFF, b16 = w >> 16;
        int32_t off16 = (int32_t) w >> 16, off24 = (int32_t) w >> 8;
        /* one register read per operand and one register write per step (keeps the formula small) */
        int8_t va = sp_reg[a % SP_NREG], vb = sp_reg[b16 % SP_NREG], wv = SP_UNDEF;
        int32_t wd = -1, next = pc + 1;
        int ka = sp_kind_of_q(va);
        sp_haltpc = pc;
        if (f >= 0) {                                   /* an instruction of sub-form f */
            if (w != sp_word[pc]) sp_changed = 1;
            if (sp_first[f] < 0) sp_first[f] = sp_clock++;
            if (part == 2) {
                if (sp_prog[f] != sp_k[f]) sp_disorder = 1;
                sp_halt = H_RETURN; sp_retform = f; sp_retval = SP_VAL(f);
            } else {
                if (part != sp_prog[f]) sp_disorder = 1;
                sp_prog[f]++;
                if (sp_prog[f] == sp_k[f] && !sp_isconst[f]) { wd = sp_slot[f]; wv = SP_VAL(f); }
            }
        } else if (w == (0x80 | JOP_JUMP)) sp_halt = H_BREAK;
        else if (op == JOP_JUMP) next = pc + off24;
        else if (op == JOP_RETURN_NIL) { sp_halt = H_RETURN; sp_retval = SP_NILV; }
        else if (a >= SP_NREG) sp_halt = H_BAD;
        else if (op == JOP_JUMP_IF_NOT) { if (va == SP_UNDEF) sp_undef_read = 1; if (ka != K_OTHER) next = pc + off16; }
        else if (op == JOP_JUMP_IF) { if (va == SP_UNDEF) sp_undef_read = 1; if (ka == K_OTHER) next = pc + off16; }
        else if (op == JOP_JUMP_IF_NIL) { if (va == SP_UNDEF) sp_undef_read = 1; if (ka == K_NIL) next = pc + off16; }
        else if (op == JOP_JUMP_IF_NOT_NIL) { if (va == SP_UNDEF) sp_undef_read = 1; if (ka != K_NIL) next = pc + off16; }
        else if (op == JOP_MOVE_NEAR) { if (b16 >= SP_NREG) sp_halt = H_BAD; else { wd = (int32_t) a; wv = vb; } }
        else if (op == JOP_MOVE_FAR) { if (b16 >= SP_NREG) sp_halt = H_BAD; else { wd = (int32_t) b16; wv = va; } }
        else if (op == JOP_LOAD_NIL) { wd = (int32_t) a; wv = SP_NILV; }
        else if (op == JOP_LOAD_TRUE) { wd = (int32_t) a; wv = SP_TRUEV; }
        else if (op == JOP_LOAD_FALSE) { wd = (int32_t) a; wv = SP_FALSEV; }
        else if (op == JOP_LOAD_INTEGER) { wd = (int32_t) a; wv = (int8_t) SP_INTV(off16); }
        else if (op == JOP_RETURN) { sp_halt = H_RETURN; sp_retval = va; }
        else sp_halt = H_BAD;
        if (sp_halt == H_RUNNING) { if (wd >= 0) sp_reg[wd % SP_NREG] = wv; pc = next; }
    }
}

/* ------------------------------------------------------------------ common set-up */
static Janet sp_form(int id) { Janet x; x.type = JANET_KEYWORD; x.as.u64 = (uint64_t) id; return x; }
static Janet sp_nil(void) { Janet x; x.type = JANET_NIL; x.as.u64 = 0; return x; }
static void sp_choose_const(int f) {
    /* nil, false, true, the numbers 0 and 7 (0 is truthy) */
    int t = nd_int();
    Janet k = sp_nil();
    if (t == 1) { k.type = JANET_BOOLEAN; k.as.u64 = 0; }
    else if (t == 2) { k.type = JANET_BOOLEAN; k.as.u64 = 1; }
    else if (t == 3) { k.type = JANET_NUMBER; k.as.number = 0.0; }
    else if (t == 4) { k.type = JANET_NUMBER; k.as.number = 7.0; }
    sp_constv[f] = k;
    sp_kind[f] = k.type == JANET_NIL ? K_NIL : (k.type == JANET_BOOLEAN && !(k.as.u64 & 1)) ? K_FALSE : K_OTHER;
}
static void sp_setup(int outer_flags) {
    sp_bufmem.cap = SP_VCAP; sp_bufmem.cnt = 0; sp_mapmem.cap = SP_VCAP; sp_mapmem.cnt = 0;
    sp_c.buffer = sp_bufmem.data; sp_c.mapbuffer = sp_mapmem.data;
    sp_c.result.status = JANET_COMPILE_OK; sp_c.recursion_guard = JANET_RECURSION_GUARD;
    /* ghost arrays and interpreter registers start zeroed (plain mode: statics are zero-initialised) */
    for (int i = 0; i < SP_PRE; i++) { sp_pre[i] = nd_u32(); janetc_emit(&sp_c, sp_pre[i]); }
    sp_outer.name = "outer"; sp_outer.parent = (JanetScope *)0; sp_outer.child = (JanetScope *)0; sp_outer.flags = outer_flags;
    sp_outer.bytecode_start = 0; sp_outer.syms = (SymPair *)0; sp_outer.consts = (Janet *)0; sp_outer.envs = (JanetEnvRef *)0; sp_outer.defs = (JanetFuncDef **)0;
    sp_outer.ra.max = 0; sp_outer.ua.max = 0;
    sp_c.scope = &sp_outer;
    for (int f = 0; f < SP_NF; f++) {
#ifdef SP_KFIX
        sp_k[f] = SP_KFIX;
#else
        sp_k[f] = nd_int(); __CPROVER_assume(sp_k[f] >= 0 && sp_k[f] <= 2);
#endif
        sp_isconst[f] = nd_int() & 1;
        sp_slot[f] = SP_SLOT0 + f; sp_slotflags[f] = 0; sp_makes_closure[f] = 0;
        if (sp_isconst[f]) sp_choose_const(f);
        else { sp_constv[f] = sp_nil(); sp_kind[f] = nd_int(); __CPROVER_assume(sp_kind[f] >= K_NIL && sp_kind[f] <= K_OTHER); }
        sp_calls[f] = 0; sp_optflags[f] = 0; sp_seq[f] = -1; sp_in_outer[f] = sp_parent_is_outer[f] = sp_scopeflags[f] = 0; sp_hintindex[f] = 0;
    }
    /* form 0 is the literal nil */
    sp_k[0] = 0; sp_isconst[0] = 1; sp_constv[0] = sp_nil(); sp_kind[0] = K_NIL;
    sp_ncalls = sp_throwaway_calls = sp_errors = sp_alloc_calls = sp_touch_calls = sp_free_calls = 0; sp_throwaway_form = -1;
}
/* options of the form under compilation: value used (possibly with a hint), dropped, or tail position */
#define SP_USED 0
#define SP_DROP 1
#define SP_TAIL 2
static int sp_ctx;
static JanetFopts sp_opts(void) {
    JanetFopts o; o.compiler = &sp_c; o.flags = 0; o.hint.flags = 0; o.hint.index = 0; o.hint.envindex = -1; o.hint.constant = sp_nil();
#ifdef SP_CTX
    sp_ctx = SP_CTX;
#else
    sp_ctx = nd_int(); __CPROVER_assume(sp_ctx >= SP_USED && sp_ctx <= SP_TAIL);
#endif
    if (sp_ctx == SP_DROP) o.flags |= JANET_FOPTS_DROP;
    if (sp_ctx == SP_TAIL) o.flags |= JANET_FOPTS_TAIL;
    if (sp_ctx == SP_USED && nd_int()) {
        o.flags |= JANET_FOPTS_HINT; o.hint.flags = JANET_SLOT_NAMED | JANET_SLOT_MUTABLE | JANET_SLOTTYPE_ANY;
        o.hint.index = nd_i32(); __CPROVER_assume(o.hint.index >= 0 && o.hint.index < SP_NREG);
    }
    if (nd_int()) o.flags |= JANET_FOPTS_ACCEPT_SPLICE;
    return o;
}
static void sp_common_post(const char *unused) {
    int32_t n = janet_v_count(sp_c.buffer);
    __CPROVER_assert(sp_c.scope == &sp_outer && sp_outer.child == (JanetScope *)0, "comp.sp: every scope the form opened is closed again; compilation continues in the enclosing scope");
    __CPROVER_assert(n >= SP_PRE && sp_c.buffer[0] == sp_pre[0] && sp_c.buffer[1] == sp_pre[1], "comp.sp: code emitted before the form is untouched");
    __CPROVER_assert(janet_v_count(sp_c.mapbuffer) == n, "comp.sp: the source map stays in step with the code");
}
static void sp_exec(void) {
    sp_run_init();
    sp_run(SP_PRE, janet_v_count(sp_c.buffer));
    __CPROVER_assert(sp_halt != H_RUNNING && sp_halt != H_BAD, "comp.sp: execution of the emitted code stays inside it and meets only well-formed instructions");
    __CPROVER_assert(!sp_changed, "comp.sp: no instruction of a sub-form is altered");
    __CPROVER_assert(!sp_disorder, "comp.sp: a sub-form's code runs from its first instruction to its last");
    __CPROVER_assert(!sp_undef_read, "comp.sp: no branch decision reads a register before the value is computed");
}
#define SP_RAN(f) (sp_prog[f] == sp_k[f] && (sp_k[f] == 0 || sp_first[f] >= 0))
#define SP_NOT_RUN(f) (sp_prog[f] == 0 && sp_first[f] < 0)

/* ================================================================== if */
#ifndef SP_IF_SHAPE
#define SP_IF_SHAPE 0       /* 0: plain condition form; 1: (f nil x) / (f x nil) with f tagged = / not= / < */
#endif
static struct { JanetTupleHead head; Janet data[3]; } sp_tup;
static JanetFunction sp_fun;
static JanetFuncDef sp_fundef;

void h_if(void) {
    sp_setup(nd_int() ? JANET_SCOPE_FUNCTION : JANET_SCOPE_WHILE);
    int32_t argn = nd_i32();
    __CPROVER_assume(argn == 2 || argn == 3);
    Janet argv[3];
    argv[0] = sp_form(1); argv[1] = sp_form(2); argv[2] = nd_int() ? sp_form(3) : sp_nil();      /* (if c a b), (if c a nil), (if c a) */
    int condid = 1, mode = 0;              /* mode 0: truthiness, 1: (= nil x), 2: (not= nil x) */
#if SP_IF_SHAPE == 1
    int tag = nd_int();
    __CPROVER_assume(tag == JANET_FUN_EQ || tag == JANET_FUN_NEQ || tag == JANET_FUN_LT);
    sp_fundef.flags = (int32_t) tag | (nd_int() ? JANET_FUNCDEF_FLAG_VARARG : 0);
    sp_fun.def = &sp_fundef;
    sp_tup.head.length = 3; sp_tup.head.gc.flags = 0;
    Janet *td = (Janet *) sp_tup.data;
    td[0].type = JANET_FUNCTION; td[0].as.pointer = &sp_fun;
    if (nd_int()) { td[1] = sp_nil(); td[2] = sp_form(1); } else { td[1] = sp_form(1); td[2] = sp_nil(); }
    argv[0].type = JANET_TUPLE; argv[0].as.pointer = (void *) sp_tup.data;
    if (tag == JANET_FUN_EQ) mode = 1; else if (tag == JANET_FUN_NEQ) mode = 2; else condid = SP_NF - 1;       /* (< nil x) is an ordinary condition form */
#endif
    int elseid = (argn == 3 && argv[2].type != JANET_NIL) ? 3 : 0;
#ifdef SP_CONDCONST
    __CPROVER_assume(sp_isconst[1] == SP_CONDCONST);
#endif
    JanetFopts opts = sp_opts();
    JanetSlot ret = janetc_if(opts, argn, argv);

    __CPROVER_assert(sp_errors == 0, "comp.if: a well-formed if compiles without error");
    sp_common_post("if");
    /* compile-time side: what was compiled, how */
    __CPROVER_assert(sp_calls[condid] == 1 && sp_seq[condid] == 0, "comp.if: the condition is compiled first, once");
    __CPROVER_assert((sp_optflags[condid] & (JANET_FOPTS_TAIL | JANET_FOPTS_HINT | JANET_FOPTS_DROP | JANET_FOPTS_ACCEPT_SPLICE)) == 0,
                     "comp.if: the condition is compiled for its value (never in tail position, never into the result slot)");
    __CPROVER_assert(!sp_in_outer[condid], "comp.if: the condition is compiled in a scope of its own");
    int g = nd_int() ? 2 : elseid;          /* any branch that was compiled into the code */
    if (sp_calls[g] > 0 && g != condid) {
        __CPROVER_assert(!sp_in_outer[g] && !sp_parent_is_outer[g], "comp.if: each branch is compiled in a scope of its own inside the if");
        __CPROVER_assert(!(sp_optflags[g] & JANET_FOPTS_ACCEPT_SPLICE), "comp.if: a splice is not accepted in a branch");
        __CPROVER_assert((sp_optflags[g] & (JANET_FOPTS_TAIL | JANET_FOPTS_DROP)) == (opts.flags & (JANET_FOPTS_TAIL | JANET_FOPTS_DROP)),
                         "comp.if: the branches inherit tail position / dropped value from the if");
    }
    /* run-time side: the evaluation rule */
    sp_exec();
    int ck = sp_kind[condid];
    int take_true = mode == 0 ? ck == K_OTHER : mode == 1 ? ck == K_NIL : ck != K_NIL;
    int chosen = take_true ? 2 : elseid, other = take_true ? elseid : 2;
    __CPROVER_assert(SP_RAN(condid), "comp.if: the condition is evaluated");
    __CPROVER_assert(SP_RAN(chosen), "comp.if: the selected branch is evaluated (true branch iff the condition is neither nil nor false)");
    __CPROVER_assert(chosen == other || SP_NOT_RUN(other), "comp.if: the other branch is not evaluated");
    __CPROVER_assert(sp_k[condid] == 0 || sp_k[chosen] == 0 || sp_first[condid] < sp_first[chosen], "comp.if: the condition is evaluated before the branch");
    if (sp_isconst[condid]) {
        __CPROVER_assert(chosen == other || sp_calls[other] == 0, "comp.if: with a constant condition the dead branch leaves no code");
        REACH("if: constant condition");
    }
    if (sp_ctx == SP_TAIL) {
        __CPROVER_assert(sp_halt == H_RETURN && sp_retform == chosen, "comp.if: in tail position the selected branch returns its value");
        REACH("if: tail position");
    } else {
        __CPROVER_assert(sp_halt == H_END, "comp.if: control continues with the first instruction after the if");
        if (sp_ctx == SP_USED) {
            __CPROVER_assert(!(ret.flags & JANET_SLOT_CONSTANT) && ret.envindex < 0 && ret.index >= 0 && ret.index < SP_NREG && sp_is_value_of(sp_reg[ret.index], chosen),
                             "comp.if: the result slot holds the value of the selected branch (nil when there is no else branch)");
            if (opts.flags & JANET_FOPTS_HINT) { __CPROVER_assert(ret.index == opts.hint.index, "comp.if: a usable hint slot receives the result"); REACH("if: hint"); }
            REACH("if: value used");
        } else REACH("if: value dropped");
    }
    if (!take_true && elseid == 0 && sp_ctx == SP_USED) REACH("if: no else branch, false condition yields nil");
    if (mode == 1 && !sp_isconst[condid]) REACH("if: (= nil x) shortcut");
    if (mode == 2 && !sp_isconst[condid]) REACH("if: (not= nil x) shortcut");
    REACH("if returns");
}
