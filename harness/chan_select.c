/* C06: select (cfun_channel_choice, ev.c) - "every select yields exactly one clause result" and "no fiber stays suspended once
 * its operation has been matched". give/take under their contracts (units chan.give / chan.take): push_with_lock returns 0
 * when the give COMPLETED without waiting (a live taker was waiting or there was room), 1 when the giver was registered as
 * pending; pop_with_lock returns 1 when an item was obtained, 0 when the taker was registered. Contract of the suspension
 * point janet_await: the fiber may suspend only if none of its clauses has completed. */
#include "prelude.h"
JanetChannel g_chs[2]; int g_completed, g_registered, g_results, g_nclauses;
/* number of queued items as the ring indices say (janet_q_count, proved in unit q.count) */
static int32_t true_count(JanetChannel *ch) { return ch->items.head <= ch->items.tail ? ch->items.tail - ch->items.head : ch->items.capacity - ch->items.head + ch->items.tail; }
/* contract of give (unit chan.give): completes at once iff a live taker is waiting or the queue has room, else the giver is registered */
int push_stub(JanetChannel *ch, Janet x, int mode) { __CPROVER_assert(mode == 1, "select gives in choice mode"); if ((nd_int() & 1) || true_count(ch) < ch->limit) { g_completed++; return 0; } g_registered++; return 1; }
/* contract of take (unit chan.take): completes at once iff an item is queued (or a giver is waiting), else the taker is registered */
int pop_stub(JanetChannel *ch, Janet *item, int is_choice) { __CPROVER_assert(is_choice == 1, "select takes in choice mode"); if ((nd_int() & 1) || ch->items.head != ch->items.tail) { g_completed++; return 1; } g_registered++; return 0; }
void await_stub(void) { __CPROVER_assert(g_completed == 0, "C06 select: the fiber suspends only if none of its clauses completed (a clause matched by an already waiting partner yields its result at once)"); __CPROVER_assert(g_registered + g_completed == g_nclauses, "C06 select: before suspending the fiber has registered on EVERY clause"); REACH("select suspends"); __CPROVER_assume(0); }
int32_t qcount_stub(JanetQueue *q) { return q->head <= q->tail ? q->tail - q->head : q->capacity - q->head + q->tail; }
JanetChannel *getchannel_stub(const Janet *argv, int32_t n) { return &g_chs[nd_uint() & 1]; }
Janet g_pair[2];
int indexed_view_stub(Janet seq, const Janet **data, int32_t *len) { if (nd_int() & 1) { *data = g_pair; *len = 2; return 1; } return 0; }
Janet result_stub1(JanetChannel *c) { g_results++; return janet_wrap_nil(); }
Janet result_stub2(JanetChannel *c, Janet x) { g_results++; __CPROVER_assert(g_completed == 1 && g_registered == 0, "C06 select: [:take ch x] is returned at once only for a take that completed; nothing is left pending for the running fiber"); return janet_wrap_nil(); }
Janet result_write_stub(JanetChannel *c) { g_results++; __CPROVER_assert(g_completed == 1 && g_registered == 0, "C06 select: [:give ch] is returned at once only for a give that completed (room in the queue or a waiting taker); nothing is left pending for the running fiber"); REACH("select gives at once"); return janet_wrap_nil(); }
void arity_stub(int32_t argc, int32_t a, int32_t b) { __CPROVER_assume(argc >= a); }
void unlock_args_stub(const Janet *argv, int32_t n) { }
void h_select(void) {
  int32_t argc = nd_i32(); __CPROVER_assume(argc >= 1 && argc <= 2); Janet argv[2];
  for (int k = 0; k < 2; k++) { g_chs[k].closed = nd_int() & 1; g_chs[k].limit = nd_i32(); g_chs[k].is_threaded = 0; g_chs[k].items.head = nd_i32(); g_chs[k].items.tail = nd_i32(); g_chs[k].items.capacity = nd_i32();
    /* ring invariant of JanetQueue (unit q.push / q.pop) */
    __CPROVER_assume(g_chs[k].items.capacity >= 0 && g_chs[k].items.head >= 0 && g_chs[k].items.tail >= 0 && (g_chs[k].items.capacity == 0 ? (g_chs[k].items.head == 0 && g_chs[k].items.tail == 0) : (g_chs[k].items.head < g_chs[k].items.capacity && g_chs[k].items.tail < g_chs[k].items.capacity))); }
  janet_vm.coerce_error = 0; g_completed = g_registered = g_results = 0; g_nclauses = argc;
  cfun_channel_choice(argc, argv);
  __CPROVER_assert(g_results == 1 && g_completed <= 1, "C06 select: an immediate result is exactly one clause result for at most one completed operation");
  REACH("select returns at once");
}
