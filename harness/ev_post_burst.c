/* C20 self-pipe, burst variant of handle_common (kept in its own file: goto-instrument 6.11 --dfcc aborts with an internal
 * invariant violation on unit ev.post_event when the line numbers of ev_post.c shift - probed, not understood).
 * Included after ev_post.c; uses its stubs and ghosts. */
#ifndef EV_BURST
#define EV_BURST 40
#endif
void h_handle_burst(void) {
  g_allow_null = 0; g_delivered = 0; g_with_cb = 0; g_drained = 0; g_tcb_calls = 0; g_errno = nd_int();
  janet_vm.selfpipe[0] = nd_int(); g_exp_rfd = janet_vm.selfpipe[0];
  /* every queued event owns one count (postcondition of janet_ev_post_event); one burst of exactly EV_BURST events keeps the path straight-line */
  janet_vm.listener_count = nd_i32(); g_total = EV_BURST;
  __CPROVER_assume(janet_vm.listener_count >= g_total);
  g_eintr_budget = 0;
  g_lc0 = janet_vm.listener_count;
  janet_ev_handle_selfpipe();
  __CPROVER_assert(g_drained && g_delivered == g_total, "C20 selfpipe: the pipe is drained - no posted event is left unhandled even in a burst (the pipe is edge-triggered)");
  __CPROVER_assert(g_tcb_calls == g_with_cb, "C20 selfpipe: each event's callback runs exactly once");
  __CPROVER_assert(janet_vm.listener_count == g_lc0 - g_total, "C20 pairing: each handled event releases exactly the one count its post took");
  REACH("handle_selfpipe returns after a burst");
}
