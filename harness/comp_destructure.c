/* C02 "destructuring ... yields exactly the value the evaluation rules prescribe": indexed patterns.
 * Real destructure() (specials.c) on a flat pattern of DS_N symbols; the emitters are recording stubs. Contract: position
 * k of the pattern is bound to element k of the right-hand side - the k-th access instruction emitted reads index k, either
 * as GET_INDEX with the 8-bit immediate k (only possible for k < 256) or as IN with the constant k - and the k-th leaf
 * binding receives the slot that access wrote. DS_N = 258 covers both encodings and the boundary between them. */
#include "prelude.h"
#ifndef DS_N
#define DS_N 258
#endif
static Janet ds_vals[DS_N];
static uint8_t ds_symbol_mem[16];
static int ds_access, ds_leaf, ds_far;
static JanetCompiler ds_c;
static int32_t ds_last_dest;

JanetSlot ds_farslot_stub(JanetCompiler *c) { JanetSlot s; s.constant.type = JANET_NIL; s.constant.as.u64 = 0; s.index = 1000 + ds_far++; s.envindex = -1; s.flags = 0; return s; }
void ds_freeslot_stub(JanetCompiler *c, JanetSlot s) {}
int ds_indexed_view_stub(Janet seq, const Janet **data, int32_t *len) { *data = ds_vals; *len = DS_N; return 1; }
int ds_cstrcmp_stub(const uint8_t *str, const char *other) { return 1; }   /* no position is the rest marker & */
int32_t ds_emit_ssu_stub(JanetCompiler *c, uint8_t op, JanetSlot s1, JanetSlot s2, uint8_t immediate, int wr) {
    __CPROVER_assert(op == JOP_GET_INDEX && wr == 1, "comp.destructure: immediate-index form is GET_INDEX writing its destination");
    __CPROVER_assert((int) immediate == ds_access, "comp.destructure: position k of the pattern reads element k (8-bit immediate index)");
    __CPROVER_assert(s2.index == 7, "comp.destructure: elements are read from the right-hand side");
    ds_last_dest = s1.index; ds_access++;
    return 0;
}
int32_t ds_emit_sss_stub(JanetCompiler *c, uint8_t op, JanetSlot s1, JanetSlot s2, JanetSlot s3, int wr) {
    __CPROVER_assert(op == JOP_IN && wr == 1, "comp.destructure: constant-index form is IN writing its destination");
    __CPROVER_assert((s3.flags & JANET_SLOT_CONSTANT) && s3.constant.type == JANET_NUMBER && s3.constant.as.number == (double) ds_access,
                     "comp.destructure: position k of the pattern reads element k (constant index)");
    __CPROVER_assert(s2.index == 7, "comp.destructure: elements are read from the right-hand side");
    ds_last_dest = s1.index; ds_access++;
    return 0;
}
void ds_error_stub(JanetCompiler *c, const uint8_t *m) { __CPROVER_assert(0, "comp.destructure: a well-formed flat pattern compiles without error"); }
void ds_cerror_stub(JanetCompiler *c, const char *m) { __CPROVER_assert(0, "comp.destructure: a well-formed flat pattern compiles without error"); }
static int ds_leaf_fn(JanetCompiler *c, const uint8_t *sym, JanetSlot s, JanetTable *attr) {
    __CPROVER_assert(ds_access == ds_leaf + 1 && s.index == ds_last_dest, "comp.destructure: the k-th name is bound to the slot the k-th access wrote");
    ds_leaf++;
    return 1;
}
void h_destructure(void) {
    for (int i = 0; i < DS_N; i++) { ds_vals[i].type = JANET_SYMBOL; ds_vals[i].as.pointer = ds_symbol_mem; }
    ds_c.recursion_guard = 10;
    Janet left; left.type = nd_int() ? JANET_TUPLE : JANET_ARRAY; left.as.pointer = (void *)0;
    JanetSlot right; right.constant.type = JANET_NIL; right.constant.as.u64 = 0; right.index = 7; right.envindex = -1; right.flags = 0;
    ds_access = ds_leaf = ds_far = 0;
    destructure(&ds_c, left, right, ds_leaf_fn, (JanetTable *)0);
    __CPROVER_assert(ds_access == DS_N && ds_leaf == DS_N, "comp.destructure: every position of the pattern is read and bound exactly once");
    REACH("destructure returns");
}
