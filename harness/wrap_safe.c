/* C10: reals read from untrusted bytes are re-boxed so that NO 64-bit pattern can forge a pointer-typed value */
#include "prelude.h"
#include <math.h>
void h_wrap_number_safe(void) {
  union { uint64_t u; double d; } in; in.u = nd_u64();
  Janet x = janet_wrap_number_safe(in.d);
  __CPROVER_assert(janet_checktype(x, JANET_NUMBER), "C10 wrap_number_safe: result is a number for every 64-bit input pattern");
  __CPROVER_assert(janet_type(x) == JANET_NUMBER, "C10 wrap_number_safe: janet_type says number");
  __CPROVER_assert(isnan(in.d) || x.u64 == in.u, "C10 wrap_number_safe: non-NaN inputs are preserved bit for bit");
  REACH("wrap_number_safe returns");
}
