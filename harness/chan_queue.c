/* C06: the ring buffer behind channel items / pending readers / pending writers (ev.c janet_q_*) is a FIFO sequence.
 * wf_q: capacity 0 with head == tail == 0, or 0 <= head, tail < capacity <= JANET_MAX_Q_CAPACITY.
 * Abstract view: the sequence data[head], data[head+1], ... (mod capacity) up to tail; |view| = janet_q_count. */
#include "prelude.h"
#define WF_Q(q) (((q)->capacity == 0 && (q)->head == 0 && (q)->tail == 0) || \
   ((q)->capacity > 0 && (q)->capacity <= JANET_MAX_Q_CAPACITY && (q)->head >= 0 && (q)->head < (q)->capacity && (q)->tail >= 0 && (q)->tail < (q)->capacity))
#define QCOUNT(q) (((q)->head > (q)->tail) ? ((q)->tail + (q)->capacity - (q)->head) : ((q)->tail - (q)->head))
#define OH __CPROVER_old(q->head)
#define OT __CPROVER_old(q->tail)
#define OC __CPROVER_old(q->capacity)
#define QCOUNT_OLD ((OH > OT) ? (OT + OC - OH) : (OT - OH))
/* pop: fails iff empty; otherwise returns the element at the head, the view loses exactly its first element */
static int janet_q_pop_c(JanetQueue *q, void *out, size_t itemsize)
__CPROVER_requires(itemsize == 8)
__CPROVER_requires(__CPROVER_is_fresh(q, sizeof(*q)) && WF_Q(q))
__CPROVER_requires(q->capacity == 0 || __CPROVER_is_fresh(q->data, (size_t)q->capacity * 8))
__CPROVER_requires(__CPROVER_is_fresh(out, 8))
__CPROVER_assigns(q->head, __CPROVER_object_whole(out))
__CPROVER_ensures(WF_Q(q))
__CPROVER_ensures(__CPROVER_return_value == (QCOUNT_OLD == 0))
__CPROVER_ensures(__CPROVER_return_value == 0 ==> QCOUNT(q) == QCOUNT_OLD - 1)
__CPROVER_ensures(__CPROVER_return_value == 0 ==> *(uint64_t*)out == ((uint64_t*)q->data)[__CPROVER_old(q->head)])
__CPROVER_ensures(__CPROVER_return_value == 0 ==> q->head == (__CPROVER_old(q->head) + 1 < q->capacity ? __CPROVER_old(q->head) + 1 : 0))
__CPROVER_ensures(__CPROVER_return_value == 1 ==> q->head == __CPROVER_old(q->head))
__CPROVER_ensures(q->tail == __CPROVER_old(q->tail) && q->capacity == __CPROVER_old(q->capacity))
;
void h_q_pop(void) { JanetQueue *q; void *out; size_t sz; janet_q_pop(q, out, sz); REACH("janet_q_pop returns"); }
/* count: the length of the view, between 0 and capacity-1 (0 for the empty representation); changes nothing */
void h_q_count(void) {
  JanetQueue q; q.head = nd_i32(); q.tail = nd_i32(); q.capacity = nd_i32(); __CPROVER_assume(WF_Q(&q));
  int32_t n = janet_q_count(&q);
  __CPROVER_assert(n >= 0 && (q.capacity == 0 ? n == 0 : n < q.capacity), "C06 queue count is within [0, capacity)");
  __CPROVER_assert((n == 0) == (q.head == q.tail), "C06 queue is empty iff head == tail");
  __CPROVER_assert(q.capacity == 0 || (int64_t)(q.head + (int64_t)n) % q.capacity == q.tail, "C06 queue count is the distance from head to tail modulo capacity");
  REACH("janet_q_count returns");
}
/* FIFO lemma on the REAL functions, small capacities: from ANY well-formed state (capacity <= QCAP, any head/tail/contents)
 * push x then pop until x comes out: x comes out after exactly count(before) other pops, and those return the old elements in order */
#ifndef QCAP
#define QCAP 4
#endif
/* libc models for whole 8-byte elements (assumed contracts; CBMC's byte-wise built-in models of symbolic-size
 * memcpy/memmove/realloc do not terminate here, DESIGN R10): memcpy/memmove copy n/8 words (memmove through a
 * temporary, so overlap is handled), realloc returns a fresh block holding the old words up to the smaller size. */
#define QMAXW (2 * (QCAP + 2))
void *vc_memcpy8(void *d, const void *s, size_t n) { __CPROVER_assert(n == 8, "element copy"); *(uint64_t *)d = *(const uint64_t *)s; return d; }
void *vc_memmove8(void *d, const void *s, size_t n) {
  __CPROVER_assert(n % 8 == 0 && n / 8 <= QMAXW, "whole elements");
  uint64_t tmp[QMAXW]; size_t w = n / 8;
  for (size_t i = 0; i < QMAXW; i++) if (i < w) tmp[i] = ((const uint64_t *)s)[i];
  for (size_t i = 0; i < QMAXW; i++) if (i < w) ((uint64_t *)d)[i] = tmp[i];
  return d;
}
void *vc_realloc8(void *p, size_t n) {
  __CPROVER_assert(n % 8 == 0 && n / 8 <= QMAXW, "whole elements");
  uint64_t *q = malloc(n); __CPROVER_assume(q != 0);
  size_t oldw = p ? __CPROVER_OBJECT_SIZE(p) / 8 : 0, w = n / 8;
  for (size_t i = 0; i < QMAXW; i++) if (i < w && i < oldw) q[i] = ((uint64_t *)p)[i];
  if (p) free(p);
  return q;
}
void h_q_fifo(void) {
  JanetQueue q; q.capacity = nd_i32(); q.head = nd_i32(); q.tail = nd_i32();
  __CPROVER_assume(q.capacity >= 0 && q.capacity <= QCAP && WF_Q(&q));
  uint64_t *d = q.capacity ? malloc((size_t)q.capacity * 8) : 0; __CPROVER_assume(q.capacity == 0 || d != 0); q.data = d;
  int32_t n0 = janet_q_count(&q);
  uint64_t old[QCAP]; for (int i = 0; i < QCAP; i++) old[i] = (i < n0) ? d[(q.head + i) % q.capacity] : 0;
  uint64_t x = nd_u64(), y;
  int r = janet_q_push(&q, &x, 8);
  __CPROVER_assert(r == 0, "C06 queue push succeeds below the maximum capacity");
  __CPROVER_assert(WF_Q(&q) && janet_q_count(&q) == n0 + 1, "C06 queue push: well-formed, length grows by one");
  for (int i = 0; i < QCAP; i++) if (i < n0) { int e = janet_q_pop(&q, &y, 8); __CPROVER_assert(e == 0 && y == old[i], "C06 queue: earlier elements come out first, unchanged and in order (also across a resize)"); }
  int e = janet_q_pop(&q, &y, 8);
  __CPROVER_assert(e == 0 && y == x, "C06 queue: the pushed element comes out after exactly the elements that were queued before it");
  __CPROVER_assert(janet_q_count(&q) == 0 && janet_q_pop(&q, &y, 8) == 1, "C06 queue: then the queue is empty and pop fails");
  REACH("fifo lemma completes");
}

/* push (no-resize case: one free slot beyond the element, for every capacity): appends at the logical end, keeps the
 * rest of the view; with pop's contract this gives FIFO order (an element pushed at logical position n comes out after
 * exactly n pops). The resize path is only covered by the bounded FIFO lemma of the thorough tier. */
uint64_t g_x; int32_t g_pos;
static int janet_q_push_c(JanetQueue *q, void *item, size_t itemsize)
__CPROVER_requires(itemsize == 8)
__CPROVER_requires(__CPROVER_is_fresh(q, sizeof(*q)) && WF_Q(q) && q->capacity >= 2 && QCOUNT(q) + 1 < q->capacity)
__CPROVER_requires(__CPROVER_is_fresh(q->data, (size_t)q->capacity * 8))
__CPROVER_requires(__CPROVER_is_fresh(item, 8) && *(uint64_t *)item == g_x)
__CPROVER_requires(g_pos >= 0 && g_pos < q->capacity)
__CPROVER_assigns(q->tail, __CPROVER_object_whole(q->data))
__CPROVER_ensures(__CPROVER_return_value == 0 && WF_Q(q))
__CPROVER_ensures(QCOUNT(q) == QCOUNT_OLD + 1)
__CPROVER_ensures(q->head == __CPROVER_old(q->head) && q->capacity == __CPROVER_old(q->capacity))
__CPROVER_ensures(((uint64_t *)q->data)[__CPROVER_old(q->tail)] == g_x)
__CPROVER_ensures(q->tail == (__CPROVER_old(q->tail) + 1 < q->capacity ? __CPROVER_old(q->tail) + 1 : 0))
__CPROVER_ensures(g_pos != __CPROVER_old(q->tail) ==> ((uint64_t *)q->data)[g_pos] == __CPROVER_old(((uint64_t *)q->data)[g_pos]))
;
void h_q_push(void) { JanetQueue *q; void *item; size_t sz; janet_q_push(q, item, sz); REACH("janet_q_push returns"); }
/* under q.push's precondition the resize path is dead: its libc calls are replaced by stubs asserting exactly that */
void *vc_no_realloc(void *p, size_t n) { __CPROVER_assert(0, "C06 queue push: no reallocation when a free slot exists"); return p; }
void *vc_no_memmove(void *d, const void *s, size_t n) { __CPROVER_assert(0, "C06 queue push: no segment move when a free slot exists"); return d; }
