/* C05: "Values passed through resume ... arrive unchanged": the value given to the FIRST resume of a new fiber.
 * Real janet_continue_no_check (vm.c) on a new fiber with a small concrete stack block; run_vm is replaced by a stub
 * that asserts, as the interpreter's precondition, where the value must be when the fiber's function starts:
 *   - the function has a named first parameter (def->arity > 0): parameter slot 0 holds the value, bit for bit;
 *   - only a rest parameter (arity == 0, vararg): slot 0 holds the tuple built from exactly that value;
 *   - nil is "no value": slot 0 keeps what fiber creation put there.
 * Plain mode, not nanboxed. */
#include "prelude.h"

#define FV_SLOTS 3
static struct { JanetStackFrame fr; char pad[JANET_FRAME_SIZE * sizeof(Janet) - sizeof(JanetStackFrame)]; Janet slots[FV_SLOTS + JANET_FRAME_SIZE]; } fv_mem;
static JanetFiber fv_fiber;
static JanetFuncDef fv_def;
static JanetFunction fv_func;
static uint32_t fv_code[1];
static Janet fv_in, fv_slot0_before, fv_tuple_arg;
static int fv_tuple_calls, fv_ran;
static Janet fv_tuple_mem[1];
static Janet fv_ret;

static int fv_same(Janet a, Janet b) { return a.type == b.type && a.as.u64 == b.as.u64; }

const Janet *fv_tuple_n_stub(const Janet *values, int32_t n) {
    __CPROVER_assert(n == 1, "fib.first_value: the rest tuple has exactly one element");
    fv_tuple_arg = values[0];
    fv_tuple_calls++;
    return fv_tuple_mem;
}
JanetSignal fv_run_vm_stub(JanetFiber *fiber, Janet in) {
    fv_ran++;
    __CPROVER_assert(fiber == &fv_fiber && fv_same(in, fv_in), "fib.first_value: the interpreter is entered on the resumed fiber with the resume value");
    Janet s0 = fv_mem.slots[0];
    if (fv_in.type == JANET_NIL || fv_mem.fr.func == (JanetFunction *)0) {
        __CPROVER_assert(fv_same(s0, fv_slot0_before) && fv_tuple_calls == 0, "fib.first_value: resuming with nil (or a frame that is not a bytecode function) leaves the first slot as created");
    } else if (fv_def.arity > 0) {
        __CPROVER_assert(fv_same(s0, fv_in), "fib.first_value: the first resume value arrives unchanged as the first parameter");
        REACH("fib.first_value: value delivered to the first parameter");
    } else if (fv_def.flags & JANET_FUNCDEF_FLAG_VARARG) {
        __CPROVER_assert(s0.type == JANET_TUPLE && s0.as.pointer == (void *) fv_tuple_mem && fv_tuple_calls == 1 && fv_same(fv_tuple_arg, fv_in),
                         "fib.first_value: the first resume value arrives as the one-element rest tuple");
        REACH("fib.first_value: value delivered as the rest tuple");
    } else {
        __CPROVER_assert(fv_same(s0, fv_slot0_before), "fib.first_value: a function without parameters gets no value");
    }
    return (JanetSignal) 0;
}
int fv_setjmp_stub(struct __jmp_buf_tag env[1]) { return 0; }
void fv_did_resume_stub(JanetFiber *f) {}

void h_first_value(void) {
    fv_def.arity = nd_i32(); fv_def.min_arity = nd_i32(); fv_def.max_arity = nd_i32();
    /* what the compiler / verifier guarantee about the arity triple */
    __CPROVER_assume(fv_def.min_arity >= 0 && fv_def.min_arity <= fv_def.arity && fv_def.arity <= FV_SLOTS);
    fv_def.flags = nd_i32();
    fv_def.slotcount = FV_SLOTS;
    fv_def.bytecode = fv_code; fv_def.bytecode_length = 1;
    fv_func.def = &fv_def;
    fv_fiber.data = (Janet *) &fv_mem;
    fv_fiber.capacity = 2 * JANET_FRAME_SIZE + FV_SLOTS;
    fv_fiber.frame = JANET_FRAME_SIZE;
    fv_fiber.stackstart = fv_fiber.stacktop = 2 * JANET_FRAME_SIZE + FV_SLOTS;
    fv_fiber.maxstack = 1000;
    fv_fiber.child = (JanetFiber *)0;
    fv_fiber.flags = (nd_i32() & ~JANET_FIBER_STATUS_MASK) | (JANET_STATUS_NEW << JANET_FIBER_STATUS_OFFSET);
    fv_mem.fr.func = nd_int() ? &fv_func : (JanetFunction *)0;
    fv_mem.fr.pc = fv_code; fv_mem.fr.env = (JanetFuncEnv *)0; fv_mem.fr.prevframe = 0; fv_mem.fr.flags = JANET_STACKFRAME_ENTRANCE;
    for (int i = 0; i < FV_SLOTS; i++) { fv_mem.slots[i].type = JANET_NIL; fv_mem.slots[i].as.u64 = nd_u64(); }
    fv_slot0_before = fv_mem.slots[0];
    fv_in.type = (JanetType) nd_int();
    __CPROVER_assume(fv_in.type >= JANET_NUMBER && fv_in.type <= JANET_POINTER);
    fv_in.as.u64 = nd_u64();
    janet_vm.stackn = 0; janet_vm.fiber = (JanetFiber *)0; janet_vm.root_fiber = (JanetFiber *)0;
    janet_vm.return_reg = &fv_ret; janet_vm.coerce_error = nd_int();
    fv_tuple_calls = 0; fv_ran = 0;
    Janet out;
    JanetSignal sig = janet_continue_no_check(&fv_fiber, fv_in, &out);
    __CPROVER_assert(fv_ran == 1, "fib.first_value: a new fiber is run");
    REACH("fib.first_value: janet_continue_no_check returns");
}
