/* C11 / C01: janet_escape_buffer_b when the buffer is printed INTO ITSELF (buffer/format b "%j" b, or b anywhere inside the value):
 * the source bytes live in the very storage that grows while the literal is appended.
 *
 * (1) h_alias_reserve - the reservation: before anything is appended, room for the whole literal is requested in ONE step
 *     (so that the storage cannot move while the source is being read), the amount covers the worst case (4 characters per
 *     byte + @ and two quotes, on top of the current count) and is computed without integer overflow for EVERY count.
 *     janet_buffer_ensure / janet_escape_string_impl / janet_buffer_push_u8 are recording stubs.
 * (2) h_alias_content - the result, with the REAL buffer.c and a realloc that always MOVES the storage (old block really
 *     deallocated): the text appended is @ + the literal of the contents the buffer had when the call started - it parses back to
 *     the value that was printed -, the old contents stay in front of it, and no byte is read from storage that was freed.
 *
 * FINDINGS (reproduced on /repo/_build/janet; both repaired in /repo: c998705, fd20626 - the units pass now):
 *  (2) fails: (def b @"abc") (buffer/format b "%j" b) (pp b)  ->  @"abc@\"abc@\""   i.e. the appended literal is @"abc@" - the @ that was
 *      just pushed is read as part of the value (bx->count is read after the push); %p appends the correct @"abc".
 *      Repair (checked: the four content units pass): read bx->count before pushing the @.
 *  (1) fails for count >= 357913941: the int32 expression bx->count + 5 * bx->count + 3 overflows, nothing is reserved, the storage moves
 *      while it is being read:  (def b (buffer/new-filled 400000000 1)) (buffer/format b "%j" b)  ->  SIGSEGV (300000000 bytes: fine).
 *      Native reproducer with a poisoning realloc: /verif/harness/pp_repro_self_buffer.c.  Repair: compute the reservation in int64 and
 *      raise "buffer overflow" when it exceeds INT32_MAX (as janet_buffer_extra does). */
#include "prelude.h"
void __CPROVER_deallocate(void *);
#define PA(c, msg) __CPROVER_assert(c, "C11 alias: " msg)
#ifndef MAXCOUNT
#define MAXCOUNT 2147483647
#endif
/* ---- (1) reservation ------------------------------------------------------------------------------------------------- */
int g_ens_calls, g_out_before_ens, g_outputs; int64_t g_ens_room; int32_t g_count0;
void pa_ensure_stub(JanetBuffer *b, int32_t capacity, int32_t growth) {
  g_ens_calls++; if (g_outputs) g_out_before_ens = 1;
  g_ens_room = (int64_t) capacity * growth;
}
void pa_push_u8_stub(JanetBuffer *b, uint8_t x) { g_outputs++; }
/* janet_panic does not return; raising is right exactly when the literal cannot fit any buffer */
void pa_panic_stub(const char *msg) {
  PA(6 * (int64_t) g_count0 + 3 > 2147483647, "an error is raised only when the literal cannot fit a buffer");
  PA(g_outputs == 0 && g_ens_calls == 0, "nothing is appended or reserved before the error is raised");
#if MAXCOUNT > 357913940
  REACH("alias: count beyond (INT32_MAX - 3) / 6 raises");
#endif
  __CPROVER_assume(0);
}
void pa_impl_stub(JanetBuffer *b, const uint8_t *str, int32_t len) { g_outputs++; }
void h_alias_reserve(void) {
  JanetBuffer b; b.count = nd_i32(); b.capacity = nd_i32(); b.data = (uint8_t *) 0; b.gc.flags = 0;
  __CPROVER_assume(b.count >= 0 && b.count <= b.capacity && b.count <= MAXCOUNT);
  g_count0 = b.count; g_ens_calls = g_out_before_ens = g_outputs = 0; g_ens_room = 0;
  janet_escape_buffer_b(&b, &b);
  PA(g_ens_calls == 1 && !g_out_before_ens, "room for the literal is reserved once, before anything is appended");
  PA(g_ens_room >= (int64_t) g_count0 + 3 + 4 * (int64_t) g_count0, "the reservation covers the worst case: old contents + @ + two quotes + four characters per byte");
  PA(g_count0 <= 357913940, "returns only when the literal fits a buffer");
  if (g_count0 == 357913940) REACH("alias: largest count whose reservation fits an int32");
  REACH("janet_escape_buffer_b returns");
}
/* ---- (2) content, real buffer.c ------------------------------------------------------------------------------------------ */
#define NEWCAP 32
#ifndef N0
#define N0 2
#endif
#ifndef CAP0
#define CAP0 2
#endif
int g_moves;
void *pa_realloc_stub(void *p, size_t n) {
  __CPROVER_assert(n <= NEWCAP, "harness bound: reallocation request fits the model block");
  uint8_t *q = malloc(NEWCAP);
  size_t old = p ? __CPROVER_OBJECT_SIZE(p) : 0;
  for (size_t i = 0; i < NEWCAP; i++) if (i < old && i < n) q[i] = ((uint8_t *) p)[i];
  if (p) __CPROVER_deallocate(p);
  g_moves++;
  return q;
}
static int a_unit_len(const uint8_t *o, int pos) { if (o[pos] != '\\') return 1; return o[pos + 1] == 'x' ? 4 : 2; }
static int a_unit_ok(const uint8_t *o, uint8_t c, int pos, int n) {
  int printable = c >= 32 && c <= 126 && c != '"' && c != '\\';
  if (printable) return n == 1 && o[pos] == c;
  if (n == 2) { uint8_t l = o[pos + 1]; return o[pos] == '\\' && l != 'x' && l != 'u' && l != 'U' && checkescape(l) == (int) c; }
  if (n == 4) { int h = to_hex(o[pos + 2]), l = to_hex(o[pos + 3]); return o[pos] == '\\' && o[pos + 1] == 'x' && h >= 0 && l >= 0 && h * 16 + l == (int) c; }
  return 0;
}
void h_alias_content(void) {
  static JanetBuffer b; uint8_t old[2];
  int32_t n0 = N0, cap0 = CAP0;            /* constants per unit: a symbolic count / capacity makes every push a potential reallocation */
  b.data = malloc(CAP0); b.count = n0; b.capacity = cap0; b.gc.flags = 0;
  for (int i = 0; i < 2; i++) { old[i] = nd_u8(); if (i < CAP0) b.data[i] = old[i]; }
  g_moves = 0;
  janet_escape_buffer_b(&b, &b);
  const uint8_t *o = b.data; int end = b.count;
  PA(end <= b.capacity && b.capacity <= NEWCAP, "count <= capacity afterwards");
  for (int i = 0; i < 2; i++) if (i < n0) PA(o[i] == old[i], "the contents the buffer had are still in front of the appended text");
  PA(end >= n0 + 3 && o[n0] == '@' && o[n0 + 1] == '"', "the appended text starts with @ and a double quote");
  int pos = n0 + 2;
  for (int i = 0; i < 2; i++) if (i < n0) {
    PA(pos < end - 1, "every byte of the printed value has a unit before the closing quote");
    int n = a_unit_len(o, pos);
    PA(pos + n <= end - 1 && a_unit_ok(o, old[i], pos, n), "byte i of the value the buffer held when the call started is printed verbatim or as an escape the parser decodes back");
    pos += n;
  }
  PA(pos == end - 1 && o[pos] == '"', "the literal closes directly after the last byte of the printed value: it denotes exactly the contents the buffer had when the call started");
  REACH("janet_escape_buffer_b returns");
}
