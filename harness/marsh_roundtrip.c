/* C09: integer codecs of marsh.c are inverse of each other, for all 2^32 / 2^64 values.
 * The writer side runs the REAL pushint/push64 with the buffer primitives replaced by recording contracts
 * (janet_buffer_push_u8 / push_bytes append exactly the bytes given); the reader side runs the REAL readint/read64
 * on the recorded bytes. Format conformance of the writer is asserted too (length by range, tag bytes). */
#include "prelude.h"
uint8_t g_out[16]; int g_n;
void push_u8_stub(JanetBuffer *b, uint8_t x) { __CPROVER_assert(g_n < 16, "ghost capacity"); g_out[g_n++] = x; }
void push_bytes_stub(JanetBuffer *b, const uint8_t *bytes, int32_t len) {
  __CPROVER_assert(len >= 0 && g_n + len <= 16, "ghost capacity");
  for (int32_t i = 0; i < len; i++) g_out[g_n++] = bytes[i];
}
void h_roundtrip32(void) {
  MarshalState ms; JanetBuffer buf; ms.buf = &buf; g_n = 0;
  int32_t x = nd_i32();
  pushint(&ms, x);
  /* format: 1 byte for 0..127, 2 bytes for -8192..8191, else 5 bytes with tag 0xCD */
  __CPROVER_assert((x >= 0 && x < 128) ? g_n == 1 : (x >= -8192 && x <= 8191) ? g_n == 2 : g_n == 5, "C09 pushint: encoding length by range");
  __CPROVER_assert(g_n != 1 || g_out[0] < 128, "C09 pushint: 1-byte form is 0..127");
  __CPROVER_assert(g_n != 2 || (g_out[0] >= 128 && g_out[0] < 192), "C09 pushint: 2-byte form is tagged 10xxxxxx");
  __CPROVER_assert(g_n != 5 || g_out[0] == 0xCD, "C09 pushint: 5-byte form is tagged 0xCD");
  UnmarshalState us; us.start = g_out; us.end = g_out + g_n;
  const uint8_t *cur = g_out;
  int32_t y = readint(&us, &cur);
  __CPROVER_assert(y == x, "C09 readint(pushint(x)) == x for every 32-bit x");
  __CPROVER_assert(cur == g_out + g_n, "C09 readint consumes exactly the bytes pushint wrote");
  REACH("32-bit round trip completes");
}
void h_roundtrip64(void) {
  MarshalState ms; JanetBuffer buf; ms.buf = &buf; g_n = 0;
  uint64_t x = nd_u64();
  push64(&ms, x);
  __CPROVER_assert(g_n >= 1 && g_n <= 9, "C09 push64: 1..9 bytes");
  __CPROVER_assert(x <= 0xF0 ? (g_n == 1 && g_out[0] == x) : (g_out[0] == 0xF0 + (g_n - 1)), "C09 push64: single byte up to 0xF0, else length tag");
  UnmarshalState us; us.start = g_out; us.end = g_out + g_n;
  const uint8_t *cur = g_out;
  uint64_t y = read64(&us, &cur);
  __CPROVER_assert(y == x, "C09 read64(push64(x)) == x for every 64-bit x");
  __CPROVER_assert(cur == g_out + g_n, "C09 read64 consumes exactly the bytes push64 wrote");
  REACH("64-bit round trip completes");
}
