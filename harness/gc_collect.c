/* C01: root completeness of janet_collect (gc.c). With the per-type mark routines under their own contracts (units gc.mark.*),
 * janet_mark / janet_mark_fiber / janet_ev_mark are replaced by recording contracts. janet_mark's contract includes its
 * documented escape: at the depth limit it DEFERS a value by pushing it on the root array (units gc.mark.value, rec.gcmark.*),
 * so the collector must also mark every value that appears on the root array while it is marking, before it sweeps. */
#include "prelude.h"
Janet g_roots[12]; uint32_t g_n0; uint32_t g_idx; uint64_t g_watch; int g_watch_marked;
int g_fiber_marked, g_ev_marked, g_marks, g_spill_budget; int g_out[3]; JanetFiber g_root_fiber;
void mark_stub(Janet x) {
  g_marks++;
  if (x.u64 == g_watch) g_watch_marked = 1;
  for (int k = 0; k < 3; k++) if (x.u64 == 0xD000 + k) g_out[k] = 0;          /* a deferred value is finally marked */
  if (g_spill_budget > 0 && (nd_int() & 1) && janet_vm.root_count < 12) {     /* depth limit reached somewhere below: defer */
    int k = --g_spill_budget; Janet d; d.u64 = 0xD000 + k; g_out[k] = 1;
    janet_vm.roots[janet_vm.root_count++] = d;
  }
}
void mark_fiber_stub(JanetFiber *f) { if (f == &g_root_fiber) g_fiber_marked = 1; Janet x; x.u64 = 0xF1BE; mark_stub(x); }
void ev_mark_stub(void) { g_ev_marked = 1; Janet x; x.u64 = 0xE7; mark_stub(x); }
void sweep_stub(void) {
  __CPROVER_assert(g_fiber_marked, "C01 collect: the root fiber is marked before sweeping");
  __CPROVER_assert(g_ev_marked, "C01 collect: event-loop queues and timers are marked before sweeping");
  __CPROVER_assert(g_idx >= g_n0 || g_watch_marked, "C01 collect: every explicit root is marked before sweeping");
  __CPROVER_assert(!g_out[0] && !g_out[1] && !g_out[2], "C01 collect: every value deferred to the root list by the depth limit is marked before sweeping");
  __CPROVER_assert(janet_vm.root_count == g_n0, "C01 collect: temporary roots are dropped again, explicit roots are kept");
  __CPROVER_assert(!janet_vm.gc_mark_phase, "C01 collect: mark phase is over when sweeping starts");
  REACH("collector reaches the sweep");
}
void h_collect(void) {
  janet_vm.roots = g_roots; janet_vm.root_capacity = 12;
  g_n0 = nd_u32(); __CPROVER_assume(g_n0 <= 4); janet_vm.root_count = g_n0;
  for (int i = 0; i < 4; i++) g_roots[i].u64 = 0xA000 + i;
  g_idx = nd_u32(); __CPROVER_assume(g_idx < 4); g_watch = 0xA000 + g_idx;
  g_watch_marked = g_fiber_marked = g_ev_marked = g_marks = 0; g_spill_budget = 3; g_out[0] = g_out[1] = g_out[2] = 0;
  janet_vm.root_fiber = &g_root_fiber; janet_vm.gc_suspend = nd_int(); janet_vm.block_count = nd_size(); janet_vm.gc_interval = nd_size();
  int suspended = janet_vm.gc_suspend != 0;
  janet_collect();
  if (suspended) __CPROVER_assert(g_marks == 0, "C01 collect: nothing is collected while the collector is suspended");
}
/* an on-stack closure environment may be detached from its fiber only when that fiber can never run again */
JanetFiber g_f; int g_detached;
void env_detach_stub(JanetFuncEnv *env) { g_detached = 1; }
int env_valid_stub(JanetFuncEnv *env) { return 1; }
void h_maybe_detach(void) {
  JanetFuncEnv env; env.offset = nd_i32(); env.length = nd_i32(); env.as.fiber = &g_f; g_f.flags = nd_i32(); g_detached = 0;
  JanetFiberStatus s = janet_fiber_status(&g_f);
  janet_env_maybe_detach(&env);
  int finished = (s == JANET_STATUS_DEAD || s == JANET_STATUS_ERROR || (s >= JANET_STATUS_USER0 && s <= JANET_STATUS_USER4));
  __CPROVER_assert(!g_detached || (env.offset > 0 && finished), "C01 env detach: a closure environment is copied off the stack during marking only if its fiber is finished (dead, error or user0-4); a resumable fiber keeps sharing its frame");
  __CPROVER_assert(!(env.offset > 0 && finished) || g_detached, "C01 env detach: finished fibers release their frames");
  REACH("maybe_detach returns");
}
