/* C13: text -> double, the short cuts of convert() (strtod.c). A number is X = mant * base^exponent. convert() returns
 * +-infinity or +-0 WITHOUT computing X when a bound on log2(X) is far outside the double range. Soundness contract:
 *   short-cut to infinity  =>  X >= 2^1024  (every such X rounds to infinity)
 *   short-cut to zero      =>  X <  2^-1075 (every such X rounds to zero)
 * with the facts: a non-zero mantissa of n 31-bit digits (most significant digit non-zero) lies in [2^(31n), 2^(31(n+1)));
 * base^exponent lies in [2^E, 2^(E+1)) for E = floor(log2(base) * exponent). E is handed out by the floor() stub as an
 * arbitrary integer (the floating-point evaluation of log2(base)*exponent itself is trusted); the bignat operations are
 * recording stubs: a return without any of them is a short cut. */
#include "prelude.h"
static int cb_ops; static int64_t cb_E;
double cb_floor_stub(double x) { double d = (double) cb_E; return d; }
double cb_log2_stub(double x) { return nd_double(); }
void cb_muladd_stub(struct BigNat *m, uint32_t f, uint32_t t) { cb_ops++; }
void cb_div_stub(struct BigNat *m, uint32_t d) { cb_ops++; }
void cb_lshift_stub(struct BigNat *m, int n) { cb_ops++; }
double cb_extract_stub(struct BigNat *m, int32_t e2) { cb_ops++; return 1.0; }
void h_convert_bounds(void) {
  struct BigNat mant; uint32_t digs[1];
  mant.n = nd_i32(); __CPROVER_assume(mant.n >= 0 && mant.n <= (1 << 26));     /* up to 2^31 bits of mantissa */
  mant.first_digit = nd_u32(); mant.cap = mant.n; mant.digits = digs;
  __CPROVER_assume(mant.n > 0 || mant.first_digit != 0);                      /* non-zero number (zero is handled before) */
  int32_t base = nd_i32(); __CPROVER_assume(base >= 2 && base <= 36);
  int32_t exponent = nd_i32();
  cb_E = nd_i64(); __CPROVER_assume(cb_E >= -(6ll << 32) && cb_E <= (6ll << 32));   /* |log2(36) * 2^31| < 6 * 2^32 */
  int negative = nd_int() & 1;
  cb_ops = 0;
  /* exponent loops are bounded by the stubs' caller; make them short: the short cuts are decided before the loops */
  __CPROVER_assume(exponent >= -8 && exponent <= 8);
  double r = convert(negative, &mant, base, exponent);
  int64_t low = (int64_t) mant.n * 31 + cb_E;             /* log2 X >= low   */
  int64_t high = ((int64_t) mant.n + 1) * 31 + cb_E + 1;  /* log2 X <  high  */
  if (cb_ops == 0) {
    if (r == 0.0) {
      __CPROVER_assert(high <= -1075, "num.convert: the short cut to zero is taken only when the number is below 2^-1075 (rounds to zero)");
      REACH("convert: short cut to zero");
    } else {
      __CPROVER_assert(isinf(r) && low >= 1024, "num.convert: the short cut to infinity is taken only when the number is at least 2^1024");
      __CPROVER_assert((r < 0) == (negative != 0), "num.convert: the sign is kept");
      REACH("convert: short cut to infinity");
    }
  } else REACH("convert: computed");
}
