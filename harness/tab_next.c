/* C04 (map part): janet_dictionary_next (util.c) - the iteration primitive behind next / pairs / keys on tables and structs.
 *
 *   step contract  (h_dict_next_step): for ANY bucket array of capacity cap in [1, TAB_MAXCAP] (any mix of nil and non-nil
 *     keys) and a cursor that is NULL or the address of a bucket, the result is the first bucket strictly after the cursor
 *     (from bucket 0 for NULL) whose key is not nil, NULL iff there is none; reads inside the array only; nothing written.
 *   iteration      (h_dict_next_iter): starting from NULL and feeding every result back, the walk visits every live bucket
 *     exactly once, in index order, visits nothing else, and ends with NULL after exactly (number of live buckets) steps -
 *     "iteration visits every key exactly once".
 * Pointer-walking loop (rule R14): proved by unwinding, capacity bounded by TAB_MAXCAP. */
#include "prelude.h"
#include <stdlib.h>

#ifndef TAB_MAXCAP
#define TAB_MAXCAP 8
#endif
#define NX_NULL ((void *)0)

static JanetKV *nx_any(int32_t cap) {
  JanetKV *b = malloc((size_t) cap * sizeof(JanetKV));
  __CPROVER_assume(b != NX_NULL);
  for (int32_t i = 0; i < cap; i++) { b[i].key.u64 = nd_u64(); b[i].value.u64 = nd_u64(); }
  return b;
}
static int nx_live(const JanetKV *kv) { return !janet_checktype(kv->key, JANET_NIL); }

/* cap is a constant at every call (one case per capacity: block size and loop bounds are constants) */
static void nx_step_case(int32_t cap) {
  JanetKV *b = nx_any(cap);
  int32_t cur = nd_i32();                                  /* -1: NULL cursor */
  __CPROVER_assume(cur >= -1 && cur < cap);
  uint64_t gk, gv; int32_t g = nd_i32();                    /* ghost bucket: contents before the call */
  __CPROVER_assume(g >= 0 && g < cap);
  gk = b[g].key.u64; gv = b[g].value.u64;

  const JanetKV *r = janet_dictionary_next(b, cap, cur < 0 ? (const JanetKV *) NX_NULL : b + cur);

  int32_t want = -1;
  for (int32_t i = TAB_MAXCAP - 1; i >= 0; i--) if (i < cap && i > cur && nx_live(b + i)) want = i;
  if (r == NX_NULL) {
    __CPROVER_assert(want == -1, "C04 dictionary_next returns NULL only if no live bucket follows the cursor");
  } else {
    __CPROVER_assert(__CPROVER_same_object(r, b) && r >= b && r < b + cap, "C04 dictionary_next: a non-NULL result points into the bucket array");
    __CPROVER_assert(want >= 0 && r == b + want, "C04 dictionary_next returns the FIRST live bucket strictly after the cursor");
  }
  __CPROVER_assert(b[g].key.u64 == gk && b[g].value.u64 == gv, "C04 dictionary_next does not modify the buckets");
  REACH("dictionary_next returns");
  if (cap == TAB_MAXCAP && r != NX_NULL && cur >= 0 && want > cur + 1) REACH("dictionary_next skips nil-key buckets after a cursor");
  if (cap == TAB_MAXCAP && r == NX_NULL && cur >= 0 && cur + 1 < cap) REACH("dictionary_next returns NULL at the end past nil-key buckets");
}

void h_dict_next_step(void) {
  int32_t cap = nd_i32();
  for (int32_t c = 1; c <= TAB_MAXCAP; c++) if (cap == c) nx_step_case(c);
}

static void nx_iter_case(int32_t cap) {
  JanetKV *b = nx_any(cap);
  int32_t nlive = 0;
  for (int32_t i = 0; i < TAB_MAXCAP; i++) if (i < cap && nx_live(b + i)) nlive++;
  int32_t g = nd_i32();                                     /* ghost bucket: how often is it visited? */
  __CPROVER_assume(g >= 0 && g < cap);
  int32_t visits_g = 0, steps = 0, last = -1;
  const JanetKV *kv = (const JanetKV *) NX_NULL;
  for (int32_t n = 0; n <= TAB_MAXCAP; n++) {
    kv = janet_dictionary_next(b, cap, kv);
    if (kv == NX_NULL) break;
    __CPROVER_assert(__CPROVER_same_object(kv, b) && kv >= b && kv < b + cap, "C04 iteration: every visited bucket lies in the array");
    int32_t idx = (int32_t)(kv - b);
    __CPROVER_assert(nx_live(b + idx), "C04 iteration visits live buckets only");
    __CPROVER_assert(idx > last, "C04 iteration visits buckets in strictly increasing index order (hence none twice)");
    last = idx;
    if (idx == g) visits_g++;
    steps++;
  }
  __CPROVER_assert(kv == NX_NULL, "C04 iteration ends with NULL after at most capacity steps");
  __CPROVER_assert(steps == nlive, "C04 iteration: the number of visited buckets is the number of live buckets (the length)");
  __CPROVER_assert(visits_g == (nx_live(b + g) ? 1 : 0), "C04 iteration visits every live bucket exactly once and no other bucket");
  REACH("iteration ends");
  if (cap == TAB_MAXCAP && nlive >= 3 && nlive < cap) REACH("iteration over an array with several live and some nil-key buckets ends");
}
void h_dict_next_iter(void) {
  int32_t cap = nd_i32();
  for (int32_t c = 1; c <= TAB_MAXCAP; c++) if (cap == c) nx_iter_case(c);
}
