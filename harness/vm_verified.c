/* C10: "any function ... having passed bytecode verification can be called ... without memory errors".
 * Contract tying the REAL verifier (bytecode.c janet_verify) to the REAL interpreter (vm.c run_vm):
 *
 *     requires  janet_verify(def) == 0, the frame of the running function has exactly def->slotcount slots,
 *               func->envs has def->environments_length valid environments, def->constants / def->defs have the
 *               lengths the def says
 *     ensures   executing ONE instruction of def (any instruction word the verifier accepts, at any position)
 *               never reads or writes outside the frame, the constant / def / environment vectors, the bytecode,
 *               or the objects those name.
 *
 * The instruction word is symbolic, so instruction dispatch explores every opcode body once; the dispatch loop is cut
 * after one iteration (unwindset, no unwinding assertion on that loop: "one step"), which is why this is a
 * per-instruction (inductive step) contract and not a run of a whole program.  The stack block is allocated with
 * EXACTLY frame + slotcount slots so that CBMC's bounds/pointer checks are the "inside the frame" obligation. */
#include "prelude.h"

#ifndef VV_MAXSLOTS
#define VV_MAXSLOTS 6
#endif
#ifndef VV_CODELEN
#define VV_CODELEN 3
#endif

static uint32_t vv_code[VV_CODELEN];
static JanetFuncDef vv_def;
static JanetFuncDef vv_sub[2];
static JanetFuncDef *vv_defs[2];
static int32_t vv_subenvs[2][2];
static Janet vv_consts[2];
static JanetFiber vv_fiber;
static JanetFiber vv_envfiber;
static JanetFuncEnv vv_env[2];
static Janet vv_envvals[2][3];
static Janet vv_ret;
static JanetFunction *vv_fn;   /* heap block: function header followed by its two environment pointers (flexible array member) */

/* allocation contract: a fresh block of the requested size */
void *vv_gcalloc_stub(enum JanetMemoryType type, size_t size) {
    void *p = malloc(size);
    __CPROVER_assume(p != (void *)0);
    return p;
}
void vv_collect_stub(void) {}
/* the fiber primitives are under their own contracts (C05 fib.* / C19_fiber units): here they only must be
 * called with the running fiber */
void vv_push_stub(JanetFiber *f, Janet x) { __CPROVER_assert(f == &vv_fiber, "vm.verified: push onto the running fiber"); }
void vv_push2_stub(JanetFiber *f, Janet x, Janet y) { __CPROVER_assert(f == &vv_fiber, "vm.verified: push onto the running fiber"); }
void vv_push3_stub(JanetFiber *f, Janet x, Janet y, Janet z) { __CPROVER_assert(f == &vv_fiber, "vm.verified: push onto the running fiber"); }

static Janet vv_any_value(void) {
    Janet v;
    v.type = (JanetType) nd_int();
    /* slot values that the interpreter itself dereferences (functions, fibers, ...) are outside this contract:
     * their validity is type safety of the heap, not bytecode verification */
    __CPROVER_assume(v.type == JANET_NUMBER || v.type == JANET_NIL || v.type == JANET_BOOLEAN);
    v.as.u64 = nd_u64();
    return v;
}

void h_vm_verified_step(void) {
    /* ---- a function definition that passes the real verifier ---- */
    int32_t sc = nd_i32();
    __CPROVER_assume(sc >= 1 && sc <= VV_MAXSLOTS);
    vv_def.slotcount = sc;
    vv_def.arity = nd_i32(); vv_def.min_arity = nd_i32(); vv_def.max_arity = nd_i32();
    vv_def.flags = nd_i32();
    vv_def.bytecode = vv_code;
    vv_def.bytecode_length = VV_CODELEN;
    for (int i = 0; i < VV_CODELEN; i++) vv_code[i] = nd_u32();
    vv_def.constants_length = nd_i32();
    __CPROVER_assume(vv_def.constants_length >= 0 && vv_def.constants_length <= 2);
    vv_def.constants = vv_consts;
    vv_consts[0] = vv_any_value(); vv_consts[1] = vv_any_value();
    vv_def.defs_length = nd_i32();
    __CPROVER_assume(vv_def.defs_length >= 0 && vv_def.defs_length <= 2);
    vv_def.defs = vv_defs;
    vv_defs[0] = &vv_sub[0]; vv_defs[1] = &vv_sub[1];
    for (int i = 0; i < 2; i++) {
        vv_sub[i].environments_length = nd_i32();
        __CPROVER_assume(vv_sub[i].environments_length >= 0 && vv_sub[i].environments_length <= 2);
        vv_sub[i].environments = vv_subenvs[i];
        vv_subenvs[i][0] = nd_i32(); vv_subenvs[i][1] = nd_i32();
    }
    vv_def.environments_length = nd_i32();
    __CPROVER_assume(vv_def.environments_length >= 0 && vv_def.environments_length <= 2);
    __CPROVER_assume(janet_verify(&vv_def) == 0);

    /* ---- the running function and its captured environments (valid as janet_env_valid / unmarshal leave them) ---- */
    vv_fn = malloc(sizeof(JanetFunction) + 2 * sizeof(JanetFuncEnv *));
    __CPROVER_assume(vv_fn != (JanetFunction *)0);
    vv_fn->def = &vv_def;
    vv_fn->gc.flags = JANET_MEMORY_FUNCTION;
    for (int i = 0; i < 2; i++) {
        vv_fn->envs[i] = &vv_env[i];
        vv_env[i].length = nd_i32();
        __CPROVER_assume(vv_env[i].length >= 0 && vv_env[i].length <= 3);
        vv_env[i].offset = 0;                 /* detached environment: values block of `length` slots */
        vv_env[i].as.values = vv_envvals[i];
    }

    /* ---- its frame: exactly slotcount slots ---- */
    size_t nslots = (size_t) JANET_FRAME_SIZE + (size_t) sc;
    Janet *data = malloc(nslots * sizeof(Janet));
    __CPROVER_assume(data != (Janet *)0);
    vv_fiber.data = data;
    vv_fiber.capacity = (int32_t) nslots;
    vv_fiber.frame = JANET_FRAME_SIZE;
    vv_fiber.stackstart = (int32_t) nslots;
    vv_fiber.stacktop = (int32_t) nslots;
    vv_fiber.maxstack = nd_i32();
    vv_fiber.child = (JanetFiber *)0;
    vv_fiber.flags = JANET_FIBER_RESUME_NO_USEVAL | JANET_FIBER_RESUME_NO_SKIP | JANET_FIBER_MASK_ERROR;
    vv_fiber.gc.flags = JANET_MEMORY_FIBER;
    JanetStackFrame *fr = (JanetStackFrame *) data;
    fr->func = vv_fn;
    int32_t at = nd_i32();
    __CPROVER_assume(at >= 0 && at < VV_CODELEN);
    fr->pc = vv_code + at;
    fr->env = (JanetFuncEnv *)0;
    fr->prevframe = 0;
    fr->flags = nd_i32();
    for (int i = 0; i < VV_MAXSLOTS; i++)
        if (i < sc) data[JANET_FRAME_SIZE + i] = vv_any_value();
    janet_vm.auto_suspend = nd_int();
    janet_vm.next_collection = nd_size();
    janet_vm.gc_interval = nd_size();
    janet_vm.fiber = &vv_fiber;
    janet_vm.return_reg = &vv_ret;

    Janet in; in.type = JANET_NIL; in.as.u64 = 0;
    REACH("vm.verified: a verified definition enters the interpreter");
    JanetSignal sig = run_vm(&vv_fiber, in);
    /* reached by the instructions that leave the interpreter (return, error, signal, breakpoint) */
    REACH("vm.verified: an instruction leaves the interpreter");
    __CPROVER_assert(sig >= JANET_SIGNAL_OK && sig <= JANET_SIGNAL_USER9, "vm.verified: the interpreter leaves with a valid signal number");
}
