/* C01: janet_mark_fiber - for every fiber of the child chain that the walk reaches (all earlier ones unmarked on entry):
 *   the fiber is marked; janet_mark(last_value); the argument stack data[stackstart..stacktop) goes to janet_mark_many;
 *   for every frame of the frame chain: janet_mark_function(frame->func), janet_mark_funcenv(frame->env) when non-NULL and the
 *   frame's slots data[i..j) go to janet_mark_many; janet_mark_table(env); janet_mark_abstract(supervisor_channel),
 *   janet_mark_abstract(ev_stream); ev_callback(fiber, JANET_ASYNC_EVENT_MARK); then the child fiber.
 * Ghost selectors pick ONE fiber of the chain (g_lvl), ONE frame of its chain (g_fr), ONE of the two walker ranges (g_wsel) and
 * ONE of the two abstract edges (g_asel) - the proof covers every choice.
 * BOUNDED: the frame walk follows data-dependent indices and the child walk chases a pointer (DESIGN R14, C01 note):
 * <= 3 frames per fiber, <= 2 fibers in the child chain; stack capacity symbolic. Unwinding assertions on. */
#include "gc_mark.h"

int g_lvl, g_fr, g_wsel, g_asel; int32_t g_ik, g_jk;   /* g_ik/g_jk: index of the selected frame and end of its slot range */
int32_t g_a0, g_a1, g_a2, g_b0, g_b1, g_b2;   /* ghost: the frame chains (frame indices, 0 = end) of the two fibers */
int32_t g_f0, g_f1;                           /* ghost: entry snapshot of the header flags */
const void *g_cbf; int g_cb_seen; unsigned g_cb_calls;

/* the only event callback of this unit: records that it was asked to MARK its state for the selected fiber */
void vc_ev_cb(JanetFiber *fiber, JanetAsyncEvent event) {
  g_cb_seen = g_cb_seen || ((const void *) fiber == g_cbf && event == JANET_ASYNC_EVENT_MARK);
  g_cb_calls = g_cb_calls + 1u;
}

#define FR(F, i) ((JanetStackFrame *)((F)->data + (i) - JANET_FRAME_SIZE))
/* bound: the stack has exactly VC_NSLOTS slots (byte-level reads of frame headers at symbolic offsets of a symbolic-size object exhaust memory) */
#ifndef VC_NSLOTS
#define VC_NSLOTS 24
#endif
#define MAXCAP VC_NSLOTS
/* representation invariant of a fiber stack (fiber.c: janet_fiber_reset, janet_fiber_funcframe, janet_fiber_cframe, popframe; same as unit fiber.env_valid):
 * 0 <= stackstart <= stacktop <= capacity; the current frame header lies below stackstart; the frame chain is well founded:
 * every frame index i > 0 has FRAME_SIZE <= i, its header's prevframe is in [0, i - FRAME_SIZE].  (i0, i1, i2) name the chain. */
#define WF_FRAME(F, i, prev) ((i) >= 0 && ((i) > 0 ==> ((i) >= JANET_FRAME_SIZE && (i) <= (F)->capacity && (prev) == FR(F, i)->prevframe && (prev) >= 0 && (prev) <= (i) - JANET_FRAME_SIZE)) && ((i) == 0 ==> (prev) == 0))
#define WF_FIBER(F, i0, i1, i2) ((F)->capacity == MAXCAP && (F)->stackstart >= 0 && (F)->stackstart <= (F)->stacktop && (F)->stacktop <= (F)->capacity && \
   (i0) == (F)->frame && ((i0) > 0 ==> (i0) <= (F)->stackstart - JANET_FRAME_SIZE) && WF_FRAME(F, i0, i1) && WF_FRAME(F, i1, i2) && \
   /* bound: at most 3 frames */ (i2) >= 0 && ((i2) > 0 ==> ((i2) >= JANET_FRAME_SIZE && (i2) <= (F)->capacity && FR(F, i2)->prevframe == 0)) && \
   ((F)->ev_callback == (JanetEVCallback) 0 || (F)->ev_callback == vc_ev_cb))
/* the selected frame index and the end of its slot range */
#define IK(i0, i1, i2) (g_ik)
#define JK(F, i0, i1, i2) (g_jk)
#define SELECT_FRAME(F, i0, i1, i2) (g_ik == (g_fr == 0 ? (i0) : g_fr == 1 ? (i1) : (i2)) && \
   g_jk == (g_fr == 0 ? (F)->stackstart - JANET_FRAME_SIZE : g_fr == 1 ? (i0) - JANET_FRAME_SIZE : (i1) - JANET_FRAME_SIZE))
#define EXPECT(F, i0, i1, i2) (SELECT_FRAME(F, i0, i1, i2) && JEQ(g_val, (F)->last_value) && g_tab == (const void *) (F)->env && g_cbf == (const void *) (F) && \
   g_abs == (g_asel == 0 ? (const void *) (F)->supervisor_channel : (const void *) (F)->ev_stream) && g_w_kind == W_MANY && \
   (IK(i0, i1, i2) > 0 ==> (g_fn == (const void *) FR(F, IK(i0, i1, i2))->func && g_env == (const void *) FR(F, IK(i0, i1, i2))->env)) && \
   (g_wsel == 0 ==> (g_w_base == (const void *) ((F)->data + (F)->stackstart) && g_w_n == (F)->stacktop - (F)->stackstart)) && \
   ((g_wsel == 1 && IK(i0, i1, i2) > 0) ==> (g_w_base == (const void *) ((F)->data + IK(i0, i1, i2)) && g_w_n == JK(F, i0, i1, i2) - IK(i0, i1, i2))))
/* what the PROPERTY demands for a fiber the walk reaches */
#define EDGES(F, f0, i0, i1, i2) ((F)->gc.flags == ((f0) | JANET_MEM_REACHABLE) && g_val_seen && (g_wsel == 0 ==> g_w_seen) && \
   ((IK(i0, i1, i2) > 0 && FR(F, IK(i0, i1, i2))->func != (JanetFunction *) 0) ==> g_fn_seen) && \
   ((IK(i0, i1, i2) > 0 && FR(F, IK(i0, i1, i2))->env != (JanetFuncEnv *) 0) ==> g_env_seen) && \
   ((IK(i0, i1, i2) > 0 && g_wsel == 1) ==> g_w_seen) && \
   ((F)->env != (JanetTable *) 0 ==> g_tab_seen) && \
   ((g_asel == 0 && (F)->supervisor_channel != (void *) 0) ==> g_abs_seen) && ((g_asel == 1 && (F)->ev_stream != (JanetStream *) 0) ==> g_abs_seen) && \
   ((F)->ev_callback != (JanetEVCallback) 0 ==> g_cb_seen))

#define C1(f) ((f)->child)
#define HAS1(f) (C1(f) != (JanetFiber *) 0)
#define UNM(fl) (((fl) & JANET_MEM_REACHABLE) == 0)
#define REACH0 (UNM(g_f0))
#define REACH1(f) (REACH0 && HAS1(f) && UNM(g_f1))

static void janet_mark_fiber_spec(JanetFiber *fiber)
__CPROVER_requires(__CPROVER_is_fresh(fiber, sizeof(JanetFiber)))
__CPROVER_requires(__CPROVER_is_fresh(fiber->data, sizeof(Janet) * MAXCAP))
__CPROVER_requires(WF_FIBER(fiber, g_a0, g_a1, g_a2))
__CPROVER_requires(C1(fiber) == (JanetFiber *) 0 || __CPROVER_is_fresh(C1(fiber), sizeof(JanetFiber)))
__CPROVER_requires(C1(fiber) == (JanetFiber *) 0 || __CPROVER_is_fresh(C1(fiber)->data, sizeof(Janet) * MAXCAP))
__CPROVER_requires(HAS1(fiber) ==> WF_FIBER(C1(fiber), g_b0, g_b1, g_b2))
/* bound: child chain of at most 2 fibers */
__CPROVER_requires(HAS1(fiber) ==> C1(fiber)->child == (JanetFiber *) 0)
#ifdef VC_FIBER_CHILD
/* unit gc.mark.fiber.child: the parent has no frames, the child at most VC_CHILD_FRAMES */
__CPROVER_requires(g_a0 == 0 && (VC_CHILD_FRAMES < 3 ==> g_b2 == 0) && (VC_CHILD_FRAMES < 2 ==> g_b1 == 0))
#else
/* unit gc.mark.fiber: the child, if any, has already been visited (the walk stops there); the child walk is unit gc.mark.fiber.child */
__CPROVER_requires(HAS1(fiber) ==> !UNM(C1(fiber)->gc.flags))
#endif
/* ghost snapshots, selectors, expectations */
__CPROVER_requires(g_f0 == fiber->gc.flags && g_f1 == (HAS1(fiber) ? C1(fiber)->gc.flags : 0))
__CPROVER_requires(g_lvl >= 0 && g_lvl <= 1 && g_fr >= 0 && g_fr <= 2 && g_wsel >= 0 && g_wsel <= 1 && g_asel >= 0 && g_asel <= 1)
__CPROVER_requires(g_lvl == 0 ==> EXPECT(fiber, g_a0, g_a1, g_a2))
__CPROVER_requires((g_lvl == 1 && HAS1(fiber)) ==> EXPECT(C1(fiber), g_b0, g_b1, g_b2))
__CPROVER_requires(!g_val_seen && !g_w_seen && !g_fn_seen && !g_env_seen && !g_tab_seen && !g_abs_seen && !g_cb_seen)
__CPROVER_requires(g_val_calls == 0 && g_w_calls == 0 && g_fn_calls == 0 && g_env_calls == 0 && g_tab_calls == 0 && g_abs_calls == 0 && g_cb_calls == 0)
__CPROVER_assigns(fiber->gc.flags, g_val_seen, g_w_seen, g_fn_seen, g_env_seen, g_tab_seen, g_abs_seen, g_cb_seen,
                  g_val_calls, g_w_calls, g_fn_calls, g_env_calls, g_tab_calls, g_abs_calls, g_cb_calls)
__CPROVER_assigns(HAS1(fiber): C1(fiber)->gc.flags)
/* C01: every edge of every fiber the walk reaches */
__CPROVER_ensures((g_lvl == 0 && REACH0) ==> EDGES(fiber, g_f0, g_a0, g_a1, g_a2))
__CPROVER_ensures((g_lvl == 1 && REACH1(fiber)) ==> EDGES(C1(fiber), g_f1, g_b0, g_b1, g_b2))
/* the child edge itself */
__CPROVER_ensures(REACH1(fiber) ==> C1(fiber)->gc.flags == (g_f1 | JANET_MEM_REACHABLE))
/* a visited fiber is not traversed again (terminates fiber <-> closure cycles) and its header is left alone */
__CPROVER_ensures(!REACH0 ==> (fiber->gc.flags == g_f0 && g_val_calls == 0 && g_w_calls == 0 && g_fn_calls == 0 && g_env_calls == 0 && g_tab_calls == 0 && g_abs_calls == 0 && g_cb_calls == 0))
__CPROVER_ensures((HAS1(fiber) && !REACH1(fiber)) ==> C1(fiber)->gc.flags == g_f1)
;

void h_mark_fiber(void) {
  JanetFiber *f;
  janet_mark_fiber(f);
  REACH("janet_mark_fiber returns");
}
