/* C01: janet_mark_fiber - for every fiber of the child chain that the walk reaches (all earlier ones unmarked on entry):
 *   the fiber is marked; janet_mark(last_value); the argument stack data[stackstart..stacktop) goes to janet_mark_many;
 *   for every frame of the frame chain: janet_mark_function(frame->func), janet_mark_funcenv(frame->env) when non-NULL and the
 *   frame's slots data[i..j) go to janet_mark_many; janet_mark_table(env); janet_mark_abstract(supervisor_channel),
 *   janet_mark_abstract(ev_stream); ev_callback(fiber, JANET_ASYNC_EVENT_MARK); then the child fiber.
 * Ghost selectors pick ONE fiber of the chain (g_lvl), ONE frame of its chain (g_fr), ONE of the two walker ranges (g_wsel) and
 * ONE of the two abstract edges (g_asel) - the proof covers every choice.
 *
 * BOUNDED, plain mode (the dfcc encoding of this routine needs > 14 GB with a symbolic stack size and 2 min with a fixed one):
 * the frame walk follows data-dependent indices and the child walk chases a pointer (DESIGN R14, C01 note):
 * <= 3 frames per fiber, <= 2 fibers in the child chain, stacks of VC_NSLOTS slots with arbitrary contents.  Unwinding assertions on.
 * The callees are replaced by recording stubs (goto-instrument --replace-calls); the standard memory-safety checks of the real
 * routine are on: every frame header read lies inside the stack under the fiber representation invariant. */
#include "gc_mark.h"
#ifndef VC_NSLOTS
#define VC_NSLOTS 24
#endif

int g_lvl, g_fr, g_wsel, g_asel; int32_t g_ik, g_jk;   /* g_ik/g_jk: index of the selected frame and end of its slot range */
const void *g_cbf; int g_cb_seen; unsigned g_cb_calls;

/* recording stubs (same meaning as the recording contracts of gc_mark.h) */
void rec_mark(Janet x) { g_val_seen = g_val_seen || JEQ(x, g_val); g_val_calls++; }
void rec_many(const Janet *values, int32_t n) { g_w_seen = g_w_seen || (g_w_kind == W_MANY && (const void *) values == g_w_base && n == g_w_n); g_w_calls++; }
void rec_function(JanetFunction *func) { g_fn_seen = g_fn_seen || (const void *) func == g_fn; g_fn_calls++; }
void rec_funcenv(JanetFuncEnv *env) { g_env_seen = g_env_seen || (const void *) env == g_env; g_env_calls++; }
void rec_table(JanetTable *table) { g_tab_seen = g_tab_seen || (const void *) table == g_tab; g_tab_calls++; }
void rec_abstract(void *adata) { g_abs_seen = g_abs_seen || (const void *) adata == g_abs; g_abs_calls++; }
/* the only event callback of this unit: records that it was asked to MARK its state for the selected fiber */
void vc_ev_cb(JanetFiber *fiber, JanetAsyncEvent event) {
  g_cb_seen = g_cb_seen || ((const void *) fiber == g_cbf && event == JANET_ASYNC_EVENT_MARK);
  g_cb_calls++;
}

#define FR(F, i) ((JanetStackFrame *)((F)->data + (i) - JANET_FRAME_SIZE))
/* representation invariant of a fiber stack (fiber.c: janet_fiber_reset, janet_fiber_funcframe, janet_fiber_cframe, popframe; same as unit fiber.env_valid):
 * 0 <= stackstart <= stacktop <= capacity; the current frame header lies below stackstart; the frame chain is well founded:
 * every frame index i > 0 has FRAME_SIZE <= i, its header's prevframe is in [0, i - FRAME_SIZE].  (i0, i1, i2) name the chain. */
#define WF_FRAME(F, i, prev) ((i) >= 0 && ((i) > 0 ==> ((i) >= JANET_FRAME_SIZE && (i) <= (F)->capacity && (prev) == FR(F, i)->prevframe && (prev) >= 0 && (prev) <= (i) - JANET_FRAME_SIZE)) && ((i) == 0 ==> (prev) == 0))
#define WF_FIBER(F, i0, i1, i2) ((F)->stackstart >= 0 && (F)->stackstart <= (F)->stacktop && (F)->stacktop <= (F)->capacity && \
   (i0) == (F)->frame && ((i0) > 0 ==> (i0) <= (F)->stackstart - JANET_FRAME_SIZE) && WF_FRAME(F, i0, i1) && WF_FRAME(F, i1, i2) && \
   /* bound: at most 3 frames */ (i2) >= 0 && ((i2) > 0 ==> ((i2) >= JANET_FRAME_SIZE && (i2) <= (F)->capacity && FR(F, i2)->prevframe == 0)) && \
   ((F)->ev_callback == (JanetEVCallback) 0 || (F)->ev_callback == vc_ev_cb))
#define UNM(fl) (((fl) & JANET_MEM_REACHABLE) == 0)
#define EDGE(c, msg) __CPROVER_assert(c, "C01 mark_fiber: " msg)
static void check_edges(JanetFiber *F, int32_t f0) {
  EDGE(F->gc.flags == (f0 | JANET_MEM_REACHABLE), "a fiber the walk reaches is marked (and nothing else of its header changes)");
  EDGE(g_val_seen, "last_value is marked");
  EDGE(g_wsel != 0 || g_w_seen, "the argument stack data[stackstart..stacktop) is handed to janet_mark_many");
  if (g_ik > 0) {
    EDGE(FR(F, g_ik)->func == (JanetFunction *) 0 || g_fn_seen, "the function of every frame is marked");
    EDGE(FR(F, g_ik)->env == (JanetFuncEnv *) 0 || g_env_seen, "the closure environment of every frame is marked");
    EDGE(g_wsel != 1 || g_w_seen, "the slots data[i..j) of every frame are handed to janet_mark_many");
  }
  EDGE(F->env == (JanetTable *) 0 || g_tab_seen, "the fiber's environment table is marked");
  EDGE(!(g_asel == 0 && F->supervisor_channel != (void *) 0) || g_abs_seen, "the supervisor channel is marked");
  EDGE(!(g_asel == 1 && F->ev_stream != (JanetStream *) 0) || g_abs_seen, "the stream the fiber waits on is marked");
  EDGE(F->ev_callback == (JanetEVCallback) 0 || g_cb_seen, "the pending event callback is asked to mark its state (JANET_ASYNC_EVENT_MARK)");
}

JanetEVCallback g_cb_addr = vc_ev_cb;   /* address taken: vc_ev_cb is the candidate of the indirect call fiber->ev_callback(...) */
void h_mark_fiber(void) {
  /* arbitrary fibers and stack contents: fresh heap objects (not uninitialised locals, see gc_walk.c) */
  JanetFiber *pf0 = malloc(sizeof(JanetFiber)), *pf1 = malloc(sizeof(JanetFiber)), *fiber = pf0;
#define F0 (*pf0)
#define F1 (*pf1)
  Janet *g_stack0 = malloc(sizeof(Janet) * VC_NSLOTS), *g_stack1 = malloc(sizeof(Janet) * VC_NSLOTS);
  F0.data = g_stack0; F0.capacity = VC_NSLOTS; F1.data = g_stack1; F1.capacity = VC_NSLOTS;
  int has1 = nd_int();
  F0.child = has1 ? &F1 : (JanetFiber *) 0;
  F1.child = (JanetFiber *) 0;                                   /* bound: child chain of at most 2 fibers */
  int32_t a0 = nd_i32(), a1 = nd_i32(), a2 = nd_i32(), b0 = nd_i32(), b1 = nd_i32(), b2 = nd_i32();
  __CPROVER_assume(WF_FIBER(&F0, a0, a1, a2));
  __CPROVER_assume(WF_FIBER(&F1, b0, b1, b2));
  int32_t f0 = F0.gc.flags, f1 = F1.gc.flags;
  /* ghost selectors: one fiber S of the chain, one frame (g_ik, slots end g_jk) of its frame chain, one walker range, one abstract edge */
  g_lvl = nd_int(); g_fr = nd_int(); g_wsel = nd_int(); g_asel = nd_int();
  __CPROVER_assume(g_lvl >= 0 && g_lvl <= 1 && g_fr >= 0 && g_fr <= 2 && g_wsel >= 0 && g_wsel <= 1 && g_asel >= 0 && g_asel <= 1);
  JanetFiber *S = g_lvl == 0 ? &F0 : &F1;
  int32_t s0 = g_lvl == 0 ? a0 : b0, s1 = g_lvl == 0 ? a1 : b1, s2 = g_lvl == 0 ? a2 : b2;
  g_ik = g_fr == 0 ? s0 : g_fr == 1 ? s1 : s2;
  g_jk = g_fr == 0 ? S->stackstart - JANET_FRAME_SIZE : g_fr == 1 ? s0 - JANET_FRAME_SIZE : s1 - JANET_FRAME_SIZE;
  JCOPY(g_val, S->last_value); g_tab = S->env; g_cbf = S;
  g_abs = g_asel == 0 ? (const void *) S->supervisor_channel : (const void *) S->ev_stream;
  g_fn = g_env = (const void *) 0;
  if (g_ik > 0) { g_fn = FR(S, g_ik)->func; g_env = FR(S, g_ik)->env; }
  g_w_kind = W_MANY;
  if (g_wsel == 0) { g_w_base = S->data + S->stackstart; g_w_n = S->stacktop - S->stackstart; }
  else { g_w_base = g_ik > 0 ? (const void *) (S->data + g_ik) : (const void *) 0; g_w_n = g_jk - g_ik; }
  g_val_seen = g_w_seen = g_fn_seen = g_env_seen = g_tab_seen = g_abs_seen = g_cb_seen = 0;
  g_val_calls = g_w_calls = g_fn_calls = g_env_calls = g_tab_calls = g_abs_calls = g_cb_calls = 0;

  janet_mark_fiber(fiber);

  int reach0 = UNM(f0), reach1 = reach0 && has1 && UNM(f1);
  if (g_lvl == 0 && reach0) { check_edges(&F0, f0); REACH("parent fiber traversed"); }
  if (g_lvl == 1 && reach1) { check_edges(&F1, f1); REACH("child fiber traversed"); }
  if (reach1) EDGE(F1.gc.flags == (f1 | JANET_MEM_REACHABLE), "the child fiber is marked");
  /* a visited fiber is not traversed again (terminates fiber <-> closure cycles); unreached fibers keep their header */
  if (!reach0) EDGE(F0.gc.flags == f0 && g_val_calls == 0 && g_w_calls == 0 && g_fn_calls == 0 && g_env_calls == 0 && g_tab_calls == 0 && g_abs_calls == 0 && g_cb_calls == 0,
                    "an already marked fiber is left alone");
  if (!reach1) EDGE(F1.gc.flags == f1, "a fiber the walk does not reach keeps its header");
  /* frame: nothing but the two headers is written */
  EDGE(F0.frame == a0 && F0.child == (has1 ? &F1 : (JanetFiber *) 0) && F0.data == g_stack0, "the mark phase does not modify the fiber");
  REACH("janet_mark_fiber returns");
}
