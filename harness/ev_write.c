/* C16: the POSIX write state machine ev_callback_write (ev.c), one readiness event, every state.
 *
 * Oracle: ghost g_accepted = number of bytes of the message the kernel has accepted so far. Coupling invariant of the
 * state machine:  g_accepted == state->start  on entry of every event  ==>  on exit (unless the operation ended with an error).
 * Together with the argument assertion "write(2) gets exactly (bytes + start, len - start)" this is, by induction over the
 * events of one operation, "every byte is handed to the kernel once, in order: none re-sent, none skipped"; and the operation
 * completes (fiber resumed with nil, detached) exactly when start' >= len, is cancelled on error/disconnect, and stays
 * registered - untouched - on EAGAIN.
 *
 * Assumed contracts (stubs): write/send/sendto return -1 (setting errno to any value) or r with 0 <= r <= n, and accept exactly
 * r bytes; they only read [buf, buf+n). janet_schedule / janet_cancel / janet_async_end are recorders.
 * The EINTR retry loop carries the loop contract given in the unit (termination of the retry loop is NOT claimed: no decreases). */
#include "prelude.h"

int g_errno;
int *errno_stub(void) { return &g_errno; }

/* ---- ghost state ---- */
int g_w_called; ssize_t g_last_ret; int64_t g_accepted, g_acc0;
int g_exp_kind, g_exp_fd, g_exp_flags; const uint8_t *g_exp_buf; size_t g_exp_n; const void *g_exp_dest; size_t g_exp_destlen;
int g_sched_calls, g_cancel_calls, g_end_calls, g_seq, g_end_seq, g_wake_seq; int g_sched_nil; JanetFiber *g_wake_fiber, *g_end_fiber;

static ssize_t kernel_accepts(int kind, int fd, const void *buf, size_t n, int flags) {
  __CPROVER_assert(kind == g_exp_kind, "C16 write: the system call is the one of the write mode (write/send/sendto)");
  __CPROVER_assert(fd == g_exp_fd && (kind == 0 || flags == g_exp_flags), "C16 write: the stream's own descriptor and the caller's flags are used");
  __CPROVER_assert(buf == (const void *) g_exp_buf && n == g_exp_n, "C16 write: write(2) gets exactly (bytes + start, len - start)");
  __CPROVER_assert(n > 0 && __CPROVER_r_ok(buf, n), "C16 write: the range handed to the kernel is a non-empty readable part of the source");
  ssize_t r = (ssize_t) nd_i64();
  __CPROVER_assume(r == -1 || (r >= 0 && (size_t) r <= n));     /* assumed contract of write(2)/send(2)/sendto(2) */
  if (r == -1) g_errno = nd_int();
  if (r > 0) g_accepted += r;
  g_w_called = 1; g_last_ret = r;
  return r;
}
ssize_t write_stub(int fd, const void *buf, size_t n) { return kernel_accepts(0, fd, buf, n, 0); }
ssize_t send_stub(int fd, const void *buf, size_t n, int flags) { return kernel_accepts(1, fd, buf, n, flags); }
/* glibc declares the address parameter as __CONST_SOCKADDR_ARG (a transparent union of pointer types under _GNU_SOURCE) */
ssize_t sendto_stub(int fd, const void *buf, size_t n, int flags, __CONST_SOCKADDR_ARG addr_arg, socklen_t alen) {
  const void *addr; memcpy(&addr, &addr_arg, sizeof addr);
  __CPROVER_assert(addr == g_exp_dest && (size_t) alen == g_exp_destlen, "C16 write: sendto gets the destination address object and its size");
  return kernel_accepts(2, fd, buf, n, flags);
}
void schedule_stub(JanetFiber *fiber, Janet value) { g_sched_calls++; g_wake_fiber = fiber; g_sched_nil = janet_checktype(value, JANET_NIL); g_wake_seq = ++g_seq; }
void cancel_stub(JanetFiber *fiber, Janet value) { g_cancel_calls++; g_wake_fiber = fiber; g_wake_seq = ++g_seq; }
void async_end_stub(JanetFiber *fiber) { g_end_calls++; g_end_fiber = fiber; g_end_seq = ++g_seq; }

void h_write(void) {
  g_w_called = 0; g_last_ret = 0; g_sched_calls = g_cancel_calls = g_end_calls = g_seq = g_end_seq = g_wake_seq = 0; g_sched_nil = 0;
  g_wake_fiber = g_end_fiber = 0;
  JanetStream stream; JanetFiber fiber; StateWrite state; JanetBuffer buffer;
  stream.handle = nd_int(); stream.flags = nd_u32(); stream.read_fiber = 0; stream.write_fiber = &fiber;
  fiber.ev_stream = &stream; fiber.ev_state = &state; fiber.ev_callback = ev_callback_write; fiber.flags = nd_i32();
  /* the message: a string or a buffer of ANY length */
  int32_t len = nd_i32(); __CPROVER_assume(len >= 0);
  const uint8_t *bytes;
  state.is_buffer = nd_int();
  if (state.is_buffer) {
    int32_t cap = nd_i32(); __CPROVER_assume(cap >= len);
    buffer.data = malloc(cap); __CPROVER_assume(buffer.data != 0 || cap == 0);
    buffer.count = len; buffer.capacity = cap; state.src.buf = &buffer; bytes = buffer.data;
  } else {
    JanetStringHead *h = malloc(sizeof(JanetStringHead) + (size_t) len + 1); __CPROVER_assume(h != 0);
    h->length = len; bytes = h->data; state.src.str = bytes;
  }
  int mode = nd_int();
  __CPROVER_assume(mode == JANET_ASYNC_WRITEMODE_WRITE || mode == JANET_ASYNC_WRITEMODE_SEND || mode == JANET_ASYNC_WRITEMODE_SENDTO);
  state.mode = (JanetWriteMode) mode;
  /* representation invariant (the six callers of janet_ev_write_generic): a destination address iff mode is SENDTO */
  g_exp_dest = 0; g_exp_destlen = 0;
  if (mode == JANET_ASYNC_WRITEMODE_SENDTO) {
    JanetAbstractHead *ah = malloc(sizeof(JanetAbstractHead) + 32); __CPROVER_assume(ah != 0);
    ah->size = nd_size(); __CPROVER_assume(ah->size <= 0x7fffffff); state.dest_abst = ah->data; g_exp_dest = ah->data; g_exp_destlen = ah->size;
  } else state.dest_abst = 0;
  state.flags = nd_int();
  state.start = nd_i32(); __CPROVER_assume(state.start >= 0);          /* starts at 0, only ever advanced by byte counts */
  int32_t start0 = state.start;
  JanetAsyncEvent event = (JanetAsyncEvent) nd_int();
  __CPROVER_assume(event >= JANET_ASYNC_EVENT_INIT && event <= JANET_ASYNC_EVENT_FAILED);
  g_errno = nd_int();
  /* coupling invariant on entry: the kernel has accepted exactly the first `start` bytes */
  g_accepted = start0; g_acc0 = start0;
  g_exp_kind = mode == JANET_ASYNC_WRITEMODE_WRITE ? 0 : mode == JANET_ASYNC_WRITEMODE_SEND ? 1 : 2;
  g_exp_fd = stream.handle; g_exp_flags = state.flags; g_exp_buf = bytes + start0; g_exp_n = start0 < len ? (size_t)(len - start0) : 0;

  ev_callback_write(&fiber, event);

  int woken = g_sched_calls + g_cancel_calls;
  __CPROVER_assert(woken <= 1 && g_end_calls == woken, "C16 write: the fiber is resumed or cancelled at most once, and detached exactly then (none completed twice, none left registered after completion)");
  __CPROVER_assert(woken == 0 || (g_wake_fiber == &fiber && g_end_fiber == &fiber && g_wake_seq < g_end_seq), "C16 write: it is this fiber that is woken, before it is detached");
  if (event == JANET_ASYNC_EVENT_INIT || event == JANET_ASYNC_EVENT_WRITE) {
    if (start0 >= len) {
      __CPROVER_assert(!g_w_called, "C16 write: nothing is written once every byte has been accepted");
      __CPROVER_assert(g_sched_calls == 1 && g_sched_nil && state.start == start0, "C16 write: a finished message completes the fiber with nil");
      REACH("write: already complete");
    } else {
      __CPROVER_assert(g_w_called, "C16 write: pending bytes are offered to the kernel");
      ssize_t r = g_last_ret;
      if (r == -1) {
        __CPROVER_assert(g_errno != EINTR, "C16 write: EINTR is retried, never reported");
        __CPROVER_assert(state.start == start0 && g_accepted == state.start, "C16 write: a failed call leaves the offset untouched");
        if (g_errno == EAGAIN || g_errno == EWOULDBLOCK) {
          __CPROVER_assert(woken == 0, "C16 write: EAGAIN leaves the operation pending: nothing scheduled, fiber stays registered");
          REACH("write: EAGAIN");
        } else {
          __CPROVER_assert(g_cancel_calls == 1, "C16 write: a write error raises in the writing fiber");
          REACH("write: error");
        }
      } else if (r == 0 && !state.dest_abst) {
        __CPROVER_assert(g_cancel_calls == 1 && state.start == start0, "C16 write: a zero-length write on a stream is a disconnect: the fiber is cancelled");
        REACH("write: disconnect");
      } else if (r == 0) {
        __CPROVER_assert(g_sched_calls == 1 && g_sched_nil, "C16 write: an empty datagram completes");
        REACH("write: empty datagram");
      } else {
        __CPROVER_assert((int64_t) state.start == (int64_t) start0 + r, "C16 write: start advances by exactly the number of bytes written");
        __CPROVER_assert(g_accepted == state.start, "C16 write: bytes accepted by the kernel == offset the next write starts from (no byte re-sent or skipped)");
        if ((int64_t) start0 + r >= len) {
          __CPROVER_assert(g_sched_calls == 1 && g_sched_nil && state.start == len, "C16 write: completion (resume with nil) exactly when all len bytes were accepted");
          REACH("write: completes");
        } else {
          __CPROVER_assert(woken == 0, "C16 write: a partial write keeps the operation pending (not completed early)");
          REACH("write: partial");
        }
      }
    }
  } else if (event == JANET_ASYNC_EVENT_CLOSE || event == JANET_ASYNC_EVENT_ERR || event == JANET_ASYNC_EVENT_HUP) {
    __CPROVER_assert(g_cancel_calls == 1 && !g_w_called && state.start == start0, "C16 close: closing/erroring/hanging-up a stream wakes its pending writer with an error, writes nothing");
    REACH("write: close/err/hup");
  } else {
    __CPROVER_assert(woken == 0 && !g_w_called && state.start == start0, "C16 write: MARK/DEINIT and foreign events neither write nor wake");
    REACH("write: passive events");
  }
}
