/* C11 token level: the byte classifiers of parse.c, each for ALL 256 byte values (loop free):
 *   to_hex            = value of a hexadecimal digit, -1 otherwise
 *   checkescape       = the escape table of Janet string literals
 *   janet_is_symbol_char / is_whitespace = the documented character classes (janet-lang.org/docs/syntax.html) */
#include "prelude.h"

/* to_hex: stated without the code's case split: the result indexes the digit alphabet at a position that spells c */
static int to_hex_c(uint8_t c)
__CPROVER_assigns()
__CPROVER_ensures(__CPROVER_return_value >= -1 && __CPROVER_return_value <= 15)
__CPROVER_ensures(__CPROVER_return_value >= 0 ==>
     ("0123456789ABCDEF"[__CPROVER_return_value] == c || "0123456789abcdef"[__CPROVER_return_value] == c))
__CPROVER_ensures(__CPROVER_return_value == -1 ==>
     !((c >= '0' && c <= '9') || (c >= 'a' && c <= 'f') || (c >= 'A' && c <= 'F')))
;
void h_to_hex(void) {
  to_hex(nd_u8());
  REACH("normal return of to_hex");
}

/* checkescape: \n \t \r \0 \z \f \v \a \b \' \? \e \" \\ denote one byte; \x \u \U announce hex digits (1); everything else is rejected (-1) */
#define ESC_SPEC(c) ((c) == 'n' ? 10 : (c) == 't' ? 9 : (c) == 'r' ? 13 : (c) == '0' ? 0 : (c) == 'z' ? 0 : (c) == 'f' ? 12 : (c) == 'v' ? 11 : \
                     (c) == 'a' ? 7 : (c) == 'b' ? 8 : (c) == 39 ? 39 : (c) == '?' ? 63 : (c) == 'e' ? 27 : (c) == '"' ? 34 : (c) == 92 ? 92 : \
                     ((c) == 'x' || (c) == 'u' || (c) == 'U') ? 1 : -1)
static int checkescape_c(uint8_t c)
__CPROVER_assigns()
__CPROVER_ensures(__CPROVER_return_value == ESC_SPEC(c))
__CPROVER_ensures(__CPROVER_return_value >= -1 && __CPROVER_return_value <= 255)      /* escape1 stores it with a (uint8_t) cast: no truncation */
;
void h_checkescape(void) {
  checkescape(nd_u8());
  REACH("normal return of checkescape");
}

/* symbol characters: alphanumerics, the punctuation ! $ % & * + - . / : < = > ? @ ^ _ and every byte >= 0x80 (utf-8, validated later).
 * Delimiters, quotes, reader-macro characters (' , ; ~ |), '#', '`', '\\' and whitespace are NOT symbol characters: the tokenizer's
 * decision where a token ends is this table. */
#define IS_ALNUM(c) (((c) >= '0' && (c) <= '9') || ((c) >= 'a' && (c) <= 'z') || ((c) >= 'A' && (c) <= 'Z'))
#define IS_SYMPUNCT(c) ((c) == '!' || (c) == '$' || (c) == '%' || (c) == '&' || (c) == '*' || (c) == '+' || (c) == '-' || (c) == '.' || (c) == '/' || \
                        (c) == ':' || (c) == '<' || (c) == '=' || (c) == '>' || (c) == '?' || (c) == '@' || (c) == '^' || (c) == '_')
int janet_is_symbol_char_c(uint8_t c)
__CPROVER_assigns()
__CPROVER_ensures((__CPROVER_return_value != 0) == (IS_ALNUM(c) || IS_SYMPUNCT(c) || c >= 0x80))
;
static int is_whitespace_c(uint8_t c)
__CPROVER_assigns()
__CPROVER_ensures((__CPROVER_return_value != 0) == (c == 32 || c == 9 || c == 10 || c == 13 || c == 0 || c == 11 || c == 12))
;
void h_whitespace(void) {
  is_whitespace(nd_u8());
  REACH("normal return of is_whitespace");
}
void h_symchar(void) {
  uint8_t c = nd_u8();
  int s = janet_is_symbol_char(c);
  int w = is_whitespace(c);   /* real body (dfcc enforces one contract per unit; is_whitespace has its own unit) */
  /* the classes the root consumer distinguishes are disjoint: no byte is both token material and separator */
  __CPROVER_assert(!(s && w), "C11: whitespace is never a symbol character");
  REACH("normal return of janet_is_symbol_char / is_whitespace");
}
