/* C01: the leaf mark routines janet_mark_string / janet_mark_buffer: the header of the string (symbol, keyword) / buffer is marked,
 * nothing else is written (strings and buffers hold no references). */
#include "gc_mark.h"
JanetStringHead *g_shead;
static void janet_mark_string_spec(const uint8_t *str)
__CPROVER_requires(__CPROVER_is_fresh(g_shead, sizeof(JanetStringHead)))
__CPROVER_requires(__CPROVER_pointer_equals(str, g_shead->data))
__CPROVER_assigns(g_shead->gc.flags)
__CPROVER_ensures(g_shead->gc.flags == (__CPROVER_old(g_shead->gc.flags) | JANET_MEM_REACHABLE))
;
void h_mark_string(void) { const uint8_t *s; janet_mark_string(s); REACH("janet_mark_string returns"); }
static void janet_mark_buffer_spec(JanetBuffer *buffer)
__CPROVER_requires(__CPROVER_is_fresh(buffer, sizeof(JanetBuffer)))
__CPROVER_assigns(buffer->gc.flags)
__CPROVER_ensures(buffer->gc.flags == (__CPROVER_old(buffer->gc.flags) | JANET_MEM_REACHABLE))
;
void h_mark_buffer(void) { JanetBuffer *b; janet_mark_buffer(b); REACH("janet_mark_buffer returns"); }
