/* C17 (C level): string/repeat and string/join (included after lib_string.c). Both build the result with a sequence of
 * safe_memcpy calls whose number depends on the arguments; the copy loops (a pointer-walking loop in string/repeat) are
 * unwound, so the NUMBER of copies is bounded (LIB_MAXREP repetitions / LIB_MAXPARTS parts) while every LENGTH is
 * unbounded. Content is stated pointwise with the memcpy model of seq_common.h (byte at ghost offset g_mm of every copy). */
#ifndef LIB_MAXREP
#define LIB_MAXREP 3
#endif
#ifndef LIB_MAXPARTS
#define LIB_MAXPARTS 3
#endif
#ifndef LIB_NPARTS
#define LIB_NPARTS 0
#endif

/* ---- (string/repeat bytes n): n >= 0 else raises; a new string of n * len bytes - raises instead of exceeding
 * INT32_MAX - whose byte i is bytes[i mod len], i.e. copy c (0 <= c < n) occupies [c * len, (c + 1) * len) */
#define REP(argv) SLOT_INT(argv, 1)
#define REP_AT(c) (((c) < REP(argv) && IN0 && (size_t)g_idx == g_mm) ==> g_str[(int64_t)(c) * g_v0.len + g_idx] == g_byte)
static Janet cfun_string_repeat_c(int32_t argc, Janet *argv)
S_PRE
__CPROVER_requires(argc < 2 || REP(argv) <= LIB_MAXREP)         /* bound: the copy loop is unwound */
S_FRAME RET_NEW_STRING
__CPROVER_ensures(argc == 2 && REP(argv) >= 0 && (int64_t)REP(argv) * g_v0.len <= INT32_MAX)
__CPROVER_ensures((int64_t)g_strlen == (int64_t)REP(argv) * g_v0.len)
__CPROVER_ensures(REP_AT(0) && REP_AT(1) && REP_AT(2))
;
void h_string_repeat(void) {
  Janet *argv = mk_args();
  /* the repetition count is a constant on every path (constant trip count of the copy loop) */
  if (g_argc >= 2) {
    int k = nd_int();
    if (k == 0) argv[1].u64 = 0; else if (k == 1) argv[1].u64 = 1; else if (k == 2) argv[1].u64 = 2; else if (k == 3) argv[1].u64 = 3;
    else __CPROVER_assume(SLOT_INT(argv, 1) < 0);
  }
  cfun_string_repeat(g_argc, argv);
  REACH("string/repeat returns");
  if (REP(argv) == 0) REACH("string/repeat returns the empty string for n == 0");
  if (REP(argv) == LIB_MAXREP && g_v0.len > 2) REACH("string/repeat returns the maximal number of copies");
  if (REP(argv) == LIB_MAXREP && g_v0.len == 0) REACH("string/repeat returns for the empty string repeated");
}

/* ---- (string/join parts &opt sep): parts is an array or tuple of byte sequences (any other element raises); result =
 * part 0 ++ sep ++ part 1 ++ ... ++ part n-1 (separator between, not after), length = sum of the lengths + (n - 1) *
 * len sep, raises instead of exceeding INT32_MAX */
JanetView g_parts;
struct part { int ok; const uint8_t *bytes; int32_t len; } g_part[LIB_MAXPARTS];
JanetView janet_getindexed(const Janet *argv, int32_t n) { SLOT_OK(n); __CPROVER_assert(n == 0, "indexed view requested for slot 0"); return g_parts; }
/* util.c janet_bytes_view: a pure function of the value (no Janet code runs between the two passes of string/join) */
int janet_bytes_view(Janet x, const uint8_t **data, int32_t *len) {
  int k = -1;
  for (int i = LIB_MAXPARTS - 1; i >= 0; i--) if (i < g_parts.len && g_parts.items[i].u64 == x.u64) k = i;
  __CPROVER_assert(k >= 0, "janet_bytes_view: called with an element of parts");
  if (!g_part[k].ok) return 0;
  *data = g_part[k].bytes; *len = g_part[k].len;
  return 1;
}
#define P_LEN(k) ((int64_t)((k) < g_parts.len ? g_part[k].len : 0))
#define J_SEP ((int64_t)(g_argc == 2 ? g_v1.len : 0))
#define J_OFF(k) ((k) == 0 ? (int64_t)0 : (k) == 1 ? P_LEN(0) + J_SEP : P_LEN(0) + J_SEP + P_LEN(1) + J_SEP)
#define J_TOTAL (P_LEN(0) + P_LEN(1) + P_LEN(2) + (g_parts.len > 1 ? (g_parts.len - 1) * J_SEP : 0))
#define J_PART_AT(k) (((k) < g_parts.len && g_mm < (size_t)g_part[k].len) ==> g_str[J_OFF(k) + (int64_t)(g_mm & 0x7FFFFFFF)] == g_part[k].bytes[g_mm])
#define J_SEP_AT(k) (((k) + 1 < g_parts.len && g_argc == 2 && g_mm < (size_t)g_v1.len) ==> g_str[J_OFF(k) + P_LEN(k) + (int64_t)(g_mm & 0x7FFFFFFF)] == g_v1.bytes[g_mm])
static Janet cfun_string_join_c(int32_t argc, Janet *argv)
S_PRE
__CPROVER_requires(g_parts.len >= 0 && g_parts.len <= LIB_MAXPARTS && (g_parts.len == 0 || __CPROVER_r_ok(g_parts.items, (size_t)g_parts.len * JSZ)))
S_FRAME RET_NEW_STRING
__CPROVER_ensures(argc >= 1 && argc <= 2)
__CPROVER_ensures((g_parts.len > 0 ==> g_part[0].ok) && (g_parts.len > 1 ==> g_part[1].ok) && (g_parts.len > 2 ==> g_part[2].ok))
__CPROVER_ensures(J_TOTAL <= INT32_MAX && (int64_t)g_strlen == J_TOTAL)
__CPROVER_ensures(J_PART_AT(0) && J_PART_AT(1) && J_PART_AT(2) && J_SEP_AT(0) && J_SEP_AT(1))
;
void h_string_join(void) {
  Janet *argv = mk_args();
  g_parts.len = LIB_NPARTS;          /* one unit per number of parts (0..LIB_MAXPARTS): constant trip counts */
  Janet *items = malloc((size_t)g_parts.len * sizeof(Janet));
  __CPROVER_assume(items != SEQ_NULL);
  g_parts.items = items;
  for (int k = 0; k < LIB_MAXPARTS; k++) {
    g_part[k].ok = nd_int() ? 1 : 0;
    JanetByteView v; mk_view(&v);
    g_part[k].bytes = v.bytes; g_part[k].len = v.len;
  }
  /* equal elements are the same value and therefore have the same byte view */
  for (int a = 0; a < LIB_MAXPARTS; a++)
    for (int b = a + 1; b < LIB_MAXPARTS; b++)
      if (b < g_parts.len && items[a].u64 == items[b].u64)
        __CPROVER_assume(g_part[a].ok == g_part[b].ok && g_part[a].bytes == g_part[b].bytes && g_part[a].len == g_part[b].len);
  cfun_string_join(g_argc, argv);
  REACH("string/join returns");
#if LIB_NPARTS == 0
  if (g_strlen == 0) REACH("string/join returns the empty string for no parts");
#else
  if (g_argc == 2 && g_v1.len > 1 && g_part[LIB_NPARTS - 1].len > 1) REACH("string/join returns the parts joined with a separator");
  if (g_argc == 1 && g_part[LIB_NPARTS - 1].len > 1) REACH("string/join returns the parts joined without separator");
#endif
}
