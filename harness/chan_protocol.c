/* C06 / C07: give and take on a (non-threaded) channel - janet_channel_push_with_lock / janet_channel_pop_with_lock (ev.c).
 * The three ring buffers are replaced by their contracts (a queue is a sequence; pop fails iff it is empty and otherwise
 * yields the head; push appends; count is the length) with ghost lengths, and janet_schedule by a recording contract whose
 * PRECONDITION is the generation protocol of C07: a channel waiter is resumed only if the generation recorded when it
 * registered is still the fiber's current generation. Postconditions: the case table of the property statement. */
#include "prelude.h"
JanetChannel g_ch; JanetFiber g_fibers[3];
int32_t g_items, g_rp, g_wp;                  /* ghost lengths of items / read_pending / write_pending */
int32_t g_items0, g_rp0, g_wp0;
int g_items_pushed, g_rp_pushed, g_wp_pushed, g_items_popped, g_stale_skipped;
Janet g_item_pushed, g_head_item; JanetChannelPending g_pending_pushed;
JanetChannelPending g_waiter; int g_have_waiter;
int g_sched_calls; JanetFiber *g_sched_fiber; Janet g_sched_value; int g_live_taken;

int q_pop_stub(JanetQueue *q, void *out, size_t itemsize) {
  if (q == &g_ch.items) {
    __CPROVER_assert(itemsize == sizeof(Janet), "items hold Janet values");
    if (g_items == 0) return 1;
    g_items--; g_items_popped++; *(Janet *)out = g_head_item; return 0;
  }
  int32_t *len = (q == &g_ch.read_pending) ? &g_rp : &g_wp;
  __CPROVER_assert(itemsize == sizeof(JanetChannelPending), "pending queues hold JanetChannelPending");
  if (*len == 0) return 1;
  (*len)--;
  JanetChannelPending p; p.thread = &janet_vm; p.fiber = &g_fibers[nd_uint() % 3]; p.sched_id = nd_u32(); p.mode = nd_uint() % 5;
  if (g_have_waiter && g_waiter.sched_id != g_waiter.fiber->sched_id) g_stale_skipped++;
  *(JanetChannelPending *)out = p; g_waiter = p; g_have_waiter = 1;
  if (p.sched_id == p.fiber->sched_id) g_live_taken++;
  return 0;
}
int q_push_stub(JanetQueue *q, void *item, size_t itemsize) {
  if (q == &g_ch.items) { if (nd_int()) return 1; g_items++; g_items_pushed++; g_item_pushed = *(Janet *)item; return 0; }
  if (q == &g_ch.read_pending) { g_rp++; g_rp_pushed++; } else { g_wp++; g_wp_pushed++; }
  g_pending_pushed = *(JanetChannelPending *)item;
  return 0;
}
int32_t q_count_stub(JanetQueue *q) { return q == &g_ch.items ? g_items : (q == &g_ch.read_pending ? g_rp : g_wp); }
void schedule_stub(JanetFiber *fiber, Janet value) {
  __CPROVER_assert(g_have_waiter && fiber == g_waiter.fiber, "C06 wake-up: only the waiter just taken from the pending queue is scheduled");
  __CPROVER_assert(g_waiter.sched_id == fiber->sched_id, "C07 channel waiter is resumed only if its recorded generation is still current (not an abandoned wait)");
  g_sched_calls++; g_sched_fiber = fiber; g_sched_value = value;
}
Janet wrapres_stub1(JanetChannel *c) { Janet r; r.u64 = 0x7777; return r; }
Janet wrapres_stub2(JanetChannel *c, Janet x) { return x; }
static void setup(void) {
  g_ch.is_threaded = 0; g_ch.closed = nd_int(); g_ch.limit = nd_i32();
  g_items = nd_i32(); g_rp = nd_i32(); g_wp = nd_i32();
  __CPROVER_assume(g_items >= 0 && g_items < 0x7FFFFFF && g_rp >= 0 && g_rp <= 3 && g_wp >= 0 && g_wp <= 3 && g_ch.limit >= 0);
  g_items0 = g_items; g_rp0 = g_rp; g_wp0 = g_wp;
  g_fibers[0].sched_id = nd_u32(); g_fibers[1].sched_id = nd_u32(); g_fibers[2].sched_id = nd_u32();
  g_head_item.u64 = nd_u64();
  janet_vm.root_fiber = &g_fibers[0];
  g_have_waiter = 0; g_sched_calls = 0; g_live_taken = 0; g_items_pushed = g_rp_pushed = g_wp_pushed = g_items_popped = g_stale_skipped = 0;
}
/* ---- give ---- */
void h_give(void) {
  setup(); Janet x; x.u64 = nd_u64(); int mode = nd_int(); __CPROVER_assume(mode >= 0 && mode <= 2);
  int closed0 = g_ch.closed;
  int r = janet_channel_push_with_lock(&g_ch, x, mode);
  __CPROVER_assert(!closed0, "C06 give: giving to a closed channel raises");
  if (g_sched_calls) {
    __CPROVER_assert(g_sched_calls == 1 && g_items_pushed == 0 && r == 0, "C06 give: a waiting taker receives the value directly, exactly once, without waiting and without queueing it");
    __CPROVER_assert(g_sched_value.u64 == x.u64, "C06 give: the waiting taker receives exactly the given value");
    REACH("give hands over to a waiting taker");
  } else {
    __CPROVER_assert(g_rp == 0, "C06 give: the value is queued only when no (live) taker is waiting - every pending taker was examined");
    __CPROVER_assert(g_items_pushed == 1 && g_item_pushed.u64 == x.u64 && g_items == g_items0 + 1, "C06 give: the value is appended to the channel exactly once");
    __CPROVER_assert((r == 1) == (g_items0 + 1 > g_ch.limit), "C06 give: completes without waiting exactly when the channel was below capacity");
    __CPROVER_assert(g_wp_pushed == ((r == 1 && mode != 2) ? 1 : 0), "C06 give: a blocked giver registers exactly once as pending writer");
    __CPROVER_assert(!g_wp_pushed || (g_pending_pushed.fiber == janet_vm.root_fiber && g_pending_pushed.sched_id == janet_vm.root_fiber->sched_id), "C07 give: the pending-writer record carries the current fiber and its current generation");
    REACH("give queues the value");
  }
  __CPROVER_assert(g_rp_pushed == 0 && g_items_popped == 0, "C06 give: never takes from the channel or registers a reader");
  __CPROVER_assert(g_sched_calls == g_live_taken, "C06 give: every live waiter removed from the pending queue is resumed (no lost wake-up)");
}
/* ---- take ---- */
void h_take(void) {
  setup(); Janet item; item.u64 = 0x5555; int is_choice = nd_int(); __CPROVER_assume(is_choice >= 0 && is_choice <= 2);
  int closed0 = g_ch.closed;
  int r = janet_channel_pop_with_lock(&g_ch, &item, is_choice);
  if (closed0) {
    __CPROVER_assert(r == 1 && janet_checktype(item, JANET_NIL) && g_sched_calls == 0 && g_items_popped == 0, "C06 take: a closed channel yields nil at once and wakes nobody");
  } else if (g_items0 == 0) {
    __CPROVER_assert(r == 0 && g_sched_calls == 0, "C06 take: an empty channel makes the taker wait");
    __CPROVER_assert(g_rp_pushed == (is_choice == 2 ? 0 : 1), "C06 take: the waiting taker registers exactly once");
    __CPROVER_assert(!g_rp_pushed || (g_pending_pushed.fiber == janet_vm.root_fiber && g_pending_pushed.sched_id == janet_vm.root_fiber->sched_id), "C07 take: the pending-reader record carries the current fiber and its current generation");
    REACH("take waits on empty channel");
  } else {
    __CPROVER_assert(r == 1 && g_items_popped == 1 && item.u64 == g_head_item.u64 && g_items == g_items0 - 1, "C06 take: returns the oldest queued value and removes exactly it");
    __CPROVER_assert(g_sched_calls <= 1 && g_rp_pushed == 0, "C06 take: wakes at most one blocked giver");
    __CPROVER_assert(g_sched_calls == 1 || g_wp == 0, "C06 take: a blocked giver is woken whenever a live one is pending");
    REACH("take returns an item");
  }
  __CPROVER_assert(g_items_pushed == 0 && g_wp_pushed == 0, "C06 take: never gives");
  __CPROVER_assert(g_sched_calls == g_live_taken, "C06 take: every live waiter removed from the pending queue is resumed (no lost wake-up)");
}
/* ---- close ---- */
int g_can[3];
int can_resume_stub(JanetFiber *f) { return g_can[f - g_fibers]; }
JanetChannel *getchannel_stub(const Janet *argv, int32_t n) { return &g_ch; }
Janet close_result_stub(JanetChannel *c) { Janet r; r.u64 = 0x9999; return r; }
void fixarity_stub(int32_t argc, int32_t n) { __CPROVER_assume(argc == n); }
void h_close(void) {
  setup(); g_can[0] = nd_int() & 1; g_can[1] = nd_int() & 1; g_can[2] = nd_int() & 1;
  int closed0 = g_ch.closed; Janet argv[1];
  cfun_channel_close(1, argv);
  __CPROVER_assert(g_ch.closed, "C06 close: the channel is closed afterwards");
  if (!closed0) {
    __CPROVER_assert(g_rp == 0 && g_wp == 0, "C06 close: both pending queues are drained (every waiter is examined)");
    REACH("close drains the queues");
  } else __CPROVER_assert(g_sched_calls == 0 && g_rp == g_rp0 && g_wp == g_wp0, "C06 close: closing twice does nothing");
  __CPROVER_assert(g_items == g_items0 && g_items_pushed == 0 && g_items_popped == 0, "C06 close: queued values are kept");
}
