/* C09/C10: integer codec of marsh.c. Contracts on the real static functions. */
#include "prelude.h"

size_t g_len, g_off;
#define B(i) (st->start[g_off + (i)])

/* readint: for EVERY buffer length and cursor offset: returns normally only if a complete encoding is present,
 * consumes exactly it, returns the value denoted by the format (1 byte 0..127; 2 bytes 14-bit sign-extended;
 * 5 bytes 0xCD + big endian). Never reads outside [start,end) (pointer_dereference obligations). */
static int32_t readint_c(UnmarshalState *st, const uint8_t **atdata)
__CPROVER_requires(__CPROVER_is_fresh(st, sizeof(*st)))
__CPROVER_requires(__CPROVER_is_fresh(atdata, sizeof(*atdata)))
__CPROVER_requires(g_len <= 0x7fffffff && g_off <= g_len)
__CPROVER_requires(__CPROVER_is_fresh(st->start, g_len))
__CPROVER_requires(__CPROVER_pointer_equals(st->end, st->start + g_len))
__CPROVER_requires(__CPROVER_pointer_equals(*atdata, st->start + g_off))
__CPROVER_assigns(*atdata)
__CPROVER_ensures(g_off < g_len)
__CPROVER_ensures(B(0) < 128 ==> (*atdata == st->start + g_off + 1 && __CPROVER_return_value == B(0)))
__CPROVER_ensures((B(0) >= 128 && B(0) < 192) ==> (g_off + 1 < g_len && *atdata == st->start + g_off + 2 &&
    __CPROVER_return_value == (int32_t)((((B(0) & 0x3F) << 8) | B(1)) ^ 0x2000) - 0x2000))
__CPROVER_ensures(B(0) >= 192 ==> (B(0) == 205 && g_off + 4 < g_len && *atdata == st->start + g_off + 5 &&
    __CPROVER_return_value == (int32_t)(((uint32_t)B(1) << 24) | ((uint32_t)B(2) << 16) | ((uint32_t)B(3) << 8) | B(4))))
;

void h_readint(void) {
  UnmarshalState *st; const uint8_t **at;
  readint(st, at);
  REACH("normal return of readint");
}

/* read64: never reads outside [start,end) for every buffer length/offset; consumes 1..9 bytes; a complete encoding is present */
static uint64_t read64_c(UnmarshalState *st, const uint8_t **atdata)
__CPROVER_requires(__CPROVER_is_fresh(st, sizeof(*st)))
__CPROVER_requires(__CPROVER_is_fresh(atdata, sizeof(*atdata)))
__CPROVER_requires(g_len <= 0x7fffffff && g_off <= g_len)
__CPROVER_requires(__CPROVER_is_fresh(st->start, g_len))
__CPROVER_requires(__CPROVER_pointer_equals(st->end, st->start + g_len))
__CPROVER_requires(__CPROVER_pointer_equals(*atdata, st->start + g_off))
__CPROVER_assigns(*atdata)
__CPROVER_ensures(g_off < g_len)
__CPROVER_ensures(B(0) <= 0xF0 ==> (*atdata == st->start + g_off + 1 && __CPROVER_return_value == B(0)))
__CPROVER_ensures(B(0) > 0xF0 ==> (B(0) <= 0xF8 && g_off + (B(0) - 0xF0) < g_len && *atdata == st->start + g_off + (B(0) - 0xF0) + 1))
;
void h_read64(void) {
  UnmarshalState *st; const uint8_t **at;
  read64(st, at);
  REACH("normal return of read64");
}
/* readnat: as readint, and the result is never negative */
static int32_t readnat_c(UnmarshalState *st, const uint8_t **atdata)
__CPROVER_requires(__CPROVER_is_fresh(st, sizeof(*st)))
__CPROVER_requires(__CPROVER_is_fresh(atdata, sizeof(*atdata)))
__CPROVER_requires(g_len <= 0x7fffffff && g_off <= g_len)
__CPROVER_requires(__CPROVER_is_fresh(st->start, g_len))
__CPROVER_requires(__CPROVER_pointer_equals(st->end, st->start + g_len))
__CPROVER_requires(__CPROVER_pointer_equals(*atdata, st->start + g_off))
__CPROVER_assigns(*atdata)
__CPROVER_ensures(__CPROVER_return_value >= 0)
__CPROVER_ensures(*atdata > st->start + g_off && *atdata <= st->start + g_len)
;
void h_readnat(void) {
  UnmarshalState *st; const uint8_t **at;
  readnat(st, at);
  REACH("normal return of readnat");
}
