/* C17 (C level): buffer/format and buffer/format-at (buffer.c) - the index decoding and the "never shorter" rule around
 * the formatter. janet_buffer_format (pp.c) is replaced by its frame contract: called with the buffer, the format string
 * of the given slot and the right argument offset; it APPENDS some bytes (count grows by any amount >= 0, raises instead
 * of exceeding INT32_MAX), may reallocate (allocator model of seq_common.h: the byte at the ghost index survives), never
 * touches the bytes below the count it was called with. Getters as in str_buffer_cfun.c; janet_getstring yields the
 * format string and asserts slot index < argc. */
#include "seq_common.h"
JanetBuffer *g_buf;
int32_t g_argc;
const uint8_t *g_fmt;
int g_fmt_calls; int32_t g_fmt_start, g_fmt_at, g_fmt_end, g_fmt_slot;
const Janet *g_argv;
#define SLOT_OK(n) __CPROVER_assert((n) >= 0 && (n) < g_argc, "argument slot index below argc")
#define SLOT_INT(argv, n) ((int32_t)((int64_t)((argv)[n].u64 & 0xFFFFFFFFull) - (((argv)[n].u64 & 0x80000000ull) ? 0x100000000ll : 0ll)))
void janet_fixarity(int32_t argc, int32_t fix) { __CPROVER_assume(argc == fix); }
void janet_arity(int32_t argc, int32_t min, int32_t max) { __CPROVER_assume(argc >= min && (max < 0 || argc <= max)); }
JanetBuffer *janet_getbuffer(const Janet *argv, int32_t n) { SLOT_OK(n); __CPROVER_assert(n == 0, "buffer is slot 0"); return g_buf; }
int32_t janet_getinteger(const Janet *argv, int32_t n) { SLOT_OK(n); return SLOT_INT(argv, n); }
const uint8_t *janet_getstring(const Janet *argv, int32_t n) { SLOT_OK(n); g_fmt_slot = n; return g_fmt; }
void janet_buffer_format(JanetBuffer *b, const char *strfrmt, int32_t argstart, int32_t argc, Janet *argv) {
  __CPROVER_assert(b == g_buf && (const uint8_t *)strfrmt == g_fmt && argc == g_argc && argv == g_argv, "janet_buffer_format: called with the buffer, the format string and the argument vector");
  __CPROVER_assert(b->count >= 0 && b->count <= b->capacity, "janet_buffer_format precondition: 0 <= count <= capacity");
  g_fmt_calls++; g_fmt_start = argstart; g_fmt_at = b->count;
  int32_t add = nd_i32();
  __CPROVER_assume(add >= 0);
  if ((int64_t)b->count + add > INT32_MAX) __CPROVER_assume(0);          /* raises "buffer overflow" */
  if (b->count + add > b->capacity) {
    if (b->gc.flags & JANET_BUFFER_FLAG_NO_REALLOC) __CPROVER_assume(0);   /* raises */
    uint8_t *q = realloc(b->data, (size_t)(b->count + add));
    __CPROVER_assume(q != SEQ_NULL);
    b->data = q; b->capacity = b->count + add;
  }
  if (add > 0) { int32_t j = nd_i32(); __CPROVER_assume(j >= b->count && j < b->count + add); b->data[j] = nd_u8(); }
  b->count += add;
  g_fmt_end = b->count;
}
static Janet *mk_args(void) {
  g_argc = nd_i32();
  __CPROVER_assume(g_argc >= 0);
  Janet *argv = malloc((size_t)g_argc * sizeof(Janet));
  __CPROVER_assume(argv != SEQ_NULL);
  g_argv = argv;
  g_buf = mk_buffer();
  g_fmt = malloc(1);
  __CPROVER_assume(g_fmt != SEQ_NULL);
  return argv;
}
#define GHOST_IN(b) (g_idx >= 0 && g_idx < (b)->count)
#define CF_PRE \
  __CPROVER_requires(argc == g_argc && argc >= 0 && __CPROVER_r_ok(argv, (size_t)argc * JSZ) && g_argv == argv) \
  __CPROVER_requires(WF_BUFFER(g_buf) && __CPROVER_r_ok(g_fmt, 1) && g_fmt_calls == 0) \
  __CPROVER_requires(g_oldcount == g_buf->count && g_oldcap == g_buf->capacity && g_re_called == 0) \
  __CPROVER_requires(GHOST_IN(g_buf) ==> g_buf->data[g_idx] == g_byte)
#define CF_FRAME \
  __CPROVER_assigns(g_buf->data, g_buf->capacity, g_buf->count, g_re_called, __CPROVER_object_whole(g_buf->data), g_fmt_calls, g_fmt_start, g_fmt_at, g_fmt_end, g_fmt_slot) \
  __CPROVER_frees(g_buf->data)
#define RET_ARG0 __CPROVER_ensures(argc >= 1 && __CPROVER_return_value.u64 == argv[0].u64)

/* (buffer/format buffer format & args): arity >= 2; the formatter appends to the buffer, arguments start at slot 2 */
static Janet cfun_buffer_format_c(int32_t argc, Janet *argv)
CF_PRE CF_FRAME RET_ARG0
__CPROVER_ensures(WF_BUFFER(g_buf) && argc >= 2 && g_fmt_calls == 1 && g_fmt_slot == 1 && g_fmt_start == 1 && g_fmt_at == g_oldcount && g_buf->count == g_fmt_end)
__CPROVER_ensures((g_idx >= 0 && g_idx < g_oldcount) ==> g_buf->data[g_idx] == g_byte)
;
void h_buffer_format(void) { Janet *argv = mk_args(); cfun_buffer_format(g_argc, argv); REACH("buffer/format returns");
  if (g_buf->capacity != g_oldcap) REACH("buffer/format returns after growing"); }

/* (buffer/format-at buffer at format & args): at in [0, len] or negative from the end (-1 = at the end), else raises;
 * the formatter writes from index at on; the buffer never gets shorter: length = max(old length, end of the formatted
 * text); bytes before at and old bytes behind the formatted text are unchanged; returns buffer */
#define FA_AT(argv) (SLOT_INT(argv, 1) < 0 ? (int64_t)SLOT_INT(argv, 1) + g_oldcount + 1 : (int64_t)SLOT_INT(argv, 1))
static Janet cfun_buffer_format_at_c(int32_t argc, Janet *argv)
CF_PRE
#ifndef LIB_FORMAT_AT_ANY_ARGC
/* domain restriction: the arity check accepts 2 arguments but the format string is fetched from slot 2 (unit
 * lib.buffer.format_at.argc2 keeps the failing obligation) */
__CPROVER_requires(argc >= 3)
#endif
/* domain restriction (as janet_gethalfrange): `buffer->count + 1` overflows for a buffer of exactly INT32_MAX bytes */
__CPROVER_requires(g_buf->count < INT32_MAX)
CF_FRAME RET_ARG0
__CPROVER_ensures(WF_BUFFER(g_buf) && argc >= 3 && FA_AT(argv) >= 0 && FA_AT(argv) <= g_oldcount)
__CPROVER_ensures(g_fmt_calls == 1 && g_fmt_slot == 2 && g_fmt_start == 2 && g_fmt_at == FA_AT(argv))
__CPROVER_ensures(g_buf->count == (g_fmt_end > g_oldcount ? g_fmt_end : g_oldcount))
__CPROVER_ensures((g_idx >= 0 && g_idx < FA_AT(argv)) ==> g_buf->data[g_idx] == g_byte)
__CPROVER_ensures((g_idx >= g_fmt_end && g_idx < g_oldcount) ==> g_buf->data[g_idx] == g_byte)
;
void h_buffer_format_at(void) { Janet *argv = mk_args(); cfun_buffer_format_at(g_argc, argv); REACH("buffer/format-at returns");
  if (SLOT_INT(argv, 1) < -1 && g_fmt_end < g_oldcount) REACH("buffer/format-at returns after overwriting inside the buffer at an end-relative index");
  if (g_fmt_end > g_oldcount && g_buf->capacity != g_oldcap) REACH("buffer/format-at returns after growing"); }
