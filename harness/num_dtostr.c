/* C13 / C11: number -> text for %j / jdn output (janet_buffer_dtostr, strtod.c). "Every double prints to text that parses
 * back to the same double": the 17-significant-digit rendering must reach the buffer COMPLETE. Contract of the snprintf
 * call: "%.17g" of a double is at most 24 characters (sign, digit, point, 16 digits, e, sign, 3 exponent digits), so the
 * size given must be at least 25 (24 + NUL) - otherwise snprintf truncates but still returns the untruncated length - and
 * the destination range must lie inside the room janet_buffer_extra was asked for. Afterwards the buffer has grown by
 * exactly the characters printed, a locale comma is turned into a point, nothing before the old count is touched. */
#include "prelude.h"
#include <stdarg.h>
#define DT_BLOCK 96
static JanetBuffer dt_buf; static uint8_t dt_block[DT_BLOCK];
static int32_t dt_extra_n; static int dt_printed; static uint8_t dt_text[24]; static int32_t dt_count0;
void dt_buffer_extra_stub(JanetBuffer *b, int32_t n) {
  __CPROVER_assert(b == &dt_buf && n >= 0, "num.dtostr: room requested in the output buffer");
  dt_extra_n = n;
  __CPROVER_assume((int64_t) b->count + n <= DT_BLOCK);         /* harness bound: the block is large enough */
  if (b->count + n > b->capacity) b->capacity = b->count + n;
}
int dt_snprintf_stub(char *dst, size_t size, const char *fmt, ...) {
  __CPROVER_assert(fmt[0] == '%' && fmt[1] == '.' && fmt[2] == '1' && fmt[3] == '7' && fmt[4] == 'g' && fmt[5] == 0, "num.dtostr: numbers are printed with 17 significant digits (round-trip precision)");
  __CPROVER_assert((uint8_t *) dst == dt_buf.data + dt_count0, "num.dtostr: the text is placed directly after the existing contents");
  __CPROVER_assert(size >= 25, "num.dtostr: the size given to snprintf admits the longest %.17g rendering (24 characters + NUL), so nothing is truncated");
  __CPROVER_assert((int64_t) size <= (int64_t) dt_extra_n && dt_count0 + (int64_t) size <= dt_buf.capacity, "num.dtostr: the range given to snprintf lies inside the room that was requested");
  int r = nd_int();
  __CPROVER_assume(r >= 1 && r <= 24);                          /* contract of snprintf("%.17g", double) */
  for (int i = 0; i < 24; i++) if (i < r) { uint8_t ch = nd_u8(); __CPROVER_assume(ch != 0); dt_text[i] = ch; if ((size_t) i + 1 < size) dst[i] = (char) ch; }
  if ((size_t) r < size) dst[r] = 0; else if (size > 0) dst[size - 1] = 0;
  dt_printed = r;
  return r;
}
void h_dtostr(void) {
  dt_buf.data = dt_block; dt_buf.count = nd_int() ? 0 : 5; dt_buf.capacity = nd_i32(); dt_buf.gc.flags = 0;   /* empty buffer or 5 earlier bytes (constant offsets keep the solver fast) */
  __CPROVER_assume(dt_buf.count <= dt_buf.capacity && dt_buf.capacity <= DT_BLOCK);
  dt_count0 = dt_buf.count;
  uint8_t before = 0; int32_t gi = nd_i32();
  if (gi >= 0 && gi < dt_count0) before = dt_block[gi];
  janet_buffer_dtostr(&dt_buf, nd_double());
  __CPROVER_assert(dt_buf.count == dt_count0 + dt_printed, "num.dtostr: the buffer grows by exactly the characters printed");
  int k = nd_int();
  __CPROVER_assume(k >= 0 && k < dt_printed);
  __CPROVER_assert(dt_block[dt_count0 + k] == (dt_text[k] == ',' ? '.' : dt_text[k]), "num.dtostr: every printed character reaches the buffer unchanged (a locale comma becomes a point) - none lost");
  if (gi >= 0 && gi < dt_count0) __CPROVER_assert(dt_block[gi] == before, "num.dtostr: earlier contents are untouched");
  if (dt_printed == 24) REACH("dtostr: longest rendering");
  REACH("dtostr returns");
}
