/* C04 (sequence part) / C17 (C level): shared predicates, ghosts and assumed libc contracts for the
 * resizable-sequence units (array.c, buffer.c, capi.c index decoding).
 *
 * Representation invariants (derived from the constructors janet_array/janet_array_n/janet_buffer_init_impl/
 * janet_pointer_buffer_unsafe, array/trim, buffer/trim and every mutator below, which re-establish them):
 *   wf_array : 0 <= count <= capacity, and capacity > 0 ==> data is a heap block of capacity Janets;
 *              capacity == 0 ==> data == NULL (janet_array(0), array/trim of an empty array)
 *   wf_buffer: 0 <= count <= capacity, capacity >= 1, data is a block of capacity bytes
 *              (every constructor allocates >= 4 bytes; buffer/trim keeps >= 4)
 * The element type is the 8-byte nanboxed Janet; elements are compared through .u64 (bit identity). */
#ifndef VC_SEQ_COMMON_H
#define VC_SEQ_COMMON_H
#include "prelude.h"

#define SEQ_NULL ((void *)0)
#define JSZ ((size_t)8)                      /* sizeof(Janet), checked by seq_static_checks */
typedef char seq_static_check_janet_is_8[sizeof(Janet) == 8 ? 1 : -1];

/* requires-side (is_fresh) and ensures-side (rw_ok; the block may be the one seen at entry) forms */
#define WF_ARRAY_NUM(a) ((a)->count >= 0 && (a)->count <= (a)->capacity)
#define WF_ARRAY_REQ(a) (WF_ARRAY_NUM(a) && \
    (((a)->capacity == 0 && (a)->data == SEQ_NULL) || \
     ((a)->capacity > 0 && __CPROVER_is_fresh((a)->data, (size_t)(a)->capacity * JSZ))))
#define WF_ARRAY_ENS(a) (WF_ARRAY_NUM(a) && \
    (((a)->capacity == 0 && (a)->data == SEQ_NULL) || \
     ((a)->capacity > 0 && __CPROVER_rw_ok((a)->data, (size_t)(a)->capacity * JSZ))))

#define WF_BUFFER_NUM(b) ((b)->count >= 0 && (b)->count <= (b)->capacity && (b)->capacity >= 1)
#define WF_BUFFER_REQ(b) (WF_BUFFER_NUM(b) && __CPROVER_is_fresh((b)->data, (size_t)(b)->capacity))
#define WF_BUFFER_ENS(b) (WF_BUFFER_NUM(b) && __CPROVER_rw_ok((b)->data, (size_t)(b)->capacity))

/* ghost element: index g_idx (unconstrained by the harness => universally quantified, rule R2) and the value
 * g_val / g_byte the sequence holds there at entry (fixed by a requires of the function under proof) */
int32_t g_idx;
uint64_t g_val;
uint8_t g_byte;
/* ghosts for pre-state scalars (rule: __CPROVER_old only on plain scalars; these are used where the old value
 * is needed inside a callee contract) */
int32_t g_oldcount, g_oldcap;

/* ---- assumed libc contracts (rule R10) --------------------------------------------------------------------
 * realloc: p is NULL or a freeable heap block; result NULL or a fresh block of n bytes; the old block may have
 * been freed. Content: the 8-byte element at ghost index g_idx (resp. the byte at g_idx) that the CALLER can
 * show to be readable in the old block with value g_val (resp. g_byte) is in the new block if it fits. The
 * caller-side facts are REQUIRES of the contract, i.e. proved at the call site, not assumed. */
int g_re_elem;   /* 1: the unit tracks the ghost Janet element through realloc; 2: ghost byte; 0: nothing */
void *realloc_c(void *p, size_t n)
__CPROVER_requires(p == SEQ_NULL || __CPROVER_is_freeable(p))
__CPROVER_requires((g_re_elem == 1 && p != SEQ_NULL) ==> (g_idx >= 0 && __CPROVER_r_ok(p, ((size_t)g_idx + 1) * JSZ) && ((uint64_t *)p)[g_idx] == g_val))
__CPROVER_requires((g_re_elem == 2 && p != SEQ_NULL) ==> (g_idx >= 0 && __CPROVER_r_ok(p, (size_t)g_idx + 1) && ((uint8_t *)p)[g_idx] == g_byte))
__CPROVER_assigns()
__CPROVER_frees(p)
__CPROVER_ensures(__CPROVER_return_value == SEQ_NULL || __CPROVER_is_fresh(__CPROVER_return_value, n))
__CPROVER_ensures((g_re_elem == 1 && g_idx >= 0 && p != SEQ_NULL && __CPROVER_return_value != SEQ_NULL && ((size_t)g_idx + 1) * JSZ <= n) ==>
                  ((uint64_t *)__CPROVER_return_value)[g_idx] == g_val)
__CPROVER_ensures((g_re_elem == 2 && g_idx >= 0 && p != SEQ_NULL && __CPROVER_return_value != SEQ_NULL && (size_t)g_idx + 1 <= n) ==>
                  ((uint8_t *)__CPROVER_return_value)[g_idx] == g_byte)
;

/* memcpy / memmove / memset: safety contract (every call site must show both ranges valid; memcpy additionally
 * that they do not overlap) + the ghost element: the destination element at ghost offset g_mm (in units of
 * g_mm_sz bytes, 8 or 1) receives the source element that was there BEFORE the call. */
#endif
