/* C04 (sequence part) / C17 (C level): shared predicates, ghosts and the assumed allocator model for the
 * resizable-sequence units (array.c, buffer.c, capi.c index decoding).
 *
 * Representation invariants (derived from the constructors janet_array/janet_array_n/janet_buffer_init_impl/
 * janet_pointer_buffer_unsafe, array/trim, buffer/trim and every mutator below, which re-establish them):
 *   wf_array : 0 <= count <= capacity; capacity > 0 ==> data is a heap block of capacity Janets;
 *              capacity == 0 ==> data == NULL (janet_array(0), array/trim of an empty array)
 *   wf_buffer: 0 <= count <= capacity, capacity >= 1, data is a heap block of capacity bytes
 *              (every constructor allocates >= 4 bytes; buffer/trim keeps >= 4)
 * Input objects are built by the harness (mk_array / mk_buffer: ANY object satisfying the invariant, all sizes
 * up to INT32_MAX) with a typed malloc - CBMC then addresses the block element-wise, which is what makes the
 * unbounded ghost-index proofs cheap (probed: 0.6 s instead of 40 s for is_fresh byte blocks).
 * The element type is the 8-byte nanboxed Janet; elements are compared through .u64 (bit identity). */
#ifndef VC_SEQ_COMMON_H
#define VC_SEQ_COMMON_H
#include "prelude.h"
#include <stdlib.h>

#define SEQ_NULL ((void *)0)
#define JSZ ((size_t)8)
typedef char seq_static_check_janet_is_8[sizeof(Janet) == 8 ? 1 : -1];
#define NIL_BITS 0xFFF8800000000001ULL      /* janet_wrap_nil().u64; asserted by SEQ_CHECK_NIL() in the harnesses that use it */
#define SEQ_CHECK_NIL() __CPROVER_assert(janet_wrap_nil().u64 == NIL_BITS, "nil bit pattern used in the contracts")

#define WF_ARRAY_NUM(a) ((a)->count >= 0 && (a)->count <= (a)->capacity)
#define WF_ARRAY(a) (WF_ARRAY_NUM(a) && \
    (((a)->capacity == 0 && (a)->data == SEQ_NULL) || \
     ((a)->capacity > 0 && __CPROVER_rw_ok((a)->data, (size_t)(a)->capacity * JSZ))))
#define A_ELEM(a, i) ((a)->data[i].u64)

#define WF_BUFFER_NUM(b) ((b)->count >= 0 && (b)->count <= (b)->capacity && (b)->capacity >= 1)
#define WF_BUFFER(b) (WF_BUFFER_NUM(b) && __CPROVER_rw_ok((b)->data, (size_t)(b)->capacity))

/* ghost element: index g_idx (left unconstrained by the harness => universally quantified, rule R2) and the value
 * g_val / g_byte the sequence holds there at entry (fixed by a requires of the function under proof);
 * g_oldcount/g_oldcap: pre-state scalars (fixed by requires) */
int32_t g_idx;
uint64_t g_val;
uint8_t g_byte;
int32_t g_oldcount, g_oldcap;

/* ---- assumed allocator model (rule R10) -------------------------------------------------------------------
 * realloc(p, n): p must be NULL or a live heap block (checked by free's own preconditions); may fail (NULL, old
 * block untouched); otherwise returns a NEW block of n bytes, frees the old one, and the new block holds the
 * old content at the ghost index g_idx if that element lies inside both blocks. All other content of the new
 * block is arbitrary - so only facts about the ghost element can be proved, which is all the contracts state. */
#ifdef SEQ_ELEM_BYTES
typedef uint8_t seq_elem_t;
#else
typedef Janet seq_elem_t;
#endif
int g_re_called;      /* set by the realloc model; units that claim "never reallocates" name it in assigns/ensures */
void *realloc(void *p, size_t n) {
  size_t k = n / sizeof(seq_elem_t);
#ifdef SEQ_TRACK_REALLOC
  g_re_called = 1;
#endif
  __CPROVER_assert(k * sizeof(seq_elem_t) == n, "realloc model: size is a multiple of the element size");
  if (nd_int()) return SEQ_NULL;
  seq_elem_t *q = malloc(k * sizeof(seq_elem_t));
  if (q == SEQ_NULL) return SEQ_NULL;
  if (p != SEQ_NULL) {
    if (g_idx >= 0 && ((size_t)g_idx + 1) * sizeof(seq_elem_t) <= __CPROVER_OBJECT_SIZE(p) && (size_t)g_idx < k)
      q[g_idx] = ((seq_elem_t *)p)[g_idx];
    free(p);
  }
  return q;
}

/* any well-formed array, any size */
static JanetArray *mk_array(void) {
  JanetArray *a = malloc(sizeof(JanetArray));
  __CPROVER_assume(a != SEQ_NULL);
  __CPROVER_assume(WF_ARRAY_NUM(a));
  if (a->capacity > 0) {
    a->data = malloc((size_t)a->capacity * sizeof(Janet));
    __CPROVER_assume(a->data != SEQ_NULL);
  } else {
    a->data = SEQ_NULL;
  }
  return a;
}
/* any well-formed buffer, any size */
static JanetBuffer *mk_buffer(void) {
  JanetBuffer *b = malloc(sizeof(JanetBuffer));
  __CPROVER_assume(b != SEQ_NULL);
  __CPROVER_assume(WF_BUFFER_NUM(b));
  b->data = malloc((size_t)b->capacity * sizeof(uint8_t));
  __CPROVER_assume(b->data != SEQ_NULL);
  return b;
}

/* ---- assumed bulk-copy models (rule R10) ------------------------------------------------------------------
 * memcpy/memmove/memset of symbolic size: the call site must show both ranges valid for n bytes (memcpy: and
 * disjoint) - these are counted obligations ("memcpy model: ..."). n == 0 is a no-op with no requirement on the
 * pointers (ISO C formally wants valid pointers even then; array/remove on an array without a block calls
 * memmove(NULL, NULL, 0), harmless on every libc and therefore not counted).
 * Effect, POINTWISE model: the element at ghost offset g_mm (unconstrained => any offset) receives the value the
 * source had there BEFORE the call (memset: the fill byte), and ONE other arbitrary element of the destination
 * range becomes arbitrary. Because g_mm and that element are chosen nondeterministically, every postcondition that
 * speaks about a single element of the destination range is decided exactly as under the full copy: for the
 * matching g_mm it sees the copied value, and any claim that does not follow from the copy is refuted by the run
 * that makes that element arbitrary. (The contracts only make single-element claims; nothing in the functions under
 * proof reads the copied range afterwards. A whole-range havoc was probed first: correct but its symbolic-size
 * nondet arrays made solving and trace building take minutes.) */
size_t g_mm;
static void seq_copy_model(void *d, const void *s, size_t n) {
  size_t k = n / sizeof(seq_elem_t);
  __CPROVER_assert(k * sizeof(seq_elem_t) == n, "copy model: size is a multiple of the element size");
  seq_elem_t v, w;           /* w: arbitrary */
  size_t j = nd_size();
  if (g_mm < k) v = ((const seq_elem_t *)s)[g_mm];
  if (j < k) ((seq_elem_t *)d)[j] = w;
  if (g_mm < k) ((seq_elem_t *)d)[g_mm] = v;
}
void *memmove(void *d, const void *s, size_t n) {
  __CPROVER_assert(n == 0 || __CPROVER_r_ok(s, n), "memmove model: source range readable");
  __CPROVER_assert(n == 0 || __CPROVER_w_ok(d, n), "memmove model: destination range writable");
  if (n > 0) seq_copy_model(d, s, n);
  return d;
}
void *memcpy(void *d, const void *s, size_t n) {
  __CPROVER_assert(n == 0 || __CPROVER_r_ok(s, n), "memcpy model: source range readable");
  __CPROVER_assert(n == 0 || __CPROVER_w_ok(d, n), "memcpy model: destination range writable");
  __CPROVER_assert(n == 0 || !__CPROVER_same_object(d, s) ||
                   __CPROVER_POINTER_OFFSET(d) + n <= __CPROVER_POINTER_OFFSET(s) ||
                   __CPROVER_POINTER_OFFSET(s) + n <= __CPROVER_POINTER_OFFSET(d), "memcpy model: ranges do not overlap");
  if (n > 0) seq_copy_model(d, s, n);
  return d;
}
void *memset(void *d, int c, size_t n) {
  __CPROVER_assert(n == 0 || __CPROVER_w_ok(d, n), "memset model: destination range writable");
  if (n > 0) {
    size_t j = nd_size(); uint8_t w;   /* arbitrary */
    if (j < n) ((uint8_t *)d)[j] = w;
    if (g_mm < n) ((uint8_t *)d)[g_mm] = (uint8_t)(c & 0xFF);
  }
  return d;
}
#endif
