/* C09 "disasm followed by asm reproduces a function with the same bytecode, constants, arity and nested definitions":
 * the REAL janet_disasm on a symbolic definition, its output handed to the REAL janet_asm1, fields compared.
 *
 * Definition: 1..DD_MAX instruction words, 0..DD_MAX constants (arbitrary values), 0..DD_MAX environments, 0..DD_MAX nested
 * definitions, source map present or not, symbol map present or not (0..DD_MAX entries), name / source present or not,
 * 0 <= min_arity <= arity <= max_arity, any flags, any slotcount.
 * Instructions go through the contract pair proved by the asm.codec.* units: janet_asm_decode_instruction(w) yields a tuple that
 * read_instruction maps back to w (breakpoint flag cleared).  Nested definitions go through the contract proved here: disasm of
 * a nested definition is an opaque description, asm1 of that description is an equal definition (represented by the same
 * object).  Tables, arrays, tuples, keywords are recording stubs with exact block sizes; janet_indexed_view, janet_checkint,
 * janet_def_addflags, janet_wrap_* are the real functions.  janet_verify accepts (the result has equal fields; the slot count is
 * recomputed by the assembler from the operands: asm.codec.enc.*). */
#include "prelude.h"
#include <stdlib.h>

#ifndef DD_MAX
#define DD_MAX 2
#endif

enum { K_NAME, K_ARITY, K_MAXARITY, K_MINARITY, K_VARARG, K_STRUCTARG, K_SOURCE, K_SLOTS, K_CONSTANTS, K_CLOSURES, K_DEFS,
       K_BYTECODE, K_SOURCEMAP, K_SYMBOLMAP, K_ENVIRONMENTS, K_SLOTCOUNT, K_N };
static const char *const dd_keyname[K_N] = {"name", "arity", "max-arity", "min-arity", "vararg", "structarg", "source", "slots", "constants",
                                            "closures", "defs", "bytecode", "sourcemap", "symbolmap", "environments", "slotcount"};
static int dd_streq(const char *a, const char *b) {
    int i = 0;
    while (a[i] && a[i] == b[i]) i++;
    return a[i] == b[i];
}
static int dd_keyindex(Janet key) {
    __CPROVER_assert(key.type == JANET_KEYWORD, "roundtrip: fields are keyed by keywords");
    const char *s = (const char *) key.as.pointer;
    for (int k = 0; k < K_N; k++) if (dd_streq(s, dd_keyname[k])) return k;
    __CPROVER_assert(0, "roundtrip: only the documented fields are written and read");
    return 0;
}
static Janet dd_nil(void) { Janet n; n.type = JANET_NIL; n.as.u64 = 0; return n; }

/* ---------------- the definition ---------------- */
static JanetFuncDef dd_def, dd_sub[DD_MAX];
static uint32_t dd_bc[DD_MAX];
static Janet dd_consts[DD_MAX];
static int32_t dd_envs[DD_MAX];
static JanetFuncDef *dd_defs[DD_MAX];
static JanetSourceMapping dd_sm[DD_MAX];
static JanetSymbolMap dd_sym[DD_MAX];
static uint8_t dd_strname[8], dd_strsource[8], dd_symtext[8], dd_structobj[8];

/* ---------------- disassembly table, arrays, tuples ---------------- */
static JanetTable dd_table;
static Janet dd_field[K_N];
static int dd_has[K_N];
JanetTable *dd_table_stub(int32_t cap) { return &dd_table; }
void dd_table_put_stub(JanetTable *t, Janet key, Janet value) {
    if (t != &dd_table) return;                /* a name table of the assembler: discipline proved in asm.asm1.* */
    int k = dd_keyindex(key);
    __CPROVER_assert(!dd_has[k], "roundtrip: every field is written once");
    dd_has[k] = 1;
    dd_field[k] = value;
}
const JanetKV *dd_table_to_struct_stub(JanetTable *t) {
    __CPROVER_assert(t == &dd_table, "roundtrip: the disassembly table becomes the result");
    return (const JanetKV *) dd_structobj;
}
Janet dd_struct_get_stub(const JanetKV *st, Janet key) {
    int k = dd_keyindex(key);
    if ((const void *) st == (const void *) dd_structobj) return dd_has[k] ? dd_field[k] : dd_nil();
    /* description of a nested definition: the parent only asks for its name */
    __CPROVER_assert(k == K_NAME, "roundtrip: only the name of a nested description is read by the parent");
    return dd_nil();
}
Janet dd_table_get_stub(JanetTable *t, Janet key) { __CPROVER_assert(0, "roundtrip: no name is looked up (instructions are numeric)"); return dd_nil(); }
JanetTable *dd_table_init_stub(JanetTable *t, int32_t cap) { return t; }
void dd_table_deinit_stub(JanetTable *t) {}
JanetArray *dd_array_stub(int32_t cap) {
    JanetArray *a = malloc(sizeof(JanetArray));
    __CPROVER_assert(cap >= 0 && cap <= DD_MAX, "roundtrip: arrays are as long as the definition's lists");
    a->count = 0;
    a->capacity = cap;
    if (cap == 0) a->data = malloc(1);                  /* any element access is out of bounds */
    else if (cap == 1) a->data = malloc(sizeof(Janet));
    else a->data = malloc(2 * sizeof(Janet));
    return a;
}
#define DD_TUP(n) struct dd_tup##n { JanetGCObject gc; int32_t length; int32_t hash; int32_t sm_line; int32_t sm_column; Janet data[n]; }
DD_TUP(1); DD_TUP(2); DD_TUP(4);
#define DD_NEW(n) { struct dd_tup##n *h = malloc(sizeof(struct dd_tup##n)); h->gc.flags = 0; h->length = n; h->hash = 0; h->sm_line = -1; h->sm_column = -1; return h->data; }
Janet *dd_tuple_begin_stub(int32_t length) {
    __CPROVER_assert(length == 2 || length == 4, "roundtrip: source map entries are pairs, symbol map entries quadruples");
    if (length == 2) DD_NEW(2)
    DD_NEW(4)
}
static Janet *dd_tuple1(void) DD_NEW(1)
const Janet *dd_tuple_end_stub(Janet *t) { return t; }
const uint8_t *dd_csymbol_stub(const char *s) { return (const uint8_t *) s; }
int dd_keyeq_stub(Janet x, const char *cstring) { return x.type == JANET_KEYWORD && dd_streq((const char *) x.as.pointer, cstring); }
const uint8_t *dd_to_string_stub(Janet x) {
    __CPROVER_assert(x.type == JANET_STRING, "roundtrip: the name handed back is the string the disassembler printed");
    return (const uint8_t *) x.as.pointer;
}
void *dd_gcalloc_stub(enum JanetMemoryType type, size_t size) { return malloc(size); }

/* ---------------- instruction codec contract (asm.codec.*) ---------------- */
static int dd_ndecoded;
static uint32_t dd_word[DD_MAX];
static const Janet *dd_instr[DD_MAX];
Janet dd_decode_stub(uint32_t w) {
    Janet x;
    __CPROVER_assert(dd_ndecoded < DD_MAX, "roundtrip: one tuple per instruction");
    Janet *t = dd_tuple1();
    t[0].type = JANET_SYMBOL;
    t[0].as.pointer = (void *) dd_symtext;
    if (dd_ndecoded < DD_MAX) { dd_word[dd_ndecoded] = w; dd_instr[dd_ndecoded] = t; dd_ndecoded++; }
    x.type = JANET_TUPLE;
    x.as.pointer = t;
    return x;
}
uint32_t dd_read_stub(JanetAssembler *a, const JanetInstructionDef *idef, const Janet *argt) {
    for (int i = 0; i < DD_MAX; i++)
        if (i < dd_ndecoded && dd_instr[i] == argt) return dd_word[i] & ~0x80u;
    __CPROVER_assert(0, "roundtrip: only tuples printed by the disassembler are assembled");
    return 0;
}
const void *dd_strbinsearch_stub(const void *tab, size_t tabcount, size_t itemsize, const uint8_t *key) { return (const void *) &janet_ops[0]; }
int dd_verify_stub(JanetFuncDef *def) { return 0; }
int dd_setjmp_stub(struct __jmp_buf_tag *env) { return 0; }
void dd_longjmp_stub(JanetAssembler *a) {
    __CPROVER_assert(0, "roundtrip: the assembler accepts the disassembly of a function");
    __CPROVER_assume(0);
}
/* ---------------- nested definitions (induction) ---------------- */
Janet dd_disasm_stub(JanetFuncDef *def) {
    Janet x;
    __CPROVER_assert(def == &dd_sub[0] || def == &dd_sub[DD_MAX - 1], "roundtrip: exactly the nested definitions are disassembled");
    x.type = JANET_STRUCT;
    x.as.pointer = (void *) def;
    return x;
}
JanetAssembleResult dd_asm1_stub(JanetAssembler *parent, Janet source, int flags) {
    JanetAssembleResult r;
    __CPROVER_assert(source.type == JANET_STRUCT && (source.as.pointer == (void *) &dd_sub[0] || source.as.pointer == (void *) &dd_sub[DD_MAX - 1]),
                     "roundtrip: nested descriptions are the ones printed for the nested definitions");
    r.funcdef = (JanetFuncDef *) source.as.pointer;
    r.error = (const uint8_t *) 0;
    r.status = JANET_ASSEMBLE_OK;
    return r;
}
Janet janet_disasm__entry(JanetFuncDef *def);
JanetAssembleResult janet_asm1__entry(JanetAssembler *parent, Janet source, int flags);

static Janet dd_any(void) {
    Janet x;
    int ty = nd_int();
    __CPROVER_assume(ty >= JANET_NUMBER && ty <= JANET_POINTER);
    x.type = (JanetType) ty;
    x.as.u64 = nd_u64();
    return x;
}

void h_roundtrip(void) {
    JanetFuncDef *d = &dd_def;
    int32_t n = nd_i32(), c = nd_i32(), e = nd_i32(), nd = nd_i32(), s = nd_i32();
    __CPROVER_assume(n >= 1 && n <= DD_MAX && c >= 0 && c <= DD_MAX && e >= 0 && e <= DD_MAX && nd >= 0 && nd <= DD_MAX && s >= 0 && s <= DD_MAX);
#ifdef DD_FIX
    /* all lists of the same, constant length (block sizes become constants: minutes -> seconds); bytecode has at least one word */
    n = DD_FIX > 0 ? DD_FIX : 1; c = DD_FIX; e = DD_FIX; nd = DD_FIX; s = DD_FIX;
#endif
    for (int i = 0; i < DD_MAX; i++) {
        dd_bc[i] = nd_u32() & ~0x80u;                  /* no breakpoint set: debugger state, not part of the function */
        dd_consts[i] = dd_any();
        dd_envs[i] = nd_i32();
        dd_defs[i] = &dd_sub[i];
        dd_sm[i].line = nd_i32();
        dd_sm[i].column = nd_i32();
        dd_sym[i].birth_pc = nd_u32();
        dd_sym[i].death_pc = nd_u32();
        dd_sym[i].slot_index = nd_u32();
        dd_sym[i].symbol = dd_symtext;
    }
    d->bytecode = dd_bc; d->bytecode_length = n;
    d->constants = c ? dd_consts : (Janet *) 0; d->constants_length = c;
    d->environments = e ? dd_envs : (int32_t *) 0; d->environments_length = e;
    d->defs = nd ? dd_defs : (JanetFuncDef **) 0; d->defs_length = nd;
    d->sourcemap = nd_int() ? dd_sm : (JanetSourceMapping *) 0;
    int hassym = nd_int();
    d->symbolmap = hassym ? dd_sym : (JanetSymbolMap *) 0; d->symbolmap_length = hassym ? s : 0;
    d->name = nd_int() ? dd_strname : (const uint8_t *) 0;
    d->source = nd_int() ? dd_strsource : (const uint8_t *) 0;
    d->closure_bitset = (uint32_t *) 0;
    d->flags = nd_i32();
    d->slotcount = nd_i32();
    d->arity = nd_i32(); d->min_arity = nd_i32(); d->max_arity = nd_i32();
    __CPROVER_assume(0 <= d->min_arity && d->min_arity <= d->arity && d->arity <= d->max_arity);     /* what the compiler and the assembler produce */
    __CPROVER_assume(d->arity < 2147483647);

    Janet dis = janet_disasm__entry(d);
    __CPROVER_assert(dis.type == JANET_STRUCT && dis.as.pointer == (void *) dd_structobj, "roundtrip: disasm returns the struct made from its table");
    REACH("janet_disasm returns");
    JanetAssembleResult res = janet_asm1__entry((JanetAssembler *) 0, dis, 0);
    __CPROVER_assert(res.status == JANET_ASSEMBLE_OK && res.funcdef != (void *) 0, "roundtrip: the assembler accepts the disassembly of a function");
    JanetFuncDef *r = res.funcdef;
    __CPROVER_assert(r->arity == d->arity && r->min_arity == d->min_arity && r->max_arity == d->max_arity, "roundtrip: same arity, min-arity, max-arity");
    __CPROVER_assert(((r->flags ^ d->flags) & (JANET_FUNCDEF_FLAG_VARARG | JANET_FUNCDEF_FLAG_STRUCTARG)) == 0, "roundtrip: same vararg / structarg flags");
    __CPROVER_assert(r->bytecode_length == n, "roundtrip: same number of instructions");
    for (int i = 0; i < DD_MAX; i++) if (i < n) __CPROVER_assert(r->bytecode[i] == d->bytecode[i], "roundtrip: same instruction words");
    __CPROVER_assert(r->constants_length == c, "roundtrip: same number of constants");
    for (int i = 0; i < DD_MAX; i++) if (i < c) __CPROVER_assert(r->constants[i].type == d->constants[i].type && r->constants[i].as.u64 == d->constants[i].as.u64, "roundtrip: identical constants");
    __CPROVER_assert(r->defs_length == nd, "roundtrip: same number of nested definitions");
    for (int i = 0; i < DD_MAX; i++) if (i < nd) __CPROVER_assert(r->defs[i] == d->defs[i], "roundtrip: nested definitions in the same order");
    __CPROVER_assert(r->environments_length == e, "roundtrip: same number of environments");
    for (int i = 0; i < DD_MAX; i++) if (i < e) __CPROVER_assert(r->environments[i] == d->environments[i], "roundtrip: same environment references");
    __CPROVER_assert((r->sourcemap != (void *) 0) == (d->sourcemap != (void *) 0), "roundtrip: a source map exactly when the original has one");
    if (d->sourcemap) for (int i = 0; i < DD_MAX; i++) if (i < n)
        __CPROVER_assert(r->sourcemap[i].line == d->sourcemap[i].line && r->sourcemap[i].column == d->sourcemap[i].column, "roundtrip: same source map entries");
    __CPROVER_assert(r->symbolmap_length == d->symbolmap_length, "roundtrip: same number of symbol map entries");
    for (int i = 0; i < DD_MAX; i++) if (i < d->symbolmap_length)
        __CPROVER_assert(r->symbolmap[i].birth_pc == d->symbolmap[i].birth_pc && r->symbolmap[i].death_pc == d->symbolmap[i].death_pc &&
                         r->symbolmap[i].slot_index == d->symbolmap[i].slot_index && r->symbolmap[i].symbol == d->symbolmap[i].symbol, "roundtrip: same symbol map entries");
    __CPROVER_assert(r->name == d->name && r->source == d->source, "roundtrip: same name and source");
    __CPROVER_assert((int64_t) r->slotcount >= (int64_t) d->arity + ((d->flags & JANET_FUNCDEF_FLAG_VARARG) ? 1 : 0), "roundtrip: slotcount covers the parameters");
#ifdef DD_SLOTCOUNT
    __CPROVER_assert(r->slotcount == d->slotcount, "roundtrip: same slotcount");
#endif
    REACH("janet_asm1 returns the reassembled definition");
}
