/* C13: 64-bit integer text - the exact accept/reject boundary, end to end on the REAL scan_uint64 + janet_scan_int64 /
 * janet_scan_uint64 (no callee replaced), for the radices whose arithmetic the solver cannot carry symbolically over a
 * whole literal (DESIGN R5: multiplication/division by a non power of two).
 *
 * BOUNDED stand-in: the text is a CONCRETE head (the leading digits of the limit, -DNUM_HEAD="...", optionally with sign
 * and radix prefix) followed by up to NUM_TAIL ARBITRARY bytes (digits, separators, garbage). So every literal in a
 * neighbourhood of 10^NUM_TAIL values around 2^63 resp. 2^64 is covered - in particular limit-1, limit, limit+1 and
 * texts one digit too long. The denoted value is computed independently in 128-bit arithmetic (Horner, own digit
 * function, no guard); acceptance must be exactly "well formed and in range", the stored integer exactly the denoted one.
 * Buffer = heap object of exactly len bytes (reads outside the text fail pointer_dereference).
 *
 * -DNUM_B radix, -DNUM_PL prefix length inside the head (after the sign).
 */
#include "prelude.h"

#ifndef NUM_TAIL
#define NUM_TAIL 4
#endif
#ifndef NUM_B
#define NUM_B 10
#endif
#ifndef NUM_PL
#define NUM_PL 0
#endif
#ifndef NUM_HEAD
#define NUM_HEAD "1844674407370955"
#endif

static const char num_head[] = NUM_HEAD;
#define NUM_HL ((int32_t)sizeof(num_head) - 1)

static int spec_digit(uint8_t c) {
  if (c >= '0' && c <= '9') return c - '0';
  if (c >= 'a' && c <= 'z') return c - 'a' + 10;
  if (c >= 'A' && c <= 'Z') return c - 'A' + 10;
  return -1;
}

#define SPEC_BIG (((unsigned __int128)1) << 100)     /* saturation, far above 2^64 */
#define TWO63 (((unsigned __int128)1) << 63)
#define TWO64 (((unsigned __int128)1) << 64)

static uint8_t *g_buf;
static int32_t g_blen;
static int g_valid, g_negative;
static unsigned __int128 g_v;

/* builds the text and evaluates it: g_valid (well formed), g_negative ('-' present), g_v (natural number denoted) */
static void make_text(void) {
  int32_t tail = nd_i32();
  __CPROVER_assume(tail >= 0 && tail <= NUM_TAIL);
  g_blen = NUM_HL + tail;
  g_buf = malloc(g_blen);
  __CPROVER_assume(g_buf != NULL);
  for (int32_t i = 0; i < NUM_HL; i++) g_buf[i] = (uint8_t) num_head[i];
  int s = (g_buf[0] == '-' || g_buf[0] == '+') ? 1 : 0;
  g_negative = g_buf[0] == '-';
  int valid = 1, seen = 0;
  unsigned __int128 v = 0;
  for (int32_t i = s + NUM_PL; i < g_blen; i++) {
    uint8_t c = g_buf[i];
    if (c == '_') {
      if (!seen) valid = 0;
    } else {
      int d = spec_digit(c);
      if (d < 0 || d >= NUM_B) valid = 0;
      else {
        seen = 1;
        v = v * (unsigned) NUM_B + (unsigned) d;
        if (v >= SPEC_BIG) v = SPEC_BIG;
      }
    }
  }
  if (!seen) valid = 0;
  g_valid = valid;
  g_v = v;
}

void h_boundary_scan(void) {
  make_text();
  uint64_t out; int neg;
  int r = scan_uint64(g_buf, g_blen, &out, &neg);
  REACH("scan_uint64 returns");
  __CPROVER_assert((r == 1) == (g_valid && g_v < TWO64), "scan_uint64 accepts exactly the well formed texts whose value is at most 2^64-1");
  __CPROVER_assert(r == 0 || r == 1, "scan_uint64 returns 0 or 1");
  if (r == 1) {
    __CPROVER_assert((unsigned __int128) out == g_v, "scan_uint64 delivers exactly the value denoted");
    __CPROVER_assert(neg == g_negative, "scan_uint64 reports the sign");
    if (g_v == TWO64 - 1) REACH("2^64-1 is accepted");
  }
  if (r == 0 && g_valid && g_v == TWO64) REACH("2^64 is rejected");
}

void h_boundary_u64(void) {
  make_text();
  uint64_t out;
  int r = janet_scan_uint64(g_buf, g_blen, &out);
  REACH("janet_scan_uint64 returns");
  __CPROVER_assert((r == 1) == (g_valid && !g_negative && g_v < TWO64), "janet_scan_uint64 accepts exactly the unsigned texts in [0, 2^64-1]");
  __CPROVER_assert(r == 0 || r == 1, "janet_scan_uint64 returns 0 or 1");
  if (r == 1) {
    __CPROVER_assert((unsigned __int128) out == g_v, "janet_scan_uint64 stores exactly the value denoted");
    if (g_v == TWO64 - 1) REACH("2^64-1 is accepted");
  }
  if (r == 0 && g_valid && g_v == TWO64) REACH("2^64 is rejected");
}

void h_boundary_i64(void) {
  make_text();
  int64_t out;
  int r = janet_scan_int64(g_buf, g_blen, &out);
  REACH("janet_scan_int64 returns");
  int inrange = g_negative ? g_v <= TWO63 : g_v < TWO63;
  __CPROVER_assert((r == 1) == (g_valid && inrange), "janet_scan_int64 accepts exactly the texts in [-2^63, 2^63-1]");
  __CPROVER_assert(r == 0 || r == 1, "janet_scan_int64 returns 0 or 1");
  if (r == 1) {
    __CPROVER_assert((__int128) out == (g_negative ? -(__int128) g_v : (__int128) g_v), "janet_scan_int64 stores exactly the integer denoted");
    if (g_v == (g_negative ? TWO63 : TWO63 - 1)) REACH("the limit itself is accepted");
  }
  if (r == 0 && g_valid && g_v == (g_negative ? TWO63 + 1 : TWO63)) REACH("limit+1 is rejected");
}
