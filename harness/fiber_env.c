/* C10: janet_env_valid (fiber.c) - an untrusted (negative-offset) closure environment is either matched to a frame of its
 * fiber that owns it and has the same slot count, or neutralised completely (offset 0, length 0, values NULL), so that later
 * upvalue accesses are range-checked against length 0. Fiber stack: well-formed frame chain of up to 4 frames (bounded). */
#include "prelude.h"
#define NSLOTS 28
Janet g_stack[NSLOTS]; JanetFiber g_fiber; JanetFuncDef g_def[2]; JanetFunction g_func[2]; JanetFuncEnv g_envs[2];
void h_env_valid(void) {
  JanetFuncEnv *env = &g_envs[0];
  g_fiber.data = g_stack; g_fiber.capacity = NSLOTS;
  g_fiber.frame = nd_i32(); __CPROVER_assume(g_fiber.frame >= 0 && g_fiber.frame <= NSLOTS);
  g_func[0].def = &g_def[0]; g_func[1].def = &g_def[1];
  g_def[0].slotcount = nd_i32(); g_def[1].slotcount = nd_i32();
  /* representation invariant of a fiber: the frame chain is well-founded, each header fits below its frame */
  int32_t i = g_fiber.frame; int nframes = 0;
  for (int k = 0; k < 4 && i > 0; k++) {
    __CPROVER_assume(i >= JANET_FRAME_SIZE && i <= NSLOTS);
    JanetStackFrame *f = (JanetStackFrame *)(g_stack + i - JANET_FRAME_SIZE);
    __CPROVER_assume(f->prevframe >= 0 && f->prevframe <= i - JANET_FRAME_SIZE);
    int w = nd_int(); f->func = (w == 0) ? 0 : &g_func[w & 1];
    int e = nd_int(); f->env = (e == 0) ? 0 : &g_envs[e & 1];
    i = f->prevframe; nframes++;
  }
  __CPROVER_assume(i == 0);
  env->offset = nd_i32(); env->length = nd_i32(); env->as.fiber = &g_fiber;
  int32_t off0 = env->offset, len0 = env->length;
  __CPROVER_assume(off0 != (-2147483647 - 1));
  int r = janet_env_valid(env);
  if (off0 >= 0) {
    __CPROVER_assert(r == 1 && env->offset == off0 && env->length == len0, "C10 env_valid: trusted environments are left alone");
  } else if (r == 0) {
    __CPROVER_assert(env->offset == 0 && env->length == 0 && env->as.values == 0, "C10 env_valid: a rejected environment is neutralised (offset 0, length 0, no values)");
    REACH("rejecting path");
  } else {
    int32_t ro = -off0;
    __CPROVER_assert(env->offset == ro && ro >= JANET_FRAME_SIZE && ro <= NSLOTS, "C10 env_valid: accepted offset is the positive frame offset inside the stack");
    JanetStackFrame *f = (JanetStackFrame *)(g_stack + ro - JANET_FRAME_SIZE);
    __CPROVER_assert(f->env == env && f->func != 0 && f->func->def->slotcount == env->length, "C10 env_valid: accepted environment is owned by the frame at that offset and has its slot count");
    REACH("accepting path");
  }
}
