/* C01: janet_gcalloc / janet_gcpressure (gc.c) - how a new collectable block enters the heap.
 *
 * janet_gcalloc(type, size): the block malloc returned is linked at the HEAD of the heap list the sweep will look for it in
 * (weak arrays / weak tables on janet_vm.weak_blocks - the only list whose members get their dead references cleaned - everything
 * else on janet_vm.blocks), with its type recorded and every other flag clear (white, collectable), the old list intact behind
 * it, the other list untouched; block_count + 1; next_collection grows by exactly the size.  An uninitialised VM (cache == NULL)
 * or a failed malloc never returns.  janet_gcpressure(s) adds s to next_collection and touches nothing else.
 * malloc is a recording stub handing out a block prepared by the harness (or NULL). */
#include "prelude.h"
#define GA(c, msg) __CPROVER_assert(c, "C01 gcalloc: " msg)
static union { JanetGCObject gc; JanetTable t; JanetFiber f; JanetFuncDef d; } g_new;
static JanetGCObject g_oldhead, g_oldweak;
size_t g_msize; int g_mcalls, g_mfail;
void *ga_malloc_stub(size_t n) { g_msize = n; g_mcalls++; if (g_mfail) return (void *) 0; return &g_new; }
static const uint8_t *g_cache_slot[1];

void h_gcalloc(void) {
  int type = nd_int(); __CPROVER_assume(type >= JANET_MEMORY_NONE && type <= JANET_MEMORY_ARRAY_WEAK);
  size_t size = nd_size();
  int have_head = nd_int(), have_weak = nd_int(), inited = nd_int();
  JanetGCObject *head0 = have_head ? &g_oldhead : (JanetGCObject *) 0, *weak0 = have_weak ? &g_oldweak : (JanetGCObject *) 0;
  g_oldhead.flags = nd_i32(); g_oldweak.flags = nd_i32(); g_oldhead.data.next = (JanetGCObject *) 0; g_oldweak.data.next = (JanetGCObject *) 0;
  int32_t hf = g_oldhead.flags, wf = g_oldweak.flags;
  g_new.gc.flags = nd_i32(); g_new.gc.data.next = (JanetGCObject *) 0;
  janet_vm.blocks = head0; janet_vm.weak_blocks = weak0; janet_vm.cache = inited ? g_cache_slot : (const uint8_t **) 0;
  size_t bc0 = nd_size(), nc0 = nd_size(); janet_vm.block_count = bc0; janet_vm.next_collection = nc0;
  g_mcalls = 0; g_mfail = nd_int();

  void *r = janet_gcalloc((enum JanetMemoryType) type, size);

  GA(inited, "an uninitialised VM (no symbol cache) never hands out collectable memory");
  GA(!g_mfail, "a failed malloc never returns (out of memory is fatal)");
  GA(g_mcalls == 1 && g_msize == size && r == (void *) &g_new, "the block is the one malloc returned for exactly the requested size");
  GA(g_new.gc.flags == type, "the type is recorded and every other flag is clear: white (unmarked) and collectable");
  int weak = (type == JANET_MEMORY_ARRAY_WEAK || type == JANET_MEMORY_TABLE_WEAKK || type == JANET_MEMORY_TABLE_WEAKV || type == JANET_MEMORY_TABLE_WEAKKV);
  if (weak) {
    GA(janet_vm.weak_blocks == &g_new.gc && g_new.gc.data.next == weak0, "weak arrays and weak tables are linked at the head of the weak list (where the sweep cleans dead references), the old list behind them");
    GA(janet_vm.blocks == head0, "the main list is untouched by a weak allocation");
  } else {
    GA(janet_vm.blocks == &g_new.gc && g_new.gc.data.next == head0, "every other block is linked at the head of the main list, the old list behind it");
    GA(janet_vm.weak_blocks == weak0, "the weak list is untouched by a normal allocation");
  }
  GA(g_oldhead.flags == hf && g_oldweak.flags == wf && g_oldhead.data.next == (JanetGCObject *) 0 && g_oldweak.data.next == (JanetGCObject *) 0, "existing blocks are not modified");
  GA(janet_vm.block_count == bc0 + 1, "block_count grows by one");
  GA(janet_vm.next_collection == nc0 + size, "next_collection grows by exactly the size of the block");
  if (weak && have_weak) REACH("gcalloc: weak block in front of an existing weak list");
  if (!weak && have_head) REACH("gcalloc: normal block in front of an existing list");
  if (type == JANET_MEMORY_THREADED_ABSTRACT) REACH("gcalloc: last non-weak type number");
  REACH("janet_gcalloc returns");
}
void h_gcpressure(void) {
  size_t nc0 = nd_size(), s = nd_size(), bc0 = nd_size(), iv0 = nd_size(); int sus = nd_int();
  janet_vm.next_collection = nc0; janet_vm.block_count = bc0; janet_vm.gc_interval = iv0; janet_vm.gc_suspend = sus;
  janet_vm.blocks = &g_oldhead; janet_vm.weak_blocks = &g_oldweak;
  janet_gcpressure(s);
  GA(janet_vm.next_collection == nc0 + s, "gcpressure adds its argument to next_collection");
  GA(janet_vm.block_count == bc0 && janet_vm.gc_interval == iv0 && janet_vm.gc_suspend == sus && janet_vm.blocks == &g_oldhead && janet_vm.weak_blocks == &g_oldweak, "gcpressure touches no other collector state");
  REACH("janet_gcpressure returns");
}
