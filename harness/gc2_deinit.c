/* C01: janet_deinit_block (gc.c) - what the sweep does to a dead block before freeing it.  Per memory type: it frees EXACTLY
 * the side allocations that type owns, each exactly once, runs the finaliser of an abstract exactly once, unregisters a symbol
 * from the symbol cache, and touches nothing else - in particular never another collectable block (prototype table, fiber of an
 * on-stack closure environment, source / name strings of a funcdef) and never the block itself (janet_sweep frees that).
 *
 * free is a recording stub: a call is attributed to one of the side allocations the harness declared as owned (g_own), to NULL
 * (free(NULL) is a no-op) or counted as foreign; owned blocks are then really deallocated. */
#include "prelude.h"
void __CPROVER_deallocate(void *);
#define DI(c, msg) __CPROVER_assert(c, "C01 deinit: " msg)
#define NOWN 8
void *g_own[NOWN]; int g_nown; int g_fcnt[NOWN]; int g_foreign, g_nullfree;
int g_symdeinit, g_symdeinit_ok; const uint8_t *g_symdata;
int g_evdec, g_hook, g_hook_ok; void *g_hook_data; size_t g_hook_size;

void di_free_stub(void *p) {
  if (p == (void *) 0) { g_nullfree++; return; }
  int hit = 0;
  for (int k = 0; k < NOWN; k++) if (k < g_nown && p == g_own[k]) { hit = 1; g_fcnt[k]++; }
  if (hit) __CPROVER_deallocate(p); else g_foreign++;
}
void di_symbol_deinit_stub(const uint8_t *sym) { g_symdeinit++; g_symdeinit_ok = (sym == g_symdata); }
void di_ev_dec_refcount_stub(void) { g_evdec++; }
int di_gc_hook(void *data, size_t len) { g_hook++; g_hook_ok = (data == g_hook_data && len == g_hook_size); return nd_int(); }
JanetAbstractType di_type_gc = {"vc/deinit", di_gc_hook};
JanetAbstractType di_type_nogc = {"vc/deinit-plain", 0};
static void *own(void *p) { g_own[g_nown] = p; g_fcnt[g_nown] = 0; g_nown++; return p; }
static void reset(void) { g_nown = 0; g_foreign = g_nullfree = g_symdeinit = g_evdec = g_hook = 0; g_symdeinit_ok = g_hook_ok = 1; }
static int32_t flags_of(int type) { return (nd_i32() & ~JANET_MEM_TYPEBITS) | type; }
#define ALL_OWNED_FREED_ONCE(n) do { for (int k = 0; k < NOWN; k++) if (k < (n)) DI(g_fcnt[k] == 1, "every side allocation the block owns is freed exactly once"); \
  DI(g_nown == (n) && g_foreign == 0, "nothing but the owned side allocations is freed (not the block itself, no other collectable object)"); } while (0)
#define NO_CALLBACKS DI(g_symdeinit == 0 && g_evdec == 0 && g_hook == 0, "no finaliser, symbol-cache or event-loop callback for this type")

/* array / weak array: the element storage */
void h_deinit_array(void) {
  reset();
  JanetArray *a = malloc(sizeof(JanetArray)); a->gc.flags = flags_of(nd_int() ? JANET_MEMORY_ARRAY : JANET_MEMORY_ARRAY_WEAK);
  a->count = nd_i32(); a->capacity = nd_i32(); a->data = nd_int() ? own(malloc(4 * sizeof(Janet))) : (Janet *) 0;
  int n = g_nown;
  janet_deinit_block(&a->gc);
  ALL_OWNED_FREED_ONCE(n); NO_CALLBACKS;
  if (n == 1) REACH("deinit array with storage");
  REACH("janet_deinit_block returns");
}
/* table, any weak mode: the bucket storage - never the prototype */
void h_deinit_table(void) {
  reset();
  int m = nd_int(); int ty = m == 0 ? JANET_MEMORY_TABLE : m == 1 ? JANET_MEMORY_TABLE_WEAKK : m == 2 ? JANET_MEMORY_TABLE_WEAKV : JANET_MEMORY_TABLE_WEAKKV;
  JanetTable *t = malloc(sizeof(JanetTable)); t->gc.flags = flags_of(ty);
  t->count = nd_i32(); t->capacity = nd_i32(); t->deleted = nd_i32();
  t->data = nd_int() ? own(malloc(2 * sizeof(JanetKV))) : (JanetKV *) 0;
  JanetTable *proto = malloc(sizeof(JanetTable)); proto->data = malloc(sizeof(JanetKV)); t->proto = nd_int() ? proto : (JanetTable *) 0;
  int n = g_nown;
  janet_deinit_block(&t->gc);
  ALL_OWNED_FREED_ONCE(n); NO_CALLBACKS;
  if (n == 1 && t->proto && ty == JANET_MEMORY_TABLE_WEAKKV) REACH("deinit weak table with storage and prototype");
  REACH("janet_deinit_block returns");
}
/* fiber: the stack; the event-loop state unless an asynchronous operation still owns it (in flight) */
void h_deinit_fiber(void) {
  reset();
  JanetFiber *f = malloc(sizeof(JanetFiber)); f->gc.flags = flags_of(JANET_MEMORY_FIBER); f->flags = nd_i32();
  f->data = nd_int() ? own(malloc(8 * sizeof(Janet))) : (Janet *) 0;
  void *evs = malloc(16); int has_ev = nd_int() != 0; f->ev_state = has_ev ? evs : (void *) 0;
  int owned_ev = has_ev && !(f->flags & JANET_FIBER_EV_FLAG_IN_FLIGHT);
  if (owned_ev) own(evs);
  f->child = malloc(sizeof(JanetFiber)); f->env = malloc(sizeof(JanetTable));       /* other collectable objects: not owned */
  int n = g_nown;
  janet_deinit_block(&f->gc);
  ALL_OWNED_FREED_ONCE(n);
  DI(g_evdec == (owned_ev ? 1 : 0), "the event-loop reference held for a pending state is given back exactly once, together with the state");
  DI(g_symdeinit == 0 && g_hook == 0, "no finaliser or symbol-cache callback for a fiber");
  if (owned_ev && f->data) REACH("deinit fiber: stack and event state");
  if (has_ev && !owned_ev) REACH("deinit fiber: event state in flight is left to the event loop");
  REACH("janet_deinit_block returns");
}
/* buffer: the bytes, unless the buffer is a view of foreign memory (JANET_BUFFER_FLAG_NO_REALLOC) */
void h_deinit_buffer(void) {
  reset();
  JanetBuffer *b = malloc(sizeof(JanetBuffer)); b->gc.flags = flags_of(JANET_MEMORY_BUFFER); b->count = nd_i32(); b->capacity = nd_i32();
  uint8_t *bytes = malloc(8); b->data = bytes;
  int view = (b->gc.flags & JANET_BUFFER_FLAG_NO_REALLOC) != 0;
  if (!view) own(bytes);
  int n = g_nown;
  janet_deinit_block(&b->gc);
  ALL_OWNED_FREED_ONCE(n); NO_CALLBACKS;
  if (view) REACH("deinit buffer: unmanaged memory is not freed"); else REACH("deinit buffer: owned bytes freed");
  REACH("janet_deinit_block returns");
}
/* abstract: the finaliser of its type, exactly once, with (data, size) */
void h_deinit_abstract(void) {
  reset();
  JanetAbstractHead *h = malloc(sizeof(JanetAbstractHead) + 16); h->gc.flags = flags_of(JANET_MEMORY_ABSTRACT); h->size = nd_size();
  int hasgc = nd_int() != 0; if (hasgc) h->type = &di_type_gc; else h->type = &di_type_nogc;
  g_hook_data = h->data; g_hook_size = h->size;
  janet_deinit_block(&h->gc);
  DI(g_hook == (hasgc ? 1 : 0) && g_hook_ok, "the gc hook of the abstract type runs exactly once with (data, size); a type without hook needs nothing");
  DI(g_foreign == 0 && g_nullfree == 0 && g_symdeinit == 0 && g_evdec == 0, "nothing is freed for an abstract (its memory is the block itself)");
  if (hasgc) REACH("deinit abstract with finaliser");
  REACH("janet_deinit_block returns");
}
/* closure environment: the value copy once detached (offset 0); while it refers to a fiber frame (offset != 0) nothing */
void h_deinit_funcenv(void) {
  reset();
  JanetFuncEnv *e = malloc(sizeof(JanetFuncEnv)); e->gc.flags = flags_of(JANET_MEMORY_FUNCENV); e->length = nd_i32(); e->offset = nd_i32();
  JanetFiber *fib = malloc(sizeof(JanetFiber)); Janet *vals = malloc(2 * sizeof(Janet));
  if (e->offset == 0) { if (nd_int()) { e->as.values = vals; own(vals); } else e->as.values = (Janet *) 0; }
  else e->as.fiber = fib;          /* > 0 on a live frame, < 0 unmarshalled and not yet validated: a fiber either way */
  int n = g_nown;
  janet_deinit_block(&e->gc);
  ALL_OWNED_FREED_ONCE(n); NO_CALLBACKS;
  if (n == 1) REACH("deinit detached environment"); if (e->offset < 0) REACH("deinit unvalidated on-stack environment"); if (e->offset > 0) REACH("deinit on-stack environment");
  REACH("janet_deinit_block returns");
}
/* function definition: its seven vectors - not the source / name strings (collectable) */
void h_deinit_funcdef(void) {
  reset();
  JanetFuncDef *d = malloc(sizeof(JanetFuncDef)); d->gc.flags = flags_of(JANET_MEMORY_FUNCDEF);
  d->environments = nd_int() ? own(malloc(4)) : (int32_t *) 0;
  d->constants = nd_int() ? own(malloc(sizeof(Janet))) : (Janet *) 0;
  d->defs = nd_int() ? own(malloc(sizeof(JanetFuncDef *))) : (JanetFuncDef **) 0;
  d->bytecode = nd_int() ? own(malloc(4)) : (uint32_t *) 0;
  d->closure_bitset = nd_int() ? own(malloc(4)) : (uint32_t *) 0;
  d->sourcemap = nd_int() ? own(malloc(sizeof(JanetSourceMapping))) : (JanetSourceMapping *) 0;
  d->symbolmap = nd_int() ? own(malloc(sizeof(JanetSymbolMap))) : (JanetSymbolMap *) 0;
  JanetStringHead *src = malloc(sizeof(JanetStringHead) + 4), *nm = malloc(sizeof(JanetStringHead) + 4);
  d->source = src->data; d->name = nm->data;
  d->constants_length = nd_i32(); d->bytecode_length = nd_i32(); d->environments_length = nd_i32(); d->defs_length = nd_i32(); d->symbolmap_length = nd_i32(); d->flags = nd_i32();
  int n = g_nown;
  janet_deinit_block(&d->gc);
  ALL_OWNED_FREED_ONCE(n); NO_CALLBACKS;
  DI(g_nullfree + n == 7, "each of the seven vectors of a funcdef is released (free(NULL) for an absent one)");
  if (n == 7) REACH("deinit funcdef with all seven vectors");
  if (n == 0) REACH("deinit funcdef without vectors");
  REACH("janet_deinit_block returns");
}
/* symbol / keyword: removed from the symbol cache (janet_symbol_deinit, units sc.deinit.*), nothing freed */
void h_deinit_symbol(void) {
  reset();
  JanetStringHead *s = malloc(sizeof(JanetStringHead) + 4); s->gc.flags = flags_of(JANET_MEMORY_SYMBOL); s->length = nd_i32(); s->hash = nd_i32();
  g_symdata = s->data;
  janet_deinit_block(&s->gc);
  DI(g_symdeinit == 1 && g_symdeinit_ok, "a dead symbol is unregistered from the symbol cache exactly once, by its text pointer");
  DI(g_foreign == 0 && g_nullfree == 0 && g_hook == 0 && g_evdec == 0, "nothing is freed for a symbol");
  REACH("janet_deinit_block returns");
}
/* types without side allocations: string, tuple, struct, function, threaded abstract, untyped and unknown type numbers */
void h_deinit_plain(void) {
  reset();
  int ty = nd_int(); __CPROVER_assume(ty >= 0 && ty <= 255);
  __CPROVER_assume(ty == JANET_MEMORY_NONE || ty == JANET_MEMORY_STRING || ty == JANET_MEMORY_TUPLE || ty == JANET_MEMORY_STRUCT || ty == JANET_MEMORY_FUNCTION
                   || ty == JANET_MEMORY_THREADED_ABSTRACT || ty > JANET_MEMORY_ARRAY_WEAK);
  uint64_t *blk = malloc(128); uint64_t before[16];
  for (int k = 0; k < 16; k++) { blk[k] = nd_u64(); }
  ((JanetGCObject *) blk)->flags = flags_of(ty);
  for (int k = 0; k < 16; k++) before[k] = blk[k];
  janet_deinit_block((JanetGCObject *) blk);
  DI(g_foreign == 0 && g_nullfree == 0, "nothing is freed for a type without side allocations");
  NO_CALLBACKS;
  int g = nd_int(); __CPROVER_assume(g >= 0 && g < 16);
  DI(blk[g] == before[g], "the block is not written");
  if (ty == JANET_MEMORY_FUNCTION) REACH("deinit function");
  if (ty == JANET_MEMORY_STRUCT) REACH("deinit struct");
  REACH("janet_deinit_block returns");
}
