/* C01: janet_collect, everything AROUND the root pass (the root pass itself - root fiber, explicit roots, event-loop state, values
 * deferred while marking - is unit gc.collect.roots).
 *   - the mark routines run with gc_mark_phase == 1 and start with the full recursion budget (depth == JANET_RECURSION_GUARD); the sweep
 *     runs once, after all marking, with gc_mark_phase == 0; scratch memory is released exactly once, after the sweep;
 *   - afterwards next_collection == 0 (the allocation counter restarts); the gc_interval heuristic is harmless: the interval never
 *     shrinks, changes only when the heap outgrew it (8 * block_count > interval) and then becomes block_count * sizeof(JanetGCObject);
 *     roots, block_count and the suspension counter are not touched by the driver;
 *   - while collection is suspended (gc_suspend != 0) NOTHING happens: no mark, no sweep, no scratch release, no state change. */
#include "prelude.h"
#define CO(c, msg) __CPROVER_assert(c, "C01 collect: " msg)
int g_step, g_marks, g_sweeps, g_scratch_frees, g_first_mark_seen; JanetFiber g_root_fiber2; Janet g_roots2[4];
static void on_mark(void) {
  CO(janet_vm.gc_mark_phase == 1, "marking happens inside the mark phase (allocation hooks can tell)");
  CO(g_sweeps == 0 && g_scratch_frees == 0, "all marking precedes the sweep and the scratch release");
  if (!g_first_mark_seen) { g_first_mark_seen = 1; CO(depth == JANET_RECURSION_GUARD, "marking starts with the full recursion budget"); }
  g_marks++;
}
void co_mark_stub(Janet x) { on_mark(); }
void co_mark_fiber_stub(JanetFiber *f) { on_mark(); }
void co_ev_mark_stub(void) { on_mark(); }
void co_sweep_stub(void) {
  CO(janet_vm.gc_mark_phase == 0, "the mark phase is over when the sweep starts");
  CO(g_scratch_frees == 0, "scratch memory is still intact during the sweep (finalisers may use it)");
  g_sweeps++;
}
void co_free_all_scratch_stub(void) { CO(g_sweeps == 1, "scratch memory is released after the sweep"); g_scratch_frees++; }

void h_collect_epilogue(void) {
  size_t bc0 = nd_size(), iv0 = nd_size(), nc0 = nd_size(); int sus0 = nd_int(); uint32_t n0 = nd_u32();
  __CPROVER_assume(bc0 <= ((size_t) 1 << 56));          /* every block occupies at least 16 bytes of address space */
  __CPROVER_assume(n0 <= 4);
  for (int i = 0; i < 4; i++) g_roots2[i].u64 = nd_u64();
  janet_vm.block_count = bc0; janet_vm.gc_interval = iv0; janet_vm.next_collection = nc0; janet_vm.gc_suspend = sus0;
  janet_vm.roots = g_roots2; janet_vm.root_count = n0; janet_vm.root_capacity = 4; janet_vm.root_fiber = &g_root_fiber2;
  janet_vm.gc_mark_phase = 0; depth = nd_u32();          /* whatever an earlier (interrupted) collection left behind */
  g_step = g_marks = g_sweeps = g_scratch_frees = g_first_mark_seen = 0;

  janet_collect();

  if (sus0 != 0) {
    CO(g_marks == 0 && g_sweeps == 0 && g_scratch_frees == 0, "suspended: nothing is marked, swept or released");
    CO(janet_vm.next_collection == nc0 && janet_vm.gc_interval == iv0 && janet_vm.gc_mark_phase == 0, "suspended: no collector state changes");
    REACH("collect while suspended returns");
  } else {
    CO(g_sweeps == 1 && g_scratch_frees == 1, "one sweep and one scratch release per collection");
    CO(g_marks == (int) n0 + 2, "root fiber, event-loop state and every explicit root are marked once");
    CO(janet_vm.next_collection == 0, "the allocation counter restarts after a collection");
    CO(janet_vm.gc_mark_phase == 0, "the mark-phase flag is cleared again");
    CO(janet_vm.gc_interval >= iv0, "the collection interval never shrinks");
    CO(janet_vm.gc_interval == ((bc0 * 8 > iv0) ? bc0 * sizeof(JanetGCObject) : iv0), "the interval changes only when the heap outgrew it, to block_count * sizeof(JanetGCObject)");
    if (bc0 * 8 > iv0) REACH("collect: interval raised"); else REACH("collect: interval kept");
  }
  CO(janet_vm.block_count == bc0 && janet_vm.gc_suspend == sus0 && janet_vm.root_count == n0 && janet_vm.roots == g_roots2 && janet_vm.root_fiber == &g_root_fiber2,
     "the driver itself changes neither the heap accounting, the roots nor the suspension counter");
  REACH("janet_collect returns");
}
