/* C01: janet_mark_tuple - an unmarked tuple is marked and its elements data[0..length) are handed to janet_mark_many. */
#include "gc_mark.h"
JanetTupleHead *g_head;   /* ghost: the tuple's block; the routine receives the interior pointer head->data */

static void janet_mark_tuple_spec(const Janet *tuple)
__CPROVER_requires(__CPROVER_is_fresh(g_head, sizeof(JanetTupleHead)))
__CPROVER_requires(__CPROVER_pointer_equals(tuple, g_head->data))
__CPROVER_requires(MEMTYPE(g_head) == JANET_MEMORY_TUPLE)
__CPROVER_requires(g_w_kind == W_MANY && g_w_base == (const void *) g_head->data && g_w_n == g_head->length)
__CPROVER_requires(!g_w_seen && g_w_calls == 0)
__CPROVER_assigns(g_head->gc.flags, g_w_seen, g_w_calls)
__CPROVER_ensures(g_head->gc.flags == (__CPROVER_old(g_head->gc.flags) | JANET_MEM_REACHABLE))
__CPROVER_ensures(!(__CPROVER_old(g_head->gc.flags) & JANET_MEM_REACHABLE) ==> (g_w_seen && g_w_calls == 1))
__CPROVER_ensures((__CPROVER_old(g_head->gc.flags) & JANET_MEM_REACHABLE) ==> g_w_calls == 0)
;

void h_mark_tuple(void) {
  const Janet *t;
  janet_mark_tuple(t);
  REACH("janet_mark_tuple returns");
}
