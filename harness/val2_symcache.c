/* C03: "symbols or keywords with the same bytes are always identical" - the interning table of symcache.c.
 *
 * Contracts on the REAL janet_symcache_findmem / janet_symcache_put / janet_symbol_deinit / janet_symbol, each from an
 * ARBITRARY well-formed cache state (any mix of live symbols, tombstones and empty slots, any hash collisions):
 *
 * wf_cache  (derived from the code and its callers):
 *   I1  capacity is a power of two (1024 at init, janet_tablen on resize); every slot is NULL, the tombstone
 *       JANET_SYMCACHE_DELETED, or a live symbol: a JanetStringHead-prefixed byte string whose cached hash is the string
 *       hash of its bytes
 *   I2  no two live entries have the same bytes                                  (this IS "same bytes => identical")
 *   I3  every live entry is reachable from its home slot (hash & (cap-1)) by linear probing (with wrap-around) without
 *       crossing a NULL slot; tombstones do not stop a probe
 *   I4  cache_count is the exact number of live entries; cache_deleted is AT LEAST the number of tombstones
 *       (it is not exact in the real code: janet_symcache_put re-uses a tombstone handed out by findmem without
 *       decrementing cache_deleted; the counter is only reset by a resize - harmless, the table just resizes earlier)
 *   I5  cache_count + cache_deleted <= cap/2 + 1   (janet_symcache_put resizes before it would exceed that;
 *       janet_symbol_deinit and findmem keep the sum) - so for cap >= 4 there is always a NULL slot, every probe ends and
 *       the fatal "symcache failed to get memory" exit of findmem is unreachable (asserted: exit/abort are obligations here).
 *       Not covered (janet_cache_resize is outside these units): a resize that happens while cache_count == 0 picks
 *       janet_tablen(1) == 2, and at capacity 2 I5 no longer implies a NULL slot.  Unreachable from the janet binary (the
 *       core environment keeps thousands of symbols live); an embedder without core environment could get there.
 *
 * The string hash (janet_string_calchash, util.c) is replaced by its contract: an ARBITRARY function of the bytes
 * (symbolic table g3_h[], so all home-slot / full-hash collision patterns are covered).  janet_string_equalconst is the
 * real one (string.c).  Universe: S2_K different byte strings (content c: first byte 'a'+c, length 1 or 2), so strings
 * that collide on the hash with equal and with different lengths both occur.
 * Bounded: capacity S2_CAP. */
#include "prelude.h"

#ifndef S2_CAP
#define S2_CAP 4
#endif
#ifndef S2_K
#define S2_K 4
#endif
#define S2_MASK (S2_CAP - 1)
#define S2_NULL (-1)
#define S2_DEL (-2)

/* fatal exits of the cache code ("symcache failed to get memory", out of memory) must be unreachable from a wf cache */
void exit(int c) { __CPROVER_assert(0, "C03 symcache: no fatal exit from a well-formed cache"); __CPROVER_assume(0); }
void abort(void) { __CPROVER_assert(0, "C03 symcache: no fatal exit from a well-formed cache (symcache failed to get memory)"); __CPROVER_assume(0); }

int32_t g3_h[S2_K];                       /* string hash of content c: arbitrary */
static const uint8_t *s3_obj[S2_K];       /* the pre-existing symbol object with content c (live in the cache or not) */
static const uint8_t *s3_cache[S2_CAP];   /* the cache memory */

static int s3_len(int c) { return 1 + (c & 1); }
static void s3_fill(uint8_t *p, int c) { p[0] = (uint8_t)('a' + c); if (s3_len(c) == 2) { p[1] = '!'; p[2] = 0; } else { p[1] = 0; } }

/* contract of janet_string_calchash: a function of (bytes, len) only */
int32_t janet_string_calchash(const uint8_t *str, int32_t len) {
  int c = str[0] - 'a';
  __CPROVER_assert(c >= 0 && c < S2_K && len == s3_len(c), "C03 harness: hashed string is one of the universe");
  return g3_h[c];
}
/* contract of janet_gcalloc: fresh zeroed block */
void *janet_gcalloc(enum JanetMemoryType type, size_t size) {
  void *p = calloc(1, size);
  __CPROVER_assume(p != NULL);
  return p;
}
/* contract of safe_memcpy (util.c): copies len bytes, nothing when len == 0 */
void safe_memcpy(void *dest, const void *src, size_t len) {
  for (size_t i = 0; i < len; i++) ((uint8_t *) dest)[i] = ((const uint8_t *) src)[i];
}
/* contract of memcmp for the string lengths of the universe (<= 2): 0 iff the first n bytes agree, else the sign of the first
 * difference (loop-free replacement of CBMC's library model) */
#ifndef S2_LIBC_MEMCMP
int memcmp(const void *a, const void *b, size_t n) {
  const uint8_t *x = a, *y = b;
  __CPROVER_assert(n <= 2, "C03 harness: compared strings are of the universe");
  if (n >= 1 && x[0] != y[0]) return x[0] < y[0] ? -1 : 1;
  if (n >= 2 && x[1] != y[1]) return x[1] < y[1] ? -1 : 1;
  return 0;
}
#endif
int32_t janet_tablen(int32_t n) { __CPROVER_assert(0, "C03 harness: no resize in this unit (precondition keeps the load below the resize threshold)"); return 2 * S2_CAP; }

/* abstract view of the cache: kind[i] = S2_NULL, S2_DEL or the content id of the live entry */
typedef struct { int kind[S2_CAP]; const uint8_t *ptr[S2_CAP]; uint32_t count, deleted; } S3View;

static int s3_decode(S3View *v) {
  int ok = 1;
  if (janet_vm.cache != s3_cache || janet_vm.cache_capacity != S2_CAP) ok = 0;      /* I1 */
  for (int i = 0; i < S2_CAP; i++) {
    const uint8_t *p = s3_cache[i];
    v->ptr[i] = p;
    if (p == NULL) v->kind[i] = S2_NULL;
    else if (p == JANET_SYMCACHE_DELETED) v->kind[i] = S2_DEL;
    else {
      int c = p[0] - 'a';
      if (c < 0 || c >= S2_K) { ok = 0; c = 0; }
      if (janet_string_length(p) != s3_len(c) || janet_string_hash(p) != g3_h[c]) ok = 0;   /* I1: cached hash is the hash of the bytes */
      if (s3_len(c) == 2 && p[1] != '!') ok = 0;
      if (p[s3_len(c)] != 0) ok = 0;
      v->kind[i] = c;
    }
  }
  v->count = janet_vm.cache_count; v->deleted = janet_vm.cache_deleted;
  return ok;
}

static int s3_reachable(const S3View *v, int c, int slot) {     /* no NULL on the probe path home(c) .. slot-1 */
  int home = (int)((uint32_t) g3_h[c] & S2_MASK);
  int ok = 1, done = 0;
  for (int j = 0; j < S2_CAP; j++) {
    int pos = (home + j) & S2_MASK;
    if (pos == slot) done = 1;
    if (!done && v->kind[pos] == S2_NULL) ok = 0;
  }
  return ok;
}

static int s3_wf(const S3View *v) {
  int ok = 1; uint32_t live = 0, tomb = 0; unsigned seen = 0;
  for (int i = 0; i < S2_CAP; i++) {
    int k = v->kind[i];
    if (k == S2_DEL) tomb++;
    else if (k >= 0) {
      live++;
      if (seen & (1u << k)) ok = 0;                              /* I2 */
      seen |= 1u << k;
      if (!s3_reachable(v, k, i)) ok = 0;                        /* I3 */
    }
  }
  if (v->count != live || v->deleted < tomb) ok = 0;             /* I4 */
  if (v->count + v->deleted > S2_CAP / 2 + 1) ok = 0;            /* I5 */
  return ok;
}

static int s3_slot_of(const S3View *v, int c) { for (int i = 0; i < S2_CAP; i++) if (v->kind[i] == c) return i; return -1; }

/* an arbitrary cache state over the universe */
static void s3_any(S3View *v) {
  __CPROVER_assert((S2_CAP & (S2_CAP - 1)) == 0 && S2_CAP >= 4 && S2_K < 26, "C03 unit capacity is a power of two");
  for (int c = 0; c < S2_K; c++) {
    g3_h[c] = nd_i32();
    JanetStringHead *h = malloc(sizeof(JanetStringHead) + 3);
    __CPROVER_assume(h != NULL);
    h->length = s3_len(c); h->hash = g3_h[c];
    s3_fill((uint8_t *) h->data, c);
    s3_obj[c] = h->data;
  }
  uint32_t live = 0;
  for (int i = 0; i < S2_CAP; i++) {
    int k = nd_int(); __CPROVER_assume(k >= S2_DEL && k < S2_K);
    s3_cache[i] = k == S2_NULL ? NULL : k == S2_DEL ? JANET_SYMCACHE_DELETED : s3_obj[k];
    if (k >= 0) live++;
  }
  janet_vm.cache = s3_cache;
  janet_vm.cache_capacity = S2_CAP;
  janet_vm.cache_count = live;
  janet_vm.cache_deleted = nd_u32();
  __CPROVER_assume(janet_vm.cache_deleted <= S2_CAP);
  int ok = s3_decode(v);
  __CPROVER_assume(ok && s3_wf(v));                               /* requires wf_cache */
}

/* a caller's byte string with content c (never the interned object itself) */
static const uint8_t *s3_str(int c) {
  uint8_t *p = malloc(3);
  __CPROVER_assume(p != NULL);
  s3_fill(p, c);
  return p;
}
static int s3_content(void) { int c = nd_int(); __CPROVER_assume(c >= 0 && c < S2_K); return c; }

/* live symbols other than `except` keep slot-independent identity: content g is live afterwards iff it was, same object */
#define S3_FRAME(o, n, g, except, what) do { \
    int so_ = s3_slot_of(&(o), (g)), sn_ = s3_slot_of(&(n), (g)); \
    if ((g) != (except)) { \
      __CPROVER_assert((so_ >= 0) == (sn_ >= 0), "C03 symcache " what ": every other live symbol stays live, no symbol appears"); \
      if (so_ >= 0 && sn_ >= 0) __CPROVER_assert((n).ptr[sn_] == (o).ptr[so_], "C03 symcache " what ": every other live symbol keeps its identity (same pointer)"); \
    } } while (0)

/* ---- janet_symcache_findmem ---- */
void h_sym_findmem(void) {
  S3View o, n;
  s3_any(&o);
  int c = s3_content();
  const uint8_t *str = s3_str(c);
  int success = nd_int();
  const uint8_t **b = janet_symcache_findmem(str, s3_len(c), g3_h[c], &success);
  int ok = s3_decode(&n);
  __CPROVER_assert(ok && s3_wf(&n), "C03 symcache findmem preserves wf_cache (no duplicate live string, every live entry reachable from its home slot without crossing NULL, counters)");
  __CPROVER_assert(n.count == o.count && n.deleted == o.deleted, "C03 symcache findmem: cache_count and cache_deleted unchanged");
  int so = s3_slot_of(&o, c);
  long j = b - s3_cache;
  __CPROVER_assert(j >= 0 && j < S2_CAP, "C03 symcache findmem returns a slot of the cache");
  if (so >= 0) {
    __CPROVER_assert(success == 1, "C03 symcache findmem finds every live string (success)");
    __CPROVER_assert(*b == o.ptr[so], "C03 symcache findmem: the slot returned holds the one interned symbol with these bytes (identical pointer)");
  } else {
    __CPROVER_assert(success == 0, "C03 symcache findmem reports absent strings as absent");
    __CPROVER_assert(o.kind[j] == S2_NULL || o.kind[j] == S2_DEL, "C03 symcache findmem: slot offered for a new string is free (NULL or tombstone)");
    __CPROVER_assert(s3_reachable(&o, c, (int) j), "C03 symcache findmem: slot offered for a new string is reachable from its home slot without crossing NULL");
    for (int i = 0; i < S2_CAP; i++) __CPROVER_assert(n.ptr[i] == o.ptr[i], "C03 symcache findmem: an unsuccessful search does not change the cache");
  }
  int g = s3_content();
  S3_FRAME(o, n, g, -1, "findmem");
  if (so >= 0 && s3_slot_of(&n, c) != so) REACH("found symbol moved forward into a tombstone");
  if (so < 0) REACH("not found");
  REACH("findmem returned");
}

/* ---- janet_symbol_deinit ---- */
void h_sym_deinit(void) {
  S3View o, n;
  s3_any(&o);
  int c = s3_content();
  int so = s3_slot_of(&o, c);
  __CPROVER_assume(so >= 0);                      /* requires: sym is an interned (live) symbol */
  janet_symbol_deinit(o.ptr[so]);
  int ok = s3_decode(&n);
  __CPROVER_assert(ok && s3_wf(&n), "C03 symcache deinit preserves wf_cache (no duplicate live string, every live entry reachable from its home slot without crossing NULL, counters)");
  __CPROVER_assert(s3_slot_of(&n, c) < 0, "C03 symcache deinit: the symbol is no longer in the cache");
  __CPROVER_assert(n.count == o.count - 1 && n.deleted == o.deleted + 1, "C03 symcache deinit: cache_count decremented, cache_deleted incremented");
  int g = s3_content();
  S3_FRAME(o, n, g, c, "deinit");
  REACH("deinit returned");
}

/* ---- janet_symbol (findmem + put), below the resize threshold ---- */
void h_sym_symbol(void) {
  S3View o, n;
  s3_any(&o);
  int c = s3_content();
  int so = s3_slot_of(&o, c);
  __CPROVER_assume(so >= 0 || (o.count + o.deleted) * 2 <= S2_CAP);     /* no resize (resize: separate unit) */
  const uint8_t *str = s3_str(c);
  const uint8_t *p = janet_symbol(str, s3_len(c));
  int ok = s3_decode(&n);
  __CPROVER_assert(ok && s3_wf(&n), "C03 symcache janet_symbol preserves wf_cache (no duplicate live string, every live entry reachable from its home slot without crossing NULL, counters)");
  int sn = s3_slot_of(&n, c);
  __CPROVER_assert(sn >= 0 && n.ptr[sn] == p, "C03 symcache janet_symbol returns the interned symbol with these bytes (it is live in the cache)");
  if (so >= 0) {
    __CPROVER_assert(p == o.ptr[so], "C03 symcache janet_symbol: bytes already interned yield the identical pointer");
    __CPROVER_assert(n.count == o.count, "C03 symcache janet_symbol: cache_count unchanged for a known string");
  } else {
    int fresh = p != str;
    for (int k = 0; k < S2_K; k++) if (p == s3_obj[k]) fresh = 0;
    __CPROVER_assert(fresh, "C03 symcache janet_symbol: a new string gets a new object");
    __CPROVER_assert(n.count == o.count + 1, "C03 symcache janet_symbol: cache_count incremented for a new string");
  }
  __CPROVER_assert(n.deleted == o.deleted, "C03 symcache janet_symbol: cache_deleted unchanged");
  int g = s3_content();
  S3_FRAME(o, n, g, c, "janet_symbol");
  if (so < 0 && o.kind[sn] == S2_DEL) REACH("new symbol placed in a tombstone");
  if (so < 0) REACH("new symbol");
  REACH("janet_symbol returned");
}

/* ---- lemmas in the words of the property, from an arbitrary well-formed cache ----
 * No-resize precondition, stated before every janet_symbol call on the CURRENT cache: the string is live (the harness view
 * scans all slots, it does not probe) or the load is below janet_symcache_put's resize threshold. */
static int s3_live_now(int c) { S3View t; int ok = s3_decode(&t); return ok && s3_slot_of(&t, c) >= 0; }
#define S3_NO_RESIZE(c) __CPROVER_assume(s3_live_now(c) || (janet_vm.cache_count + janet_vm.cache_deleted) * 2 <= S2_CAP)

/* interning the same bytes twice yields the identical pointer (whether or not the string was known before; the first call
 * may move the symbol forward into a tombstone) */
void h_sym_intern_twice(void) {
  S3View o, n;
  s3_any(&o);
  int x = s3_content();
  S3_NO_RESIZE(x);
  const uint8_t *p1 = janet_symbol(s3_str(x), s3_len(x));
  const uint8_t *p2 = janet_symbol(s3_str(x), s3_len(x));
  __CPROVER_assert(p1 == p2, "C03 symbols with the same bytes are identical: interning the same bytes twice yields the same pointer");
  __CPROVER_assert(janet_string_length(p1) == s3_len(x) && p1[0] == 'a' + x, "C03 symbol returned has the bytes asked for");
  int ok = s3_decode(&n);
  __CPROVER_assert(ok && s3_wf(&n), "C03 symcache: wf_cache holds after the sequence");
  if (s3_slot_of(&o, x) >= 0 && s3_slot_of(&n, x) != s3_slot_of(&o, x)) REACH("known symbol was moved into a tombstone");
  if (s3_slot_of(&o, x) < 0) REACH("new symbol interned twice");
  REACH("sequence finished");
}

/* ... also after ANOTHER symbol y was removed (leaving a tombstone) and a found symbol x was moved forward into a tombstone:
 * every symbol z interned before is still the one returned for its bytes - it is not interned a second time */
void h_sym_intern_after_remove(void) {
  S3View o, n;
  s3_any(&o);
  int x = s3_content(), y = s3_content(), z = s3_content();
  int sx = s3_slot_of(&o, x), sy = s3_slot_of(&o, y), sz = s3_slot_of(&o, z);
  __CPROVER_assume(sy >= 0 && y != x && y != z);
  janet_symbol_deinit(o.ptr[sy]);                                        /* another symbol is collected */
  S3_NO_RESIZE(x);
  const uint8_t *p1 = janet_symbol(s3_str(x), s3_len(x));
  if (sx >= 0) __CPROVER_assert(p1 == o.ptr[sx], "C03 symbols with the same bytes are identical: a symbol interned earlier is returned for its bytes after another symbol was removed");
  int moved = sx >= 0 && janet_vm.cache[sx] != p1;
  S3_NO_RESIZE(z);
  const uint8_t *p3 = janet_symbol(s3_str(z), s3_len(z));
  if (z == x) __CPROVER_assert(p3 == p1, "C03 symbols with the same bytes are identical: interning the same bytes again yields the same pointer");
  else if (sz >= 0) __CPROVER_assert(p3 == o.ptr[sz], "C03 symbols with the same bytes are identical: a symbol interned earlier is not interned a second time after another symbol was moved into a tombstone");
  int ok = s3_decode(&n);
  __CPROVER_assert(ok && s3_wf(&n), "C03 symcache: wf_cache holds after the sequence");
  if (moved && sz >= 0 && z != x) REACH("found symbol moved into the tombstone, then an older symbol looked up");
  REACH("sequence finished");
}
