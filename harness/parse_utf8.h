/* spec macros shared by the contract of janet_valid_utf8 and its loop invariants (expanded with gcc -E for the loop-contract file) */
#define U_CONT(k)   ((str[k] >> 6) == 2)                                  /* 10xxxxxx */
#define U_ASCII(k)  (str[k] < 0x80)
#define U_LEAD2(k)  (str[k] >= 0xC2 && str[k] <= 0xDF)                    /* C0, C1 would be overlong */
#define U_LEAD3(k)  (str[k] >= 0xE0 && str[k] <= 0xEF)
#define U_LEAD4(k)  (str[k] >= 0xF0 && str[k] <= 0xF7)
/* position g (g < lim) is part of a well-formed sequence that lies completely inside [0, lim):
 * either it starts one (lead byte followed by the right number of continuation bytes, shortest form),
 * or it is a continuation byte at distance 1..3 behind a lead byte that expects it. */
#define U_STARTS(g, lim) ( \
     U_ASCII(g) \
  || (U_LEAD2(g) && (g) + 1 < (lim) && U_CONT((g) + 1)) \
  || (U_LEAD3(g) && (g) + 2 < (lim) && U_CONT((g) + 1) && U_CONT((g) + 2) && (str[g] != 0xE0 || str[(g) + 1] >= 0xA0)) \
  || (U_LEAD4(g) && (g) + 3 < (lim) && U_CONT((g) + 1) && U_CONT((g) + 2) && U_CONT((g) + 3) && (str[g] != 0xF0 || str[(g) + 1] >= 0x90)))
#define U_CONTINUES(g) (U_CONT(g) && ( \
     ((g) >= 1 && (U_LEAD2((g) - 1) || U_LEAD3((g) - 1) || U_LEAD4((g) - 1))) \
  || ((g) >= 2 && (U_LEAD3((g) - 2) || U_LEAD4((g) - 2)) && U_CONT((g) - 1)) \
  || ((g) >= 3 && U_LEAD4((g) - 3) && U_CONT((g) - 1) && U_CONT((g) - 2))))
#define U_WELLFORMED_AT(g, lim) ((g) < (lim) ==> (U_STARTS(g, lim) || U_CONTINUES(g)))

/* outer loop: everything before i is well formed and no sequence straddles i */
#define U_OUTER_INV (0 <= i && i <= len && U_WELLFORMED_AT(g_u, i))
/* inner loop: str[i] is a lead byte announcing nexti - i bytes, the bytes in (i, j) are continuation bytes */
#define U_INNER_INV (0 <= i && i < len && i < j && j <= nexti && nexti <= len && U_WELLFORMED_AT(g_u, i) \
  && (nexti == i + 1 ? U_ASCII(i) : nexti == i + 2 ? ((str[i] >> 5) == 6) : nexti == i + 3 ? U_LEAD3(i) : (nexti == i + 4 && U_LEAD4(i))) \
  && (j > i + 1 ==> U_CONT(i + 1)) && (j > i + 2 ==> U_CONT(i + 2)) && (j > i + 3 ==> U_CONT(i + 3)))
