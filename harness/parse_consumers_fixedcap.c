/* C11 "Every byte sequence yields values or a reported parse error, never a crash": every Consumer of parse.c preserves the
 * representation invariant wf_parser, for EVERY byte, from EVERY well-formed parser state with nesting <= 3 (at most 4 states),
 * token buffer capacity <= BUFMAX and args capacity <= ARGMAX (bounded; all loops fully unwound, unwinding assertions on).
 * The generated memory-safety obligations (pointer/bounds/overflow) inside the real consumer, pushstate/popstate, push_buf/push_arg,
 * stringend, close_*, delim_error are part of the unit.  Also proved here: the FRAME used by parse.consume.linecol - no consumer
 * writes parser->line / column / lookback / flag.
 *
 * wf_parser (derived from janet_parser_init, pushstate/popstate, DEF_PARSER_STACK and the consumers themselves):
 *  W1 1 <= statecount <= statecap, bufcount <= bufcap, argcount <= argcap, the three stacks are allocated with their capacities
 *  W2 states[0] is the root container (consumer root, flags == PFLAG_CONTAINER)
 *  W3 every state below the top is dispatched by `root` (a delimiter container or a reader macro); the top state is one of the nine
 *     consumers with its local invariant (string escapes: digit counter/accumulator ranges; long strings: backtick counters; token:
 *     at least one buffered byte, or the byte being re-dispatched is a symbol character)
 *  W4 argn >= 0 in containers, sum of argn over container states == argcount, states[0].argn == pending
 *  W5 bufcount == 0 whenever the top state is dispatched by `root` or `atsign` (no stale token bytes)
 * Compiled in the JANET_NO_NANBOX configuration (tuples are unwrapped by popstate).  Allocation/GC entry points are stubs that
 * return fresh valid objects of the requested size; realloc is modelled by a typed copy into a fresh object.
 * VARIANT of parse_consumers.c for the expensive consumers (root, longstring): the three stacks start at their maximal capacity
 * (NEST / BUFMAX / ARGMAX) with symbolic counts, so the growth path is exercised exactly at count == capacity with a constant size. */
#include "prelude.h"

#ifndef BUFMAX
#define BUFMAX 5
#endif
#ifndef ARGMAX
#define ARGMAX 4
#endif
#define NEST 4          /* root + nesting <= 3 */
#define TICKMAX 3       /* longest run of backticks delimiting a long string */

static JanetParser P;

/* ---- libc / runtime stubs (installed with --replace-calls) ------------------------------------------------------- */
void *realloc_stub(void *old, size_t n) {
  __CPROVER_assert(n > 0, "C11 wf: stacks never shrink to size 0");
  if (old == (void *) P.states && old) {
    size_t cnt = P.statecap; __CPROVER_assert(n == 2 * (NEST + 1) * sizeof(JanetParseState), "C11 wf: state stack doubles"); JanetParseState *nw = malloc(2 * (NEST + 1) * sizeof(JanetParseState));
    __CPROVER_assert(n >= cnt * sizeof(JanetParseState), "C11 wf: state stack grows");
    __CPROVER_assert(cnt <= NEST, "harness bound"); for (size_t i = 0; i < cnt; i++) nw[i] = P.states[i];
    free(old); return nw;
  } else if (old == (void *) P.args && old) {
    size_t cnt = P.argcap; __CPROVER_assert(n == 2 * (ARGMAX + 1) * sizeof(Janet), "C11 wf: args stack doubles"); Janet *nw = malloc(2 * (ARGMAX + 1) * sizeof(Janet));
    __CPROVER_assert(n >= cnt * sizeof(Janet), "C11 wf: args stack grows");
    __CPROVER_assert(cnt <= ARGMAX, "harness bound"); for (size_t i = 0; i < cnt; i++) nw[i] = P.args[i];
    free(old); return nw;
  } else if (old == (void *) P.buf && old) {
    size_t cnt = P.bufcap; __CPROVER_assert(n == 2 * (BUFMAX + 1), "C11 wf: token buffer doubles"); uint8_t *nw = malloc(2 * (BUFMAX + 1));
    __CPROVER_assert(n >= cnt, "C11 wf: token buffer grows");
    __CPROVER_assert(cnt <= BUFMAX + 1, "harness bound"); for (size_t i = 0; i < cnt; i++) nw[i] = P.buf[i];
    free(old); return nw;
  }
  __CPROVER_assert(old == 0, "C11 wf: realloc only on the parser's own stacks");
  return malloc(n);
}
static Janet *tuple_alloc(int32_t n) {
  __CPROVER_assert(n >= 0 && n <= ARGMAX + 1, "C11 wf: tuple length within the args stack");
  JanetTupleHead *h = malloc(sizeof(JanetTupleHead) + (size_t) n * sizeof(Janet));
  h->length = n;
  return (Janet *) h->data;
}
Janet *tuple_begin_stub(int32_t n) { return tuple_alloc(n); }
const Janet *tuple_end_stub(Janet *t) { return t; }
const Janet *tuple_n_stub(const Janet *vals, int32_t n) {
  Janet *t = tuple_alloc(n);
  for (int32_t i = 0; i < n; i++) t[i] = vals[i];
  return t;
}
JanetArray *array_stub(int32_t cap) {
  __CPROVER_assert(cap >= 0 && cap <= ARGMAX, "C11 wf: array literal length within the args stack");
  JanetArray *a = malloc(sizeof(JanetArray));
  a->data = cap ? malloc((size_t) cap * sizeof(Janet)) : 0; a->capacity = cap; a->count = 0;
  return a;
}
JanetBuffer *buffer_stub(int32_t cap) {
  __CPROVER_assert(cap >= 0, "C11 wf: buffer capacity is not negative");
  JanetBuffer *b = malloc(sizeof(JanetBuffer));
  b->capacity = cap + 1; b->data = malloc((size_t) cap + 1); b->count = 0;
  return b;
}
/* byte-range consumers of the runtime: assert that parse.c hands them a readable range */
const uint8_t *string_stub(const uint8_t *buf, int32_t len) {
  __CPROVER_assert(len >= 0 && (len == 0 || __CPROVER_r_ok(buf, len)), "C11 wf: janet_string gets a readable range");
  return nd_ptr();
}
const uint8_t *symbol_stub(const uint8_t *buf, int32_t len) {
  __CPROVER_assert(len >= 0 && (len == 0 || __CPROVER_r_ok(buf, len)), "C11 wf: janet_symbol/keyword gets a readable range");
  return nd_ptr();
}
void push_bytes_stub(JanetBuffer *b, const uint8_t *buf, int32_t len) {
  __CPROVER_assert(len >= 0 && (len == 0 || __CPROVER_r_ok(buf, len)), "C11 wf: janet_buffer_push_bytes gets a readable range");
}
int scan_numeric_stub(const uint8_t *str, int32_t len, Janet *out) {
  __CPROVER_assert(len >= 0 && (len == 0 || __CPROVER_r_ok(str, len)), "C11 wf: number scanner gets a readable range");
  if (nd_int()) return 1;
  out->type = nd_int() ? JANET_NUMBER : JANET_ABSTRACT; out->as.u64 = nd_u64();
  return 0;
}
int scan_number_stub(const uint8_t *str, int32_t len, double *out) {
  __CPROVER_assert(len >= 0 && (len == 0 || __CPROVER_r_ok(str, len)), "C11 wf: number scanner gets a readable range");
  if (nd_int()) return 1;
  *out = nd_double();
  return 0;
}

/* ---- wf_parser ---------------------------------------------------------------------------------------------------- */
#define ST(k) (P.states[k])
#define IS_CONTAINER(k) ((ST(k).flags & PFLAG_CONTAINER) != 0)
static int one_delim(int f) {
  int d = f & (PFLAG_PARENS | PFLAG_SQRBRACKETS | PFLAG_CURLYBRACKETS);
  return d == PFLAG_PARENS || d == PFLAG_SQRBRACKETS || d == PFLAG_CURLYBRACKETS;
}
/* a state dispatched by `root` above index 0: delimiter container (optionally @) or reader macro */
static int wf_inner(size_t k) {
  int f = ST(k).flags;
  if (ST(k).consumer != root) return 0;
  if (f & PFLAG_CONTAINER) return one_delim(f) && !(f & PFLAG_READERMAC) && ST(k).argn >= 0;
  return (f & PFLAG_READERMAC) != 0;
}
/* byte that is (re-)dispatched next within the current janet_parser_consume call, or -1: a consumer that answers "not consumed"
 * hands the same byte to the new top state (root -> tokenchar relies on it: the token buffer is still empty then) */
static int g_next = -1;
static int32_t g_tickmax = TICKMAX;   /* harness bound on the backtick run (one more after a call) */
static int wf_top(size_t k) {
  Consumer c = ST(k).consumer; int f = ST(k).flags; int32_t n = ST(k).argn, cnt = ST(k).counter;
  if (f & PFLAG_CONTAINER) return wf_inner(k);
  if (c == root) return wf_inner(k);
  /* once an error is latched nothing is dispatched any more (janet_parser_checkdead) until janet_parser_error flushes the stack:
   * the scratch fields of a non-container top state are dead then */
  if (P.error) return c == tokenchar || c == comment || c == atsign || c == stringchar || c == escape1 || c == escapeh || c == escapeu || c == longstring;
  if (c == tokenchar) return (f & PFLAG_TOKEN) && (P.bufcount >= 1 || (g_next >= 0 && janet_is_symbol_char((uint8_t) g_next)));
  if (c == comment) return (f & PFLAG_COMMENT) != 0;
  if (c == atsign) return (f & PFLAG_ATSYM) != 0;
  if (c == stringchar || c == escape1) return (f & PFLAG_STRING) && !(f & PFLAG_LONGSTRING);
  if (c == escapeh) return (f & PFLAG_STRING) && !(f & PFLAG_LONGSTRING) && cnt >= 1 && cnt <= 2 && n >= 0 && n < (1 << (4 * (2 - cnt)));
  if (c == escapeu) return (f & PFLAG_STRING) && !(f & PFLAG_LONGSTRING) && cnt >= 1 && cnt <= 6 && n >= 0 && n < (1 << (4 * (6 - cnt)));
  if (c == longstring) {
    if (!(f & PFLAG_LONGSTRING) || (f & PFLAG_STRING) || n < 0 || n > g_tickmax) return 0;
    if ((f & PFLAG_INSTRING) && (f & PFLAG_END_CANDIDATE)) return 0;
    if (f & PFLAG_INSTRING) return n >= 1;
    if (f & PFLAG_END_CANDIDATE) return n >= 1 && cnt >= 1 && cnt <= n;
    return 1;
  }
  return 0;
}
static int wf_parser(size_t maxstates) {
  if (!(P.statecount >= 1 && P.statecount <= P.statecap && P.statecount <= maxstates)) return 0;
  if (!(P.bufcount <= P.bufcap && P.argcount <= P.argcap)) return 0;
  if (!__CPROVER_rw_ok(P.states, P.statecap * sizeof(JanetParseState))) return 0;
  if (P.bufcap && !__CPROVER_rw_ok(P.buf, P.bufcap)) return 0;
  if (P.argcap && !__CPROVER_rw_ok(P.args, P.argcap * sizeof(Janet))) return 0;
  if (!(ST(0).consumer == root && ST(0).flags == PFLAG_CONTAINER && ST(0).argn >= 0 && (size_t) ST(0).argn == P.pending)) return 0;
  size_t sum = 0;
  for (size_t k = 0; k < NEST + 1; k++) {
    if (k >= P.statecount) break;
    if (k >= 1 && k + 1 < P.statecount && !wf_inner(k)) return 0;
    if (k >= 1 && k + 1 == P.statecount && !wf_top(k)) return 0;
    if (IS_CONTAINER(k)) sum += (size_t) ST(k).argn;
  }
  if (sum != P.argcount) return 0;
  /* W5 the token buffer is empty whenever the top state does not collect bytes */
  Consumer tc = ST(P.statecount - 1).consumer;
  if ((tc == root || tc == atsign) && P.bufcount != 0) return 0;
  return 1;
}

static void setup(void) {
  P.statecount = nd_size(); P.statecap = nd_size();
  __CPROVER_assume(P.statecount >= 1 && P.statecount <= NEST && P.statecap == NEST);
  P.states = malloc(NEST * sizeof(JanetParseState));
  P.bufcount = nd_size(); P.bufcap = nd_size();
  __CPROVER_assume(P.bufcount <= P.bufcap && P.bufcap == BUFMAX);
  P.buf = malloc(BUFMAX);
  P.argcount = nd_size(); P.argcap = nd_size();
  __CPROVER_assume(P.argcount <= P.argcap && P.argcap == ARGMAX);
  P.args = malloc(ARGMAX * sizeof(Janet));
  P.pending = nd_size(); P.line = nd_size(); P.column = nd_size(); P.lookback = nd_int();
  P.flag = 0; P.error = 0;                        /* janet_parser_consume dispatches only on a live parser without latched error */
  __CPROVER_assume(wf_parser(NEST));              /* representation invariant of the input parser */
  /* values on the args stack are ordinary values; a tuple among them is a valid tuple (popstate writes its source map) */
  for (size_t i = 0; i < ARGMAX; i++) if (i < P.argcount) { P.args[i].type = JANET_NUMBER; P.args[i].as.u64 = nd_u64(); }
}

#define ERR_REACH_0(NAME)
#define ERR_REACH_1(NAME) if (P.error) REACH(#NAME " reports a parse error");
#define CONSUMER_HARNESS_F(HNAME, NAME, ERR, BYTES) \
void h_consumer_##HNAME(void) { \
  uint8_t c = nd_u8(); \
  __CPROVER_assume(BYTES); \
  g_next = c;                                      /* the byte about to be dispatched */ \
  setup(); \
  JanetParseState *top = P.states + P.statecount - 1; \
  __CPROVER_assume(top->consumer == NAME); \
  size_t line0 = P.line, col0 = P.column; int lb0 = P.lookback; \
  int r = NAME(&P, top, c); \
  g_next = r ? -1 : c; g_tickmax = TICKMAX + 1; \
  __CPROVER_assert(wf_parser(NEST + 1), "C11 wf_parser is preserved by " #NAME " for every byte"); \
  __CPROVER_assert(P.line == line0 && P.column == col0 && P.lookback == lb0 && P.flag == 0, "C11 frame: " #NAME " leaves line/column/lookback/flag alone"); \
  __CPROVER_assert(r == 0 || r == 1, "C11 " #NAME " answers consumed / not consumed"); \
  REACH("normal return of " #NAME); \
  ERR_REACH_##ERR(NAME) \
}
#define CONSUMER_HARNESS(NAME, ERR) CONSUMER_HARNESS_F(NAME, NAME, ERR, 1)
CONSUMER_HARNESS(comment, 0)
CONSUMER_HARNESS(escape1, 1)
CONSUMER_HARNESS(escapeh, 1)
CONSUMER_HARNESS(escapeu, 1)
CONSUMER_HARNESS(stringchar, 0)
CONSUMER_HARNESS(longstring, 0)
CONSUMER_HARNESS(atsign, 0)
CONSUMER_HARNESS(tokenchar, 1)
/* root is split by byte class: closing delimiters (close_* + popstate) / everything else (pushstate, whitespace, errors) */
#define IS_CLOSER(c) ((c) == ')' || (c) == ']' || (c) == '}')
CONSUMER_HARNESS_F(root_open, root, 1, !IS_CLOSER(c))
CONSUMER_HARNESS_F(root_close, root, 1, IS_CLOSER(c))
/* string consumers with the buffer post-processing of stringend cut out (stringend_stub): state-stack effects stay real */
int stringend_stub(JanetParser *p, JanetParseState *state) {
  __CPROVER_assert(p == &P && state == P.states + P.statecount - 1 && P.statecount >= 2, "C11 wf: stringend is called on the top state above the root");
  __CPROVER_assert((state->flags & (PFLAG_STRING | PFLAG_LONGSTRING)) != 0, "C11 wf: stringend is called on a string state");
  Janet ret; ret.type = (state->flags & PFLAG_BUFFER) ? JANET_BUFFER : JANET_STRING; ret.as.pointer = nd_ptr();
  p->bufcount = 0;
  popstate(p, ret);
  return 1;
}
