/* C15 (and C02): the inline expansion of variadic arithmetic (cfuns.c opreduce) and of chained comparisons (compreduce)
 * must compute what the function computes: the left fold over the ORIGINAL argument values, in argument order, also when the
 * result is written into a register that is itself one of the arguments (set x (+ a b x)) / (set x (< a x b)).
 * Method: the emit functions are replaced by stubs that EXECUTE the emitted instruction on a symbolic register file (8
 * registers with arbitrary 32-bit contents; the operator is interpreted as wrapping subtraction resp. signed less-than,
 * jumps are followed), so the postcondition compares the final target register with the fold over the entry values. */
#include "prelude.h"
#define NREG 8
uint32_t R[NREG], R0[NREG];
int g_n; int g_kind[8]; int g_d[8], g_x[8], g_y[8]; int g_imm[8]; int32_t g_vraw[2 + 8];
JanetSlot g_hint; int g_use_hint; int g_fresh;
static int reg(JanetSlot s) { __CPROVER_assert(s.index >= 0 && s.index < NREG, "register operand in the modelled file"); return s.index; }
/* kinds: 1 = op d,x,y   2 = op-immediate d,x,imm   3 = conditional jump on d (skip = buffer word >> 16) */
int32_t emit_sss_rec(JanetCompiler *c, uint8_t op, JanetSlot s1, JanetSlot s2, JanetSlot s3, int wr) { int k = g_n++; g_kind[k] = 1; g_d[k] = reg(s1); g_x[k] = reg(s2); g_y[k] = reg(s3); c->buffer[k] = op; g_vraw[1]++; return k; }
int32_t emit_ssi_rec(JanetCompiler *c, uint8_t op, JanetSlot s1, JanetSlot s2, int8_t imm, int wr) { int k = g_n++; g_kind[k] = 2; g_d[k] = reg(s1); g_x[k] = reg(s2); g_imm[k] = imm; c->buffer[k] = op; g_vraw[1]++; return k; }
int32_t emit_si_rec(JanetCompiler *c, uint8_t op, JanetSlot s, int16_t immediate, int wr) { int k = g_n++; g_kind[k] = 3; g_d[k] = reg(s); g_x[k] = op; c->buffer[k] = op; g_vraw[1]++; return k; }
JanetSlot gettarget_stub(JanetFopts opts) { if (g_use_hint) return g_hint; JanetSlot s; s.index = 7; s.envindex = -1; s.flags = 0; g_fresh = 1; return s; }
JanetSlot farslot_stub(JanetCompiler *c) { JanetSlot s; s.index = 6; s.envindex = -1; s.flags = JANET_SLOTTYPE_ANY; g_fresh = 1; return s; }
/* janet_v_grow for the label vector (int32 items): a static block with room for 8 items, count preserved */
int32_t g_lraw[2 + 8];
void *v_grow_stub(void *v, int32_t increment, int32_t itemsize) { __CPROVER_assert(itemsize == 4, "label vector"); if (!v) g_lraw[1] = 0; g_lraw[0] = 8; return g_lraw + 2; }
void sfree_stub(void *p) { }
static JanetSlot local(int idx) { JanetSlot s; s.index = idx; s.envindex = -1; s.flags = JANET_SLOTTYPE_ANY; return s; }
static void setup(JanetCompiler *comp, JanetFopts *opts, JanetSlot *args, int n) {
  g_vraw[0] = 8; g_vraw[1] = 0; comp->buffer = (uint32_t *)(g_vraw + 2); opts->compiler = comp; opts->flags = 0;
  for (int i = 0; i < NREG; i++) { R[i] = nd_u32(); R0[i] = R[i]; }
  for (int i = 0; i < n; i++) { int idx = nd_uint() % 6; args[i] = local(idx); }
  /* the result register: a fresh one, or a hinted local that may coincide with any argument (set x (op ... x ...)) */
  g_use_hint = nd_int() & 1; g_hint = local(nd_uint() % 6); g_n = 0; g_fresh = 0;
}
static void run_arith(void) { for (int k = 0; k < 8; k++) if (k < g_n) { if (g_kind[k] == 1) R[g_d[k]] = R[g_x[k]] - R[g_y[k]]; else if (g_kind[k] == 2) R[g_d[k]] = R[g_x[k]] - (uint32_t)(int32_t) g_imm[k]; } }
void h_opreduce3(void) {
  JanetCompiler comp; JanetFopts opts; static int32_t araw[2 + 3 * 16]; araw[0] = 3; araw[1] = 3; JanetSlot *args = (JanetSlot *)(araw + 2);
  setup(&comp, &opts, args, 3);
  JanetSlot t = opreduce(opts, args, JOP_SUBTRACT, 0, janet_wrap_nil(), janet_wrap_nil());
  run_arith();
  uint32_t want = (R0[args[0].index] - R0[args[1].index]) - R0[args[2].index];
  __CPROVER_assert(R[reg(t)] == want, "C15 inline variadic arithmetic: (op a b c) is the left fold over the ORIGINAL argument values, also when the result register is one of the arguments");
  REACH("opreduce returns");
}
void h_compreduce3(void) {
  JanetCompiler comp; JanetFopts opts; static int32_t araw[2 + 3 * 16]; araw[0] = 3; araw[1] = 3; JanetSlot *args = (JanetSlot *)(araw + 2);
  setup(&comp, &opts, args, 3);
  JanetSlot t = compreduce(opts, args, JOP_LESS_THAN, 0, 0);
  /* execute: compare, jump-if-not to the end, compare */
  int pc = 0;
  for (int step = 0; step < 8; step++) if (pc < g_n) {
    int k = pc;
    if (g_kind[k] == 1) { R[g_d[k]] = ((int32_t) R[g_x[k]] < (int32_t) R[g_y[k]]); pc++; }
    else if (g_kind[k] == 3) { int skip = (int)(comp.buffer[k] >> 16); int taken = (g_x[k] == JOP_JUMP_IF_NOT) ? !R[g_d[k]] : !!R[g_d[k]]; pc = taken ? k + skip : k + 1; }
    else pc++;
  }
  int a = (int32_t) R0[args[0].index], b = (int32_t) R0[args[1].index], c3 = (int32_t) R0[args[2].index];
  __CPROVER_assert(pc == g_n, "C15 inline chained comparison: every jump lands on the common end");
  __CPROVER_assert((R[reg(t)] != 0) == (a < b && b < c3), "C15 inline chained comparison: (< a b c) is (a < b) and (b < c) over the ORIGINAL argument values, also when the result register is one of the arguments");
  REACH("compreduce returns");
}
