/* C03: "structs compare by content - independent of how, when or in which insertion order they were built".
 *
 * INDUCTIVE STEP of the canonical-layout argument on the REAL janet_struct_put_ext (struct.c):
 *
 *   requires  wf_struct(st)            -- st is ANY well-formed partially built struct of capacity V2_CAP: any number of
 *                                         entries already present, any collision pattern (hash is a symbolic table)
 *   ensures   wf_struct(st)            -- the robin-hood representation invariant is preserved
 *             content(st) == content_old(st) + {key -> value}      (map view: nothing lost, nothing invented)
 *             st is bit-identical to EVERY well-formed bucket array with the same content
 *
 * The last clause is the uniqueness of the representation: a well-formed bucket array is a function of the key/value SET
 * alone.  Together with "the empty struct is well-formed" (all buckets nil - janet_struct_begin/janet_memempty) the three
 * clauses give by induction on the number of insertions - for ANY number of keys, not only the 2-3 that units
 * struct.layout.* enumerate - that every insertion order of the same pairs ends in the same bucket array, hence the same
 * cached hash (janet_struct_end hashes the buckets in order) and janet_equals (bucket by bucket).
 *
 * wf_struct (derived from the code: "Runs will be in sorted order, as the collisions resolver essentially performs an
 * in-place insertion sort"): with home(k) = hash(k) & (cap-1), dist(i) = (i - home(key[i])) & (cap-1)
 *   W1  every bucket is either EMPTY (canonical nil key, nil value - janet_memempty) or holds a non-nil non-NaN key with a
 *       non-nil value; keys are pairwise different (janet_equals)
 *   W2  ordering / reachability: an entry at bucket i with dist(i) >= 1 has an occupied predecessor bucket p = i-1 (cyclic)
 *       whose entry WINS the bucket against it under the code's order:
 *            (dist(p), hash(p), key(p))  >  (dist(i) - 1, hash(i), key(i))      lexicographic; hash as int32, keys by compare
 *       (by induction along the run: every bucket from home(key[i]) to i is occupied - the key is reachable from its home
 *        bucket without crossing an empty bucket - and along a run entries are sorted by (home, hash desc, key desc))
 *   W3  the temporary count kept in head->hash is the exact number of occupied buckets and is <= head->length
 *   W4  capacity is a power of two (janet_tablen)
 * With a completely full table the cyclic order has no anchor (a rotated table satisfies W2 as well), therefore uniqueness
 * is claimed for results with at least one empty bucket - always the case in real structs: capacity = janet_tablen(2*length)
 * > 2*length.  Preservation of wf_struct is proved up to and including the full table.
 *
 * janet_hash / janet_compare / janet_equals on KEYS are replaced by their contracts (what units val.* prove of the real
 * ones): hash an ARBITRARY function of the key (symbolic table g2_h[], so every bucket/collision/tie pattern is covered),
 * compare a total order consistent with equals.  Abstract key universe: V2_K pairwise different keys (the numbers 1..V2_K).
 * Bounded: capacity V2_CAP (and, where a unit defines V2_MAXLEN, head->length <= V2_MAXLEN).
 *
 * Mutants: dropping `hash = otherhash;` in the swap branch (the carried key keeps the hash of the key that displaced it) needs
 * four keys - two with home h, two with home h+1 - and is invisible to units that build from the empty struct with 2-3 keys;
 * here it breaks W2.  Dropping `dist = otherdist;` is an EQUIVALENT mutant on well-formed input (checked with this harness:
 * every obligation including the canonical-layout one still holds): after the first swap the carried entry preceded every
 * later entry of the run, so it wins every later comparison with its true distance and a fortiori with a larger stale one. */
#include "prelude.h"

#ifndef V2_CAP
#define V2_CAP 4
#endif
#ifndef V2_K
#define V2_K V2_CAP
#endif
#define V2_MASK (V2_CAP - 1)

int32_t g2_h[V2_K + 1];            /* the hash function on keys: arbitrary */
static Janet v2_keytab[V2_K + 1];   /* key k is the number (double) k */

static int v2_kid(Janet x) {        /* 1..V2_K for the keys of the universe, 0 otherwise (nil, NaN) */
  for (int i = 1; i <= V2_K; i++) if (x.u64 == v2_keytab[i].u64) return i;
  return 0;
}
/* contracts of the callees on keys */
int32_t janet_hash(Janet x) { return g2_h[v2_kid(x)]; }
int janet_compare(Janet a, Janet b) { int x = v2_kid(a), y = v2_kid(b); return x < y ? -1 : x > y ? 1 : 0; }
int janet_equals(Janet a, Janet b) { return v2_kid(a) == v2_kid(b); }

/* pre-state snapshot */
typedef struct { int32_t length, hash; Janet key[V2_CAP], value[V2_CAP]; } V2Snap;

static int v2_is_nilword(Janet x) { return x.u64 == janet_wrap_nil().u64; }
static int v2_nonnil_value(Janet v) { return !janet_checktype(v, JANET_NIL); }

/* (dist, hash, key) of the entry a  >  (db, hash, key) of the entry b, as janet_struct_put_ext decides it (status == 1) */
static int v2_wins(int32_t da, int ka, int32_t db, int kb) {
  if (da != db) return da > db;
  if (g2_h[ka] != g2_h[kb]) return g2_h[ka] > g2_h[kb];
  return ka > kb;
}

/* the representation invariant; *mask_out = set of key ids present */
static int v2_wf(const JanetKV *st, unsigned *mask_out) {
  const JanetStructHead *h = janet_struct_head(st);
  int ok = 1, n = 0; unsigned mask = 0;
  int kid[V2_CAP];
  if (h->capacity != V2_CAP) ok = 0;                                   /* W4 (V2_CAP is a power of two, checked in the harness) */
  for (int i = 0; i < V2_CAP; i++) {
    kid[i] = v2_kid(st[i].key);
    if (kid[i] == 0) {                                                 /* W1 empty */
      if (!v2_is_nilword(st[i].key) || !v2_is_nilword(st[i].value)) ok = 0;
    } else {
      if (!v2_nonnil_value(st[i].value)) ok = 0;
      if (mask & (1u << kid[i])) ok = 0;                               /* W1 distinct */
      mask |= 1u << kid[i];
      n++;
    }
  }
  for (int i = 0; i < V2_CAP; i++) {                                   /* W2 */
    if (kid[i] == 0) continue;
    int32_t d = (i - (int32_t)((uint32_t) g2_h[kid[i]] & V2_MASK)) & V2_MASK;
    if (d == 0) continue;
    int p = (i - 1) & V2_MASK;
    if (kid[p] == 0) { ok = 0; continue; }
    int32_t dp = (p - (int32_t)((uint32_t) g2_h[kid[p]] & V2_MASK)) & V2_MASK;
    if (!v2_wins(dp, kid[p], d - 1, kid[i])) ok = 0;
  }
  if (h->hash != n || n > h->length) ok = 0;                           /* W3 */
  *mask_out = mask;
  return ok;
}

/* value stored for key id k, or nil word */
static Janet v2_lookup_st(const JanetKV *st, int k) {
  for (int i = 0; i < V2_CAP; i++) if (v2_kid(st[i].key) == k) return st[i].value;
  return janet_wrap_nil();
}
static Janet v2_lookup_snap(const V2Snap *o, int k) {
  for (int i = 0; i < V2_CAP; i++) if (v2_kid(o->key[i]) == k) return o->value[i];
  return janet_wrap_nil();
}

/* an arbitrary bucket array: every bucket empty or an arbitrary key of the universe with an arbitrary value */
static JanetKV *v2_any(void) {
  JanetStructHead *h = malloc(sizeof(JanetStructHead) + V2_CAP * sizeof(JanetKV));
  __CPROVER_assume(h != NULL);
  h->capacity = V2_CAP;
  h->length = nd_i32();
  h->hash = nd_i32();
  h->proto = NULL;
  JanetKV *st = (JanetKV *) h->data;
  for (int i = 0; i < V2_CAP; i++) {
    int k = nd_int(); __CPROVER_assume(k >= 0 && k <= V2_K);
    if (k == 0) { st[i].key = janet_wrap_nil(); st[i].value = janet_wrap_nil(); }
    else { st[i].key = v2_keytab[k]; st[i].value.u64 = nd_u64(); }
  }
  return st;
}

static void v2_init(void) {
  __CPROVER_assert((V2_CAP & (V2_CAP - 1)) == 0 && V2_K < 31, "C03 unit capacity is a power of two");
  for (int i = 0; i <= V2_K; i++) g2_h[i] = nd_i32();
  v2_keytab[0] = janet_wrap_nil();
  for (int i = 1; i <= V2_K; i++) v2_keytab[i] = janet_wrap_number((double) i);
}

/* janet_struct_put_ext: inductive step */
void h_struct_put_step(void) {
  v2_init();
  JanetKV *a = v2_any();
  JanetStructHead *ha = janet_struct_head(a);
  unsigned m0;
  __CPROVER_assume(v2_wf(a, &m0));                       /* requires wf_struct(st) */
#ifdef V2_MAXLEN
  __CPROVER_assume(ha->length <= V2_MAXLEN);              /* optional bound on the number of entries (load factor) */
#endif
  V2Snap o;                                               /* pre-state */
  o.length = ha->length; o.hash = ha->hash;
  for (int i = 0; i < V2_CAP; i++) { o.key[i] = a[i].key; o.value[i] = a[i].value; }

  /* the pair to insert: any key of the universe, or nil, or NaN; any value word including nil */
  int k = nd_int(); __CPROVER_assume(k >= 0 && k <= V2_K + 1);
  Janet key;
  if (k == 0) key = janet_wrap_nil();
  else if (k == V2_K + 1) { key.u64 = nd_u64(); __CPROVER_assume(janet_checktype(key, JANET_NUMBER) && isnan(janet_unwrap_number(key))); }
  else key = v2_keytab[k];
  Janet value; value.u64 = nd_u64();
  int replace = nd_int();
  int kk = (k >= 1 && k <= V2_K) ? k : 0;

  janet_struct_put_ext(a, key, value, replace);

  int ignored = kk == 0 || !v2_nonnil_value(value);
  int present = kk != 0 && ((m0 >> kk) & 1);
  int full = o.hash == o.length;
  int inserted = !ignored && !full && !present;
  int replaced = !ignored && !full && present && replace;

  unsigned m1;
  int wf1 = v2_wf(a, &m1);
  __CPROVER_assert(wf1, "C03 put preserves the robin-hood representation invariant wf_struct (runs ordered by (distance, hash, compare), every key reachable from its home bucket)");
  __CPROVER_assert(m1 == (inserted ? (m0 | (1u << kk)) : m0), "C03 put: key set afterwards is the old key set plus the new key (nil/NaN keys, nil values and extra items are ignored)");
  __CPROVER_assert(ha->hash == o.hash + (inserted ? 1 : 0), "C03 put: temporary count is incremented exactly for a new key");
  __CPROVER_assert(ha->length == o.length && ha->capacity == V2_CAP && ha->proto == NULL, "C03 put: length, capacity and prototype are not touched");
  int g = nd_int(); __CPROVER_assume(g >= 1 && g <= V2_K);   /* ghost key: stands for every key of the universe */
  Janet want = (g == kk && (inserted || replaced)) ? value : v2_lookup_snap(&o, g);
  __CPROVER_assert(v2_lookup_st(a, g).u64 == want.u64, "C03 put: every key keeps its value; the new key maps to the new value (a duplicate key replaces the value only if asked to)");
  if (!inserted && !replaced)
    for (int i = 0; i < V2_CAP; i++)
      __CPROVER_assert(a[i].key.u64 == o.key[i].u64 && a[i].value.u64 == o.value[i].u64, "C03 put: an ignored pair leaves every bucket unchanged");

  /* uniqueness: ANY well-formed bucket array with the same content - e.g. one built in any other insertion order - is
   * bit-identical (as long as one bucket is empty; see header) */
#ifndef V2_NO_UNIQ
  JanetKV *b = v2_any();
  unsigned mb;
  if (v2_wf(b, &mb) && mb == m1 && v2_lookup_st(b, g).u64 == v2_lookup_st(a, g).u64 && ha->hash < V2_CAP) {
    int i = nd_int(); __CPROVER_assume(i >= 0 && i < V2_CAP);
    __CPROVER_assert(a[i].key.u64 == b[i].key.u64, "C03 struct bucket layout after put is the canonical layout of the key set (independent of insertion order): keys");
    __CPROVER_assert(v2_kid(a[i].key) != g || a[i].value.u64 == b[i].value.u64, "C03 struct bucket layout after put is the canonical layout of the key set (independent of insertion order): values");
  }
#endif
  if (inserted) REACH("new key inserted");
  if (inserted && ha->hash >= 4) REACH("fourth key inserted");
  REACH("put returned");
}
