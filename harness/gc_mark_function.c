/* C01: janet_mark_function - an unmarked closure is marked, every captured environment envs[0..environments_length) is handed
 * to janet_mark_funcenv (ghost index g_idx: one proof for every index, any number of environments) and its definition to
 * janet_mark_funcdef; a partially constructed function (def == NULL) is only marked. */
#include "gc_mark.h"
int32_t g_idx; int32_t g_nenv;

static void janet_mark_function_spec(JanetFunction *func)
__CPROVER_requires(g_nenv >= 0 && g_nenv <= (1 << 24))
__CPROVER_requires(__CPROVER_is_fresh(func, sizeof(JanetFunction) + sizeof(JanetFuncEnv *) * (size_t) g_nenv))
__CPROVER_requires(func->def == (JanetFuncDef *) 0 || __CPROVER_is_fresh(func->def, sizeof(JanetFuncDef)))
/* representation invariant (janet_thunk, janet_vm JOP_CLOSURE, unmarshal): the closure block has one slot per captured environment */
__CPROVER_requires(func->def != (JanetFuncDef *) 0 ==> func->def->environments_length == g_nenv)
__CPROVER_requires(g_idx >= 0 && (g_idx < g_nenv ==> g_env == (const void *) func->envs[g_idx]))
__CPROVER_requires(g_def == (const void *) func->def)
__CPROVER_requires(!g_env_seen && !g_def_seen && g_env_calls == 0 && g_def_calls == 0)
__CPROVER_assigns(func->gc.flags, g_env_seen, g_env_calls, g_def_seen, g_def_calls)
__CPROVER_ensures(func->gc.flags == (__CPROVER_old(func->gc.flags) | JANET_MEM_REACHABLE))
/* C01: the edge to every captured environment */
__CPROVER_ensures((!(__CPROVER_old(func->gc.flags) & JANET_MEM_REACHABLE) && func->def != (JanetFuncDef *) 0 && g_idx < g_nenv) ==> g_env_seen)
__CPROVER_ensures((!(__CPROVER_old(func->gc.flags) & JANET_MEM_REACHABLE) && func->def != (JanetFuncDef *) 0) ==> g_env_calls == (unsigned) g_nenv)
/* C01: the edge to the definition */
__CPROVER_ensures((!(__CPROVER_old(func->gc.flags) & JANET_MEM_REACHABLE) && func->def != (JanetFuncDef *) 0) ==> (g_def_seen && g_def_calls == 1))
/* visited closures are not traversed again */
__CPROVER_ensures((__CPROVER_old(func->gc.flags) & JANET_MEM_REACHABLE) ==> (g_env_calls == 0 && g_def_calls == 0))
;

void h_mark_function(void) {
  JanetFunction *f;
  janet_mark_function(f);
  REACH("janet_mark_function returns");
}
