/* C05 signal coercion: janet_signalv (capi.c), plain mode. The function never returns; its observable result is the state
 * in which longjmp is called. longjmp is replaced (call-site replacement) by a stub that ASSERTS the contract:
 *   - without coerce_error: signal and value arrive unchanged ("values passed through any signal arrive unchanged")
 *   - under coerce_error (janet_call from C): every non-OK signal becomes ERROR; an error keeps its value; an await (EVENT)
 *     bumps the root fiber's generation so that a stale wake-up cannot resume it
 *   - the jump target is the innermost janet_try (janet_vm.signal_buf), the value is in janet_vm.return_reg, the running
 *     fiber is marked DID_LONGJUMP and nothing else of it changes.
 * capi.c defines the panic family itself: unit uses -DVC_OWN_PANIC. */
#include "fib_resume.h"
#define JBITS(x) ((x).u64)
static int g_sig0, g_coerce0; static uint64_t g_msg0; static uint32_t g_sched0; static int32_t g_flags0;
static JanetFiber g_cur, g_root; static jmp_buf g_buf; static Janet g_reg; static int g_has_cur, g_has_root, g_root_is_cur;

void fib_longjmp_stub(struct __jmp_buf_tag *env, int val) {
  REACH("janet_signalv reaches longjmp");
  JanetFiber *root = g_has_root ? (g_root_is_cur ? &g_cur : &g_root) : (JanetFiber *)0;
  __CPROVER_assert((void *)env == (void *)&g_buf && janet_vm.signal_buf == &g_buf, "C05 signalv: jumps to the innermost janet_try");
  __CPROVER_assert(val >= 0 && val <= JANET_SIGNAL_USER9, "C05 signalv: the jump value is a signal");
  __CPROVER_assert(!(g_coerce0 && g_sig0 != JANET_SIGNAL_OK) ==> (val == g_sig0 && JBITS(g_reg) == g_msg0),
                   "C05 signalv: without coercion signal and value arrive unchanged");
#ifdef FIB_DELIVERED
  /* ISO C 7.13.2.1: longjmp(env, 0) makes setjmp return 1. The signal that janet_continue_no_check sees is therefore: */
  int delivered = val ? val : 1;
  __CPROVER_assert(delivered == ((g_coerce0 && g_sig0 != JANET_SIGNAL_OK) ? JANET_SIGNAL_ERROR : g_sig0),
                   "C05 signalv: the signal delivered to the enclosing janet_try is the signal raised (or ERROR when coerced)");
#endif
  __CPROVER_assert((g_coerce0 && g_sig0 != JANET_SIGNAL_OK) ==> val == JANET_SIGNAL_ERROR, "C05 signalv: under coerce_error every non-OK signal becomes ERROR");
  __CPROVER_assert((g_coerce0 && g_sig0 == JANET_SIGNAL_ERROR) ==> JBITS(g_reg) == g_msg0, "C05 signalv: a coerced error keeps its value");
  if (root) {
    __CPROVER_assert(root->sched_id == g_sched0 + ((g_coerce0 && g_sig0 == JANET_SIGNAL_EVENT) ? 1u : 0u),
                     "C05 signalv: a coerced await bumps the root fiber's generation, nothing else does");
  }
  if (g_has_cur) {
    __CPROVER_assert(g_cur.flags == (g_flags0 | JANET_FIBER_DID_LONGJUMP), "C05 signalv: the running fiber is marked DID_LONGJUMP, no other flag (status) changes");
  }
  __CPROVER_assert(janet_vm.return_reg == &g_reg && janet_vm.coerce_error == g_coerce0, "C05 signalv: VM registers are left for janet_restore");
  if (g_coerce0 && g_sig0 != JANET_SIGNAL_OK && g_sig0 != JANET_SIGNAL_ERROR) REACH("coerced non-error signal");
  __CPROVER_assume(0);
}

void h_signalv(void) {
  g_sig0 = nd_int(); __CPROVER_assume(IS_SIGNAL(g_sig0));          /* JanetSignal */
  Janet msg; g_msg0 = JBITS(msg);
  g_has_cur = nd_int() != 0; g_has_root = nd_int() != 0; g_root_is_cur = g_has_cur && nd_int() != 0;
  g_cur.flags = nd_i32(); g_flags0 = g_cur.flags;
  uint32_t s = nd_u32(); g_cur.sched_id = s; g_root.sched_id = s; g_sched0 = s;
  janet_vm.fiber = g_has_cur ? &g_cur : (JanetFiber *)0;
  janet_vm.root_fiber = g_has_root ? (g_root_is_cur ? &g_cur : &g_root) : (JanetFiber *)0;
  g_coerce0 = nd_int(); janet_vm.coerce_error = g_coerce0;
  janet_vm.return_reg = &g_reg;        /* inside a janet_try (the top-level branch exits the process) */
  janet_vm.signal_buf = &g_buf;
  janet_signalv((JanetSignal) g_sig0, msg);
  __CPROVER_assert(0, "C05 signalv: never returns to its caller");
}
