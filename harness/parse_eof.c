/* C11 / C01: ownership of the parser's error message. An error text generated at run time (delim_error: "unexpected end
 * of source, ( opened at line L, column C") is a heap string that only the parser references; the collector keeps it alive
 * through parsermark exactly while the flag JANET_PARSER_GENERATED_ERROR is set. Invariant: whenever parser->error is such a
 * generated string the flag is set. janet_parser_eof must establish DEAD without losing it; parsermark must mark the
 * string (and every pending argument) when the flag is set. */
#include "prelude.h"
static JanetParser pe_p; static JanetParseState pe_states[3];
static const char pe_heap_error[8] = "heapmsg";
static int pe_delim_calls, pe_consume_calls; static uint8_t pe_consumed;
void pe_delim_error_stub(JanetParser *parser, size_t stack_index, char c, const char *msg) {
  /* contract of delim_error (proved in parse.delim_error): a generated message, flagged as such */
  __CPROVER_assert(stack_index == parser->statecount - 1 && c == 0, "parse.eof: the innermost open delimiter is reported");
  pe_delim_calls++;
  parser->error = pe_heap_error;
  parser->flag |= JANET_PARSER_GENERATED_ERROR;
}
void pe_consume_stub(JanetParser *parser, uint8_t c) {
  pe_consume_calls++; pe_consumed = c;
  /* a final newline can complete a token or a comment: states may be popped, the position moves, an error may be set */
  size_t sc = nd_size(); __CPROVER_assume(sc >= 1 && sc <= parser->statecount); parser->statecount = sc;
  parser->line = nd_size(); parser->column = nd_size();
  if (nd_int()) parser->error = "static message";
}
void h_parser_eof(void) {
  pe_p.states = pe_states; pe_p.statecount = nd_size(); __CPROVER_assume(pe_p.statecount >= 1 && pe_p.statecount <= 3);
  pe_p.line = nd_size(); pe_p.column = nd_size(); pe_p.error = (const char *)0;
  pe_p.flag = nd_int() & ~(JANET_PARSER_DEAD | JANET_PARSER_GENERATED_ERROR);
  size_t l0 = pe_p.line, c0 = pe_p.column; int f0 = pe_p.flag;
  pe_delim_calls = pe_consume_calls = 0;
  janet_parser_eof(&pe_p);
  __CPROVER_assert(pe_consume_calls == 1 && pe_consumed == '\n', "parse.eof: end of input terminates the last token like a newline");
  __CPROVER_assert(pe_p.flag & JANET_PARSER_DEAD, "parse.eof: the parser accepts no more input afterwards");
  __CPROVER_assert(pe_p.line == l0 && pe_p.column == c0, "parse.eof: the reported position is not moved by the virtual newline");
  __CPROVER_assert((pe_delim_calls == 1) == (pe_p.statecount > 1), "parse.eof: an unterminated form is reported exactly once");
  __CPROVER_assert(pe_p.error != pe_heap_error || (pe_p.flag & JANET_PARSER_GENERATED_ERROR), "parse.eof: a generated error message stays owned by the parser (flag kept, so the collector keeps the string alive)");
  __CPROVER_assert((pe_p.flag & ~(JANET_PARSER_DEAD | JANET_PARSER_GENERATED_ERROR)) == f0, "parse.eof: no other flag changes");
  if (pe_delim_calls) REACH("eof: unterminated form"); else REACH("eof: clean");
}
/* ---- parsermark ---- */
static int pm_marks, pm_error_marked; static Janet pm_args[3]; static int pm_gk_marked; static int pm_gk;
void pm_mark_stub(Janet x) {
  pm_marks++;
  if (x.type == JANET_STRING && x.as.pointer == (void *) pe_heap_error) pm_error_marked++;
  if (x.type == pm_args[pm_gk].type && x.as.u64 == pm_args[pm_gk].as.u64) pm_gk_marked = 1;
}
void h_parsermark(void) {
  pe_p.args = pm_args; pe_p.argcount = nd_size(); __CPROVER_assume(pe_p.argcount <= 3);
  for (int i = 0; i < 3; i++) { pm_args[i].type = JANET_TABLE; pm_args[i].as.u64 = 100 + i; }
  pe_p.flag = nd_int(); pe_p.error = (pe_p.flag & JANET_PARSER_GENERATED_ERROR) ? pe_heap_error : (nd_int() ? "static" : (const char *)0);
  pm_gk = nd_int(); __CPROVER_assume(pm_gk >= 0 && (size_t) pm_gk < pe_p.argcount);
  pm_marks = pm_error_marked = pm_gk_marked = 0;
  int r = parsermark(&pe_p, sizeof(JanetParser));
  __CPROVER_assert(r == 0, "parse.mark: success");
  __CPROVER_assert(pm_gk_marked, "parse.mark: every pending argument of the parser is marked");
  __CPROVER_assert(((pe_p.flag & JANET_PARSER_GENERATED_ERROR) != 0) == (pm_error_marked == 1), "parse.mark: the generated error message is marked exactly when the parser owns one; a static message is never handed to the collector");
  __CPROVER_assert(pm_marks == (int) pe_p.argcount + pm_error_marked, "parse.mark: nothing else is marked");
  REACH("parsermark returns");
}
