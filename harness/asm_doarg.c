/* C10 "asm on any data structure ... returns a value or raises a catchable error - never ... reads or writes outside":
 * argument parsing of the assembler, doarg_1 (one unit per argument kind, -DAD_KIND=JANET_OAT_xxx) and the range check of doarg.
 *
 * Contract of doarg_1(a, kind, x) for an ARBITRARY Janet value x (any type, any payload).  It returns normally only if
 *   x is a number:   x is an integer in the int32 range and the result is x                                   (every kind)
 *   x is a symbol:   kind is slot / environment / funcdef, exactly one lookup was made, in the table of THAT kind of THIS
 *                    assembler (a->slots / a->envs / a->defs - never a parent's, never another kind's), the entry exists and the
 *                    result is its value
 *   x is a keyword:  kind is label: one lookup in a->labels, result = entry - a->bytecode_count (offset relative to the
 *                    instruction being assembled, what JOP_JUMP* add to pc);  kind is type / simpletype: result = mask of the
 *                    type alias found for the keyword
 *   x is a tuple:    kind is type: result = OR of the element results (numbers, type keywords; no nesting)
 *   anything else raises.
 * Kind slot: def->slotcount becomes max(old, result + 1) without overflow; other kinds leave it alone. No other state changes.
 *
 * Stubs: janet_table_get records (table, key) and returns what the harness planted: nil (absent) or a non-negative integer
 * (representation invariant of the four tables: janet_asm1 / janet_asm_addenv only store janet_wrap_integer(index >= 0); labels are
 * keyed by keywords only, slots and environments by symbols only; an entry is an index below INT32_MAX - asserted on the put side in the asm.asm1.* units);
 * janet_strbinsearch returns NULL or an entry of type_aliases; janet_asm_addenv must be unreachable under the invariant. */
#include "prelude.h"

#ifndef AD_KIND
#define AD_KIND JANET_OAT_SLOT
#define AD_K 0          /* numeric value of AD_KIND for the preprocessor (checked below) */
#endif

static JanetAssembler ad_a, ad_p;
static JanetFuncDef ad_def, ad_pdef;
int ad_lookups, ad_searches;
JanetTable *ad_tab;
Janet ad_key, ad_val;
int32_t ad_mask[3];
static uint8_t ad_text[8];
static struct { JanetGCObject gc; int32_t length; int32_t hash; int32_t sm_line; int32_t sm_column; Janet data[2]; } ad_tup;

void ad_longjmp_stub(JanetAssembler *a) {
    REACH("the assembler raises");
    __CPROVER_assume(0);
}
Janet ad_table_get_stub(JanetTable *t, Janet key) {
    __CPROVER_assert(t == &ad_a.slots || t == &ad_a.labels || t == &ad_a.envs || t == &ad_a.defs,
                     "doarg: names are resolved through the tables of the assembler of the function being assembled only");
    __CPROVER_assert(ad_lookups == 0, "doarg: one lookup per argument");
    ad_lookups++;
    ad_tab = t;
    ad_key = key;
    Janet nil;
    nil.type = JANET_NIL;
    nil.as.u64 = 0;
    if (t == &ad_a.labels && key.type != JANET_KEYWORD) return nil;     /* labels are keywords */
    if ((t == &ad_a.slots || t == &ad_a.envs) && key.type != JANET_SYMBOL) return nil;
    return ad_val;
}
const void *ad_strbinsearch_stub(const void *tab, size_t tabcount, size_t itemsize, const uint8_t *key) {
    __CPROVER_assert(tab == (const void *) type_aliases && tabcount == sizeof(type_aliases) / sizeof(TypeAlias) && itemsize == sizeof(TypeAlias),
                     "doarg: type names are searched in the whole type alias table");
    __CPROVER_assert(ad_searches < 3, "doarg: at most one search per type name");
    int j = nd_int();
    __CPROVER_assume(j >= -1 && j < (int)(sizeof(type_aliases) / sizeof(TypeAlias)));
    if (j < 0) { ad_mask[ad_searches++] = -1; return (const void *) 0; }
    ad_mask[ad_searches++] = type_aliases[j].mask;
    return (const void *) &type_aliases[j];
}
int32_t ad_addenv_stub(JanetAssembler *a, Janet envname) {
    __CPROVER_assert(0, "doarg: janet_asm_addenv is unreachable (no table entry is negative)");
    return -2;
}

static Janet ad_any(int depth) {
    Janet x;
    int ty = nd_int();
    __CPROVER_assume(ty >= JANET_NUMBER && ty <= JANET_POINTER);
    x.type = (JanetType) ty;
    x.as.u64 = nd_u64();
    if (ty == JANET_NUMBER) x.as.number = nd_double();
    else if (ty == JANET_TUPLE) {
        if (depth == 0) x.as.pointer = (void *) ad_tup.data;
        else x.as.pointer = (void *) 0;       /* a nested tuple must not be looked into: NULL makes any access a failure */
    } else if (ty != JANET_NIL && ty != JANET_BOOLEAN) x.as.pointer = (void *) ad_text;
    return x;
}
static int ad_is_int(double d) {
    if (!(d >= -2147483648.0 && d <= 2147483647.0)) return 0;
    int32_t i = (int32_t) d;
    return (double) i == d;
}
/* value of one element of a type tuple (kind simpletype), m = mask recorded for the element's search if it is a keyword */
static int ad_simple_ok(Janet e) { return (e.type == JANET_NUMBER && ad_is_int(e.as.number)) || e.type == JANET_KEYWORD; }

void h_doarg1(void) {
    /* assembler state: arbitrary, parent present or not */
    ad_a.def = &ad_def;
    ad_p.def = &ad_pdef;
    ad_a.parent = nd_int() ? &ad_p : (JanetAssembler *) 0;
    ad_p.parent = (JanetAssembler *) 0;
    int32_t sc0 = nd_i32(), psc0 = nd_i32(), bc = nd_i32();
    __CPROVER_assume(sc0 >= 0 && bc >= 0);
    ad_def.slotcount = sc0;
    ad_pdef.slotcount = psc0;
    ad_a.bytecode_count = bc;
    ad_a.errindex = bc;
    ad_a.name.type = JANET_NIL;
    ad_a.name.as.u64 = 0;
    /* planted table entry: absent or a non-negative integer */
    int32_t entry = nd_i32();
    __CPROVER_assume(entry >= 0 && entry < 2147483647);     /* an index into a list of at most INT32_MAX elements */
    if (nd_int()) { ad_val.type = JANET_NIL; ad_val.as.u64 = 0; }
    else { ad_val.type = JANET_NUMBER; ad_val.as.number = (double) entry; }
    ad_lookups = 0;
    ad_searches = 0;
    /* the argument */
    int32_t tlen = nd_i32();
    __CPROVER_assume(tlen >= 0 && tlen <= 2);
    ad_tup.length = tlen;
    ad_tup.gc.flags = 0;
    Janet e0 = ad_any(1), e1 = ad_any(1);
    ad_tup.data[0] = e0;
    ad_tup.data[1] = e1;
    Janet x = ad_any(0);
#ifdef AD_NOT_INTMAX
    __CPROVER_assume(!(x.type == JANET_NUMBER && x.as.number == 2147483647.0));     /* restricted variant, see the unit's bound */
#endif

    int32_t ret = doarg_1(&ad_a, AD_KIND, x);

    const int kind = AD_KIND;
    __CPROVER_assert(AD_K == (int) AD_KIND, "harness: AD_K is the numeric value of AD_KIND");
    JanetTable *want = kind == JANET_OAT_SLOT ? &ad_a.slots : kind == JANET_OAT_ENVIRONMENT ? &ad_a.envs :
                       kind == JANET_OAT_LABEL ? &ad_a.labels : kind == JANET_OAT_FUNCDEF ? &ad_a.defs : (JanetTable *) 0;
    if (x.type == JANET_NUMBER) {
        __CPROVER_assert(ad_is_int(x.as.number), "doarg: a number is accepted only if it is an integer in the int32 range");
        __CPROVER_assert(ad_is_int(x.as.number) && ret == (int32_t) x.as.number, "doarg: a numeric argument is taken literally");
        __CPROVER_assert(ad_lookups == 0 && ad_searches == 0, "doarg: a numeric argument is not looked up");
        REACH("numeric argument");
    } else if (x.type == JANET_SYMBOL) {
        __CPROVER_assert(kind == JANET_OAT_SLOT || kind == JANET_OAT_ENVIRONMENT || kind == JANET_OAT_FUNCDEF,
                         "doarg: a symbol names a slot, an environment or a nested definition - for every other kind it raises");
        __CPROVER_assert(ad_lookups == 1 && ad_tab == want && ad_key.type == JANET_SYMBOL && ad_key.as.pointer == x.as.pointer,
                         "doarg: a name is looked up once, in the table of its own kind");
        __CPROVER_assert(ad_val.type == JANET_NUMBER && ret == entry, "doarg: an unknown name raises; a known name gives its table entry");
#if AD_K == 0 || AD_K == 1 || AD_K == 7
        REACH("named argument");
#endif
    } else if (x.type == JANET_KEYWORD) {
        __CPROVER_assert(kind == JANET_OAT_LABEL || kind == JANET_OAT_TYPE || kind == JANET_OAT_SIMPLETYPE,
                         "doarg: a keyword is a label or a type name - for every other kind it raises");
        if (kind == JANET_OAT_LABEL) {
            __CPROVER_assert(ad_lookups == 1 && ad_tab == want && ad_key.type == JANET_KEYWORD && ad_key.as.pointer == x.as.pointer,
                             "doarg: a name is looked up once, in the table of its own kind");
            __CPROVER_assert(ad_val.type == JANET_NUMBER && (int64_t) ret == (int64_t) entry - (int64_t) bc,
                             "doarg: a label gives the jump offset relative to the instruction being assembled (label index - instruction index)");
#if AD_K == 6
            REACH("label argument");
#endif
        } else {
            __CPROVER_assert(ad_lookups == 0 && ad_searches == 1 && ad_mask[0] >= 0 && ret == ad_mask[0],
                             "doarg: a type keyword gives the mask of its alias; an unknown type name raises");
#if AD_K == 4 || AD_K == 5
            REACH("type keyword argument");
#endif
        }
    } else if (x.type == JANET_TUPLE) {
        __CPROVER_assert(kind == JANET_OAT_TYPE, "doarg: a tuple is a type set - for every other kind it raises");
        int32_t acc = 0;
        int s = 0;
        if (tlen > 0) {
            __CPROVER_assert(ad_simple_ok(e0), "doarg: elements of a type set are integers or type keywords");
            if (ad_simple_ok(e0)) acc |= e0.type == JANET_NUMBER ? (int32_t) e0.as.number : ad_mask[s++];
        }
        if (tlen > 1) {
            __CPROVER_assert(ad_simple_ok(e1), "doarg: elements of a type set are integers or type keywords");
            if (ad_simple_ok(e1)) acc |= e1.type == JANET_NUMBER ? (int32_t) e1.as.number : ad_mask[s++];
        }
        __CPROVER_assert(s == ad_searches && ad_lookups == 0, "doarg: one alias search per keyword element");
        __CPROVER_assert((s < 1 || ad_mask[0] >= 0) && (s < 2 || ad_mask[1] >= 0), "doarg: an unknown type name raises");
        __CPROVER_assert(ret == acc, "doarg: a type set is the OR of its elements");
#if AD_K == 4
        REACH("type set argument");
#endif
    } else {
        __CPROVER_assert(0, "doarg: a value that is not a number, symbol, keyword or tuple raises");
    }
    if (kind == JANET_OAT_SLOT) {
        int64_t expect = (int64_t) ret + 1 > (int64_t) sc0 ? (int64_t) ret + 1 : (int64_t) sc0;
        __CPROVER_assert((int64_t) ad_def.slotcount == expect, "doarg: a slot argument raises slotcount to slot + 1 (and never lowers it)");
    } else {
        __CPROVER_assert(ad_def.slotcount == sc0, "doarg: only slot arguments change slotcount");
    }
    __CPROVER_assert(ad_pdef.slotcount == psc0 && ad_a.bytecode_count == bc, "doarg: nothing else changes");
    REACH("doarg_1 returns");
}

/* ---------------- doarg: range check and placement ---------------- */
int32_t ad_arg;
int32_t ad_doarg1_stub(JanetAssembler *a, enum JanetOpArgType argtype, Janet x) { return ad_arg; }
void h_doarg_range(void) {
    ad_a.def = &ad_def;
    ad_a.parent = (JanetAssembler *) 0;
    ad_arg = nd_i32();
    int nth = nd_int(), nbytes = nd_int(), sgn = nd_int();
    /* the combinations read_instruction uses: an operand of nbytes bytes starting at byte nth, ending at or before byte 3
     * (signed operands are always the last one, reaching bit 31); nth 0 = environment index, shifted by the caller */
    __CPROVER_assume((nth == 0 && nbytes == 1 && sgn == 0) || (nth == 1 && nbytes == 1 && sgn == 0) || (nth == 1 && nbytes == 2 && sgn == 0) ||
                     (nth == 1 && nbytes == 3 && sgn == 1) || (nth == 2 && nbytes == 1 && sgn == 0) || (nth == 2 && nbytes == 2 && (sgn == 0 || sgn == 1)) ||
                     (nth == 3 && nbytes == 1 && (sgn == 0 || sgn == 1)));
    Janet x;
    x.type = JANET_NUMBER;
    x.as.number = (double) ad_arg;
    uint32_t r = doarg(&ad_a, JANET_OAT_INTEGER, nth, nbytes, sgn, x);
    int64_t lo = sgn ? -((int64_t) 1 << (8 * nbytes - 1)) : 0;
    int64_t hi = sgn ? ((int64_t) 1 << (8 * nbytes - 1)) - 1 : ((int64_t) 1 << (8 * nbytes)) - 1;
    __CPROVER_assert((int64_t) ad_arg >= lo && (int64_t) ad_arg <= hi, "doarg: a value outside the range of an nbytes-wide (un)signed field raises");
    uint32_t field = (uint32_t)((((uint64_t) 1 << (8 * nbytes)) - 1) << (8 * nth));
    __CPROVER_assert((r & ~field) == 0, "doarg: no bit outside the operand's own field is set (nothing spills into a neighbouring field)");
    __CPROVER_assert(((r & field) >> (8 * nth)) == (((uint32_t) ad_arg) & (uint32_t)(((uint64_t) 1 << (8 * nbytes)) - 1)),
                     "doarg: the field holds the value in two's complement");
    REACH("doarg returns");
}
