/* C11 "never a crash" / wf_parser: janet_parser_flush (also reached from janet_parser_error after every parse error) must leave a
 * well-formed parser.  Part of the representation invariant every other entry point relies on is
 *        sum of argn over the container states == argcount,   states[0].argn == pending
 * (janet_parser_produce decrements the three together; parser_state_frames walks the args stack backwards by argn).
 * Flushing empties the args stack, so the root container must hold no queued value afterwards. */
#include "prelude.h"

void janet_parser_flush_c(JanetParser *parser)
__CPROVER_requires(__CPROVER_is_fresh(parser, sizeof(*parser)))
__CPROVER_requires(parser->statecap >= 1 && parser->statecap <= 0x3ffffff && parser->statecount >= 1 && parser->statecount <= parser->statecap)
__CPROVER_requires(__CPROVER_is_fresh(parser->states, parser->statecap * sizeof(JanetParseState)))
__CPROVER_requires(parser->states[0].argn >= 0 && (size_t) parser->states[0].argn == parser->pending && parser->pending <= parser->argcount)
__CPROVER_assigns(parser->argcount, parser->statecount, parser->bufcount, parser->pending, parser->states[0].argn)
__CPROVER_ensures(parser->argcount == 0 && parser->statecount == 1 && parser->bufcount == 0 && parser->pending == 0)
__CPROVER_ensures((size_t) parser->states[0].argn == parser->argcount)        /* wf_parser: the only remaining state, the root container, owns no args */
;
void h_flush(void) {
  JanetParser *p;
  janet_parser_flush(p);
  REACH("normal return of janet_parser_flush");
}
