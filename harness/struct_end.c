/* C03 / C04: janet_struct_end (struct.c) - finishing a struct under construction. While it is built, the hash field counts the
 * DISTINCT non-nil pairs that went in and length is the number announced to janet_struct_begin.
 *  - equal: the struct is finished in place;
 *  - fewer went in (duplicate keys, nil keys or nil values among the announced pairs): the struct is REBUILT at the size of what
 *    went in - a new struct for exactly `hash` pairs receives EVERY pair stored anywhere in the OLD bucket array (all
 *    capacity(old) buckets - the new, smaller struct has fewer buckets than the old one), and inherits the prototype.
 * In both cases the cached hash is the hash of the final bucket array, mixed with the prototype's hash when there is one
 * (equal structs - same buckets, same prototype - get equal hashes). Recording stubs for begin / put / calchash. */
#include "prelude.h"
#ifndef SE_CAP
#define SE_CAP 8
#endif
#define SE_NEWCAP 2
static JanetStructHead *se_old, *se_new, *se_proto; static int se_begin_calls, se_puts; static int32_t se_begin_count;
static int se_g, se_g_put; static int32_t se_hashed_cap; static const JanetKV *se_hashed;
JanetKV *se_begin_stub(int32_t count) {
  se_begin_calls++; se_begin_count = count;
  /* a struct for `count` pairs: here always the smallest bucket array, smaller than the old one */
  se_new->length = count; se_new->hash = 0; se_new->capacity = SE_NEWCAP; se_new->proto = (const JanetKV *)0;
  return (JanetKV *) se_new->data;
}
void se_put_stub(JanetKV *st, Janet key, Janet value) {
  __CPROVER_assert(st == (JanetKV *) se_new->data, "struct.end: pairs are re-inserted into the new struct");
  __CPROVER_assert(key.type != JANET_NIL, "struct.end: only real pairs are re-inserted");
  if (key.type == se_old->data[se_g].key.type && key.as.u64 == se_old->data[se_g].key.as.u64 && value.as.u64 == se_old->data[se_g].value.as.u64) se_g_put++;
  se_puts++;
}
int32_t se_calchash_stub(const JanetKV *kvs, int32_t len) { se_hashed = kvs; se_hashed_cap = len; return 1000; }
void h_struct_end(void) {
  se_old = malloc(sizeof(JanetStructHead) + SE_CAP * sizeof(JanetKV));
  se_new = malloc(sizeof(JanetStructHead) + SE_NEWCAP * sizeof(JanetKV));
  se_proto = malloc(sizeof(JanetStructHead));
  __CPROVER_assume(se_old != 0 && se_new != 0 && se_proto != 0);
  se_old->capacity = SE_CAP; se_old->length = nd_i32(); se_old->hash = nd_i32();
  __CPROVER_assume(se_old->length >= 0 && se_old->length <= SE_CAP / 2 && se_old->hash >= 0 && se_old->hash <= se_old->length);
  int has_proto = nd_int() & 1; se_old->proto = has_proto ? (const JanetKV *) se_proto->data : (const JanetKV *)0; { int pick = nd_int() & 3;   /* the prototype's cached hash: a few constants (a symbolic 32-bit factor makes the comparison of the two products a multiplier-equivalence problem no SAT back end here decides) */
    se_proto->hash = pick == 0 ? 0 : pick == 1 ? 1 : pick == 2 ? -1 : 0x1234567; }
  /* bucket array: exactly `hash` real pairs, anywhere (the position depends on the key's hash), distinct identities */
  int real = 0; JanetKV *b = (JanetKV *) se_old->data;
  for (int i = 0; i < SE_CAP; i++) {
    if (nd_int() & 1) { b[i].key.type = JANET_NUMBER; b[i].key.as.u64 = 100 + i; b[i].value.type = JANET_NUMBER; b[i].value.as.u64 = 200 + i; real++; }
    else { b[i].key.type = JANET_NIL; b[i].key.as.u64 = 0; b[i].value.type = JANET_NIL; b[i].value.as.u64 = 0; }
  }
  __CPROVER_assume(real == se_old->hash);
#ifdef SE_G
  se_g = SE_G;       /* one unit per ghost bucket (a symbolic bucket index did not finish in 10 min) */
#else
  se_g = nd_int(); __CPROVER_assume(se_g >= 0 && se_g < SE_CAP);
#endif
  int rebuild = se_old->hash != se_old->length; int32_t n_in = se_old->hash;
  se_begin_calls = se_puts = se_g_put = 0;
  const JanetKV *r = janet_struct_end((JanetKV *) se_old->data);
  if (!rebuild) {
    __CPROVER_assert(r == se_old->data && se_begin_calls == 0 && se_puts == 0, "struct.end: a struct that received all announced pairs is finished in place");
    REACH("struct finished in place");
  } else {
    __CPROVER_assert(r == se_new->data && se_begin_calls == 1 && se_begin_count == n_in, "struct.end: rebuilt for exactly the pairs that went in");
    __CPROVER_assert(se_puts == n_in, "struct.end: every stored pair is re-inserted once, nothing else");
    __CPROVER_assert(b[se_g].key.type == JANET_NIL || se_g_put == 1, "struct.end: the pair in EVERY bucket of the old array is carried over (the old array has more buckets than the new one)");
    __CPROVER_assert(se_new->proto == (has_proto ? (const JanetKV *) se_proto->data : (const JanetKV *)0), "struct.end: the rebuilt struct keeps the prototype");
    if (se_g >= SE_NEWCAP && b[se_g].key.type != JANET_NIL) REACH("pair beyond the new capacity carried over");
  }
  JanetStructHead *fin = rebuild ? se_new : se_old;
  __CPROVER_assert(se_hashed == fin->data && se_hashed_cap == fin->capacity, "struct.end: the cached hash covers the whole final bucket array");
  __CPROVER_assert((uint32_t) fin->hash == (has_proto ? 1000u + 2654435761u * (uint32_t) se_proto->hash : 1000u), "struct.end: cached hash = bucket hash, mixed with the prototype's hash when there is one");
}
