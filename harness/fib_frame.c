/* C05 frames: janet_fiber_funcframe (fiber.c) under a dfcc contract with a loop contract. (The tail variant is in
 * fib_frame_tail.c: its dfcc form - two loop contracts plus a freeing realloc contract - did not finish in 10 minutes.)
 * A fiber enters a function (new -> alive) through one of these two; what the property needs of them:
 *   - an arity mismatch is refused (return 1) and changes NOTHING of the fiber (fields and every stack slot);
 *   - on success every slot of the new frame that does not hold an argument is nil: data[g] == nil for every ghost index g in
 *     [old stacktop, new stacktop) (funcframe) - the vararg slot holds the rest tuple/struct instead;
 *   - the frame chain stays intact: funcframe links the new frame to the old one (prevframe), the tail variant keeps fiber->frame (fib_frame_tail.c).
 * The nil-fill loops are closed with loop invariants over the ghost index (DESIGN R2): the slot count is unbounded up to
 * janet_verify's limit 2^24 and the stack size up to 2^30 slots. */
#include "fib_resume.h"
/* the frame header (JanetStackFrame, 4 slots below the frame) read slot-wise; layout lemma asserted in the harnesses:
 * func @0, pc @8, env @16, prevframe @24 (low half of the last slot), flags @28 (high half) */
#define HDR_FUNC(f) ((f)->data[(f)->frame - 4].pointer)
#define HDR_PC(f) ((f)->data[(f)->frame - 3].pointer)
#define HDR_ENV(f) ((f)->data[(f)->frame - 2].pointer)
#define HDR_PREV_FLAGS(f) ((f)->data[(f)->frame - 1].u64)
#define HDR_LAYOUT_LEMMA __CPROVER_assert(sizeof(JanetStackFrame) == 4 * sizeof(Janet) && sizeof(Janet) == 8 && offsetof(JanetStackFrame, func) == 0 && \
   offsetof(JanetStackFrame, pc) == 8 && offsetof(JanetStackFrame, env) == 16 && offsetof(JanetStackFrame, prevframe) == 24 && \
   offsetof(JanetStackFrame, flags) == 28, "C05 frames: layout of the frame header as read by the contracts")
#define FIB_NILBITS 0xFFF8800000000001ul
#define FIB_STACK_LIMIT ((1 << 30) - (1 << 24) - 2 * JANET_FRAME_SIZE)
#define FRAME_OF(f) ((JanetStackFrame *)((f)->data + (f)->frame - JANET_FRAME_SIZE))
int32_t g_idx;                 /* ghost slot index, unconstrained */

/* reallocation of the stack: assumed contract (capacity and a stack object of that size; old contents not modelled - the
 * postconditions below never speak about slots of a reallocated stack below the old top) */
void fib_setcapacity_c(JanetFiber *fiber, int32_t n)
/* PROVED at the call sites: the requested size is positive and did not wrap */
__CPROVER_requires(n > 0 && n >= fiber->capacity)
__CPROVER_assigns(fiber->capacity, fiber->data)
__CPROVER_ensures(fiber->capacity == n)
__CPROVER_ensures(__CPROVER_is_fresh(fiber->data, (size_t) n * sizeof(Janet)))
;
const Janet *fib_tuple_n_c(const Janet *values, int32_t n)
__CPROVER_requires(n >= 0 && (n == 0 || __CPROVER_r_ok(values, (size_t) n * sizeof(Janet))))
__CPROVER_assigns() __CPROVER_ensures(1);
static Janet fib_make_struct_n_c(const Janet *args, int32_t n)
__CPROVER_requires(n >= 0 && (n == 0 || __CPROVER_r_ok(args, (size_t) n * sizeof(Janet))))
__CPROVER_assigns() __CPROVER_ensures(1);
/* representation invariant: fiber_reset / every frame push leave JANET_FRAME_SIZE <= stackstart <= stacktop <= capacity, the
 * current frame (header included) below stackstart; function definitions have passed janet_verify (0 <= arity (+1 if
 * variadic) <= slotcount <= 2^24). The stack limit 2^30 slots (8 GiB) keeps `2 * nextstacktop` inside int32. */
#define WF_FRAME_REQUIRES \
__CPROVER_requires(__CPROVER_is_fresh(fiber, sizeof(JanetFiber))) \
__CPROVER_requires(__CPROVER_is_fresh(func, sizeof(JanetFunction))) \
__CPROVER_requires(__CPROVER_is_fresh(func->def, sizeof(JanetFuncDef))) \
__CPROVER_requires(fiber->frame >= 0 && fiber->stackstart >= JANET_FRAME_SIZE && fiber->frame <= fiber->stackstart - JANET_FRAME_SIZE && \
                   fiber->stackstart <= fiber->stacktop && fiber->stacktop <= fiber->capacity && fiber->capacity <= FIB_STACK_LIMIT) \
__CPROVER_requires(__CPROVER_is_fresh(fiber->data, (size_t) fiber->capacity * sizeof(Janet))) \
__CPROVER_requires(func->def->slotcount >= 0 && func->def->slotcount <= 0x1000000 && func->def->arity >= 0 && \
                   func->def->arity <= func->def->slotcount - ((func->def->flags & JANET_FUNCDEF_FLAG_VARARG) ? 1 : 0)) \
__CPROVER_requires(g_idx >= 0 && g_idx < fiber->capacity)

#define ARITY_OK_OLD (__CPROVER_old(fiber->stacktop) - __CPROVER_old(fiber->stackstart) >= func->def->min_arity && \
                      __CPROVER_old(fiber->stacktop) - __CPROVER_old(fiber->stackstart) <= func->def->max_arity)
#define IS_VARARG (func->def->flags & JANET_FUNCDEF_FLAG_VARARG)

int fib_funcframe_c(JanetFiber *fiber, JanetFunction *func)
WF_FRAME_REQUIRES
__CPROVER_assigns(fiber->frame, fiber->stackstart, fiber->stacktop, fiber->capacity, fiber->data, __CPROVER_object_whole(fiber->data))
/* arity refusal, and it changes nothing */
__CPROVER_ensures(__CPROVER_return_value == (ARITY_OK_OLD ? 0 : 1))
__CPROVER_ensures(__CPROVER_return_value == 1 ==>
   (fiber->frame == __CPROVER_old(fiber->frame) && fiber->stackstart == __CPROVER_old(fiber->stackstart) &&
    fiber->stacktop == __CPROVER_old(fiber->stacktop) && fiber->capacity == __CPROVER_old(fiber->capacity) &&
    fiber->data == __CPROVER_old(fiber->data) && fiber->data[g_idx].u64 == __CPROVER_old(fiber->data[g_idx].u64)))
/* success: the new frame starts where the arguments were pushed, has slotcount slots plus room for the next header */
__CPROVER_ensures(__CPROVER_return_value == 0 ==>
   (fiber->frame == __CPROVER_old(fiber->stackstart) && fiber->stackstart == fiber->stacktop &&
    fiber->stacktop == __CPROVER_old(fiber->stackstart) + func->def->slotcount + JANET_FRAME_SIZE && fiber->stacktop <= fiber->capacity))
/* frame chain: the new header links back to the frame that was current, and describes func */
__CPROVER_ensures(__CPROVER_return_value == 0 ==>
   (HDR_FUNC(fiber) == func && HDR_PC(fiber) == func->def->bytecode && HDR_ENV(fiber) == (void *)0 &&
    HDR_PREV_FLAGS(fiber) == (uint64_t)(uint32_t) __CPROVER_old(fiber->frame)))
/* new frame slots nil-filled */
__CPROVER_ensures((__CPROVER_return_value == 0 && g_idx >= __CPROVER_old(fiber->stacktop) && g_idx < fiber->stacktop &&
                   !(IS_VARARG && g_idx == fiber->frame + func->def->arity)) ==> fiber->data[g_idx].u64 == FIB_NILBITS)
;
void h_funcframe(void) {
  JanetFiber *f; JanetFunction *fn;
  __CPROVER_assert(FIB_NILBITS == (janet_nanbox_tag(JANET_NIL) | 1), "C05 frames: nil bit pattern of the loop invariant is janet_wrap_nil()");
  HDR_LAYOUT_LEMMA;
  int r = janet_fiber_funcframe(f, fn);
  REACH("janet_fiber_funcframe returns");
  if (r == 0) REACH("janet_fiber_funcframe pushes a frame");
  if (r == 1) REACH("janet_fiber_funcframe refuses the arity");
}
