/* C03: structs compare by content (entries + prototype) independent of how they were built. janet_equals decides struct
 * equality on the CACHED hash first, and janet_struct_end folds the prototype's hash into it: hash = kvhash + 2654435761 * hash(proto).
 * Contract of table/to-struct (table.c cfun_table_tostruct): the struct it returns carries the prototype AND the cached hash a
 * struct built directly with that prototype would carry. janet_table_to_struct under its contract (returns a finished struct
 * without prototype whose cached hash is the content hash). */
#include "prelude.h"
struct vc_struct { JanetStructHead head; JanetKV kv[2]; } g_st, g_proto;
JanetTable g_tab; uint32_t g_h, g_hp; int g_has_proto;
JanetStruct to_struct_stub(JanetTable *t) { return g_st.head.data; }
JanetTable *gettable_stub(const Janet *argv, int32_t n) { return &g_tab; }
JanetStruct optstruct_stub(const Janet *argv, int32_t argc, int32_t n, JanetStruct dflt) { return g_has_proto ? (JanetStruct) g_proto.head.data : dflt; }
void arity_stub(int32_t argc, int32_t a, int32_t b) { __CPROVER_assume(argc >= a && argc <= b); }
void h_tostruct(void) {
  g_h = nd_u32(); g_hp = nd_u32(); g_has_proto = nd_int() & 1;
  g_st.head.hash = (int32_t) g_h; g_st.head.proto = 0; g_st.head.length = 1; g_st.head.capacity = 2;
  g_proto.head.hash = (int32_t) g_hp; g_proto.head.proto = 0;
  Janet argv[2]; int32_t argc = nd_i32();
  Janet r = cfun_table_tostruct(argc, argv);
  JanetStruct s = janet_unwrap_struct(r);
  __CPROVER_assert(s == (JanetStruct) g_st.head.data, "C03 to-struct: returns the converted struct");
  __CPROVER_assert(janet_struct_proto(s) == (g_has_proto ? (JanetStruct) g_proto.head.data : 0), "C03 to-struct: carries exactly the requested prototype");
  __CPROVER_assert((uint32_t) janet_struct_hash(s) == (g_has_proto ? g_h + 2654435761u * g_hp : g_h), "C03 to-struct: the cached hash accounts for the prototype exactly as janet_struct_end does, so a struct with the same entries and prototype built any other way is = and hashes alike");
  REACH("table/to-struct returns");
}
