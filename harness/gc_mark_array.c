/* C01: janet_mark_array - an unmarked array is marked and its live range data[0..count) is handed to janet_mark_many;
 * a weak array hands over nothing; an already marked array is left alone (this is what terminates cycles). */
#include "gc_mark.h"

static void janet_mark_array_spec(JanetArray *array)
__CPROVER_requires(__CPROVER_is_fresh(array, sizeof(JanetArray)))
/* representation invariant: the block is an array block (janet_array / janet_array_weak are the only constructors) */
__CPROVER_requires(MEMTYPE(array) == JANET_MEMORY_ARRAY || MEMTYPE(array) == JANET_MEMORY_ARRAY_WEAK)
/* ghost: the expectation is "janet_mark_many(array->data, array->count)" */
__CPROVER_requires(g_w_kind == W_MANY && g_w_base == (const void *) array->data && g_w_n == array->count)
__CPROVER_requires(!g_w_seen && g_w_calls == 0)
__CPROVER_assigns(array->gc.flags, g_w_seen, g_w_calls)
/* C01: on exit the object is marked; marking changes no other bit of the header */
__CPROVER_ensures(array->gc.flags == (__CPROVER_old(array->gc.flags) | JANET_MEM_REACHABLE))
/* C01: every element edge: the whole live range is handed to the walker, exactly once */
__CPROVER_ensures((!(__CPROVER_old(array->gc.flags) & JANET_MEM_REACHABLE) && (__CPROVER_old(array->gc.flags) & JANET_MEM_TYPEBITS) == JANET_MEMORY_ARRAY)
                  ==> (g_w_seen && g_w_calls == 1))
/* weak arrays do not keep their elements alive; visited arrays are not traversed again */
__CPROVER_ensures(((__CPROVER_old(array->gc.flags) & JANET_MEM_REACHABLE) || (__CPROVER_old(array->gc.flags) & JANET_MEM_TYPEBITS) == JANET_MEMORY_ARRAY_WEAK)
                  ==> g_w_calls == 0)
;

void h_mark_array(void) {
  JanetArray *a;
  janet_mark_array(a);
  REACH("janet_mark_array returns");
}
