/* C15 "bytecode clean-up passes never change what a function computes" / C02 "errors are attributed to the source
 * line and column": janet_bytecode_remove_noops (bytecode.c), bounded stand-in.
 *
 * Specification (independent of the code's own pc_map): let pm(k) = number of non-noop instructions among the old
 * pcs [0,k)  (pm(0) = 0, pm(k+1) = pm(k) + [old[k] is not a noop]).  Then for a function definition whose jump
 * targets lie in [0, length] (janet_verify: inside the function; `length` itself is what the pass provides for):
 *   - new length = pm(old length);
 *   - every old non-noop instruction g is found at new pc pm(g): instruction ORDER is preserved, nothing else is
 *     inserted; opcode, breakpoint flag and operands are unchanged;
 *   - if it is a jump, its new absolute target is pm(old absolute target)  (jump targets remapped through the pc map);
 *   - its source mapping (line, column) travels with it;
 *   - symbol-map births and deaths are remapped through pm, upvalue entries (birth = UINT32_MAX) are untouched;
 *   - slot indices / symbols of the symbol map are unchanged.
 * Quantification over g and the symbol-map entry is by nondeterministic choice in the harness.
 *
 * Why bounded: relating the code's pc_map (filled by loop 1, consumed at data-dependent indices by loop 2 and by the
 * jump rewrite) to pm needs a universally quantified loop invariant, which the ghost-index technique cannot carry
 * (DESIGN R2, use at data-dependent indices) - so both loops are unwound for every bytecode length 0..NOOPS_N.
 *
 * Scratch memory: janet_smalloc/janet_sfree (gc.c) are modelled by malloc/free. */
#include "prelude.h"

#ifndef NOOPS_N
#define NOOPS_N 5
#endif
#ifndef NOOPS_SYM
#define NOOPS_SYM 2
#endif

void *janet_smalloc(size_t n) { void *p = malloc(n); __CPROVER_assume(p != (void *)0); return p; }
void janet_sfree(void *p) { free(p); }

#define OPC(x) ((x) & 0x7F)
#define IS_JUMP24(x) (OPC(x) == JOP_JUMP)
#define IS_JUMP16(x) (OPC(x) == JOP_JUMP_IF || OPC(x) == JOP_JUMP_IF_NOT || OPC(x) == JOP_JUMP_IF_NIL || OPC(x) == JOP_JUMP_IF_NOT_NIL)
#define REL24(x) (((int32_t)(x)) >> 8)
#define REL16(x) (((int32_t)(x)) >> 16)

void h_remove_noops(void) {
  JanetFuncDef def;                      /* every field nondeterministic */
  JanetFuncDef def0;
  uint32_t old_bc[NOOPS_N + 1];
  JanetSourceMapping old_sm[NOOPS_N + 1];
  JanetSymbolMap old_sym[NOOPS_SYM + 1];
  int32_t pm[NOOPS_N + 2];
  int32_t n = nd_i32(), m = nd_i32();
  int has_sm = nd_int();
  __CPROVER_assume(n >= 0 && n <= NOOPS_N);
  __CPROVER_assume(m >= 0 && m <= NOOPS_SYM);

  /* ---- well-formed input (representation invariant of a compiled JanetFuncDef) ---- */
  def.bytecode_length = n;
  def.bytecode = malloc(sizeof(uint32_t) * (size_t)n);
  __CPROVER_assume(def.bytecode != (uint32_t *)0);
  def.sourcemap = has_sm ? malloc(sizeof(JanetSourceMapping) * (size_t)n) : (JanetSourceMapping *)0;
  __CPROVER_assume(!has_sm || def.sourcemap != (JanetSourceMapping *)0);
  def.symbolmap_length = m;
  def.symbolmap = malloc(sizeof(JanetSymbolMap) * (size_t)m);
  __CPROVER_assume(def.symbolmap != (JanetSymbolMap *)0);
  pm[0] = 0;
  for (int32_t k = 0; k < NOOPS_N; k++) {
    if (k < n) {
      uint32_t w = nd_u32();
      /* jump targets inside [0, n] */
      if (IS_JUMP24(w)) __CPROVER_assume(k + REL24(w) >= 0 && k + REL24(w) <= n);
      if (IS_JUMP16(w)) __CPROVER_assume(k + REL16(w) >= 0 && k + REL16(w) <= n);
      def.bytecode[k] = w;
      old_bc[k] = w;
      if (has_sm) { def.sourcemap[k].line = nd_i32(); def.sourcemap[k].column = nd_i32(); old_sm[k] = def.sourcemap[k]; }
      pm[k + 1] = pm[k] + (OPC(w) != JOP_NOOP ? 1 : 0);      /* the specification's pc map */
    }
  }
  for (int32_t k = 0; k < NOOPS_SYM; k++) {
    if (k < m) {
      JanetSymbolMap s;
      s.birth_pc = nd_u32(); s.death_pc = nd_u32(); s.slot_index = nd_u32(); s.symbol = (const uint8_t *)0;
      /* compile.c: upvalue entry (birth UINT32_MAX, death = environment index) or birth <= death <= length */
      __CPROVER_assume(s.birth_pc == UINT32_MAX || (s.birth_pc <= s.death_pc && s.death_pc <= (uint32_t)n));
      def.symbolmap[k] = s;
      old_sym[k] = s;
    }
  }
  def0 = def;

  janet_bytecode_remove_noops(&def);
  REACH("normal return of janet_bytecode_remove_noops");

  /* ---- postconditions ---- */
  __CPROVER_assert(def.bytecode_length == pm[n], "POST length = number of non-noop instructions");
  int32_t g = nd_i32();
  if (g >= 0 && g < n && OPC(old_bc[g]) != JOP_NOOP) {
    uint32_t o = old_bc[g];
    __CPROVER_assert(pm[g] < def.bytecode_length, "POST every non-noop instruction survives, in order (new pc = pm(old pc))");
    uint32_t w = def.bytecode[pm[g]];
    if (IS_JUMP24(o)) {
      __CPROVER_assert((w & 0xFF) == (o & 0xFF), "POST jump keeps opcode and flag");
      __CPROVER_assert(pm[g] + REL24(w) == pm[g + REL24(o)], "POST jump target remapped through the pc map");
    } else if (IS_JUMP16(o)) {
      __CPROVER_assert((w & 0xFFFF) == (o & 0xFFFF), "POST conditional jump keeps opcode, flag and condition slot");
      __CPROVER_assert(pm[g] + REL16(w) == pm[g + REL16(o)], "POST conditional jump target remapped through the pc map");
    } else {
      __CPROVER_assert(w == o, "POST non-jump instruction unchanged (opcode and operands)");
    }
    if (has_sm) {
      __CPROVER_assert(def.sourcemap[pm[g]].line == old_sm[g].line && def.sourcemap[pm[g]].column == old_sm[g].column,
                       "POST source mapping travels with its instruction");
    }
  }
  int32_t e = nd_i32();
  if (e >= 0 && e < m) {
    JanetSymbolMap s = def.symbolmap[e];
    if (old_sym[e].birth_pc == UINT32_MAX) {
      __CPROVER_assert(s.birth_pc == UINT32_MAX && s.death_pc == old_sym[e].death_pc, "POST upvalue symbol entries untouched");
    } else {
      __CPROVER_assert(s.birth_pc == (uint32_t)pm[old_sym[e].birth_pc] && s.death_pc == (uint32_t)pm[old_sym[e].death_pc],
                       "POST symbol births and deaths remapped through the pc map");
    }
    __CPROVER_assert(s.slot_index == old_sym[e].slot_index && s.symbol == old_sym[e].symbol, "POST symbol slots unchanged");
  }
  __CPROVER_assert(def.symbolmap_length == m && def.symbolmap == def0.symbolmap && def.sourcemap == def0.sourcemap &&
                   def.slotcount == def0.slotcount && def.constants == def0.constants && def.constants_length == def0.constants_length &&
                   def.arity == def0.arity && def.min_arity == def0.min_arity && def.max_arity == def0.max_arity && def.flags == def0.flags &&
                   def.defs == def0.defs && def.defs_length == def0.defs_length && def.environments == def0.environments &&
                   def.environments_length == def0.environments_length && def.closure_bitset == def0.closure_bitset,
                   "POST frame: nothing else of the definition changes");
}
