/* C10 "asm on any data structure either returns a value or raises a catchable error - it never crashes": the C function behind
 * (asm x).  janet_asm is replaced by its contract (units asm.asm1.*): an error result without definition, or OK with a definition
 * that janet_verify accepted - janet_verify says nothing about environments_length, and janet_asm1 copies :environments from the
 * description, so it is arbitrary here.  abort()/exit() are assertion failures in this file (not "does not return"). */
#ifndef VC_OWN_EXIT
#error "compile with -DVC_OWN_EXIT"
#endif
#include "prelude.h"
#include <stdlib.h>

void abort(void) { __CPROVER_assert(0, "asm: the process is never taken down (abort)"); __CPROVER_assume(0); }
void exit(int c) { __CPROVER_assert(0, "asm: the process is never taken down (exit)"); __CPROVER_assume(0); }

static JanetFuncDef cf_def;
static uint8_t cf_msg[4];
JanetAssembleResult cf_asm_stub(Janet source, int flags) {
    JanetAssembleResult r;
    if (nd_int()) {
        r.status = JANET_ASSEMBLE_ERROR;
        r.funcdef = (JanetFuncDef *) 0;
        r.error = nd_int() ? (const uint8_t *) cf_msg : (const uint8_t *) 0;
        return r;
    }
    cf_def.environments_length = nd_i32();
    __CPROVER_assume(cf_def.environments_length >= 0);
#ifdef CF_NO_ENVIRONMENTS
    __CPROVER_assume(cf_def.environments_length == 0);      /* restricted variant, see the unit's bound */
#endif
    r.status = JANET_ASSEMBLE_OK;
    r.funcdef = &cf_def;
    r.error = (const uint8_t *) 0;
    return r;
}
const uint8_t *cf_cstring_stub(const char *s) { return (const uint8_t *) cf_msg; }
void *cf_gcalloc_stub(enum JanetMemoryType type, size_t size) { return malloc(size); }
void cf_panics_stub(JanetString m) {
    __CPROVER_assert(m != (void *) 0, "asm: an error is raised with a message");
    REACH("asm raises a catchable error");
    __CPROVER_assume(0);
}
void cf_panic_stub(const char *m) {
    __CPROVER_assert(m != (void *) 0, "asm: an error is raised with a message");
    REACH("asm raises a catchable error for a definition it cannot wrap");
    __CPROVER_assume(0);
}
void h_cfun_asm(void) {
    Janet arg;
    arg.type = (JanetType)(nd_uint() % 16);
    arg.as.u64 = nd_u64();
    Janet r = cfun_asm(1, &arg);
    __CPROVER_assert(r.type == JANET_FUNCTION && ((JanetFunction *) r.as.pointer)->def == &cf_def, "asm: the value returned is a function of the assembled definition");
    REACH("asm returns a function");
}
