/* C11 byte-at-a-time core: "splitting the input differently across consume calls ... gives the same line/column positions".
 * The only state that could make a chunk boundary observable in the position tracking is `lookback` (CR LF must count as ONE line
 * break even when CR and LF arrive in different parser/consume calls).  Obligation on the REAL janet_parser_consume: on normal return
 *      (line, column, lookback)' = F(c, line, column, lookback)
 * with F: CR -> (line+1, 0);  LF -> (line + (lookback != CR), 0);  other -> (line, column+1);  lookback' = c
 * i.e. a pure function of the byte and the three fields kept in the parser itself - independent of how bytes are grouped into calls,
 * of the parser's syntactic state and of how many Consumers the byte is dispatched to.
 *
 * The Consumers reached through state->consumer are abstracted by their FRAME contract (h_frame_consumer): a consumer may rewrite
 * every parser field except line/column/lookback, may rewrite the state stack, may or may not consume the byte, may raise an error.
 * The real consumers are proved against that frame in the units parse.consumer.* (obligation "frame").
 * Every dispatch starts from a freshly havocked parser state, so the k-th dispatch is representative of any later one; the tool
 * cannot close this loop (goto-instrument --dfcc aborts on loop contracts around a function-pointer call: DESIGN R9/R13), hence
 * the unit is recorded as bounded. */
#include "prelude.h"

static JanetParser g_parser;
static JanetParseState g_states[3];
static int g_dispatches;

static int h_frame_consumer(JanetParser *p, JanetParseState *state, uint8_t c) {
  __CPROVER_assert(p == &g_parser, "C11 consume: the consumer is handed the parser itself");
  __CPROVER_assert(state == &g_states[g_parser.statecount - 1], "C11 consume: the consumer is handed the top state");
  g_dispatches++;
  /* frame: everything but line / column / lookback */
  p->args = nd_ptr(); p->buf = nd_ptr(); p->error = nd_ptr();
  p->argcount = nd_size(); p->argcap = nd_size(); p->bufcount = nd_size(); p->bufcap = nd_size();
  p->pending = nd_size(); p->flag = nd_int();
  p->statecount = 1 + (nd_size() % 3);                      /* wf_parser: 1 <= statecount <= statecap, stack re-pointed at will */
  for (int k = 0; k < 3; k++) { g_states[k].counter = nd_i32(); g_states[k].argn = nd_i32(); g_states[k].flags = nd_int();
                                g_states[k].line = nd_size(); g_states[k].column = nd_size(); }
  return nd_int();
}

void h_consume(void) {
  uint8_t c = nd_u8();
  g_parser.args = nd_ptr(); g_parser.buf = nd_ptr(); g_parser.error = nd_ptr();
  g_parser.argcount = nd_size(); g_parser.argcap = nd_size(); g_parser.bufcount = nd_size(); g_parser.bufcap = nd_size();
  g_parser.pending = nd_size(); g_parser.flag = nd_int();
  g_parser.line = nd_size(); g_parser.column = nd_size(); g_parser.lookback = nd_int();
  g_parser.states = g_states; g_parser.statecap = 3; g_parser.statecount = 1 + (nd_size() % 3);
  for (int k = 0; k < 3; k++) g_states[k].consumer = h_frame_consumer;
  size_t line0 = g_parser.line, col0 = g_parser.column; int lb0 = g_parser.lookback;
  g_dispatches = 0;

  janet_parser_consume(&g_parser, c);

  __CPROVER_assert(g_parser.lookback == c, "C11 consume: lookback' is the byte just fed");
  if (c == '\r') {
    __CPROVER_assert(g_parser.line == line0 + 1 && g_parser.column == 0, "C11 consume: CR starts a new line, column 0");
  } else if (c == '\n') {
    __CPROVER_assert(g_parser.column == 0, "C11 consume: LF resets the column");
    __CPROVER_assert(g_parser.line == line0 + (lb0 == '\r' ? 0 : 1), "C11 consume: LF starts a new line unless it completes a CR LF pair (also across calls)");
  } else {
    __CPROVER_assert(g_parser.line == line0 && g_parser.column == col0 + 1, "C11 consume: any other byte advances the column by one and keeps the line");
  }
  __CPROVER_assert(g_dispatches >= 1, "C11 consume: a live parser dispatches the byte to at least one consumer");
  REACH("normal return of janet_parser_consume");
  if (g_dispatches >= 3) REACH("three dispatches of one byte");
}
