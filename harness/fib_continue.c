/* C05 status transitions: janet_continue_no_check / janet_continue / janet_continue_signal (vm.c) under dfcc contracts.
 *
 * The interpreter loop run_vm is NOT verified here: it is replaced by an ASSUMED contract ("runs the fiber: may write the
 * whole fiber, the whole VM state and the current return register; returns some signal 0..13"). Its precondition, which IS
 * proved at the call site, carries the automaton's edge  new/suspended -> alive : the VM is only ever entered on a fiber
 * whose status is ALIVE, that is the current fiber, and that has no pending child.
 * The second return of setjmp (a longjmp out of run_vm, i.e. janet_signalv) is modelled by a contract of _setjmp that, when
 * the ghost g_jmp is set, havocs exactly what run_vm's contract havocs and returns a non-zero signal 1..13.
 *
 * What is proved for every fiber state, every VM register state, every signal:
 *   - status on return == the returned signal (the only way out of ALIVE is through the returned signal)
 *   - janet_vm.fiber / stackn / return_reg / signal_buf / coerce_error / gc_suspend are restored on every path
 *   - *out and fiber->last_value carry the value of the return register (run path)
 *   - a signal of a pending child that the child's mask does not accept is re-raised unchanged and NOT delivered to this fiber
 *     (run_vm not entered, child link kept); otherwise the child link is cleared before the VM is entered
 *   - a refused resume (janet_continue, janet_continue_signal) never enters the VM and leaves frames/stack/child untouched;
 *     a finished fiber stays finished.
 */
#include "fib_resume.h"

int g_ran;            /* ghost: the VM was entered on the fiber under proof */
int g_jmp;            /* ghost: this execution takes the longjmp return of setjmp */
JanetFiber *g_fiber;  /* ghost: the fiber under proof (for the longjmp havoc) */
int g_child_ran, g_child_sig; uint64_t g_child_val, g_child_last;

#ifndef FIB_EXTRA_WF
#define FIB_EXTRA_WF(f)
#endif
/* the VM registers that the functions under proof read or that the postconditions mention; no other field of janet_vm is
 * read by janet_continue*, janet_try_init, janet_restore, janet_check_can_resume */
#define FIB_VM janet_vm.stackn, janet_vm.fiber, janet_vm.root_fiber, janet_vm.return_reg, janet_vm.signal_buf, janet_vm.coerce_error, janet_vm.gc_suspend
#define JBITS(x) ((x).u64)
#define FRAME_OF(f) ((JanetStackFrame *)((f)->data + (f)->frame - JANET_FRAME_SIZE))

/* ---- representation invariant of a fiber as seen by the resume path (fiber.c: fiber_alloc / janet_fiber_funcframe) */
#define WF_FIBER_REQUIRES(f) \
  __CPROVER_requires(__CPROVER_is_fresh(f, sizeof(JanetFiber))) \
  __CPROVER_requires(WF_STATUS((f)->flags)) \
  __CPROVER_requires((f)->frame >= JANET_FRAME_SIZE && (f)->stackstart >= 2 * JANET_FRAME_SIZE && (f)->frame <= (f)->stackstart - JANET_FRAME_SIZE && \
                     (f)->stackstart <= (f)->stacktop && (f)->stacktop <= (f)->capacity && (f)->capacity <= (1 << 28) FIB_EXTRA_WF(f)) \
  __CPROVER_requires(__CPROVER_is_fresh((f)->data, (size_t)(f)->capacity * sizeof(Janet))) \
  /* the current frame: a bytecode function (func, def valid) or a C function frame (func == NULL) */ \
  __CPROVER_requires(FRAME_OF(f)->func == (void *)0 || \
                     (__CPROVER_is_fresh(FRAME_OF(f)->func, sizeof(JanetFunction)) && \
                      __CPROVER_is_fresh(FRAME_OF(f)->func->def, sizeof(JanetFuncDef)))) \
  /* a fiber with a pending child is suspended inside a bytecode instruction (resume, cancel, propagate, next) */ \
  __CPROVER_requires((f)->child == (void *)0 || \
                     (__CPROVER_is_fresh((f)->child, sizeof(JanetFiber)) && __CPROVER_is_fresh(FRAME_OF(f)->pc, sizeof(uint32_t))))

#define VM_REGS_RESTORED \
  __CPROVER_ensures(janet_vm.stackn == __CPROVER_old(janet_vm.stackn)) \
  __CPROVER_ensures(janet_vm.fiber == __CPROVER_old(janet_vm.fiber)) \
  __CPROVER_ensures(janet_vm.return_reg == __CPROVER_old(janet_vm.return_reg)) \
  __CPROVER_ensures(janet_vm.signal_buf == __CPROVER_old(janet_vm.signal_buf)) \
  __CPROVER_ensures(janet_vm.coerce_error == __CPROVER_old(janet_vm.coerce_error)) \
  __CPROVER_ensures(janet_vm.gc_suspend == __CPROVER_old(janet_vm.gc_suspend))

#define ACCEPTED_OLD(f) \
  (FIB_RESUMABLE(FIB_ST(__CPROVER_old((f)->flags))) && __CPROVER_old(janet_vm.stackn) < JANET_RECURSION_GUARD && \
   !(__CPROVER_old(janet_vm.fiber) != (void *)0 && (__CPROVER_old((f)->gc.flags) & JANET_FIBER_FLAG_ROOT)))

/* ---- assumed contracts ------------------------------------------------------------------------------------------- */
int g_st0; uint64_t g_in0; int g_tup_calls; int32_t g_stackn0;
static JanetSignal fib_run_vm_c(JanetFiber *fiber, Janet in)
/* PROVED at the call site: the automaton edge into ALIVE */
__CPROVER_requires(FIB_ST(fiber->flags) == JANET_STATUS_ALIVE)
__CPROVER_requires(janet_vm.fiber == fiber)
__CPROVER_requires(fiber->child == (void *)0)
__CPROVER_requires(janet_vm.return_reg != (void *)0 && janet_vm.signal_buf != (void *)0)
__CPROVER_requires(g_ran == 0)
/* PROVED at the call site: a fiber that is entered starts with normal signal semantics (signals raised from C inside it
 * are not coerced to errors because some caller further out is inside janet_call) */
__CPROVER_requires(janet_vm.coerce_error == 0)
#ifdef FIB_FIRST_VALUE
/* PROVED at the call site: the value passed to the first resume of a new fiber arrives unchanged as its first parameter
 * (as the rest tuple when the function only has a rest parameter) */
__CPROVER_requires((g_st0 == JANET_STATUS_NEW && g_child_sig == -1 && !janet_checktype(in, JANET_NIL) && FRAME_OF(fiber)->func != (void *)0 &&
                    FRAME_OF(fiber)->func->def->arity > 0) ==> JBITS(fiber->data[fiber->frame]) == JBITS(in))
__CPROVER_requires((g_st0 == JANET_STATUS_NEW && g_child_sig == -1 && !janet_checktype(in, JANET_NIL) && FRAME_OF(fiber)->func != (void *)0 &&
                    FRAME_OF(fiber)->func->def->arity <= 0 && (FRAME_OF(fiber)->func->def->flags & JANET_FUNCDEF_FLAG_VARARG)) ==>
                   (janet_checktype(fiber->data[fiber->frame], JANET_TUPLE) && g_tup_calls == 1))
__CPROVER_requires(JBITS(in) == g_in0 || g_child_sig != -1)
#endif
/* ASSUMED */
__CPROVER_assigns(*fiber, FIB_VM, *janet_vm.return_reg, g_ran)
__CPROVER_ensures(IS_SIGNAL(__CPROVER_return_value))
__CPROVER_ensures(g_ran == 1)
;
int fib_setjmp_c(struct __jmp_buf_tag env[1])
__CPROVER_requires(janet_vm.return_reg != (void *)0)
__CPROVER_assigns(g_jmp != 0: *g_fiber, FIB_VM, *janet_vm.return_reg, g_ran)
__CPROVER_ensures((__CPROVER_return_value != 0) == (g_jmp != 0))
__CPROVER_ensures(g_jmp != 0 ==> (__CPROVER_return_value >= JANET_SIGNAL_ERROR && __CPROVER_return_value <= JANET_SIGNAL_USER9 && g_ran == 1))
;
void fib_did_resume_c(JanetFiber *fiber)
__CPROVER_requires(1)
__CPROVER_assigns(fiber->ev_callback, fiber->ev_state)
__CPROVER_ensures(1)
;
/* the rest tuple built for a new fiber holds exactly the resume value */
const Janet *fib_tuple_n_c(const Janet *values, int32_t n)
__CPROVER_requires(n == 1 && __CPROVER_r_ok(values, sizeof(Janet)) && (JBITS(values[0]) == g_in0 || g_child_sig != -1))
__CPROVER_assigns(g_tup_calls)
__CPROVER_ensures(g_tup_calls == __CPROVER_old(g_tup_calls) + 1);
const uint8_t *fib_formatc_c(const char *format, ...) __CPROVER_requires(1) __CPROVER_assigns() __CPROVER_ensures(1);
const uint8_t *fib_cstring_c(const char *str) __CPROVER_requires(1) __CPROVER_assigns() __CPROVER_ensures(1);

/* janet_continue on the pending child, as seen from janet_continue_no_check of the parent. Same postconditions as
 * fib_continue_c below (which is proved); the child's own representation invariant is a heap invariant that is assumed. */
JanetSignal fib_continue_child_c(JanetFiber *fiber, Janet in, Janet *out)
/* C19: walking down a chain of suspended fibers is native recursion (janet_continue -> janet_continue_no_check -> ...): every
 * level counts against JANET_RECURSION_GUARD, so the child is entered one level deeper than its parent was */
__CPROVER_requires(janet_vm.stackn == g_stackn0 + 1)
__CPROVER_requires(__CPROVER_rw_ok(fiber, sizeof(JanetFiber)))
__CPROVER_requires(__CPROVER_rw_ok(out, sizeof(Janet)))
__CPROVER_assigns(*fiber, *out, FIB_VM, g_child_ran, g_child_sig, g_child_val, g_child_last)
__CPROVER_ensures(IS_SIGNAL(__CPROVER_return_value))
__CPROVER_ensures(g_child_sig == (int) __CPROVER_return_value && g_child_val == JBITS(*out) && g_child_last == JBITS(fiber->last_value))
VM_REGS_RESTORED
__CPROVER_ensures(janet_vm.root_fiber == __CPROVER_old(janet_vm.root_fiber) || g_child_ran)
;

/* ghost snapshot of the entry state (status, resume value) used by the call-site obligations on run_vm: only in the
 * ENFORCED version of the contract; where the contract REPLACES a call (units fib.continue, fib.continue_signal) the
 * ghosts are not constrained */
#ifdef FIB_ENFORCE_NO_CHECK
#define NO_CHECK_GHOSTS __CPROVER_requires(g_st0 == (int) FIB_ST(fiber->flags) && g_in0 == JBITS(in) && g_tup_calls == 0 && g_stackn0 == janet_vm.stackn)
#else
#define NO_CHECK_GHOSTS
#endif
/* ---- janet_continue_no_check ---------------------------------------------------------------------------------------- */
#define NO_CHECK_CONTRACT \
WF_FIBER_REQUIRES(fiber) \
__CPROVER_requires(__CPROVER_is_fresh(out, sizeof(Janet))) \
/* established by janet_check_can_resume at every call site */ \
__CPROVER_requires(FIB_RESUMABLE(FIB_ST(fiber->flags))) \
__CPROVER_requires(janet_vm.stackn >= 0 && janet_vm.stackn < JANET_RECURSION_GUARD) \
__CPROVER_requires(g_ran == 0 && g_child_sig == -1) \
NO_CHECK_GHOSTS \
__CPROVER_requires(__CPROVER_pointer_equals(g_fiber, fiber)) \
__CPROVER_assigns(*fiber, *out, FIB_VM, g_ran, g_child_ran, g_child_sig, g_child_val, g_child_last, g_tup_calls) \
__CPROVER_assigns(fiber->child != (void *)0: *(fiber->child)) \
/* outside the VM, the only stack slot written is the first parameter slot of the current frame (value passed to a new fiber) */ \
__CPROVER_assigns(fiber->data[fiber->frame]) \
/* the result is a signal, and the status on return equals the returned signal */ \
__CPROVER_ensures(IS_SIGNAL(__CPROVER_return_value)) \
__CPROVER_ensures(FIB_ST(fiber->flags) == (int) __CPROVER_return_value) \
VM_REGS_RESTORED \
/* no child => no nested continue */ \
__CPROVER_ensures(g_child_sig >= -1 && g_child_sig <= JANET_SIGNAL_USER9) \
__CPROVER_ensures(__CPROVER_old(fiber->child) == (void *)0 ==> g_child_sig == -1) \
/* nearest enclosing fiber whose mask accepts: a child signal that the child's mask does not accept is re-raised unchanged, \
 * with the child's value, the child link kept, and the VM is not entered on this fiber */ \
__CPROVER_ensures((g_child_sig > 0 && !(__CPROVER_old(fiber->child)->flags & (1 << g_child_sig))) ==> \
                  ((int) __CPROVER_return_value == g_child_sig && g_ran == 0 && JBITS(*out) == g_child_val && \
                   JBITS(fiber->last_value) == g_child_last && fiber->child == __CPROVER_old(fiber->child))) \
/* in every other case the fiber itself is run (with the child link cleared - see run_vm's precondition) and the value of \
 * the return register arrives in *out and last_value */ \
__CPROVER_ensures(!(g_child_sig > 0 && !(__CPROVER_old(fiber->child)->flags & (1 << g_child_sig))) ==> \
                  (g_ran == 1 && JBITS(*out) == JBITS(fiber->last_value)))

static JanetSignal fib_no_check_c(JanetFiber *fiber, Janet in, Janet *out)
NO_CHECK_CONTRACT
;
/* the same contract with a stronger precondition (sound: implied by fib_no_check_c), used at the call site in
 * janet_continue_signal: PROVES that a non-OK signal is planted in the innermost fiber of the pending chain and nowhere else */
int g_sig; int32_t g_flags0;
#define DEEPEST(f) ((f)->child == (void *)0 ? (f) : (f)->child->child == (void *)0 ? (f)->child : (f)->child->child)
static JanetSignal fib_no_check_sig_c(JanetFiber *fiber, Janet in, Janet *out)
NO_CHECK_CONTRACT
__CPROVER_requires(g_sig == JANET_SIGNAL_OK ||
                   ((DEEPEST(fiber)->flags & JANET_FIBER_RESUME_SIGNAL) && FIB_ST(DEEPEST(fiber)->gc.flags) == g_sig))
__CPROVER_requires((g_sig == JANET_SIGNAL_OK || fiber->child != (void *)0) ==> fiber->flags == g_flags0)
;

/* ---- janet_continue / janet_continue_signal: eligibility check + run ------------------------------------------------------ */
#define FIB_UNTOUCHED(f) \
  ((f)->frame == __CPROVER_old((f)->frame) && (f)->stackstart == __CPROVER_old((f)->stackstart) && \
   (f)->stacktop == __CPROVER_old((f)->stacktop) && (f)->capacity == __CPROVER_old((f)->capacity) && \
   (f)->maxstack == __CPROVER_old((f)->maxstack) && (f)->data == __CPROVER_old((f)->data) && \
   (f)->child == __CPROVER_old((f)->child) && (f)->env == __CPROVER_old((f)->env) && \
   JBITS((f)->last_value) == __CPROVER_old(JBITS((f)->last_value)) && (f)->gc.flags == __CPROVER_old((f)->gc.flags) && \
   FIB_OTHER((f)->flags) == FIB_OTHER(__CPROVER_old((f)->flags)))

#define CONTINUE_CONTRACT \
WF_FIBER_REQUIRES(fiber) \
__CPROVER_requires(__CPROVER_is_fresh(out, sizeof(Janet))) \
__CPROVER_requires(janet_vm.stackn >= 0) \
__CPROVER_requires(g_ran == 0 && g_child_sig == -1) \
__CPROVER_requires(__CPROVER_pointer_equals(g_fiber, fiber)) \
__CPROVER_assigns(*fiber, *out, FIB_VM, g_ran, g_child_ran, g_child_sig, g_child_val, g_child_last, g_tup_calls) \
__CPROVER_assigns(fiber->child != (void *)0: *(fiber->child)) \
__CPROVER_assigns(fiber->data[fiber->frame]) \
__CPROVER_ensures(IS_SIGNAL(__CPROVER_return_value)) \
VM_REGS_RESTORED \
/* a finished fiber can never be resumed again: error signal, the VM is never entered, and it stays finished */ \
__CPROVER_ensures(FIB_FINISHED(FIB_ST(__CPROVER_old(fiber->flags))) ==> \
                  (__CPROVER_return_value == JANET_SIGNAL_ERROR && g_ran == 0 && FIB_FINISHED(FIB_ST(fiber->flags)))) \
/* every refusal (not new/suspended; recursion limit; root fiber): error signal, VM not entered on this fiber or its child, \
 * frames / stack / child / env / last value untouched, status unchanged except ERROR at the recursion limit */ \
__CPROVER_ensures(!ACCEPTED_OLD(fiber) ==> (__CPROVER_return_value == JANET_SIGNAL_ERROR && g_ran == 0 && g_child_sig == -1 && FIB_UNTOUCHED(fiber))) \
__CPROVER_ensures(!ACCEPTED_OLD(fiber) ==> (FIB_ST(fiber->flags) == FIB_ST(__CPROVER_old(fiber->flags)) || \
                  (__CPROVER_old(janet_vm.stackn) >= JANET_RECURSION_GUARD && FIB_ST(fiber->flags) == JANET_STATUS_ERROR))) \
/* an accepted resume: status on return equals the returned signal */ \
__CPROVER_ensures(ACCEPTED_OLD(fiber) ==> FIB_ST(fiber->flags) == (int) __CPROVER_return_value)

JanetSignal fib_continue_c(JanetFiber *fiber, Janet in, Janet *out)
CONTINUE_CONTRACT
;
/* bound of the cancel unit: the chain of pending children below the fiber has at most 2 links */
JanetSignal fib_continue_signal_c(JanetFiber *fiber, Janet in, Janet *out, JanetSignal sig)
__CPROVER_requires(IS_SIGNAL(sig))
CONTINUE_CONTRACT
__CPROVER_requires(g_sig == (int) sig && g_flags0 == fiber->flags)
#ifdef FIB_CHAIN1
__CPROVER_requires(fiber->child == (void *)0 || fiber->child->child == (void *)0)
#else
__CPROVER_requires(fiber->child == (void *)0 || fiber->child->child == (void *)0 ||
                   (__CPROVER_is_fresh(fiber->child->child, sizeof(JanetFiber)) && fiber->child->child->child == (void *)0))
__CPROVER_assigns(fiber->child != (void *)0 && fiber->child->child != (void *)0: fiber->child->child->flags, fiber->child->child->gc.flags)
#endif
;

void h_continue(void) {
  JanetFiber *f; Janet *out; Janet in;
  JanetSignal s = janet_continue(f, in, out);
  REACH("janet_continue returns");
  if (g_ran) REACH("janet_continue: accepted and run");
  if (!g_ran && g_child_sig == -1) REACH("janet_continue: refused");
}
void h_continue_signal(void) {
  JanetFiber *f; Janet *out; Janet in;
  JanetSignal s = janet_continue_signal(f, in, out, (JanetSignal) nd_int());
  REACH("janet_continue_signal returns");
  if (g_ran) REACH("janet_continue_signal: accepted and run");
  if (!g_ran && g_child_sig == -1) REACH("janet_continue_signal: refused");
}

void h_no_check(void) {
  JanetFiber *f; Janet *out; Janet in;
  JanetSignal s = janet_continue_no_check(f, in, out);
  REACH("janet_continue_no_check returns");
  if (g_ran == 0) REACH("child signal re-raised");
  if (g_jmp && g_ran) REACH("longjmp path");
  if (!g_jmp && g_ran) REACH("run_vm return path");
}
