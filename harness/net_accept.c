/* C16: "no read or write is left suspended forever" for listening sockets - janet_sched_accept + net_callback_accept (net.c,
 * POSIX branch), used by net/accept (one connection, then the registration ends) and net/accept-loop / net/server (the
 * registration stays and every connection gets a handler fiber).
 * Kernel contract ASSUMED (epoll(7) / kqueue EV_CLEAR): an edge-triggered registration reports readiness once per burst of
 * arrivals, however many connections queue up; a level-triggered one reports again while the backlog is not empty.
 * Obligation: after one readiness event with n >= 1 queued connections, a registration that STAYS (accept-loop) has either
 * drained the backlog or is level-triggered - otherwise a queued connection is never accepted and its peer waits forever.
 * net/accept: exactly one connection is handed to the waiting fiber and the registration ends. */
#include "prelude.h"
static int g_level, g_pending, g_accepted, g_end_calls, g_sched_handler, g_sched_waiter, g_start_calls;
static JanetStream na_listener, na_conn; static JanetFiber na_fiber, na_sub; static JanetFunction na_fun;
void na_level_stub(JanetStream *s) { __CPROVER_assert(s == &na_listener, "accept: the listener itself is switched to level-triggered"); g_level = 1; }
void na_edge_stub(JanetStream *s) { g_level = 0; }
int na_accept4_stub(int fd, __SOCKADDR_ARG a, socklen_t *__restrict l, int flags) {
  __CPROVER_assert(fd == na_listener.handle, "accept: connections are taken from the listener");
  if (g_pending > 0) { g_pending--; g_accepted++; return 100 + g_accepted; }
  return -1;        /* EAGAIN */
}
void na_noblock_stub(JSock s) {}
JanetStream *na_make_stream_stub(JSock h, uint32_t flags) { __CPROVER_assert(h > 100 && flags == (JANET_STREAM_READABLE | JANET_STREAM_WRITABLE), "accept: the connection becomes a duplex stream"); return &na_conn; }
JanetFiber *na_fiber_stub(JanetFunction *f, int32_t cap, int32_t argc, const Janet *argv) {
  __CPROVER_assert(f == &na_fun && argc == 1 && argv[0].type == JANET_ABSTRACT && argv[0].as.pointer == (void *)&na_conn, "accept-loop: the handler is started with the new connection");
  return &na_sub;
}
void na_schedule_stub(JanetFiber *f, Janet v) {
  if (f == &na_sub) g_sched_handler++;
  else { __CPROVER_assert(f == &na_fiber && v.type == JANET_ABSTRACT && v.as.pointer == (void *)&na_conn, "accept: the waiting fiber is resumed with the connection"); g_sched_waiter++; }
}
void na_async_end_stub(JanetFiber *f) { __CPROVER_assert(f == &na_fiber, "accept: the listener's own registration ends"); g_end_calls++; }
void na_async_start_stub(JanetStream *stream, JanetAsyncMode mode, JanetEVCallback cb, void *state) {
  __CPROVER_assert(stream == &na_listener && mode == JANET_ASYNC_LISTEN_READ && cb == net_callback_accept, "accept: the listener waits for readability with the accept callback");
  NetStateAccept *st = (NetStateAccept *) state;
  __CPROVER_assert(st->function == (NA_LOOP ? &na_fun : (JanetFunction *)0), "accept: the handler function is recorded (none for a single accept)");
  g_start_calls++;
  /* what janet_async_start_fiber records */
  na_fiber.ev_stream = stream; na_fiber.ev_state = state; na_fiber.ev_callback = cb;
  /* one readiness event with n >= 1 queued connections */
  g_pending = nd_int(); __CPROVER_assume(g_pending >= 1 && g_pending <= 3);
  int n0 = g_pending;
  net_callback_accept(&na_fiber, JANET_ASYNC_EVENT_READ);
#if NA_LOOP
  __CPROVER_assert(g_end_calls == 0 && g_sched_waiter == 0, "accept-loop: the registration stays");
  __CPROVER_assert(g_accepted >= 1 && g_sched_handler == g_accepted, "accept-loop: every accepted connection gets its handler fiber");
  __CPROVER_assert(g_pending == 0 || g_level, "accept-loop: connections still queued after the event will be reported again (level-triggered) - none is left waiting forever");
  if (n0 >= 2) REACH("accept-loop: several connections queued at one event");
#else
  __CPROVER_assert(g_accepted == 1 && g_sched_waiter == 1 && g_end_calls == 1 && g_sched_handler == 0, "accept: exactly one connection is handed to the waiting fiber and the registration ends");
  REACH("accept: one connection delivered");
#endif
  __CPROVER_assume(0);      /* janet_async_start does not return (the fiber suspends) */
}
void h_net_accept(void) {
  na_listener.handle = 7; g_level = 0;
  janet_sched_accept(&na_listener, NA_LOOP ? &na_fun : (JanetFunction *)0);
  __CPROVER_assert(0, "accept: janet_sched_accept does not return");
}
