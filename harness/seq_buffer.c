/* C04/C17: resizable-sequence core of buffer.c under contract (dfcc). wf_buffer see seq_common.h.
 * Units define SEQ_ELEM_BYTES (element = byte) and SEQ_TRACK_REALLOC. */
#include "seq_common.h"

#define B_GHOST_IN(b) (g_idx >= 0 && g_idx < (b)->count)
#define B_NOREALLOC(b) (((b)->gc.flags & JANET_BUFFER_FLAG_NO_REALLOC) != 0)
int g_foreign;    /* pre-state of the NO_REALLOC flag */
#define B_PRE(buffer) \
  __CPROVER_requires(WF_BUFFER(buffer)) \
  __CPROVER_requires(g_oldcount == buffer->count && g_oldcap == buffer->capacity && g_re_called == 0 && g_foreign == B_NOREALLOC(buffer)) \
  __CPROVER_requires(B_GHOST_IN(buffer) ==> buffer->data[g_idx] == g_byte)
#define B_FRAME(buffer) \
  __CPROVER_assigns(buffer->data, buffer->capacity, buffer->count, g_re_called, __CPROVER_object_whole(buffer->data)) \
  __CPROVER_frees(buffer->data)
/* common postcondition: invariant, prefix bytes unchanged, memory of a foreign (NO_REALLOC) buffer never reallocated */
#define B_POST(buffer) \
  __CPROVER_ensures(WF_BUFFER(buffer)) \
  __CPROVER_ensures((g_idx >= 0 && g_idx < g_oldcount && g_idx < buffer->count) ==> buffer->data[g_idx] == g_byte) \
  __CPROVER_ensures(g_foreign ==> (g_re_called == 0 && buffer->capacity == g_oldcap)) \
  __CPROVER_ensures(buffer->capacity >= g_oldcap)

/* janet_buffer_ensure(buffer, capacity, growth), growth >= 1 (in-tree callers pass 1 or 2) */
void janet_buffer_ensure_c(JanetBuffer *buffer, int32_t capacity, int32_t growth)
B_PRE(buffer)
__CPROVER_requires(growth >= 1)
B_FRAME(buffer)
B_POST(buffer)
__CPROVER_ensures(buffer->capacity >= capacity && buffer->count == g_oldcount)
__CPROVER_ensures(capacity <= g_oldcap ==> (buffer->capacity == g_oldcap && g_re_called == 0))
;
void h_buffer_ensure(void) {
  JanetBuffer *b = mk_buffer(); int32_t c = nd_i32(), g = nd_i32();
  janet_buffer_ensure(b, c, g);
  REACH("janet_buffer_ensure returns");
  if (c > g_oldcap) REACH("janet_buffer_ensure returns after growing");
}

/* janet_buffer_setcount: negative count ignored; else length becomes count, surviving bytes unchanged, new bytes 0 */
void janet_buffer_setcount_c(JanetBuffer *buffer, int32_t count)
B_PRE(buffer)
B_FRAME(buffer)
B_POST(buffer)
__CPROVER_ensures(buffer->count == (count < 0 ? g_oldcount : count))
__CPROVER_ensures((g_idx >= g_oldcount && g_idx < buffer->count && g_mm == (size_t)(g_idx - g_oldcount)) ==> buffer->data[g_idx] == 0)
;
void h_buffer_setcount(void) {
  JanetBuffer *b = mk_buffer(); int32_t c = nd_i32();
  janet_buffer_setcount(b, c);
  REACH("janet_buffer_setcount returns");
  if (c > g_oldcount) REACH("janet_buffer_setcount returns after extending");
}

/* janet_buffer_extra(buffer, n): raises if count + n > INT32_MAX; else room for n more bytes, content unchanged */
void janet_buffer_extra_c(JanetBuffer *buffer, int32_t n)
B_PRE(buffer)
B_FRAME(buffer)
B_POST(buffer)
__CPROVER_ensures((int64_t)g_oldcount + n <= INT32_MAX && buffer->count == g_oldcount)
__CPROVER_ensures(n >= 0 ==> buffer->capacity >= g_oldcount + n)
;
void h_buffer_extra(void) {
  JanetBuffer *b = mk_buffer(); int32_t n = nd_i32();
  janet_buffer_extra(b, n);
  REACH("janet_buffer_extra returns");
  if (b->capacity != g_oldcap) REACH("janet_buffer_extra returns after growing");
}

/* janet_buffer_push_bytes(buffer, string, length), length >= 0 and string readable for length bytes and not inside the
 * buffer's block: appends the bytes (raises instead of exceeding INT32_MAX), prefix unchanged */
const uint8_t *g_src;
void janet_buffer_push_bytes_c(JanetBuffer *buffer, const uint8_t *string, int32_t length)
B_PRE(buffer)
__CPROVER_requires(length >= 0 && (length == 0 || __CPROVER_r_ok(string, (size_t)length)) && !__CPROVER_same_object(string, buffer->data) && g_src == string)
B_FRAME(buffer)
B_POST(buffer)
__CPROVER_ensures((int64_t)buffer->count == (int64_t)g_oldcount + length)
__CPROVER_ensures(g_mm < (size_t)length ==> buffer->data[g_oldcount + g_mm] == g_src[g_mm])
;
void h_buffer_push_bytes(void) {
  JanetBuffer *b = mk_buffer(); int32_t n = nd_i32();
  __CPROVER_assume(n >= 0);
  uint8_t *src = malloc((size_t)n);
  __CPROVER_assume(src != SEQ_NULL);
  g_src = src;
  janet_buffer_push_bytes(b, src, n);
  REACH("janet_buffer_push_bytes returns");
  if (n > 0 && b->capacity != g_oldcap) REACH("janet_buffer_push_bytes returns after growing");
}
/* self-append as done by buffer/push-string and buffer/push with the buffer itself as argument: the caller has
 * called janet_buffer_ensure(buffer, count + length, 2) first, so the block does not move */
void janet_buffer_push_bytes_self_c(JanetBuffer *buffer, const uint8_t *string, int32_t length)
B_PRE(buffer)
__CPROVER_requires(string == buffer->data && length >= 0 && length <= buffer->count && (int64_t)buffer->capacity >= (int64_t)buffer->count + length)
B_FRAME(buffer)
B_POST(buffer)
__CPROVER_ensures(buffer->count == g_oldcount + length && g_re_called == 0)
__CPROVER_ensures((g_mm < (size_t)length && g_idx >= 0 && (size_t)g_idx == g_mm) ==> buffer->data[g_oldcount + g_mm] == g_byte)
;
void h_buffer_push_bytes_self(void) {
  JanetBuffer *b = mk_buffer(); int32_t n = nd_i32();
  janet_buffer_push_bytes(b, b->data, n);
  REACH("janet_buffer_push_bytes (self append) returns");
}

/* janet_buffer_push_u8/u16/u32/u64: appends 1/2/4/8 bytes, little endian, prefix unchanged, raises instead of overflow */
#define PUSH_U(bits, nbytes) \
void janet_buffer_push_u##bits##_c(JanetBuffer *buffer, uint##bits##_t x) \
B_PRE(buffer) B_FRAME(buffer) B_POST(buffer) \
__CPROVER_ensures((int64_t)g_oldcount + nbytes <= INT32_MAX && buffer->count == g_oldcount + nbytes) \
__CPROVER_ensures(g_mm < nbytes ==> buffer->data[g_oldcount + g_mm] == (uint8_t)(((uint64_t)x >> (8 * g_mm)) & 0xFF)) \
; \
void h_buffer_push_u##bits(void) { \
  JanetBuffer *b = mk_buffer(); uint##bits##_t x; /* nondet */ \
  janet_buffer_push_u##bits(b, x); \
  REACH("janet_buffer_push_u" #bits " returns"); \
  if (b->capacity != g_oldcap) REACH("janet_buffer_push_u" #bits " returns after growing"); \
}
PUSH_U(8, 1)
PUSH_U(16, 2)
PUSH_U(32, 4)
PUSH_U(64, 8)
