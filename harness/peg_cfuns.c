/* C12: "peg/find, find-all, replace and replace-all agree with repeated matching" - the drivers cfun_peg_match, cfun_peg_find,
 * cfun_peg_find_all and cfun_peg_replace_generic (peg.c) with the REAL peg_call_reset.  Every attempt is an independent match:
 * when the matcher is entered the capture stack, the tagged captures, the scratch and tag buffers are empty, the recursion
 * budget is full and the mode is normal - whatever an earlier attempt (matched or failed) left behind; the attempts are made at
 * start, start+1, ... in order; find returns the first matching index, find-all exactly the matching indices in order, match
 * the captures of the single attempt at start.  The matcher is a recording stub that leaves an arbitrary dirty state. */
#include "prelude.h"
#ifndef PF_LEN
#define PF_LEN 4
#endif
static uint8_t pf_text[PF_LEN + 1]; static uint32_t pf_bc[1];
static JanetArray pf_caps, pf_tagged, pf_ret; static JanetBuffer pf_scratch, pf_tags;
static int32_t pf_len, pf_start, pf_next; static int pf_calls; static int pf_matched[PF_LEN + 1]; static int pf_npush; static int32_t pf_pushed[PF_LEN + 1];
PegCall pf_init_stub(int32_t argc, Janet *argv, int get_replace) {
  PegCall c; c.peg = (JanetPeg *)0; c.bytes.bytes = pf_text; c.bytes.len = pf_len; c.start = pf_start; c.subst.type = JANET_STRING; c.subst.as.u64 = 0;
  c.s.bytecode = pf_bc; c.s.captures = &pf_caps; c.s.tagged_captures = &pf_tagged; c.s.scratch = &pf_scratch; c.s.tags = &pf_tags;
  c.s.depth = JANET_RECURSION_GUARD; c.s.mode = PEG_MODE_NORMAL; c.s.text_start = pf_text; c.s.text_end = pf_text + pf_len; c.s.outer_text_end = c.s.text_end;
  pf_caps.count = 0; pf_tagged.count = 0; pf_scratch.count = 0; pf_tags.count = 0;
  return c;
}
const uint8_t *pf_rule_stub(PegState *s, const uint32_t *rule, const uint8_t *text) {
  __CPROVER_assert(rule == pf_bc, "peg.cfun: matching starts at the first rule");
  __CPROVER_assert(s->captures == &pf_caps && pf_caps.count == 0 && pf_tagged.count == 0, "peg.cfun: every attempt starts with no captures and no tagged captures");
  __CPROVER_assert(pf_scratch.count == 0 && pf_tags.count == 0, "peg.cfun: every attempt starts with empty scratch and tag buffers");
  __CPROVER_assert(s->depth == JANET_RECURSION_GUARD && s->mode == PEG_MODE_NORMAL, "peg.cfun: every attempt starts with the full recursion budget in normal mode");
#ifndef PF_REPLACE
  __CPROVER_assert(text == pf_text + pf_next, "peg.cfun: attempts are made at start, start+1, ... in order");
#endif
  __CPROVER_assert(text >= pf_text && text <= pf_text + pf_len, "peg.cfun: matching starts inside the text");
  int32_t at = (int32_t)(text - pf_text);
  pf_next = at + 1; pf_calls++;
  /* an attempt - matched or not - leaves captures, tags and a used-up budget behind */
  pf_caps.count = nd_i32(); pf_tagged.count = nd_i32(); pf_scratch.count = nd_i32(); pf_tags.count = nd_i32(); s->depth = nd_int();
  if (nd_int()) { if (at <= PF_LEN) pf_matched[at] = 0; return (const uint8_t *)0; }
  if (at <= PF_LEN) pf_matched[at] = 1;
  int32_t to = nd_i32(); __CPROVER_assume(to >= at && to <= pf_len);
  return pf_text + to;
}
JanetArray *pf_array_stub(int32_t cap) { pf_ret.count = 0; return &pf_ret; }
void pf_push_stub(JanetArray *a, Janet x) {
  __CPROVER_assert(a == &pf_ret && x.type == JANET_NUMBER, "peg.find-all: indices are pushed to the result");
  if (pf_npush <= PF_LEN) pf_pushed[pf_npush] = (int32_t) x.as.number;
  pf_npush++;
}
JanetByteView pf_subst_stub(Janet *subst, const uint8_t *bytes, uint32_t len, JanetArray *extra) {
  __CPROVER_assert(extra == &pf_caps, "peg.replace: the substitution sees the captures of this match");
  JanetByteView v; v.bytes = pf_text; v.len = 0; return v;
}
JanetBuffer *pf_buffer_stub(int32_t cap) { return &pf_scratch + 1 - 1 == &pf_scratch ? (JanetBuffer *)&pf_ret : (JanetBuffer *)0; }
void pf_pushbytes_stub(JanetBuffer *b, const uint8_t *bytes, int32_t n) {}
static void pf_setup(void) {
  pf_len = nd_i32(); pf_start = nd_i32();
  __CPROVER_assume(pf_len >= 0 && pf_len <= PF_LEN && pf_start >= 0 && pf_start <= pf_len);
  pf_next = pf_start; pf_calls = 0; pf_npush = 0;
}
void h_peg_match(void) {
  pf_setup(); Janet argv[3];
  Janet r = cfun_peg_match(2, argv);
  __CPROVER_assert(pf_calls == 1, "peg.match: exactly one attempt, at start");
  __CPROVER_assert(pf_matched[pf_start] ? (r.type == JANET_ARRAY && r.as.pointer == (void *)&pf_caps) : r.type == JANET_NIL, "peg.match: the captures when matched, nil otherwise");
  REACH("peg/match returns");
}
void h_peg_find(void) {
  pf_setup(); Janet argv[3];
  Janet r = cfun_peg_find(2, argv);
  if (r.type == JANET_NIL) {
    __CPROVER_assert(pf_calls == pf_len - pf_start, "peg.find: nil only after every index from start was tried");
    for (int32_t i = 0; i < PF_LEN; i++) if (i >= pf_start && i < pf_len) __CPROVER_assert(!pf_matched[i], "peg.find: nil only when no index matches");
    REACH("peg/find: nil");
  } else {
    int32_t k = (int32_t) r.as.number;
    __CPROVER_assert(r.type == JANET_NUMBER && k >= pf_start && k < pf_len && pf_matched[k] && pf_calls == k - pf_start + 1, "peg.find: the first matching index (no earlier index matched, no later one tried)");
    REACH("peg/find: index");
  }
}
void h_peg_find_all(void) {
  pf_setup(); Janet argv[3];
  Janet r = cfun_peg_find_all(2, argv);
  __CPROVER_assert(r.type == JANET_ARRAY && r.as.pointer == (void *)&pf_ret, "peg.find-all: returns the result array");
  __CPROVER_assert(pf_calls == pf_len - pf_start, "peg.find-all: every index from start is tried once");
  int n = 0;
  for (int32_t i = 0; i < PF_LEN; i++) if (i >= pf_start && i < pf_len && pf_matched[i]) {
    __CPROVER_assert(n < pf_npush && pf_pushed[n] == i, "peg.find-all: the result is exactly the matching indices, in order");
    n++;
  }
  __CPROVER_assert(n == pf_npush, "peg.find-all: nothing else is in the result");
  if (n >= 2) REACH("find-all: several matches");
  REACH("peg/find-all returns");
}
void h_peg_replace_fresh(void) {
  pf_setup(); Janet argv[3];
  cfun_peg_replace_generic(3, argv, nd_int() & 1);
  if (pf_calls >= 2) REACH("replace: several attempts");
}
