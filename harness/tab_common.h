/* C04 (map part): shared key universe, representation invariants and the finite-map view for the table / dictionary
 * units (util.c janet_dict_find, janet_dictionary_next; table.c put/remove/rawget/get/clear/rehash).
 *
 * Abstract key universe (the C03 contracts of janet_hash / janet_equals, as in val2_struct.c):
 *   TAB_K pairwise different keys, key id 1..TAB_K (concretely the numbers 1..TAB_K; the code under proof looks at a key
 *   only through janet_hash, janet_equals, "is it nil", "is it a NaN number" and by copying its 64 bits);
 *   id 0 stands for a FOREIGN key (nil, NaN) that equals nothing, not even itself.
 *   janet_equals = identity of the key id;  janet_hash = g_tab_h[id], an ARBITRARY function of the key (all 2^32 values
 *   per key, so every home bucket / collision pattern is covered).
 *
 * Bucket states (derived from the code: janet_memempty/janet_memalloc_empty write (nil,nil); janet_table_remove writes
 * (nil,false); janet_dict_find tells them apart by "value is nil"; janet_table_put by "value is a boolean"):
 *   EMPTY      key = nil, value = nil
 *   TOMBSTONE  key = nil, value = false
 *   LIVE       key in the universe, value any non-nil word
 *
 * wf_dict(buckets, cap):
 *   D1 cap is a power of two >= 1 (janet_tablen; with cap == 0 janet_maphash would yield the raw hash as start index)
 *   D2 every bucket is EMPTY, TOMBSTONE or LIVE
 *   D3 live keys are pairwise different
 *   D4 probe path: with home(k) = hash(k) & (cap-1) and dist(a,b) = (b - a) & (cap-1), for every live bucket i and every
 *      EMPTY bucket j:  dist(home(key[i]), j) > dist(home(key[i]), i)
 *      i.e. every live key is reachable from its home bucket by linear probing with wrap-around without crossing an empty
 *      bucket; tombstones do not stop a probe
 * wf_table(t) = wf_dict(t->data, t->capacity), t->data a heap block of exactly capacity buckets,
 *   T1 t->count is the number of LIVE buckets, T2 t->deleted the number of TOMBSTONEs,
 *   T3 load: 2 * (count + deleted) <= capacity  (janet_table_put rehashes before it would be violated; remove moves one
 *      unit from count to deleted; the weak-table sweep of gc.c does the same) - hence at least one EMPTY bucket exists.
 *
 * View: tab_lookup(buckets, cap, k) = value word of the live bucket whose key has id k, else the nil word. */
#ifndef VC_TAB_COMMON_H
#define VC_TAB_COMMON_H
#include "prelude.h"
#include <stdlib.h>

#ifndef TAB_K
#define TAB_K 4
#endif
#define TAB_NULL ((void *)0)

int32_t g_tab_h[TAB_K + 1];              /* the hash function on key ids: arbitrary (index 0: foreign keys) */
static Janet tab_keytab[TAB_K + 1];      /* key id -> Janet */
static uint64_t tab_nilw, tab_falsew;    /* bit patterns of janet_wrap_nil() / janet_wrap_false() */

static int tab_kid(Janet x) {
  for (int i = 1; i <= TAB_K; i++) if (x.u64 == tab_keytab[i].u64) return i;
  return 0;
}

/* contracts of the callees on keys (assumed; the laws are what units val.* prove of the real ones) */
int32_t janet_hash(Janet x) { return g_tab_h[tab_kid(x)]; }
int janet_equals(Janet a, Janet b) { int x = tab_kid(a), y = tab_kid(b); return x != 0 && x == y; }

static void tab_init(void) {
  for (int i = 0; i <= TAB_K; i++) g_tab_h[i] = nd_i32();
  tab_nilw = janet_wrap_nil().u64;
  tab_falsew = janet_wrap_false().u64;
  tab_keytab[0] = janet_wrap_nil();
  for (int i = 1; i <= TAB_K; i++) tab_keytab[i] = janet_wrap_number((double) i);
}

#define TAB_EMPTY 0
#define TAB_TOMB 1
#define TAB_LIVE 2
#define TAB_BAD 3
#define TAB_MAXB 16                      /* largest capacity any unit uses */
/* state of a bucket; *kid = key id of a LIVE bucket, else 0 */
static int tab_state_k(const JanetKV *kv, int *kid) {
  *kid = 0;
  if (kv->key.u64 == tab_nilw) {
    if (kv->value.u64 == tab_nilw) return TAB_EMPTY;
    if (kv->value.u64 == tab_falsew) return TAB_TOMB;
    return TAB_BAD;
  }
  int k = tab_kid(kv->key);
  if (k != 0 && !janet_checktype(kv->value, JANET_NIL)) { *kid = k; return TAB_LIVE; }
  return TAB_BAD;
}
static int tab_state(const JanetKV *kv) { int k; return tab_state_k(kv, &k); }
static int32_t tab_home(int32_t cap, int k) { return (int32_t)((uint32_t) g_tab_h[k] & (uint32_t)(cap - 1)); }
static int32_t tab_dist(int32_t cap, int32_t from, int32_t to) { return (to - from) & (cap - 1); }
static int tab_pow2(int32_t cap) { return cap >= 1 && (cap & (cap - 1)) == 0; }

/* wf_dict; *nlive / *ntomb = number of LIVE / TOMBSTONE buckets */
static int tab_wf_dict(const JanetKV *b, int32_t cap, int32_t *nlive, int32_t *ntomb) {
  int ok = 1; int32_t nl = 0, nt = 0; unsigned seen = 0;
  int st[TAB_MAXB], kd[TAB_MAXB]; int32_t hm[TAB_MAXB];
  *nlive = 0; *ntomb = 0;
  if (!tab_pow2(cap) || cap > TAB_MAXB) return 0;                           /* D1 */
  for (int32_t i = 0; i < cap; i++) {
    st[i] = tab_state_k(b + i, &kd[i]);
    hm[i] = tab_home(cap, kd[i]);
  }
  for (int32_t i = 0; i < cap; i++) {
    if (st[i] == TAB_BAD) ok = 0;                                           /* D2 */
    if (st[i] == TAB_TOMB) nt++;
    if (st[i] == TAB_LIVE) {
      if (seen & (1u << kd[i])) ok = 0;                                     /* D3 */
      seen |= 1u << kd[i];
      nl++;
      int32_t di = tab_dist(cap, hm[i], i);
      for (int32_t j = 0; j < cap; j++)                                     /* D4 */
        if (st[j] == TAB_EMPTY && tab_dist(cap, hm[i], j) <= di) ok = 0;
    }
  }
  *nlive = nl; *ntomb = nt;
  return ok;
}

static Janet tab_lookup(const JanetKV *b, int32_t cap, int k) {
  Janet r = janet_wrap_nil();
  for (int32_t i = 0; i < cap; i++) {
    int ki;
    if (tab_state_k(b + i, &ki) == TAB_LIVE && k != 0 && ki == k) r = b[i].value;
  }
  return r;
}

/* The result janet_dict_find must produce, as a bucket index (-1: NULL), for a key with id k (0: foreign key):
 *   the live bucket holding an equal key if there is one; otherwise the EMPTY bucket nearest to the home bucket in probe
 *   order (the one that terminates the probe) if there is an empty bucket; otherwise (no empty bucket at all) the
 *   TOMBSTONE nearest to the home bucket in probe order; otherwise (table full of other keys) NULL. */
static int32_t tab_find_spec(const JanetKV *b, int32_t cap, int k) {
  int32_t h = tab_home(cap, k);
  int32_t match = -1, e = -1, t = -1, ed = cap, td = cap;
  for (int32_t i = 0; i < cap; i++) {
    int ki;
    int s = tab_state_k(b + i, &ki);
    int32_t d = tab_dist(cap, h, i);
    if (s == TAB_LIVE && k != 0 && ki == k) match = i;
    if (s == TAB_EMPTY && d < ed) { e = i; ed = d; }
    if (s == TAB_TOMB && d < td) { t = i; td = d; }
  }
  return match >= 0 ? match : e >= 0 ? e : t;
}

/* an arbitrary bucket array of cap buckets (exact-size heap block): every bucket EMPTY, TOMBSTONE or LIVE with an
 * arbitrary key of the universe and an arbitrary value word (tab_wf_dict is assumed separately) */
static JanetKV *tab_any_buckets(int32_t cap) {
  JanetKV *b = malloc((size_t) cap * sizeof(JanetKV));
  __CPROVER_assume(b != TAB_NULL);
  for (int32_t i = 0; i < cap; i++) {
    int k = nd_int();
    __CPROVER_assume(k >= -1 && k <= TAB_K);
    if (k == 0) { b[i].key = janet_wrap_nil(); b[i].value = janet_wrap_nil(); }
    else if (k == -1) { b[i].key = janet_wrap_nil(); b[i].value = janet_wrap_false(); }
    else { b[i].key = tab_keytab[k]; b[i].value.u64 = nd_u64(); }
  }
  return b;
}

/* a lookup key: id 1..TAB_K -> key of the universe; id 0 -> a foreign key: nil or any NaN number */
static Janet tab_any_key(int k) {
  Janet key;
  if (k != 0) return tab_keytab[k];
  if (nd_int()) return janet_wrap_nil();
  key.u64 = nd_u64();
  __CPROVER_assume(janet_checktype(key, JANET_NUMBER) && isnan(janet_unwrap_number(key)));
  return key;
}
#endif
