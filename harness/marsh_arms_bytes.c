/* C10/C09: the byte-sequence arms of unmarshal_one (marsh.c): LB_STRING, LB_SYMBOL, LB_KEYWORD, LB_BUFFER, LB_REGISTRY.
 * Layout: lead byte, length (readnat), `length` raw bytes. The length is untrusted: it must be checked against the rest of the
 * input BEFORE anything is allocated or copied. Stubs:
 *   readnat             any int32 >= 0, leaves the cursor inside the input (proved: unit marsh.readnat, C09.json)
 *   janet_string/symbol/keyword(buf, len)   constructor contract: precondition len >= 0 and buf[0..len) readable - asserted at
 *                       the call, i.e. the range check has happened before; returns a string object; arguments recorded
 *   janet_buffer(cap)   allocation contract: cap >= 0, returns an empty buffer with exactly cap bytes
 *   safe_memcpy         precondition: source readable and destination writable for len bytes; copies (ghost byte checked)
 *   janet_table_get     registry lookup: any value (nil for an unknown name)
 * -DMA_LEAD=<lead byte> -DMA_KIND=<0 string,1 symbol,2 keyword,3 buffer,4 registry> */
#include "marsh_arms.h"
static const uint8_t *unmarshal_one__entry(UnmarshalState *st, const uint8_t *data, Janet *out, int flags);
const uint8_t *ma_norec_stub(UnmarshalState *st, const uint8_t *data, Janet *out, int flags) { __CPROVER_assert(0, "C10 byte sequence arm: no nested value is read"); __CPROVER_assume(0); return data; }
int32_t mb_len; size_t mb_after; int mb_nat_calls;
int32_t mb_readnat_stub(UnmarshalState *st, const uint8_t **atdata) {
  int32_t v = nd_i32(); __CPROVER_assume(v >= 0);
  size_t at = (size_t)(*atdata - ma_in), k = nd_size(); __CPROVER_assume(k >= 1 && k <= 5 && at + k <= ma_n);
  *atdata = ma_in + at + k; mb_len = v; mb_after = at + k; mb_nat_calls++; return v;
}
int mb_ctor_calls, mb_ctor_kind; size_t mb_ctor_off; int32_t mb_ctor_len; uint8_t *mb_strobj;
static const uint8_t *mb_ctor(int kind, const uint8_t *buf, int32_t len) {
  __CPROVER_assert(len >= 0, "C10 byte sequence: the constructor gets a non-negative length");
  __CPROVER_assert(len == 0 || __CPROVER_r_ok(buf, (size_t) len), "C10 byte sequence: the length was checked against the rest of the input BEFORE the bytes are handed to the constructor");
  mb_ctor_calls++; mb_ctor_kind = kind; mb_ctor_off = (size_t)(buf - ma_in); mb_ctor_len = len;
  mb_strobj = malloc(sizeof(JanetStringHead) + 4); __CPROVER_assume(mb_strobj != 0);
  return mb_strobj + sizeof(JanetStringHead);
}
const uint8_t *mb_string_stub(const uint8_t *buf, int32_t len) { return mb_ctor(0, buf, len); }
const uint8_t *mb_symbol_stub(const uint8_t *buf, int32_t len) { return mb_ctor(1, buf, len); }
const uint8_t *mb_keyword_stub(const uint8_t *buf, int32_t len) { return mb_ctor(2, buf, len); }
JanetBuffer mb_buf; int mb_buf_calls; int32_t mb_buf_cap;
JanetBuffer *mb_buffer_stub(int32_t capacity) {
  __CPROVER_assert(capacity >= 0, "C10 buffer: the capacity requested is not negative");
  __CPROVER_assert((size_t) capacity <= ma_n, "C10 buffer: nothing larger than the input is allocated on behalf of an untrusted length");
  mb_buf_calls++; mb_buf_cap = capacity; mb_buf.count = 0; mb_buf.capacity = capacity;
  mb_buf.data = malloc((size_t) capacity); __CPROVER_assume(mb_buf.data != 0);
  return &mb_buf;
}
int mb_cpy_calls; size_t mb_cpy_len, mb_cpy_src; void *mb_cpy_dst; size_t mb_gi;   /* mb_gi: ghost byte index */
void mb_memcpy_stub(void *dest, const void *src, size_t len) {
  __CPROVER_assert(len == 0 || (__CPROVER_r_ok(src, len) && __CPROVER_w_ok(dest, len)), "C10 buffer: the copy reads only input bytes and writes only bytes of the new buffer");
  mb_cpy_calls++; mb_cpy_len = len; mb_cpy_src = (size_t)((const uint8_t *) src - ma_in); mb_cpy_dst = dest;
  if (mb_gi < len) ((uint8_t *) dest)[mb_gi] = ((const uint8_t *) src)[mb_gi];
}
JanetTable mb_reg; int mb_get_calls; Janet mb_get_result; int mb_get_key_ok;
Janet mb_tget_stub(JanetTable *t, Janet key) {
  mb_get_calls++;
  mb_get_key_ok = (t == &mb_reg) && janet_checktype(key, JANET_SYMBOL) && janet_unwrap_symbol(key) == (const uint8_t *)(mb_strobj + sizeof(JanetStringHead));
  Janet r; r.type = (JanetType) (nd_int() & 15); r.as.u64 = nd_u64(); mb_get_result = r; return r;
}
void h_arm_bytes(void) {
  UnmarshalState st; Janet out = janet_wrap_nil(); ma_setup(&st); int flags = nd_int();
  if (MA_KIND == 4 && nd_int()) st.reg = &mb_reg;
  mb_gi = nd_size();
  if (ma_off < ma_n) __CPROVER_assume(MA_B(0) == MA_LEAD);
  const uint8_t *ret = unmarshal_one__entry(&st, MA_CUR, &out, flags);
  MA_DEPTH_OK(flags);
  __CPROVER_assert(ma_off < ma_n && mb_nat_calls == 1, "C10 byte sequence: one length is read");
  __CPROVER_assert((size_t) mb_len <= ma_n - mb_after, "C10 byte sequence: an accepted length does not exceed the remaining input");
  __CPROVER_assert(ret == ma_in + mb_after + mb_len, "C10 byte sequence: the cursor advances by exactly the length");
#if MA_KIND <= 2
  __CPROVER_assert(mb_ctor_calls == 1 && mb_ctor_kind == (MA_KIND == 0 ? 0 : 1) && mb_ctor_off == mb_after && mb_ctor_len == mb_len,
                   "C09 string/symbol/keyword: built from exactly the `length` bytes that follow the length, by the constructor of its own type (keywords are interned by janet_symbol: janet.h defines janet_keyword as janet_symbol)");
  __CPROVER_assert(out.type == (MA_KIND == 0 ? JANET_STRING : MA_KIND == 1 ? JANET_SYMBOL : JANET_KEYWORD) && out.as.pointer == (void *)(mb_strobj + sizeof(JanetStringHead)),
                   "C10 string/symbol/keyword: the result is the constructed object, tagged with its own type");
#elif MA_KIND == 3
  __CPROVER_assert(mb_buf_calls == 1 && mb_buf_cap >= mb_len && out.type == JANET_BUFFER && out.as.pointer == (void *) &mb_buf, "C10 buffer: the result is a buffer allocated for at least `length` bytes");
  __CPROVER_assert(mb_buf.count == mb_len && mb_buf.count <= mb_buf.capacity, "C10 buffer: count == length <= capacity");
  __CPROVER_assert(mb_cpy_calls == 1 && mb_cpy_len == (size_t) mb_len && mb_cpy_src == mb_after && mb_cpy_dst == (void *) mb_buf.data, "C09 buffer: exactly the `length` bytes that follow the length are copied to the start of the buffer");
  if (mb_gi < (size_t) mb_len) { __CPROVER_assert(mb_buf.data[mb_gi] == ma_in[mb_after + mb_gi], "C09 buffer: every byte reads back as written"); REACH("buffer with at least one byte"); }
#else
  if (st.reg) {
    __CPROVER_assert(mb_ctor_calls == 1 && mb_ctor_kind == 1 && mb_ctor_off == mb_after && mb_ctor_len == mb_len && mb_get_calls == 1 && mb_get_key_ok,
                     "C10 registry: the name is the symbol made of exactly the `length` bytes that follow the length; it is looked up in the caller's table");
    __CPROVER_assert(MA_SAME(out, mb_get_result), "C10 registry: the result is what the lookup table holds under the name (nil for an unknown name)");
    REACH("registry arm with a lookup table");
  } else {
    __CPROVER_assert(mb_ctor_calls == 0 && mb_get_calls == 0 && out.type == JANET_NIL, "C10 registry: without a lookup table the result is nil");
    REACH("registry arm without a lookup table");
  }
#endif
  MA_ASSERT_PUSHED_ONCE(st, out, "C09 byte sequence: the value gets the next reference number, exactly once", "C09 byte sequence: earlier reference numbers keep their values");
  if (mb_len == 0) REACH("empty byte sequence at the very end of the input is accepted");
  REACH("byte sequence arm");
}
