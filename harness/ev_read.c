/* C16: the POSIX read state machine ev_callback_read (ev.c), one readiness event, every state.
 * "A chunked read returns exactly the requested count unless the stream ends, reads return nil at end of stream";
 * "bytes ... are received completely, without duplication and in order"; "every read ... either completes or raises".
 *
 * Oracle: ghost g_delivered = bytes the kernel delivered during this event. Each read(2)/recv(2)/recvfrom(2) must be given
 * exactly the free range that FOLLOWS the bytes already received (buffer->data + buffer->count) and at most bytes_left
 * bytes (4096 per call in chunk mode); afterwards count, bytes_read, bytes_left have moved by exactly g_delivered - so, by
 * induction over the events of one operation, every byte lands once, in order, after the earlier ones. The fiber is
 * resumed with the buffer exactly when the request is satisfied (plain read: first data; chunked read: all n bytes, or
 * end of stream after some data), with nil at end of stream before any byte, is cancelled on an error, and stays
 * registered - untouched - on EAGAIN.
 * Bounded: at most 3 successful reads per readiness event (the 4th call reports EAGAIN), no second EINTR in a row. */
#include "prelude.h"

#ifndef RD_MAXCALLS
#define RD_MAXCALLS 3
#endif
int g_errno;
int *errno_stub(void) { return &g_errno; }
int g_calls, g_eintr_last; int64_t g_delivered; ssize_t g_last_ret; int g_last_errno;
int g_sched_calls, g_cancel_calls, g_end_calls, g_seq, g_end_seq, g_wake_seq; int g_sched_nil, g_sched_buffer, g_sched_abstract; JanetFiber *g_wake_fiber, *g_end_fiber;
static uint8_t rd_block1[1], rd_block2[1];
static JanetBuffer rd_buffer; static StateRead rd_state; static JanetStream rd_stream; static JanetFiber rd_fiber;
int g_exp_kind;

/* contract of janet_buffer_extra (units seq.buffer.extra): room for n more bytes after count, contents kept (not modelled) */
void buffer_extra_stub(JanetBuffer *b, int32_t n) {
  __CPROVER_assert(b == &rd_buffer && n >= 0, "C16 read: room is requested in the destination buffer for a non-negative count");
  if ((int64_t) b->count + n > INT32_MAX) __CPROVER_assume(0);      /* raises "buffer overflow" */
  if (b->count + n > b->capacity) {
    b->data = rd_block2; b->capacity = b->count + n;      /* the block may move */
  }
}
static ssize_t kernel_delivers(int kind, int fd, void *buf, size_t n, int flags) {
  int32_t limit = rd_state.is_chunk ? (rd_state.bytes_left > 4096 ? 4096 : rd_state.bytes_left) : rd_state.bytes_left;
  __CPROVER_assert(kind == g_exp_kind, "C16 read: the system call is the one of the read mode (read/recv/recvfrom)");
  __CPROVER_assert(fd == rd_stream.handle && (kind == 0 || flags == rd_state.flags), "C16 read: the stream's own descriptor and the caller's flags are used");
  __CPROVER_assert(buf == (void *)(rd_buffer.data + rd_buffer.count), "C16 read: new bytes are placed directly after the bytes already received (in order, none overwritten)");
  __CPROVER_assert(n == (size_t) limit, "C16 read: at most the outstanding count is requested (4096 per call in chunk mode)");
  /* the block itself is not modelled (the callback never dereferences it): "inside the block" is the arithmetic fact */
  __CPROVER_assert((int64_t) rd_buffer.count + (int64_t) n <= (int64_t) rd_buffer.capacity, "C16 read: the range handed to the kernel lies inside the buffer's block");
  g_calls++;
  ssize_t r = (ssize_t) nd_i64();
  __CPROVER_assume(r == -1 || (r >= 0 && (size_t) r <= n));         /* assumed contract of read(2)/recv(2)/recvfrom(2) */
  if (g_calls > RD_MAXCALLS) __CPROVER_assume(r == -1);             /* bound: the call after RD_MAXCALLS reads reports EAGAIN */
  if (r == -1) {
    g_errno = nd_int();
    if (g_calls > RD_MAXCALLS) __CPROVER_assume(g_errno == EAGAIN);
    if (g_eintr_last) __CPROVER_assume(g_errno != EINTR);           /* bound: no two EINTR in a row */
    g_eintr_last = (g_errno == EINTR);
    if (g_eintr_last) g_calls--;                                    /* a retried call does not count */
  } else g_eintr_last = 0;
  if (r > 0) g_delivered += r;
  g_last_ret = r; g_last_errno = g_errno;
  return r;
}
ssize_t read_stub(int fd, void *buf, size_t n) { return kernel_delivers(0, fd, buf, n, 0); }
ssize_t recv_stub(int fd, void *buf, size_t n, int flags) { return kernel_delivers(1, fd, buf, n, flags); }
ssize_t recvfrom_stub(int fd, void *buf, size_t n, int flags, __SOCKADDR_ARG addr_arg, socklen_t *alen) { return kernel_delivers(2, fd, buf, n, flags); }
void schedule_stub(JanetFiber *fiber, Janet value) { g_sched_calls++; g_wake_fiber = fiber; g_sched_nil = janet_checktype(value, JANET_NIL);
  g_sched_buffer = janet_checktype(value, JANET_BUFFER) && janet_unwrap_buffer(value) == &rd_buffer; g_sched_abstract = janet_checktype(value, JANET_ABSTRACT); g_wake_seq = ++g_seq; }
void cancel_stub(JanetFiber *fiber, Janet value) { g_cancel_calls++; g_wake_fiber = fiber; g_wake_seq = ++g_seq; }
void async_end_stub(JanetFiber *fiber) { g_end_calls++; g_end_fiber = fiber; g_end_seq = ++g_seq; }
static uint8_t rd_abst[sizeof(JanetAbstractHead) + 256];
void *abstract_stub(const JanetAbstractType *t, size_t size) { __CPROVER_assert(size <= 256, "C16 read: the sender address fits the address object"); return ((JanetAbstractHead *) rd_abst)->data; }
Janet lasterr_stub(void) { Janet x; x.type = JANET_STRING; x.as.u64 = 0; return x; }

void h_read(void) {
  g_calls = g_eintr_last = 0; g_delivered = 0; g_last_ret = 0;
  g_sched_calls = g_cancel_calls = g_end_calls = g_seq = g_end_seq = g_wake_seq = 0; g_sched_nil = g_sched_buffer = g_sched_abstract = 0; g_wake_fiber = g_end_fiber = 0;
  rd_stream.handle = nd_int(); rd_stream.flags = nd_u32(); rd_stream.read_fiber = &rd_fiber; rd_stream.write_fiber = 0;
  rd_fiber.ev_stream = &rd_stream; rd_fiber.ev_state = &rd_state; rd_fiber.ev_callback = ev_callback_read;
  /* destination buffer: any count/capacity (representation invariant of JanetBuffer) */
  int32_t cap = nd_i32(), cnt = nd_i32();
  __CPROVER_assume(cap >= 0 && cnt >= 0 && cnt <= cap);
  rd_buffer.data = rd_block1;
  rd_buffer.count = cnt; rd_buffer.capacity = cap;
  rd_state.buf = &rd_buffer;
  rd_state.is_chunk = nd_int() & 1;
  int mode = nd_int();
  __CPROVER_assume(mode == JANET_ASYNC_READMODE_READ || mode == JANET_ASYNC_READMODE_RECV || mode == JANET_ASYNC_READMODE_RECVFROM);
  rd_state.mode = (JanetReadMode) mode;
  g_exp_kind = mode == JANET_ASYNC_READMODE_READ ? 0 : mode == JANET_ASYNC_READMODE_RECV ? 1 : 2;
  rd_state.flags = nd_int();
  /* state of the operation: n bytes requested, bytes_read delivered so far, bytes_left outstanding */
  rd_state.bytes_left = nd_i32(); rd_state.bytes_read = nd_i32();
  __CPROVER_assume(rd_state.bytes_left >= 0 && rd_state.bytes_read >= 0 && (int64_t) rd_state.bytes_left + rd_state.bytes_read <= INT32_MAX);
  /* a pending operation still wants bytes (completion detaches the fiber) except the degenerate request for 0 bytes */
  __CPROVER_assume(rd_state.bytes_left > 0 || rd_state.bytes_read == 0);
  int32_t left0 = rd_state.bytes_left, read0 = rd_state.bytes_read;
  JanetAsyncEvent event = (JanetAsyncEvent) nd_int();
  __CPROVER_assume(event == JANET_ASYNC_EVENT_INIT || event == JANET_ASYNC_EVENT_READ || event == JANET_ASYNC_EVENT_HUP);
  g_errno = nd_int();

  ev_callback_read(&rd_fiber, event);

  int woken = g_sched_calls + g_cancel_calls;
  __CPROVER_assert(woken <= 1 && g_end_calls == woken, "C16 read: the fiber is resumed or cancelled at most once, and detached exactly then");
  __CPROVER_assert(woken == 0 || (g_wake_fiber == &rd_fiber && g_end_fiber == &rd_fiber && g_wake_seq < g_end_seq), "C16 read: it is this fiber that is woken, before it is detached");
  __CPROVER_assert(g_calls >= 1, "C16 read: a readiness event tries to read");
  int failed = (g_last_ret == -1) && !(g_last_errno == EPIPE && mode != JANET_ASYNC_READMODE_RECVFROM);
  int hard_error = failed && !(g_last_errno == EAGAIN || g_last_errno == EWOULDBLOCK);
  int nil_eos = (read0 + g_delivered == 0) && mode != JANET_ASYNC_READMODE_RECVFROM && !failed;
  if (!nil_eos) {
    __CPROVER_assert((int64_t) rd_buffer.count == (int64_t) cnt + g_delivered, "C16 read: the buffer grew by exactly the bytes the kernel delivered");
    __CPROVER_assert((int64_t) rd_state.bytes_read == (int64_t) read0 + g_delivered && (int64_t) rd_state.bytes_left == (int64_t) left0 - g_delivered,
                     "C16 read: delivered and outstanding counts move by exactly the bytes delivered");
  }
  __CPROVER_assert(rd_buffer.count <= rd_buffer.capacity, "C16 read: the buffer's representation invariant holds");
  if (hard_error) {
    __CPROVER_assert(g_last_errno != EINTR, "C16 read: EINTR is retried, never reported");
    __CPROVER_assert(g_cancel_calls == 1, "C16 read: a read error raises in the reading fiber");
    REACH("read: error");
  } else if (failed) {
    __CPROVER_assert(woken == 0, "C16 read: EAGAIN leaves the operation pending: nothing scheduled, fiber stays registered");
    if (g_delivered > 0) {
      __CPROVER_assert(rd_state.is_chunk && rd_state.bytes_left > 0, "C16 read: only a chunked read that still lacks bytes keeps waiting after receiving data");
      REACH("read: chunk continues in a later event");
    }
    REACH("read: EAGAIN");
  } else if (nil_eos) {
    __CPROVER_assert(g_sched_calls == 1 && g_sched_nil, "C16 read: end of stream before any byte resumes the reader with nil");
    REACH("read: nil at end of stream");
  } else {
    /* the last call returned r >= 0 (or EPIPE = end of stream) and the operation did not keep waiting: it must be satisfied */
    int eos = g_last_ret <= 0;
    __CPROVER_assert(g_sched_calls == 1, "C16 read: a satisfied or ended read resumes the reader");
    __CPROVER_assert(mode == JANET_ASYNC_READMODE_RECVFROM ? g_sched_abstract : g_sched_buffer, "C16 read: the reader gets its buffer (the sender address for recv-from)");
    __CPROVER_assert(!rd_state.is_chunk || rd_state.bytes_left == 0 || eos, "C16 read: a chunked read returns exactly the requested count unless the stream ends");
#if RD_MAXCALLS > 1
    if (rd_state.is_chunk && rd_state.bytes_left == 0 && g_calls > 1) REACH("read: chunk completed over several reads");
#endif
    if (eos) REACH("read: ended by end of stream after data");
    REACH("read: completes");
  }
}
