/* C02 (component level): the compiler's register allocator (regalloc.c) as a data structure against its abstract
 * view, the SET OF ALLOCATED REGISTERS.  Contracts on the real functions.
 *
 * Abstract view:  reg r is allocated  <=>  r>>5 < count  &&  bit (r&31) of chunks[r>>5] is set.
 * Universally quantified statements are made for ONE ghost register g_r that is left unconstrained (DESIGN R2);
 * g_bit0 is the ghost pre-state of that register's membership, fixed by a `requires`.
 *
 * wf_ra (representation invariant, derived from regalloc.c and its callers compile.c/emit.c/specials.c/bytecode.c):
 *   0 <= count <= capacity, count <= RA_MAXCNT, capacity <= 2*RA_MAXCNT; capacity == 0 => chunks == NULL, else chunks is a heap block of capacity words;
 *   registers 0xF0..0xFF (the 16 reserved temporaries, high half of chunk 7) are always members once chunk 7 exists
 *   (pushchunk creates chunk 7 as 0xFFFF0000; freetemp never frees reg >= 0xF0; janetc_regalloc_1 never returns them);
 *   regtemps is a set of the 8 JanetcRegisterTemp tags.
 * RA_MAXCNT: janetc_allocfar reports "ran out of internal registers" past 0xFFFF (2048 chunks); 2^20 chunks is far
 *   beyond that and keeps (chunk << 5) + bit and capacity * 4 inside int32/size_t.
 */
#include "prelude.h"

#ifndef RA_MAXCNT
#define RA_MAXCNT (1 << 20)
#endif
/* functions that may append a chunk require count < RA_MAXCNT (wf_ra is not inductive at the artificial limit) */
#define REQUIRES_ROOM(ra) __CPROVER_requires((ra)->count < RA_MAXCNT)

int32_t g_r;      /* ghost register, unconstrained (>= 0) */
int g_bit0;       /* ghost: membership of g_r at entry */
int32_t g_max0;   /* ghost: ra->max at entry */
int32_t g_cnt0;   /* ghost: ra->count at entry */
int32_t g_tmp0;   /* ghost: ra->regtemps at entry */

#define RA_WORD(r) ((r) >> 5)
#define RA_MASK(r) ((uint32_t)1 << ((r) & 31))
#define RA_IS_TEMP(r) ((r) >= 0xF0 && (r) <= 0xFF)
#define RA_BITSET(ra, r) (RA_WORD(r) < (ra)->count && ((ra)->chunks[RA_WORD(r)] & RA_MASK(r)) != 0)
/* the reserved temporaries are members of the abstract set from the start ("always allocated"), also while chunk 7
 * does not exist yet; WF_RA_RESERVED says the representation agrees with that as soon as chunk 7 exists */
#define RA_MEMBER(ra, r) (RA_IS_TEMP(r) || RA_BITSET(ra, r))

/* scalar part of wf_ra (valid in pre and post state) */
#define WF_RA_SCALAR(ra) ((ra)->count >= 0 && (ra)->count <= (ra)->capacity && (ra)->count <= RA_MAXCNT && (ra)->capacity <= 2 * RA_MAXCNT && \
    ((ra)->regtemps & ~0xFF) == 0)
#define WF_RA_RESERVED(ra) ((ra)->count > 7 ==> ((ra)->chunks[7] & 0xFFFF0000u) == 0xFFFF0000u)

/* A requires of the form `capacity > 0 ==> is_fresh(chunks, ..)` (chunks NULL otherwise) makes CBMC's propositional
 * reduction run for minutes (probed), so the two shapes of the representation are proved in separate units:
 * default: capacity >= 1, chunks a heap block;  -DRA_EMPTY: the state janetc_regalloc_init leaves (capacity 0, NULL). */
#ifdef RA_EMPTY
#define REQUIRES_WF_CHUNKS(ra) \
  __CPROVER_requires((ra)->capacity == 0 && (ra)->chunks == (uint32_t *)0)
#else
#define REQUIRES_WF_CHUNKS(ra) \
  __CPROVER_requires((ra)->capacity >= 1) \
  __CPROVER_requires(__CPROVER_is_fresh((ra)->chunks, sizeof(uint32_t) * (size_t)(ra)->capacity))
#endif
#define REQUIRES_WF_RA(ra) \
  __CPROVER_requires(__CPROVER_is_fresh(ra, sizeof(*(ra)))) \
  __CPROVER_requires(WF_RA_SCALAR(ra)) \
  REQUIRES_WF_CHUNKS(ra) \
  __CPROVER_requires(WF_RA_RESERVED(ra))

#define REQUIRES_GHOSTS(ra) \
  __CPROVER_requires(g_r >= 0) \
  __CPROVER_requires(g_bit0 == RA_MEMBER(ra, g_r)) \
  __CPROVER_requires(g_max0 == (ra)->max && g_cnt0 == (ra)->count && g_tmp0 == (ra)->regtemps)

#define ENSURES_WF_RA(ra) \
  __CPROVER_ensures(WF_RA_SCALAR(ra)) \
  __CPROVER_ensures((ra)->capacity == 0 ==> (ra)->chunks == (uint32_t *)0) \
  __CPROVER_ensures((ra)->capacity > 0 ==> __CPROVER_rw_ok((ra)->chunks, sizeof(uint32_t) * (size_t)(ra)->capacity)) \
  __CPROVER_ensures(WF_RA_RESERVED(ra))

/* ---- model of realloc (replace_calls realloc:vc_realloc) --------------------------------------------------------
 * CBMC's built-in realloc copies a symbolic number of bytes (minutes, DESIGN R10). This model allocates a new block
 * whose content is NONDETERMINISTIC except for the word of the ghost register, which is carried over; the old block is
 * freed. It over-approximates ISO realloc (which preserves every word up to the smaller size), so what is proved with
 * it holds with the real one. Never returns NULL (out of memory = JANET_OUT_OF_MEMORY = exit, prelude panic model). */
void *vc_realloc(void *p, size_t n) {
  uint32_t *q = malloc(n);
  __CPROVER_assume(q != (uint32_t *)0);
  size_t w = (size_t)RA_WORD(g_r);
  if (p != (void *)0 && (w + 1) * sizeof(uint32_t) <= n && (w + 1) * sizeof(uint32_t) <= __CPROVER_OBJECT_SIZE(p))
    q[w] = ((uint32_t *)p)[w];
  /* the reserved-temp word (chunk 7) is carried over as well: wf_ra speaks about it */
  if (p != (void *)0 && 8 * sizeof(uint32_t) <= n && 8 * sizeof(uint32_t) <= __CPROVER_OBJECT_SIZE(p))
    q[7] = ((uint32_t *)p)[7];
  free(p);
  return q;
}

/* ---- janetc_regalloc_1 -------------------------------------------------------------------------------------------
 * returns a register whose bit was clear, sets exactly that bit, never one of the reserved temporaries 0xF0..0xFF,
 * first fit (every lower register was allocated), max' = max(max, reg); nothing else changes. */
int32_t janetc_regalloc_1_c(JanetcRegisterAllocator *ra)
REQUIRES_WF_RA(ra)
REQUIRES_GHOSTS(ra)
REQUIRES_ROOM(ra)
__CPROVER_assigns(ra->chunks, ra->count, ra->capacity, ra->max)
__CPROVER_assigns(ra->capacity > 0: __CPROVER_object_whole(ra->chunks))
__CPROVER_frees(ra->chunks)
ENSURES_WF_RA(ra)
__CPROVER_ensures(__CPROVER_return_value >= 0)
__CPROVER_ensures(RA_WORD(__CPROVER_return_value) < ra->count)
__CPROVER_ensures(g_r == __CPROVER_return_value ==> g_bit0 == 0)                      /* its bit was clear */
__CPROVER_ensures(g_r == __CPROVER_return_value ==> RA_MEMBER(ra, g_r))               /* now set */
__CPROVER_ensures(g_r != __CPROVER_return_value ==> RA_MEMBER(ra, g_r) == g_bit0)     /* exactly that bit */
__CPROVER_ensures(!RA_IS_TEMP(__CPROVER_return_value))                                /* never a reserved temp */
__CPROVER_ensures(g_r < __CPROVER_return_value ==> g_bit0 != 0)                       /* first fit */
__CPROVER_ensures(ra->max == (g_max0 > __CPROVER_return_value ? g_max0 : __CPROVER_return_value))
__CPROVER_ensures(ra->regtemps == g_tmp0)
__CPROVER_ensures(ra->count == g_cnt0 || (ra->count == g_cnt0 + 1 && __CPROVER_return_value == (g_cnt0 << 5)))
;

void h_regalloc_1(void) {
  JanetcRegisterAllocator *ra;
  int32_t r = janetc_regalloc_1(ra);
  REACH("normal return of janetc_regalloc_1");
}

/* ---- pushchunk (static) ------------------------------------------------------------------------------------------
 * appends one chunk; the abstract set does not change (chunk 7 is born with the 16 reserved temporaries allocated,
 * which the abstract view contains from the start); earlier words are carried over a reallocation. */
static void pushchunk_c(JanetcRegisterAllocator *ra)
REQUIRES_WF_RA(ra)
REQUIRES_GHOSTS(ra)
REQUIRES_ROOM(ra)
__CPROVER_assigns(ra->chunks, ra->count, ra->capacity)
__CPROVER_assigns(ra->capacity > 0: __CPROVER_object_whole(ra->chunks))
__CPROVER_frees(ra->chunks)
ENSURES_WF_RA(ra)
__CPROVER_ensures(ra->count == g_cnt0 + 1)
__CPROVER_ensures(ra->chunks[g_cnt0] == (g_cnt0 == 7 ? 0xFFFF0000u : 0u))
__CPROVER_ensures(RA_MEMBER(ra, g_r) == g_bit0)
__CPROVER_ensures(ra->max == g_max0 && ra->regtemps == g_tmp0)
;

void h_pushchunk(void) {
  JanetcRegisterAllocator *ra;
  pushchunk(ra);
  REACH("normal return of pushchunk");
}

/* ---- janetc_regalloc_free ----------------------------------------------------------------------------------------
 * clears exactly its argument. Precondition from the callers (janetc_freeslot frees slots handed out by
 * janetc_regalloc_1 of this allocator or a clone of it; freetemp guards reg < 0xF0): the register's chunk exists and it
 * is not a reserved temporary. */
void janetc_regalloc_free_c(JanetcRegisterAllocator *ra, int32_t reg)
REQUIRES_WF_RA(ra)
REQUIRES_GHOSTS(ra)
__CPROVER_requires(reg >= 0 && RA_WORD(reg) < ra->count && !RA_IS_TEMP(reg))
__CPROVER_assigns(ra->chunks[RA_WORD(reg)])
ENSURES_WF_RA(ra)
__CPROVER_ensures(g_r == reg ==> !RA_MEMBER(ra, g_r))
__CPROVER_ensures(g_r != reg ==> RA_MEMBER(ra, g_r) == g_bit0)
__CPROVER_ensures(ra->max == g_max0 && ra->regtemps == g_tmp0 && ra->count == g_cnt0)
;

void h_free(void) {
  JanetcRegisterAllocator *ra; int32_t reg;
  janetc_regalloc_free(ra, reg);
  REACH("normal return of janetc_regalloc_free");
}

/* ---- janetc_regalloc_temp ----------------------------------------------------------------------------------------
 * returns a register that fits in 8 bits: either a free near register (first fit, exactly its bit set) or, when
 * registers 0..0xEF are all taken, the reserved temporary 0xF0+nth that janetc_regalloc_1 never hands out. Refuses
 * (does not return) when the tag is already in use. No near register other than the result changes state and no
 * register is freed. */
int32_t g_nth;
int32_t janetc_regalloc_temp_c(JanetcRegisterAllocator *ra, JanetcRegisterTemp nth)
REQUIRES_WF_RA(ra)
REQUIRES_GHOSTS(ra)
REQUIRES_ROOM(ra)
__CPROVER_requires((int32_t)nth >= 0 && (int32_t)nth <= 7 && g_nth == (int32_t)nth)
__CPROVER_assigns(ra->chunks, ra->count, ra->capacity, ra->max, ra->regtemps)
__CPROVER_assigns(ra->capacity > 0: __CPROVER_object_whole(ra->chunks))
__CPROVER_frees(ra->chunks)
ENSURES_WF_RA(ra)
__CPROVER_ensures((g_tmp0 & (1 << g_nth)) == 0)                                        /* else: does not return */
__CPROVER_ensures(ra->regtemps == (g_tmp0 | (1 << g_nth)))
__CPROVER_ensures(__CPROVER_return_value >= 0 && __CPROVER_return_value <= 0xFF)
__CPROVER_ensures(RA_IS_TEMP(__CPROVER_return_value) ==> __CPROVER_return_value == 0xF0 + g_nth)
__CPROVER_ensures(RA_IS_TEMP(__CPROVER_return_value) ==> ((g_r < 0xF0) ==> g_bit0 != 0))  /* only when 0..0xEF are full */
__CPROVER_ensures(!RA_IS_TEMP(__CPROVER_return_value) ==> (g_r == __CPROVER_return_value ==> (g_bit0 == 0 && RA_MEMBER(ra, g_r))))
__CPROVER_ensures(!RA_IS_TEMP(__CPROVER_return_value) ==> (g_r < __CPROVER_return_value ==> g_bit0 != 0))
__CPROVER_ensures((g_r <= 0xFF && g_r != __CPROVER_return_value) ==> RA_MEMBER(ra, g_r) == g_bit0)
__CPROVER_ensures(g_bit0 != 0 ==> RA_MEMBER(ra, g_r))
__CPROVER_ensures(ra->max == (g_max0 > __CPROVER_return_value ? g_max0 : __CPROVER_return_value))
;

void h_temp(void) {
  JanetcRegisterAllocator *ra; JanetcRegisterTemp nth;
  janetc_regalloc_temp(ra, nth);
  REACH("normal return of janetc_regalloc_temp");
}

/* ---- janetc_regalloc_freetemp ------------------------------------------------------------------------------------
 * releases the tag; frees the register iff it is a real near register (no-op on the reserved temporaries). */
void janetc_regalloc_freetemp_c(JanetcRegisterAllocator *ra, int32_t reg, JanetcRegisterTemp nth)
REQUIRES_WF_RA(ra)
REQUIRES_GHOSTS(ra)
__CPROVER_requires((int32_t)nth >= 0 && (int32_t)nth <= 7 && g_nth == (int32_t)nth)
__CPROVER_requires(reg >= 0 && reg <= 0xFF && (reg < 0xF0 ==> RA_WORD(reg) < ra->count))   /* reg came from _temp */
__CPROVER_assigns(ra->regtemps)
__CPROVER_assigns(reg < 0xF0: ra->chunks[RA_WORD(reg)])
ENSURES_WF_RA(ra)
__CPROVER_ensures(ra->regtemps == (g_tmp0 & ~(1 << g_nth)))
__CPROVER_ensures((g_r == reg && !RA_IS_TEMP(reg)) ==> !RA_MEMBER(ra, g_r))
__CPROVER_ensures((g_r != reg || RA_IS_TEMP(reg)) ==> RA_MEMBER(ra, g_r) == g_bit0)
__CPROVER_ensures(ra->max == g_max0 && ra->count == g_cnt0)
;

void h_freetemp(void) {
  JanetcRegisterAllocator *ra; int32_t reg; JanetcRegisterTemp nth;
  janetc_regalloc_freetemp(ra, reg, nth);
  REACH("normal return of janetc_regalloc_freetemp");
}

/* ---- janetc_regalloc_touch / _check: bounded growth (RA_GROW chunks) -----------------------------------------------
 * `while (chunk >= ra->count) pushchunk(ra)` re-assigns the pointer ra->chunks in the loop; a loop invariant cannot
 * keep that pointer dereferenceable (DESIGN R14), so the loop is unwound: the register lies at most RA_GROW chunks
 * beyond the current end. */
#ifndef RA_GROW
#define RA_GROW 2
#endif
void janetc_regalloc_touch_c(JanetcRegisterAllocator *ra, int32_t reg)
REQUIRES_WF_RA(ra)
REQUIRES_GHOSTS(ra)
__CPROVER_requires(ra->count + RA_GROW <= RA_MAXCNT)
__CPROVER_requires(reg >= 0 && RA_WORD(reg) < ra->count + RA_GROW)
__CPROVER_assigns(ra->chunks, ra->count, ra->capacity)
__CPROVER_assigns(ra->capacity > 0: __CPROVER_object_whole(ra->chunks))
__CPROVER_frees(ra->chunks)
ENSURES_WF_RA(ra)
__CPROVER_ensures(g_r == reg ==> RA_MEMBER(ra, g_r))
__CPROVER_ensures(g_r != reg ==> RA_MEMBER(ra, g_r) == g_bit0)
__CPROVER_ensures(ra->count == (g_cnt0 > RA_WORD(reg) ? g_cnt0 : RA_WORD(reg) + 1))
__CPROVER_ensures(ra->max == g_max0 && ra->regtemps == g_tmp0)
;

void h_touch(void) {
  JanetcRegisterAllocator *ra; int32_t reg;
  janetc_regalloc_touch(ra, reg);
  REACH("normal return of janetc_regalloc_touch");
}

int janetc_regalloc_check_c(JanetcRegisterAllocator *ra, int32_t reg)
REQUIRES_WF_RA(ra)
REQUIRES_GHOSTS(ra)
__CPROVER_requires(ra->count + RA_GROW <= RA_MAXCNT)
__CPROVER_requires(reg >= 0 && RA_WORD(reg) < ra->count + RA_GROW)
__CPROVER_assigns(ra->chunks, ra->count, ra->capacity)
__CPROVER_assigns(ra->capacity > 0: __CPROVER_object_whole(ra->chunks))
__CPROVER_frees(ra->chunks)
ENSURES_WF_RA(ra)
__CPROVER_ensures(g_r == reg ==> __CPROVER_return_value == (g_bit0 != 0))
__CPROVER_ensures(__CPROVER_return_value == 0 || __CPROVER_return_value == 1)
__CPROVER_ensures(RA_MEMBER(ra, g_r) == g_bit0)                                        /* a query: the set is unchanged */
__CPROVER_ensures(ra->max == g_max0 && ra->regtemps == g_tmp0)
;

void h_check(void) {
  JanetcRegisterAllocator *ra; int32_t reg;
  janetc_regalloc_check(ra, reg);
  REACH("normal return of janetc_regalloc_check");
}

/* ---- janetc_regalloc_clone ---------------------------------------------------------------------------------------
 * the copy has an equal abstract set (and count/capacity/max), no temp tags in use, its own storage; src unchanged. */
void *memcpy_c(void *d, const void *s, size_t n)
__CPROVER_requires(__CPROVER_w_ok(d, n) && __CPROVER_r_ok(s, n))
__CPROVER_assigns(__CPROVER_object_upto(d, n))
__CPROVER_ensures(((size_t)RA_WORD(g_r) + 1) * sizeof(uint32_t) <= n ==> ((uint32_t *)d)[RA_WORD(g_r)] == ((const uint32_t *)s)[RA_WORD(g_r)])
__CPROVER_ensures(8 * sizeof(uint32_t) <= n ==> ((uint32_t *)d)[7] == ((const uint32_t *)s)[7])
;

void janetc_regalloc_clone_c(JanetcRegisterAllocator *dest, JanetcRegisterAllocator *src)
REQUIRES_WF_RA(src)
REQUIRES_GHOSTS(src)
__CPROVER_requires(__CPROVER_is_fresh(dest, sizeof(*dest)))
__CPROVER_assigns(*dest)
ENSURES_WF_RA(dest)
ENSURES_WF_RA(src)
__CPROVER_ensures(dest->count == src->count && dest->capacity == src->capacity && dest->max == src->max)
__CPROVER_ensures(dest->regtemps == 0)
__CPROVER_ensures(RA_MEMBER(dest, g_r) == g_bit0)
__CPROVER_ensures(RA_MEMBER(src, g_r) == g_bit0)
__CPROVER_ensures(src->max == g_max0 && src->regtemps == g_tmp0 && src->count == g_cnt0)
__CPROVER_ensures(dest->capacity > 0 ==> !__CPROVER_same_object(dest->chunks, src->chunks))
;

void h_clone(void) {
  JanetcRegisterAllocator *d, *s;
  janetc_regalloc_clone(d, s);
  REACH("normal return of janetc_regalloc_clone");
}

/* ---- janetc_regalloc_init ----------------------------------------------------------------------------------------
 * leaves a well-formed allocator whose set holds only the reserved temporaries, max 0, no tag in use. */
void janetc_regalloc_init_c(JanetcRegisterAllocator *ra)
__CPROVER_requires(__CPROVER_is_fresh(ra, sizeof(*ra)))
__CPROVER_requires(g_r >= 0)
__CPROVER_assigns(*ra)
ENSURES_WF_RA(ra)
__CPROVER_ensures(ra->count == 0 && ra->capacity == 0 && ra->max == 0 && ra->regtemps == 0)
__CPROVER_ensures(RA_MEMBER(ra, g_r) == RA_IS_TEMP(g_r))
;

void h_init(void) {
  JanetcRegisterAllocator *ra;
  janetc_regalloc_init(ra);
  REACH("normal return of janetc_regalloc_init");
}
