/* C01: janet_mark_funcenv - an unmarked closure environment is marked; if (after janet_env_maybe_detach) it still lives on a fiber
 * stack (offset > 0) the edge to that fiber is followed through janet_mark(fiber value) - so that the recursion depth is
 * counted (C19) -; if it is detached its values (as.values, length) are handed to janet_mark_many.
 * Compiled in the JANET_NO_NANBOX configuration (pointer <-> Janet packing is opaque to CBMC otherwise). */
#include "gc_mark.h"

/* janet_env_maybe_detach (fiber.c) may validate/detach the environment: ASSUMED over-approximating contract - it may install ANY
 * (offset, length, as) triple - the ghost-chosen one - and touches nothing else of the environment (in particular not its header). */
int32_t g_d_offset, g_d_length; void *g_d_ptr;
void janet_env_maybe_detach_c(JanetFuncEnv *env)
__CPROVER_assigns(env->offset, env->length, env->as, janet_vm.next_collection)
__CPROVER_ensures(env->offset == g_d_offset && env->length == g_d_length && env->as.values == (Janet *) g_d_ptr)
;

#define OLD_UNMARKED(o) (!(__CPROVER_old((o)->gc.flags) & JANET_MEM_REACHABLE))
static void janet_mark_funcenv_spec(JanetFuncEnv *env)
__CPROVER_requires(__CPROVER_is_fresh(env, sizeof(JanetFuncEnv)))
/* ghost expectations, in terms of the state the environment has after validation/detaching */
__CPROVER_requires(g_val.type == JANET_FIBER && g_val.as.u64 == (uint64_t) 0 + (uint64_t) g_d_ptr)
__CPROVER_requires(g_w_kind == W_MANY && g_w_base == (const void *) g_d_ptr && g_w_n == g_d_length)
__CPROVER_requires(!g_w_seen && g_w_calls == 0 && !g_val_seen && g_val_calls == 0)
__CPROVER_assigns(env->gc.flags, env->offset, env->length, env->as, janet_vm.next_collection, g_w_seen, g_w_calls, g_val_seen, g_val_calls)
__CPROVER_ensures(env->gc.flags == (__CPROVER_old(env->gc.flags) | JANET_MEM_REACHABLE))
/* C01: on-stack environment -> the fiber whose stack holds the slots is marked (via janet_mark: depth counted) */
__CPROVER_ensures((OLD_UNMARKED(env) && env->offset > 0) ==> (g_val_seen && g_val_calls == 1 && g_w_calls == 0))
/* C01: detached environment -> all its values */
__CPROVER_ensures((OLD_UNMARKED(env) && env->offset <= 0) ==> (g_w_seen && g_w_calls == 1 && g_val_calls == 0))
/* visited environments are not traversed again (and not detached) */
__CPROVER_ensures(!OLD_UNMARKED(env) ==> (g_w_calls == 0 && g_val_calls == 0 && env->offset == __CPROVER_old(env->offset) && env->length == __CPROVER_old(env->length)))
;

void h_mark_funcenv(void) {
  JanetFuncEnv *e;
  janet_mark_funcenv(e);
  REACH("janet_mark_funcenv returns");
}
