/* C06 "channels conserve values and order": the growth path of the ring buffer (janet_q_maybe_resize via janet_q_push /
 * janet_q_push_head, ev.c). When the ring is full (it keeps one slot free) it is reallocated and, if the contents were
 * wrapped, the upper segment is moved to the end of the new block. Contract: the FIFO view is preserved - the k-th item
 * counted from the head is the same item before and after, for every k - and the pushed item becomes the last (push) resp.
 * the first (push_head) item; count grows by one; indices stay inside the new capacity.
 * Bounded: capacities 0, 2, 3, 4 (constant per case so that realloc has a constant size), every head position. */
#include "prelude.h"
#include <stdlib.h>
typedef struct { uint64_t a, b; } qitem;                 /* 16-byte items, like a non-nanboxed Janet */
static JanetQueue qr_q;
/* models of the libc calls, specialised to whole 16-byte items and small blocks (symbolic-size copies are what makes CBMC
 * run out of memory): realloc hands out a fresh 16-item block holding the old items; memmove/memcpy move whole items */
static int32_t qr_oldcap;
void *qr_realloc_stub(void *p, size_t n) {
  __CPROVER_assert(n % sizeof(qitem) == 0 && n / sizeof(qitem) <= 16 && n / sizeof(qitem) > (size_t) qr_oldcap, "q.resize: the block grows by whole items");
  qitem *nb = malloc(16 * sizeof(qitem)); __CPROVER_assume(nb != 0);
  for (int i = 0; i < 4; i++) if (i < qr_oldcap) nb[i] = ((qitem *) p)[i];
  return nb;
}
void *qr_memmove_stub(void *d, const void *s, size_t n) {
  __CPROVER_assert(n % sizeof(qitem) == 0 && n / sizeof(qitem) <= 4, "q.resize: whole items are moved");
  qitem tmp[4]; size_t k = n / sizeof(qitem);
  for (int i = 0; i < 4; i++) if ((size_t) i < k) tmp[i] = ((const qitem *) s)[i];
  for (int i = 0; i < 4; i++) if ((size_t) i < k) ((qitem *) d)[i] = tmp[i];
  return d;
}
void *qr_memcpy_stub(void *d, const void *s, size_t n) { __CPROVER_assert(n == sizeof(qitem), "q.resize: one item is stored"); *(qitem *) d = *(const qitem *) s; return d; }
static qitem qr_get(JanetQueue *q, int32_t k) { int32_t idx = q->head + k; if (idx >= q->capacity) idx -= q->capacity; return ((qitem *) q->data)[idx]; }
static int32_t qr_count(JanetQueue *q) { return q->head <= q->tail ? q->tail - q->head : q->capacity - q->head + q->tail; }
static void qr_case(int32_t cap, int at_head) {
  qr_oldcap = cap; qr_q.capacity = cap; qr_q.data = cap ? malloc((size_t) cap * sizeof(qitem)) : (void *)0;
  __CPROVER_assume(cap == 0 || qr_q.data != (void *)0);
  qr_q.head = nd_i32(); __CPROVER_assume(cap == 0 ? qr_q.head == 0 : (qr_q.head >= 0 && qr_q.head < cap));
  /* full ring: count == capacity - 1 (one slot is kept free); the empty ring of capacity 0 */
  qr_q.tail = cap == 0 ? 0 : (qr_q.head + cap - 1) % cap;
  int32_t count0 = qr_count(&qr_q);
  for (int i = 0; i < 4; i++) if (i < cap) { ((qitem *) qr_q.data)[i].a = nd_u64(); ((qitem *) qr_q.data)[i].b = nd_u64(); }
  int32_t k = nd_i32(); __CPROVER_assume(k >= 0 && k < count0);
  qitem before; if (count0 > 0) before = qr_get(&qr_q, k);
  qitem item; item.a = nd_u64(); item.b = nd_u64();
  int r = at_head ? janet_q_push_head(&qr_q, &item, sizeof(qitem)) : janet_q_push(&qr_q, &item, sizeof(qitem));
  __CPROVER_assert(r == 0, "q.resize: a full ring below the maximum capacity grows instead of refusing");
  __CPROVER_assert(qr_q.capacity > cap && qr_q.head >= 0 && qr_q.head < qr_q.capacity && qr_q.tail >= 0 && qr_q.tail < qr_q.capacity, "q.resize: the ring grew and its indices lie inside the new capacity");
  __CPROVER_assert(qr_count(&qr_q) == count0 + 1, "q.resize: exactly one item more");
  if (count0 > 0) {
    qitem after = qr_get(&qr_q, at_head ? k + 1 : k);
    __CPROVER_assert(after.a == before.a && after.b == before.b, "q.resize: every queued item keeps its position in FIFO order across the reallocation (wrapped contents included)");
  }
  qitem mine = qr_get(&qr_q, at_head ? 0 : count0);
  __CPROVER_assert(mine.a == item.a && mine.b == item.b, "q.resize: the pushed item is the last (push) resp. first (push_head) item");
  if (cap > 0 && qr_q.head != 0) REACH("q.resize: wrapped contents moved");
  REACH("q.resize returns");
}
void h_q_push_resize(void) { int c = nd_int(); if (c == 0) qr_case(0, 0); else if (c == 1) qr_case(2, 0); else if (c == 2) qr_case(3, 0); else qr_case(4, 0); }
void h_q_push_head_resize(void) { int c = nd_int(); if (c == 0) qr_case(0, 1); else if (c == 1) qr_case(2, 1); else if (c == 2) qr_case(3, 1); else qr_case(4, 1); }
