/* C04 (map part): memory safety of janet_dict_find (util.c) for EVERY capacity (loop contracts, no unwinding bound).
 *   requires cap >= 1 (every constructor goes through janet_tablen, which returns >= 1 for a non-negative argument; with
 *            cap == 0 janet_maphash would yield the raw hash as start index) and buckets valid for cap buckets
 *   ensures  every bucket access of both probe loops lies inside the array; nothing is written
 * janet_hash / janet_equals return arbitrary values here (generated bodies): the obligations hold for any hash function and
 * any equality, well-formed bucket contents are not needed. What the result is, is the subject of units tab.find.cap*
 * (bounded capacity: the loop-carried result pointer cannot be described in a loop invariant, DESIGN R14). */
#include "prelude.h"

const JanetKV *janet_dict_find_c(const JanetKV *buckets, int32_t cap, Janet key)
__CPROVER_requires(cap >= 1 && cap <= (1 << 26))
__CPROVER_requires(__CPROVER_is_fresh(buckets, (size_t) cap * sizeof(JanetKV)))
__CPROVER_assigns()
;

void h_dict_find_safety(void) {
  const JanetKV *b; int32_t cap; Janet key;
  janet_dict_find(b, cap, key);
  REACH("dict_find returns");
}
