/* C01: janet_sweep with the REAL janet_deinit_block (composition of units gc2.sweep.main and gc2.deinit.*): heap = array A (element
 * storage DA) -> table T (bucket storage DT, prototype P which is NOT on the heap list of this harness).  For every flag word:
 * an unmarked block loses its side allocation exactly once, BEFORE the block itself is freed exactly once (the finaliser reads the
 * block); a marked (or collection-disabled) block and its side allocation are untouched; the prototype is never freed.
 * free is a recording stub that really deallocates. */
#include "prelude.h"
void __CPROVER_deallocate(void *);
#define SR(c, msg) __CPROVER_assert(c, "C01 sweep+deinit: " msg)
enum { I_A, I_DA, I_T, I_DT, I_P, I_PD, NOBJ };
void *g_o[NOBJ]; int g_fr[NOBJ]; int g_foreign2, g_nullfree2;
void sr_free_stub(void *p) {
  if (!p) { g_nullfree2++; return; }
  int hit = 0;
  for (int k = 0; k < NOBJ; k++) if (p == g_o[k]) { hit = 1; g_fr[k]++; }
  if (p == g_o[I_A]) SR(g_fr[I_DA] == 1, "the element storage of a dead array is released before the array block");
  if (p == g_o[I_T]) SR(g_fr[I_DT] == 1, "the bucket storage of a dead table is released before the table block");
  if (hit) __CPROVER_deallocate(p); else g_foreign2++;
}
void h_sweep_real(void) {
  JanetArray *a = malloc(sizeof(JanetArray)); JanetTable *t = malloc(sizeof(JanetTable)), *pr = malloc(sizeof(JanetTable));
  a->data = malloc(2 * sizeof(Janet)); a->count = 2; a->capacity = 2;
  t->data = malloc(2 * sizeof(JanetKV)); t->count = 0; t->capacity = 2; t->deleted = 0; t->proto = pr;
  pr->data = malloc(2 * sizeof(JanetKV)); pr->count = 0; pr->capacity = 2; pr->deleted = 0; pr->proto = (JanetTable *) 0; pr->gc.flags = JANET_MEMORY_TABLE | JANET_MEM_REACHABLE;
  g_o[I_A] = a; g_o[I_DA] = a->data; g_o[I_T] = t; g_o[I_DT] = t->data; g_o[I_P] = pr; g_o[I_PD] = pr->data;
  for (int k = 0; k < NOBJ; k++) g_fr[k] = 0;
  int32_t fa = (nd_i32() & ~JANET_MEM_TYPEBITS) | JANET_MEMORY_ARRAY, ft = (nd_i32() & ~JANET_MEM_TYPEBITS) | JANET_MEMORY_TABLE;
  a->gc.flags = fa; t->gc.flags = ft; a->gc.data.next = &t->gc; t->gc.data.next = (JanetGCObject *) 0;
  janet_vm.blocks = &a->gc; janet_vm.weak_blocks = (JanetGCObject *) 0; janet_vm.block_count = 2;
  janet_vm.threaded_abstracts.data = (JanetKV *) 0; janet_vm.threaded_abstracts.capacity = 0; g_foreign2 = g_nullfree2 = 0;
  janet_sweep();
  int sa = (fa & (JANET_MEM_REACHABLE | JANET_MEM_DISABLED)) != 0, st = (ft & (JANET_MEM_REACHABLE | JANET_MEM_DISABLED)) != 0;
  SR(g_fr[I_A] == (sa ? 0 : 1) && g_fr[I_DA] == (sa ? 0 : 1), "array: block and element storage are freed exactly once iff the array was not marked");
  SR(g_fr[I_T] == (st ? 0 : 1) && g_fr[I_DT] == (st ? 0 : 1), "table: block and bucket storage are freed exactly once iff the table was not marked");
  SR(g_fr[I_P] == 0 && g_fr[I_PD] == 0 && g_foreign2 == 0, "the prototype of a dead table (a collectable object of its own) is not freed with it; nothing else is freed");
  SR(janet_vm.block_count == (size_t) (sa + st), "block_count is the number of survivors");
  SR(janet_vm.blocks == (sa ? &a->gc : st ? &t->gc : (JanetGCObject *) 0), "the list starts at the first survivor");
  if (sa) { SR(a->data == (Janet *) g_o[I_DA] && a->count == 2 && a->gc.flags == (fa & ~JANET_MEM_REACHABLE) && a->gc.data.next == (st ? &t->gc : (JanetGCObject *) 0), "a surviving array is intact and linked to the next survivor"); }
  if (st) { SR(t->data == (JanetKV *) g_o[I_DT] && t->proto == pr && t->gc.flags == (ft & ~JANET_MEM_REACHABLE) && t->gc.data.next == (JanetGCObject *) 0, "a surviving table is intact"); }
  if (!sa && st) REACH("sweep+deinit: array freed, table kept"); if (!sa && !st) REACH("sweep+deinit: both freed"); if (sa && !st) REACH("sweep+deinit: table freed, array kept");
  REACH("janet_sweep returns");
}
