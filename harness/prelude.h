/* Common prelude, included AFTER the real source file(s) of a unit.
 * Panic model (DESIGN 2.3): these never return.  They write no ghost state so that they can be
 * reached from a function under an assigns clause. Define VC_OWN_PANIC to leave them out
 * (units on capi.c, which defines them itself). */
#ifndef VC_PRELUDE_H
#define VC_PRELUDE_H
#ifndef VC_OWN_PANIC
void janet_panic(const char *m) { __CPROVER_assume(0); }
void janet_panicf(const char *m, ...) { __CPROVER_assume(0); }
void janet_panicv(Janet m) { __CPROVER_assume(0); }
void janet_panics(JanetString m) { __CPROVER_assume(0); }
void janet_panic_type(Janet x, int32_t n, int expected) { __CPROVER_assume(0); }
void janet_panic_abstract(Janet x, int32_t n, const JanetAbstractType *at) { __CPROVER_assume(0); }
void janet_signalv(JanetSignal s, Janet m) { __CPROVER_assume(0); }
#endif
#ifndef VC_OWN_EXIT
void exit(int c) { __CPROVER_assume(0); }
void abort(void) { __CPROVER_assume(0); }
#endif
int nd_int(void); unsigned nd_uint(void); int32_t nd_i32(void); uint32_t nd_u32(void);
int64_t nd_i64(void); uint64_t nd_u64(void); double nd_double(void); size_t nd_size(void); uint8_t nd_u8(void);
void *nd_ptr(void);
#define REACH(msg) __CPROVER_assert(0, "REACH: " msg)
#endif
