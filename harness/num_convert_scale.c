/* C13: text -> double, the scaling steps of convert() (strtod.c). With X = mant * base^exponent * 2^exponent2 the loops bring
 * `exponent` to zero while holding X: for a positive exponent the mantissa is multiplied by base exactly `exponent` times - every
 * factor handed to bignat_muladd is an EXACT power of the base below 2^32 (the parameter is 32 bits wide; base^8 does not fit
 * for base >= 16) with addend 0 -; for a negative exponent the mantissa is first shifted left by shamt digits (so that the integer
 * divisions lose nothing that matters), then divided by base exactly |exponent| times, and the shift is compensated in the binary
 * exponent handed to bignat_extract (exactly -31 * shamt). The result is bignat_extract's, negated for a negative number.
 * The bignat operations are recording stubs (their own arithmetic: units num.bignat.*). */
#include "prelude.h"
static int cs_base; static int64_t cs_mul_pow, cs_div_pow; static int cs_shift_calls, cs_shift_n, cs_div_before_shift, cs_extract_calls; static int32_t cs_e2;
static int cs_power_of(uint32_t f) {        /* k with f == base^k exactly (computed without wrap-around), 0 if none */
  uint64_t p = 1;
  for (int k = 1; k <= 8; k++) { p *= (uint64_t) cs_base; if (p > 0xFFFFFFFFull) return 0; if (p == (uint64_t) f) return k; }
  return 0;
}
void cs_muladd_stub(struct BigNat *m, uint32_t f, uint32_t t) {
  int k = cs_power_of(f);
  __CPROVER_assert(k > 0 && t == 0, "convert: the mantissa is multiplied by an exact power of the base that fits 32 bits, nothing added");
  __CPROVER_assert(cs_div_pow == 0 && cs_shift_calls == 0, "convert: a number is scaled up or down, not both");
  cs_mul_pow += k;
}
void cs_div_stub(struct BigNat *m, uint32_t d) {
  int k = cs_power_of(d);
  __CPROVER_assert(k > 0, "convert: the mantissa is divided by an exact power of the base that fits 32 bits");
  if (cs_shift_calls == 0) cs_div_before_shift = 1;
  cs_div_pow += k;
}
void cs_lshift_stub(struct BigNat *m, int n) { cs_shift_calls++; cs_shift_n = n; }
double cs_extract_stub(struct BigNat *m, int32_t e2) { cs_extract_calls++; cs_e2 = e2; return 3.0; }
double cs_floor_stub(double x) { return 0.0; }      /* exponent estimate 0: no short cut for a one-digit mantissa (unit num.convert.shortcuts) */
double cs_log2_stub(double x) { return 1.0; }
void h_convert_scale(void) {
  struct BigNat mant; uint32_t digs[1]; mant.n = 1; mant.cap = 1; mant.digits = digs; mant.first_digit = nd_u32();
  cs_base = CS_BASE;     /* one unit per base: products of a symbolic base on both sides are a multiplier-equivalence query (DESIGN R17) */
  int32_t exponent = nd_i32(); __CPROVER_assume(exponent >= -CS_MAXEXP && exponent <= CS_MAXEXP);
  int negative = nd_int() & 1;
  cs_mul_pow = cs_div_pow = 0; cs_shift_calls = cs_div_before_shift = cs_extract_calls = 0;
  double r = convert(negative, &mant, cs_base, exponent);
  __CPROVER_assert(cs_extract_calls == 1 && r == (negative ? -3.0 : 3.0), "convert: the result is the extracted double, negated for a negative number");
  if (exponent >= 0) {
    __CPROVER_assert(cs_mul_pow == exponent && cs_div_pow == 0 && cs_shift_calls == 0 && cs_e2 == 0, "convert: a positive exponent multiplies by base exactly `exponent` times (binary exponent 0)");
    if (exponent >= 8) REACH("exponent of 8 or more");
  } else {
    __CPROVER_assert(cs_div_pow == -(int64_t) exponent && cs_mul_pow == 0, "convert: a negative exponent divides by base exactly |exponent| times");
    __CPROVER_assert(cs_shift_calls == 1 && !cs_div_before_shift && cs_shift_n >= 1, "convert: the mantissa is shifted left once, before the first division");
    __CPROVER_assert((int64_t) cs_e2 == -31 * (int64_t) cs_shift_n, "convert: the shift is compensated exactly in the binary exponent");
    __CPROVER_assert(31 * (int64_t) cs_shift_n >= 6 * -(int64_t) exponent + 53, "convert: the shift keeps at least 53 bits above what the divisions remove (log2(36) < 6)");
    REACH("negative exponent");
  }
}
