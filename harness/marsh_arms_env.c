/* C10/C09: unmarshal_one_env (marsh.c), the arm that builds a NEW function environment (the LB_FUNCENV_REF arm is unit
 * marsh.ref.env). Layout: offset (readnat), length (readnat), then either the fiber whose stack holds the values
 * (offset > 0, "on stack") or `length` values ("off stack"). Both integers are untrusted.
 * The REAL unmarshal_one_env is the entry; readnat, the nested unmarshal_one, janet_gcalloc, malloc and janet_v_grow are
 * contracts that record what they are asked for (ghost copies of the integers handed out). */
uint8_t nd_u8(void);
static uint8_t mv_lead(void) { uint8_t b = nd_u8(); __CPROVER_assume(b != LB_FUNCENV_REF); return b; }
#define MA_LEAD mv_lead()
#include "marsh_arms.h"
static const uint8_t *unmarshal_one_env__entry(UnmarshalState *st, const uint8_t *data, JanetFuncEnv **out, int flags);
/* ---- the vector of environments numbered so far: janet_v layout {cap, cnt, items[]} ---- */
struct mv_vec { int32_t cap, cnt; JanetFuncEnv *items[8]; };
struct mv_vec mv_v1, mv_v2; int mv_grow_calls; int32_t mv_cnt0; JanetFuncEnv mv_known[4];
void *mv_vgrow_stub(void *v, int32_t increment, int32_t itemsize) {
  __CPROVER_assert(increment == 1 && itemsize == (int32_t) sizeof(JanetFuncEnv *), "C10 funcenv vector: grown by one element of the element type");
  __CPROVER_assert(v == (void *) 0 || v == (void *) mv_v1.items, "C10 funcenv vector: the vector that is grown is the state's own vector");
  mv_grow_calls++; mv_v2.cap = 8; mv_v2.cnt = v ? mv_v1.cnt : 0;
  if (v) { mv_v2.items[0] = mv_v1.items[0]; mv_v2.items[1] = mv_v1.items[1]; mv_v2.items[2] = mv_v1.items[2]; mv_v2.items[3] = mv_v1.items[3]; }
  return mv_v2.items;
}
/* ---- readers ---- */
size_t mv_cur; int mv_cur_ok = 1; int mv_nat_calls; int32_t mv_nat[2];
int32_t mv_readnat_stub(UnmarshalState *st, const uint8_t **atdata) {
  int32_t v = nd_i32(); __CPROVER_assume(v >= 0);
  size_t at = (size_t)(*atdata - ma_in), k = nd_size(); __CPROVER_assume(at < ma_n && k >= 1 && k <= 5 && k <= ma_n - at);
  mv_cur_ok = mv_cur_ok && (mv_nat_calls == 0 ? at == 0 : at == mv_cur);
  *atdata = ma_in + at + k; if (mv_nat_calls < 2) mv_nat[mv_nat_calls] = v; mv_cur = at + k; mv_nat_calls++; return v;
}
/* ---- allocation ---- */
JanetFuncEnv *mv_env; int mv_gc_calls; size_t mv_gc_size; int mv_gc_type;
void *mv_gcalloc_stub(enum JanetMemoryType type, size_t size) {
  mv_gc_calls++; mv_gc_size = size; mv_gc_type = (int) type;
  void *p = __CPROVER_allocate(size, 0); mv_env = p; return p;    /* (malloc itself is replaced in this unit: CBMC's allocation primitive) */
}
int mv_malloc_calls; size_t mv_malloc_size; Janet *mv_values; size_t mv_left_at_malloc;
void *mv_malloc_stub(size_t size) {
  mv_malloc_calls++; mv_malloc_size = size; mv_left_at_malloc = ma_n - mv_cur;
#ifndef MV_NO_DOS
  __CPROVER_assert(size / sizeof(Janet) <= ma_n - mv_cur, "C10 funcenv off stack (DOS): the values block requested on behalf of the untrusted length has at most one slot per byte of input that is left (sizeof(Janet) bytes per input byte) - a failed allocation is not a catchable error, it exits the process");
#endif
  void *p = __CPROVER_allocate(size, 0); mv_values = p; return p;    /* (a failed allocation exits the process: JANET_OUT_OF_MEMORY) */
}
/* ---- the nested reader ---- */
JanetFiber mv_fiber; UnmarshalState *mv_st; int mv_calls, mv_flags0, mv_flags_ok = 1, mv_out_ok = 1, mv_registered_ok = 1, mv_incomplete_ok = 1; Janet mv_first; Janet *mv_first_out;
const uint8_t *mv_rec_stub(UnmarshalState *st, const uint8_t *data, Janet *out, int flags) {
  size_t at = (size_t)(data - ma_in);
  mv_cur_ok = mv_cur_ok && at == mv_cur && st == mv_st;
  __CPROVER_assume(at < ma_n);
  mv_flags_ok = mv_flags_ok && (flags == mv_flags0 || flags == mv_flags0 + 1);
  /* at the time anything nested is read (it may refer back to this environment by number) the environment is numbered and is a
   * well-formed EMPTY environment: the collector and the upvalue instructions see no slots */
  mv_registered_ok = mv_registered_ok && st->lookup_envs != 0 && janet_v_count(st->lookup_envs) == mv_cnt0 + 1 && st->lookup_envs[mv_cnt0] == mv_env;
  mv_incomplete_ok = mv_incomplete_ok && mv_env->length == 0 && mv_env->offset == 0;
  if (mv_calls == 0) mv_first_out = out; else mv_out_ok = mv_out_ok && out == mv_first_out + mv_calls;
  Janet v; v.type = (JanetType)(nd_int() & 15); v.as.u64 = nd_u64();
  if (v.type == JANET_FIBER) v.as.pointer = &mv_fiber;
  *out = v; if (mv_calls == 0) mv_first = v; mv_calls++;
  size_t k = nd_size(); __CPROVER_assume(k >= 1 && k <= ma_n - at);
  mv_cur = at + k; return ma_in + at + k;
}
void h_env_new(void) {
  UnmarshalState st; JanetFuncEnv *out = 0; ma_setup(&st); int flags = nd_int(); mv_st = &st; mv_flags0 = flags;
  mv_cnt0 = nd_i32(); __CPROVER_assume(mv_cnt0 >= 0 && mv_cnt0 <= 3);
  mv_v1.cap = 4; mv_v1.cnt = mv_cnt0; mv_v1.items[0] = &mv_known[0]; mv_v1.items[1] = &mv_known[1]; mv_v1.items[2] = &mv_known[2]; mv_v1.items[3] = &mv_known[3];
  if (mv_cnt0 == 0 && nd_int()) st.lookup_envs = 0; else st.lookup_envs = mv_v1.items;
  const uint8_t *ret = unmarshal_one_env__entry(&st, MA_CUR, &out, flags);
  __CPROVER_assert(ma_n > 0 && mv_nat_calls == 2, "C10 funcenv: offset and length are read (nothing from an exhausted input)");
  int32_t offset = mv_nat[0], length = mv_nat[1];
  __CPROVER_assert(mv_gc_calls == 1 && mv_gc_type == JANET_MEMORY_FUNCENV && mv_gc_size == sizeof(JanetFuncEnv) && out == mv_env, "C10 funcenv: the result is one new collector-owned environment object");
  __CPROVER_assert(st.lookup_envs != 0 && janet_v_count(st.lookup_envs) == mv_cnt0 + 1 && st.lookup_envs[mv_cnt0] == mv_env, "C09 funcenv: the environment gets the next environment number, exactly once");
  { int32_t j = nd_i32(); if (j >= 0 && j < mv_cnt0) __CPROVER_assert(st.lookup_envs[j] == &mv_known[j], "C09 funcenv: earlier environment numbers keep their objects"); }
  __CPROVER_assert(mv_registered_ok && mv_incomplete_ok, "C09/C10 funcenv: it is numbered BEFORE its contents are read (cycles), and while they are read it is a well-formed empty environment (length 0, offset 0)");
  __CPROVER_assert(mv_cur_ok && ret == ma_in + mv_cur, "C10 funcenv: offset, length and the contents are read one after the other; the cursor returned is the one the last reader left");
  __CPROVER_assert(mv_flags_ok, "C10/C19 funcenv: the contents are read at the caller's nesting depth or deeper (the depth is never reset)");
  __CPROVER_assert(mv_env->length == length, "C10 funcenv: length is the length in the image");
  if (offset > 0) {
    __CPROVER_assert(mv_calls == 1 && mv_first.type == JANET_FIBER && mv_env->as.fiber == &mv_fiber, "C10 funcenv on stack: exactly one value is read, it must be a fiber, and it becomes the environment's fiber");
    __CPROVER_assert(mv_env->offset == -offset && mv_env->offset < 0, "C10 funcenv on stack: the offset is stored NEGATED - the mark of an offset nobody has validated yet (janet_env_valid, unit fiber.env_valid, checks it against the fiber before first use)");
    __CPROVER_assert(mv_malloc_calls == 0, "C10 funcenv on stack: no values block");
    REACH("funcenv on stack");
  } else {
    __CPROVER_assert(length > 0, "C10 funcenv off stack: a closed environment has at least one slot");
    __CPROVER_assert(mv_malloc_calls == 1 && mv_malloc_size == sizeof(Janet) * (size_t) length && mv_env->as.values == mv_values && mv_env->offset == 0, "C10 funcenv off stack: the values block has exactly `length` slots (size computed without overflow); offset 0");
    __CPROVER_assert(mv_calls == length && mv_out_ok && (length == 0 || mv_first_out == mv_values), "C10 funcenv off stack: slot i is read into values[i], for every i < length, and nothing else is read");
    if (length > 1) REACH("funcenv off stack with two or more slots");
    REACH("funcenv off stack");
  }
}
