/* C02 "closures over mutable variables": leaving a scope (janetc_popscope, compile.c). Every block scope works on a CLONE of
 * its parent's register allocator, so when a block is left the registers of variables that a closure captured (`keep`)
 * must be reserved again in the parent - at EVERY level up to the function - or a later local reuses the register while the
 * closure still reads it. Contract for a block scope (neither FUNCTION nor UNUSED): each of its symbol entries is handed to
 * the parent (no longer nameable: sym cleared; lifetime closed at the current instruction if still open), every `keep`
 * entry's register is touched in the parent's allocator whether or not it is still listed as a local (sym2), the closure
 * flag and the register high-water mark move up; for FUNCTION / UNUSED scopes nothing moves up. The scope is unlinked. */
#include "prelude.h"
#define PS_N 2
static JanetCompiler ps_c; static JanetScope ps_old, ps_parent;
static struct { int32_t cap, cnt; SymPair data[8]; } ps_oldsyms, ps_parsyms;
static struct { int32_t cap, cnt; uint32_t data[8]; } ps_buf;
static int ps_touch_calls; static int32_t ps_touched[4]; static JanetcRegisterAllocator *ps_touch_ra;
static uint8_t ps_symtext[2][8];
void ps_touch_stub(JanetcRegisterAllocator *ra, int32_t reg) { ps_touch_ra = ra; if (ps_touch_calls < 4) ps_touched[ps_touch_calls] = reg; ps_touch_calls++; }
void ps_deinit_stub(JanetcRegisterAllocator *ra) {}
void ps_sfree_stub(void *p) {}
void *ps_nogrow_stub(void *v, int32_t inc, int32_t itemsize) { __CPROVER_assert(0, "harness: the preallocated vectors suffice"); __CPROVER_assume(0); return v; }
void h_popscope(void) {
  int32_t n = nd_i32(); __CPROVER_assume(n >= 0 && n <= PS_N);
  ps_oldsyms.cap = 8; ps_oldsyms.cnt = n; ps_parsyms.cap = 8; ps_parsyms.cnt = nd_int() & 1; ps_buf.cap = 8; ps_buf.cnt = nd_i32();
  __CPROVER_assume(ps_buf.cnt >= 0 && ps_buf.cnt <= 8);
  int32_t par0 = ps_parsyms.cnt;
  for (int i = 0; i < PS_N; i++) {
    SymPair *p = &ps_oldsyms.data[i];
    p->sym = ps_symtext[i]; p->sym2 = (nd_int() & 1) ? ps_symtext[i] : (const uint8_t *)0;   /* sym2 was already cleared if an inner pop handed the entry up */
    p->keep = nd_int() & 1; p->slot.index = 10 + i; p->slot.envindex = -1; p->slot.flags = nd_u32(); p->slot.constant.type = JANET_NIL; p->slot.constant.as.u64 = 0;
    p->birth_pc = nd_u32(); p->death_pc = (nd_int() & 1) ? UINT32_MAX : nd_u32();
  }
  SymPair old0 = ps_oldsyms.data[0], old1 = ps_oldsyms.data[1];
  ps_old.syms = n ? ps_oldsyms.data : (SymPair *)0; ps_old.consts = (Janet *)0; ps_old.envs = (JanetEnvRef *)0; ps_old.defs = (JanetFuncDef **)0;
  ps_old.parent = &ps_parent; ps_old.child = (JanetScope *)0; ps_old.flags = nd_int(); ps_old.ra.max = nd_i32(); ps_old.bytecode_start = 0;
  ps_parent.syms = ps_parsyms.data; ps_parent.child = &ps_old; ps_parent.parent = (JanetScope *)0; ps_parent.flags = nd_int() & ~JANET_SCOPE_CLOSURE; ps_parent.ra.max = nd_i32();
  int32_t pmax0 = ps_parent.ra.max; int pflags0 = ps_parent.flags;
  ps_c.scope = &ps_old; ps_c.buffer = ps_buf.data;
  ps_touch_calls = 0;
  janetc_popscope(&ps_c);
  __CPROVER_assert(ps_c.scope == &ps_parent && ps_parent.child == (JanetScope *)0, "comp.popscope: the scope is unlinked and compilation continues in its parent");
  int block = !(ps_old.flags & (JANET_SCOPE_FUNCTION | JANET_SCOPE_UNUSED));
  if (!block) {
    __CPROVER_assert(ps_parsyms.cnt == par0 && ps_touch_calls == 0 && ps_parent.ra.max == pmax0 && ps_parent.flags == pflags0, "comp.popscope: a function scope or a discarded scope hands nothing to its parent");
    REACH("popscope: function / unused scope");
  } else {
    __CPROVER_assert(ps_parsyms.cnt == par0 + n, "comp.popscope: every symbol entry of the block moves to the parent");
    __CPROVER_assert(((ps_parent.flags & JANET_SCOPE_CLOSURE) != 0) == ((ps_old.flags & JANET_SCOPE_CLOSURE) != 0), "comp.popscope: the closure flag moves up (and only then)");
    __CPROVER_assert(ps_parent.ra.max == (pmax0 < ps_old.ra.max ? ps_old.ra.max : pmax0), "comp.popscope: the register high-water mark moves up");
    int keeps = (n > 0 && old0.keep) + (n > 1 && old1.keep);
    __CPROVER_assert(ps_touch_calls == keeps && (keeps == 0 || ps_touch_ra == &ps_parent.ra), "comp.popscope: exactly the captured variables are re-reserved, in the parent's allocator");
    int k = nd_int(); __CPROVER_assume(k >= 0 && k < n);
    SymPair o = k == 0 ? old0 : old1, now = ps_parsyms.data[par0 + k];
    __CPROVER_assert(now.sym == (const uint8_t *)0 && now.slot.index == o.slot.index && now.birth_pc == o.birth_pc && now.keep == o.keep, "comp.popscope: the entry is kept for the debug map but can no longer be named");
    __CPROVER_assert(now.death_pc == (o.death_pc == UINT32_MAX ? (uint32_t) ps_buf.cnt : o.death_pc), "comp.popscope: an open lifetime is closed at the current instruction");
    if (o.keep) {
      int hit = 0; for (int t = 0; t < 4; t++) if (t < ps_touch_calls && ps_touched[t] == o.slot.index) hit = 1;
      __CPROVER_assert(hit, "comp.popscope: a captured variable's register stays reserved in the parent - also when an inner block already handed the entry up (sym2 cleared)");
      __CPROVER_assert(now.sym2 == (const uint8_t *)0, "comp.popscope: a captured variable is not listed as a plain local of the parent");
      if (o.sym2 == (const uint8_t *)0) REACH("popscope: captured variable passing a second level");
    } else __CPROVER_assert(now.sym2 == o.sym2, "comp.popscope: other entries keep their debug name");
    REACH("popscope: block scope");
  }
}
