/* C19/C10: per-fiber stack limit - the push family raises before the 32-bit stack index can overflow, for ANY stack state.
 * janet_fiber_grow (reallocation) is replaced by a contract that installs the new capacity; pointer checks are off
 * (memory safety of the stores is the business of the frame units), the obligations are the generated signed-overflow checks
 * plus the explicit post-conditions below. */
#include "prelude.h"
void grow_stub(JanetFiber *fiber, int32_t needed) {
  __CPROVER_assert(needed >= 0, "C19 fiber grow: requested size is not negative (no wrapped index reaches the allocator)");
  fiber->capacity = needed > (INT32_MAX / 2) ? INT32_MAX : 2 * needed;
}
#define SETUP JanetFiber f; f.stacktop = nd_i32(); f.capacity = nd_i32(); f.stackstart = nd_i32(); \
  /* representation invariant: every constructor allocates at least 10 slots (fiber.c: 32, marsh.c: stacktop + 10) */ __CPROVER_assume(f.stacktop >= 0 && f.capacity >= 1 && f.stackstart >= 0 && f.stackstart <= f.stacktop); int32_t top0 = f.stacktop; Janet x; Janet *garbage; f.data = garbage;
void h_push(void) { SETUP janet_fiber_push(&f, x); __CPROVER_assert(f.stacktop == top0 + 1 && top0 < INT32_MAX && f.stacktop <= f.capacity, "C19 fiber push: top advances by one below the limit and stays within capacity"); REACH("push returns"); }
void h_push2(void) { SETUP janet_fiber_push2(&f, x, x); __CPROVER_assert(f.stacktop == top0 + 2 && top0 < INT32_MAX - 1 && f.stacktop <= f.capacity, "C19 fiber push2: top advances by two below the limit"); REACH("push2 returns"); }
void h_push3(void) { SETUP janet_fiber_push3(&f, x, x, x); __CPROVER_assert(f.stacktop == top0 + 3 && top0 < INT32_MAX - 2 && f.stacktop <= f.capacity, "C19 fiber push3: top advances by three below the limit"); REACH("push3 returns"); }
void safe_memcpy_stub(void *dest, const void *src, size_t len) { }
void h_pushn(void) { SETUP int32_t n = nd_i32(); __CPROVER_assume(n >= 0); janet_fiber_pushn(&f, garbage, n);
  __CPROVER_assert((int64_t) f.stacktop == (int64_t) top0 + n && f.stacktop <= f.capacity, "C19 fiber pushn: top advances by n without wrapping"); REACH("pushn returns"); }
