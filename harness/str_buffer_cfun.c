/* C17 (C level): the registered C functions of buffer.c (buffer/blit, push-at, popn, slice, fill, new-filled,
 * bit-set/clear/toggle/bit) under contract. Conventions of seq_array_cfun.c / seq_buffer.c: wf_buffer and the allocator
 * and bulk-copy models come from seq_common.h (units define SEQ_ELEM_BYTES, SEQ_TRACK_REALLOC); the argument getters of
 * capi.c are trusted stubs that return well-formed objects and assert "argument slot index below argc":
 *   slot 0 buffer   -> g_buf (any wf_buffer built by the harness)
 *   byte sequence   -> g_bytes (either the bytes of g_buf itself - self aliasing - or a separate block of any length)
 *   integer slot    -> the low 32 bits of the slot (an arbitrary but fixed int32 per slot)
 *   number slot     -> the slot's bits as a double (any double, NaN and infinities included)
 *   janet_gethalfrange -> its contract (proved in unit seq.capi.gethalfrange): returns only for raw in
 *                      [-length-1, length], result raw or raw+length+1; asserts its precondition 0 <= length < INT32_MAX
 *   janet_getslice  -> its contract (unit seq.capi.getslice): 0 <= start <= end <= length of slot 0 */
#include "seq_common.h"

JanetBuffer *g_buf;
int32_t g_argc;
JanetByteView g_bytes;       /* what janet_getbytes returns */
int32_t g_bytes_slot;        /* the only slot a byte view may be requested for */
int g_same;                  /* g_bytes aliases g_buf->data */
int32_t g_srclen;            /* g_bytes.len at entry */
const uint8_t *g_srcbytes;   /* g_bytes.bytes at entry (for the non-aliasing case) */
void *g_new0, *g_new1;       /* the blocks handed out by janet_gcalloc (first, second) */
int g_foreign;
#define SEQ_MAXLEN (INT32_MAX - 1)

#define SLOT_OK(n) __CPROVER_assert((n) >= 0 && (n) < g_argc, "argument slot index below argc")
#define SLOT_INT(argv, n) ((int32_t)((int64_t)((argv)[n].u64 & 0xFFFFFFFFull) - (((argv)[n].u64 & 0x80000000ull) ? 0x100000000ll : 0ll)))
#define IS_NIL(x) janet_checktype((x), JANET_NIL)
void janet_fixarity(int32_t argc, int32_t fix) { __CPROVER_assume(argc == fix); }
void janet_arity(int32_t argc, int32_t min, int32_t max) { __CPROVER_assume(argc >= min && (max < 0 || argc <= max)); }
JanetBuffer *janet_getbuffer(const Janet *argv, int32_t n) { SLOT_OK(n); __CPROVER_assert(n == 0, "buffer is slot 0"); return g_buf; }
/* byte view: for blit/slice the fixed view g_bytes (of g_buf itself iff g_same); for the push family (g_bytes_slot == -2,
 * any slot >= 1 may hold a byte sequence) each call returns either the CURRENT bytes of g_buf (buffer pushed onto itself)
 * or the separate block */
JanetByteView janet_getbytes(const Janet *argv, int32_t n) {
  SLOT_OK(n);
  if (g_bytes_slot == -2) {
    __CPROVER_assert(n >= 1, "byte view requested for a data slot");
    if (nd_int()) {
      JanetByteView v; v.bytes = g_buf->data; v.len = g_buf->count;
#ifndef STR_PUSH_SELF_ANY
      /* domain restriction: buffer_push_impl computes `buffer->count + view.len` in int32 before the overflow check of
       * janet_buffer_extra; for a buffer of >= 1 GiB pushed onto itself that sum overflows (formal UB; with wrap-around
       * the call still raises "buffer overflow"). Unit str.cfun.buffer.push_at.selfhuge keeps the obligation. */
      __CPROVER_assume(g_buf->count <= INT32_MAX / 2);
#endif
      return v;
    }
    return g_bytes;
  }
  __CPROVER_assert(n == g_bytes_slot, "byte view requested for the byte-sequence slot");
  return g_bytes;
}
int32_t janet_getinteger(const Janet *argv, int32_t n) { SLOT_OK(n); return SLOT_INT(argv, n); }
double janet_getnumber(const Janet *argv, int32_t n) { SLOT_OK(n); __CPROVER_assume(janet_checktype(argv[n], JANET_NUMBER)); return janet_unwrap_number(argv[n]); }
#define HR(argv, n, len) (SLOT_INT(argv, n) >= 0 ? (int64_t)SLOT_INT(argv, n) : (int64_t)SLOT_INT(argv, n) + (len) + 1)
int32_t janet_gethalfrange(const Janet *argv, int32_t n, int32_t length, const char *which) {
  SLOT_OK(n);
  __CPROVER_assert(length >= 0 && length <= SEQ_MAXLEN, "janet_gethalfrange precondition: 0 <= length < INT32_MAX");
  __CPROVER_assume((int64_t)SLOT_INT(argv, n) >= -(int64_t)length - 1 && SLOT_INT(argv, n) <= length);
  return (int32_t)HR(argv, n, length);
}
JanetRange g_range;
JanetRange janet_getslice(int32_t argc, const Janet *argv) {
  __CPROVER_assume(argc >= 1 && argc <= 3 && 0 <= g_range.start && g_range.start <= g_range.end && g_range.end <= g_bytes.len);
  return g_range;
}
void *janet_gcalloc(enum JanetMemoryType type, size_t size) {
  void *p = malloc(size);
  __CPROVER_assume(p != SEQ_NULL);
  if (g_new0 == SEQ_NULL) g_new0 = p; else g_new1 = p;
  return p;
}

/* argument vector of any length; slot 0 is the buffer g_buf; the byte view is the buffer itself or foreign bytes */
static Janet *mk_args(int32_t bytes_slot) {
  g_argc = nd_i32();
  __CPROVER_assume(g_argc >= 0);
  Janet *argv = malloc((size_t)g_argc * sizeof(Janet));
  __CPROVER_assume(argv != SEQ_NULL);
  g_buf = mk_buffer();
  g_bytes_slot = bytes_slot;
  g_new0 = SEQ_NULL; g_new1 = SEQ_NULL;
  if (g_same) {
    g_bytes.bytes = g_buf->data; g_bytes.len = g_buf->count;
  } else {
    g_bytes.len = nd_i32();
    __CPROVER_assume(g_bytes.len >= 0);
    uint8_t *p = malloc((size_t)g_bytes.len);
    __CPROVER_assume(p != SEQ_NULL);
    g_bytes.bytes = p;
  }
  g_srcbytes = g_bytes.bytes;
  return argv;
}

#define B_NOREALLOC(b) (((b)->gc.flags & JANET_BUFFER_FLAG_NO_REALLOC) != 0)
#define GHOST_IN(b) (g_idx >= 0 && g_idx < (b)->count)
#define CF_PRE \
  __CPROVER_requires(argc == g_argc && argc >= 0 && __CPROVER_r_ok(argv, (size_t)argc * JSZ)) \
  __CPROVER_requires(WF_BUFFER(g_buf)) \
  __CPROVER_requires(g_oldcount == g_buf->count && g_oldcap == g_buf->capacity && g_re_called == 0 && g_foreign == B_NOREALLOC(g_buf)) \
  __CPROVER_requires(GHOST_IN(g_buf) ==> g_buf->data[g_idx] == g_byte)
#define CF_PRE_BYTES \
  __CPROVER_requires(g_srclen == g_bytes.len && g_srclen >= 0 && (g_srclen == 0 || __CPROVER_r_ok(g_bytes.bytes, (size_t)g_srclen))) \
  __CPROVER_requires(g_same ? (g_bytes.bytes == g_buf->data && g_srclen == g_buf->count) : !__CPROVER_same_object(g_bytes.bytes, g_buf->data))
#define CF_FRAME \
  __CPROVER_assigns(g_buf->data, g_buf->capacity, g_buf->count, g_re_called, __CPROVER_object_whole(g_buf->data)) \
  __CPROVER_frees(g_buf->data)
#define RET_ARG0 __CPROVER_ensures(argc >= 1 && __CPROVER_return_value.u64 == argv[0].u64)
#define NEVER_FOREIGN_REALLOC __CPROVER_ensures(g_foreign ==> (g_re_called == 0 && g_buf->capacity == g_oldcap))
/* the ghost offset g_mm of the copy model as a signed value (only used under GMM_OK) */
#define GMM_OK (g_mm <= (size_t)INT32_MAX)
#define GMM ((int64_t)(g_mm & (size_t)0x7FFFFFFF))
#define MAX64(a, b) ((int64_t)(a) > (int64_t)(b) ? (int64_t)(a) : (int64_t)(b))

/* ---- (buffer/blit dest src &opt dest-start src-start src-end) ------------------------------------------------
 * documented: insert src[src-start, src-end) into dest at dest-start (indices may be negative = from the end; nil or
 * absent = 0 / 0 / length of src); returns dest. Reference definition used here:
 *   od = decode(dest-start, len dest), os = decode(src-start, len src), oe = decode(src-end, len src),
 *   n = max(0, oe - os)  (an end before the start copies NOTHING - never a negative length),
 *   raises if od + n > INT32_MAX; dest' = dest[0,od) ++ src[os,os+n) ++ dest[od+n, len dest); len dest' = max(len dest, od+n)
 * where src is the value of the source BEFORE the call (src may be dest itself). */
#define ARG_GIVEN(argc, argv, n) ((argc) > (n) && !IS_NIL((argv)[n]))
#define BL_OD(argc, argv) (ARG_GIVEN(argc, argv, 2) ? HR(argv, 2, g_oldcount) : (int64_t)0)
#define BL_OS(argc, argv) (ARG_GIVEN(argc, argv, 3) ? HR(argv, 3, g_srclen) : (int64_t)0)
#define BL_OE(argc, argv) (ARG_GIVEN(argc, argv, 4) ? HR(argv, 4, g_srclen) : (int64_t)g_srclen)
#define BL_N(argc, argv) (BL_OE(argc, argv) - BL_OS(argc, argv) > 0 ? BL_OE(argc, argv) - BL_OS(argc, argv) : (int64_t)0)
static Janet cfun_buffer_blit_c(int32_t argc, Janet *argv)
CF_PRE CF_PRE_BYTES
/* domain restriction inherited from janet_gethalfrange (`length + 1` overflows at INT32_MAX): 2 GiB - 1 sequences excluded */
__CPROVER_requires(g_buf->count <= SEQ_MAXLEN && g_srclen <= SEQ_MAXLEN)
CF_FRAME RET_ARG0 NEVER_FOREIGN_REALLOC
__CPROVER_ensures(WF_BUFFER(g_buf) && argc >= 2 && argc <= 5)
__CPROVER_ensures(BL_OD(argc, argv) + BL_N(argc, argv) <= INT32_MAX)
__CPROVER_ensures((int64_t)g_buf->count == MAX64(g_oldcount, BL_OD(argc, argv) + BL_N(argc, argv)))
/* bytes before the insertion point and behind the inserted range are unchanged */
__CPROVER_ensures((g_idx >= 0 && g_idx < g_oldcount && g_idx < BL_OD(argc, argv)) ==> g_buf->data[g_idx] == g_byte)
__CPROVER_ensures((g_idx >= BL_OD(argc, argv) + BL_N(argc, argv) && g_idx < g_oldcount) ==> g_buf->data[g_idx] == g_byte)
/* the inserted range holds the source bytes as they were before the call */
__CPROVER_ensures((!g_same && GMM_OK && GMM < BL_N(argc, argv)) ==> g_buf->data[BL_OD(argc, argv) + GMM] == g_srcbytes[BL_OS(argc, argv) + GMM])
__CPROVER_ensures((g_same && GMM_OK && GMM < BL_N(argc, argv) && g_idx == BL_OS(argc, argv) + GMM) ==> g_buf->data[BL_OD(argc, argv) + GMM] == g_byte)
;
void h_cfun_buffer_blit(void) {
  g_same = nd_int() ? 1 : 0;
  Janet *argv = mk_args(1);
  cfun_buffer_blit(g_argc, argv);
  REACH("buffer/blit returns");
  if (g_same && g_argc == 5 && !IS_NIL(argv[4]) && HR(argv, 4, g_srclen) < BL_OS(g_argc, argv)) REACH("buffer/blit returns for src == dest with src-end before src-start");
  if (!g_same && g_argc == 5 && BL_N(g_argc, argv) > 0 && g_buf->capacity != g_oldcap) REACH("buffer/blit returns after growing dest");
  if (g_same && BL_N(g_argc, argv) > 0 && g_buf->capacity != g_oldcap) REACH("buffer/blit returns after growing dest == src");
}

/* ---- (buffer/popn buffer n): n >= 0 else raises; removes min(n, len) bytes from the end; rest unchanged; returns buffer */
static Janet cfun_buffer_popn_c(int32_t argc, Janet *argv)
CF_PRE
__CPROVER_assigns(g_buf->count) RET_ARG0
__CPROVER_ensures(WF_BUFFER(g_buf) && argc == 2 && SLOT_INT(argv, 1) >= 0)
__CPROVER_ensures((int64_t)g_buf->count == MAX64(0, (int64_t)g_oldcount - SLOT_INT(argv, 1)))
__CPROVER_ensures(GHOST_IN(g_buf) ==> g_buf->data[g_idx] == g_byte)
;
void h_cfun_buffer_popn(void) {
  Janet *argv = mk_args(-1);
  cfun_buffer_popn(g_argc, argv);
  REACH("buffer/popn returns");
  if (g_buf->count > 0 && g_buf->count < g_oldcount) REACH("buffer/popn returns after removing some bytes");
}

/* ---- (buffer/fill buffer &opt byte): every byte of the buffer becomes byte & 0xFF (default 0); length unchanged */
static Janet cfun_buffer_fill_c(int32_t argc, Janet *argv)
CF_PRE
__CPROVER_assigns(__CPROVER_object_whole(g_buf->data)) RET_ARG0
__CPROVER_ensures(WF_BUFFER(g_buf) && argc >= 1 && argc <= 2 && g_buf->count == g_oldcount && g_buf->capacity == g_oldcap)
__CPROVER_ensures((GHOST_IN(g_buf) && (size_t)g_idx == g_mm) ==> g_buf->data[g_idx] == (uint8_t)(argc == 2 ? (SLOT_INT(argv, 1) & 0xFF) : 0))
;
void h_cfun_buffer_fill(void) {
  Janet *argv = mk_args(-1);
  cfun_buffer_fill(g_argc, argv);
  REACH("buffer/fill returns");
  if (g_oldcount > 0 && g_argc == 2) REACH("buffer/fill returns for a non-empty buffer and a given byte");
}

/* ---- (buffer/new-filled count &opt byte): a NEW buffer of length max(count, 0), every byte == byte & 0xFF (default 0) */
#define NEWBUF ((JanetBuffer *)g_new0)
#define NF_COUNT(argv) (SLOT_INT(argv, 0) < 0 ? 0 : SLOT_INT(argv, 0))
static Janet cfun_buffer_new_filled_c(int32_t argc, Janet *argv)
__CPROVER_requires(argc == g_argc && argc >= 0 && __CPROVER_r_ok(argv, (size_t)argc * JSZ) && g_new0 == SEQ_NULL)
__CPROVER_assigns(g_new0, g_new1)
__CPROVER_ensures(argc >= 1 && argc <= 2 && g_new0 != SEQ_NULL && __CPROVER_return_value.u64 == janet_wrap_buffer(NEWBUF).u64)
__CPROVER_ensures(WF_BUFFER(NEWBUF) && NEWBUF->count == NF_COUNT(argv))
__CPROVER_ensures((g_idx >= 0 && g_idx < NEWBUF->count && (size_t)g_idx == g_mm) ==> NEWBUF->data[g_idx] == (uint8_t)(argc == 2 ? (SLOT_INT(argv, 1) & 0xFF) : 0))
;
void h_cfun_buffer_new_filled(void) {
  Janet *argv = mk_args(-1);
  cfun_buffer_new_filled(g_argc, argv);
  REACH("buffer/new-filled returns");
  if (NEWBUF->count > 4) REACH("buffer/new-filled returns a buffer longer than the minimum capacity");
}

/* ---- (buffer/slice bytes &opt start end): a NEW buffer holding bytes[start, end); the source is not modified */
static Janet cfun_buffer_slice_c(int32_t argc, Janet *argv)
__CPROVER_requires(argc == g_argc && argc >= 0 && __CPROVER_r_ok(argv, (size_t)argc * JSZ) && g_new0 == SEQ_NULL)
CF_PRE_BYTES
__CPROVER_requires(WF_BUFFER(g_buf))
#ifndef STR_SLICE_ANY_ARGC
/* domain restriction: with NO argument the real code reads argv[0] (janet_getbytes) before janet_getslice checks the
 * arity - a stale stack slot; the outcome is still an error (type error or arity error). Unit str.cfun.buffer.slice.argc0
 * keeps the failing "argument slot index below argc" obligation. */
__CPROVER_requires(argc >= 1)
#endif
__CPROVER_assigns(g_new0, g_new1)
__CPROVER_ensures(argc >= 1 && argc <= 3 && g_new0 != SEQ_NULL && __CPROVER_return_value.u64 == janet_wrap_buffer(NEWBUF).u64)
__CPROVER_ensures(WF_BUFFER(NEWBUF) && NEWBUF->count == g_range.end - g_range.start)
__CPROVER_ensures(g_mm < (size_t)NEWBUF->count ==> NEWBUF->data[g_mm] == g_srcbytes[g_range.start + g_mm])
;
void h_cfun_buffer_slice(void) {
  g_same = nd_int() ? 1 : 0;
  Janet *argv = mk_args(0);
  cfun_buffer_slice(g_argc, argv);
  REACH("buffer/slice returns");
  if (NEWBUF->count > 4 && g_range.start > 0) REACH("buffer/slice returns a proper slice longer than the minimum capacity");
}

/* ---- bit operations: (buffer/bit-set|bit-clear|bit-toggle|bit buffer index) -----------------------------------
 * return normally only for an integral index with 0 <= index < 8 * length (else raise: no byte outside the buffer is
 * touched); byte index>>3 gets bit index&7 set / cleared / toggled, all other bytes unchanged; returns buffer (bit: the
 * boolean value of that bit, buffer unchanged) */
#define BIT_X(argv) janet_unwrap_number((argv)[1])
#define BIT_OK(argv) (BIT_X(argv) >= 0.0 && BIT_X(argv) < 8.0 * (double)g_oldcount && BIT_X(argv) == (double)(int64_t)BIT_X(argv))
#define BIT_BYTE(argv) ((int32_t)((int64_t)BIT_X(argv) >> 3))
#define BIT_MASK(argv) ((uint8_t)(1u << ((int64_t)BIT_X(argv) & 7)))
#define BIT_PRE CF_PRE \
  __CPROVER_requires(argc < 2 || !janet_checktype(argv[1], JANET_NUMBER) || BIT_DOMAIN(argv))
/* domain restriction: the conversion (int64_t) x in bitloc is undefined for NaN and |x| >= 2^63 (see final report) */
#ifdef STR_BIT_ANY_DOUBLE
#define BIT_DOMAIN(argv) 1
#else
#define BIT_DOMAIN(argv) (BIT_X(argv) > -9.2e18 && BIT_X(argv) < 9.2e18)
#endif
#define BIT_POST(expr) \
  __CPROVER_ensures(WF_BUFFER(g_buf) && argc == 2 && g_buf->count == g_oldcount && g_buf->capacity == g_oldcap && BIT_OK(argv)) \
  __CPROVER_ensures((GHOST_IN(g_buf) && g_idx != BIT_BYTE(argv)) ==> g_buf->data[g_idx] == g_byte) \
  __CPROVER_ensures((GHOST_IN(g_buf) && g_idx == BIT_BYTE(argv)) ==> g_buf->data[g_idx] == (uint8_t)(expr))
static Janet cfun_buffer_bitset_c(int32_t argc, Janet *argv)
BIT_PRE __CPROVER_assigns(__CPROVER_object_whole(g_buf->data)) RET_ARG0 BIT_POST(g_byte | BIT_MASK(argv));
static Janet cfun_buffer_bitclear_c(int32_t argc, Janet *argv)
BIT_PRE __CPROVER_assigns(__CPROVER_object_whole(g_buf->data)) RET_ARG0 BIT_POST(g_byte & ~BIT_MASK(argv));
static Janet cfun_buffer_bittoggle_c(int32_t argc, Janet *argv)
BIT_PRE __CPROVER_assigns(__CPROVER_object_whole(g_buf->data)) RET_ARG0 BIT_POST(g_byte ^ BIT_MASK(argv));
static Janet cfun_buffer_bitget_c(int32_t argc, Janet *argv)
BIT_PRE __CPROVER_assigns() BIT_POST(g_byte)
__CPROVER_ensures((GHOST_IN(g_buf) && g_idx == BIT_BYTE(argv)) ==> __CPROVER_return_value.u64 == janet_wrap_boolean((g_byte & BIT_MASK(argv)) != 0).u64)
;
#define H_BIT(name, lisp) \
void h_cfun_buffer_##name(void) { \
  Janet *argv = mk_args(-1); \
  cfun_buffer_##name(g_argc, argv); \
  REACH(lisp " returns"); \
  if (BIT_BYTE(argv) > 0 && BIT_BYTE(argv) == g_oldcount - 1) REACH(lisp " returns for a bit of the last byte"); \
}
H_BIT(bitset, "buffer/bit-set")
H_BIT(bitclear, "buffer/bit-clear")
H_BIT(bittoggle, "buffer/bit-toggle")
H_BIT(bitget, "buffer/bit")

/* ---- (buffer/push-at buffer index & xs): index in [0, length] else raises; the xs (bytes for numbers, byte sequences
 * otherwise - possibly the buffer itself) are written from index on; the buffer never gets shorter, the bytes before
 * index are unchanged, raises instead of exceeding INT32_MAX; returns buffer.
 * (The exact new length max(old, index + total size of xs) is a sum over the arguments and is not stated.) */
int32_t g_at;
static Janet cfun_buffer_push_at_c(int32_t argc, Janet *argv)
CF_PRE CF_PRE_BYTES
__CPROVER_requires(argc < 2 || g_at == SLOT_INT(argv, 1))
#ifdef STR_PUSH_MAXARGC
__CPROVER_requires(argc <= STR_PUSH_MAXARGC)      /* bound: the argument loop of buffer_push_impl is unwound */
#endif
CF_FRAME RET_ARG0 NEVER_FOREIGN_REALLOC
__CPROVER_ensures(WF_BUFFER(g_buf) && argc >= 2 && g_at >= 0 && g_at <= g_oldcount)
__CPROVER_ensures(g_buf->count >= g_oldcount)
__CPROVER_ensures((g_idx >= 0 && g_idx < g_at) ==> g_buf->data[g_idx] == g_byte)
__CPROVER_ensures(argc == 2 ==> (g_buf->count == g_oldcount && g_re_called == 0 && (GHOST_IN(g_buf) ==> g_buf->data[g_idx] == g_byte)))
;
void h_cfun_buffer_push_at(void) {
  g_same = 0;
  Janet *argv = mk_args(-2);
  cfun_buffer_push_at(g_argc, argv);
  REACH("buffer/push-at returns");
  if (g_argc > 3 && g_buf->capacity != g_oldcap) REACH("buffer/push-at returns after growing");
  if (g_argc > 2 && g_at < g_oldcount && g_buf->count == g_oldcount) REACH("buffer/push-at returns after overwriting inside the buffer");
}
