/* Single-instruction contracts on the REAL interpreter loop run_vm (vm.c), plain mode.
 *
 * The fiber under test has one Janet function frame whose bytecode is
 *     code[0] = the instruction under proof (operands symbolic, within the frame as janet_verify guarantees)
 *     code[1] = an instruction word with the breakpoint bit (0x80) set
 * and is entered the way the debugger single-steps (RESUME_NO_USEVAL | RESUME_NO_SKIP): run_vm executes exactly
 * code[0] and then stops at code[1] with JANET_SIGNAL_DEBUG - unless code[0] itself leaves the interpreter.
 * The post-state of that one instruction is therefore observable at the return of run_vm, for all operand values
 * and all stack contents.  Callees of the instruction (janet_continue_no_check, janet_check_can_resume, ...) are
 * replaced by recording stubs that carry the callee contract. */
#include "prelude.h"

#ifndef VS_SLOTS
#define VS_SLOTS 5
#endif
#ifndef VS_PARENT_MASK
#define VS_PARENT_MASK JANET_FIBER_MASK_ERROR
#endif
#define VS_CAP (JANET_FRAME_SIZE + VS_SLOTS + 4)

static uint32_t vs_code[2];
static JanetFuncDef vs_def;
static JanetFunction vs_func;
/* the stack block: one frame header followed by the slots (typed so that header accesses stay field accesses) */
static struct { JanetStackFrame fr; char pad[JANET_FRAME_SIZE * sizeof(Janet) - sizeof(JanetStackFrame)]; Janet slots[VS_CAP - JANET_FRAME_SIZE]; } vs_mem;
#define vs_data ((Janet *) &vs_mem)
static JanetFiber vs_fiber;
static JanetFiber vs_child;
static Janet vs_ret;

/* ghosts written by the stubs */
static int g_cont_calls, g_cancel_calls, g_check_calls, g_collect_calls;
static JanetFiber *g_cont_fiber, *g_child_at_call;
static Janet g_cont_in, g_cont_out;
static JanetSignal g_cont_sig;
static int g_check_ret, g_check_cancel_arg;
static uint32_t g_child_flags_after;

static int same(Janet a, Janet b) {
    return a.type == b.type && a.as.u64 == b.as.u64;
}

/* contract of janet_check_can_resume (proved separately in fib.check_can_resume): pure answer */
JanetSignal vs_check_can_resume_stub(JanetFiber *fiber, Janet *out, int is_cancel) {
    g_check_calls++;
    g_check_cancel_arg = is_cancel;
    __CPROVER_assert(fiber == &vs_child, "vm.step: eligibility is asked about the fiber operand");
    g_check_ret = nd_int();
    if (g_check_ret) { out->type = JANET_STRING; out->as.u64 = nd_u64(); }
    return (JanetSignal) g_check_ret;
}

static JanetSignal vs_child_runs(JanetFiber *fiber, Janet in, Janet *out) {
    g_cont_fiber = fiber;
    g_cont_in = in;
    g_child_at_call = vs_fiber.child;
    /* the child runs: any signal, any value; its mask is whatever it was created with */
    g_cont_sig = (JanetSignal) nd_int();
    __CPROVER_assume(g_cont_sig >= JANET_SIGNAL_OK && g_cont_sig <= JANET_SIGNAL_USER9);
    g_cont_out.type = (JanetType) nd_int();
    __CPROVER_assume(g_cont_out.type >= JANET_NUMBER && g_cont_out.type <= JANET_POINTER);
    g_cont_out.as.u64 = nd_u64();
    *out = g_cont_out;
    return g_cont_sig;
}
JanetSignal vs_continue_no_check_stub(JanetFiber *fiber, Janet in, Janet *out) {
    g_cont_calls++;
    return vs_child_runs(fiber, in, out);
}
JanetSignal vs_continue_signal_stub(JanetFiber *fiber, Janet in, Janet *out, JanetSignal sig) {
    g_cancel_calls++;
    __CPROVER_assert(sig == JANET_SIGNAL_ERROR, "vm.step: cancel delivers the value as an error");
    return vs_child_runs(fiber, in, out);
}
void vs_collect_stub(void) { g_collect_calls++; }

static Janet vs_old[VS_SLOTS];
static uint32_t vs_a, vs_b, vs_c;

/* the opcode byte is stored as a constant byte so that instruction dispatch is decided during symbolic execution */
static void vs_put(uint32_t op, uint32_t a, uint32_t b, uint32_t c) {
    uint8_t *p = (uint8_t *) vs_code;
    p[0] = (uint8_t) op; p[1] = (uint8_t) a; p[2] = (uint8_t) b; p[3] = (uint8_t) c;
}

/* a, b, c are CONSTANTS at every call site: the instruction word must be concrete for dispatch to be decided during
 * symbolic execution; the entry points enumerate every aliasing pattern of the three operand registers */
static void vs_setup(uint32_t op, uint32_t a, uint32_t b, uint32_t c) {
    vs_a = a; vs_b = b; vs_c = c;
    vs_code[0] = op | (a << 8) | (b << 16) | (c << 24);
    vs_code[1] = 0x80 | JOP_NOOP;
    vs_def.bytecode = vs_code;
    vs_def.bytecode_length = 2;
    vs_def.slotcount = VS_SLOTS;
    vs_func.def = &vs_def;
    vs_fiber.data = vs_data;
    vs_fiber.capacity = VS_CAP;
    vs_fiber.frame = JANET_FRAME_SIZE;
    vs_fiber.stackstart = JANET_FRAME_SIZE + VS_SLOTS + JANET_FRAME_SIZE;
    vs_fiber.stacktop = vs_fiber.stackstart;
    vs_fiber.maxstack = 1000;
    vs_fiber.child = (JanetFiber *)0;
    /* concrete: the breakpoint bit decides the first dispatch (vm.c: first_opcode) and must not be symbolic */
    vs_fiber.flags = JANET_FIBER_RESUME_NO_USEVAL | JANET_FIBER_RESUME_NO_SKIP | VS_PARENT_MASK;
    vs_fiber.gc.flags = JANET_MEMORY_FIBER | (JANET_STATUS_ALIVE << JANET_FIBER_STATUS_OFFSET);
    JanetStackFrame *fr = &vs_mem.fr;
    fr->func = &vs_func;
    fr->pc = vs_code;
    fr->env = (JanetFuncEnv *)0;
    fr->prevframe = 0;
    fr->flags = JANET_STACKFRAME_ENTRANCE;
    for (int i = 0; i < VS_SLOTS; i++) {
        vs_mem.slots[i].type = (JanetType) nd_int();
        __CPROVER_assume(vs_mem.slots[i].type >= JANET_NUMBER && vs_mem.slots[i].type <= JANET_POINTER);
        vs_mem.slots[i].as.u64 = nd_u64();
        /* a slot typed as a fiber holds the one child fiber of this harness */
        if (vs_mem.slots[i].type == JANET_FIBER) vs_mem.slots[i].as.pointer = &vs_child;
        vs_old[i] = vs_mem.slots[i];
    }
    /* any mask, any resume flags, any of the 16 statuses */
    vs_child.flags = nd_u32();
    __CPROVER_assume(((vs_child.flags & JANET_FIBER_STATUS_MASK) >> JANET_FIBER_STATUS_OFFSET) <= JANET_STATUS_NEW);
    vs_child.gc.flags = JANET_MEMORY_FIBER;
    vs_child.child = (JanetFiber *)0;
    janet_vm.auto_suspend = nd_int();
    janet_vm.next_collection = nd_size();
    janet_vm.gc_interval = nd_size();
    janet_vm.fiber = &vs_fiber;
    janet_vm.return_reg = &vs_ret;
    g_cont_calls = g_cancel_calls = g_check_calls = g_collect_calls = 0;
}

static void vs_frame_intact(void) {
    JanetStackFrame *fr = &vs_mem.fr;
    __CPROVER_assert(fr->func == &vs_func && fr->prevframe == 0 && fr->env == (JanetFuncEnv *)0, "vm.step: the frame header is untouched");
    __CPROVER_assert(vs_fiber.frame == JANET_FRAME_SIZE && vs_fiber.data == vs_data, "vm.step: the fiber keeps its frame");
}

/* slots other than `except` keep their values */
static void vs_others_kept(uint32_t except) {
    uint32_t k = nd_u32();
    __CPROVER_assume(k < VS_SLOTS && k != except);
    __CPROVER_assert(same(vs_mem.slots[k], vs_old[k]), "vm.step: every other slot keeps its value");
}

/* ---- JOP_RESUME / JOP_CANCEL ---- */
#ifdef VS_CANCEL
#define cancel 1
#define VS_OP JOP_CANCEL
#else
#define cancel 0
#define VS_OP JOP_RESUME
#endif
static void vs_resume_like(uint32_t a, uint32_t b, uint32_t c) {
    vs_setup(VS_OP, a, b, c);
    Janet in; in.type = JANET_NIL; in.as.u64 = 0;
    JanetSignal sig = run_vm(&vs_fiber, in);
    int calls = cancel ? g_cancel_calls : g_cont_calls;
    __CPROVER_assert((cancel ? g_cont_calls : g_cancel_calls) == 0, "vm.step: only the requested kind of continuation runs");
    __CPROVER_assert(calls <= 1, "vm.step: the child is continued at most once");
    vs_frame_intact();
#ifdef VS_CANCEL
    __CPROVER_assert(calls == 1, "vm.step: a cancel instruction that returns has run the child");
#else
    if (calls == 0) {
        /* interrupted before the instruction started: nothing happened */
        __CPROVER_assert(sig == JANET_SIGNAL_INTERRUPT && janet_vm.auto_suspend, "vm.step: without running the child the only normal return is the auto-suspend interrupt");
        __CPROVER_assert(vs_fiber.child == (JanetFiber *)0, "vm.step: no child is chained when the child did not run");
        vs_others_kept(VS_SLOTS);
        REACH("vm.step resume: interrupt return");
        return;
    }
#endif
    __CPROVER_assert(g_check_calls == 1 && g_check_ret == 0 && g_check_cancel_arg == cancel, "vm.step: the child runs only after the eligibility check said yes");
    __CPROVER_assert(vs_old[vs_b].type == JANET_FIBER && g_cont_fiber == &vs_child, "vm.step: the fiber operand is the fiber that is continued");
    __CPROVER_assert(same(g_cont_in, vs_old[vs_c]), "vm.step: the value passed to the child is the value operand, unchanged");
    __CPROVER_assert(g_child_at_call == &vs_child, "vm.step: the child is chained to its parent while it runs");
    int trapped = (g_cont_sig == JANET_SIGNAL_OK) || (vs_child.flags & (1u << g_cont_sig));
    if (!trapped) {
        /* the signal is not for this level: it is passed on unchanged to the enclosing fiber, child stays chained */
        __CPROVER_assert(sig == g_cont_sig, "vm.step: a signal the child's mask does not accept leaves this fiber with the same signal number");
        __CPROVER_assert(same(janet_vm.return_reg[0], g_cont_out), "vm.step: a signal passed on carries the child's value unchanged");
        __CPROVER_assert(vs_fiber.child == &vs_child, "vm.step: the child stays chained while its signal travels outwards");
        __CPROVER_assert(vs_mem.fr.pc == vs_code, "vm.step: the frame is committed at the resuming instruction");
        vs_others_kept(VS_SLOTS);
        REACH("vm.step resume: signal passed on");
        return;
    }
    /* delivered here and to no other: execution continues with the next instruction */
    __CPROVER_assert(sig == JANET_SIGNAL_DEBUG, "vm.step: a trapped signal does not leave this fiber");
    __CPROVER_assert(same(vs_mem.slots[vs_a], g_cont_out), "vm.step: the value from the child arrives unchanged in the destination slot");
    __CPROVER_assert(vs_fiber.child == (JanetFiber *)0, "vm.step: the child is unchained once its signal was delivered here");
    __CPROVER_assert(vs_mem.fr.pc == vs_code + 1, "vm.step: execution continues at the next instruction");
    vs_others_kept(vs_a);
    REACH("vm.step resume: delivered here");
}
/* every aliasing pattern of (destination, fiber, value) registers */
#define VS_PATTERNS(CALL) do { int k = nd_int(); \
    if (k == 0) { CALL(0, 1, 2); } else if (k == 1) { CALL(1, 1, 2); } else if (k == 2) { CALL(2, 1, 2); } \
    else if (k == 3) { CALL(0, 1, 1); } else if (k == 4) { CALL(1, 1, 1); } else { CALL(3, 0, 2); } } while (0)
void h_vm_resume(void) { VS_PATTERNS(vs_resume_like); }
#undef cancel

/* ---- JOP_SIGNAL ---- */
static void vs_signal(uint32_t a, uint32_t b, uint32_t c) {
    vs_setup(JOP_SIGNAL, a, b, 0);
    /* C is the signal number operand here (a signed byte) */
    vs_code[0] = JOP_SIGNAL | (a << 8) | (b << 16) | (c << 24);
    Janet in; in.type = JANET_NIL; in.as.u64 = 0;
    JanetSignal sig = run_vm(&vs_fiber, in);
    vs_frame_intact();
    __CPROVER_assert(sig >= JANET_SIGNAL_OK && sig <= JANET_SIGNAL_USER9, "vm.step: signal raises a valid signal number");
    __CPROVER_assert(c > JANET_SIGNAL_USER9 || (int) sig == (int) c, "vm.step: signal raises exactly the requested signal");
    __CPROVER_assert(c <= JANET_SIGNAL_USER9 || c >= 128 || sig == JANET_SIGNAL_USER9, "vm.step: a too large signal number is clamped to the last user signal");
    __CPROVER_assert(same(janet_vm.return_reg[0], vs_old[vs_b]), "vm.step: the signalled value leaves unchanged");
    __CPROVER_assert(vs_mem.fr.pc == vs_code, "vm.step: the frame is committed at the signalling instruction");
    __CPROVER_assert(vs_fiber.child == (JanetFiber *)0, "vm.step: signal chains no child");
    vs_others_kept(VS_SLOTS);
    REACH("vm.step signal");
}
#define VS_SIG(c) do { vs_signal(0, 1, c); } while (0)
void h_vm_signal(void) {
    int k = nd_int();
    if (k == 0) VS_SIG(0); else if (k == 1) VS_SIG(1); else if (k == 2) VS_SIG(2); else if (k == 3) VS_SIG(3); else if (k == 4) VS_SIG(4);
    else if (k == 5) VS_SIG(5); else if (k == 6) VS_SIG(13); else if (k == 7) VS_SIG(14); else if (k == 8) VS_SIG(15); else if (k == 9) VS_SIG(127);
    else if (k == 10) vs_signal(1, 1, 1); else vs_signal(2, 0, 9);
}

/* ---- JOP_PROPAGATE ---- */
static void vs_propagate(uint32_t a, uint32_t b, uint32_t c) {
    vs_setup(JOP_PROPAGATE, a, b, c);
    uint32_t child_fl = vs_child.flags;
    Janet in; in.type = JANET_NIL; in.as.u64 = 0;
    JanetSignal sig = run_vm(&vs_fiber, in);
    vs_frame_intact();
    JanetFiberStatus st = (JanetFiberStatus)((child_fl & JANET_FIBER_STATUS_MASK) >> JANET_FIBER_STATUS_OFFSET);
    __CPROVER_assert(vs_old[vs_c].type == JANET_FIBER, "vm.step: propagate needs a fiber operand");
    __CPROVER_assert(st <= JANET_STATUS_USER9, "vm.step: only a fiber stopped by a signal can be propagated");
    __CPROVER_assert((int) sig == (int) st, "vm.step: propagate re-raises exactly the signal the fiber stopped with");
    __CPROVER_assert(same(janet_vm.return_reg[0], vs_old[vs_b]), "vm.step: the propagated value leaves unchanged");
    __CPROVER_assert(vs_fiber.child == &vs_child, "vm.step: the propagated fiber is chained as the child");
    __CPROVER_assert(vs_child.flags == child_fl && vs_child.gc.flags == JANET_MEMORY_FIBER, "vm.step: propagate does not change the child's status");
    __CPROVER_assert(vs_mem.fr.pc == vs_code, "vm.step: the frame is committed at the propagating instruction");
    vs_others_kept(VS_SLOTS);
    REACH("vm.step propagate");
}
void h_vm_propagate(void) { VS_PATTERNS(vs_propagate); }

