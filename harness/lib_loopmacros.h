/* macros usable inside the loop-contract clauses of gen_C17_lib.py (the loop-contract file is parsed without cpp; the
 * driver expands it with gcc -E against this header, unit key loop_macros). Keep in sync with lib_string.c / lib_seq.c. */
#define SLOT_INT(argv, n) ((signed int)((signed long)((argv)[n].u64 & 0xFFFFFFFFul) - (((argv)[n].u64 & 0x80000000ul) ? 0x100000000l : 0l)))
#define UPPER(c) ((unsigned char)(((c) >= 97 && (c) <= 122) ? (c) - 32 : (c)))
#define LOWER(c) ((unsigned char)(((c) >= 65 && (c) <= 90) ? (c) + 32 : (c)))
#define NIL_BITS 0xFFF8800000000001ul
#define IS_WS(c) ((c) == ' ' || (c) == '\t' || (c) == '\r' || (c) == '\n' || (c) == '\v' || (c) == '\f')
#define INSET(c) (g_argc >= 2 ? g_inset[(unsigned char)(c)] != 0 : IS_WS(c))
