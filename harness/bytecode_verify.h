/* spec macros shared by the janet_verify contract and its loop invariant (expanded by gcc -E for the loop-contract file) */
#ifdef VC_LOOP_MACROS_ONLY
#define int32_t int
#define uint32_t unsigned int
/* the loop-contract parser does not know enum constants: const ghost globals (defined in bytecode_verify.c from the real enum) stand in */
#define JOP_INSTRUCTION_COUNT g_JOP_INSTRUCTION_COUNT
#define JINT_0 g_JINT_0
#define JINT_S g_JINT_S
#define JINT_L g_JINT_L
#define JINT_SS g_JINT_SS
#define JINT_SL g_JINT_SL
#define JINT_ST g_JINT_ST
#define JINT_SI g_JINT_SI
#define JINT_SD g_JINT_SD
#define JINT_SU g_JINT_SU
#define JINT_SSS g_JINT_SSS
#define JINT_SSI g_JINT_SSI
#define JINT_SSU g_JINT_SSU
#define JINT_SES g_JINT_SES
#define JINT_SC g_JINT_SC
#endif
#define OPK(instr) (janet_instructions[(instr) & 0x7F])
#define SLOT_A(instr) ((int32_t)(((instr) >> 8) & 0xFF))
#define SLOT_B(instr) ((int32_t)(((instr) >> 16) & 0xFF))
#define SLOT_C(instr) ((int32_t)(((instr) >> 24) & 0xFF))
#define SLOT_D(instr) ((int32_t)((instr) >> 8))
#define SLOT_E(instr) ((int32_t)((instr) >> 16))
#define JDEST_L(instr, i) ((i) + (((int32_t)(instr)) >> 8))
#define JDEST_SL(instr, i) ((i) + (((int32_t)(instr)) >> 16))
/* every operand the interpreter will index with is in range (taken from the property: "slot/constant/closure/environment indices, jump targets") */
#define INSTR_OK(def, instr, i) ( \
  (((instr) & 0x7F) < JOP_INSTRUCTION_COUNT) && \
  (OPK(instr) == JINT_0 || \
  (OPK(instr) == JINT_S && SLOT_D(instr) < (def)->slotcount) || \
  ((OPK(instr) == JINT_SI || OPK(instr) == JINT_SU || OPK(instr) == JINT_ST) && SLOT_A(instr) < (def)->slotcount) || \
  (OPK(instr) == JINT_L && JDEST_L(instr, i) >= 0 && JDEST_L(instr, i) < (def)->bytecode_length) || \
  (OPK(instr) == JINT_SS && SLOT_A(instr) < (def)->slotcount && SLOT_E(instr) < (def)->slotcount) || \
  ((OPK(instr) == JINT_SSI || OPK(instr) == JINT_SSU) && SLOT_A(instr) < (def)->slotcount && SLOT_B(instr) < (def)->slotcount) || \
  (OPK(instr) == JINT_SL && SLOT_A(instr) < (def)->slotcount && JDEST_SL(instr, i) >= 0 && JDEST_SL(instr, i) < (def)->bytecode_length) || \
  (OPK(instr) == JINT_SSS && SLOT_A(instr) < (def)->slotcount && SLOT_B(instr) < (def)->slotcount && SLOT_C(instr) < (def)->slotcount) || \
  (OPK(instr) == JINT_SD && SLOT_A(instr) < (def)->slotcount && SLOT_E(instr) < (def)->defs_length) || \
  (OPK(instr) == JINT_SC && SLOT_A(instr) < (def)->slotcount && SLOT_E(instr) < (def)->constants_length) || \
  (OPK(instr) == JINT_SES && SLOT_A(instr) < (def)->slotcount && SLOT_B(instr) < (def)->environments_length)))
