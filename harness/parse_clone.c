/* C11: "cloning the parser mid-stream and continuing on the clone gives the same results and the same line/column positions":
 * janet_parser_clone yields a parser that is field-wise equal to the source in EVERY scalar field of struct JanetParser and
 * byte-wise equal (ghost byte index g_b, hence element-wise equal) in the live prefix of each of the three owned stacks
 * buf[0..bufcount), args[0..argcount), states[0..statecount); it owns its storage (deep copy) and the source is outside the frame.
 * Field list cross-check: the contract names every field; a changed struct size makes the _Static_assert fail (tool error, exit 2). */
#include "prelude.h"

#define PARSER_FIELDS_SIZE ( \
  sizeof(((JanetParser *)0)->args) + sizeof(((JanetParser *)0)->error) + sizeof(((JanetParser *)0)->states) + sizeof(((JanetParser *)0)->buf) + \
  sizeof(((JanetParser *)0)->argcount) + sizeof(((JanetParser *)0)->argcap) + sizeof(((JanetParser *)0)->statecount) + sizeof(((JanetParser *)0)->statecap) + \
  sizeof(((JanetParser *)0)->bufcount) + sizeof(((JanetParser *)0)->bufcap) + sizeof(((JanetParser *)0)->line) + sizeof(((JanetParser *)0)->column) + \
  sizeof(((JanetParser *)0)->pending) + sizeof(((JanetParser *)0)->lookback) + sizeof(((JanetParser *)0)->flag))
_Static_assert(sizeof(JanetParser) == PARSER_FIELDS_SIZE, "contract out of date: struct JanetParser has a field the clone contract does not name");
_Static_assert(sizeof(JanetParseState) == 2 * sizeof(int32_t) + sizeof(int) + 4 /* padding */ + 2 * sizeof(size_t) + sizeof(Consumer),
               "contract out of date: struct JanetParseState changed");

size_t g_b;   /* ghost byte offset, unconstrained */

/* assumed contract of memcpy (DESIGN R10, element-ghost strength): safety + the byte at the ghost offset is copied */
void *memcpy_c(void *d, const void *s, size_t n)
__CPROVER_requires(__CPROVER_w_ok(d, n) && __CPROVER_r_ok(s, n))
__CPROVER_assigns(__CPROVER_object_upto(d, n))
__CPROVER_ensures(g_b < n ==> ((const uint8_t *) d)[g_b] == ((const uint8_t *) s)[g_b])
__CPROVER_ensures(__CPROVER_return_value == d)
;

#define CAP_MAX ((size_t) 0x3ffffff)
/* representation invariant of a parser (from DEF_PARSER_STACK / janet_parser_init / janet_parser_clone itself) */
#define WF_COUNTS(p) ((p)->bufcount <= (p)->bufcap && (p)->argcount <= (p)->argcap && (p)->statecount <= (p)->statecap && \
                      (p)->bufcap <= CAP_MAX && (p)->argcap <= CAP_MAX && (p)->statecap <= CAP_MAX)

void janet_parser_clone_c(const JanetParser *src, JanetParser *dest)
__CPROVER_requires(__CPROVER_is_fresh(src, sizeof(*src)))
__CPROVER_requires(__CPROVER_is_fresh(dest, sizeof(*dest)))
__CPROVER_requires(WF_COUNTS(src))
__CPROVER_requires(src->bufcap > 0 ==> __CPROVER_is_fresh(src->buf, src->bufcap))
__CPROVER_requires(src->argcap > 0 ==> __CPROVER_is_fresh(src->args, src->argcap * sizeof(Janet)))
__CPROVER_requires(src->statecap > 0 ==> __CPROVER_is_fresh(src->states, src->statecap * sizeof(JanetParseState)))
__CPROVER_assigns(*dest)
/* every scalar field */
__CPROVER_ensures(dest->flag == src->flag)
__CPROVER_ensures(dest->pending == src->pending)
__CPROVER_ensures(dest->lookback == src->lookback)
__CPROVER_ensures(dest->line == src->line)
__CPROVER_ensures(dest->column == src->column)
__CPROVER_ensures(dest->error == src->error)
__CPROVER_ensures(dest->argcount == src->argcount)
__CPROVER_ensures(dest->bufcount == src->bufcount)
__CPROVER_ensures(dest->statecount == src->statecount)
/* the clone is well formed: capacities cover the counts */
__CPROVER_ensures(dest->bufcap >= dest->bufcount && dest->argcap >= dest->argcount && dest->statecap >= dest->statecount)
/* element-wise (byte ghost) equality of the live prefixes */
__CPROVER_ensures(g_b < src->bufcount ==> dest->buf[g_b] == src->buf[g_b])
__CPROVER_ensures(g_b < src->argcount * sizeof(Janet) ==> ((const uint8_t *) dest->args)[g_b] == ((const uint8_t *) src->args)[g_b])
__CPROVER_ensures(g_b < src->statecount * sizeof(JanetParseState) ==> ((const uint8_t *) dest->states)[g_b] == ((const uint8_t *) src->states)[g_b])
/* deep copy: own storage of sufficient size (or no storage when empty) */
__CPROVER_ensures(src->bufcount > 0 ==> (!__CPROVER_same_object(dest->buf, src->buf) && __CPROVER_rw_ok(dest->buf, dest->bufcap)))
__CPROVER_ensures(src->argcount > 0 ==> (!__CPROVER_same_object(dest->args, src->args) && __CPROVER_rw_ok(dest->args, dest->argcap * sizeof(Janet))))
__CPROVER_ensures(src->statecount > 0 ==> (!__CPROVER_same_object(dest->states, src->states) && __CPROVER_rw_ok(dest->states, dest->statecap * sizeof(JanetParseState))))
__CPROVER_ensures(src->bufcount == 0 ==> dest->buf == (uint8_t *) 0)
__CPROVER_ensures(src->argcount == 0 ==> dest->args == (Janet *) 0)
__CPROVER_ensures(src->statecount == 0 ==> dest->states == (JanetParseState *) 0)
;

void h_clone(void) {
  const JanetParser *s; JanetParser *d;
  janet_parser_clone(s, d);
  REACH("normal return of janet_parser_clone");
}
