/* C19 / C03: the explicit traversal stack that janet_equals / janet_compare use instead of recursion (value.c
 * push_traversal_node). Representation invariant: no stack yet (base == NULL), or base <= traversal < top with the
 * entries base+1 .. traversal in use. A push must grow the block BEFORE writing when the next slot would be `top`,
 * keep every older entry, and leave the invariant intact - so comparing values nested deeper than the initial 128
 * levels cannot write outside the block. Bounded: the interesting fill levels (empty stack, one free slot, full) are
 * enumerated so that the reallocation has a constant size. */
#include "prelude.h"
#include <stdlib.h>
static void tv_case(int have, int32_t used) {
  JanetTraversalNode old_last; int has_old = 0;
  if (!have) { janet_vm.traversal_base = janet_vm.traversal = janet_vm.traversal_top = (JanetTraversalNode *)0; }
  else {
    JanetTraversalNode *b = malloc(128 * sizeof(JanetTraversalNode)); __CPROVER_assume(b != 0);
    janet_vm.traversal_base = b; janet_vm.traversal_top = b + 128; janet_vm.traversal = b + used;
    if (used >= 1) { b[used].self = (JanetGCObject *) nd_ptr(); b[used].other = (JanetGCObject *) nd_ptr(); b[used].index = nd_i32(); b[used].index2 = nd_i32(); old_last = b[used]; has_old = 1; }
  }
  void *l = nd_ptr(), *r = nd_ptr(); int32_t i2 = nd_i32();
  push_traversal_node(l, r, i2);
  JanetTraversalNode *b = janet_vm.traversal_base, *t = janet_vm.traversal, *top = janet_vm.traversal_top;
  __CPROVER_assert(b != (JanetTraversalNode *)0 && b < t && t < top, "val.traversal: after a push the stack block exists and the top entry lies inside it");
  __CPROVER_assert(t - b == (have ? used : 0) + 1, "val.traversal: the stack is exactly one entry deeper");
  __CPROVER_assert(t->self == (JanetGCObject *) l && t->other == (JanetGCObject *) r && t->index == 0 && t->index2 == i2, "val.traversal: the new entry holds the pair to compare, starting at element 0");
  if (has_old) __CPROVER_assert(t[-1].self == old_last.self && t[-1].other == old_last.other && t[-1].index == old_last.index && t[-1].index2 == old_last.index2, "val.traversal: older entries survive the push (also across a reallocation)");
  if (have && used == 127) REACH("traversal: grows when full");
  REACH("traversal push returns");
}
void h_push_traversal(void) {
  int k = nd_int();
  if (k == 0) tv_case(0, 0); else if (k == 1) tv_case(1, 0); else if (k == 2) tv_case(1, 1); else if (k == 3) tv_case(1, 126); else tv_case(1, 127);
}
