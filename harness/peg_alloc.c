/* C10: peg_unmarshal sizes its single allocation from two untrusted counts. Contract of the allocation call: the block
 * requested is large enough for the header, `bytecode_len` words and `num_constants` values - computed here in 128-bit
 * arithmetic, for EVERY 64-bit bytecode length and 32-bit constant count delivered by the input. */
#include "prelude.h"
uint64_t g_blen; uint32_t g_nconst; int g_ints;
size_t um_size_stub(JanetMarshalContext *ctx) { return (size_t) g_blen; }
int32_t um_int_stub(JanetMarshalContext *ctx) { return (int32_t) g_nconst; }
void um_ensure_stub(JanetMarshalContext *ctx, size_t size) { /* returns only if size + 1 bytes of input remain: inputs are at most 2^31 bytes */ __CPROVER_assume(size < 0x7fffffffu); }
void *um_abstract_stub(JanetMarshalContext *ctx, size_t size) {
  unsigned __int128 need = (unsigned __int128) sizeof(JanetPeg) + (unsigned __int128) g_blen * 4 + (unsigned __int128) g_nconst * sizeof(Janet);
  __CPROVER_assert((unsigned __int128) size >= need, "C10 peg loader: the block allocated for an unmarshalled PEG is large enough for the bytecode words and constants it is about to store (no wrap-around in the size computation)");
  REACH("allocation requested");
  __CPROVER_assume(0);
  return 0;
}
void h_peg_alloc(void) { JanetMarshalContext ctx; g_blen = nd_u64(); g_nconst = nd_u32(); peg_unmarshal(&ctx); }
