/* C10: the REAL bytecode verifier (janet_verify, bytecode.c) tied to the REAL interpreter (run_vm, vm.c), per opcode.
 *
 * For one opcode (-DVV_OP=JOP_x, its operand shape -DVV_SHAPE=n) the harness enumerates the boundary instruction words:
 * every operand field at the largest value the shape admits and at the first value outside (registers: slotcount-1 and
 * slotcount; constant / definition / environment indices: length-1 and length; jump offsets: first and last instruction
 * and one outside on each side; immediates and unchecked bits: all ones / sign bit).  Each word is put into a function
 * definition    code = [RETURN_NIL, W, RETURN_NIL, RETURN_NIL],  slotcount 3, 2 constants, 2 nested definitions, 2 environments
 * and the REAL janet_verify is run on that definition.
 *   - a word with a field outside must be refused (assert verify != 0);
 *   - a word inside must be accepted, and is then executed by the REAL run_vm, single-stepped as in vm_step.c (every word
 *     other than W gets the breakpoint bit after verification, as debug/break does), on a stack block that has EXACTLY
 *     JANET_FRAME_SIZE + slotcount cells, with constants / defs / envs vectors of EXACTLY the declared lengths.
 *     CBMC's bounds and pointer checks inside run_vm are therefore the obligation "W touches only its frame, the
 *     declared vectors and the bytecode".
 * Slot contents are symbolic over the value kinds the bodies do not dereference inline (number, nil, boolean) plus valid
 * objects where a body needs one (a fiber for resume/cancel/propagate, a C function and a Janet function for call/tailcall).
 *
 * Resume units (-DVV_RESUME=1): the same words, but the frame is SUSPENDED at W and the fiber is resumed with a value the
 * way janet_continue enters run_vm for a pending fiber (no RESUME_NO_USEVAL / RESUME_NO_SKIP): the value is stored into
 * register A of W and execution goes on after W.  Such a frame comes out of unmarshal (which only checks that the program
 * counter is inside the bytecode), so "having passed verification ... can be resumed" must hold for every accepted W.
 * It does NOT hold on the pinned tree for shapes without a leading slot (NOOP, RETURN_NIL: any operand bits are accepted;
 * JUMP: the offset overlays register A) nor for a frame suspended at the last instruction (pc + 1 leaves the bytecode):
 * units vmv.resume.noop / return_nil / jump / return_nil.last fail and are generated disabled, with the Janet-level
 * reproducer (marshal a suspended fiber, patch pc / one instruction word, unmarshal, resume) in their disabled_reason.
 * All callees that leave the interpreter loop are stubs (their own memory safety is the subject of other units). */
#include "prelude.h"

#define VV_S 3        /* slotcount */
#define VV_NC 2       /* constants_length */
#define VV_ND 2       /* defs_length */
#define VV_NE 2       /* environments_length */
#define VV_ENVLEN 3   /* length of each captured environment */
#define VV_NCODE 4
#ifndef VV_I
#define VV_I 1        /* index of the instruction under proof */
#endif
#ifndef VV_RESUME
#define VV_RESUME 0
#endif
/* single-step units: the bytecode object has EXACTLY bytecode_length words.  Resume units (VV_RESUME): one guard word
 * (a breakpoint) follows the bytecode, standing for whatever memory follows it, so that running off the end is reported by
 * the "program counter inside the bytecode" obligation instead of making instruction dispatch symbolic */
static uint32_t vv_code[VV_NCODE + VV_RESUME];
static JanetFuncDef vv_def;
static JanetFunction *vv_func;
/* EXACTLY one frame header + slotcount cells */
static struct { JanetStackFrame fr; char pad[JANET_FRAME_SIZE * sizeof(Janet) - sizeof(JanetStackFrame)]; Janet slots[VV_S]; } vv_mem;
#define vv_data ((Janet *) &vv_mem)
static JanetFiber vv_fiber, vv_child, vv_efiber;
static Janet vv_consts[VV_NC];
static JanetFuncDef *vv_defs[VV_ND];
static JanetFuncDef vv_nested_def;
static int32_t vv_nested_envs[2];
static JanetFuncEnv vv_env[VV_NE];
static Janet vv_edata[1 + VV_ENVLEN];
static uint32_t vv_callee_code[1];
static JanetFuncDef vv_callee_def;
static JanetFunction vv_callee;
static Janet vv_ret;

static Janet vv_number(void) { Janet x; x.type = JANET_NUMBER; x.as.u64 = nd_u64(); return x; }
/* a C function a slot may hold (never a stub: its address is taken) */
Janet vv_cfun(int32_t argc, Janet *argv) { (void) argc; (void) argv; return vv_number(); }

/* ---------------- stubs: callees that leave the interpreter loop ---------------- */
Janet vv_binop_call_stub(const char *lmethod, const char *rmethod, Janet lhs, Janet rhs) { return vv_number(); }
Janet vv_mcall_stub(const char *name, int32_t argc, Janet *argv) { return vv_number(); }
Janet vv_unary_call_stub(const char *method, Janet arg) { return vv_number(); }
JanetSignal vv_check_can_resume_stub(JanetFiber *fiber, Janet *out, int is_cancel) {
    int r = nd_int();
    if (r) *out = vv_number();
    return (JanetSignal) r;
}
static JanetSignal vv_child_runs(Janet *out) {
    JanetSignal s = (JanetSignal) nd_int();
    __CPROVER_assume(s >= JANET_SIGNAL_OK && s <= JANET_SIGNAL_USER9);
    *out = vv_number();
    return s;
}
JanetSignal vv_continue_no_check_stub(JanetFiber *fiber, Janet in, Janet *out) { return vv_child_runs(out); }
JanetSignal vv_continue_signal_stub(JanetFiber *fiber, Janet in, Janet *out, JanetSignal sig) { return vv_child_runs(out); }
/* objects whose memory the opcode bodies write themselves */
static JanetTupleHead *vv_tuple_head;
JanetTuple vv_tuple_n_stub(const Janet *values, int32_t n) { return vv_tuple_head->data; }
static JanetFuncEnv vv_new_env;
void *vv_gcalloc_stub(enum JanetMemoryType type, size_t size) {
    if (type == JANET_MEMORY_FUNCTION) {
        /* exactly the requested size */
        void *p = malloc(size);
        __CPROVER_assume(p != (void *)0);
        return p;
    }
    return &vv_new_env;
}

/* a value of a kind the opcode bodies may meet without dereferencing foreign memory */
static Janet vv_val(void) {
    Janet x;
    int t = nd_int();
    x.as.u64 = nd_u64();
    if (t == 0) { x.type = JANET_NUMBER; }
    else if (t == 1) { x.type = JANET_NIL; x.as.u64 = 0; }
    else if (t == 2) { x.type = JANET_BOOLEAN; x.as.u64 &= 1; }
    else if (t == 3) { x.type = JANET_FIBER; x.as.u64 = 0; x.as.pointer = &vv_child; }
    else if (t == 4) { x.type = JANET_CFUNCTION; x.as.u64 = 0; x.as.pointer = (void *) vv_cfun; }
    else { x.type = JANET_FUNCTION; x.as.u64 = 0; x.as.pointer = &vv_callee; }
    return x;
}

/* pin: 0 = slots symbolic; 1 = every slot nil; 2 = every slot a number; 3 = every slot a C function; 4 = every slot a Janet
 * function (for the conditional jumps and the calls, where the KIND of a slot decides the next program counter: it must be
 * concrete or instruction dispatch becomes symbolic; payloads stay symbolic).  resume: 0 = single-step entry; 1 = the fiber is resumed with a value */
static void vv_case(uint32_t word, int accept, int pin, int resume) {
    for (int i = 0; i < VV_NCODE; i++) vv_code[i] = JOP_RETURN_NIL;
    vv_code[VV_I] = word;
    /* the definition, as unmarshal / asm hand it to the verifier */
    vv_def.flags = 0;
    vv_def.arity = 0; vv_def.min_arity = 0; vv_def.max_arity = 0;
    vv_def.bytecode = vv_code; vv_def.bytecode_length = VV_NCODE;
    vv_def.slotcount = VV_S;
    vv_def.constants = vv_consts; vv_def.constants_length = VV_NC;
    vv_def.defs = vv_defs; vv_def.defs_length = VV_ND;
    vv_def.environments_length = VV_NE;
    int v = janet_verify(&vv_def);
    if (!accept) {
        __CPROVER_assert(v != 0, "vmv: a word with an operand outside the definition is refused by the verifier");
        return;
    }
    __CPROVER_assert(v == 0, "vmv: a word with every operand inside the definition is accepted by the verifier");
    __CPROVER_assume(v == 0);
    /* breakpoints on every other word (debug/break after verification) */
    for (int i = 0; i < VV_NCODE; i++) if (i != VV_I) vv_code[i] |= 0x80;
#if VV_RESUME
    vv_code[VV_NCODE] = 0x80 | JOP_NOOP;
#endif

    for (int i = 0; i < VV_NC; i++) vv_consts[i] = vv_val();
    vv_nested_envs[0] = -1; vv_nested_envs[1] = 1;
    vv_nested_def.environments = vv_nested_envs; vv_nested_def.environments_length = 2;
    vv_defs[0] = &vv_nested_def; vv_defs[1] = &vv_nested_def;
    /* the running function: EXACTLY environments_length environment pointers */
    JanetFunction *f = malloc(sizeof(JanetFunction) + VV_NE * sizeof(JanetFuncEnv *));
    __CPROVER_assume(f != (JanetFunction *)0);
    f->gc.flags = JANET_MEMORY_FUNCTION;
    f->def = &vv_def;
    vv_efiber.data = vv_edata; vv_efiber.capacity = 1 + VV_ENVLEN; vv_efiber.frame = 1;
    for (int i = 0; i < 1 + VV_ENVLEN; i++) vv_edata[i] = vv_val();
    for (int i = 0; i < VV_NE; i++) {
        /* open environments on another fiber's stack (closed ones: see the CBMC limitation noted in vm_ops.c) */
        vv_env[i].offset = 1; vv_env[i].length = VV_ENVLEN; vv_env[i].as.fiber = &vv_efiber;
        f->envs[i] = &vv_env[i];
    }
    vv_func = f;
    /* callee for CALL / TAILCALL of a Janet function: stops at once */
    vv_callee_code[0] = 0x80 | JOP_NOOP;
    vv_callee_def.bytecode = vv_callee_code; vv_callee_def.bytecode_length = 1; vv_callee_def.slotcount = 0;
    vv_callee.def = &vv_callee_def; vv_callee.gc.flags = JANET_MEMORY_FUNCTION;
    vv_tuple_head = malloc(sizeof(JanetTupleHead));
    __CPROVER_assume(vv_tuple_head != (JanetTupleHead *)0);
    vv_tuple_head->gc.flags = 0;

    vv_fiber.data = vv_data;
    vv_fiber.capacity = JANET_FRAME_SIZE + VV_S;
    vv_fiber.frame = JANET_FRAME_SIZE;
    /* empty argument area (the fiber primitives that would touch it are stubs) */
    vv_fiber.stackstart = JANET_FRAME_SIZE + VV_S + JANET_FRAME_SIZE;
    vv_fiber.stacktop = vv_fiber.stackstart;
    vv_fiber.maxstack = 1000;
    vv_fiber.child = (JanetFiber *)0;
    vv_fiber.flags = resume ? JANET_FIBER_MASK_ERROR : (JANET_FIBER_RESUME_NO_USEVAL | JANET_FIBER_RESUME_NO_SKIP | JANET_FIBER_MASK_ERROR);
    vv_fiber.gc.flags = JANET_MEMORY_FIBER;
    vv_mem.fr.func = vv_func;
    vv_mem.fr.pc = vv_code + VV_I;
    vv_mem.fr.env = (JanetFuncEnv *)0;
    vv_mem.fr.prevframe = 0;
    vv_mem.fr.flags = JANET_STACKFRAME_ENTRANCE;
    for (int i = 0; i < VV_S; i++) {
        vv_mem.slots[i] = vv_val();
        if (pin == 1) { vv_mem.slots[i].type = JANET_NIL; vv_mem.slots[i].as.u64 = 0; }
        if (pin == 2) { vv_mem.slots[i].type = JANET_NUMBER; }
        if (pin == 3) { vv_mem.slots[i].type = JANET_CFUNCTION; vv_mem.slots[i].as.u64 = 0; vv_mem.slots[i].as.pointer = (void *) vv_cfun; }
        if (pin == 4) { vv_mem.slots[i].type = JANET_FUNCTION; vv_mem.slots[i].as.u64 = 0; vv_mem.slots[i].as.pointer = &vv_callee; }
    }
    vv_child.flags = nd_u32();
    __CPROVER_assume(((vv_child.flags & JANET_FIBER_STATUS_MASK) >> JANET_FIBER_STATUS_OFFSET) <= JANET_STATUS_NEW);
    vv_child.gc.flags = JANET_MEMORY_FIBER;
    vv_child.child = (JanetFiber *)0;
    janet_vm.auto_suspend = nd_int();
    janet_vm.next_collection = nd_size();
    janet_vm.gc_interval = nd_size();
    janet_vm.fiber = &vv_fiber;
    janet_vm.return_reg = &vv_ret;

    Janet in = vv_number();
    JanetSignal sig = run_vm(&vv_fiber, in);
    /* whatever the instruction did, the interpreter is still inside the function */
    __CPROVER_assert(vv_fiber.data == vv_data, "vmv: the stack block is the fiber's stack");
    __CPROVER_assert(vv_mem.fr.pc == vv_callee_code || (__CPROVER_same_object(vv_mem.fr.pc, vv_code) && __CPROVER_POINTER_OFFSET(vv_mem.fr.pc) < VV_NCODE * sizeof(uint32_t)),
                     "vmv: the program counter stays inside the bytecode (of this function, or at the start of a called function)");
    (void) sig;
    REACH("vmv: an accepted word was executed");
}

#if defined(VV_CALLS)
/* CALL / TAILCALL: callee kinds enumerated: not callable (raises), C function, Janet function */
#define VV_W(word, acc) do { if (k == n) vv_case((uint32_t)(word), (acc), 2, VV_RESUME); n++; if (k == n) vv_case((uint32_t)(word), (acc), 3, VV_RESUME); n++; if (k == n) vv_case((uint32_t)(word), (acc), 4, VV_RESUME); n++; } while (0)
#else
#define VV_W(word, acc) do { if (k == n) vv_case((uint32_t)(word), (acc), 0, VV_RESUME); n++; } while (0)
#endif
/* conditional jumps: once with falsey, once with truthy slots */
#define VV_WJ(word, acc) do { if (k == n) vv_case((uint32_t)(word), (acc), 1, VV_RESUME); n++; if (k == n) vv_case((uint32_t)(word), (acc), 2, VV_RESUME); n++; } while (0)
#define W3(a, b, c) ((uint32_t) VV_OP | ((uint32_t)(a) << 8) | ((uint32_t)(b) << 16) | ((uint32_t)(c) << 24))
#define WE(a, e) ((uint32_t) VV_OP | ((uint32_t)(a) << 8) | (((uint32_t)(e) & 0xFFFFu) << 16))
#define WD(d) ((uint32_t) VV_OP | (((uint32_t)(d) & 0xFFFFFFu) << 8))
#define IN (VV_S - 1)
#define OUT VV_S

/* operand shapes, as in the instruction reference (janet.h JanetInstructionType):
 * 0 none | 1 S slot(24) | 2 L label(24) | 3 SS slot(8) slot(16) | 4 SL slot(8) label(16) | 5 ST slot(8) types(16)
 * 6 SI slot(8) imm(16) | 7 SD slot(8) def(16) | 8 SSS | 9 SSI slot slot imm(8) | 10 SSU | 11 SES slot env(8) far-slot(8) | 12 SC slot(8) constant(16) */
#ifdef VV_SHAPE
void h_vv(void) {
    int k = nd_int(); int n = 0;
#if VV_SHAPE == 0
    VV_W(WD(0), 1); VV_W(WD(0xFFFFFF), 1); VV_W(WD(VV_S), 1); VV_W(W3(0xFF, 0, 0), 1);
#elif VV_SHAPE == 1
    VV_W(WD(0), 1); VV_W(WD(IN), 1);
    VV_W(WD(OUT), 0); VV_W(WD(0x100), 0); VV_W(WD(0x10000 + IN), 0); VV_W(WD(0xFFFFFF), 0);
#elif VV_SHAPE == 2
    VV_W(WD(-1), 1); VV_W(WD(1), 1); VV_W(WD(2), 1);
    VV_W(WD(-2), 0); VV_W(WD(3), 0); VV_W(WD(0x7FFFFF), 0); VV_W(WD(-0x800000), 0);
#elif VV_SHAPE == 3
    VV_W(WE(0, 0), 1); VV_W(WE(IN, IN), 1);
    VV_W(WE(OUT, 0), 0); VV_W(WE(0, OUT), 0); VV_W(WE(0, 0x100), 0); VV_W(WE(0, 0xFFFF), 0); VV_W(WE(0xFF, 0), 0);
#elif VV_SHAPE == 4
    VV_WJ(WE(IN, -1), 1); VV_WJ(WE(0, 2), 1); VV_WJ(WE(IN, 1), 1);
    VV_W(WE(OUT, 1), 0); VV_W(WE(0, -2), 0); VV_W(WE(0, 3), 0); VV_W(WE(0, 0x7FFF), 0); VV_W(WE(0, -0x8000), 0);
#elif VV_SHAPE == 5 || VV_SHAPE == 6
    VV_W(WE(IN, 0xFFFF), 1); VV_W(WE(0, 0x8000), 1); VV_W(WE(IN, OUT), 1); VV_W(WE(0, 0x7FFF), 1); VV_W(WE(0, 1), 1);
    VV_W(WE(OUT, 0), 0); VV_W(WE(0xFF, 0xFFFF), 0);
#elif VV_SHAPE == 7
    VV_W(WE(IN, VV_ND - 1), 1); VV_W(WE(0, 0), 1);
    VV_W(WE(OUT, 0), 0); VV_W(WE(0, VV_ND), 0); VV_W(WE(0, 0x8000), 0); VV_W(WE(0, 0xFFFF), 0);
#elif VV_SHAPE == 8
    VV_W(W3(0, 0, 0), 1); VV_W(W3(IN, IN, IN), 1); VV_W(W3(0, IN, 1), 1);
    VV_W(W3(OUT, 0, 0), 0); VV_W(W3(0, OUT, 0), 0); VV_W(W3(0, 0, OUT), 0); VV_W(W3(0, 0, 0xFF), 0); VV_W(W3(0, 0xFF, 0), 0); VV_W(W3(0xFF, 0, 0), 0);
#elif VV_SHAPE == 9 || VV_SHAPE == 10
    VV_W(W3(IN, IN, 0xFF), 1); VV_W(W3(0, 0, 0x80), 1); VV_W(W3(IN, 0, 0x7F), 1); VV_W(W3(0, IN, OUT), 1); VV_W(W3(0, 0, 0), 1);
    VV_W(W3(OUT, 0, 0), 0); VV_W(W3(0, OUT, 0), 0); VV_W(W3(0xFF, 0, 0), 0); VV_W(W3(0, 0xFF, 0xFF), 0);
#elif VV_SHAPE == 11
    VV_W(W3(IN, VV_NE - 1, VV_ENVLEN - 1), 1); VV_W(W3(0, 0, 0), 1); VV_W(W3(0, VV_NE - 1, VV_ENVLEN), 1); VV_W(W3(IN, 0, 0xFF), 1);
    VV_W(W3(OUT, 0, 0), 0); VV_W(W3(0, VV_NE, 0), 0); VV_W(W3(0, 0xFF, 0), 0);
#elif VV_SHAPE == 12
    VV_W(WE(IN, VV_NC - 1), 1); VV_W(WE(0, 0), 1);
    VV_W(WE(OUT, 0), 0); VV_W(WE(0, VV_NC), 0); VV_W(WE(0, 0x8000), 0); VV_W(WE(0, 0xFFFF), 0);
#endif
}
#endif

/* opcode numbers at and above JOP_INSTRUCTION_COUNT (below the breakpoint bit) are refused, whatever their operands */
#ifdef VV_UNKNOWN
#define VV_OP 0
void h_vv_unknown(void) {
    uint32_t op = nd_u32();
    __CPROVER_assume(op >= JOP_INSTRUCTION_COUNT && op < 0x80);
    uint32_t rest = nd_u32();
    for (int i = 0; i < VV_NCODE; i++) vv_code[i] = JOP_RETURN_NIL;
    uint32_t bp = nd_u32() & 0x80;
    vv_code[VV_I] = op | bp | (rest << 8);
    vv_def.flags = 0; vv_def.arity = 0;
    vv_def.bytecode = vv_code; vv_def.bytecode_length = VV_NCODE; vv_def.slotcount = VV_S;
    vv_def.constants_length = VV_NC; vv_def.defs_length = VV_ND; vv_def.environments_length = VV_NE;
    int v = janet_verify(&vv_def);
    __CPROVER_assert(v != 0, "vmv: an opcode number the interpreter has no body for is refused by the verifier");
    REACH("vmv: unknown opcode checked");
}
#endif
