/* C01 (mechanism level): edge completeness of the mark routines of gc.c.
 *
 * Ghost state + RECORDING CONTRACTS of the callees of the mark routines.  Every mark routine is proved on its own:
 * the routines it calls (janet_mark, janet_mark_<T>, the range walkers janet_mark_many/_keys/_values/_kvs) are replaced
 * by a contract that writes nothing but ghost state and records whether the call was made for the ghost-selected child
 * (resp. for the ghost-selected (walker kind, base, count) triple).  The harness leaves the ghost selectors
 * unconstrained except for "equals the child in field f at ghost index g" - one proof covers every child (DESIGN R2).
 *
 * Included after gc.c by the units of units/C01.json. */
#ifndef VC_GC_MARK_H
#define VC_GC_MARK_H
#include "prelude.h"

#define REACHABLE(p) ((((JanetGCObject *)(p))->flags & JANET_MEM_REACHABLE) != 0)
#define MEMTYPE(p) (((JanetGCObject *)(p))->flags & JANET_MEM_TYPEBITS)

/* ---- range walkers: which walker was handed which (base, count) -------------------------------------------- */
enum { W_MANY = 1, W_KEYS = 2, W_VALUES = 3, W_KVS = 4 };
int g_w_kind; const void *g_w_base; int32_t g_w_n;    /* ghost-selected expectation */
int g_w_seen;                                          /* a call matching the expectation happened */
unsigned g_w_calls;                                    /* number of walker calls of any kind */

#define W_RECORD(kind, base, n) \
  __CPROVER_assigns(g_w_seen, g_w_calls) \
  __CPROVER_ensures(g_w_seen == (__CPROVER_old(g_w_seen) || (g_w_kind == (kind) && (const void *)(base) == g_w_base && (n) == g_w_n))) \
  __CPROVER_ensures(g_w_calls == __CPROVER_old(g_w_calls) + 1u)

static void janet_mark_many_c(const Janet *values, int32_t n) W_RECORD(W_MANY, values, n);
static void janet_mark_keys_c(const JanetKV *kvs, int32_t n) W_RECORD(W_KEYS, kvs, n);
static void janet_mark_values_c(const JanetKV *kvs, int32_t n) W_RECORD(W_VALUES, kvs, n);
static void janet_mark_kvs_c(const JanetKV *kvs, int32_t n) W_RECORD(W_KVS, kvs, n);

/* ---- typed mark routines: was the routine called for the ghost-selected child pointer ------------------------ */
#define P_RECORD(ghost, seen, calls, arg) \
  __CPROVER_assigns(seen, calls) \
  __CPROVER_ensures(seen == (__CPROVER_old(seen) || (const void *)(arg) == (const void *)(ghost))) \
  __CPROVER_ensures(calls == __CPROVER_old(calls) + 1u)

const void *g_env;   int g_env_seen;   unsigned g_env_calls;     /* janet_mark_funcenv */
const void *g_def;   int g_def_seen;   unsigned g_def_calls;     /* janet_mark_funcdef */
const void *g_fn;    int g_fn_seen;    unsigned g_fn_calls;      /* janet_mark_function */
const void *g_str;   int g_str_seen;   unsigned g_str_calls;     /* janet_mark_string */
const void *g_tab;   int g_tab_seen;   unsigned g_tab_calls;     /* janet_mark_table */
const void *g_abs;   int g_abs_seen;   unsigned g_abs_calls;     /* janet_mark_abstract */
const void *g_arr;   int g_arr_seen;   unsigned g_arr_calls;     /* janet_mark_array */
const void *g_stc;   int g_stc_seen;   unsigned g_stc_calls;     /* janet_mark_struct */
const void *g_tup;   int g_tup_seen;   unsigned g_tup_calls;     /* janet_mark_tuple */
const void *g_buf;   int g_buf_seen;   unsigned g_buf_calls;     /* janet_mark_buffer */
const void *g_fib;   int g_fib_seen;   unsigned g_fib_calls;     /* janet_mark_fiber */

static void janet_mark_funcenv_c(JanetFuncEnv *env) P_RECORD(g_env, g_env_seen, g_env_calls, env);
static void janet_mark_funcdef_c(JanetFuncDef *def) P_RECORD(g_def, g_def_seen, g_def_calls, def);
static void janet_mark_function_c(JanetFunction *func) P_RECORD(g_fn, g_fn_seen, g_fn_calls, func);
static void janet_mark_string_c(const uint8_t *str) P_RECORD(g_str, g_str_seen, g_str_calls, str);
static void janet_mark_table_c(JanetTable *table) P_RECORD(g_tab, g_tab_seen, g_tab_calls, table);
static void janet_mark_abstract_c(void *adata) P_RECORD(g_abs, g_abs_seen, g_abs_calls, adata);
static void janet_mark_array_c(JanetArray *array) P_RECORD(g_arr, g_arr_seen, g_arr_calls, array);
static void janet_mark_struct_c(const JanetKV *st) P_RECORD(g_stc, g_stc_seen, g_stc_calls, st);
static void janet_mark_tuple_c(const Janet *tuple) P_RECORD(g_tup, g_tup_seen, g_tup_calls, tuple);
static void janet_mark_buffer_c(JanetBuffer *buffer) P_RECORD(g_buf, g_buf_seen, g_buf_calls, buffer);
static void janet_mark_fiber_c(JanetFiber *fiber) P_RECORD(g_fib, g_fib_seen, g_fib_calls, fiber);

/* ---- janet_mark(Janet): was it called for the ghost-selected VALUE (bit-for-bit the same Janet) -------------- */
#if defined(JANET_NANBOX_64) || defined(JANET_NANBOX_32)
#define JEQ(a, b) ((a).u64 == (b).u64)
#define JCOPY(dst, src) ((dst).u64 = (src).u64)     /* the bit pattern, through the member JEQ compares */
#else
#define JEQ(a, b) ((a).type == (b).type && (a).as.u64 == (b).as.u64)
#define JCOPY(dst, src) ((dst).type = (src).type, (dst).as.u64 = (src).as.u64)
#endif
Janet g_val; int g_val_seen; unsigned g_val_calls;
void janet_mark_c(Janet x)
__CPROVER_assigns(g_val_seen, g_val_calls)
__CPROVER_ensures(g_val_seen == (__CPROVER_old(g_val_seen) || JEQ(x, g_val)))
__CPROVER_ensures(g_val_calls == __CPROVER_old(g_val_calls) + 1u)
;
#endif
