/* C11: symbols and keywords in the %j / jdn printer (print_jdn_one + contains_bad_chars, pp.c) against the READER (parse.c).
 * A symbol / keyword is printed as its bare text (keywords behind a colon); that only round-trips when the reader, given that
 * text followed by a delimiter, produces exactly one value: the same symbol / keyword.  The reader's token rules (tokenchar):
 *     :xyz -> keyword;  text that scans as a number (optional sign, digits, radix, ., exponent, :n :s :u suffix) -> number;
 *     nil / true / false -> those constants;  leading digit or invalid UTF-8 -> error;  otherwise -> symbol.
 *
 * h_jdn_symbol_alphabet  what print_jdn_one refuses by looking at the characters (passes):
 *     accepted  ==>  every byte belongs to the symbol alphabet, the text is valid UTF-8, a symbol does not start with a digit;
 *     refused   ==>  one of those three is violated (no over-rejection); accepted text is printed through janet_description_b.
 * h_jdn_symbol_roundtrip  the round trip proper, on texts chosen by -DSYMCLASS (the REAL printer output is fed to the REAL
 *     janet_parser_consume, with the real number scanner of strtod.c):
 *     1  symbols of 1..2 lower-case letters (all 702)                      3  symbols nil, true, false
 *     2  keywords of 0..2 bytes of the ASCII symbol alphabet                4  symbols that scan as numbers (-1 +1 .5 -0x10 -2r1 1:n is refused..)
 *                                                                           5  symbols with a leading colon       6  the empty symbol
 *     Obligation: refused by the printer, or the reader yields exactly one value, of the same type, interned from the same text.
 * JANET_NO_NANBOX configuration; janet_symbol is a recording stub (symbol cache: C01/C03 units).
 *
 * FINDING (classes 3-6 FAILED on the pinned tree, reproduced on /repo/_build/janet; repaired in /repo d944b13 - the units pass now):
 *   (each s ["nil" "true" "false" "-1" "+1" ".5" "-0x10" "-2r1" "-1_" ":a" ""]
 *     (def sym (symbol s)) (def txt (string/format "%j" sym)) (def back (protect (parse txt)))
 *     (printf "%q -> %q -> %q %s" s txt back (if (and (back 0) (= (back 1) sym)) "ok" "MISMATCH")))
 *   prints MISMATCH for every one of them: nil/true/false read back as the constants, -1 +1 .5 -0x10 -2r1 -1_ as numbers, :a as the
 *   keyword :a, and the empty symbol prints nothing at all ((string/format "%j" [(symbol "") 1]) is "( 1)", a one-element tuple).
 *   Symbols starting with a digit ("1e3"), containing whitespace or invalid UTF-8 are refused as they should be.
 *   Repair (checked with these units: all six classes pass): contains_bad_chars must also refuse, for symbols, the empty text, a leading
 *   colon, the words nil / true / false and any text janet_scan_numeric accepts. */
#include "prelude.h"
#define PS(c, msg) __CPROVER_assert(c, "C11 jdn symbol: " msg)
int print_jdn_one__entry(struct pretty *S, Janet x, int depth);
static JanetBuffer s_outbuf; static struct pretty s_S;
uint8_t s_out[12]; int s_n;
void ps_push_u8_stub(JanetBuffer *b, uint8_t c) { __CPROVER_assert(s_n < 12, "ghost capacity"); s_out[s_n++] = c; }
void ps_push_bytes_stub(JanetBuffer *b, const uint8_t *bytes, int32_t len) { __CPROVER_assert(len >= 0 && s_n + len <= 12, "ghost capacity"); for (int i = 0; i < 8; i++) if (i < len) s_out[s_n++] = bytes[i]; }
int s_desc_calls; JanetType s_desc_type; const void *s_desc_ptr;
void ps_description_stub(JanetBuffer *b, Janet x) { s_desc_calls++; s_desc_type = x.type; s_desc_ptr = x.as.pointer; }
/* the number scanner, in the alphabet unit only (the round-trip units use the real strtod.c): any verdict; it may only be asked
 * about text that starts with a sign or a dot (text starting with a digit is refused before, other text cannot be a number) */
int ps_scan_numeric_alpha_stub(const uint8_t *str, int32_t len, Janet *out) {
  __CPROVER_assert(len >= 1 && (str[0] == '-' || str[0] == '+' || str[0] == '.'), "C11 jdn symbol: the number scanner is consulted only for text that can be a number");
  return nd_int() & 1;
}
int ps_child_stub(struct pretty *S, Janet x, int depth) { __CPROVER_assert(0, "C11 jdn symbol: a symbol has no children"); return 1; }
/* the reader's interning call */
uint8_t s_sym_text[8]; int32_t s_sym_len; int s_sym_calls; static struct { JanetStringHead h; uint8_t room[8]; } s_interned;
const uint8_t *ps_symbol_stub(const uint8_t *str, int32_t len) {
  s_sym_calls++; s_sym_len = len;
  for (int i = 0; i < 8; i++) if (i < len) s_sym_text[i] = str[i];
  return (const uint8_t *) &s_interned.room[0];
}
/* realloc: copying model (fresh block, old bytes copied, old block left alone): the number scanner grows its digit vector with it */
void *ps_realloc_stub(void *q, size_t n) {
  __CPROVER_assert(n <= 128, "harness bound: reallocation request fits the model block");
  uint8_t *fresh = malloc(128);
  size_t old = q ? __CPROVER_OBJECT_SIZE(q) : 0;
  for (size_t i = 0; i < 128; i++) if (i < old && i < n) fresh[i] = ((uint8_t *) q)[i];
  return fresh;
}

/* the documented symbol alphabet (parse.c comment table / unit parse.symchar) */
static int sym_alpha(uint8_t c) {
  if (c >= 'a' && c <= 'z') return 1; if (c >= 'A' && c <= 'Z') return 1; if (c >= '0' && c <= '9') return 1; if (c >= 0x80) return 1;
  return c == '!' || c == '$' || c == '%' || c == '&' || c == '*' || c == '+' || c == '-' || c == '.' || c == '/' || c == ':' || c == '<' || c == '=' || c == '>' || c == '?' || c == '@' || c == '^' || c == '_';
}
static Janet mk_sym(JanetType t, const uint8_t *text, int len, uint8_t *copy) {
  JanetStringHead *h = malloc(sizeof(JanetStringHead) + 4); h->length = len; h->hash = nd_i32(); h->gc.flags = 2; /* JANET_MEMORY_SYMBOL (gc.h) */
  for (int i = 0; i < 4; i++) { uint8_t v = i < len ? text[i] : 0; ((uint8_t *) h->data)[i] = v; copy[i] = v; }
  Janet x; x.as.u64 = 0; x.as.pointer = (void *) h->data; x.type = t; return x;
}
static void ps_setup(void) { s_S.buffer = &s_outbuf; s_S.depth = 4; s_S.indent = 0; s_S.flags = 0; s_n = 0; s_desc_calls = 0; s_sym_calls = 0; }

void h_jdn_symbol_alphabet(void) {
  ps_setup();
  uint8_t text[4], copy[4]; int len = nd_int(); __CPROVER_assume(len >= 0 && len <= 3);
  for (int i = 0; i < 4; i++) text[i] = nd_u8();
  int issym = nd_int() != 0;
  Janet x = mk_sym(issym ? JANET_SYMBOL : JANET_KEYWORD, text, len, copy);
  int r = print_jdn_one__entry(&s_S, x, 3);
  int alpha = 1, ascii = 1; for (int i = 0; i < 3; i++) if (i < len) { if (!sym_alpha(copy[i])) alpha = 0; if (copy[i] >= 0x80) ascii = 0; }
  int digit0 = len > 0 && copy[0] >= '0' && copy[0] <= '9';
  PS(r == 0 || r == 1, "result is a flag");
  if (r == 0) {
    PS(alpha, "an accepted symbol / keyword consists of characters of the symbol alphabet only (no whitespace, delimiters, quotes ...)");
    PS(!(issym && digit0), "an accepted symbol does not start with a digit (the reader rejects such a token)");
    PS(janet_valid_utf8(copy, len), "an accepted symbol / keyword is valid UTF-8 (the reader rejects other tokens)");
    PS(s_desc_calls == 1 && s_desc_type == x.type && s_desc_ptr == x.as.pointer, "accepted text is printed once, through janet_description_b");
  } else {
    PS(s_desc_calls == 0 && s_n == 0, "a refused symbol / keyword prints nothing");
    /* no over-rejection: keywords always print; symbols at least when they start with a letter and are not a constant's name
     * (text starting with a sign or a dot may scan as a number, a leading colon reads back as a keyword, the empty text as nothing:
     * those are refused since /repo d944b13 - units pp.jdn.symbol.rt.*) */
    int letter0 = len > 0 && ((copy[0] | 32) >= 'a' && (copy[0] | 32) <= 'z');
    int is_nil = len == 3 && copy[0] == 'n' && copy[1] == 'i' && copy[2] == 'l';
    PS(!(alpha && ascii && (issym ? (letter0 && !is_nil) : 1)), "plain ASCII text of the symbol alphabet is never refused (keywords; symbols starting with a letter other than the word nil)");
  }
  if (r == 0 && len == 3 && !ascii) REACH("jdn symbol: accepted multi-byte UTF-8 text"); if (r == 1 && alpha && !ascii) REACH("jdn symbol: refused for invalid UTF-8");
  if (r == 1 && !alpha) REACH("jdn symbol: refused for a character outside the alphabet"); if (r == 1 && issym && digit0 && alpha) REACH("jdn symbol: refused for a leading digit");
  if (r == 0 && !issym && digit0) REACH("jdn keyword: leading digit is fine");
  REACH("print_jdn_one returns");
}

#ifndef SYMCLASS
#define SYMCLASS 1
#endif
#if SYMCLASS == 2
#define RT_TYPE_MSG "a printed keyword reads back as a keyword"
#define RT_TYPE JANET_KEYWORD
#else
#define RT_TYPE_MSG "a printed symbol reads back as a symbol - not as nil / true / false, a number or a keyword"
#define RT_TYPE JANET_SYMBOL
#endif
/* classes with symbolic characters (1, 2, 5) hand the reader the accumulated token (tokenchar's own accumulation of symbol characters is
 * units parse.consumer.tokenchar / root_open) and never reach the number scanner: its stub fails if it is consulted */
int ps_scan_numeric_stub(const uint8_t *str, int32_t len, Janet *out) { __CPROVER_assert(0, "C11 jdn symbol: harness - the number scanner is not consulted for this class of texts"); return 1; }
int g_printed, g_refused;
/* print (real printer), then read (real reader); len is a constant at every call site */
static void rt(const uint8_t *text, int len, int preload) {
  ps_setup();
  JanetStringHead *h = malloc(sizeof(JanetStringHead) + 8); h->length = len; h->hash = nd_i32(); h->gc.flags = 2; /* JANET_MEMORY_SYMBOL (gc.h) */
  for (int i = 0; i < 8; i++) ((uint8_t *) h->data)[i] = i < len ? text[i] : 0;
  Janet x; x.as.u64 = 0; x.as.pointer = (void *) h->data; x.type = RT_TYPE;
  int r = print_jdn_one__entry(&s_S, x, 3);
  if (r != 0) { g_refused = 1; PS(s_n == 0, "a refused symbol / keyword prints nothing"); return; }
  g_printed = 1;
  /* the reader, inside an open ( ... so that the value lands on the argument stack unwrapped */
  JanetParser p; JanetParseState st[4]; uint8_t buf[12]; Janet args[2];
  p.args = args; p.argcount = 0; p.argcap = 2; p.pending = 0; p.buf = buf; p.bufcount = 0; p.bufcap = 12;
  p.states = st; p.statecount = 2; p.statecap = 4; p.error = 0; p.flag = 0; p.lookback = '('; p.line = 1; p.column = 1;
  st[0].consumer = root; st[0].flags = PFLAG_CONTAINER; st[0].argn = 0; st[0].counter = 0; st[0].line = 1; st[0].column = 0;
  st[1].consumer = root; st[1].flags = PFLAG_CONTAINER | PFLAG_PARENS; st[1].argn = 0; st[1].counter = 0; st[1].line = 1; st[1].column = 1;
  if (preload) {
    PS(s_n >= 1, "harness: a preloaded token is not empty");
    for (int k = 0; k < 8; k++) if (k < s_n) { PS(s_out[k] < 0x80 && sym_alpha(s_out[k]), "harness: preloaded tokens consist of ASCII symbol characters"); buf[k] = s_out[k]; }
    p.bufcount = (size_t) s_n;
    st[2].consumer = tokenchar; st[2].flags = PFLAG_TOKEN; st[2].argn = 0; st[2].counter = 0; st[2].line = 1; st[2].column = 2; p.statecount = 3;
    int consumed = tokenchar(&p, &st[2], ' ');      /* the delimiter ends the token (called directly: no consumer dispatch through a symbolic function pointer) */
    PS(consumed == 0, "the delimiter itself is left to the enclosing form");
  } else {
    for (int k = 0; k < 8; k++) if (k < s_n) janet_parser_consume(&p, s_out[k]);
    janet_parser_consume(&p, ' ');
  }
  PS(p.error == 0, "the printed text is accepted by the reader (no parse error)");
  PS(p.statecount == 2 && p.argcount == 1, "the printed text reads back as exactly one value");
  PS(p.argcount == 1 && args[0].type == RT_TYPE, RT_TYPE_MSG);
  PS(s_sym_calls == 1 && s_sym_len == len, "the value read back is interned from a text of the same length");
  for (int i = 0; i < 8; i++) if (i < len) PS(s_sym_text[i] == text[i], "the value read back is interned from the same text");
}
void h_jdn_symbol_roundtrip(void) {
  uint8_t t[8]; for (int i = 0; i < 8; i++) t[i] = 0;
  g_printed = g_refused = 0;
#if SYMCLASS == 1
  for (int i = 0; i < 2; i++) { t[i] = nd_u8(); __CPROVER_assume(t[i] >= 'a' && t[i] <= 'z'); }
  if (nd_int()) rt(t, 1, 1); else rt(t, 2, 1);
#elif SYMCLASS == 2
  for (int i = 0; i < 2; i++) { t[i] = nd_u8(); __CPROVER_assume(t[i] < 0x80 && sym_alpha(t[i])); }
  int len = nd_int(); if (len == 0) rt(t, 0, 1); else if (len == 1) rt(t, 1, 1); else rt(t, 2, 1);
#elif SYMCLASS == 3
  int w = nd_int(); if (w == 0) rt((const uint8_t *) "nil", 3, 0); else if (w == 1) rt((const uint8_t *) "true", 4, 0); else rt((const uint8_t *) "false", 5, 0);
#elif SYMCLASS == 4
  int w = nd_int();
  if (w == 0) rt((const uint8_t *) "-1", 2, 0); else if (w == 1) rt((const uint8_t *) "+1", 2, 0); else if (w == 2) rt((const uint8_t *) ".5", 2, 0);
  else if (w == 3) rt((const uint8_t *) "-0xf", 4, 0); else rt((const uint8_t *) "-2r1", 4, 0);
#elif SYMCLASS == 5
  t[0] = ':'; t[1] = nd_u8(); __CPROVER_assume(t[1] >= 'a' && t[1] <= 'z');
  if (nd_int()) rt(t, 1, 1); else rt(t, 2, 1);
#else
  rt(t, 0, 0);
#endif
  if (g_printed) __CPROVER_assert(0, "REACH-ANY: jdn symbol: printed and read back");
  if (g_refused) __CPROVER_assert(0, "REACH-ANY: jdn symbol: refused by the printer");
  REACH("print_jdn_one returns");
}
