/* C11 "every value printable in Janet data notation (%j) parses back to a deep-equal value": the PRINT side of string and buffer
 * literals (pp.c: janet_escape_string_impl / janet_escape_string_b / janet_escape_buffer_b).
 *
 * Specification of one printed byte c (a RELATION on the emitted unit u[0..n), stated with the parser's own decoding tables -
 * the real checkescape and to_hex of parse.c, themselves pinned by units parse.checkescape / parse.to_hex):
 *     printable ASCII other than " and \   ->  the unit is the byte itself (verbatim, n == 1);
 *     every other byte                      ->  never verbatim; either  \L  with L not one of x u U and checkescape(L) == c,
 *                                               or  \xHH  with to_hex(H1) * 16 + to_hex(H2) == c.
 * A printed string is  "  unit(s[0]) ... unit(s[len-1])  "  in order, nothing else; exactly len source bytes are read (NUL bytes
 * included: the length comes from the string head, not from a terminator); a buffer is the same with a leading @.
 * The consumer-level counterpart (the real stringchar/escape1/escapeh state machine accepts the unit and yields c) is unit
 * parse.escape_roundtrip.  janet_buffer_push_u8 / janet_buffer_push_bytes are recording stubs (buffer.c is proved under C04/C17). */
#include "prelude.h"
#define PE(c, msg) __CPROVER_assert(c, "C11 escape: " msg)
#define OUTCAP 40
uint8_t g_out[OUTCAP]; int g_n; JanetBuffer *g_dst; int g_ensure_calls;
void pe_push_u8_stub(JanetBuffer *b, uint8_t x) { PE(b == g_dst, "output goes to the destination buffer"); __CPROVER_assert(g_n < OUTCAP, "ghost capacity"); g_out[g_n++] = x; }
void pe_push_bytes_stub(JanetBuffer *b, const uint8_t *bytes, int32_t len) {
  PE(b == g_dst, "output goes to the destination buffer");
  __CPROVER_assert(len >= 0 && len <= 4 && g_n + len <= OUTCAP, "ghost capacity");
  for (int32_t i = 0; i < 4; i++) if (i < len) g_out[g_n++] = bytes[i];
}
void pe_ensure_stub(JanetBuffer *b, int32_t capacity, int32_t growth) { g_ensure_calls++; }

/* length of the unit that starts at g_out[pos] */
static int unit_len(int pos) { if (g_out[pos] != '\\') return 1; return g_out[pos + 1] == 'x' ? 4 : 2; }
/* is g_out[pos..pos+n) an admissible rendering of byte c (see header) */
static int unit_ok(uint8_t c, int pos, int n) {
  int printable = c >= 32 && c <= 126 && c != '"' && c != '\\';
  if (printable) return n == 1 && g_out[pos] == c;
  if (n == 2) { uint8_t l = g_out[pos + 1]; return g_out[pos] == '\\' && l != 'x' && l != 'u' && l != 'U' && checkescape(l) == (int) c; }
  if (n == 4) { int h = to_hex(g_out[pos + 2]), l = to_hex(g_out[pos + 3]); return g_out[pos] == '\\' && g_out[pos + 1] == 'x' && h >= 0 && l >= 0 && h * 16 + l == (int) c; }
  return 0;
}
/* checks g_out[from..g_n) == " unit(s[0]) .. unit(s[len-1]) " */
static void check_literal(const uint8_t *s, int len, int from) {
  PE(g_n >= from + 2 && g_out[from] == '"', "the literal opens with a double quote");
  int pos = from + 1;
  for (int i = 0; i < 3; i++) if (i < len) {
    PE(pos < g_n - 1, "every source byte has a unit before the closing quote");
    int n = unit_len(pos);
    PE(pos + n <= g_n - 1 && unit_ok(s[i], pos, n), "byte i is printed verbatim (printable ASCII other than quote and backslash) or as an escape the parser decodes back to the same byte");
    pos += n;
  }
  PE(pos == g_n - 1 && g_out[pos] == '"', "the literal closes with a double quote directly after the last byte: nothing is added, nothing dropped");
}

/* every byte value on its own */
void h_escape_classes(void) {
  uint8_t *c = malloc(1); *c = nd_u8();
  JanetBuffer b; g_dst = &b; g_n = 0;
  janet_escape_string_impl(&b, c, 1);
  check_literal(c, 1, 0);
  int n = g_n - 2;
  PE(n == 1 || n == 2 || n == 4, "a byte costs 1, 2 or 4 characters");
  if (*c == 0) REACH("escape: NUL byte"); if (*c == 0x7f) REACH("escape: DEL"); if (*c == 0xff) REACH("escape: 0xFF"); if (*c == 'a') REACH("escape: printable");
  if (*c == '"') REACH("escape: quote"); if (*c == '\\') REACH("escape: backslash"); if (*c == 27) REACH("escape: ESC");
  REACH("janet_escape_string_impl returns");
}
/* strings of 0..3 bytes through janet_escape_string_b: order, completeness, length taken from the head, exact read range */
static void run_string(int n) {
  JanetStringHead *h = malloc(sizeof(JanetStringHead) + n);     /* exact size: reading s[n] is a pointer-check failure */
  uint8_t copy[3];
  h->length = n; h->hash = nd_i32(); h->gc.flags = nd_i32();
  for (int i = 0; i < 3; i++) if (i < n) { uint8_t v = nd_u8(); ((uint8_t *) h->data)[i] = v; copy[i] = v; } else copy[i] = 0;
  JanetBuffer b; g_dst = &b; g_n = 0;
  janet_escape_string_b(&b, h->data);
  check_literal(copy, n, 0);
  if (n == 3 && copy[0] == 0 && copy[1] == 'x' && copy[2] == 0) REACH("escape: string with embedded NUL bytes");
}
void h_escape_string(void) {
  int len = nd_int(); __CPROVER_assume(len >= 0 && len <= 3);
  if (len == 0) run_string(0); else if (len == 1) run_string(1); else if (len == 2) run_string(2); else run_string(3);
  if (len == 0) REACH("escape: empty string");
  REACH("janet_escape_string_b returns");
}
/* a buffer printed into ANOTHER buffer: @ + literal of data[0..count), capacity bytes beyond count are not read, no reservation needed */
void h_escape_buffer(void) {
  JanetBuffer src, dst; uint8_t *bytes = malloc(3); uint8_t copy[3];
  for (int i = 0; i < 3; i++) { bytes[i] = nd_u8(); copy[i] = bytes[i]; }
  src.data = bytes; src.count = nd_i32(); src.capacity = 3; src.gc.flags = 0; __CPROVER_assume(src.count >= 0 && src.count <= 3);
  int32_t n = src.count;
  g_dst = &dst; g_n = 0; g_ensure_calls = 0;
  janet_escape_buffer_b(&dst, &src);
  PE(g_n >= 1 && g_out[0] == '@', "a buffer literal starts with @");
  check_literal(copy, n, 1);
  PE(src.count == n && src.data == bytes && bytes[0] == copy[0] && bytes[1] == copy[1] && bytes[2] == copy[2], "the printed buffer is not modified");
  if (n == 0) REACH("escape: empty buffer"); if (n == 3) REACH("escape: full buffer");
  REACH("janet_escape_buffer_b returns");
}
