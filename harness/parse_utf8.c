/* C11 token level: janet_valid_utf8 (used for every symbol and keyword that contains a byte >= 0x80).
 * For EVERY length: never reads outside str[0..len) (generated pointer/bounds obligations, loops closed by contracts), and
 * acceptance is sound: if it returns 1 then every position (ghost index g_u) belongs to a well-formed, shortest-form 1..4 byte
 * sequence that lies inside the string (no 5/6-byte leads, no stray or missing continuation bytes, no C0/C1/E0 80..9F/F0 80..8F
 * overlong forms).  Code points are deliberately not range-checked by the implementation ("only validates the encoding").
 * Completeness (every well-formed string IS accepted) is the bounded unit parse.valid_utf8.exact. */
#include "prelude.h"
#include "parse_utf8.h"

int32_t g_u;   /* ghost position, unconstrained */

int janet_valid_utf8_c(const uint8_t *str, int32_t len)
__CPROVER_requires(len >= 0 && len <= INT32_MAX - 4)         /* see final report: i + 4 overflows int32 for tokens within 4 bytes of 2 GiB */
__CPROVER_requires(__CPROVER_is_fresh(str, len))
__CPROVER_requires(g_u >= 0)
__CPROVER_assigns()
__CPROVER_ensures(__CPROVER_return_value == 0 || __CPROVER_return_value == 1)
__CPROVER_ensures(__CPROVER_return_value == 1 ==> U_WELLFORMED_AT(g_u, len))
;
void h_valid_utf8(void) {
  const uint8_t *s; int32_t n;
  int r = janet_valid_utf8(s, n);
  REACH("normal return of janet_valid_utf8");
  if (r) REACH("janet_valid_utf8 accepts");
}

/* ---- exactness on short strings: independent reference recogniser (Unicode Table 3-7 without the code point range rows) ------ */
#ifndef UTF8_EXACT_LEN
#define UTF8_EXACT_LEN 5
#endif
static int ref_cont(uint8_t b) { return b >= 0x80 && b <= 0xBF; }
static int ref_valid(const uint8_t *s, int n) {
  int i = 0;
  while (i < n) {
    uint8_t b = s[i];
    if (b <= 0x7F) i += 1;
    else if (b >= 0xC2 && b <= 0xDF) { if (i + 1 >= n || !ref_cont(s[i + 1])) return 0; i += 2; }
    else if (b >= 0xE0 && b <= 0xEF) { if (i + 2 >= n || !ref_cont(s[i + 1]) || !ref_cont(s[i + 2])) return 0; if (b == 0xE0 && s[i + 1] < 0xA0) return 0; i += 3; }
    else if (b >= 0xF0 && b <= 0xF7) { if (i + 3 >= n || !ref_cont(s[i + 1]) || !ref_cont(s[i + 2]) || !ref_cont(s[i + 3])) return 0; if (b == 0xF0 && s[i + 1] < 0x90) return 0; i += 4; }
    else return 0;
  }
  return 1;
}
void h_valid_utf8_exact(void) {
  uint8_t s[UTF8_EXACT_LEN];
  for (int k = 0; k < UTF8_EXACT_LEN; k++) s[k] = nd_u8();
  int n = nd_int();
  __CPROVER_assume(n >= 0 && n <= UTF8_EXACT_LEN);
  int r = janet_valid_utf8(s, n);
  __CPROVER_assert(r == ref_valid(s, n), "C11: janet_valid_utf8 accepts exactly the well-formed shortest-form sequences");
  REACH("normal return of janet_valid_utf8 (short strings)");
}
