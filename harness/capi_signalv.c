/* C07 / C05: janet_signalv (capi.c), the single exit of every C function that raises, yields or awaits. While C code re-enters the
 * VM (janet_call: coerce_error set) a signal other than OK is turned into an error. An AWAIT that is refused this way has already
 * registered what it waits for (a timer, a channel entry, a stream listener) under the root fiber's current generation: the
 * generation is bumped so that none of these can ever resume the fiber for the wait that never happened. The message is handed over
 * through the return register, the fiber is flagged, and the function leaves through longjmp with the (coerced) signal.
 * The function does not return: the postconditions are asserted at the jump (longjmp stub), on ghost copies of the inputs. */
#include "prelude.h"
#include <setjmp.h>
static JanetFiber sv_root, sv_cur; static Janet sv_ret; static jmp_buf sv_buf;
static int g_sig, g_coerce, g_have_root; static uint32_t g_id0; static uint64_t g_msg;
void sv_longjmp_stub(struct __jmp_buf_tag *env, int val) {
  int coerced = g_coerce && g_sig != JANET_SIGNAL_OK;
  __CPROVER_assert(env == (struct __jmp_buf_tag *) sv_buf, "signalv: leaves through the current signal buffer");
  __CPROVER_assert(val == (coerced ? JANET_SIGNAL_ERROR : g_sig), "signalv: the signal is delivered unchanged, or as an error while C code has re-entered the VM");
  __CPROVER_assert(sv_cur.flags & JANET_FIBER_DID_LONGJUMP, "signalv: the current fiber is flagged as left by a jump");
  if (!coerced || g_sig == JANET_SIGNAL_ERROR) __CPROVER_assert(sv_ret.type == JANET_NUMBER && sv_ret.as.u64 == g_msg, "signalv: the message reaches the return register unchanged");
  else __CPROVER_assert(sv_ret.type == JANET_STRING, "signalv: a coerced signal carries an explanatory message");
  if (coerced && g_sig == JANET_SIGNAL_EVENT && g_have_root) {
    __CPROVER_assert(sv_root.sched_id == g_id0 + 1, "signalv: a refused await starts a new generation of the root fiber - whatever the await registered can no longer resume it");
    REACH("refused await");
  } else __CPROVER_assert(sv_root.sched_id == g_id0, "signalv: the generation changes in no other case");
  REACH("signalv jumps");
  __CPROVER_assume(0);
}
const uint8_t *sv_formatc_stub(const char *fmt, ...) { return (const uint8_t *) "coerced"; }
void h_signalv(void) {
  g_sig = nd_int(); __CPROVER_assume(g_sig >= JANET_SIGNAL_OK && g_sig <= JANET_SIGNAL_USER9);
  g_coerce = nd_int() & 1; g_have_root = nd_int() & 1;
  janet_vm.return_reg = &sv_ret; janet_vm.coerce_error = g_coerce; janet_vm.root_fiber = g_have_root ? &sv_root : (JanetFiber *)0; janet_vm.fiber = &sv_cur;
  janet_vm.signal_buf = &sv_buf; sv_root.sched_id = nd_u32(); sv_cur.flags = nd_i32() & ~JANET_FIBER_DID_LONGJUMP; g_id0 = sv_root.sched_id;
  Janet msg; msg.type = JANET_NUMBER; msg.as.u64 = nd_u64(); g_msg = msg.as.u64;
  janet_signalv((JanetSignal) g_sig, msg);
  __CPROVER_assert(0, "signalv: does not return while a return register is installed");
}
