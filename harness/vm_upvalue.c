/* C10 / C02: the upvalue instructions of run_vm (vm.c JOP_LOAD_UPVALUE, JOP_SET_UPVALUE), single-step harness (see
 * vm_step.c for the technique). janet_verify can only check the ENVIRONMENT index of these instructions (bytecode.c
 * JINT_SES); the slot index inside the environment is protected by run-time checks in the interpreter alone. Contract:
 * for every environment length and every slot operand, the instruction either raises or accesses exactly slot
 * `vindex` of the named environment - never memory outside it. The contract clause `a slot index outside the environment is refused` is the
 * memory-safety obligation (a detached value block has exactly `length` slots in the real allocator); operands beyond
 * the largest environment additionally fail CBMC's own pointer checks. */
#include "prelude.h"

#define VU_SLOTS 3
#define VU_ENVMAX 3
static uint32_t vu_code[2];
static JanetFuncDef vu_def;
static JanetFunction *vu_fn;   /* heap block: function header followed by its two environment pointers (flexible array member) */
static struct { JanetStackFrame fr; char pad[JANET_FRAME_SIZE * sizeof(Janet) - sizeof(JanetStackFrame)]; Janet slots[VU_SLOTS]; } vu_mem;
static JanetFiber vu_fiber;
static JanetFuncEnv vu_env[2];
static Janet vu_ret;
/* the fiber whose frame an on-stack environment refers to */
static JanetFuncDef vu_odef;
static JanetFunction vu_ofunc;
static struct { JanetStackFrame fr; char pad[JANET_FRAME_SIZE * sizeof(Janet) - sizeof(JanetStackFrame)]; Janet slots[VU_ENVMAX]; } vu_omem;
static JanetFiber vu_ofiber;
static Janet vu_val0[VU_ENVMAX], vu_val1[VU_ENVMAX];   /* detached value blocks (the contract `refused` below pins the exact length) */
static Janet vu_old_slot[VU_SLOTS];
static Janet vu_old_env[2][VU_ENVMAX];

static int vu_same(Janet a, Janet b) { return a.type == b.type && a.as.u64 == b.as.u64; }
static Janet vu_any(void) {
    Janet v; v.type = (JanetType) nd_int();
    __CPROVER_assume(v.type >= JANET_NUMBER && v.type <= JANET_POINTER);
    v.as.u64 = nd_u64(); return v;
}
void vu_collect_stub(void) {}

static int32_t vu_len[2];
static int vu_onstack[2];
static Janet vu_envget(int e, int k) { if (vu_onstack[e]) return vu_omem.slots[k]; if (e == 0) return vu_val0[k]; return vu_val1[k]; }
static void vu_envset(int e, int k, Janet x) { if (vu_onstack[e]) vu_omem.slots[k] = x; else if (e == 0) vu_val0[k] = x; else vu_val1[k] = x; }

static void vu_step(uint32_t op, uint32_t a, uint32_t e, uint32_t v) {
    vu_code[0] = op | (a << 8) | (e << 16) | (v << 24);
    vu_code[1] = 0x80 | JOP_NOOP;
    vu_def.bytecode = vu_code; vu_def.bytecode_length = 2; vu_def.slotcount = VU_SLOTS;
    vu_def.environments_length = nd_i32();
    /* janet_verify: the environment operand is below environments_length (JINT_SES) */
    __CPROVER_assume(vu_def.environments_length >= 0 && vu_def.environments_length <= 2 && (int32_t) e < vu_def.environments_length);
    vu_fn = malloc(sizeof(JanetFunction) + 2 * sizeof(JanetFuncEnv *));
    __CPROVER_assume(vu_fn != (JanetFunction *)0);
    vu_fn->def = &vu_def;
    /* environment 0 is detached; environment 1 is detached or (VU_ONSTACK) refers to the live frame of another fiber.
     * Written without loops or conditional pointer stores: CBMC loses the target of a union-held pointer otherwise. */
    vu_fn->envs[0] = &vu_env[0];
    vu_fn->envs[1] = &vu_env[1];
    vu_len[0] = nd_i32(); vu_len[1] = nd_i32();
    __CPROVER_assume(vu_len[0] >= 0 && vu_len[0] <= VU_ENVMAX && vu_len[1] >= 0 && vu_len[1] <= VU_ENVMAX);
    vu_env[0].length = vu_len[0]; vu_env[0].offset = 0; vu_env[0].as.values = vu_val0; vu_onstack[0] = 0;
    vu_env[1].length = vu_len[1];
#ifdef VU_ONSTACK
    __CPROVER_assume(vu_len[1] == VU_ENVMAX);
    /* offset is the frame's position in the owning fiber, possibly still in its unverified negative form */
    vu_env[1].offset = nd_int() ? JANET_FRAME_SIZE : -JANET_FRAME_SIZE;
    vu_env[1].as.fiber = &vu_ofiber; vu_onstack[1] = 1;
    int which_on = 1;
#else
    vu_env[1].offset = 0; vu_env[1].as.values = vu_val1; vu_onstack[1] = 0;
    int which_on = -1;
#endif
    vu_odef.slotcount = VU_ENVMAX;
    vu_ofunc.def = &vu_odef;
    vu_ofiber.data = (Janet *) &vu_omem; vu_ofiber.frame = JANET_FRAME_SIZE; vu_ofiber.capacity = JANET_FRAME_SIZE + VU_ENVMAX;
    vu_ofiber.stackstart = vu_ofiber.stacktop = JANET_FRAME_SIZE + VU_ENVMAX;
    vu_omem.fr.func = &vu_ofunc; vu_omem.fr.prevframe = 0; vu_omem.fr.pc = vu_code;
    vu_omem.fr.env = (which_on == 0 || which_on == 1) ? &vu_env[which_on] : (JanetFuncEnv *)0;
    for (int i = 0; i < 2; i++)
        for (int k = 0; k < VU_ENVMAX; k++)
            if (k < vu_len[i]) { Janet x = vu_any(); vu_envset(i, k, x); vu_old_env[i][k] = x; }

    vu_fiber.data = (Janet *) &vu_mem; vu_fiber.capacity = JANET_FRAME_SIZE + VU_SLOTS; vu_fiber.frame = JANET_FRAME_SIZE;
    vu_fiber.stackstart = vu_fiber.stacktop = JANET_FRAME_SIZE + VU_SLOTS; vu_fiber.maxstack = 1000; vu_fiber.child = (JanetFiber *)0;
    vu_fiber.flags = JANET_FIBER_RESUME_NO_USEVAL | JANET_FIBER_RESUME_NO_SKIP | JANET_FIBER_MASK_ERROR;
    vu_mem.fr.func = vu_fn; vu_mem.fr.pc = vu_code; vu_mem.fr.env = (JanetFuncEnv *)0; vu_mem.fr.prevframe = 0; vu_mem.fr.flags = JANET_STACKFRAME_ENTRANCE;
    for (int i = 0; i < VU_SLOTS; i++) { vu_mem.slots[i] = vu_any(); vu_old_slot[i] = vu_mem.slots[i]; }
    janet_vm.fiber = &vu_fiber; janet_vm.return_reg = &vu_ret; janet_vm.auto_suspend = 0;
    janet_vm.next_collection = nd_size(); janet_vm.gc_interval = nd_size();

    Janet in; in.type = JANET_NIL; in.as.u64 = 0;
    JanetSignal sig = run_vm(&vu_fiber, in);
    /* returns normally (panics never return): the access was legal and exact */
    __CPROVER_assert(sig == JANET_SIGNAL_DEBUG, "vm.upvalue: the instruction continues with the next one");
    __CPROVER_assert((int32_t) v < vu_len[e], "vm.upvalue: a slot index outside the environment is refused");
#ifndef VU_STORE
    {
        __CPROVER_assert(vu_same(vu_mem.slots[a], vu_old_env[e][v]), "vm.upvalue: load reads exactly slot vindex of environment eindex");
        __CPROVER_assert(vu_same(vu_envget(e, v), vu_old_env[e][v]), "vm.upvalue: load leaves the environment unchanged");
        REACH("vm.upvalue: load returns");
    }
#else
    {
        __CPROVER_assert(vu_same(vu_envget(e, v), vu_old_slot[a]), "vm.upvalue: store writes exactly slot vindex of environment eindex");
        __CPROVER_assert(vu_same(vu_mem.slots[a], vu_old_slot[a]), "vm.upvalue: store leaves the source slot unchanged");
        REACH("vm.upvalue: store returns");
    }
#endif
#ifdef VU_ONSTACK
    REACH("vm.upvalue: on-stack environment");
#else
    REACH("vm.upvalue: detached environment");
#endif
    /* every other environment slot keeps its value */
    int ge = nd_int(), gk = nd_int();
    __CPROVER_assume(ge >= 0 && ge < 2 && gk >= 0 && gk < vu_len[ge] && !(ge == (int) e && gk == (int) v));
    __CPROVER_assume(!(vu_onstack[ge] && vu_onstack[e] && gk == (int) v));
    __CPROVER_assert(vu_same(vu_envget(ge, gk), vu_old_env[ge][gk]), "vm.upvalue: every other environment slot keeps its value");
}

#ifdef VU_STORE
#define VU_OP JOP_SET_UPVALUE
#else
#define VU_OP JOP_LOAD_UPVALUE
#endif
#define VU(a, e, v) vu_step(VU_OP, a, e, v)
void h_vm_upvalue(void) {
    int k = nd_int();
    /* slot operands 0..3, 128, 255 against environment lengths 0..3 */
#ifdef VU_ONSTACK
    /* environment 1 is the live frame (3 slots) of another fiber; CBMC 6.11 cannot dereference a pointer held in a
     * non-first union member (probed: design-probes/src/union_member.c), so the detached environment 0 is not
     * exercised in this configuration and vice versa */
    if (k == 4) VU(0, 1, 0); else if (k == 5) VU(1, 1, 1); else if (k == 6) VU(2, 1, 2); else if (k == 7) VU(0, 1, 3); else VU(1, 1, 128);
#else
    if (k == 0) VU(0, 0, 0); else if (k == 1) VU(1, 0, 1); else if (k == 2) VU(2, 0, 2); else if (k == 3) VU(0, 0, 3);
    else if (k == 4) VU(0, 1, 0); else if (k == 5) VU(1, 1, 1); else if (k == 6) VU(2, 1, 2); else if (k == 7) VU(0, 1, 3);
    else if (k == 8) VU(0, 0, 255); else VU(1, 1, 128);
#endif
}
